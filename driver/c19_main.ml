open Model
open Zio
let zl l = List.map z_of_int l
let iz = int_of_z
let pairs l = String.concat " " (List.map (fun (a, b) -> Printf.sprintf "%d %d" (iz a) (iz b)) l)
let q_of_int n = { qnum = z_of_int n; qden = XH }
let q_str q = let r = qred q in Printf.sprintf "%d %d" (iz r.qnum) (int_of_pos r.qden)
(* split l into its first n elements and the rest *)
let split n l = (take n l, drop n l)

let cmd_find_peaks rest =
  match ints rest with
  | gap :: lext :: rext :: mina :: minc :: maxd :: nch :: ng :: r ->
      let gains = zl (take ng r) in
      let r = drop ng r in
      let nh = List.hd r in
      let rec hits k l = if k = 0 then [] else
        (match l with
         | t :: len :: dt :: ch :: ar :: tl ->
             { ht = z_of_int t; hlen = z_of_int len; hdt = z_of_int dt; hch = z_of_int ch; harea = z_of_int ar }
             :: hits (k - 1) tl
         | _ -> failwith "hits") in
      let hs = hits nh (List.tl r) in
      let p = { fp_gap = z_of_int gap; fp_lext = z_of_int lext; fp_rext = z_of_int rext;
                fp_min_area = z_of_int mina; fp_min_ch = z_of_int minc; fp_max_dur = z_of_int maxd } in
      (match find_peaks p gains (nat_of_int nch) hs with
       | Err e -> Printf.sprintf "err %d" (iz e)
       | Ok ps ->
           String.concat " " ("ok" :: string_of_int (List.length ps) :: List.map (fun q ->
             join ([iz q.pt; iz q.plen; iz q.pdt; iz q.pnhits; iz q.parea; iz q.pmaxgap] @ List.map iz q.papc)) ps))
  | _ -> "BAD"

(* replace_merged n_orig n_merge (s e)* : orig elements are 0..n-1, merge element k is -(k+1) *)
let cmd_replace_merged rest =
  match ints rest with
  | n :: k :: r ->
      let orig = List.init n (fun i -> z_of_int i) in
      let rec mw j l = if j = k then [] else
        (match l with s :: e :: tl -> ((z_of_int (-(j + 1)), z_of_int s), z_of_int e) :: mw (j + 1) tl | _ -> failwith "mw") in
      (match replace_merged orig (mw 0 r) with
       | Err e -> Printf.sprintf "err %d" (iz e)
       | Ok l -> String.concat " " ("ok" :: List.map (fun z -> string_of_int (iz z)) l))
  | _ -> "BAD"

(* merge_peaks ns nch npeaks (t len dt area nhits apc[nch] data[ns])* nse (s e)* *)
let cmd_merge_peaks rest =
  match ints rest with
  | ns :: nch :: np :: r ->
      let rec peaks k l = if k = 0 then ([], l) else
        (match l with
         | t :: len :: dt :: area :: nh :: tl ->
             let (apc, tl) = split nch tl in
             let (data, tl) = split ns tl in
             let (ps, tl) = peaks (k - 1) tl in
             ({ mt = z_of_int t; mlen = z_of_int len; mdt = z_of_int dt; marea = z_of_int area; mapc = zl apc;
                mnhits = z_of_int nh; mdata = List.map q_of_int data } :: ps, tl)
         | _ -> failwith "peaks") in
      let (ps, r) = peaks np r in
      let nse = List.hd r in
      let rec se k l = if k = 0 then [] else
        (match l with s :: e :: tl -> (z_of_int s, z_of_int e) :: se (k - 1) tl | _ -> failwith "se") in
      (match merge_peaks (z_of_int ns) (nat_of_int nch) ps (se nse (List.tl r)) with
       | Err e -> Printf.sprintf "err %d" (iz e)
       | Ok gs ->
           String.concat " | " ("ok" :: List.map (fun (p, endt) ->
             String.concat " " ([join [iz p.mt; iz p.mlen; iz p.mdt; iz p.marea; iz p.mnhits; iz endt]; join (List.map iz p.mapc)]
                                @ List.map q_str p.mdata)) gs))
  | _ -> "BAD"

let q_of_frac n d = { qnum = z_of_int n; qden = pos_of_int d }

(* iof A_num A_den len n data[n] k (fnum fden)[k] *)
let cmd_iof rest =
  match ints rest with
  | an :: ad :: len :: n :: r ->
      let (data, r) = split n r in
      let k = List.hd r in
      let rec fr j l = if j = 0 then [] else
        (match l with a :: b :: tl -> q_of_frac a b :: fr (j - 1) tl | _ -> failwith "fr") in
      let fs = fr k (List.tl r) in
      String.concat " " (List.map q_str (index_of_fraction (q_of_frac an ad) (z_of_int len) (List.map q_of_int data) fs))
  | _ -> "BAD"

let split_out r =
  match r with
  | Err e -> Printf.sprintf "err %d" (iz e)
  | Ok (b, cs) ->
      String.concat " " ("ok" :: (if b then "1" else "0") :: string_of_int (List.length cs)
                         :: List.map (fun c -> join [iz c.ct; iz c.clen; iz c.cdt]) cs)

(* split t dt area min_area orig_dt k splits[k] *)
let cmd_split rest =
  match ints rest with
  | t :: dt :: area :: mina :: odt :: k :: r ->
      split_out (split_peak (z_of_int t) (z_of_int dt) (z_of_int area) (z_of_int mina) (z_of_int odt) (zl (take k r)))
  | _ -> "BAD"

(* split_lm t dt area min_area orig_dt min_height min_ratio n w[n] *)
let cmd_split_lm rest =
  match ints rest with
  | t :: dt :: area :: mina :: odt :: mh :: mr :: n :: r ->
      split_out (split_peak_local_minimum (z_of_int t) (z_of_int dt) (z_of_int area) (z_of_int mina) (z_of_int odt)
                   (zl (take n r)) (z_of_int mh) (z_of_int mr))
  | _ -> "BAD"

(* sum_waveform ns nch nsr lmax ng g[ng] nrec (t len dt b2 shift nd d[nd])* prev[nrec] next[nrec]
                npeaks (t len dt area apc[nch])* nhits (t len dt ch rec li ri)* *)
let cmd_sum_waveform rest =
  match ints rest with
  | ns :: nch :: nsr :: lmax :: ng :: r ->
      let (gains, r) = split ng r in
      let nrec = List.hd r in
      let rec recs k l = if k = 0 then ([], l) else
        (match l with
         | t :: len :: dt :: b2 :: sh :: nd :: tl ->
             let (d, tl) = split nd tl in
             let (rs, tl) = recs (k - 1) tl in
             ({ sr_t = z_of_int t; sr_len = z_of_int len; sr_dt = z_of_int dt; sr_data = zl d;
                sr_b2 = z_of_int b2; sr_shift = z_of_int sh } :: rs, tl)
         | _ -> failwith "recs") in
      let (rs, r) = recs nrec (List.tl r) in
      let (prev, r) = split nrec r in
      let (next, r) = split nrec r in
      let np = List.hd r in
      let rec peaks k l = if k = 0 then ([], l) else
        (match l with
         | t :: len :: dt :: area :: tl ->
             let (apc, tl) = split nch tl in
             let (ps, tl) = peaks (k - 1) tl in
             ({ sp_t = z_of_int t; sp_len = z_of_int len; sp_dt = z_of_int dt; sp_area = z_of_int area;
                sp_apc = zl apc; sp_data = [] } :: ps, tl)
         | _ -> failwith "peaks") in
      let (ps, r) = peaks np (List.tl r) in
      let nh = List.hd r in
      let rec hits k l = if k = 0 then [] else
        (match l with
         | t :: len :: dt :: ch :: rc :: li :: ri :: tl ->
             { sh_t = z_of_int t; sh_len = z_of_int len; sh_dt = z_of_int dt; sh_ch = z_of_int ch;
               sh_rec = z_of_int rc; sh_li = z_of_int li; sh_ri = z_of_int ri } :: hits (k - 1) tl
         | _ -> failwith "hits") in
      let hs = hits nh (List.tl r) in
      (match sum_waveform (zl gains) rs (zl prev) (zl next) (z_of_int nsr) (nat_of_int lmax) (z_of_int ns)
               (nat_of_int nch) ps hs with
       | Err e -> Printf.sprintf "err %d" (iz e)
       | Ok out ->
           String.concat " | " ("ok" :: List.map (fun p ->
             String.concat " ; " [join [iz p.sp_t; iz p.sp_len; iz p.sp_dt; iz p.sp_area];
                                  join (List.map iz p.sp_apc);
                                  String.concat " " (List.map q_str p.sp_data)]) out))
  | _ -> "BAD"

(* hdr upper bs n data[n] k (fnum fden)[k] *)
let cmd_hdr rest =
  match ints rest with
  | upper :: bs :: n :: r ->
      let (data, r) = split n r in
      let k = List.hd r in
      let rec fr j l = if j = 0 then [] else
        (match l with a :: b :: tl -> q_of_frac a b :: fr (j - 1) tl | _ -> failwith "fr") in
      let fs = fr k (List.tl r) in
      (match highest_density_region (zl data) fs (upper <> 0) (z_of_int bs) with
       | Err e -> Printf.sprintf "err %d" (iz e)
       | Ok outs ->
           String.concat " | " ("ok" :: List.map (fun o ->
             (match o.ho_iv with
              | None -> "-1"
              | Some ivs -> join (List.length ivs :: List.concat_map (fun (s, e) -> [iz s; iz e]) ivs))
             ^ " " ^ q_str o.ho_amp) outs))
  | _ -> "BAD"

(* widths K a_num a_den len dt n data[n] -> median | widths[K] | deciles[K] (all as num den) *)
let cmd_widths rest =
  match ints rest with
  | k :: an :: ad :: len :: dt :: n :: r ->
      let data = take n r in
      let ((m, w), d) = compute_widths (nat_of_int k) (q_of_frac an ad) (z_of_int len) (z_of_int dt)
                          (List.map q_of_int data) in
      String.concat " " (List.map q_str (m :: (w @ d)))
  | _ -> "BAD"

(* center time len dt n data[n] *)
let cmd_center rest =
  match ints rest with
  | time :: len :: dt :: n :: r ->
      string_of_int (iz (center_time (z_of_int time) (z_of_int len) (z_of_int dt) (zl (take n r))))
  | _ -> "BAD"

(* groups gap lext rext maxdur n (time endtime)[n] *)
let cmd_groups rest =
  match ints rest with
  | gap :: lext :: rext :: maxdur :: n :: r ->
      let rec pk k l = if k = 0 then [] else
        (match l with t :: e :: tl -> (z_of_int t, z_of_int e) :: pk (k - 1) tl | _ -> failwith "pk") in
      (match find_peak_groups (z_of_int gap) (z_of_int lext) (z_of_int rext) (z_of_int maxdur) (pk n r) with
       | Err e -> Printf.sprintf "err %d" (iz e)
       | Ok l -> String.concat " " ("ok" :: List.map (fun (a, b) -> Printf.sprintf "%d %d" (iz a) (iz b)) l))
  | _ -> "BAD"

(* lone ng gains[ng] nch ns np (t len dt area apc[nch] data[ns])[np] nl (fc t ch area)[nl] *)
let cmd_lone rest =
  match ints rest with
  | ng :: r ->
      let (gains, r) = split ng r in
      (match r with
       | nch :: ns :: np :: r ->
           let rec peaks k l = if k = 0 then ([], l) else
             (match l with
              | t :: len :: dt :: area :: tl ->
                  let (apc, tl) = split nch tl in
                  let (data, tl) = split ns tl in
                  let (ps, tl) = peaks (k - 1) tl in
                  ({ lp_t = z_of_int t; lp_len = z_of_int len; lp_dt = z_of_int dt; lp_area = z_of_int area;
                     lp_apc = zl apc; lp_data = zl data } :: ps, tl)
              | _ -> failwith "peaks") in
           let (ps, r) = peaks np r in
           let nl = List.hd r in
           let rec lh k l = if k = 0 then ([], []) else
             (match l with
              | fc :: t :: ch :: area :: tl ->
                  let (fcs, hs) = lh (k - 1) tl in
                  (z_of_int fc :: fcs, { lh_t = z_of_int t; lh_ch = z_of_int ch; lh_area = z_of_int area } :: hs)
              | _ -> failwith "lh") in
           let (fcs, hs) = lh nl (List.tl r) in
           (match add_lone_hits (zl gains) ps fcs hs with
            | Err e -> Printf.sprintf "err %d" (iz e)
            | Ok l -> String.concat " | " ("ok" :: List.map (fun p ->
                join ([iz p.lp_t; iz p.lp_len; iz p.lp_dt; iz p.lp_area] @ List.map iz p.lp_apc @ List.map iz p.lp_data)) l))
       | _ -> "BAD")
  | _ -> "BAD"

let handle toks =
  match toks with
  | "groups" :: rest -> cmd_groups rest
  | "lone" :: rest -> cmd_lone rest
  | "widths" :: rest -> cmd_widths rest
  | "center" :: rest -> cmd_center rest
  | "hdr" :: rest -> cmd_hdr rest
  | "sum_waveform" :: rest -> cmd_sum_waveform rest
  | "split" :: rest -> cmd_split rest
  | "split_lm" :: rest -> cmd_split_lm rest
  | "iof" :: rest -> cmd_iof rest
  | "sma" :: rest ->
      (match ints rest with
       | w :: n :: r -> pairs (sma (zl (take n r)) (z_of_int w))
       | _ -> "BAD")
  | "find_peaks" :: rest -> cmd_find_peaks rest
  | "replace_merged" :: rest -> cmd_replace_merged rest
  | "merge_peaks" :: rest -> cmd_merge_peaks rest
  | _ -> "UNKNOWN"
let () = main_loop handle
