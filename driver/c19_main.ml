open Model
open Zio
let zl l = List.map z_of_int l
let pairs l = String.concat " " (List.map (fun (a, b) -> Printf.sprintf "%d %d" (int_of_z a) (int_of_z b)) l)
let handle toks =
  match toks with
  | "sma" :: rest ->
      (match ints rest with
       | w :: n :: r -> pairs (sma (zl (take n r)) (z_of_int w))
       | _ -> "BAD")
  | "find_peaks" :: rest ->
      (match ints rest with
       | gap :: lext :: rext :: mina :: minc :: maxd :: nch :: ng :: r ->
           let gains = zl (take ng r) in
           let r = drop ng r in
           let nh = List.hd r in
           let rec hits k l = if k = 0 then [] else
             (match l with
              | t :: len :: dt :: ch :: ar :: tl ->
                  { ht = z_of_int t; hlen = z_of_int len; hdt = z_of_int dt; hch = z_of_int ch; harea = z_of_int ar }
                  :: hits (k - 1) tl
              | _ -> failwith "hits") in
           let hs = hits nh (List.tl r) in
           let p = { fp_gap = z_of_int gap; fp_lext = z_of_int lext; fp_rext = z_of_int rext;
                     fp_min_area = z_of_int mina; fp_min_ch = z_of_int minc; fp_max_dur = z_of_int maxd } in
           (match find_peaks p gains (nat_of_int nch) hs with
            | Err e -> Printf.sprintf "err %d" (int_of_z e)
            | Ok ps ->
                String.concat " " ("ok" :: string_of_int (List.length ps) :: List.map (fun q ->
                  join ([int_of_z q.pt; int_of_z q.plen; int_of_z q.pdt; int_of_z q.pnhits; int_of_z q.parea;
                         int_of_z q.pmaxgap] @ List.map int_of_z q.papc)) ps))
       | _ -> "BAD")
  | _ -> "UNKNOWN"
let () = main_loop handle
