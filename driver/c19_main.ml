open Model
open Zio
let zl l = List.map z_of_int l
let pairs l = String.concat " " (List.map (fun (a, b) -> Printf.sprintf "%d %d" (int_of_z a) (int_of_z b)) l)
let handle toks =
  match toks with
  | "sma" :: rest ->
      (match ints rest with
       | w :: n :: r -> pairs (sma (zl (take n r)) (z_of_int w))
       | _ -> "BAD")
  | _ -> "UNKNOWN"
let () = main_loop handle
