open Model
open Zio
(* line protocol (all ints).  A configuration is
     <nplug> {<d> <q>}*nplug            components.plugins in iteration order
     <ndefs> {<nprov> prov* <ndeps> dep* <maxmsg or -1>}*ndefs
     <nload> load*   <nsav> {<d> <n>}*nsav   <target>
     <allow_lazy> <single> <max_messages>   <p> <N>
   commands
     wire  <conf>                         -> mailboxes and threads of the expected wiring
     run   <conf> <nsched> <w>*nsched     -> observation after every step (" | "), then " # " and the final
                                             report: Q|N (quiescent), enabled threads, "A" advances per mailbox
     detail <conf> <nsched> <w>*          -> the finer view after every step
     gates <conf> <nsched> <w>*           -> for every step in which the source list of some mailbox shrank:
                                             step mailbox can_fetch driver_waits none_le_lowest none_present
     explore <conf> <maxstates>           -> exhaustive search of the model's state graph:
                                             nstates nedges truncated nquiescent ; per mailbox: min and max
                                             advances over quiescent states, max advances and max box length
                                             over all states *)
let rec plist n l = if n <= 0 then ([], l) else
  match l with d :: q :: r -> let (a, rest) = plist (n - 1) r in ((nat_of_int d, nat_of_int q) :: a, rest)
  | _ -> failwith "plist"
let rec defs n l = if n <= 0 then ([], l) else
  match l with
  | np :: r ->
      let prov = List.map nat_of_int (take np r) in
      let r = drop np r in
      (match r with
       | nd :: r ->
           let deps = List.map nat_of_int (take nd r) in
           let r = drop nd r in
           (match r with
            | mm :: r ->
                let (a, rest) = defs (n - 1) r in
                ({ p_provides = prov; p_deps = deps; p_maxmsg = (if mm < 0 then None else Some (nat_of_int mm)) } :: a, rest)
            | _ -> failwith "defs")
       | _ -> failwith "defs")
  | _ -> failwith "defs"

let parse_conf l =
  match l with
  | np :: r ->
      let (plugins, r) = plist np r in
      (match r with
       | nd :: r ->
           let (ds, r) = defs nd r in
           (match r with
            | nl :: r ->
                let loaders = List.map nat_of_int (take nl r) in
                let r = drop nl r in
                (match r with
                 | ns :: r ->
                     let (savers, r) = plist ns r in
                     (match r with
                      | target :: al :: single :: mm :: p :: n :: r ->
                          let c = { c_plugins = plugins; c_defs = ds; c_loaders = loaders; c_savers = savers;
                                    c_target = nat_of_int target } in
                          let o = { o_allow_lazy = (al <> 0); o_single = (single <> 0); o_maxmsg = nat_of_int mm } in
                          (c, o, p, n, r)
                      | _ -> failwith "conf tail")
                 | _ -> failwith "conf savers")
            | _ -> failwith "conf loaders")
       | _ -> failwith "conf defs")
  | _ -> failwith "conf"

let key_str = function KD d -> Printf.sprintf "0 %d" (int_of_nat d) | KM q -> Printf.sprintf "1 %d" (int_of_nat q)
let op_str = function
  | OGate d -> Printf.sprintf "G%d" (int_of_nat d)
  | OPull (u, i) -> Printf.sprintf "P%d.%d" (int_of_nat u) (int_of_nat i)
  | OSend d -> Printf.sprintf "S%d" (int_of_nat d)
let desc_str = function
  | TLoad d -> Printf.sprintf "load %d" (int_of_nat d)
  | TBuild d -> Printf.sprintf "build %d" (int_of_nat d)
  | TMo d -> Printf.sprintf "mo %d" (int_of_nat d)
  | TDiv q -> Printf.sprintf "div %d" (int_of_nat q)
  | TSave (d, i) -> Printf.sprintf "save %d %d" (int_of_nat d) (int_of_nat i)
  | TDiscard d -> Printf.sprintf "discard %d" (int_of_nat d)
  | TConsumer -> "consumer"
let thread_str = function
  | Worker (prog, _, _) -> "W " ^ String.concat " " (List.map op_str prog)
  | Sink (u, i, b) -> Printf.sprintf "K %d %d %d" (int_of_nat u) (int_of_nat i)
                        (match b with None -> -1 | Some p -> int_of_nat p)

let wire_str w =
  let mb ((k, cfg), ds) =
    Printf.sprintf "%s %d %d %s" (key_str k)
      (match cfg.c_cap with None -> -1 | Some c -> int_of_nat c) (if cfg.c_lazy then 1 else 0)
      (String.concat " " (List.map (fun b -> if b then "1" else "0") ds)) in
  String.concat " ; " (List.map mb w.w_boxes) ^ " # "
  ^ String.concat " ; " (List.map (fun (d, t) -> desc_str d ^ " : " ^ thread_str t) w.w_threads)

module SM = Map.Make (String)
let key (n : net) = Marshal.to_string n []

let explore n0 total maxstates =
  let nth = List.length n0.n_threads and nmb = List.length n0.n_boxes in
  let ids = ref SM.empty in
  let q = Queue.create () in
  let nstates = ref 1 and nedges = ref 0 and nq = ref 0 and truncated = ref false in
  let qmin = Array.make nmb max_int and qmax = Array.make nmb (-1) in
  let amax = Array.make nmb 0 and bmax = Array.make nmb 0 in
  ids := SM.add (key n0) () !ids;
  Queue.add n0 q;
  while not (Queue.is_empty q) do
    let n = Queue.pop q in
    let adv = List.map int_of_nat (all_advances (nat_of_int total) n) in
    List.iteri (fun d a -> if a > amax.(d) then amax.(d) <- a) adv;
    List.iteri (fun d (_, st) -> let l = List.length st.box in if l > bmax.(d) then bmax.(d) <- l) n.n_boxes;
    let any = ref false in
    for w = 0 to nth - 1 do
      match nstep n (nat_of_int w) with
      | None -> ()
      | Some n' ->
          any := true; incr nedges;
          let k = key n' in
          if not (SM.mem k !ids) then begin
            if !nstates < maxstates then begin
              ids := SM.add k () !ids; incr nstates; Queue.add n' q
            end else truncated := true
          end
    done;
    if not !any then begin
      incr nq;
      List.iteri (fun d a -> if a < qmin.(d) then qmin.(d) <- a; if a > qmax.(d) then qmax.(d) <- a) adv
    end
  done;
  Printf.sprintf "%d %d %d %d" !nstates !nedges (if !truncated then 1 else 0) !nq
  ^ String.concat "" (List.init nmb (fun d ->
      Printf.sprintf " ; %d %d %d %d" (if !nq = 0 then -1 else qmin.(d)) qmax.(d) amax.(d) bmax.(d)))

let handle toks =
  match toks with
  | "bounds" :: l :: c :: _ ->
      (* B_chain L c and B_fanout c of Props/C13.v *)
      Printf.sprintf "%d %d" (int_of_nat (b_chain (nat_of_int (int_of_string l)) (nat_of_int (int_of_string c))))
        (int_of_nat (b_fanout (nat_of_int (int_of_string c))))
  | cmd :: rest ->
      let (c, o, p, total, r) = parse_conf (ints rest) in
      let w = wire c o (nat_of_int p) in
      if cmd = "wire" then wire_str w else
      let n0 = net_of w (nat_of_int total) in
      if cmd = "explore" then explore n0 total (List.hd r) else begin
        let nsched = List.hd r in
        let sched = List.map nat_of_int (take nsched (List.tl r)) in
        let sts = ntrace n0 sched in
        let nn = List.length sts in
        let last = if nn = 0 then n0 else List.nth sts (nn - 1) in
        let dis = if nn < nsched then [Printf.sprintf "DISABLED %d" nn] else [] in
        if cmd = "gates" then begin
          let out = ref [] in
          let prev = ref n0 in
          List.iteri (fun i n ->
            List.iteri (fun d ((_, st0), (_, st1)) ->
              if List.length st1.src < List.length st0.src then
                out := Printf.sprintf "%d %d %s" i d
                         (String.concat " " (List.map (fun b -> if b then "1" else "0") (gate_view st0))) :: !out)
              (List.combine !prev.n_boxes n.n_boxes);
            prev := n) sts;
          String.concat " | " (List.rev !out @ dis)
        end else begin
          let view = if cmd = "detail" then ndetail else nobs in
          let parts = List.map (fun n -> join (List.map int_of_z (view n))) sts in
          String.concat " | " (parts @ dis) ^ " # " ^ (if quiescent last then "Q" else "N") ^ " "
          ^ join (List.map int_of_nat (enabled_list last)) ^ " A "
          ^ join (List.map int_of_nat (all_advances (nat_of_int total) last))
        end
      end
  | _ -> "UNKNOWN"
let () = main_loop handle
