(* Conversions between OCaml ints and the extracted inductive numbers, and line parsing. *)
open Model
let rec pos_of_int n = if n <= 1 then XH else if n land 1 = 0 then XO (pos_of_int (n lsr 1)) else XI (pos_of_int (n lsr 1))
let z_of_int n = if n = 0 then Z0 else if n > 0 then Zpos (pos_of_int n) else Zneg (pos_of_int (-n))
let rec int_of_pos = function XH -> 1 | XO p -> 2 * int_of_pos p | XI p -> 2 * int_of_pos p + 1
let int_of_z = function Z0 -> 0 | Zpos p -> int_of_pos p | Zneg p -> - (int_of_pos p)
let rec nat_of_int n = if n <= 0 then O else S (nat_of_int (n - 1))
let rec int_of_nat = function O -> 0 | S n -> 1 + int_of_nat n
let tokens s = List.filter (fun x -> x <> "") (String.split_on_char ' ' (String.trim s))
let ints toks = List.map int_of_string toks
let rec take n l = if n <= 0 then [] else match l with [] -> failwith "short" | x :: r -> x :: take (n - 1) r
let rec drop n l = if n <= 0 then l else match l with [] -> failwith "short" | _ :: r -> drop (n - 1) r
let join l = String.concat " " (List.map string_of_int l)
(* run f over stdin lines; print one output line per input line *)
let main_loop (f : string list -> string) =
  try
    while true do
      let line = input_line stdin in
      if String.trim line <> "" then begin
        let out = (try f (tokens line) with e -> "EXC " ^ Printexc.to_string e) in
        print_string out; print_newline ()
      end
    done
  with End_of_file -> ()
