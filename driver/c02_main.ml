open Model
open Zio
(* Integer line protocol for C02.  A cursor walks over the int list.
   value : 0 z | 1 s | 2 n v*n (list) | 4 n v*n (tuple) | 5 n (k v)*n (dict)
   cls   : cid name ver comp timeout nprov p* ndep d* nopts (oname track parent|-1 value)* child npar (name ver)*
   op    : 0 c mode n (k v)*n | 1 c cls | 2 c nff ff* nfo fo* | 3 c | 4 | 5 c run dt | 6 c run dt | 7 c run dt | 8 c run dt *)
let cur = ref []
let next () = match !cur with [] -> failwith "short" | x :: r -> cur := r; x
let nextz () = z_of_int (next ())
let rec many n f = if n <= 0 then [] else let x = f () in x :: many (n - 1) f
let rec value () =
  match next () with
  | 0 -> VInt (nextz ())
  | 1 -> VStr (nextz ())
  | 2 -> let n = next () in VList (many n value)
  | 4 -> let n = next () in VTuple (many n value)
  | 5 -> let n = next () in VDict (many n (fun () -> let k = nextz () in let v = value () in (k, v)))
  | _ -> failwith "value"
let kvs () = let n = next () in many n (fun () -> let k = nextz () in let v = value () in (k, v))
let zs () = let n = next () in many n nextz
let opt () =
  let oname = nextz () in
  let tr = next () in
  let par = next () in
  let d = value () in
  { oname = oname; odefault = d; otrack = (tr <> 0); oparent = (if par < 0 then None else Some (z_of_int par)) }
let cls () =
  let cid = nextz () in let cname = nextz () in let cversion = nextz () in
  let ccomp = nextz () in let ctimeout = nextz () in
  let prov = zs () in let dep = zs () in
  let no = next () in let opts = many no opt in
  let child = next () in
  let np = next () in let pars = many np (fun () -> let a = nextz () in let b = nextz () in (a, b)) in
  { cid = cid; cname = cname; cversion = cversion; ccomp = ccomp; ctimeout = ctimeout; cprovides = prov;
    cdepends = dep; copts = opts; cchild = (child <> 0); cparents = pars }
let op () =
  match next () with
  | 0 -> let c = next () in let m = nextz () in let kv = kvs () in OSetConfig (nat_of_int c, m, kv)
  | 1 -> let c = next () in let k = cls () in ORegister (nat_of_int c, k)
  | 2 -> let c = next () in let ff = zs () in let fo = zs () in OSetFuzzy (nat_of_int c, ff, fo)
  | 3 -> let c = next () in ONewContext (nat_of_int c)
  | 4 -> OEmptyContext
  | 5 -> let c = next () in let r = nextz () in let d = nextz () in OKeyFor (nat_of_int c, r, d)
  | 6 -> let c = next () in let r = nextz () in let d = nextz () in OIsStored (nat_of_int c, r, d)
  | 7 -> let c = next () in let r = nextz () in let d = nextz () in OGet (nat_of_int c, r, d)
  | 8 -> let c = next () in let r = nextz () in let d = nextz () in OMake (nat_of_int c, r, d)
  | _ -> failwith "op"
let lineage () =
  let n = next () in
  many n (fun () -> let k = nextz () in let nm = nextz () in let ver = nextz () in let cfg = kvs () in (k, ((nm, ver), cfg)))
let toks l = join (List.map int_of_z l)
let obs_str l =
  match List.map int_of_z l with
  | [0] -> "N"
  | [1; b] -> "B " ^ string_of_int b
  | [2; e] -> "E " ^ string_of_int e
  | 3 :: r -> "K " ^ join r
  | 4 :: a :: r -> "D " ^ string_of_int a ^ " " ^ join r
  | _ -> "?"
let handle t =
  match t with
  | "hist" :: rest ->
      cur := ints rest;
      let fx = next () <> 0 in
      let n = next () in
      let ops = many n op in
      let out = c02_run_tokens fx ops in
      String.concat " | " (List.map (fun (ob, ch) -> obs_str ob ^ " ; " ^ toks ch) out)
  | "canon" :: rest -> cur := ints rest; let v = value () in toks (c02_canon v)
  | "pyeq" :: rest -> cur := ints rest; let a = value () in let b = value () in if py_eqb a b then "1" else "0"
  | "matches" :: rest ->
      cur := ints rest;
      let st = lineage () in let de = lineage () in let ff = zs () in let fo = zs () in
      if matches st de ff fo then "1" else "0"
  | _ -> "UNKNOWN"
let () = main_loop handle
