open Model
open Zio
(* Line protocol for C12.
   rows: n then 4 ints each (t e id ch);  adt: n then 2 ints each (field id, type id)
   ctor <d2:0|1> <declared adt> <data adt> s e <rows>      -> "ok" | "err N"
   continuity k (s e)*k                                      -> "ok" | "bad i"
   cell kind vk dv which ov pos n r rechunk get_array        -> "code vis_src vis_t vis_u nres rejected [s e n]*" *)
let parse_rows l =
  match l with
  | n :: r ->
      let rec go k l acc = if k = 0 then (List.rev acc, l) else
        match l with
        | t :: e :: i :: c :: rest -> go (k - 1) rest ({ rt = z_of_int t; re = z_of_int e; rid = z_of_int i; rch = z_of_int c } :: acc)
        | _ -> failwith "rows" in
      go n r []
  | _ -> failwith "rows0"
let parse_adt l =
  match l with
  | n :: r ->
      let rec go k l acc = if k = 0 then (List.rev acc, l) else
        match l with
        | f :: t :: rest -> go (k - 1) rest ((z_of_int f, z_of_int t) :: acc)
        | _ -> failwith "adt" in
      go n r []
  | _ -> failwith "adt0"
let kind_of_int = function
  | 0 -> KSource | 1 -> KOrdinary | 2 -> KMulti | 3 -> KDown | 4 -> KLoop | 5 -> KCut | 6 -> KOverlap
  | _ -> failwith "kind"
let b x = if x then 1 else 0
let handle toks =
  match toks with
  | "ctor" :: rest ->
      (match ints rest with
       | d2 :: r ->
           let decl, r = parse_adt r in
           let dt, r = parse_adt r in
           (match r with
            | s :: e :: r ->
                let rows, _ = parse_rows r in
                let f = if d2 <> 0 then mk_xchunk_d2 else mk_xchunk in
                (match f decl dt (z_of_int s) (z_of_int e) rows (z_of_int 1) (z_of_int 1) (Some (z_of_int 0)) (z_of_int 1) with
                 | Ok _ -> "ok" | Err e -> Printf.sprintf "err %d" (int_of_z e))
            | _ -> "BAD")
       | _ -> "BAD")
  | "continuity" :: rest ->
      (match ints rest with
       | k :: r ->
           let rec go k l acc = if k = 0 then List.rev acc else
             match l with
             | s :: e :: rest ->
                 go (k - 1) rest ({ cstart = z_of_int s; cend = z_of_int e; crows = []; cdtype = z_of_int 1; ckind = z_of_int 1;
                                    crun = Some (z_of_int 0); ctarget = z_of_int 1 } :: acc)
             | _ -> failwith "cont" in
           (match continuity_check (go k r []) with None -> "ok" | Some i -> Printf.sprintf "bad %d" (int_of_nat i))
       | _ -> "BAD")
  | "timefields" :: rest ->
      let a, _ = parse_adt (ints rest) in
      if time_fields_ok a then "ok" else "err 80"
  | "cell" :: rest ->
      (match ints rest with
       | [kind; vk; dv; which; ov; pos; n; r; rechunk; ga] ->
           let c = { c_kind = kind_of_int kind; c_vk = z_of_int vk; c_dv = z_of_int dv; c_which = z_of_int which;
                     c_ov = z_of_int ov; c_pos = nat_of_int pos; c_n = nat_of_int n; c_r = nat_of_int r;
                     c_rechunk = (rechunk <> 0); c_get_array = (ga <> 0) } in
           let o = run_cell c in
           let code = int_of_z (cell_result_code c) in
           let vis d = b (cell_visible c (z_of_int d)) in
           let res = match o.o_result with
             | Ok cs -> String.concat " " (List.map (fun x -> Printf.sprintf "%d %d %d" (int_of_z x.xc.cstart) (int_of_z x.xc.cend) (List.length x.xc.crows)) cs)
             | Err _ -> "" in
           let nres = match o.o_result with Ok cs -> List.length cs | Err _ -> -1 in
           Printf.sprintf "%d %d %d %d %d %d %s" code (vis 1) (vis 2) (vis 3) nres (b (cell_rejected c)) res
       | _ -> "BAD")
  | _ -> "UNKNOWN"
let () = main_loop handle
