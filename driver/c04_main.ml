open Model
open Zio
(* Line protocol of the C04 model driver (all tokens are integers after the unit name).

   pairs   := k (a b)*k
   triples := k (a b c)*k
   meta    := ended exc pairs                                     (chunk list as (chunk_i, n))
   op      := 0 | 1 | 2 | 3 i v | 4 i | 5 meta | 6 | 7 | 8          (OMkTemp ORmTemp ORmFinal OWriteTmp ORenameChunk
                                                                     OWriteMeta ORenameDir OUpExc OOther)
   outcome := 0 | 1 | 2 | 3                                        (Done, Failed ENone / ETrunc / EFull)
   events  := k (op outcome)*k
   file    := 0 content | 1 i content | 2 i content                (FMeta, FChunk i, FTmp i)
   content := 0 v complete | 1 | 2 meta                            (CChunk, CMeta None, CMeta (Some m))
   dir     := 0 | 1 k file*k                                       (absent | present)
   fs      := dir(temp) dir(final)

   replay  allow_rm triples(expected) fs events
        -> rej=<-1|k> run=<0|1> vis=<0|1> stored=<..> load=<..> fs=<canonical fs>
   request var proc pool never closerec pairs(chunks) upfail pairs(rem) plan sched fs
        plan := -1 | op eff(1..3) | -2 (never)     sched := k (c)*k   (c = -1: saver thread, j: worker j)
        -> out=<ok|errN> acc=<0|1> fin=<0|1> vis=.. stored=.. load=.. fs=.. tr=<events> *)

let zi = z_of_int and iz = int_of_z

let p_pairs l = match l with
  | k :: r ->
      let rec go k l acc = if k = 0 then (List.rev acc, l) else
        match l with a :: b :: rest -> go (k - 1) rest ((zi a, zi b) :: acc) | _ -> failwith "pairs" in
      go k r []
  | _ -> failwith "pairs0"
let p_triples l = match l with
  | k :: r ->
      let rec go k l acc = if k = 0 then (List.rev acc, l) else
        match l with a :: b :: c :: rest -> go (k - 1) rest (((zi a, zi b), zi c) :: acc) | _ -> failwith "triples" in
      go k r []
  | _ -> failwith "triples0"
let p_meta l = match l with
  | en :: ex :: r -> let cs, rest = p_pairs r in ({ m_chunks = cs; m_ended = (en <> 0); m_exc = (ex <> 0) }, rest)
  | _ -> failwith "meta"
let p_op l = match l with
  | 0 :: r -> (OMkTemp, r) | 1 :: r -> (ORmTemp, r) | 2 :: r -> (ORmFinal, r)
  | 3 :: i :: v :: r -> (OWriteTmp (zi i, zi v), r)
  | 4 :: i :: r -> (ORenameChunk (zi i), r)
  | 5 :: r -> let m, rest = p_meta r in (OWriteMeta m, rest)
  | 6 :: r -> (ORenameDir, r) | 7 :: r -> (OUpExc, r) | 8 :: r -> (OOther, r)
  | _ -> failwith "op"
let eff_of = function 1 -> ENone | 2 -> ETrunc | 3 -> EFull | _ -> failwith "eff"
let p_outcome l = match l with
  | 0 :: r -> (Done, r)
  | e :: r -> (Failed (eff_of e), r)
  | _ -> failwith "outcome"
let p_events l = match l with
  | k :: r ->
      let rec go k l acc = if k = 0 then (List.rev acc, l) else
        let o, l1 = p_op l in let oc, l2 = p_outcome l1 in go (k - 1) l2 ((o, oc) :: acc) in
      go k r []
  | _ -> failwith "events"
let p_content l = match l with
  | 0 :: v :: c :: r -> (CChunk (zi v, c <> 0), r)
  | 1 :: r -> (CMeta None, r)
  | 2 :: r -> let m, rest = p_meta r in (CMeta (Some m), rest)
  | _ -> failwith "content"
let p_file l = match l with
  | 0 :: r -> let c, rest = p_content r in ((FMeta, c), rest)
  | 1 :: i :: r -> let c, rest = p_content r in ((FChunk (zi i), c), rest)
  | 2 :: i :: r -> let c, rest = p_content r in ((FTmp (zi i), c), rest)
  | _ -> failwith "file"
let p_dir l = match l with
  | 0 :: r -> (None, r)
  | 1 :: k :: r ->
      let rec go k l acc = if k = 0 then (List.rev acc, l) else
        let f, l1 = p_file l in go (k - 1) l1 (f :: acc) in
      let fl, rest = go k r [] in (Some fl, rest)
  | _ -> failwith "dir"
let p_fs l = let t, r = p_dir l in let f, r2 = p_dir r in ({ f_temp = t; f_final = f }, r2)

(* canonical text *)
let s_meta m = Printf.sprintf "E%dX%d[%s]" (if m.m_ended then 1 else 0) (if m.m_exc then 1 else 0)
    (String.concat "," (List.map (fun (i, n) -> Printf.sprintf "%d:%d" (iz i) (iz n)) m.m_chunks))
let s_content = function
  | CChunk (v, c) -> Printf.sprintf "%d%s" (iz v) (if c then "+" else "-")
  | CMeta None -> "broken"
  | CMeta (Some m) -> s_meta m
let s_file (f, c) = match f with
  | FMeta -> "meta=" ^ s_content c
  | FChunk i -> Printf.sprintf "c%d=%s" (iz i) (s_content c)
  | FTmp i -> Printf.sprintf "t%d=%s" (iz i) (s_content c)
let s_dir = function
  | None -> "-"
  | Some d -> "{" ^ String.concat ";" (List.sort compare (List.map s_file d)) ^ "}"
let s_fs f = "T" ^ s_dir f.f_temp ^ "F" ^ s_dir f.f_final
let s_op = function
  | OMkTemp -> "mktemp" | ORmTemp -> "rmtemp" | ORmFinal -> "rmfinal"
  | OWriteTmp (i, v) -> Printf.sprintf "wtmp(%d,%d)" (iz i) (iz v)
  | ORenameChunk i -> Printf.sprintf "rename(%d)" (iz i)
  | OWriteMeta m -> "meta(" ^ s_meta m ^ ")"
  | ORenameDir -> "rendir" | OUpExc -> "upexc" | OOther -> "other"
let s_outcome = function Done -> "" | Failed ENone -> "!none" | Failed ETrunc -> "!trunc" | Failed EFull -> "!full"
let s_events tr = String.concat "," (List.map (fun (o, oc) -> s_op o ^ s_outcome oc) tr)
let s_load = function
  | Ok l -> "ok[" ^ String.concat "," (List.map (function None -> "e" | Some v -> string_of_int (iz v)) l) ^ "]"
  | Err e -> Printf.sprintf "err%d" (iz e)
let s_stored = function Ok true -> "1" | Ok false -> "0" | Err e -> Printf.sprintf "err%d" (iz e)
let s_state f = Printf.sprintf "vis=%d stored=%s load=%s fs=%s" (if visible f then 1 else 0) (s_stored (is_stored f))
    (s_load (load f)) (s_fs f)

let handle toks =
  match toks with
  | "replay" :: rest ->
      (match ints rest with
       | allow :: r ->
           let ex, r1 = p_triples r in
           let f0, r2 = p_fs r1 in
           let tr, _ = p_events r2 in
           let c = { p_expected = ex; p_allow_rm = (allow <> 0) } in
           let rej = match first_reject c pst_init tr O with None -> -1 | Some k -> int_of_nat k in
           (match run_evs f0 tr with
            | None -> Printf.sprintf "rej=%d run=0" rej
            | Some f -> Printf.sprintf "rej=%d run=1 %s" rej (s_state f))
       | _ -> "BAD")
  | "request" :: rest ->
      (match ints rest with
       | var :: proc :: pool :: never :: closerec :: r ->
           let chunks, r1 = p_pairs r in
           (match r1 with
            | up :: r2 ->
                let rem, r3 = p_pairs r2 in
                let pl, r4 = (match r3 with
                  | -1 :: r -> (no_faults, r)
                  | _ ->
                      let o, ra = p_op r3 in
                      (match ra with
                       | e :: rb ->
                           let e = eff_of e in
                           (single_fault o e, rb)
                       | _ -> failwith "plan")) in
                (match r4 with
                 | k :: r5 ->
                     let sched = List.map (fun c -> if c < 0 then None else Some (nat_of_int c)) (take k r5) in
                     let f0, _ = p_fs (drop k r5) in
                     let cfg = { r_var = (if var = 0 then Pinned else Fixed);
                                 r_proc = (if proc = 0 then SingleThread else Threaded);
                                 r_pool = (pool <> 0); r_never = (never <> 0); r_closerec = (closerec <> 0) } in
                     let inp = { in_chunks = chunks; in_upfail = (if up < 0 then None else Some (nat_of_int up)); in_rem = rem } in
                     let res = request cfg inp pl sched f0 in
                     Printf.sprintf "out=%s acc=%d fin=%d %s tr=%s"
                       (match res.res_out with Ok _ -> "ok" | Err e -> Printf.sprintf "err%d" (iz e))
                       (if res.res_acc then 1 else 0) (if res.res_fin then 1 else 0)
                       (s_state res.res_fs) (s_events res.res_tr)
                 | _ -> "BAD")
            | _ -> "BAD")
       | _ -> "BAD")
  | _ -> "UNKNOWN"
let () = main_loop handle
