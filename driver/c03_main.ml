open Model
open Zio
(* Line protocol (all integers, NONE = -999999):
   run  rechunk allow_rechunk executor forked itemsize
        md_run md_dtype md_kind md_rowtype md_compressor md_target
        allow_incomplete default_target
        tamper_op ta tb
        m order_1 .. order_m
        k chunk_1 .. chunk_k          (chunk: start end dtype kind run target n (t e id ch)*n)
        rows                          (n (t e id ch)*n : content for tamper op 4)
   rechunk k chunk_1 .. chunk_k
   Output of run: one canonical line describing the directory after saving (+ tampering) and the
   loader's result. *)
let none = -999999
let opt n = if n = none then None else Some (z_of_int n)
let parse_rows l =
  match l with
  | n :: r ->
      let rec go k l acc = if k = 0 then (List.rev acc, l) else
        match l with
        | t :: e :: i :: c :: rest -> go (k - 1) rest ({ rt = z_of_int t; re = z_of_int e; rid = z_of_int i; rch = z_of_int c } :: acc)
        | _ -> failwith "rows" in
      go n r []
  | _ -> failwith "rows0"
let parse_chunk l =
  match l with
  | s :: e :: dt :: kind :: run :: tgt :: r ->
      let rows, rest = parse_rows r in
      ({ cstart = z_of_int s; cend = z_of_int e; crows = rows; cdtype = z_of_int dt; ckind = z_of_int kind;
         crun = opt run; ctarget = z_of_int tgt }, rest)
  | _ -> failwith "chunk"
let rec parse_chunks k l = if k = 0 then ([], l) else
  let c, r = parse_chunk l in let cs, r' = parse_chunks (k - 1) r in (c :: cs, r')
let so = function None -> "-" | Some z -> string_of_int (int_of_z z)
let ids rows = String.concat "," (List.map (fun r -> string_of_int (int_of_z r.rid)) rows)
let show_chunk c =
  Printf.sprintf "[%d %d run=%s dt=%d kind=%d tgt=%d n=%d ids=%s]" (int_of_z c.cstart) (int_of_z c.cend)
    (so c.crun) (int_of_z c.cdtype) (int_of_z c.ckind) (int_of_z c.ctarget) (List.length c.crows) (ids c.crows)
let show_ci c =
  Printf.sprintf "%d:%d:%s:%s:%s:%d:%s:%s:%s:%s:%s:%s" (int_of_z c.ci_i) (int_of_z c.ci_n) (so c.ci_start) (so c.ci_end)
    (so c.ci_run) (int_of_z c.ci_nbytes) (so c.ci_first_time) (so c.ci_first_endtime) (so c.ci_last_time)
    (so c.ci_last_endtime) (so c.ci_filename) (match c.ci_filesize with None -> "-" | Some _ -> "1")
let show_md m =
  Printf.sprintf "md[start=%s end=%s ended=%d exc=%d run=%s dt=%s kind=%s row=%s comp=%s tgt=%s] chunks[%s]"
    (so m.md_start) (so m.md_end) (if m.md_ended then 1 else 0) (if m.md_exception then 1 else 0)
    (so m.md_run) (so m.md_dtype) (so m.md_kind) (so m.md_rowtype) (so m.md_compressor) (so m.md_target)
    (String.concat ";" (List.map show_ci m.md_chunks))
let show_file (k, b) =
  Printf.sprintf "%d=%s" (int_of_z k)
    (match b with None -> "X" | Some (c, rows) -> Printf.sprintf "%d/%s" (int_of_z c) (ids rows))
let by_key l = List.sort (fun (a, _) (b, _) -> compare (int_of_z a) (int_of_z b)) l
let show_res = function Ok _ -> "ok" | Err e -> Printf.sprintf "err%d" (int_of_z e)
let handle toks =
  match toks with
  | "run" :: rest ->
      (match ints rest with
       | rc :: ar :: ex :: fk :: isz :: mrun :: mdt :: mkind :: mrow :: mcomp :: mtgt :: ai :: deft
         :: top :: ta :: tb :: m :: r ->
           let order = List.map nat_of_int (take m r) in
           let r = drop m r in
           (match r with
            | k :: r ->
                let cs, r = parse_chunks k r in
                let trows, _ = parse_rows r in
                let cfg = { sc_rechunk = rc <> 0; sc_allow_rechunk = ar <> 0; sc_executor = ex <> 0;
                            sc_forked = fk <> 0; sc_itemsize = z_of_int isz } in
                let md0 = { md_run = opt mrun; md_dtype = opt mdt; md_kind = opt mkind; md_rowtype = opt mrow;
                            md_compressor = opt mcomp; md_target = opt mtgt; md_chunks = []; md_start = None;
                            md_end = None; md_ended = false; md_exception = false } in
                let t = match top with
                  | 0 -> T_none
                  | 1 -> T_set_n (nat_of_int ta, z_of_int tb)
                  | 2 -> T_del_file (z_of_int ta)
                  | 3 -> T_put_file (z_of_int ta, None)
                  | 4 -> T_put_file (z_of_int ta, Some (z_of_int tb, trows))
                  | 5 -> T_swap_files (z_of_int ta, z_of_int tb)
                  | 6 -> T_md_drop (z_of_int ta)
                  | 7 -> T_ci_drop (nat_of_int ta, z_of_int tb)
                  | 8 -> T_no_chunks
                  | 9 -> T_unend
                  | 10 -> T_exc
                  | 11 -> T_compressor (z_of_int ta)
                  | _ -> failwith "tamper" in
                let o = c03_run cfg md0 cs order t (ai <> 0) (z_of_int deft) in
                let s = o.ro_saver in
                Printf.sprintf "save=%s closed=%d final=%d %s files[%s] metas[%s] load=%s"
                  (show_res o.ro_save) (if s.sv_closed then 1 else 0) (if s.sv_final then 1 else 0)
                  (show_md s.sv_disk)
                  (String.concat ";" (List.map show_file (by_key s.sv_files)))
                  (String.concat ";" (List.map (fun (k, _) -> string_of_int (int_of_z k)) (by_key s.sv_meta_files)))
                  (match o.ro_load with
                   | Ok out -> "ok " ^ String.concat " " (List.map show_chunk out)
                   | Err e -> Printf.sprintf "err%d" (int_of_z e))
            | _ -> "BAD")
       | _ -> "BAD")
  | "rechunk" :: rest ->
      (match ints rest with
       | k :: r -> let cs, _ = parse_chunks k r in
           (match rechunk_stream cs with
            | Ok out -> "ok " ^ String.concat " " (List.map show_chunk out)
            | Err e -> Printf.sprintf "err%d" (int_of_z e))
       | _ -> "BAD")
  | _ -> "UNKNOWN"
let () = main_loop handle
