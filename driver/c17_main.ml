open Model
open Zio
(* rows are encoded as 4 ints each: t e id ch; arrays as n followed by 4n ints.
   Every unit prints the algorithmic model's result, then " | " and the quadratic spec's result. *)
let rec rows_of = function
  | [] -> []
  | t :: e :: i :: c :: r -> { rt = z_of_int t; re = z_of_int e; rid = z_of_int i; rch = z_of_int c } :: rows_of r
  | _ -> failwith "rows"
(* parse one array off the front of an int list *)
let parr l = match l with
  | n :: r -> (rows_of (take (4 * n) r), drop (4 * n) r)
  | [] -> failwith "parr"
let ids rs = List.map (fun r -> int_of_z r.rid) rs
let zl l = join (List.map int_of_z l)
let nl l = join (List.map int_of_nat l)
let b2i b = if b then 1 else 0
let err c = "E" ^ string_of_int (int_of_z c)
let groups gs = String.concat " " (List.map (fun g -> join (List.length g :: ids g)) gs)
let cat parts = String.concat " | " (List.map String.trim parts)
let pairs_nat res =
  String.concat " " (List.map (fun (a, b) -> Printf.sprintf "%d %d" (int_of_nat a) (int_of_nat b)) res)
let zi s = z_of_int (int_of_string s)
let handle toks =
  match toks with
  | "fc" :: rest ->
      let (things, r) = parr (ints rest) in
      let (cs, _) = parr r in
      let m = (match fully_contained_in things cs with
        | Err c -> err c
        | Ok (w, res) -> Printf.sprintf "ok %d %s" (b2i w) (zl res)) in
      cat [m; zl (List.map (fc_spec_strict cs) things); zl (List.map (fc_spec_lit cs) things)]
  | "fccore" :: rest ->
      let (things, r) = parr (ints rest) in
      let (cs, _) = parr r in
      zl (fc_in things cs O)
  | "sbc" :: rest ->
      let (things, r) = parr (ints rest) in
      let (cs, _) = parr r in
      let m = (match split_by_containment things cs with
        | Err c -> err c
        | Ok (w, gs) -> Printf.sprintf "ok %d %d %s" (b2i w) (List.length gs) (groups gs)) in
      cat [m; groups (groups_spec fc_spec_strict things cs); groups (groups_spec fc_spec_lit things cs)]
  | "tw" :: w :: rest ->
      let (things, r) = parr (ints rest) in
      let (cs, _) = parr r in
      let w = zi w in
      let m = (match touching_windows things cs w with
        | Err c -> err c
        | Ok (wn, res) -> Printf.sprintf "ok %d %s" (b2i wn) (pairs_nat res)) in
      let s = String.concat " " (List.map (fun l -> join (List.length l :: List.map int_of_nat l)) (tw_spec things cs w)) in
      cat [m; s]
  | "twk" :: w :: kind :: rest ->
      let (things, r) = parr (ints rest) in
      let (cs, _) = parr r in
      (match touching_windows_core things cs (zi w) (zi kind) with
        | Err c -> err c
        | Ok res -> "ok " ^ pairs_nat res)
  | "stw" :: w :: rest ->
      let (things, r) = parr (ints rest) in
      let (cs, _) = parr r in
      (match split_touching_windows things cs (zi w) with
        | Err c -> err c
        | Ok (wn, gs) -> Printf.sprintf "ok %d %d %s" (b2i wn) (List.length gs) (groups gs))
  | "oi" :: rest ->
      (match ints rest with
       | [a1; na; b1; nb] ->
           let z = z_of_int in
           let m = (match overlap_indices (z a1) (z na) (z b1) (z nb) with
             | Err c -> err c
             | Ok ((a, b), (c, d)) -> "ok " ^ zl [a; b; c; d]) in
           let ((a, b), (c, d)) = oi_spec (z a1) (z na) (z b1) (z nb) in
           cat [m; zl [a; b; c; d]]
       | _ -> "BAD")
  | "diff" :: rest ->
      let (rs, _) = parr (ints rest) in
      cat ["ok " ^ zl (diff rs); zl (diff_spec rs)]
  | "fb" :: sb :: nb :: rest ->
      let (rs, _) = parr (ints rest) in
      let sb = zi sb and nb = zi nb in
      let m = (match find_break_i rs sb nb with Err c -> err c | Ok i -> Printf.sprintf "ok %d" (int_of_nat i)) in
      let s = (match find_break_spec rs sb nb with None -> "none" | Some i -> Printf.sprintf "some %d" (int_of_nat i)) in
      cat [m; s]
  | "frb" :: sb :: nb :: left :: tol :: rest ->
      let (rs, _) = parr (ints rest) in
      (match from_break rs (zi sb) (zi nb) (left <> "0") (tol <> "0") with
       | Err c -> err c
       | Ok (l, t) -> Printf.sprintf "ok %d %s" (int_of_z t) (join (List.length l :: ids l)))
  | "atp" :: rest ->
      let (things, r) = parr (ints rest) in
      let (ivs, _) = parr r in
      let pr l = String.concat " " (List.map (fun (a, b) -> Printf.sprintf "%d %d" (int_of_z a) (int_of_z b)) l) in
      let m = (match abs_time_to_prev_next_interval things ivs with
        | Err c -> err c
        | Ok (w, l) -> Printf.sprintf "ok %d %s" (b2i w) (pr l)) in
      cat [m; pr (atp_spec things ivs); zl (List.map (prev_spec_nat ivs) things)]
  | "sbt" :: rest ->
      let (rs, _) = parr (ints rest) in
      let out = sort_by_time rs in
      cat ["ok " ^ join (ids out);
           Printf.sprintf "%d %d" (b2i (is_stable_sort_of rs out)) (b2i (is_sorted_perm_of rs out))]
  | "sbtchk" :: rest ->
      let (inp, r) = parr (ints rest) in
      let (out, _) = parr r in
      Printf.sprintf "%d %d" (b2i (is_stable_sort_of inp out)) (b2i (is_sorted_perm_of inp out))
  | "ssort" :: kind :: rest ->
      (match stable_sort (List.map z_of_int (ints rest)) (zi kind) with
       | Err c -> err c | Ok l -> "ok " ^ zl l)
  | "sargsort" :: kind :: rest ->
      (match stable_argsort (List.map z_of_int (ints rest)) (zi kind) with
       | Err c -> err c | Ok l -> "ok " ^ nl l)
  | _ -> "UNKNOWN"
let () = main_loop handle
