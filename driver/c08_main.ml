open Model
open Zio
(* line protocol:  iter <exhaust 0|1> <save_when> <ndeps> { <kind> <nchunks> { chunk } }
   chunk: start end dtype kind run(-999999 = None) target <n> { t e id ch }
   result: calls "s e ids;ids;.." joined by " | ", then " # ok" or " # err <code>" *)
let none_run = -999999
let parse_rows l =
  match l with
  | n :: r ->
      let rec go k l acc = if k = 0 then (List.rev acc, l) else
        match l with
        | t :: e :: i :: c :: rest -> go (k - 1) rest ({ rt = z_of_int t; re = z_of_int e; rid = z_of_int i; rch = z_of_int c } :: acc)
        | _ -> failwith "rows" in
      go n r []
  | _ -> failwith "rows0"
let parse_chunk l =
  match l with
  | s :: e :: dt :: kind :: run :: tgt :: r ->
      let rows, rest = parse_rows r in
      ({ cstart = z_of_int s; cend = z_of_int e; crows = rows; cdtype = z_of_int dt; ckind = z_of_int kind;
         crun = (if run = none_run then None else Some (z_of_int run)); ctarget = z_of_int tgt }, rest)
  | _ -> failwith "chunk"
let rec parse_chunks k l = if k = 0 then ([], l) else
  let c, r = parse_chunk l in let cs, r' = parse_chunks (k - 1) r in (c :: cs, r')
let rec parse_deps k l = if k = 0 then ([], l) else
  match l with
  | kind :: n :: r ->
      let cs, r' = parse_chunks n r in
      let ds, r'' = parse_deps (k - 1) r' in
      ((z_of_int kind, cs) :: ds, r'')
  | _ -> failwith "deps"
let show_ids c = String.concat "," (List.map (fun r -> string_of_int (int_of_z r.rid)) c.crows)
let show_call c =
  Printf.sprintf "%d %d %s" (int_of_z c.call_start) (int_of_z c.call_end)
    (String.concat ";" (List.map show_ids c.call_inputs))
let show (calls, out) =
  String.concat " | " (List.map show_call calls) ^
  (match out with None -> " # ok" | Some e -> Printf.sprintf " # err %d" (int_of_z e))
let handle toks =
  match toks with
  | "iter" :: rest ->
      (match ints rest with
       | exhaust :: sw :: k :: r ->
           let deps, _ = parse_deps k r in
           show ((if exhaust <> 0 then exhaust_iter else plugin_iter) (z_of_int sw) deps)
       | _ -> "BAD")
  | _ -> "UNKNOWN"
let () = main_loop handle
