open Model
open Zio
(* Line protocol of the C16 model driver.
   rows:   n then 4 ints each (t e id ch)
   chunks: start end dtype kind run(-999999 = None) target <rows>      (as in the C07 driver)
   A directory is printed as
     {v=<valid> t=<target rows> c=<compressor> s=<start> e=<end> | n,start,end,ft,fe,lt,le,file ; ... | <loaded chunks>}
   or "absent". *)
let none_run = -999999
let parse_rows l =
  match l with
  | n :: r ->
      let rec go k l acc = if k = 0 then (List.rev acc, l) else
        match l with
        | t :: e :: i :: c :: rest -> go (k - 1) rest ({ rt = z_of_int t; re = z_of_int e; rid = z_of_int i; rch = z_of_int c } :: acc)
        | _ -> failwith "rows" in
      go n r []
  | _ -> failwith "rows0"
let parse_chunk l =
  match l with
  | s :: e :: dt :: kind :: run :: tgt :: r ->
      let rows, rest = parse_rows r in
      ({ cstart = z_of_int s; cend = z_of_int e; crows = rows; cdtype = z_of_int dt; ckind = z_of_int kind;
         crun = (if run = none_run then None else Some (z_of_int run)); ctarget = z_of_int tgt }, rest)
  | _ -> failwith "chunk"
let rec parse_chunks k l = if k = 0 then ([], l) else
  let c, r = parse_chunk l in let cs, r' = parse_chunks (k - 1) r in (c :: cs, r')
let show_chunk c =
  Printf.sprintf "[%d %d run=%d n=%d ids=%s ch=%s tgt=%d]" (int_of_z c.cstart) (int_of_z c.cend)
    (match c.crun with None -> none_run | Some r -> int_of_z r) (List.length c.crows)
    (String.concat "," (List.map (fun r -> string_of_int (int_of_z r.rid)) c.crows))
    (String.concat "," (List.map (fun r -> string_of_int (int_of_z r.rch)) c.crows))
    (int_of_z c.ctarget)
let show_chunks r =
  match r with
  | Ok cs -> String.concat " " (List.map show_chunk cs)
  | Err e -> Printf.sprintf "err %d" (int_of_z e)
let show_pair = function None -> "x,x" | Some (a, b) -> Printf.sprintf "%d,%d" (int_of_z a) (int_of_z b)
let show_info ci =
  Printf.sprintf "%d,%d,%d,%s,%s,%d" (int_of_z ci.ci_n) (int_of_z ci.ci_start) (int_of_z ci.ci_end)
    (show_pair ci.ci_first) (show_pair ci.ci_last) (match ci.ci_file with None -> 0 | Some _ -> 1)
let show_store (s : tstored) =
  Printf.sprintf "{v=%d t=%d c=%d s=%d e=%d | %s | %s}" (if is_valid s then 1 else 0)
    (int_of_z s.md_target) (int_of_z s.md_comp) (int_of_z s.md_start) (int_of_z s.md_end)
    (String.concat ";" (List.map show_info s.md_chunks)) (show_chunks (c16_load s))
let show_dir = function None -> "absent" | Some s -> show_store s
let show_res_store = function Ok s -> show_store s | Err e -> Printf.sprintf "err %d" (int_of_z e)
let show_unit_res = function Ok _ -> "ok" | Err e -> Printf.sprintf "err %d" (int_of_z e)
let optz n = if n < 0 then None else Some (z_of_int n)
let rec last_or d = function [] -> d | [x] -> x | _ :: r -> last_or d r
(* the states the source path goes through: O = the old directory, N = the new data, A = absent, X = other *)
let classify old fin tr =
  String.concat "" (List.map (fun fs ->
    match lookup p_SRC fs with
    | None -> "A"
    | Some s -> if s = old then "O" else if Some s = fin then "N" else "X") tr)
let parse_groups l =
  match l with
  | ng :: r ->
      let rec go k l acc = if k = 0 then (List.rev acc, l) else
        match l with
        | len :: rest -> go (k - 1) (drop len rest) (List.map nat_of_int (take len rest) :: acc)
        | _ -> failwith "groups" in
      go ng r []
  | _ -> failwith "groups0"
let handle toks =
  match toks with
  | "copy" :: rest ->
      (match ints rest with
       | dst_state :: comp :: rechunk :: rechunk_to :: md_comp :: md_target :: k :: r ->
           let cs, _ = parse_chunks k r in
           let s = c16_store_of (z_of_int 1) (z_of_int 1) (z_of_int md_comp) (z_of_int md_target) cs in
           let fs0 = c16_fs0 s (z_of_int dst_state) in
           let tr, res = c16_copy s (z_of_int dst_state) (optz comp) (rechunk <> 0) (z_of_int rechunk_to) in
           let fin = last_or fs0 tr in
           Printf.sprintf "%s src=%s dst=%s" (show_unit_res res)
             (if List.for_all (fun fs -> lookup p_SRC fs = Some s) (fs0 :: tr) then "untouched" else "TOUCHED")
             (show_dir (lookup p_DST fin))
       | _ -> "BAD")
  | "rechunker" :: rest ->
      (match ints rest with
       | dst_state :: replace :: comp :: tgt :: rechunk :: md_comp :: md_target :: k :: r ->
           let cs, _ = parse_chunks k r in
           let s = c16_store_of (z_of_int 1) (z_of_int 1) (z_of_int md_comp) (z_of_int md_target) cs in
           let fs0 = c16_fs0 s (z_of_int dst_state) in
           let tr, res = c16_rechunker s (z_of_int dst_state) (replace <> 0) (optz comp) (optz tgt) (rechunk <> 0) in
           let fin = last_or fs0 tr in
           let newd = if replace <> 0 then lookup p_SRC fin else lookup p_DST fin in
           Printf.sprintf "%s src=%s dst=%s trace=%s" (show_unit_res res) (show_dir (lookup p_SRC fin))
             (show_dir (lookup p_DST fin)) (classify s newd tr)
       | _ -> "BAD")
  | "rechunker_same" :: rest ->
      (match ints rest with
       | comp :: tgt :: rechunk :: md_comp :: md_target :: k :: r ->
           let cs, _ = parse_chunks k r in
           let s = c16_store_of (z_of_int 1) (z_of_int 1) (z_of_int md_comp) (z_of_int md_target) cs in
           let tr, res = c16_rechunker_same s (optz comp) (optz tgt) (rechunk <> 0) in
           let fin = last_or [(p_SRC, s)] tr in
           Printf.sprintf "%s src=%s" (show_unit_res res) (show_dir (lookup p_SRC fin))
       | _ -> "BAD")
  | "onload" :: rest ->
      (match ints rest with
       | tgt :: md_comp :: md_target :: nsel :: r ->
           let sel, r = if nsel < 0 then (None, r) else (Some (List.map nat_of_int (take nsel r)), drop nsel r) in
           (match r with
            | k :: r ->
                let cs, _ = parse_chunks k r in
                let s = c16_store_of (z_of_int 1) (z_of_int 1) (z_of_int md_comp) (z_of_int md_target) cs in
                show_chunks (c16_onload s sel (z_of_int tgt))
            | _ -> "BAD")
       | _ -> "BAD")
  | "perchunk" :: rest ->
      (match ints rest with
       | m :: rr :: rechunk_save :: tgt_plugin :: comp_plugin :: merge_rechunk :: rechunk_to :: md_comp :: md_target :: r ->
           let groups, r = parse_groups r in
           (match r with
            | k :: r ->
                let cs, _ = parse_chunks k r in
                let dep = c16_store_of (z_of_int 1) (z_of_int 1) (z_of_int md_comp) (z_of_int md_target) cs in
                let md_t = c16_template (z_of_int 2) (z_of_int 2) (z_of_int comp_plugin) (z_of_int tgt_plugin) in
                let (((jobs, tag), merged), direct) =
                  c16_perchunk (z_of_int m) (z_of_int rr) dep groups md_t (rechunk_save <> 0) (merge_rechunk <> 0)
                    (z_of_int rechunk_to) in
                Printf.sprintf "jobs=%s tag=%s merged=%s direct=%s"
                  (String.concat "|" (List.map show_res_store jobs))
                  (match tag with
                   | Ok None -> "none"
                   | Ok (Some l) -> String.concat "," (List.map (fun i -> string_of_int (int_of_nat i)) l)
                   | Err e -> Printf.sprintf "err %d" (int_of_z e))
                  (show_res_store merged) (show_res_store direct)
            | _ -> "BAD")
       | _ -> "BAD")
  | "merge_tag" :: rest ->
      (match ints rest with
       | ndep :: r ->
           let groups, _ = parse_groups r in
           (match merge_where (nat_of_int ndep) groups with
            | Ok None -> "none"
            | Ok (Some _) -> "tagged"
            | Err e -> Printf.sprintf "err %d" (int_of_z e))
       | _ -> "BAD")
  | "rechunk" :: rest ->
      (match ints rest with
       | k :: r -> let cs, _ = parse_chunks k r in show_chunks (rechunk_stream cs)
       | _ -> "BAD")
  | _ -> "UNKNOWN"
let () = main_loop handle
