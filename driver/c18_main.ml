open Model
open Zio
(* records: n spr, then per record
   time length dt ch plen reci area level bl16 rms16 shift data[spr] *)
let parse_records l =
  match l with
  | n :: spr :: rest ->
      let rec go k l acc =
        if k = 0 then (List.rev acc, l)
        else match l with
          | t :: len :: dt :: ch :: plen :: reci :: area :: lvl :: bl :: rms :: sh :: r ->
              let d = List.map z_of_int (take spr r) in
              let rc = { r_time = z_of_int t; r_length = z_of_int len; r_dt = z_of_int dt; r_ch = z_of_int ch;
                         r_plen = z_of_int plen; r_reci = z_of_int reci; r_area = z_of_int area;
                         r_level = z_of_int lvl; r_bl = z_of_int bl; r_rms = z_of_int rms;
                         r_shift = z_of_int sh; r_data = d } in
              go (k - 1) (drop spr r) (rc :: acc)
          | _ -> failwith "records"
      in go n rest []
  | _ -> failwith "records header"
let parse_targ l =
  match l with
  | 0 :: v :: rest -> (Scalar (z_of_int v), rest)
  | 1 :: n :: rest -> (PerCh (List.map z_of_int (take n rest)), drop n rest)
  | _ -> failwith "targ"
let show_rec r =
  join ([int_of_z r.r_time; int_of_z r.r_length; int_of_z r.r_dt; int_of_z r.r_ch; int_of_z r.r_plen;
         int_of_z r.r_reci; int_of_z r.r_area; int_of_z r.r_level; int_of_z r.r_bl; int_of_z r.r_rms;
         int_of_z r.r_shift] @ List.map int_of_z r.r_data)
let show_recs rs = "ok " ^ string_of_int (List.length rs) ^ " " ^ String.concat " " (List.map show_rec rs)
let show_hit h =
  join [int_of_z h.h_time; int_of_z h.h_length; int_of_z h.h_dt; int_of_z h.h_ch; int_of_z h.h_area;
        int_of_z h.h_left; int_of_z h.h_right; int_of_z h.h_reci; int_of_z h.h_thr; int_of_z h.h_height;
        int_of_z h.h_maxtime]
let err e = "err " ^ string_of_int (int_of_z e)
let zh = z_of_int 0
let handle toks =
  match toks with
  | "find_hits" :: rest ->
      let l = ints rest in
      let (amp, l) = parse_targ l in
      let (hon, l) = parse_targ l in
      let (rs, _) = parse_records l in
      (match find_hits rs amp hon with
       | Err e -> err e
       | Ok hs -> "ok " ^ string_of_int (List.length hs) ^ " " ^ String.concat " " (List.map show_hit hs))
  | "record_links" :: rest ->
      let (rs, _) = parse_records (ints rest) in
      (match record_links rs with
       | Err e -> err e
       | Ok (p, n) -> "ok " ^ join (List.map int_of_z p) ^ " | " ^ join (List.map int_of_z n))
  | "cut_outside_hits" :: rest ->
      (match ints rest with
       | le :: re :: nh :: l ->
           let rec hits k l acc =
             if k = 0 then (List.rev acc, l)
             else match l with
               | ri :: a :: b :: r ->
                   hits (k - 1) r ({ h_time = zh; h_length = zh; h_dt = zh; h_ch = zh; h_area = zh;
                                     h_left = z_of_int a; h_right = z_of_int b; h_reci = z_of_int ri;
                                     h_thr = zh; h_height = zh; h_maxtime = zh } :: acc)
               | _ -> failwith "hits" in
           let (hs, l) = hits nh l [] in
           let (rs, _) = parse_records l in
           (match cut_outside_hits rs hs (z_of_int le) (z_of_int re) with
            | Err e -> err e
            | Ok out -> show_recs out)
       | _ -> "BAD")
  | "cut_baseline" :: rest ->
      (match ints rest with
       | nb :: na :: l ->
           let (rs, _) = parse_records l in show_recs (cut_baseline rs (z_of_int nb) (z_of_int na))
       | _ -> "BAD")
  | "zero_oob" :: rest ->
      let (rs, _) = parse_records (ints rest) in show_recs (zero_out_of_bounds rs)
  | "integrate" :: rest ->
      let (rs, _) = parse_records (ints rest) in show_recs (integrate rs)
  | "baseline" :: rest ->
      (match ints rest with
       | bs :: flip :: sloppy :: fb :: l ->
           let (rs, _) = parse_records l in
           (match baseline rs (z_of_int bs) (flip <> 0) (sloppy <> 0) (z_of_int fb) with
            | Err e -> err e
            | Ok out -> show_recs out)
       | _ -> "BAD")
  | _ -> "UNKNOWN"
let () = main_loop handle
