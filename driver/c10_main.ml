open Model
open Zio
(* Line protocol of the C10 model driver (all integers).
   request  := md(-1|s) tr(0|1 t0 t1) sr(0|1 a b) tw(0|1 t e) mode(0 FC,1 Touching,2 Skip,3 Bad)
               keep(-1|n f..) drop(-1|n f..) npred pred..
   pred     := 0 | 1 f c k | 2 p p | 3 p p | 4 p          (c: 0 ==,1 !=,2 <,3 <=,4 >,5 >=)
   chunks   := k (start end dtype kind run target nrows (t e id ch)..)..
   get1 request chunks           -> "<get_array> # <selection of the full result> # lost=<ids>"
   get2 request chunksA chunksB  -> "<get_array> # <selection of the full merged result> # lostA=<ids> lostB=<ids>"
   atr t0 t1 chunk               -> "ok start end ids" | "err N"   (StorageBackend.apply_time_range)
   savers superrun_nowrite fuzzy allow_incomplete tr sel keep drop n (name save_when is_target in_save temp stored)..
   result   := "ok f,f|v,v;v,v" | "err N" *)
let none_run = -999999
let cur = ref []
let next () = match !cur with x :: r -> cur := r; x | [] -> failwith "short"
let nexts n = List.init n (fun _ -> next ())
let zi = z_of_int
let p_row () = let t = next () in let e = next () in let i = next () in let c = next () in
  { rt = zi t; re = zi e; rid = zi i; rch = zi c }
let p_chunk () =
  let s = next () in let e = next () in let dt = next () in let kind = next () in let run = next () in
  let tgt = next () in let n = next () in
  let rows = List.init n (fun _ -> p_row ()) in
  { cstart = zi s; cend = zi e; crows = rows; cdtype = zi dt; ckind = zi kind;
    crun = (if run = none_run then None else Some (zi run)); ctarget = zi tgt }
let p_chunks () = let k = next () in List.init k (fun _ -> p_chunk ())
let p_pair () = if next () = 0 then None else (let a = next () in let b = next () in Some (zi a, zi b))
let p_optlist () = let n = next () in if n < 0 then None else Some (List.map zi (nexts n))
let rec p_pred () =
  match next () with
  | 0 -> PTrue
  | 1 -> let f = next () in let c = next () in let k = next () in
      PCmp (zi f, (match c with 0 -> CEq | 1 -> CNe | 2 -> CLt | 3 -> CLe | 4 -> CGt | _ -> CGe), zi k)
  | 2 -> let a = p_pred () in let b = p_pred () in PAnd (a, b)
  | 3 -> let a = p_pred () in let b = p_pred () in POr (a, b)
  | _ -> PNot (p_pred ())
let p_mode () = match next () with 0 -> FC | 1 -> Touching | 2 -> Skip | _ -> BadMode
type req = { md : z option; rq : request; preds : pred list }
let p_req () =
  let md = next () in
  let tr = p_pair () in let sr = p_pair () in
  let tw = (match p_pair () with None -> None | Some (t, e) -> Some { rt = t; re = e; rid = Z0; rch = Z0 }) in
  let m = p_mode () in let keep = p_optlist () in let drop = p_optlist () in
  let np = next () in let preds = List.init np (fun _ -> p_pred ()) in
  { md = (if md < 0 then None else Some (zi md));
    rq = { rq_time_range = tr; rq_seconds_range = sr; rq_time_within = tw; rq_mode = m; rq_keep = keep; rq_drop = drop };
    preds = preds }
let show_res r =
  match r with
  | Err e -> Printf.sprintf "err %d" (int_of_z e)
  | Ok (fs, rows) ->
      "ok " ^ String.concat "," (List.map (fun f -> string_of_int (int_of_z f)) fs) ^ "|" ^
      String.concat ";" (List.map (fun r -> String.concat "," (List.map (fun v -> string_of_int (int_of_z v)) r)) rows)
let handle toks =
  match toks with
  | "get1" :: rest ->
      cur := ints rest;
      let r = p_req () in let cs = p_chunks () in
      let p = peval_all row_fval r.preds in
      let got = get_array1 r.md cs r.rq p in
      let tr = to_absolute r.md cs r.rq.rq_time_range r.rq.rq_seconds_range r.rq.rq_time_within in
      (match tr with
       | Err e -> show_res got ^ " # " ^ Printf.sprintf "err %d" (int_of_z e) ^ " # lost="
       | Ok tro ->
           let full = select_full cs tro r.rq.rq_mode p r.rq.rq_keep r.rq.rq_drop in
           let lost_ids = (match tro, r.rq.rq_mode with
             | Some (t0, t1), FC ->
                 List.concat_map (fun c -> List.filter_map (fun q ->
                   if lost t0 t1 c q && p q then Some (string_of_int (int_of_z q.rid)) else None) c.crows) cs
             | _ -> []) in
           show_res got ^ " # " ^ show_res full ^ " # lost=" ^ String.concat "," lost_ids)
  | "get2" :: rest ->
      cur := ints rest;
      let r = p_req () in let csa = p_chunks () in let csb = p_chunks () in
      let p = peval_all pair_fval r.preds in
      let got = get_array2 r.md csa csb r.rq p in
      let tr = to_absolute r.md csa r.rq.rq_time_range r.rq.rq_seconds_range r.rq.rq_time_within in
      (match tr with
       | Err e -> show_res got ^ " # " ^ Printf.sprintf "err %d" (int_of_z e) ^ " # lostA= lostB="
       | Ok tro ->
           let lost_of cs = (match tro, r.rq.rq_mode with
             | Some (t0, t1), FC ->
                 List.concat_map (fun c -> List.filter_map (fun q ->
                   if lost t0 t1 c q then Some (string_of_int (int_of_z q.rid)) else None) c.crows) cs
             | _ -> []) in
           show_res got ^ " # " ^ show_res (select_full2 csa csb tro r.rq.rq_mode p r.rq.rq_keep r.rq.rq_drop)
           ^ " # lostA=" ^ String.concat "," (lost_of csa) ^ " lostB=" ^ String.concat "," (lost_of csb))
  | "atr" :: rest ->
      cur := ints rest;
      let t0 = next () in let t1 = next () in let c = p_chunk () in
      (match apply_time_range c (zi t0) (zi t1) with
       | Ok c' -> Printf.sprintf "ok %d %d %s" (int_of_z c'.cstart) (int_of_z c'.cend)
                    (String.concat "," (List.map (fun r -> string_of_int (int_of_z r.rid)) c'.crows))
       | Err e -> Printf.sprintf "err %d" (int_of_z e))
  | "savers" :: rest ->
      cur := ints rest;
      let b () = next () <> 0 in
      let sn = b () in let fz = b () in let ai = b () in
      let cf = { cf_superrun_nowrite = sn; cf_fuzzy = fz; cf_allow_incomplete = ai } in
      let ptr = b () in let psel = b () in let pk = b () in let pd = b () in
      let pf = { pf_time_range = ptr; pf_selection = psel; pf_keep = pk; pf_drop = pd } in
      let n = next () in
      let ts = List.init n (fun _ ->
        let name = next () in let sw = next () in let it = b () in let ins = b () in let tmp = b () in let st = b () in
        (zi name, { ti_save_when = zi sw; ti_is_target = it; ti_in_save = ins; ti_temp = tmp; ti_stored = st })) in
      (match savers_of cf pf ts with
       | Ok l -> "ok " ^ String.concat "," (List.map (fun x -> string_of_int (int_of_z x)) l)
       | Err e -> Printf.sprintf "err %d" (int_of_z e))
  | _ -> "UNKNOWN"
let () = main_loop handle
