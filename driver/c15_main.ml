open Model
open Zio
(* ---- multi_run ------------------------------------------------------------------------------
   in : multi_run w ignore throw addid  n id*n  m (id ok len payload*len)*m  nb (len pick*len)*nb
   out: OK (T | R narr (len (rid payload)*len)*narr) F nf id*nf S ns id*ns M maxwin
        | RAISE r S ns id*ns | VALUEERR | FUEL                                                    *)
let rec parse_tbl m l acc =
  if m = 0 then (List.rev acc, l) else
  match l with
  | id :: ok :: len :: r ->
      let pl = take len r in
      let v = if ok <> 0 then Some (List.map z_of_int pl) else None in
      parse_tbl (m - 1) (drop len r) ((z_of_int id, v) :: acc)
  | _ -> failwith "tbl"
let rec parse_batches nb l acc =
  if nb = 0 then (List.rev acc, l) else
  match l with
  | len :: r -> parse_batches (nb - 1) (drop len r) (List.map nat_of_int (take len r) :: acc)
  | _ -> failwith "batches"
let zl l = String.concat " " (List.map (fun z -> string_of_int (int_of_z z)) l)
let show_arr a =
  string_of_int (List.length a) ^
  String.concat "" (List.map (fun (rid, p) ->
    Printf.sprintf " %d %d" (match rid with Some r -> int_of_z r | None -> -1) (int_of_z p)) a)
let do_multi_run l =
  match l with
  | w :: ig :: th :: ad :: n :: r ->
      let ids = List.map z_of_int (take n r) in
      let r = drop n r in
      (match r with
       | m :: r ->
           let (tbl, r) = parse_tbl m r [] in
           (match r with
            | nb :: r ->
                let (sched, _) = parse_batches nb r [] in
                let cfg = { mr_workers = nat_of_int w; mr_ignore = (ig <> 0); mr_throw = (th <> 0);
                            mr_addid = (ad <> 0) } in
                (match multi_run_tbl tbl cfg ids sched with
                 | MROk (res, fl, sub, mw) ->
                     let rs = (match res with
                       | None -> "T"
                       | Some arrs -> "R " ^ string_of_int (List.length arrs) ^
                                      String.concat "" (List.map (fun a -> " " ^ show_arr a) arrs)) in
                     Printf.sprintf "OK %s F %d %s S %d %s M %d" rs (List.length fl) (zl fl)
                       (List.length sub) (zl sub) (int_of_nat mw)
                 | MRRaise (r, sub) -> Printf.sprintf "RAISE %d S %d %s" (int_of_z r) (List.length sub) (zl sub)
                 | MRValueErr -> "VALUEERR"
                 | MRFuel -> "FUEL")
            | _ -> "BAD")
       | _ -> "BAD")
  | _ -> "BAD"
let handle toks =
  match toks with
  | "multi_run" :: rest -> do_multi_run (ints rest)
  | _ -> "UNKNOWN"
let () = main_loop handle
