open Model
open Zio
(* ---- multi_run ------------------------------------------------------------------------------
   in : multi_run w ignore throw addid  n id*n  m (id ok len payload*len)*m  nb (len pick*len)*nb
   out: OK (T | R narr (len (rid payload)*len)*narr) F nf id*nf S ns id*ns M maxwin
        | RAISE r S ns id*ns | VALUEERR | FUEL                                                    *)
let rec parse_tbl m l acc =
  if m = 0 then (List.rev acc, l) else
  match l with
  | id :: ok :: len :: r ->
      let pl = take len r in
      let v = if ok <> 0 then Some (List.map z_of_int pl) else None in
      parse_tbl (m - 1) (drop len r) ((z_of_int id, v) :: acc)
  | _ -> failwith "tbl"
let rec parse_batches nb l acc =
  if nb = 0 then (List.rev acc, l) else
  match l with
  | len :: r -> parse_batches (nb - 1) (drop len r) (List.map nat_of_int (take len r) :: acc)
  | _ -> failwith "batches"
let zl l = String.concat " " (List.map (fun z -> string_of_int (int_of_z z)) l)
let show_arr a =
  string_of_int (List.length a) ^
  String.concat "" (List.map (fun (rid, p) ->
    Printf.sprintf " %d %d" (match rid with Some r -> int_of_z r | None -> -1) (int_of_z p)) a)
let do_multi_run l =
  match l with
  | w :: ig :: th :: ad :: n :: r ->
      let ids = List.map z_of_int (take n r) in
      let r = drop n r in
      (match r with
       | m :: r ->
           let (tbl, r) = parse_tbl m r [] in
           (match r with
            | nb :: r ->
                let (sched, _) = parse_batches nb r [] in
                let cfg = { mr_workers = nat_of_int w; mr_ignore = (ig <> 0); mr_throw = (th <> 0);
                            mr_addid = (ad <> 0) } in
                (match multi_run_tbl tbl cfg ids sched with
                 | MROk (res, fl, sub, mw) ->
                     let rs = (match res with
                       | None -> "T"
                       | Some arrs -> "R " ^ string_of_int (List.length arrs) ^
                                      String.concat "" (List.map (fun a -> " " ^ show_arr a) arrs)) in
                     Printf.sprintf "OK %s F %d %s S %d %s M %d" rs (List.length fl) (zl fl)
                       (List.length sub) (zl sub) (int_of_nat mw)
                 | MRRaise (r, sub) -> Printf.sprintf "RAISE %d S %d %s" (int_of_z r) (List.length sub) (zl sub)
                 | MRValueErr -> "VALUEERR"
                 | MRFuel -> "FUEL")
            | _ -> "BAD")
       | _ -> "BAD")
  | _ -> "BAD"

(* ---- Context race LTS --------------------------------------------------------------------------
   config :=  ndeps {name k dep^k}  nso {k in^k m out^m}  fuel
              nreg {name cls}  cache: -1 or n {name cls}
              nthreads {nitems item..}
     item := 1 k t^k | 2 t | 3 t c | 4 | 5 l t | 6 k t^k nsf
   ctx <config> nseg {tid count}     run the schedule, then every thread to completion in tid order
        out: per thread  T status(D | R | C kind lbl) ntrace lbl..   then G and the _get_plugins results
   ctxsearch <config> astride bstride cmax   2 threads: T0 a, T1 b, [T0 c], then drain; all crash classes
        out: N nclasses {tid kind lbl a b c}                                                          *)
let cur = ref [||] and pos = ref 0
let next () = let v = !cur.(!pos) in incr pos; v
let nexts k = List.init k (fun _ -> next ())
let zs l = List.map z_of_int l
let parse_config () =
  let ndeps = next () in
  let deps = List.init ndeps (fun _ -> let n = next () in let k = next () in (z_of_int n, zs (nexts k))) in
  let nso = next () in
  let so = List.init nso (fun _ -> let k = next () in let i = zs (nexts k) in let m = next () in (i, zs (nexts m))) in
  let fuel = next () in
  let nreg = next () in
  let reg = List.init nreg (fun _ -> let n = next () in let c = next () in (z_of_int n, z_of_int c)) in
  let nc = next () in
  let (curc, heap) =
    if nc < 0 then (None, [])
    else (Some O, [ { d_items = List.init nc (fun _ -> let n = next () in let c = next () in (z_of_int n, z_of_int c)); d_ver = O } ]) in
  let nth = next () in
  let progs = List.init nth (fun _ ->
    let ni = next () in
    List.init ni (fun _ ->
      match next () with
      | 1 -> let k = next () in MGetPlugins (zs (nexts k))
      | 2 -> MKeyFor (z_of_int (next ()))
      | 3 -> let t = next () in let c = next () in HRegGet (z_of_int t, z_of_int c)
      | 4 -> HSnap
      | 5 -> let l = next () in let t = next () in HRead (z_of_int l, z_of_int t)
      | 6 -> let k = next () in let ts = zs (nexts k) in let nsf = next () in MEstimate (ts, nat_of_int nsf)
      | _ -> failwith "item")) in
  let c = { c_deps = deps; c_setorder = so; c_fuel = nat_of_int fuel } in
  let sh = { sh_reg = { d_items = reg; d_ver = O }; sh_cur = curc; sh_heap = heap } in
  (c, sh, progs)
let show_status th =
  match th.th_status with
  | Running -> "R" | Done -> "D"
  | Crashed (k, l) -> Printf.sprintf "C %d %d" (int_of_z k) (int_of_z l)
let show_sys s =
  String.concat " " (List.map (fun th ->
    let tr = List.rev_map int_of_z th.th_trace in
    Printf.sprintf "T %s %d %s" (show_status th) (List.length tr) (join tr)) s.s_ths)
let rec run_n c s tid n = if n <= 0 then s else
  (match List.nth_opt s.s_ths tid with
   | Some th when th.th_status = Running -> run_n c (sys_step c s (nat_of_int tid)) tid (n - 1)
   | _ -> s)
let drain_all c s nth = let s = ref s in
  for t = 0 to nth - 1 do s := run_n c !s t 1000000 done; !s
let do_ctx l =
  cur := Array.of_list l; pos := 0;
  let (c, sh, progs) = parse_config () in
  let nseg = next () in
  let s = ref (init_sys c sh progs) in
  for _ = 1 to nseg do let tid = next () in let n = next () in s := run_n c !s tid n done;
  let s = drain_all c !s (List.length progs) in
  show_sys s ^ " G " ^ String.concat " " (List.map (fun th ->
      String.concat "," (List.map (fun g -> String.concat "." (List.map (fun z -> string_of_int (int_of_z z)) g)) (List.rev th.th_got))) s.s_ths)
let steps_left c s tid = (* number of steps thread tid makes when run alone *)
  let rec go s n = match List.nth_opt s.s_ths tid with
    | Some th when th.th_status = Running -> go (sys_step c s (nat_of_int tid)) (n + 1)
    | _ -> n in go s 0
let drain_order c s order = List.fold_left (fun s t -> run_n c s t 1000000) s order
let do_ctxsearch l =
  cur := Array.of_list l; pos := 0;
  let (c, sh, progs) = parse_config () in
  let astride = next () in let bstride = next () in let cmax = next () in
  let s0 = init_sys c sh progs in
  let classes = Hashtbl.create 16 in
  let order = ref [] in
  let record s a b cc =
    List.iteri (fun tid th -> match th.th_status with
      | Crashed (k, lb) ->
          let key = (tid, int_of_z k, int_of_z lb) in
          if not (Hashtbl.mem classes key) then begin Hashtbl.add classes key (a, b, cc); order := key :: !order end
      | _ -> ()) s.s_ths in
  let n0 = steps_left c s0 0 in
  let a = ref 0 in
  let sa = ref s0 in
  while !a <= n0 do
    let sb = ref !sa in
    let b = ref 0 in
    let continue = ref true in
    while !continue do
      (* cc = -1: T0 to completion, then T1.   cc >= 0: T0 cc steps, then T1 to completion, then T0 *)
      record (drain_order c !sb [0; 1]) !a !b (-1);
      let sc = ref !sb in
      for cc = 0 to cmax do
        record (drain_order c !sc [1; 0]) !a !b cc;
        sc := run_n c !sc 0 1
      done;
      (match List.nth_opt !sb.s_ths 1 with
       | Some th when th.th_status = Running ->
           sb := run_n c !sb 1 bstride; b := !b + bstride
       | _ -> continue := false)
    done;
    sa := run_n c !sa 0 astride; a := !a + astride
  done;
  let ks = List.rev !order in
  Printf.sprintf "N %d %s" (List.length ks)
    (String.concat " " (List.map (fun ((tid, k, lb) as key) ->
       let (a, b, cc) = Hashtbl.find classes key in Printf.sprintf "%d %d %d %d %d %d" tid k lb a b cc) ks))

let handle toks =
  match toks with
  | "multi_run" :: rest -> do_multi_run (ints rest)
  | "ctx" :: rest -> do_ctx (ints rest)
  | "ctxsearch" :: rest -> do_ctxsearch (ints rest)
  | _ -> "UNKNOWN"
let () = main_loop handle
