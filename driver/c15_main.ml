open Model
open Zio
(* ---- multi_run ------------------------------------------------------------------------------
   in : multi_run w ignore throw addid  n id*n  m (id ok len payload*len)*m  nb (len pick*len)*nb
   out: OK (T | R narr (len (rid payload)*len)*narr) F nf id*nf S ns id*ns M maxwin
        | RAISE r S ns id*ns | VALUEERR | FUEL                                                    *)
let rec parse_tbl m l acc =
  if m = 0 then (List.rev acc, l) else
  match l with
  | id :: ok :: len :: r ->
      let pl = take len r in
      let v = if ok <> 0 then Some (List.map z_of_int pl) else None in
      parse_tbl (m - 1) (drop len r) ((z_of_int id, v) :: acc)
  | _ -> failwith "tbl"
let rec parse_batches nb l acc =
  if nb = 0 then (List.rev acc, l) else
  match l with
  | len :: r -> parse_batches (nb - 1) (drop len r) (List.map nat_of_int (take len r) :: acc)
  | _ -> failwith "batches"
let zl l = String.concat " " (List.map (fun z -> string_of_int (int_of_z z)) l)
let show_arr a =
  string_of_int (List.length a) ^
  String.concat "" (List.map (fun (rid, p) ->
    Printf.sprintf " %d %d" (match rid with Some r -> int_of_z r | None -> -1) (int_of_z p)) a)
let do_multi_run l =
  match l with
  | w :: ig :: th :: ad :: n :: r ->
      let ids = List.map z_of_int (take n r) in
      let r = drop n r in
      (match r with
       | m :: r ->
           let (tbl, r) = parse_tbl m r [] in
           (match r with
            | nb :: r ->
                let (sched, _) = parse_batches nb r [] in
                let cfg = { mr_workers = nat_of_int w; mr_ignore = (ig <> 0); mr_throw = (th <> 0);
                            mr_addid = (ad <> 0) } in
                (match multi_run_tbl tbl cfg ids sched with
                 | MROk (res, fl, sub, mw) ->
                     let rs = (match res with
                       | None -> "T"
                       | Some arrs -> "R " ^ string_of_int (List.length arrs) ^
                                      String.concat "" (List.map (fun a -> " " ^ show_arr a) arrs)) in
                     Printf.sprintf "OK %s F %d %s S %d %s M %d" rs (List.length fl) (zl fl)
                       (List.length sub) (zl sub) (int_of_nat mw)
                 | MRRaise (r, sub) -> Printf.sprintf "RAISE %d S %d %s" (int_of_z r) (List.length sub) (zl sub)
                 | MRValueErr -> "VALUEERR"
                 | MRFuel -> "FUEL")
            | _ -> "BAD")
       | _ -> "BAD")
  | _ -> "BAD"

(* ---- Context model (repaired code): sections are atomic ------------------------------------------
   config :=  ndeps {name k dep^k}  nso {k in^k m out^m}  fuel
              nreg {name cls}  cache: -1 or n {name}
              nthreads {nitems item..}
     item := 1 k t^k (IGetPlugins) | 2 t (IKeyFor) | 3 t c (IRegister) | 4 (ICleanup) | 5 l t (IRegRead)
           | 6 k t^k nsf (IEstimate) | 7 (ICopyReg) | 8 (IEndCall)
   fctx <config> mode nseg ...
     mode 0: nseg {tid count}   thread tid makes count transitions
     mode 1: nseg {tid}         thread tid runs up to and including its next atomic section
     afterwards every thread runs to completion in tid order
   out: per thread  T status(D | R | C kind lbl) ntrace lbl.. S nsteps len.. G k {m name^m}
        then  C (-1 | n name..)  W wf-per-thread..  X expgot-equal-per-thread..  B weight-per-thread.. *)
let cur = ref [||] and pos = ref 0
let next () = let v = !cur.(!pos) in incr pos; v
let nexts k = List.init k (fun _ -> next ())
let zs l = List.map z_of_int l
let parse_config () =
  let ndeps = next () in
  let deps = List.init ndeps (fun _ -> let n = next () in let k = next () in (z_of_int n, zs (nexts k))) in
  let nso = next () in
  let so = List.init nso (fun _ -> let k = next () in let i = zs (nexts k) in let m = next () in (i, zs (nexts m))) in
  let fuel = next () in
  let nreg = next () in
  let reg = List.init nreg (fun _ -> let n = next () in let c = next () in (z_of_int n, z_of_int c)) in
  let nc = next () in
  let cache = if nc < 0 then None else Some (zs (nexts nc)) in
  let nth = next () in
  let progs = List.init nth (fun _ ->
    let ni = next () in
    List.init ni (fun _ ->
      match next () with
      | 1 -> let k = next () in IGetPlugins (zs (nexts k))
      | 2 -> IKeyFor (z_of_int (next ()))
      | 3 -> let t = next () in let c = next () in IRegister (z_of_int t, z_of_int c)
      | 4 -> ICleanup
      | 5 -> let l = next () in let t = next () in IRegRead (z_of_int l, z_of_int t)
      | 6 -> let k = next () in let ts = zs (nexts k) in let nsf = next () in IEstimate (ts, nat_of_int nsf)
      | 7 -> ICopyReg
      | 8 -> IEndCall
      | _ -> failwith "item")) in
  let c = { c_deps = deps; c_setorder = so; c_fuel = nat_of_int fuel } in
  let sh = { sh_reg = reg; sh_cache = cache } in
  (c, sh, progs)
let zl l = String.concat " " (List.map (fun z -> string_of_int (int_of_z z)) l)
let show_status th =
  match th.th_status with
  | Running -> "R" | Done -> "D"
  | Crashed (k, l) -> Printf.sprintf "C %d %d" (int_of_z k) (int_of_z l)
let show_got g = Printf.sprintf "%d %s" (List.length g)
    (String.concat " " (List.map (fun x -> Printf.sprintf "%d %s" (List.length x) (zl x)) g))
let show_thread th =
  Printf.sprintf "T %s %d %s S %d %s G %s" (show_status th) (List.length th.th_trace) (zl th.th_trace)
    (List.length th.th_steps) (join (List.map int_of_nat th.th_steps)) (show_got th.th_got)
let running s tid = match List.nth_opt s.s_ths tid with Some th -> th.th_status = Running | None -> false
let rec run_n c s tid n = if n <= 0 || not (running s tid) then s else run_n c (sys_step c s (nat_of_int tid)) tid (n - 1)
let is_section = function IGetPlugins _ | IKeyFor _ | IEstimate _ -> true | _ -> false
let rec run_to_section c s tid =
  if not (running s tid) then s else
  match List.nth_opt s.s_ths tid with
  | Some th ->
      (match th.th_items with
       | it :: _ -> let s' = sys_step c s (nat_of_int tid) in if is_section it then s' else run_to_section c s' tid
       | [] -> sys_step c s (nat_of_int tid))
  | None -> s
let drain_all c s nth = let s = ref s in
  for t = 0 to nth - 1 do s := run_n c !s t 1000000 done; !s
let do_fctx l =
  cur := Array.of_list l; pos := 0;
  let (c, sh, progs) = parse_config () in
  let mode = next () in
  let nseg = next () in
  let s = ref (init_sys sh progs) in
  for _ = 1 to nseg do
    if mode = 0 then (let tid = next () in let n = next () in s := run_n c !s tid n)
    else (let tid = next () in s := run_to_section c !s tid)
  done;
  let s = drain_all c !s (List.length progs) in
  let b2s b = if b then "1" else "0" in
  String.concat " " (List.map show_thread s.s_ths)
  ^ " C " ^ (match s.s_sh.sh_cache with None -> "-1" | Some ks -> Printf.sprintf "%d %s" (List.length ks) (zl ks))
  ^ " W " ^ String.concat " " (List.map (fun p -> b2s (wf_items c sh.sh_reg None p)) progs)
  ^ " X " ^ String.concat " " (List.map2 (fun p th -> b2s (exp_got c p = th.th_got)) progs s.s_ths)
  ^ " B " ^ String.concat " " (List.map (fun p -> string_of_int (int_of_nat (prog_weight c p))) progs)

let handle toks =
  match toks with
  | "multi_run" :: rest -> do_multi_run (ints rest)
  | "fctx" :: rest -> do_fctx (ints rest)
  | _ -> "UNKNOWN"
let () = main_loop handle
