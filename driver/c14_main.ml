open Model
open Zio
(* Line protocol of the C14 model driver.
   annotation (python dict or None):  -1 = None | n then n * (key start end), key -999999 = None
   raw chunk:  start end dtype kind run(-999999 = None) target nrows (t e id ch)* <subruns> <superrun>
   stored chunk: start end dtype kind run target nrows (t e id ch)* <subruns> *)
let none_run = -999999
let zo r = if r = none_run then None else Some (z_of_int r)
let oz = function None -> none_run | Some r -> int_of_z r

let parse_rows l =
  match l with
  | n :: r ->
      let rec go k l acc = if k = 0 then (List.rev acc, l) else
        match l with
        | t :: e :: i :: c :: rest -> go (k - 1) rest ({ rt = z_of_int t; re = z_of_int e; rid = z_of_int i; rch = z_of_int c } :: acc)
        | _ -> failwith "rows" in
      go n r []
  | _ -> failwith "rows0"

let parse_annot l =
  match l with
  | n :: r when n < 0 -> (None, r)
  | n :: r ->
      let rec go k l acc = if k = 0 then (Some (List.rev acc), l) else
        match l with
        | key :: s :: e :: rest -> go (k - 1) rest ({ srun = zo key; sstart = z_of_int s; send = z_of_int e } :: acc)
        | _ -> failwith "annot" in
      go n r []
  | _ -> failwith "annot0"

type raw = { b : chunk; sub : annot option; sup : annot option }

let parse_base l =
  match l with
  | s :: e :: dt :: kind :: run :: tgt :: r ->
      let rows, rest = parse_rows r in
      ({ cstart = z_of_int s; cend = z_of_int e; crows = rows; cdtype = z_of_int dt; ckind = z_of_int kind;
         crun = zo run; ctarget = z_of_int tgt }, rest)
  | _ -> failwith "chunk"

let parse_raw l =
  let b, r = parse_base l in
  let sub, r = parse_annot r in
  let sup, r = parse_annot r in
  ({ b; sub; sup }, r)

let parse_stored l =
  let b, r = parse_base l in
  let sub, r = parse_annot r in
  ({ st_base = b; st_sub = sub }, r)

let rec parse_many f k l = if k = 0 then ([], l) else
  let c, r = f l in let cs, r' = parse_many f (k - 1) r in (c :: cs, r')

let show_annot a =
  String.concat ";" (List.map (fun s -> Printf.sprintf "%d:%d:%d" (oz s.srun) (int_of_z s.sstart) (int_of_z s.send)) a)
let show_oannot = function None -> "none" | Some a -> "{" ^ show_annot a ^ "}"
let show_base c =
  Printf.sprintf "%d %d run=%d n=%d ids=%s" (int_of_z c.cstart) (int_of_z c.cend) (oz c.crun) (List.length c.crows)
    (String.concat "," (List.map (fun r -> string_of_int (int_of_z r.rid)) c.crows))
let show c = Printf.sprintf "[%s sub=%s sup={%s}]" (show_base c.abase) (show_oannot c.asub) (show_annot c.asuper)
let show_stored s = Printf.sprintf "[%s sub=%s]" (show_base s.st_base) (show_oannot s.st_sub)
let shows l = String.concat " " (List.map show l)
let err e = Printf.sprintf "err %d" (int_of_z e)

let build r = mk_achunk r.b.cstart r.b.cend r.b.crows r.b.cdtype r.b.ckind r.b.crun r.b.ctarget r.sub r.sup
(* build all chunks; the first constructor failure wins *)
let rec build_all = function
  | [] -> Ok []
  | r :: rest -> (match build r with Err e -> Err e | Ok c -> (match build_all rest with Err e -> Err e | Ok cs -> Ok (c :: cs)))

let with_chunk r f = match build r with Err e -> Printf.sprintf "ctor %d" (int_of_z e) | Ok c -> f c
let with_chunks rs f = match build_all rs with Err e -> Printf.sprintf "ctor %d" (int_of_z e) | Ok cs -> f cs

let show_span_opt = function None -> "none" | Some s -> Printf.sprintf "%d:%d:%d" (oz s.srun) (int_of_z s.sstart) (int_of_z s.send)

let parse_levels k l =
  let rec go k l acc = if k = 0 then (List.rev acc, l) else
    match l with
    | dt :: kind :: rc :: tgt :: rest ->
        go (k - 1) rest ({ l_dtype = z_of_int dt; l_kind = z_of_int kind; l_rechunk = (rc <> 0); l_target = z_of_int tgt } :: acc)
    | _ -> failwith "levels" in
  go k l []

let parse_subruns l =
  match l with
  | nsub :: r ->
      let rec go k l acc = if k = 0 then (List.rev acc, l) else
        match l with
        | nch :: rest -> let cs, rest' = parse_many parse_stored nch rest in go (k - 1) rest' (cs :: acc)
        | _ -> failwith "subruns" in
      go nsub r []
  | _ -> failwith "subruns0"

let parse_srcs l =
  match l with
  | nsub :: r ->
      let rec go k l acc = if k = 0 then List.rev acc else
        match l with
        | run :: nch :: rest -> let cs, rest' = parse_many parse_stored nch rest in go (k - 1) rest' ((z_of_int run, cs) :: acc)
        | _ -> failwith "srcs" in
      go nsub r []
  | _ -> failwith "srcs0"

let handle toks =
  match toks with
  | "mk" :: rest ->
      let r, _ = parse_raw (ints rest) in
      (match build r with Ok c -> "ok " ^ show c | Err e -> err e)
  | "props" :: rest ->
      let r, _ = parse_raw (ints rest) in
      with_chunk r (fun c ->
        let sb = function Ok b -> if b then "1" else "0" | Err e -> Printf.sprintf "e%d" (int_of_z e) in
        let ss = function Ok s -> show_span_opt s | Err e -> Printf.sprintf "e%d" (int_of_z e) in
        Printf.sprintf "ok is=%s first=%s last=%s pc=%s" (sb (is_superrun c)) (ss (first_subrun c)) (ss (last_subrun c))
          (sb (promised_continuity c)))
  | "split" :: rest ->
      (match ints rest with
       | t :: early :: r ->
           let raw, _ = parse_raw r in
           with_chunk raw (fun c ->
             match asplit c (z_of_int t) (early <> 0) with
             | Ok (c1, c2) -> "ok " ^ show c1 ^ " " ^ show c2
             | Err e -> err e)
       | _ -> "BAD")
  | "concat" :: rest ->
      (match ints rest with
       | allow :: k :: r ->
           let raws, _ = parse_many parse_raw k r in
           with_chunks raws (fun cs ->
             match aconcatenate (List.map (fun c -> Some c) cs) (allow <> 0) with
             | Ok c -> "ok " ^ show c | Err e -> err e)
       | _ -> "BAD")
  | "merge" :: rest ->
      (match ints rest with
       | dt :: k :: r ->
           let raws, _ = parse_many parse_raw k r in
           with_chunks raws (fun cs ->
             match amerge (List.map (fun c -> Some c) cs) (z_of_int dt) with
             | Ok c -> "ok " ^ show c | Err e -> err e)
       | _ -> "BAD")
  | "continuity" :: rest ->
      (match ints rest with
       | k :: r ->
           let raws, _ = parse_many parse_raw k r in
           with_chunks raws (fun cs ->
             match acontinuity_check cs with
             | None -> "ok" | Some (i, e) -> Printf.sprintf "bad %d %d" (int_of_nat i) (int_of_z e))
       | _ -> "BAD")
  | "setsub" :: rest ->
      let raw, r = parse_raw (ints rest) in
      let a, _ = parse_annot r in
      with_chunk raw (fun c ->
        match set_subruns false a with
        | Ok s -> "ok " ^ show { c with asub = s } | Err e -> err e)
  | "setsuper" :: rest ->
      let raw, r = parse_raw (ints rest) in
      let a, _ = parse_annot r in
      with_chunk raw (fun c ->
        match set_superrun c.abase.crun c.abase.cstart c.abase.cend a with
        | Ok s -> "ok " ^ show { c with asuper = s } | Err e -> err e)
  | "spec" :: rest ->
      (* n then n * (run start): the list passed to define_run with the run starts *)
      (match ints rest with
       | n :: r ->
           let rec pairs k l = if k = 0 then [] else match l with a :: b :: t -> (a, b) :: pairs (k - 1) t | _ -> failwith "spec" in
           let ps = pairs n r in
           let start_of z = z_of_int (try List.assoc (int_of_z z) ps with Not_found -> 0) in
           let data = List.map (fun (a, _) -> z_of_int a) ps in
           Printf.sprintf "def %s | read %s | chain %s" (join (List.map int_of_z (define_run_order start_of data)))
             (join (List.map int_of_z (sub_run_spec start_of data)))
             (join (List.map int_of_z (chained_spec start_of data)))
       | _ -> "BAD")
  | "history" :: rest ->
      (* ops: 0 k r1..rk = define_run(data) | 1 w = get/make with write_superruns = w ; output: is_stored after each *)
      let rec parse l = match l with
        | [] -> []
        | 0 :: k :: r -> HDefine (List.map z_of_int (take k r)) :: parse (drop k r)
        | 1 :: w :: r -> HGet (w <> 0) :: parse r
        | _ -> failwith "history" in
      let ops = parse (ints rest) in
      join (List.map (fun b -> if b then 1 else 0) (h_trace { h_spec = []; h_made = [] } ops))
  | "canon" :: rest ->
      (match ints rest with
       | comb :: n :: r ->
           let l, c = canon_spec (List.map z_of_int (take n r)) (comb <> 0) in
           Printf.sprintf "%s | %d" (join (List.map int_of_z l)) (if c then 1 else 0)
       | _ -> "BAD")
  | "compute" :: rest ->
      (match ints rest with
       | prun :: dt :: kind :: tgt :: k :: r ->
           let raws, _ = parse_many parse_raw k r in
           with_chunks raws (fun cs ->
             match cs with
             | [] -> "BAD"
             | c0 :: others ->
                 (match do_compute (z_of_int prun) { l_dtype = z_of_int dt; l_kind = z_of_int kind; l_rechunk = false; l_target = z_of_int tgt } c0 others with
                  | Ok c -> "ok " ^ show c | Err e -> err e))
       | _ -> "BAD")
  | "pipeline" :: rest ->
      (* prun write nlow low* nlev lev* nsub (run nchunks stored* )*   -- from the generated source chunks *)
      (match ints rest with
       | prun :: write :: nlow :: r ->
           let low, r = parse_levels nlow r in
           (match r with
            | nlev :: r ->
                let levels, r = parse_levels nlev r in
                let srcs = parse_srcs r in
                let comb = (match combining_full low levels srcs with Ok cs -> "ok " ^ shows cs | Err e -> err e) in
                (match superrun_full (z_of_int prun) (write <> 0) low levels srcs with
                 | Err e -> Printf.sprintf "%s | - | %s | %s" (err e) (if write <> 0 then err e else "off") comb
                 | Ok (out, savs) ->
                     let saved = String.concat " ; " (List.map (fun l -> String.concat " " (List.map show_stored l)) savs) in
                     let reload =
                       if write <> 0 then
                         (match superrun_reload (List.nth savs (List.length savs - 1)) with
                          | Ok cs -> "ok " ^ shows cs | Err e -> err e)
                       else "off" in
                     Printf.sprintf "ok %s | %s | %s | %s" (shows out) saved reload comb)
            | _ -> "BAD")
       | _ -> "BAD")
  | "combining" :: rest ->
      let subruns, _ = parse_subruns (ints rest) in
      (match combining_get subruns with Ok cs -> "ok " ^ shows cs | Err e -> err e)
  | _ -> "UNKNOWN"
let () = main_loop handle
