open Model
open Zio
(* rows are encoded as: n then 4 ints each (t e id ch)
   chunks: start end dtype kind run(-999999 = None) target <rows> *)
let none_run = -999999
let parse_rows l =
  match l with
  | n :: r ->
      let rec go k l acc = if k = 0 then (List.rev acc, l) else
        match l with
        | t :: e :: i :: c :: rest -> go (k - 1) rest ({ rt = z_of_int t; re = z_of_int e; rid = z_of_int i; rch = z_of_int c } :: acc)
        | _ -> failwith "rows" in
      go n r []
  | _ -> failwith "rows0"
let parse_chunk l =
  match l with
  | s :: e :: dt :: kind :: run :: tgt :: r ->
      let rows, rest = parse_rows r in
      ({ cstart = z_of_int s; cend = z_of_int e; crows = rows; cdtype = z_of_int dt; ckind = z_of_int kind;
         crun = (if run = none_run then None else Some (z_of_int run)); ctarget = z_of_int tgt }, rest)
  | _ -> failwith "chunk"
let rec parse_chunks k l = if k = 0 then ([], l) else
  let c, r = parse_chunk l in let cs, r' = parse_chunks (k - 1) r in (c :: cs, r')
let show_chunk c =
  Printf.sprintf "[%d %d run=%d n=%d ids=%s]" (int_of_z c.cstart) (int_of_z c.cend)
    (match c.crun with None -> none_run | Some r -> int_of_z r) (List.length c.crows)
    (String.concat "," (List.map (fun r -> string_of_int (int_of_z r.rid)) c.crows))
let handle toks =
  match toks with
  | "split_array" :: rest ->
      (match ints rest with
       | t :: early :: r ->
           let rs, _ = parse_rows r in
           (match split_array rs (z_of_int t) (early <> 0) with
            | None -> "CannotSplit"
            | Some ((l, rr), t') -> Printf.sprintf "ok %d %d %d" (List.length l) (List.length rr) (int_of_z t'))
       | _ -> "BAD")
  | "mk_chunk" :: rest ->
      let c, _ = parse_chunk (ints rest) in
      (match mk_chunk c.cstart c.cend c.crows c.cdtype c.ckind c.crun c.ctarget with
       | Ok c -> "ok " ^ show_chunk c | Err e -> Printf.sprintf "err %d" (int_of_z e))
  | "chunk_split" :: rest ->
      (match ints rest with
       | t :: early :: r ->
           let c, _ = parse_chunk r in
           (match chunk_split c (z_of_int t) (early <> 0) with
            | Ok (c1, c2) -> "ok " ^ show_chunk c1 ^ " " ^ show_chunk c2
            | Err e -> Printf.sprintf "err %d" (int_of_z e))
       | _ -> "BAD")
  | "concat" :: rest ->
      (match ints rest with
       | allow :: k :: r ->
           let cs, _ = parse_chunks k r in
           (match concatenate (List.map (fun c -> Some c) cs) (allow <> 0) with
            | Ok c -> "ok " ^ show_chunk c | Err e -> Printf.sprintf "err %d" (int_of_z e))
       | _ -> "BAD")
  | "continuity" :: rest ->
      (match ints rest with
       | k :: r -> let cs, _ = parse_chunks k r in
           (match continuity_check cs with None -> "ok" | Some i -> Printf.sprintf "bad %d" (int_of_nat i))
       | _ -> "BAD")
  | "get_splits" :: rest ->
      (match ints rest with
       | assumed :: min_gap :: r ->
           let rs, _ = parse_rows r in
           (match get_splits rs (z_of_int assumed) (z_of_int min_gap) with
            | Ok l -> "ok " ^ join (List.map int_of_nat l) | Err e -> Printf.sprintf "err %d" (int_of_z e))
       | _ -> "BAD")
  | "rechunk" :: rest ->
      (match ints rest with
       | k :: r -> let cs, _ = parse_chunks k r in
           (match rechunk_stream cs with
            | Ok out -> "ok " ^ String.concat " " (List.map show_chunk out)
            | Err e -> Printf.sprintf "err %d" (int_of_z e))
       | _ -> "BAD")
  | "merge" :: rest ->
      (match ints rest with
       | newdt :: k :: r ->
           let rec cols n l acc = if n = 0 then (List.rev acc, l) else
             (match l with
              | fid :: m :: rest -> cols (n - 1) (drop m rest) ((z_of_int fid, List.map z_of_int (take m rest)) :: acc)
              | _ -> failwith "cols") in
           let rec chunks n l acc = if n = 0 then List.rev acc else
             (match l with
              | s :: e :: len :: kind :: run :: dt :: nf :: rest ->
                  let cs, rest' = cols nf rest [] in
                  chunks (n - 1) rest' ({ kstart = z_of_int s; kend = z_of_int e; klen = z_of_int len; kkind = z_of_int kind;
                                          krun = z_of_int run; kdtype = z_of_int dt; kdata = cs } :: acc)
              | _ -> failwith "kchunk") in
           (match merge (chunks k r []) (z_of_int newdt) with
            | Ok c -> Printf.sprintf "ok %d %d %s" (int_of_z c.kstart) (int_of_z c.kend)
                        (String.concat ";" (List.map (fun (f, col) -> string_of_int (int_of_z f) ^ ":" ^
                           String.concat "," (List.map (fun v -> string_of_int (int_of_z v)) col)) c.kdata))
            | Err e -> Printf.sprintf "err %d" (int_of_z e))
       | _ -> "BAD")
  | _ -> "UNKNOWN"
let () = main_loop handle
