open Model
open Zio
(* rows are encoded as 4 ints each: t e id ch *)
let rec rows_of = function
  | [] -> []
  | t :: e :: i :: c :: r -> { rt = z_of_int t; re = z_of_int e; rid = z_of_int i; rch = z_of_int c } :: rows_of r
  | _ -> failwith "rows"
let ids rs = List.map (fun r -> int_of_z r.rid) rs
let handle toks =
  match toks with
  | "split_array" :: rest ->
      (match ints rest with
       | t :: early :: n :: r ->
           let rs = rows_of (take (4 * n) r) in
           (match split_array rs (z_of_int t) (early <> 0) with
            | None -> "CannotSplit"
            | Some ((l, rr), t') -> Printf.sprintf "ok %d %d %d" (List.length l) (List.length rr) (int_of_z t'))
       | _ -> "BAD")
  | _ -> "UNKNOWN"
let () = main_loop handle
