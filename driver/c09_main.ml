open Model
open Zio
(* C09 driver.  Line protocol (all integers):
     iter <wtuple> <wl> <wr> <run> <tgt> <save_when> <nout> {<code> <kl> <kr> <dt> <kind>}*nout <nchunks> {chunk}*
     cache_beyond <p> <nchunks> {chunk}*
   chunk = start end dtype kind run(-999999 = None) target nrows {t e id ch}*
   Output: "ok item|item|..." with item = "None" or its chunks separated by blanks; "err <code>". *)
let none_run = -999999
let parse_rows l =
  match l with
  | n :: r ->
      let rec go k l acc = if k = 0 then (List.rev acc, l) else
        match l with
        | t :: e :: i :: c :: rest -> go (k - 1) rest ({ rt = z_of_int t; re = z_of_int e; rid = z_of_int i; rch = z_of_int c } :: acc)
        | _ -> failwith "rows" in
      go n r []
  | _ -> failwith "rows0"
let parse_chunk l =
  match l with
  | s :: e :: dt :: kind :: run :: tgt :: r ->
      let rows, rest = parse_rows r in
      ({ cstart = z_of_int s; cend = z_of_int e; crows = rows; cdtype = z_of_int dt; ckind = z_of_int kind;
         crun = (if run = none_run then None else Some (z_of_int run)); ctarget = z_of_int tgt }, rest)
  | _ -> failwith "chunk"
let rec parse_chunks k l = if k = 0 then ([], l) else
  let c, r = parse_chunk l in let cs, r' = parse_chunks (k - 1) r in (c :: cs, r')
let show_row r = Printf.sprintf "%d:%d:%d:%d" (int_of_z r.rt) (int_of_z r.re) (int_of_z r.rid) (int_of_z r.rch)
let show_chunk c =
  Printf.sprintf "[%d %d run=%d dt=%d n=%d rows=%s]" (int_of_z c.cstart) (int_of_z c.cend)
    (match c.crun with None -> none_run | Some r -> int_of_z r) (int_of_z c.cdtype) (List.length c.crows)
    (String.concat ";" (List.map show_row c.crows))
let rec parse_outs k l = if k = 0 then ([], l) else
  match l with
  | code :: kl :: kr :: dt :: kind :: rest ->
      let o = { oo_f = kernel_of_code (z_of_int code) (z_of_int kl) (z_of_int kr); oo_dt = z_of_int dt; oo_kind = z_of_int kind } in
      let os, r = parse_outs (k - 1) rest in (o :: os, r)
  | _ -> failwith "outs"
let show_item = function
  | None -> "None"
  | Some cs -> String.concat " " (List.map show_chunk cs)
let handle toks =
  match toks with
  | "iter" :: rest ->
      (match ints rest with
       | wtuple :: wl :: wr :: run :: tgt :: sw :: nout :: r ->
           let outs, r = parse_outs nout r in
           (match r with
            | k :: r ->
                let cs, _ = parse_chunks k r in
                let p = { ow_wtuple = (wtuple <> 0); ow_wl = z_of_int wl; ow_wr = z_of_int wr; ow_outs = outs;
                          ow_run = (if run = none_run then None else Some (z_of_int run)); ow_tgt = z_of_int tgt;
                          ow_save_when = z_of_int sw } in
                (match ow_iter p cs with
                 | Ok items -> "ok " ^ String.concat "|" (List.map show_item items)
                 | Err e -> Printf.sprintf "err %d" (int_of_z e))
            | _ -> "BAD")
       | _ -> "BAD")
  | "cache_beyond" :: rest ->
      (match ints rest with
       | p :: k :: r ->
           let cs, _ = parse_chunks k r in
           (match cache_beyond cs (z_of_int p) with
            | Ok (cached, p') -> Printf.sprintf "ok %d %s" (int_of_z p') (String.concat " " (List.map show_chunk cached))
            | Err e -> Printf.sprintf "err %d" (int_of_z e))
       | _ -> "BAD")
  | _ -> "UNKNOWN"
let () = main_loop handle
