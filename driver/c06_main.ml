open Model
open Zio
(* po target steps fuel fault_t fault_p(-1 = none) nnodes then per node: kind(0 src|1 stage) spy k items... *)
let handle toks =
  match toks with
  | "po" :: rest ->
      (match ints rest with
       | target :: steps :: fuel :: ft :: fp :: nn :: r ->
           let rec nodes n l acc spies = if n = 0 then (List.rev acc, List.rev spies) else
             (match l with
              | kind :: spy :: k :: rest ->
                  let items = take k rest in
                  let nd = if kind = 0 then Src (List.map z_of_int items) else Stage (List.map nat_of_int items) in
                  nodes (n - 1) (drop k rest) (nd :: acc) ((spy <> 0) :: spies)
              | _ -> failwith "node") in
           let g, spies = nodes nn r [] [] in
           let fault = if fp < 0 then None else Some (nat_of_int ft, nat_of_int fp) in
           let st, out = run_po g fault (nat_of_int target) spies (nat_of_int steps) (nat_of_int fuel) in
           let o = (match out with
             | Ok l -> "ok " ^ String.concat "," (List.map (fun z -> string_of_int (int_of_z z)) l)
             | Err e -> Printf.sprintf "err %d" (int_of_z e)) in
           let sp = String.concat ";" (List.mapi (fun i ts ->
               if ts.has_spy then Printf.sprintf "%d:%s:%d" i (String.concat "," (List.map (fun z -> string_of_int (int_of_z z)) ts.spy_log)) (int_of_nat ts.spy_closed)
               else "") st |> List.filter (fun s -> s <> "")) in
           let whole_t = whole g comb_std (nat_of_int (nn + 1)) (nat_of_int target) in
           o ^ " | " ^ sp ^ " | whole " ^ String.concat "," (List.map (fun z -> string_of_int (int_of_z z)) whole_t)
       | _ -> "BAD")
  | _ -> "UNKNOWN"
let () = main_loop handle
