open Model
open Zio
(* line protocols (all ints)

   po target steps fuel fault_t fault_p(-1 = none) nnodes then per node: kind(0 src|1 stage) spy k items...
        single-thread PostOffice model

   net|netx <network> ...      the threaded mailbox network (Model/MailboxFail.v)
     <network> = nmb {cap lazy nsubs drive*nsubs}*nmb
                 nth {thread}*nth
                 fault_tid(-1 = none) fault_pos fault_code
                 cfault_chunk(-1 = none) cfault_close cfault_code
                 fix1 fix2 fix3          (1 = the repaired code, see n_f1..n_f3 in Model/MailboxFail.v)
                 nkill mb*nkill   njoin tid*njoin   nsav tid*nsav   main_tid
     thread = 0 nsrc out nin {mb sub}*nin      stage (plugin / loader thread: Mailbox._send_from)
            | 1 mb sub rechunk                 saver  (Saver.save_from)
            | 2 mb sub                         discarder
            | 3 mb sub nouts {mb ff}*nouts     divide_outputs
            | 4 mb sub relay                   the caller (relay = through Context.get_iter)
     net  <network> nsched tid*nsched
          -> observation after each step separated by " | " (+ "DISABLED pos" if the thread scheduled at pos is
             not enabled in the model) " # " T|N (all threads finished?) <outcome code> <enabled tids...>
     netcover <network>   -> "<cover_b> <init_ok_b>" (premises of the shutdown theorem)
     netx <network> maxstates
          -> breadth-first enumeration of the reachable states:
             nstates nedges truncated nfinal ndeadlock ; {summary of a final/deadlock state x count : schedule reaching it}*
*)

let rec read_n n f l = if n <= 0 then ([], l) else
  let (x, r) = f l in let (xs, r') = read_n (n - 1) f r in (x :: xs, r')

let read_mb = function
  | cap :: lz :: ns :: r ->
      let drives = take ns r in
      (mk_mbox (nat_of_int cap) (lz <> 0) (List.map (fun d -> d <> 0) drives), drop ns r)
  | _ -> failwith "mailbox"

let pair_nat = function a :: b :: r -> ((nat_of_int a, nat_of_int b), r) | _ -> failwith "pair"

let read_thread = function
  | 0 :: nsrc :: out :: nin :: r ->
      let (ins, r') = read_n nin pair_nat r in
      (mk_thread (KStage (nat_of_int nsrc, nat_of_int out)) ins, r')
  | 1 :: mb :: sub :: rc :: r -> (mk_thread (KSaver (rc <> 0)) [(nat_of_int mb, nat_of_int sub)], r)
  | 2 :: mb :: sub :: r -> (mk_thread KDiscard [(nat_of_int mb, nat_of_int sub)], r)
  | 3 :: mb :: sub :: nouts :: r ->
      let (outs, r') = read_n nouts (function a :: b :: r -> ((nat_of_int a, b <> 0), r) | _ -> failwith "out") r in
      (mk_thread (KDivider outs) [(nat_of_int mb, nat_of_int sub)], r')
  | 4 :: mb :: sub :: relay :: r -> (mk_thread (KMain (relay <> 0)) [(nat_of_int mb, nat_of_int sub)], r)
  | _ -> failwith "thread"

let read_list = function n :: r -> (List.map nat_of_int (take n r), drop n r) | _ -> failwith "list"

let read_net_raw l =
  match l with
  | nmb :: r ->
      let (boxes, r) = read_n nmb read_mb r in
      (match r with
       | nth :: r ->
           let (threads, r) = read_n nth read_thread r in
           (match r with
            | ft :: fp :: fc :: ck :: cc :: ce :: f1 :: f2 :: f3 :: r ->
                let fault = if ft < 0 then None else Some ((nat_of_int ft, nat_of_int fp), nat_of_int fc) in
                let cfault = if ck < 0 then None else Some ((nat_of_int ck, cc <> 0), nat_of_int ce) in
                let (kill, r) = read_list r in
                let (join, r) = read_list r in
                let (sav, r) = read_list r in
                (match r with
                 | main :: r ->
                     let nt = { n_fault = fault; n_cfault = cfault; n_kill = kill; n_join = join; n_savers = sav;
                                n_f1 = (f1 <> 0); n_f2 = (f2 <> 0); n_f3 = (f3 <> 0) } in
                     (nt, boxes, threads, main, r)
                 | _ -> failwith "main")
            | _ -> failwith "faults")
       | _ -> failwith "nth")
  | _ -> failwith "nmb"

let read_net l =
  let (nt, boxes, threads, main, r) = read_net_raw l in
  (nt, ninit nt boxes threads, List.length threads, main, r)

let obs_str nt st = String.concat " " (List.map (fun z -> string_of_int (int_of_z z)) (nobs nt st))
let enabled_tids nt st n = List.filter (fun t -> nenabled nt st (nat_of_int t)) (List.init n (fun i -> i))

let run_net nt st0 n main sched =
  let rec go st pos sched acc =
    match sched with
    | [] -> (st, List.rev acc, None)
    | t :: rest ->
        (match nstep nt st (nat_of_int t) with
         | Some st' -> go st' (pos + 1) rest (obs_str nt st' :: acc)
         | None -> (st, List.rev acc, Some pos)) in
  let (st, obs, dis) = go st0 0 sched [] in
  let body = String.concat " | " (obs @ (match dis with Some p -> [Printf.sprintf "DISABLED %d" p] | None -> [])) in
  let oc = int_of_z (outcome_code (main_outcome st (nat_of_int main))) in
  body ^ " # " ^ (if all_terminal st then "T" else "N") ^ " " ^ string_of_int oc ^ " "
  ^ join (enabled_tids nt st n) ^ " @ " ^ obs_str nt st0

module SM = Map.Make (String)

let explore nt st0 n main maxstates =
  let key (st : nstate) = Marshal.to_string st [] in
  let ids = ref (SM.singleton (key st0) 0) in
  let tbl = Hashtbl.create 4096 in
  let parent = Hashtbl.create 4096 in
  Hashtbl.replace tbl 0 st0;
  let cnt = ref 1 and nedges = ref 0 and truncated = ref false in
  let q = Queue.create () in
  Queue.add 0 q;
  let finals = ref SM.empty in
  let nfinal = ref 0 and ndead = ref 0 in
  let rec path i acc = if i = 0 then acc else let (p, t) = Hashtbl.find parent i in path p (t :: acc) in
  while not (Queue.is_empty q) do
    let i = Queue.pop q in
    let st = Hashtbl.find tbl i in
    let en = enabled_tids nt st n in
    if en = [] then begin
      let term = all_terminal st in
      if term then incr nfinal else incr ndead;
      let oc = int_of_z (outcome_code (main_outcome st (nat_of_int main))) in
      let s = (if term then "T " else "DEADLOCK ") ^ string_of_int oc ^ " " ^ obs_str nt st in
      (match SM.find_opt s !finals with
       | Some (c, p) -> finals := SM.add s (c + 1, p) !finals
       | None -> finals := SM.add s (1, path i []) !finals)
    end;
    List.iter (fun t ->
      match nstep nt st (nat_of_int t) with
      | None -> ()
      | Some st' ->
          incr nedges;
          let k = key st' in
          (match SM.find_opt k !ids with
           | Some _ -> ()
           | None ->
               let j = !cnt in
               incr cnt; ids := SM.add k j !ids;
               Hashtbl.replace parent j (i, t);
               if !cnt <= maxstates then (Hashtbl.replace tbl j st'; Queue.add j q) else truncated := true)) en;
    Hashtbl.remove tbl i
  done;
  let head = Printf.sprintf "%d %d %d %d %d" !cnt !nedges (if !truncated then 1 else 0) !nfinal !ndead in
  let parts = SM.fold (fun s (c, p) acc -> (Printf.sprintf "%s x %d : %s" s c (join p)) :: acc) !finals [] in
  String.concat " ; " (head :: List.rev parts)

let handle toks =
  match toks with
  | "po" :: rest ->
      (match ints rest with
       | target :: steps :: fuel :: ft :: fp :: nn :: r ->
           let rec nodes n l acc spies = if n = 0 then (List.rev acc, List.rev spies) else
             (match l with
              | kind :: spy :: k :: rest ->
                  let items = take k rest in
                  let nd = if kind = 0 then Src (List.map z_of_int items) else Stage (List.map nat_of_int items) in
                  nodes (n - 1) (drop k rest) (nd :: acc) ((spy <> 0) :: spies)
              | _ -> failwith "node") in
           let g, spies = nodes nn r [] [] in
           let fault = if fp < 0 then None else Some (nat_of_int ft, nat_of_int fp) in
           let st, out = run_po g fault (nat_of_int target) spies (nat_of_int steps) (nat_of_int fuel) in
           let o = (match out with
             | Ok l -> "ok " ^ String.concat "," (List.map (fun z -> string_of_int (int_of_z z)) l)
             | Err e -> Printf.sprintf "err %d" (int_of_z e)) in
           let sp = String.concat ";" (List.mapi (fun i ts ->
               if ts.has_spy then Printf.sprintf "%d:%s:%d" i (String.concat "," (List.map (fun z -> string_of_int (int_of_z z)) ts.spy_log)) (int_of_nat ts.spy_closed)
               else "") st |> List.filter (fun s -> s <> "")) in
           let whole_t = whole g comb_std (nat_of_int (nn + 1)) (nat_of_int target) in
           o ^ " | " ^ sp ^ " | whole " ^ String.concat "," (List.map (fun z -> string_of_int (int_of_z z)) whole_t)
       | _ -> "BAD")
  | "net" :: rest ->
      let (nt, st0, n, main, r) = read_net (ints rest) in
      (match r with
       | ns :: sched -> run_net nt st0 n main (take ns sched)
       | _ -> "BAD")
  | "netcover" :: rest ->
      (* the decidable premises of C06_noticed_failure_shuts_down on this network: "1 1" = both hold *)
      let (nt, boxes, threads, main, _) = read_net_raw (ints rest) in
      let st = { mbs = boxes; ths = threads } in
      Printf.sprintf "%d %d" (if cover_b nt st (nat_of_int main) then 1 else 0) (if init_ok_b boxes threads then 1 else 0)
  | "netdag" :: rest ->
      (* netdag <network> N -> "<dag_ok_b> <fault_ok_b>" *)
      let (nt, boxes, threads, main, r) = read_net_raw (ints rest) in
      let st = { mbs = boxes; ths = threads } in
      (match r with
       | n :: _ -> Printf.sprintf "%d %d" (if dag_ok_b nt st (nat_of_int n) (nat_of_int main) then 1 else 0)
                     (if fault_ok_b nt st (nat_of_int n) then 1 else 0)
       | _ -> "BAD")
  | "netdigest" :: rest ->
      let (nt, st0, n, main, r) = read_net (ints rest) in
      Digest.to_hex (Digest.string (Marshal.to_string (nt, st0) [Marshal.No_sharing])) ^ " " ^ string_of_int main
  | "family" :: "chain" :: rest ->
      (* family chain fx N lazy relay L caps*L nsav*L ft fp fc ck cc ce *)
      (match ints rest with
       | fx :: n :: lz :: relay :: l :: r ->
           let caps = List.map nat_of_int (take l r) in
           let nsav = List.map nat_of_int (take l (drop l r)) in
           (match drop (2 * l) r with
            | ft :: fp :: fc :: ck :: cc :: ce :: _ ->
                let fault = if ft < 0 then None else Some ((nat_of_int ft, nat_of_int fp), nat_of_int fc) in
                let cfault = if ck < 0 then None else Some ((nat_of_int ck, cc <> 0), nat_of_int ce) in
                let sp = { ch_N = nat_of_int n; ch_caps = caps; ch_nsav = nsav; ch_lazy = (lz <> 0); ch_relay = (relay <> 0) } in
                let nt = chain_net sp (fx <> 0) fault cfault and st0 = chain_init sp (fx <> 0) fault cfault in
                Digest.to_hex (Digest.string (Marshal.to_string (nt, st0) [Marshal.No_sharing])) ^ " " ^ string_of_int (int_of_nat (chain_main sp))
            | _ -> "BAD")
       | _ -> "BAD")
  | "family" :: "fan" :: rest ->
      (* family fan fx N cap lazy side_first savx savy relay ft fp fc ck cc ce *)
      (match ints rest with
       | fx :: n :: cap :: lz :: sf :: sx :: sy :: relay :: ft :: fp :: fc :: ck :: cc :: ce :: _ ->
           let fault = if ft < 0 then None else Some ((nat_of_int ft, nat_of_int fp), nat_of_int fc) in
           let cfault = if ck < 0 then None else Some ((nat_of_int ck, cc <> 0), nat_of_int ce) in
           let sp = { fn_N = nat_of_int n; fn_cap = nat_of_int cap; fn_lazy = (lz <> 0); fn_side_first = (sf <> 0);
                      fn_savx = nat_of_int sx; fn_savy = nat_of_int sy; fn_relay = (relay <> 0) } in
           let nt = fan_net sp (fx <> 0) fault cfault and st0 = fan_init sp (fx <> 0) fault cfault in
           Digest.to_hex (Digest.string (Marshal.to_string (nt, st0) [Marshal.No_sharing])) ^ " " ^ string_of_int (int_of_nat (fan_main sp))
       | _ -> "BAD")
  | "netx" :: rest ->
      let (nt, st0, n, main, r) = read_net (ints rest) in
      (match r with
       | mx :: _ -> explore nt st0 n main mx
       | _ -> "BAD")
  | _ -> "UNKNOWN"
let () = main_loop handle
