open Model
open Zio
(* One case per line:
     eval <nnodes> <node>*
     node := id ndeps dep* code params* dtype kind run target save given [nchunks chunk*]
       code 0 source | 1 rowwise a b | 2 filter a b md rem | 3 exhaust a b nmul | 4 down a b k
            | 5 merge a1 a2 b nb bound* | 6 mergefilter a1 a2 b md rem nb bound* | 7 loop a b nb bound*
       save 0 not saved | 1 saved as is | 2 saved through the rechunker
       given 0/1; a given stream is nchunks chunks, each: start end dtype kind run target nrows (t e id v)*
   Result: per node "id=ok <chunks> [| saved ok <chunks>]" joined by " ; ", or "err <code>" when a stream fails. *)
let none_run = -999999
let parse_rows l =
  match l with
  | n :: r ->
      let rec go k l acc = if k = 0 then (List.rev acc, l) else
        match l with
        | t :: e :: i :: c :: rest -> go (k - 1) rest ({ rt = z_of_int t; re = z_of_int e; rid = z_of_int i; rch = z_of_int c } :: acc)
        | _ -> failwith "rows" in
      go n r []
  | _ -> failwith "rows0"
let parse_chunk l =
  match l with
  | s :: e :: dt :: kind :: run :: tgt :: r ->
      let rows, rest = parse_rows r in
      ({ cstart = z_of_int s; cend = z_of_int e; crows = rows; cdtype = z_of_int dt; ckind = z_of_int kind;
         crun = (if run = none_run then None else Some (z_of_int run)); ctarget = z_of_int tgt }, rest)
  | _ -> failwith "chunk"
let rec parse_chunks k l = if k = 0 then ([], l) else
  let c, r = parse_chunk l in let cs, r' = parse_chunks (k - 1) r in (c :: cs, r')
let show_chunk c =
  Printf.sprintf "[%d %d n=%d ids=%s]" (int_of_z c.cstart) (int_of_z c.cend) (List.length c.crows)
    (String.concat "," (List.map (fun r -> string_of_int (int_of_z r.rid)) c.crows))
let show_stream cs = String.concat " " (List.map show_chunk cs)
let zl l = List.map z_of_int l
let parse_comp l =
  match l with
  | 0 :: r -> (CSrc, r)
  | 1 :: a :: b :: r -> (CLocal (h_rowwise (z_of_int a) (z_of_int b)), r)
  | 2 :: a :: b :: md :: rem :: r -> (CLocal (h_filter (z_of_int a) (z_of_int b) (z_of_int md) (z_of_int rem)), r)
  | 3 :: a :: b :: nm :: r -> (CExhaust (f_exhaust (z_of_int a) (z_of_int b) (z_of_int nm)), r)
  | 4 :: a :: b :: k :: r -> (CDown (h_rowwise (z_of_int a) (z_of_int b), down_cut (nat_of_int k)), r)
  | 5 :: a1 :: a2 :: b :: nb :: r ->
      (CPair (true, h_merge2 (z_of_int a1) (z_of_int a2) (z_of_int b), zl (take nb r)), drop nb r)
  | 6 :: a1 :: a2 :: b :: md :: rem :: nb :: r ->
      (CPair (true, h_merge2_filter (z_of_int a1) (z_of_int a2) (z_of_int b) (z_of_int md) (z_of_int rem), zl (take nb r)), drop nb r)
  | 7 :: a :: b :: nb :: r -> (CPair (false, h_loop (z_of_int a) (z_of_int b), zl (take nb r)), drop nb r)
  | _ -> failwith "comp"
(* returns (node, save, given option, rest) *)
let parse_node l =
  match l with
  | id :: nd :: r ->
      let deps = take nd r in
      let r = drop nd r in
      let comp, r = parse_comp r in
      (match r with
       | dt :: kind :: run :: tgt :: save :: given :: r ->
           let meta = { o_dtype = z_of_int dt; o_kind = z_of_int kind;
                        o_run = (if run = none_run then None else Some (z_of_int run)); o_target = z_of_int tgt } in
           let node = { n_id = z_of_int id; n_deps = zl deps; n_comp = comp; n_meta = meta } in
           if given = 1 then
             (match r with
              | nc :: r -> let cs, r = parse_chunks nc r in (node, save, Some cs, r)
              | _ -> failwith "given")
           else (node, save, None, r)
       | _ -> failwith "node meta")
  | _ -> failwith "node"
let rec parse_nodes k l = if k = 0 then [] else
  let (n, s, g, r) = parse_node l in (n, s, g) :: parse_nodes (k - 1) r
let handle toks =
  match toks with
  | "eval" :: rest ->
      (match ints rest with
       | k :: r ->
           let nodes = parse_nodes k r in
           let given d = (let rec find = function
                            | [] -> None
                            | (n, _, g) :: tl -> if int_of_z n.n_id = int_of_z d then g else find tl in find nodes) in
           (match eval_graph (fun bs -> align_by_bounds bs) given [] (List.map (fun (n, _, _) -> n) nodes) with
            | Err e -> Printf.sprintf "err %d" (int_of_z e)
            | Ok env ->
                String.concat " ; " (List.map (fun (n, save, _) ->
                  match lookup n.n_id env with
                  | None -> Printf.sprintf "%d=missing" (int_of_z n.n_id)
                  | Some cs ->
                      let base = Printf.sprintf "%d=ok %s" (int_of_z n.n_id) (show_stream cs) in
                      if save = 0 then base else
                        (match saved_stream (save = 2) cs with
                         | Ok out -> base ^ " | saved ok " ^ show_stream out
                         | Err e -> base ^ Printf.sprintf " | saved err %d" (int_of_z e))) nodes))
       | _ -> "BAD")
  | _ -> "UNKNOWN"
let () = main_loop handle
