open Model
open Zio
(* line protocol (all ints):
     run|detail <cap or -1> <lazy> <S> <drive_0..drive_{S-1}> <nsrc> {<num or -1> <kind> <k> <v>}*nsrc
                <killer: -1 none | 0 | 1> <nfut> <nsched> <tid>*nsched
   kind 0 = Plain v (k ignored), 1 = Fut k v.   tid: 0 sender, 1..S readers, S+1 killer, S+2+k worker k.
     cover <same configuration> <killer> <nfut> <max number of states>
   output: observations after each step separated by " | "; "DISABLED <pos>" appended when the thread
   scheduled at position pos is not enabled in the model; final token "T"/"N" = all_terminal or not,
   followed by the list of enabled tids of the last state. *)
let rec items n l = if n <= 0 then ([], l) else
  match l with
  | num :: kind :: k :: v :: r ->
      let m = if kind = 0 then Plain (z_of_int v) else Fut (nat_of_int k, z_of_int v) in
      let (its, rest) = items (n - 1) r in
      (((if num < 0 then None else Some (nat_of_int num)), m) :: its, rest)
  | _ -> failwith "items"
let tid_of s t = if t = 0 then TS else if t <= s then TR (nat_of_int (t - 1))
  else if t = s + 1 then TK else TW (nat_of_int (t - s - 2))

(* "cover": breadth-first enumeration of the model's reachable state graph for one configuration and
   a set of schedules (paths from the initial state) that together traverse every transition.
   output: <nstates> <nedges> <truncated 0/1> <nterminal> <ndeadlock> ; sched ; sched ; ...  *)
module SM = Map.Make (String)
let key (st : state) = Marshal.to_string st []
let cover cfg st0 ntid s maxstates =
  let tids = List.init ntid (fun i -> i) in
  let ids = ref SM.empty in
  let states = ref [||] in
  let parent = Hashtbl.create 1024 in      (* id -> (parent id, tid) *)
  let succ = Hashtbl.create 1024 in        (* id -> (tid, id) list *)
  let n = ref 0 in
  let add st = states := Array.append !states [| st |]; incr n; !n - 1 in
  let buf = ref [] in
  let truncated = ref false in
  let q = Queue.create () in
  ids := SM.add (key st0) 0 !ids; buf := [st0]; n := 1;
  let tbl = Hashtbl.create 1024 in         (* id -> state *)
  Hashtbl.replace tbl 0 st0;
  Queue.add 0 q;
  let nedges = ref 0 and nterm = ref 0 and ndead = ref 0 in
  while not (Queue.is_empty q) do
    let i = Queue.pop q in
    let st = Hashtbl.find tbl i in
    let out = List.filter_map (fun t ->
      match step cfg st (tid_of s t) with
      | None -> None
      | Some st' ->
          let k = key st' in
          let j = (match SM.find_opt k !ids with
            | Some j -> j
            | None ->
                let j = !n in
                incr n; ids := SM.add k j !ids; Hashtbl.replace tbl j st';
                Hashtbl.replace parent j (i, t);
                if !n <= maxstates then Queue.add j q else truncated := true;
                j) in
          incr nedges; Some (t, j)) tids in
    if out = [] then (if all_terminal st then incr nterm else incr ndead);
    Hashtbl.replace succ i out
  done;
  ignore add; ignore buf; ignore states;
  (* path from the root to state i *)
  let rec path i acc = if i = 0 then acc else let (p, t) = Hashtbl.find parent i in path p (t :: acc) in
  let covered = Hashtbl.create 1024 in
  let scheds = ref [] in
  let rec extend i acc =
    (* follow uncovered transitions as long as there are any; otherwise the first transition, until
       the run ends, so that every emitted schedule is maximal *)
    match (try Hashtbl.find succ i with Not_found -> []) with
    | [] -> List.rev acc
    | out ->
        (match List.find_opt (fun (t, j) -> not (Hashtbl.mem covered (i, t))) out with
         | Some (t, j) -> Hashtbl.replace covered (i, t) (); extend j (t :: acc)
         | None -> let (t, j) = List.hd out in
                   if List.length acc > 400 then List.rev acc else extend_done j (t :: acc))
  and extend_done i acc =
    (* no new transition here: finish the run along first transitions (bounded) *)
    match (try Hashtbl.find succ i with Not_found -> []) with
    | [] -> List.rev acc
    | out ->
        (match List.find_opt (fun (t, j) -> not (Hashtbl.mem covered (i, t))) out with
         | Some (t, j) -> Hashtbl.replace covered (i, t) (); extend j (t :: acc)
         | None -> let (t, j) = List.hd out in
                   if List.length acc > 400 then List.rev acc else extend_done j (t :: acc))
  in
  for i = 0 to !n - 1 do
    List.iter (fun (t, j) ->
      if not (Hashtbl.mem covered (i, t)) then begin
        Hashtbl.replace covered (i, t) ();
        let pre = path i [] in
        scheds := extend j (t :: List.rev pre) :: !scheds
      end) (try Hashtbl.find succ i with Not_found -> [])
  done;
  Printf.sprintf "%d %d %d %d %d" !n !nedges (if !truncated then 1 else 0) !nterm !ndead
  ^ String.concat "" (List.map (fun sc -> " ; " ^ join sc) (List.rev !scheds))

let handle toks =
  match toks with
  | cmd :: rest ->
      (match ints rest with
       | cap :: lz :: s :: r ->
           let drives = List.map (fun x -> x <> 0) (take s r) in
           let r = drop s r in
           (match r with
            | nsrc :: r ->
                let (source, r) = items nsrc r in
                (match r with
                 | killer :: nfut :: nsched :: r ->
                     let cfg = { c_cap = (if cap < 0 then None else Some (nat_of_int cap)); c_lazy = (lz <> 0) } in
                     let k = if killer < 0 then None else Some (killer <> 0) in
                     let st0 = init cfg drives source k (nat_of_int nfut) in
                     let ntid = s + 2 + nfut in
                     if cmd = "cover" then cover cfg st0 ntid s nsched else begin
                     let sched = List.map (tid_of s) (take nsched r) in
                     let sts = trace cfg st0 sched in
                     let view = if cmd = "detail" then detail else obs in
                     let parts = List.map (fun st -> join (List.map int_of_z (view st))) sts in
                     let n = List.length sts in
                     let last = if n = 0 then st0 else List.nth sts (n - 1) in
                     let dis = if n < nsched then [Printf.sprintf "DISABLED %d" n] else [] in
                     let en = List.filter (fun t -> enabled last (tid_of s t)) (List.init ntid (fun i -> i)) in
                     String.concat " | " (parts @ dis) ^ " # " ^ (if all_terminal last then "T" else "N")
                     ^ " " ^ join en end
                 | _ -> "BAD")
            | _ -> "BAD")
       | _ -> "BAD")
  | _ -> "UNKNOWN"
let () = main_loop handle
