open Model
open Zio
(* line protocol (all ints):
     run|detail|cover <cap or -1> <lazy> <S> <drive_0..drive_{S-1}> <nsrc> {<num or -1> <kind> <k> <v>}*nsrc
                <killer: -1 none | 0 | 1> <nfut> <nsched | max states> <tid>*nsched
   kind 0 = Plain v (k ignored), 1 = Fut k v.   tid: 0 sender, 1..S readers, S+1 killer, S+2+k worker k.
     drun|dcover <cap or -1> <lazy> <nmb> {<flow_freely> <nsubs> <drive>*nsubs}*nmb <ndicts>
                <nsched | max states> <tid>*nsched
   divide_outputs over nmb mailboxes; component j of dict i is Plain (100*j+i); tid 0 = the divider,
   then the subscribers mailbox by mailbox.
   output of run/detail/drun: observations after each step separated by " | "; "DISABLED <pos>" appended
   when the thread scheduled at position pos is not enabled in the model; then " # T|N <enabled tids>"
   (T = all threads finished).
   output of cover/dcover: <nstates> <ntransitions> <truncated 0/1> <nterminal> <ndeadlock> followed by
   " ; <schedule>" for a set of maximal schedules that traverses every transition of the reachable graph. *)
let rec items n l = if n <= 0 then ([], l) else
  match l with
  | num :: kind :: k :: v :: r ->
      let m = if kind = 0 then Plain (z_of_int v) else Fut (nat_of_int k, z_of_int v) in
      let (its, rest) = items (n - 1) r in
      (((if num < 0 then None else Some (nat_of_int num)), m) :: its, rest)
  | _ -> failwith "items"
let tid_of s t = if t = 0 then TS else if t <= s then TR (nat_of_int (t - 1))
  else if t = s + 1 then TK else TW (nat_of_int (t - s - 2))

(* breadth-first enumeration of a reachable state graph and a set of schedules (paths from the initial
   state) that together traverse every transition.  stepf st t = the successor or None. *)
module SM = Map.Make (String)
let cover (type a) (stepf : a -> int -> a option) (terminal : a -> bool) (st0 : a) ntid maxstates =
  let key (st : a) = Marshal.to_string st [] in
  let tids = List.init ntid (fun i -> i) in
  let ids = ref SM.empty in
  let parent = Hashtbl.create 1024 in      (* id -> (parent id, tid) *)
  let succ = Hashtbl.create 1024 in        (* id -> (tid, id) list *)
  let n = ref 1 in
  let truncated = ref false in
  let q = Queue.create () in
  ids := SM.add (key st0) 0 !ids;
  let tbl : (int, a) Hashtbl.t = Hashtbl.create 1024 in
  Hashtbl.replace tbl 0 st0;
  Queue.add 0 q;
  let nedges = ref 0 and nterm = ref 0 and ndead = ref 0 in
  while not (Queue.is_empty q) do
    let i = Queue.pop q in
    let st = Hashtbl.find tbl i in
    let out = List.filter_map (fun t ->
      match stepf st t with
      | None -> None
      | Some st' ->
          let k = key st' in
          let j = (match SM.find_opt k !ids with
            | Some j -> j
            | None ->
                let j = !n in
                incr n; ids := SM.add k j !ids; Hashtbl.replace tbl j st';
                Hashtbl.replace parent j (i, t);
                if !n <= maxstates then Queue.add j q else truncated := true;
                j) in
          incr nedges; Some (t, j)) tids in
    if out = [] then (if terminal st then incr nterm else incr ndead);
    Hashtbl.replace succ i out
  done;
  let rec path i acc = if i = 0 then acc else let (p, t) = Hashtbl.find parent i in path p (t :: acc) in
  let covered = Hashtbl.create 1024 in
  let scheds = ref [] in
  (* follow uncovered transitions as long as there are any; otherwise the first transition, until the
     run ends, so that every emitted schedule is maximal *)
  let rec extend i acc =
    match (try Hashtbl.find succ i with Not_found -> []) with
    | [] -> List.rev acc
    | out ->
        (match List.find_opt (fun (t, _) -> not (Hashtbl.mem covered (i, t))) out with
         | Some (t, j) -> Hashtbl.replace covered (i, t) (); extend j (t :: acc)
         | None -> let (t, j) = List.hd out in
                   if List.length acc > 400 then List.rev acc else extend j (t :: acc))
  in
  for i = 0 to !n - 1 do
    List.iter (fun (t, j) ->
      if not (Hashtbl.mem covered (i, t)) then begin
        Hashtbl.replace covered (i, t) ();
        let pre = path i [] in
        scheds := extend j (t :: List.rev pre) :: !scheds
      end) (try Hashtbl.find succ i with Not_found -> [])
  done;
  Printf.sprintf "%d %d %d %d %d" !n !nedges (if !truncated then 1 else 0) !nterm !ndead
  ^ String.concat "" (List.map (fun sc -> " ; " ^ join sc) (List.rev !scheds))

let render view enabledf terminal sts st0 nsched ntid =
  let parts = List.map (fun st -> join (List.map int_of_z (view st))) sts in
  let n = List.length sts in
  let last = if n = 0 then st0 else List.nth sts (n - 1) in
  let dis = if n < nsched then [Printf.sprintf "DISABLED %d" n] else [] in
  let en = List.filter (fun t -> enabledf last t) (List.init ntid (fun i -> i)) in
  String.concat " | " (parts @ dis) ^ " # " ^ (if terminal last then "T" else "N") ^ " " ^ join en

let handle_mailbox cmd r =
  match r with
  | cap :: lz :: s :: r ->
      let drives = List.map (fun x -> x <> 0) (take s r) in
      let r = drop s r in
      (match r with
       | nsrc :: r ->
           let (source, r) = items nsrc r in
           (match r with
            | killer :: nfut :: nsched :: r ->
                let cfg = { c_cap = (if cap < 0 then None else Some (nat_of_int cap)); c_lazy = (lz <> 0) } in
                let k = if killer < 0 then None else Some (killer <> 0) in
                let st0 = init cfg drives source k (nat_of_int nfut) in
                let ntid = s + 2 + nfut in
                if cmd = "cover" then
                  cover (fun st t -> step cfg st (tid_of s t)) all_terminal st0 ntid nsched
                else begin
                  let sched = List.map (tid_of s) (take nsched r) in
                  let sts = trace cfg st0 sched in
                  render (if cmd = "detail" then detail else obs) (fun st t -> enabled st (tid_of s t))
                    all_terminal sts st0 nsched ntid
                end
            | _ -> "BAD")
       | _ -> "BAD")
  | _ -> "BAD"

let rec mailboxes n l = if n <= 0 then ([], l) else
  match l with
  | ff :: ns :: r ->
      let dr = List.map (fun x -> x <> 0) (take ns r) in
      let (rest, r') = mailboxes (n - 1) (drop ns r) in
      ((ff <> 0, dr) :: rest, r')
  | _ -> failwith "mailboxes"

let handle_divider cmd r =
  match r with
  | cap :: lz :: nmb :: r ->
      let (mbs, r) = mailboxes nmb r in
      (match r with
       | ndicts :: nsched :: r ->
           let dc = { dc_cap = (if cap < 0 then None else Some (nat_of_int cap)); dc_lazy = (lz <> 0);
                      dc_ff = List.map fst mbs } in
           let subs = List.map snd mbs in
           let comps = List.mapi (fun j _ -> List.init ndicts (fun i -> Plain (z_of_int (100 * j + i)))) mbs in
           let st0 = dinit dc subs comps (nat_of_int ndicts) in
           (* tid table: 0 divider, then readers mailbox by mailbox *)
           let table = Array.of_list (DT :: List.concat (List.mapi (fun j dr ->
             List.mapi (fun i _ -> DR (nat_of_int j, nat_of_int i)) dr) subs)) in
           let ntid = Array.length table in
           if cmd = "dcover" then
             cover (fun st t -> dstep dc st table.(t)) d_all_terminal st0 ntid nsched
           else begin
             let sched = List.map (fun t -> table.(t)) (take nsched r) in
             let sts = dtrace dc st0 sched in
             render dobs (fun st t -> denabled st table.(t)) d_all_terminal sts st0 nsched ntid
           end
       | _ -> "BAD")
  | _ -> "BAD"

let handle toks =
  match toks with
  | cmd :: rest ->
      let r = ints rest in
      if cmd = "drun" || cmd = "dcover" then handle_divider cmd r else handle_mailbox cmd r
  | _ -> "UNKNOWN"
let () = main_loop handle
