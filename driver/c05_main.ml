open Model
open Zio
(* line protocol (all ints):
     run|detail <cap or -1> <lazy> <S> <drive_0..drive_{S-1}> <nsrc> {<num or -1> <kind> <k> <v>}*nsrc
                <killer: -1 none | 0 | 1> <nfut> <nsched> <tid>*nsched
   kind 0 = Plain v (k ignored), 1 = Fut k v.   tid: 0 sender, 1..S readers, S+1 killer, S+2+k worker k.
   output: observations after each step separated by " | "; "DISABLED <pos>" appended when the thread
   scheduled at position pos is not enabled in the model; final token "T"/"N" = all_terminal or not,
   followed by the list of enabled tids of the last state. *)
let rec items n l = if n <= 0 then ([], l) else
  match l with
  | num :: kind :: k :: v :: r ->
      let m = if kind = 0 then Plain (z_of_int v) else Fut (nat_of_int k, z_of_int v) in
      let (its, rest) = items (n - 1) r in
      (((if num < 0 then None else Some (nat_of_int num)), m) :: its, rest)
  | _ -> failwith "items"
let tid_of s t = if t = 0 then TS else if t <= s then TR (nat_of_int (t - 1))
  else if t = s + 1 then TK else TW (nat_of_int (t - s - 2))
let handle toks =
  match toks with
  | cmd :: rest ->
      (match ints rest with
       | cap :: lz :: s :: r ->
           let drives = List.map (fun x -> x <> 0) (take s r) in
           let r = drop s r in
           (match r with
            | nsrc :: r ->
                let (source, r) = items nsrc r in
                (match r with
                 | killer :: nfut :: nsched :: r ->
                     let sched = List.map (tid_of s) (take nsched r) in
                     let cfg = { c_cap = (if cap < 0 then None else Some (nat_of_int cap)); c_lazy = (lz <> 0) } in
                     let k = if killer < 0 then None else Some (killer <> 0) in
                     let st0 = init cfg drives source k (nat_of_int nfut) in
                     let sts = trace cfg st0 sched in
                     let view = if cmd = "detail" then detail else obs in
                     let parts = List.map (fun st -> join (List.map int_of_z (view st))) sts in
                     let n = List.length sts in
                     let last = if n = 0 then st0 else List.nth sts (n - 1) in
                     let dis = if n < nsched then [Printf.sprintf "DISABLED %d" n] else [] in
                     let ntid = s + 2 + nfut in
                     let en = List.filter (fun t -> enabled last (tid_of s t)) (List.init ntid (fun i -> i)) in
                     String.concat " | " (parts @ dis) ^ " # " ^ (if all_terminal last then "T" else "N")
                     ^ " " ^ join en
                 | _ -> "BAD")
            | _ -> "BAD")
       | _ -> "BAD")
  | _ -> "UNKNOWN"
let () = main_loop handle
