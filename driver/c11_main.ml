open Model
open Zio
(* C11 line protocol (all integers):
   plan MODE graph kinds ctx req
     graph: np { nout (dt sw)* ndeps dep* temp }*
     kinds: nk k*
     ctx:   nfe { readonly ntake take* nexcl excl* nstored stored* }* nforbid f* forbid_all fuzzy incomplete
     req:   nt t* ns s* time_range selection columns
   MODE 0 = Context.get_components on the targets as given, 1 = through the get_iter target rewriting.
   should_save SW IN_TARGETS IN_SAVE *)
let cur = ref []
let next () = match !cur with [] -> failwith "short line" | x :: r -> cur := r; x
let nat () = nat_of_int (next ())
let bool () = next () <> 0
let rec times n f = if n <= 0 then [] else let x = f () in x :: times (n - 1) f
let natlist () = let n = next () in times n nat
let plugin () =
  let nout = next () in
  let outs = times nout (fun () -> let d = nat () in let s = z_of_int (next ()) in (d, s)) in
  let deps = natlist () in
  let temp = bool () in
  { p_out = outs; p_deps = deps; p_temp = temp }
let frontend () =
  let ro = bool () in
  let take = natlist () in
  let excl = natlist () in
  let st = natlist () in
  { fe_readonly = ro; fe_take_only = take; fe_exclude = excl; fe_stored = st }
let ints_of l = String.concat "," (List.map (fun n -> string_of_int (int_of_nat n)) l)
let origin = function OLoader d -> "L" ^ string_of_int (int_of_nat d) | OPlugin j -> "P" ^ string_of_int (int_of_nat j)
let wires w = String.concat "," (List.map (fun (t, o) -> string_of_int (int_of_nat t) ^ origin o) w)
let handle toks =
  match toks with
  | "should_save" :: rest ->
      (match ints rest with
       | [sw; it; is] ->
           (match target_should_be_saved (z_of_int sw) (it <> 0) (is <> 0) with
            | Ok b -> if b then "ok 1" else "ok 0"
            | Err e -> "err " ^ string_of_int (int_of_z e))
       | _ -> "BAD")
  | "plan" :: rest ->
      cur := ints rest;
      let mode = next () in
      let np = next () in
      let g = times np plugin in
      let kinds = natlist () in
      let nfe = next () in
      let fes = times nfe frontend in
      let forbid = natlist () in
      let forbid_all = bool () in
      let fuzzy = bool () in
      let incomplete = bool () in
      let targets = natlist () in
      let save = natlist () in
      let tr = bool () in
      let sel = bool () in
      let cols = bool () in
      let cx = { c_fes = fes; c_forbid = forbid; c_forbid_all = forbid_all; c_fuzzy = fuzzy; c_incomplete = incomplete } in
      let wf = if wf_graphb g then 1 else 0 in
      let rew = if mode = 1 then get_iter_rewrite g kinds targets else Ok (g, targets) in
      (match rew with
       | Err e -> Printf.sprintf "err %d wf=%d" (int_of_z e) wf
       | Ok (g', t') ->
           let rq = { r_targets = t'; r_save = save; r_time_range = tr; r_selection = sel; r_columns = cols } in
           (match get_components g' cx rq with
            | Err e -> Printf.sprintf "err %d wf=%d" (int_of_z e) wf
            | Ok c ->
                let sv = String.concat ";" (List.map (fun (d, fl) -> string_of_int (int_of_nat d) ^ "=" ^ ints_of fl) c.k_savers) in
                let wp = wiring_pinned g' c in
                let wfx = wiring_fixed g' c in
                let ws = (match wiring_single g' c with
                          | Ok w -> "WS:" ^ wires w ^ " MS:" ^ ints_of (multi_sender_topics w)
                          | Err e -> "WS:err" ^ string_of_int (int_of_z e) ^ " MS:") in
                Printf.sprintf "ok wf=%d T:%s P:%s L:%s S:%s F:%s R:%s C:%s WP:%s MP:%s WF:%s MF:%s %s"
                  wf (ints_of t') (ints_of c.k_plugins) (ints_of c.k_loaders) sv (ints_of c.k_final)
                  (ints_of (running_idx g' c)) (ints_of (consumed g' c))
                  (wires wp) (ints_of (multi_sender_topics wp)) (wires wfx) (ints_of (multi_sender_topics wfx)) ws))
  | _ -> "UNKNOWN"
let () = main_loop handle
