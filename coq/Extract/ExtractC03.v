From Coq Require Import Extraction ExtrOcamlBasic.
From SV Require Import Model.Rows Model.Chunk Model.Rechunker Model.SaverLoader Model.C03Run.
Extraction Language OCaml.
Extraction "model.ml" c03_run rechunk_stream.
