From Coq Require Import Extraction ExtrOcamlBasic.
From SV Require Import Model.PostOffice.
Extraction Language OCaml.
Extraction "model.ml" run_po whole comb_std.
