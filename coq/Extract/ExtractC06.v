From Coq Require Import Extraction ExtrOcamlBasic.
From SV Require Import Model.PostOffice Model.Mailbox Model.MailboxFail Model.C06Run Model.C06Nets Model.C06Dag.
Extraction Language OCaml.
Extraction "model.ml" run_po whole comb_std
  nstep nrun ntrace ninit nenabled all_terminal mk_mbox mk_thread main_outcome nobs outcome_code
  chain_net chain_init chain_main fan_net fan_init fan_main cover_b init_ok_b dag_ok_b fault_ok_b.
