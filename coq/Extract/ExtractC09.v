From Coq Require Import Extraction ExtrOcamlBasic.
From SV Require Import Model.Rows Model.SplitArray Model.Chunk Model.OverlapKernels Model.Overlap.
Extraction Language OCaml.
Extraction "model.ml" kernel_of_code ow_iter ow_do_compute cache_beyond ow_init.
