From Coq Require Import Extraction ExtrOcamlBasic.
From SV Require Import Model.Rows Model.Chunk Model.PluginKinds Model.C12Harness.
Extraction Language OCaml.
Extraction "model.ml" mk_chunk mk_xchunk mk_xchunk_d2 continuity_check run_cell cell_result_code
  cell_visible cell_rejected offending_type get_array_result visible time_fields_ok.
