From Coq Require Import Extraction ExtrOcamlBasic.
From SV Require Import Model.Mailbox Model.MailboxDivider Model.C05Run.
Extraction Language OCaml.
Extraction "model.ml" init step run trace obs run_obs run_detail enabled all_terminal
  dinit dstep dtrace dobs drun_obs denabled d_all_terminal.
