From Coq Require Import Extraction ExtrOcamlBasic.
From SV Require Import Model.Mailbox Model.C05Run.
Extraction Language OCaml.
Extraction "model.ml" init step run trace obs run_obs run_detail enabled all_terminal.
