From Coq Require Import Extraction ExtrOcamlBasic.
From SV Require Import Model.Rows Model.Chunk Model.Rechunker Model.CopyRechunk Model.C16Run.
Extraction Language OCaml.
Extraction "model.ml" c16_template c16_store_of c16_load c16_fs0 c16_rechunker c16_rechunker_same c16_copy c16_onload
  c16_perchunk lookup is_valid P_SRC P_DST P_TMP consecutive merge_tag merge_where rechunk_stream.
