From Coq Require Import Extraction ExtrOcamlBasic.
From SV Require Import Model.Canon Model.Lineage Model.C02Run.
Extraction Language OCaml.
Extraction "model.ml" c02_run_tokens c02_key c02_canon py_eqb json_rt matches.
