From Coq Require Import Extraction ExtrOcamlBasic.
From SV Require Import Model.Planner.
Extraction Language OCaml.
Extraction "model.ml" get_components get_iter_rewrite get_iter_plan target_should_be_saved
  wiring_pinned wiring_fixed wiring_single running_idx multi_sender_topics consumed wf_graphb
  loadable saver_frontends.
