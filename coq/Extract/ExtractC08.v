From Coq Require Import Extraction ExtrOcamlBasic.
From SV Require Import Model.PluginIter.
Extraction Language OCaml.
Extraction "model.ml" plugin_iter exhaust_iter.
