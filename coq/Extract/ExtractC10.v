From Coq Require Import Extraction ExtrOcamlBasic.
From SV Require Import Model.Rows Model.SplitArray Model.Chunk Model.Selection.
Extraction Language OCaml.
Extraction "model.ml" get_array1 get_array2 get_array_abs get_array2_abs select_full select_full2
  to_absolute load iter_merge peval_all row_fval pair_fval lost savers_of creates_saver is_partial
  apply_time_range pruned apply_selection_rows all_rows.
