From Coq Require Import Extraction ExtrOcamlBasic.
From SV Require Import Model.Hits Model.Reduction.
Extraction Language OCaml.
Extraction "model.ml" find_hits record_links cut_outside_hits cut_baseline zero_out_of_bounds integrate baseline.
