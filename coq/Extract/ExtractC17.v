From Coq Require Import Extraction ExtrOcamlBasic.
From SV Require Import Model.Rows Model.Intervals Spec.IntervalDefs.
Extraction Language OCaml.
Extraction "model.ml"
  fully_contained_in fc_in split_by_containment split_by_containment_core overlap_indices
  stable_argsort stable_sort touching_windows_core touching_windows split_touching_windows
  diff find_break_i from_break abs_time_to_prev_next_interval atp_go sort_by_time
  fc_spec_lit fc_spec_strict groups_spec tw_spec oi_spec diff_spec find_break_spec atp_spec
  prev_spec_nat is_stable_sort_of is_sorted_perm_of.
