From Coq Require Import Extraction ExtrOcamlBasic.
From SV Require Import Model.Rows Model.SplitArray Model.Chunk Model.Rechunker Model.Network.
Extraction Language OCaml.
Extraction "model.ml" eval_graph eval_whole saved_stream align_by_bounds lookup
  h_rowwise h_filter f_exhaust h_merge2 h_merge2_filter h_loop down_cut run_local run_exhaust run_down run_pair.
