From Coq Require Import Extraction ExtrOcamlBasic.
From SV Require Import Model.PeakHelpers.
Extraction Language OCaml.
Extraction "model.ml" sma.
