From Coq Require Import Extraction ExtrOcamlBasic.
From SV Require Import Model.PeakHelpers Model.Peaks Model.Merging Model.PeakProps Model.Splitting
  Model.SumWaveform Model.HDR Model.Widths Model.Groups.
Extraction Language OCaml.
Extraction "model.ml" sma find_peaks replace_merged merge_peaks index_of_fraction Qred
  split_peak split_peak_local_minimum sum_waveform highest_density_region compute_widths center_time
  find_peak_groups add_lone_hits.
