From Coq Require Import Extraction ExtrOcamlBasic.
From SV Require Import Model.PeakHelpers Model.Peaks.
Extraction Language OCaml.
Extraction "model.ml" sma find_peaks.
