From Coq Require Import Extraction ExtrOcamlBasic.
From SV Require Import Model.PeakHelpers Model.Peaks Model.Merging.
Extraction Language OCaml.
Extraction "model.ml" sma find_peaks replace_merged merge_peaks Qred.
