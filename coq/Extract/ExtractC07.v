From Coq Require Import Extraction ExtrOcamlBasic.
From SV Require Import Model.Rows Model.SplitArray.
Extraction Language OCaml.
Extraction "model.ml" split_array.
