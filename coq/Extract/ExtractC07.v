From Coq Require Import Extraction ExtrOcamlBasic.
From SV Require Import Model.Rows Model.SplitArray Model.Chunk Model.Rechunker Model.Merge.
Extraction Language OCaml.
Extraction "model.ml" split_array mk_chunk chunk_split concatenate continuity_check
  diff gap_indices get_splits receive rechunk_stream merge.
