From Coq Require Import Extraction ExtrOcamlBasic.
From SV Require Import Model.Mailbox Model.MailboxNet Model.C13Run.
Extraction Language OCaml.
Extraction "model.ml" wire net_of nstep nenabled nrun ntrace quiescent nobs ndetail nrun_obs enabled_list
  all_advances advances box_len gate_view thread_status B_chain B_fanout can_fetch lazy_mode flow_freely to_discard.
