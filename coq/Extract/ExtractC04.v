From Coq Require Import Extraction ExtrOcamlBasic.
From SV Require Import Model.FsProtocol Model.SaverRun.
Extraction Language OCaml.
Extraction "model.ml" run_evs accepts first_reject pst_init visible is_stored load crash_cut
  request pcfg_of expected_of no_faults single_fault fs_empty.
