From Coq Require Import Extraction ExtrOcamlBasic.
From SV Require Import Model.Rows Model.Chunk Model.Annot Model.Rechunker Model.Superrun.
Extraction Language OCaml.
Extraction "model.ml" mk_achunk is_superrun first_subrun last_subrun promised_continuity
  set_subruns set_superrun split_runs asplit aconcatenate amerge acontinuity_check
  merge_subruns merge_superrun
  define_run_order sub_run_spec chained_spec canon_spec h_trace
  load_chunk save_chunk do_compute plugin_iter save_stream
  superrun_get superrun_reload combining_get superrun_full combining_full subrun_make.
