From Coq Require Import Extraction ExtrOcamlBasic.
From SV Require Import Base.Prelude Model.MultiRun Model.CtxRace.
Extraction Language OCaml.
Extraction "model.ml" multi_run_tbl init_sys sys_step wf_items exp_got prog_weight.
