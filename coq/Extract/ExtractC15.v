From Coq Require Import Extraction ExtrOcamlBasic.
From SV Require Import Base.Prelude Model.MultiRun.
Extraction Language OCaml.
Extraction "model.ml" multi_run_tbl.
