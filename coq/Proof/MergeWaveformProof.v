(* _merge_peaks, waveform contents: the buffer a group of peaks is summed into (up-sampled by
   dt / common_dt, each value divided by the up-sampling factor) holds, for disjoint time-ordered
   peaks, exactly each peak's samples at the peak's position and zero elsewhere, and therefore
   integrates to the sum of the constituents' waveform integrals. *)
From Coq Require Import Qfield.
From SV Require Import Model.Merging Proof.SumWaveformProof Proof.HDRSortProof Proof.MergePeaksProof.

(* ---------- sums over index ranges ---------- *)
Lemma qsum_map_ext {X} (f g : X -> Q) l : (forall x, In x l -> (f x == g x)%Q) ->
  (qsum (map f l) == qsum (map g l))%Q.
Proof.
  induction l as [|x l IH]; intros H; [reflexivity|].
  change (f x + qsum (map f l) == g x + qsum (map g l))%Q.
  rewrite (H x (or_introl eq_refl)), IH; [reflexivity|]. intros y Hy. apply H. right; exact Hy.
Qed.

Lemma qsum_const {X} (c : Q) (l : list X) : (qsum (map (fun _ => c) l) == inject_Z (zlen l) * c)%Q.
Proof.
  induction l as [|x l IH].
  - cbn. ring.
  - change (c + qsum (map (fun _ => c) l) == inject_Z (zlen (x :: l)) * c)%Q. rewrite IH.
    unfold zlen. cbn [length]. rewrite Nat2Z.inj_succ, <- Z.add_1_l, inject_Z_plus. ring.
Qed.

Lemma qsum_range_split (f : Z -> Q) a n m :
  (qsum (map f (zseqn a (n + m))) == qsum (map f (zseqn a n)) + qsum (map f (zseqn (a + Z.of_nat n) m)))%Q.
Proof. rewrite zseqn_app, map_app, qsum_app. reflexivity. Qed.

(* integral of the first len samples of a waveform *)
Definition wf_integral (d : list Q) (len : Z) : Q := qsum (map (qget d) (zseqn 0 (Z.to_nat len))).

(* up-sampling keeps the integral: sum_{j in [i0, i0 + L*up)} d[(j - i0) / up] / up = sum_{k < L} d[k] *)
Lemma upsample_integral (d : list Q) i0 up : 0 < up -> forall L : nat,
  (qsum (map (fun j => qget d ((j - i0) / up) / inject_Z up) (zseqn i0 (L * Z.to_nat up)))
   == qsum (map (qget d) (zseqn 0 L)))%Q.
Proof.
  intros Hup. induction L as [|L IH]; [reflexivity|].
  replace (S L * Z.to_nat up)%nat with (L * Z.to_nat up + Z.to_nat up)%nat by lia.
  rewrite qsum_range_split, IH.
  replace (zseqn 0 (S L)) with (zseqn 0 (L + 1)) by (f_equal; lia).
  rewrite (qsum_range_split (qget d) 0 L 1). apply Qplus_comp; [reflexivity|].
  cbn [zseqn map]. change (qsum [qget d (0 + Z.of_nat L)]) with (qget d (0 + Z.of_nat L) + 0)%Q.
  rewrite (qsum_map_ext _ (fun _ => qget d (Z.of_nat L) / inject_Z up)%Q).
  - rewrite qsum_const. unfold zlen. rewrite zseqn_length, Z2Nat.id by lia. cbn [Z.add].
    assert (Hn : ~ (inject_Z up == 0)%Q).
    { intros E. assert (H : (0 < inject_Z up)%Q) by (change 0%Q with (inject_Z 0); rewrite <- Zlt_Qlt; lia).
      rewrite E in H. now apply Qlt_irrefl in H. }
    field. exact Hn.
  - intros j Hj. apply zseqn_In in Hj. replace ((j - i0) / up) with (Z.of_nat L); [reflexivity|].
    rewrite Nat2Z.inj_mul, Z2Nat.id in Hj by lia.
    apply Z.div_unique with (r := j - i0 - Z.of_nat L * up); [left|]; nia.
Qed.

(* ---------- the buffer ---------- *)
Section Buffer.
Variables (cdt t0 : Z).
Hypothesis Hc : 0 < cdt.

Definition p_up (p : mpeak) : Z := mdt p / cdt.
Definition p_i0 (p : mpeak) : Z := (mt p - t0) / cdt.
Definition p_end (p : mpeak) : Z := p_i0 p + mlen p * p_up p.

(* slices in order, not overlapping, from lo on *)
Fixpoint slices_from (lo : Z) (old : list mpeak) : Prop :=
  match old with
  | [] => True
  | p :: r => lo <= p_i0 p /\ 0 < p_up p /\ 0 <= mlen p /\ slices_from (p_end p) r
  end.

Fixpoint last_end (lo : Z) (old : list mpeak) : Z :=
  match old with [] => lo | p :: r => last_end (p_end p) r end.

Lemma last_end_ge : forall old lo, slices_from lo old -> lo <= last_end lo old.
Proof.
  induction old as [|p r IH]; intros lo H; cbn [last_end]; [lia|]. destruct H as (H1 & H2 & H3 & H4).
  specialize (IH _ H4). unfold p_end in *. nia.
Qed.

Lemma buf_at_before : forall old lo j acc, slices_from lo old -> j < lo -> buf_at old cdt t0 j acc = acc.
Proof.
  induction old as [|p r IH]; intros lo j acc H Hj; cbn [buf_at]; [reflexivity|].
  destruct H as (H1 & H2 & H3 & H4). cbv zeta. fold (p_up p) (p_i0 p).
  destruct ((p_i0 p <=? j) && (j <? p_i0 p + mlen p * p_up p)) eqn:E; [lia|].
  apply (IH (p_end p)); [exact H4|]. unfold p_end. nia.
Qed.

(* every sample of the buffer: inside the slice of the peak p it is p's sample (j - i0) / up
   divided by up; outside all slices it is the initial value *)
Lemma buf_at_inside : forall old lo j acc p, slices_from lo old -> In p old -> p_i0 p <= j < p_end p ->
  buf_at old cdt t0 j acc = (qget (mdata p) ((j - p_i0 p) / p_up p) / inject_Z (p_up p))%Q.
Proof.
  induction old as [|q r IH]; intros lo j acc p H Hin Hj; [destruct Hin|].
  destruct H as (H1 & H2 & H3 & H4). cbn [buf_at]. cbv zeta. fold (p_up q) (p_i0 q).
  destruct Hin as [->|Hin].
  - assert (E : ((p_i0 p <=? j) && (j <? p_i0 p + mlen p * p_up p)) = true) by (unfold p_end in Hj; lia).
    rewrite E. apply (buf_at_before r (p_end p)); [exact H4|lia].
  - assert (Hge : p_end q <= p_i0 p).
    { clear - H4 Hin. revert H4. generalize (p_end q). induction r as [|x r IHr]; intros lo H; [destruct Hin|].
      destruct H as (G1 & G2 & G3 & G4). destruct Hin as [->|Hin]; [exact G1|].
      specialize (IHr Hin _ G4). unfold p_end in *. nia. }
    assert (E : ((p_i0 q <=? j) && (j <? p_i0 q + mlen q * p_up q)) = false) by (unfold p_end in *; lia).
    rewrite E. apply (IH (p_end q)); assumption.
Qed.

Theorem buffer_integral : forall old lo, slices_from lo old ->
  (qsum (map (fun j => buf_at old cdt t0 j 0%Q) (zseqn lo (Z.to_nat (last_end lo old - lo))))
   == qsum (map (fun p => wf_integral (mdata p) (mlen p)) old))%Q.
Proof.
  induction old as [|p r IH]; intros lo H.
  - cbn [last_end]. replace (Z.to_nat (lo - lo)) with 0%nat by lia. reflexivity.
  - pose proof (last_end_ge _ _ H) as Hle. destruct H as (H1 & H2 & H3 & H4).
    pose proof (last_end_ge _ _ H4) as Hle'. cbn [last_end] in *.
    assert (He : p_i0 p <= p_end p) by (unfold p_end; nia).
    replace (Z.to_nat (last_end (p_end p) r - lo))
      with (Z.to_nat (p_i0 p - lo) + (Z.to_nat (p_end p - p_i0 p) + Z.to_nat (last_end (p_end p) r - p_end p)))%nat by lia.
    rewrite !qsum_range_split.
    replace (lo + Z.of_nat (Z.to_nat (p_i0 p - lo))) with (p_i0 p) by lia.
    replace (p_i0 p + Z.of_nat (Z.to_nat (p_end p - p_i0 p))) with (p_end p) by lia.
    change (qsum (map (fun q => wf_integral (mdata q) (mlen q)) (p :: r)))
      with (wf_integral (mdata p) (mlen p) + qsum (map (fun q => wf_integral (mdata q) (mlen q)) r))%Q.
    (* before the slice: zero *)
    rewrite (qsum_map_ext _ (fun _ => 0%Q) (zseqn lo _)).
    2:{ intros j Hj. apply zseqn_In in Hj. rewrite (buf_at_before (p :: r) (p_i0 p) j 0%Q); [reflexivity| |lia].
        cbn [slices_from]. repeat split; try assumption; lia. }
    rewrite qsum_const, Qmult_0_r, Qplus_0_l.
    (* the slice of p *)
    rewrite (qsum_map_ext _ (fun j => qget (mdata p) ((j - p_i0 p) / p_up p) / inject_Z (p_up p))%Q (zseqn (p_i0 p) _)).
    2:{ intros j Hj. apply zseqn_In in Hj.
        rewrite (buf_at_inside (p :: r) (p_i0 p) j 0%Q p); [reflexivity| |left; reflexivity|lia].
        cbn [slices_from]. repeat split; try assumption; lia. }
    replace (Z.to_nat (p_end p - p_i0 p)) with (Z.to_nat (mlen p) * Z.to_nat (p_up p))%nat by (unfold p_end; nia).
    rewrite (upsample_integral (mdata p) (p_i0 p) (p_up p) H2). fold (wf_integral (mdata p) (mlen p)).
    apply Qplus_comp; [reflexivity|].
    (* after it: the remaining peaks *)
    rewrite <- (IH _ H4). apply qsum_map_ext. intros j Hj. apply zseqn_In in Hj.
    cbn [buf_at]. cbv zeta. fold (p_up p) (p_i0 p).
    assert (E : ((p_i0 p <=? j) && (j <? p_i0 p + mlen p * p_up p)) = false) by (unfold p_end in *; lia).
    rewrite E. reflexivity.
Qed.
End Buffer.

(* ---------- disjoint time-ordered peaks give ordered slices ---------- *)
Fixpoint time_chain (T : Z) (old : list mpeak) : Prop :=
  match old with [] => True | p :: r => T <= mt p /\ time_chain (mend p) r end.
Fixpoint chain_end (T : Z) (old : list mpeak) : Z :=
  match old with [] => T | p :: r => chain_end (mend p) r end.

Lemma slices_of_chain cdt t0 : 0 < cdt -> forall old T, t0 <= T -> time_chain T old ->
  Forall (fun p => (cdt | mdt p) /\ 0 < mdt p /\ 0 <= mlen p) old ->
  slices_from cdt t0 ((T - t0) / cdt) old /\
  last_end cdt t0 ((T - t0) / cdt) old = (chain_end T old - t0) / cdt.
Proof.
  intros Hc. induction old as [|p r IH]; intros T HT Hch Hall; cbn [slices_from last_end chain_end]; [auto|].
  destruct Hch as [H1 H2]. inversion Hall as [|? ? (Hd & Hdt & Hl) Hall']; subst.
  destruct Hd as [k Hk].
  assert (Hup : p_up cdt p = k) by (unfold p_up; rewrite Hk; apply Z.div_mul; lia).
  assert (Hkp : 0 < k) by nia.
  assert (Hend : p_end cdt t0 p = (mend p - t0) / cdt).
  { unfold p_end, p_i0, mend. rewrite Hup, Hk.
    replace (mt p + mlen p * (k * cdt) - t0) with (mt p - t0 + mlen p * k * cdt) by ring.
    rewrite Z.div_add by lia. reflexivity. }
  rewrite Hend. destruct (IH (mend p)) as [I1 I2]; [unfold mend; nia|exact H2|exact Hall'|].
  split; [|exact I2]. repeat split; [|lia|exact Hl|exact I1].
  unfold p_i0. apply Z.div_le_mono; lia.
Qed.

Lemma disjointb_chain : forall old p, disjointb (p :: old) = true -> time_chain (mend p) old.
Proof.
  induction old as [|q r IH]; intros p H; cbn [time_chain]; [exact I|].
  cbn [disjointb] in H. apply andb_prop in H as [H1 H2]. split; [lia|apply IH, H2].
Qed.

Lemma chain_end_last : forall old T d, old <> [] -> chain_end T old = mend (last old d).
Proof.
  induction old as [|p r IH]; intros T d Hne; [contradiction|]. cbn [chain_end].
  destruct r as [|q r']; [reflexivity|]. rewrite (IH (mend p) d) by discriminate. reflexivity.
Qed.

(* the merged peak's waveform: the summed buffer integrates to the sum of the constituents'
   integrals; the stored waveform too unless the down-sampling truncates *)
Theorem merge_group_waveform ns nch old p E :
  merge_group ns nch old = Ok (p, E) -> 0 < ns ->
  Forall (fun q => 0 < mdt q /\ 0 <= mlen q) old -> disjointb old = true ->
  exists first, hd_error old = Some first /\
  let cdt := gcdl (mdt first) (map mdt old) in
  let len0 := (mend (last old first) - mt first) / cdt in
  let buf := map (fun j => buf_at old cdt (mt first) j 0%Q) (zseqn 0 (Z.to_nat len0)) in
  let f := ds_factor len0 ns in
  (qsum buf == qsum (map (fun q => wf_integral (mdata q) (mlen q)) old))%Q /\
  mdata p = snd (store_downsampled len0 cdt ns buf) /\
  ((f <= 1 \/ (f | len0)) ->
   (qsum (mdata p) == qsum (map (fun q => wf_integral (mdata q) (mlen q)) old))%Q).
Proof.
  destruct old as [|first rest]; [discriminate|]. intros Hrun Hns Hall Hdis.
  exists first. split; [reflexivity|]. cbv zeta. unfold merge_group in Hrun.
  set (old := first :: rest) in *. set (cdt := gcdl (mdt first) (map mdt old)) in *.
  set (t0 := mt first) in *. set (len0 := (mend (last old first) - t0) / cdt) in *.
  set (buf := map (fun j => buf_at old cdt t0 j 0%Q) (zseqn 0 (Z.to_nat len0))) in *.
  assert (Hd0 : 0 < mdt first) by (inversion Hall as [|? ? [? ?] ?]; assumption).
  assert (Hc : 0 < cdt) by (apply gcdl_pos; exact Hd0).
  assert (Hall' : Forall (fun q => (cdt | mdt q) /\ 0 < mdt q /\ 0 <= mlen q) old).
  { rewrite Forall_forall in *. intros q Hq. destruct (Hall q Hq) as [G1 G2]. split; [|split; assumption].
    apply (gcdl_divides (map mdt old) (mdt first)). apply in_map, Hq. }
  assert (Hch : time_chain t0 old).
  { unfold old. cbn [time_chain]. split; [unfold t0; lia|]. apply disjointb_chain, Hdis. }
  destruct (slices_of_chain cdt t0 Hc old t0 ltac:(lia) Hch Hall') as [Hsl Hle].
  replace ((t0 - t0) / cdt) with 0 in Hsl, Hle by (rewrite Z.sub_diag; reflexivity).
  rewrite (chain_end_last old t0 first) in Hle by discriminate. fold len0 in Hle.
  pose proof (buffer_integral cdt t0 old 0 Hsl) as Hint. rewrite Hle, Z.sub_0_r in Hint. fold buf in Hint.
  assert (Hl0 : 0 <= len0).
  { pose proof (last_end_ge cdt t0 old 0 Hsl). lia. }
  split; [exact Hint|].
  pose proof (store_downsampled_integral len0 cdt ns buf Hl0 Hns) as Hsd. cbv zeta in Hsd.
  destruct (store_downsampled len0 cdt ns buf) as [[len dt] data] eqn:Esd. injection Hrun as <- <-.
  cbn [mdata snd] in *. split; [reflexivity|]. intros Hf.
  destruct Hsd as [_ Hsd]; [unfold buf; rewrite map_length, zseqn_length; reflexivity|].
  rewrite (Hsd Hf). exact Hint.
Qed.

(* non-vacuity: the example of Proof/MergePeaksProof.v - three disjoint peaks, dt 1, 2, 1 *)
Example merge_waveform_example :
  disjointb ex_mp = true /\
  Forall (fun q => 0 < mdt q /\ 0 <= mlen q) ex_mp /\
  (qsum (map (fun q => wf_integral (mdata q) (mlen q)) ex_mp) == 31)%Q.
Proof.
  split; [reflexivity|]. split; [|vm_compute; reflexivity].
  unfold ex_mp. repeat (apply Forall_cons; [cbn; lia|]). apply Forall_nil.
Qed.
