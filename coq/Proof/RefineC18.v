(* The C18 theorem about record_links restated over the program regenerated from the Python source. *)
From Coq Require Import String.
From SV Require Import Lang.MiniPy Gen.RecordLinks.
From SV Require Import Model.Hits Spec.HitsSpec Proof.LinksProof Proof.RefineRecordLinks.

(* ---- record_links ---- *)

Theorem record_links_prog_spec fuel rs :
  Forall rec_wf rs ->
  exists prev next,
    run fuel record_links_prog [VRecs (map rec_val rs)] = OReturn (VTuple [VInts prev; VInts next]) /\
    zlen prev = zlen rs /\ zlen next = zlen rs /\
    (forall i, 0 <= i < zlen rs -> -1 <= nthZ prev i /\
        forall j, 0 <= j -> (nthZ prev i = j <-> linked (spr_of rs) rs j i)) /\
    (forall j, 0 <= j < zlen rs -> -1 <= nthZ next j /\
        forall i, 0 <= i -> (nthZ next j = i <-> linked (spr_of rs) rs j i)).
Proof.
  intros Hwf. destruct (record_links_spec rs Hwf) as (prev & next & Hrl & Hrest).
  exists prev, next. split; [|exact Hrest].
  rewrite record_links_refines.
  - rewrite Hrl. reflexivity.
  - destruct rs as [|r rs']; [left; reflexivity|right].
    inversion Hwf as [|? ? Hr _]; subst. apply Exists_cons_hd. unfold rec_wf in Hr. lia.
Qed.

Theorem record_links_prog_negative_channel fuel rs :
  Exists (fun r => -1 <= r_ch r) rs -> record_links rs = Err 4 ->
  run fuel record_links_prog [VRecs (map rec_val rs)] = ORaise "ValueError".
Proof. intros He Hr. rewrite record_links_refines by (right; exact He). rewrite Hr. reflexivity. Qed.
