(* _replace_merged: under well-formed skip windows the loop (with its trailing insertion and its
   assertions) returns orig with every window replaced by its merged element. *)
From SV Require Import Model.Merging Spec.MergingSpec.

Section Proofs.
Context {T : Type}.
Variable orig : list T.
Notation n := (zlen orig).

(* what the loop emits from index i on with pending windows p; second component: what is still
   pending when the loop ends (a window ending exactly at n is inserted after the loop) *)
Fixpoint rm_emit (i : Z) (p : list (T * Z * Z)) : list T * list (T * Z * Z) :=
  match p with
  | [] => (tslice orig i n, [])
  | (m, s, e) :: r =>
      if e <? n then (tslice orig i s ++ m :: fst (rm_emit e r), snd (rm_emit e r))
      else (tslice orig i s, p)
  end.

Definition Inv (i : Z) (p : list (T * Z * Z)) : Prop :=
  match p with
  | [] => True
  | (_, s, e) :: r => i <= e /\ s <= e /\ e <= n /\ wchain n e r /\ next_end_gt e r
  end.

Lemma skipn_S_tl (k : nat) (l : list T) o os : skipn k l = o :: os -> skipn (S k) l = os.
Proof.
  revert l; induction k as [|k IH]; intros l H.
  - cbn in H. subst l. reflexivity.
  - destruct l as [|x l]; [discriminate|]. cbn [skipn] in H. apply IH in H. exact H.
Qed.

Lemma tslice_cons i b o os : 0 <= i -> i < b ->
  skipn (Z.to_nat i) orig = o :: os -> tslice orig i b = o :: tslice orig (i + 1) b.
Proof.
  intros Hi Hb Hs. unfold tslice. rewrite Hs.
  replace (Z.to_nat (b - i)) with (S (Z.to_nat (b - (i + 1)))) by lia.
  cbn [firstn]. f_equal. f_equal.
  replace (Z.to_nat (i + 1)) with (S (Z.to_nat i)) by lia.
  symmetry. apply (skipn_S_tl _ _ o). exact Hs.
Qed.

Lemma tslice_empty (l : list T) i b : b <= i -> tslice l i b = [].
Proof. intros H. unfold tslice. replace (Z.to_nat (b - i)) with 0%nat by lia. reflexivity. Qed.

Lemma rm_emit_emit i m s e r o os : 0 <= i -> i < s ->
  skipn (Z.to_nat i) orig = o :: os ->
  rm_emit i ((m, s, e) :: r) = (o :: fst (rm_emit (i + 1) ((m, s, e) :: r)), snd (rm_emit (i + 1) ((m, s, e) :: r))).
Proof.
  intros Hi Hs Hsk. cbn [rm_emit]. rewrite (tslice_cons i s o os Hi Hs Hsk).
  destruct (e <? n); reflexivity.
Qed.

Lemma rm_emit_skip i m s e r : s <= i ->
  rm_emit i ((m, s, e) :: r) = rm_emit (i + 1) ((m, s, e) :: r).
Proof.
  intros Hs. cbn [rm_emit]. rewrite !tslice_empty by lia. reflexivity.
Qed.

Lemma skipn_nonempty_lt i o os : 0 <= i -> skipn (Z.to_nat i) orig = o :: os -> i < n.
Proof.
  intros Hi H. unfold zlen. destruct (Z_lt_dec i (Z.of_nat (length orig))); [auto|].
  rewrite skipn_all2 in H by lia. discriminate.
Qed.

Lemma skipn_empty_ge i : 0 <= i -> skipn (Z.to_nat i) orig = [] -> n <= i.
Proof.
  intros Hi H. unfold zlen. destruct (Z_le_dec (Z.of_nat (length orig)) i); [auto|].
  assert (Hl : length (skipn (Z.to_nat i) orig) = (length orig - Z.to_nat i)%nat) by apply skipn_length.
  rewrite H in Hl. cbn in Hl. lia.
Qed.

Lemma rm_loop_emit : forall os i p acc,
  0 <= i -> skipn (Z.to_nat i) orig = os -> Inv i p ->
  rm_loop os i n p acc = (rev (fst (rm_emit i p)) ++ acc, snd (rm_emit i p)).
Proof.
  induction os as [|o os IH]; intros i p acc Hi Hsk HI.
  - cbn [rm_loop]. pose proof (skipn_empty_ge i Hi Hsk) as Hn.
    destruct p as [|[[m s] e] r].
    + cbn [rm_emit fst snd]. rewrite tslice_empty by lia. reflexivity.
    + cbn [Inv] in HI. destruct HI as (H1 & H2 & H3 & _).
      cbn [rm_emit]. replace (e <? n) with false by lia. cbn [fst snd].
      rewrite tslice_empty by lia. reflexivity.
  - pose proof (skipn_nonempty_lt i o os Hi Hsk) as Hlt.
    assert (Hsk' : skipn (Z.to_nat (i + 1)) orig = os).
    { replace (Z.to_nat (i + 1)) with (S (Z.to_nat i)) by lia. apply (skipn_S_tl _ _ o). exact Hsk. }
    cbn [rm_loop].
    destruct p as [|[[m s] e] r].
    + (* no window left *)
      cbn [cur_se]. replace (i =? n + 100) with false by lia. cbv iota beta.
      cbn [cur_ss]. replace (i >=? n + 100) with false by lia.
      rewrite (IH (i + 1) [] (o :: acc)) by (auto; lia).
      cbn [rm_emit fst snd]. rewrite (tslice_cons i n o os Hi Hlt Hsk).
      cbn [rev]. rewrite <- app_assoc. reflexivity.
    + cbn [Inv] in HI. destruct HI as (H1 & H2 & H3 & Hch & Hne).
      cbn [cur_se].
      destruct (i =? e) eqn:Ee.
      * (* the head window ends here: insert its merged element, move to the next window *)
        assert (i = e) by lia. subst i.
        assert (Hemit : rm_emit e ((m, s, e) :: r) = (m :: fst (rm_emit e r), snd (rm_emit e r))).
        { cbn [rm_emit]. replace (e <? n) with true by lia. rewrite tslice_empty by lia. reflexivity. }
        rewrite Hemit. cbn [fst snd]. cbv iota beta.
        destruct r as [|[[m' s'] e'] r'].
        -- cbn [cur_ss]. replace (e >=? n + 100) with false by lia.
           rewrite (IH (e + 1) [] (o :: m :: acc)) by (auto; lia).
           cbn [rm_emit fst snd]. rewrite (tslice_cons e n o os Hi Hlt Hsk).
           cbn [rev]. rewrite <- !app_assoc. reflexivity.
        -- cbn [wchain] in Hch. destruct Hch as (G1 & G2 & G3 & G4 & G5). cbn [next_end_gt] in Hne.
           assert (HI' : Inv (e + 1) ((m', s', e') :: r')) by (cbn [Inv]; repeat split; auto; lia).
           cbn [cur_ss]. destruct (e >=? s') eqn:Es.
           ++ rewrite (IH (e + 1) _ (m :: acc)) by (auto; lia).
              rewrite (rm_emit_skip e m' s' e' r') by lia.
              cbn [rev]. rewrite <- app_assoc. reflexivity.
           ++ rewrite (IH (e + 1) _ (o :: m :: acc)) by (auto; lia).
              rewrite (rm_emit_emit e m' s' e' r' o os) by (auto; lia).
              cbn [fst snd rev]. rewrite <- !app_assoc. reflexivity.
      * assert (HI' : Inv (i + 1) ((m, s, e) :: r)) by (cbn [Inv]; repeat split; auto; lia).
        cbv iota beta. cbn [cur_ss]. destruct (i >=? s) eqn:Es.
        -- rewrite (IH (i + 1) _ acc) by (auto; lia).
           rewrite (rm_emit_skip i m s e r) by lia. reflexivity.
        -- rewrite (IH (i + 1) _ (o :: acc)) by (auto; lia).
           rewrite (rm_emit_emit i m s e r o os) by (auto; lia).
           cbn [fst snd rev]. rewrite <- app_assoc. reflexivity.
Qed.

(* relation between what the loop emitted / left pending and the specification *)
Lemma rm_emit_spec : forall p i, Inv i p ->
  (snd (rm_emit i p) = [] /\ fst (rm_emit i p) = rm_spec orig i p) \/
  (exists m s, snd (rm_emit i p) = [(m, s, n)] /\ fst (rm_emit i p) ++ [m] = rm_spec orig i p).
Proof.
  induction p as [|[[m s] e] r IH]; intros i HI.
  - left. split; reflexivity.
  - cbn [Inv] in HI. destruct HI as (H1 & H2 & H3 & Hch & Hne).
    cbn [rm_emit rm_spec]. destruct (e <? n) eqn:Ee; cbn [fst snd].
    + assert (HIr : Inv e r).
      { destruct r as [|[[m' s'] e'] r']; [exact I|]. cbn [wchain] in Hch. cbn [next_end_gt] in Hne.
        cbn [Inv]. destruct Hch as (G1 & G2 & G3 & G4 & G5). repeat split; auto; lia. }
      destruct (IH e HIr) as [[Hq Hl]|(m0 & s0 & Hq & Hl)].
      * left. split; [exact Hq|]. rewrite Hl. reflexivity.
      * right. exists m0, s0. split; [exact Hq|]. rewrite <- Hl, <- app_assoc. reflexivity.
    + assert (e = n) by lia. subst e.
      destruct r as [|[[m' s'] e'] r'].
      * right. exists m, s. split; [reflexivity|]. cbn [rm_spec]. rewrite (tslice_empty orig n n) by lia. reflexivity.
      * exfalso. cbn [wchain] in Hch. cbn [next_end_gt] in Hne. lia.
Qed.

Lemma tslice_len i b : 0 <= i -> i <= b -> b <= n -> zlen (tslice orig i b) = b - i.
Proof.
  intros H1 H2 H3. unfold tslice, zlen in *. rewrite firstn_length, skipn_length. lia.
Qed.

Lemma rm_spec_len : forall mw i, 0 <= i -> i <= n -> wchain n i mw ->
  zlen (rm_spec orig i mw) = (n - i) - skip_total mw + zlen mw.
Proof.
  induction mw as [|[[m s] e] r IH]; intros i Hi Hin Hw.
  - cbn [rm_spec]. rewrite tslice_len by lia. unfold skip_total, zlen. cbn [map zsum length]. lia.
  - cbn [wchain] in Hw. destruct Hw as (H1 & H2 & H3 & Hch & _).
    cbn [rm_spec]. unfold zlen at 1. rewrite app_length. cbn [length].
    pose proof (tslice_len i s Hi H1 ltac:(lia)) as Hl. unfold zlen in Hl at 1.
    specialize (IH e ltac:(lia) ltac:(lia) Hch). unfold zlen in IH at 1.
    unfold skip_total in *. cbn [map zsum]. unfold zlen at 2. cbn [length]. unfold zlen in IH at 2. lia.
Qed.

(* the code after the loop: trailing insertion and the assertions *)
Definition rm_finish (len_result : Z) (acc : list T) (p : list (T * Z * Z)) : res (list T) :=
  let '(acc2, p2, ok) :=
    if cur_se n p =? n
    then match p with
         | (m, _, _) :: p' => (m :: acc, p', (zlen acc =? len_result - 1) && (zlen p' =? 0))
         | [] => (acc, p, true)
         end
    else (acc, p, true) in
  if ok && (zlen acc2 =? len_result) && (zlen p2 =? 0) then Ok (rev acc2) else Err 2.

Lemma rm_finish_none len_result acc :
  zlen acc = len_result -> rm_finish len_result acc [] = Ok (rev acc).
Proof.
  intros H. unfold rm_finish. cbn [cur_se]. replace (n + 100 =? n) with false by lia.
  cbv iota beta. rewrite H, Z.eqb_refl. reflexivity.
Qed.

Lemma rm_finish_one len_result acc m s :
  zlen acc = len_result - 1 -> rm_finish len_result acc [(m, s, n)] = Ok (rev (m :: acc)).
Proof.
  intros H. unfold rm_finish. cbn [cur_se]. rewrite Z.eqb_refl. cbv iota beta.
  rewrite H, Z.eqb_refl.
  assert (H2 : zlen (m :: acc) = len_result) by (unfold zlen in *; cbn [length]; lia).
  rewrite H2, !Z.eqb_refl. reflexivity.
Qed.

Lemma replace_merged_unfold x mw :
  replace_merged orig (x :: mw) =
  rm_finish (n - skip_total (x :: mw) + zlen (x :: mw))
            (fst (rm_loop orig 0 n (x :: mw) [])) (snd (rm_loop orig 0 n (x :: mw) [])).
Proof.
  unfold replace_merged, rm_finish. destruct (rm_loop orig 0 n (x :: mw) []) as [acc p]. reflexivity.
Qed.

Theorem replace_merged_spec mw :
  wchain n 0 mw -> replace_merged orig mw = Ok (rm_spec orig 0 mw).
Proof.
  intros Hw. destruct mw as [|x mw'] eqn:Emw.
  { unfold replace_merged. cbn [rm_spec]. unfold tslice. cbn [Z.to_nat skipn]. rewrite Z.sub_0_r. unfold zlen.
    rewrite Nat2Z.id, firstn_all. reflexivity. }
  rewrite replace_merged_unfold. rewrite <- Emw in *. clear Emw x mw'.
  assert (HI : Inv 0 mw).
  { destruct mw as [|[[m s] e] r]; [exact I|]. cbn [wchain] in Hw. cbn [Inv].
    destruct Hw as (H1 & H2 & H3 & H4 & H5). repeat split; auto; lia. }
  rewrite (rm_loop_emit orig 0 mw [] ltac:(lia) eq_refl HI). rewrite app_nil_r. cbn [fst snd].
  pose proof (rm_spec_len mw 0 ltac:(lia) ltac:(unfold zlen; lia) Hw) as Hlen.
  destruct (rm_emit_spec mw 0 HI) as [[Hq Hl]|(m0 & s0 & Hq & Hl)].
  - rewrite Hq, rm_finish_none.
    + rewrite rev_involutive, Hl. reflexivity.
    + unfold zlen at 1. rewrite rev_length. fold (zlen (fst (rm_emit 0 mw))). rewrite Hl. lia.
  - rewrite Hq, rm_finish_one.
    + cbn [rev]. rewrite rev_involutive, Hl. reflexivity.
    + unfold zlen at 1. rewrite rev_length. fold (zlen (fst (rm_emit 0 mw))).
      assert (zlen (fst (rm_emit 0 mw)) + 1 = zlen (rm_spec orig 0 mw)).
      { rewrite <- Hl. unfold zlen. rewrite app_length. cbn [length]. lia. }
      lia.
Qed.

End Proofs.

(* non-vacuity: three windows, the last ending at n (inserted after the loop) *)
Example rm_example :
  replace_merged [10; 11; 12; 13; 14; 15] [(100, 1, 3); (101, 3, 4); (102, 5, 6)] = Ok [10; 100; 101; 14; 102]
  /\ wchain 6 0 [(100, 1, 3); (101, 3, 4); (102, 5, 6)].
Proof. split; [vm_compute; reflexivity|cbn; lia]. Qed.
(* equal window ends break the loop: the assertion fires (outside the hypothesis of the theorem) *)
Example rm_equal_ends : replace_merged [10; 11] [(100, 1, 1); (101, 1, 1)] = Err 2.
Proof. vm_compute. reflexivity. Qed.
