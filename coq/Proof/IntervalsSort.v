(* Generic facts about the stable insertion sort of the model (sort_by / ins_by), prefix lengths
   and indexed lists. *)
From SV Require Import Model.Rows Model.Intervals.
From Coq Require Import Permutation.

(* ---------- prefix_len: length of the longest prefix satisfying p ---------- *)
Fixpoint prefix_len {A} (p : A -> bool) (l : list A) : nat :=
  match l with
  | [] => 0
  | x :: r => if p x then S (prefix_len p r) else 0
  end.

Lemma prefix_len_app_all {A} (p : A -> bool) pre l :
  Forall (fun x => p x = true) pre -> prefix_len p (pre ++ l) = (length pre + prefix_len p l)%nat.
Proof.
  induction pre as [|x pre IH]; intros H; cbn [app prefix_len length]; [reflexivity|].
  inversion H; subst. rewrite H2, IH by auto. reflexivity.
Qed.

Lemma prefix_len_firstn {A} (p : A -> bool) l :
  Forall (fun x => p x = true) (firstn (prefix_len p l) l).
Proof.
  induction l as [|x l IH]; cbn [prefix_len]; [constructor|].
  destruct (p x) eqn:E; cbn [firstn]; [constructor; auto|constructor].
Qed.

Lemma prefix_len_none {A} (p : A -> bool) l :
  Forall (fun x => p x = false) l -> prefix_len p l = 0%nat.
Proof. destruct l as [|x l]; intros H; cbn [prefix_len]; [reflexivity|]. inversion H; subst. rewrite H2. reflexivity. Qed.

Lemma prefix_len_le {A} (p : A -> bool) l : (prefix_len p l <= length l)%nat.
Proof. induction l as [|x l IH]; cbn [prefix_len length]; [lia|]. destruct (p x); lia. Qed.

(* ---------- key-sortedness ---------- *)
Fixpoint key_sorted {A} (key : A -> Z) (l : list A) : Prop :=
  match l with
  | [] => True
  | x :: r => Forall (fun y => key x <= key y) r /\ key_sorted key r
  end.

Lemma ins_by_perm {A} (key : A -> Z) x l : Permutation (x :: l) (ins_by key x l).
Proof.
  induction l as [|y l IH]; cbn [ins_by]; [apply Permutation_refl|].
  destruct (key x <=? key y); [apply Permutation_refl|].
  eapply Permutation_trans; [apply perm_swap|]. apply perm_skip, IH.
Qed.

Lemma sort_by_perm {A} (key : A -> Z) l : Permutation l (sort_by key l).
Proof.
  induction l as [|x l IH]; cbn [sort_by fold_right]; [apply Permutation_refl|].
  eapply Permutation_trans; [apply perm_skip, IH|]. apply ins_by_perm.
Qed.

Lemma ins_by_sorted {A} (key : A -> Z) x l : key_sorted key l -> key_sorted key (ins_by key x l).
Proof.
  induction l as [|y l IH]; intros H; cbn [ins_by key_sorted].
  - split; [constructor|exact I].
  - destruct H as [H1 H2]. destruct (key x <=? key y) eqn:E.
    + cbn [key_sorted]. split; [|split; auto]. constructor; [lia|].
      eapply Forall_impl; [|exact H1]. cbn; intros; lia.
    + cbn [key_sorted]. split; [|apply IH; auto].
      eapply Permutation_Forall; [apply ins_by_perm|]. constructor; [lia|auto].
Qed.

Lemma sort_by_sorted {A} (key : A -> Z) l : key_sorted key (sort_by key l).
Proof.
  induction l as [|x l IH]; cbn [sort_by fold_right]; [exact I|]. apply ins_by_sorted, IH.
Qed.

(* stability: the relative order of elements with the same key is unchanged *)
Lemma ins_by_filter {A} (key : A -> Z) (k : Z) x l :
  key_sorted key l ->
  filter (fun y => key y =? k) (ins_by key x l) = filter (fun y => key y =? k) (x :: l).
Proof.
  induction l as [|y l IH]; intros H; cbn [ins_by]; [reflexivity|].
  destruct (key x <=? key y) eqn:E; [reflexivity|].
  destruct H as [H1 H2]. cbn [filter] in IH |- *. rewrite IH by auto.
  destruct (key x =? k) eqn:Ex; destruct (key y =? k) eqn:Ey; try reflexivity. lia.
Qed.

Lemma sort_by_stable {A} (key : A -> Z) (k : Z) l :
  filter (fun y => key y =? k) (sort_by key l) = filter (fun y => key y =? k) l.
Proof.
  induction l as [|x l IH]; cbn [sort_by fold_right]; [reflexivity|].
  fold (sort_by key l). rewrite ins_by_filter by apply sort_by_sorted.
  cbn [filter]. rewrite IH. reflexivity.
Qed.

(* ---------- indexed lists ---------- *)
Lemma in_combine_seq {A} (l : list A) s k x :
  nth_error l k = Some x -> In ((s + k)%nat, x) (combine (seq s (length l)) l).
Proof.
  revert s k; induction l as [|y l IH]; intros s k H; [destruct k; discriminate|].
  cbn [length seq combine]. destruct k as [|k]; cbn [nth_error] in H.
  - inversion H; subst. left. f_equal. lia.
  - right. replace (s + S k)%nat with (S s + k)%nat by lia. apply IH, H.
Qed.

Lemma map_fst_combine_seq {A} (l : list A) s : map fst (combine (seq s (length l)) l) = seq s (length l).
Proof.
  revert s; induction l as [|y l IH]; intros s; cbn [length seq combine map]; [reflexivity|].
  rewrite IH. reflexivity.
Qed.

Lemma index_list_nodup {A} (l : list A) : NoDup (map fst (index_list l)).
Proof. unfold index_list. rewrite map_fst_combine_seq. apply seq_NoDup. Qed.

Lemma find_nodup (l : list (nat * nat)) i v :
  NoDup (map fst l) -> In (i, v) l -> lookup_nat i l = v.
Proof.
  unfold lookup_nat. induction l as [|[j u] l IH]; intros Hnd Hin; [destruct Hin|].
  cbn [find fst]. cbn [map fst] in Hnd. inversion Hnd as [|? ? Hni Hnd']; subst.
  destruct (Nat.eqb j i) eqn:E.
  - apply Nat.eqb_eq in E. subst j. destruct Hin as [Heq|Hin]; [inversion Heq; reflexivity|].
    exfalso. apply Hni. change i with (fst (i, v)). apply in_map, Hin.
  - apply Nat.eqb_neq in E. destruct Hin as [Heq|Hin]; [inversion Heq; congruence|]. apply IH; auto.
Qed.
