(* Mailboxes with SEVERAL subscribers (savers next to the downstream plugin / the caller) carrying the message stream
   MS N = chunk 0 .. chunk N-1, Stop: the box is exactly the part of the stream that the slowest subscriber has not
   read yet.  Mailbox-level lemmas for the three lock regions that change a box (send, _read with its clean-up loop,
   entering the wait); they generalise Mok / has_lt / take_ok / read_mb_ok / push of Proof/MailboxFailChain.v from one
   subscriber to a list and are the first step of the chain theorems WITH savers (design_notes/C06.md B.2). *)
From SV Require Import Base.Prelude Model.Mailbox Proof.MailboxFacts Model.MailboxFail Proof.MailboxFailFacts
  Proof.MailboxFailWake Proof.MailboxFailStruct Proof.MailboxFailInv.
Local Open Scope nat_scope.

Section Multi.
Variable N : nat.

Record MokM (m : mbox) : Prop := {
  mm_ne : mb_subs m <> [];
  mm_box : mb_box m = seg (MS N) (min_read (mb_subs m)) (mb_nsent m - min_read (mb_subs m));
  mm_le : forall s sb, nth_error (mb_subs m) s = Some sb -> sb_nread sb <= mb_nsent m;
  mm_bound : mb_nsent m <= S N;
}.

Lemma mm_min_le m : MokM m -> min_read (mb_subs m) <= mb_nsent m.
Proof.
  intros HM. destruct (min_read_in (mb_subs m) (mm_ne _ HM)) as (i & sb & Hi & E).
  rewrite <- E. apply (mm_le _ HM i sb Hi).
Qed.

(* _has_msg for the next message of subscriber s *)
Lemma has_msg_multi m s sb : MokM m -> nth_error (mb_subs m) s = Some sb ->
  has_msg (mb_box m) (sb_nread sb) = (sb_nread sb <? mb_nsent m).
Proof.
  intros HM Hs. pose proof (mm_min_le m HM) as Hmin. pose proof (min_read_le _ _ _ Hs) as Hle.
  pose proof (mm_bound _ HM) as Hb.
  rewrite (mm_box _ HM). rewrite has_msg_seg by (rewrite MS_length; lia).
  replace (min_read (mb_subs m) <=? sb_nread sb) with true by (symmetry; apply Nat.leb_le; lia).
  cbn [andb]. f_equal. lia.
Qed.

(* the `while self._has_msg(next_number)` loop of subscriber s: everything up to nsent *)
Lemma take_multi m s sb : MokM m -> nth_error (mb_subs m) s = Some sb -> sb_nread sb < mb_nsent m ->
  take_from (length (mb_box m)) (mb_box m) (sb_nread sb) =
  (msgs N (sb_nread sb) (mb_nsent m - sb_nread sb), mb_nsent m, mb_nsent m =? S N).
Proof.
  intros HM Hs Hlt. pose proof (mm_min_le m HM) as Hmin. pose proof (min_read_le _ _ _ Hs) as Hle.
  pose proof (mm_bound _ HM) as Hb.
  rewrite (mm_box _ HM).
  set (a := min_read (mb_subs m)) in *. set (len := mb_nsent m - a). set (n := sb_nread sb) in *.
  assert (Hal : a + len = mb_nsent m) by (unfold len; lia).
  rewrite seg_length by (rewrite MS_length; lia).
  rewrite take_from_seg; try rewrite MS_length; try lia.
  rewrite Hal. fold (msgs N n (mb_nsent m - n)). rewrite stop_in_msgs by lia.
  replace (0 <? mb_nsent m - n) with true by (symmetry; apply Nat.ltb_lt; lia).
  replace (n + (mb_nsent m - n)) with (mb_nsent m) by lia. reflexivity.
Qed.

(* send(): message number nsent of the stream goes into the box *)
Lemma push_multi m mg : MokM m -> nth_error (MS N) (mb_nsent m) = Some mg ->
  MokM (push_box m (insert (mb_nsent m) mg (mb_box m))).
Proof.
  intros HM Hnth. pose proof (mm_min_le m HM) as Hmin.
  assert (Hlt : mb_nsent m < length (MS N)) by (apply nth_error_Some; congruence). rewrite MS_length in Hlt.
  split; cbn [mb_subs mb_box mb_nsent push_box].
  - apply (mm_ne _ HM).
  - rewrite (mm_box _ HM).
    replace (S (mb_nsent m) - min_read (mb_subs m)) with (S (mb_nsent m - min_read (mb_subs m))) by lia.
    rewrite <- (insert_seg (MS N) (min_read (mb_subs m)) (mb_nsent m - min_read (mb_subs m)) mg).
    + f_equal. lia.
    + replace (min_read (mb_subs m) + (mb_nsent m - min_read (mb_subs m))) with (mb_nsent m) by lia. exact Hnth.
  - intros s sb Hs. pose proof (mm_le _ HM s sb Hs). lia.
  - lia.
Qed.

(* entering / leaving the wait: only _subscriber_waiting_for[s] changes *)
Lemma wait_multi m s w : MokM m -> s < length (mb_subs m) ->
  MokM (set_sub m s (sub_set_wait (get_sub m s) w)).
Proof.
  intros HM Hs.
  assert (Hget : nth_error (mb_subs m) s = Some (get_sub m s)).
  { unfold get_sub. destruct (nth_error (mb_subs m) s) as [x|] eqn:E.
    - rewrite (nth_error_nth_dflt _ _ dflt_sub _ E). reflexivity.
    - apply nth_error_None in E. lia. }
  assert (Hmin : min_read (upd s (sub_set_wait (get_sub m s) w) (mb_subs m)) = min_read (mb_subs m)).
  { apply min_read_upd_same. intros x Hx. rewrite Hget in Hx. inversion Hx; subst. reflexivity. }
  split; unfold set_sub; cbn [mb_subs mb_box mb_nsent set_subs].
  - intros E. apply (mm_ne _ HM). destruct (mb_subs m); [reflexivity|]. destruct s; discriminate.
  - rewrite Hmin. apply (mm_box _ HM).
  - intros k sb Hk. apply nth_error_upd in Hk. destruct Hk as [[-> [-> _]] | [_ Hk]].
    + cbn. apply (mm_le _ HM _ _ Hget).
    + apply (mm_le _ HM _ _ Hk).
  - apply (mm_bound _ HM).
Qed.

(* the successful _read of subscriber s: it has read up to nsent, then the clean-up loop pops what everybody has read *)
Definition after_read_s (m : mbox) (s : nat) : mbox :=
  let m1 := set_sub m s (sub_set_wait (get_sub m s) None) in
  let m2 := set_sub m1 s (sub_set_nread (get_sub m1 s) (mb_nsent m)) in
  set_box m2 (gc (min_read (mb_subs m2)) (mb_box m2)).

Lemma read_multi m s : MokM m -> s < length (mb_subs m) -> MokM (after_read_s m s).
Proof.
  intros HM Hs. pose proof (wait_multi m s None HM Hs) as HM1.
  set (m1 := set_sub m s (sub_set_wait (get_sub m s) None)) in *.
  assert (Hl1 : length (mb_subs m1) = length (mb_subs m)) by (unfold m1, set_sub; cbn; apply upd_length).
  assert (Hs1 : s < length (mb_subs m1)) by lia.
  assert (Hget : nth_error (mb_subs m1) s = Some (get_sub m1 s)).
  { unfold get_sub. destruct (nth_error (mb_subs m1) s) as [x|] eqn:E.
    - rewrite (nth_error_nth_dflt _ _ dflt_sub _ E). reflexivity.
    - apply nth_error_None in E. lia. }
  assert (Hn1 : mb_nsent m1 = mb_nsent m) by reflexivity.
  pose proof (mm_le _ HM1 _ _ Hget) as Hle_s. rewrite Hn1 in Hle_s.
  set (x := sub_set_nread (get_sub m1 s) (mb_nsent m)).
  set (subs2 := upd s x (mb_subs m1)).
  assert (Hmono : min_read (mb_subs m1) <= min_read subs2).
  { apply min_read_upd_mono. intros y Hy. rewrite Hget in Hy. inversion Hy; subst. cbn. exact Hle_s. }
  assert (Hne2 : subs2 <> []).
  { unfold subs2. intros E. apply (mm_ne _ HM1). destruct (mb_subs m1); [reflexivity|]. destruct s; discriminate. }
  assert (Hle2 : forall k sb, nth_error subs2 k = Some sb -> sb_nread sb <= mb_nsent m).
  { intros k sb Hk. unfold subs2 in Hk. apply nth_error_upd in Hk. destruct Hk as [[-> [-> _]] | [_ Hk]].
    - cbn. lia.
    - pose proof (mm_le _ HM1 _ _ Hk). rewrite Hn1 in H. exact H. }
  assert (Hmin2 : min_read subs2 <= mb_nsent m).
  { destruct (min_read_in subs2 Hne2) as (i & sb & Hi & E). rewrite <- E. apply (Hle2 i sb Hi). }
  pose proof (mm_min_le m1 HM1) as Hmin1. rewrite Hn1 in Hmin1. pose proof (mm_bound _ HM) as Hb.
  unfold after_read_s. fold m1. unfold set_sub at 1 2 3. fold x. fold subs2.
  split; cbn [mb_subs mb_box mb_nsent set_subs set_box].
  - exact Hne2.
  - rewrite (mm_box _ HM1), Hn1.
    rewrite gc_seg; try rewrite MS_length; try lia. f_equal. lia.
  - exact Hle2.
  - exact Hb.
Qed.
End Multi.

(* ---------- the thread-local code of a (non-rechunking) saver over a segment of the stream ---------- *)
Section SaverLoop.
Variable N : nat.
Variable nt : net.
Variable tid : nat.
Variable fpo : option nat.      (* the position at which this saver fails, if it is the failing thread *)
Variable c : nat.
Hypothesis Hf : forall k, fault_at nt tid k = match fpo with Some fp => if fp =? k then Some c else None | None => None end.

(* what Saver.save_from does with the messages numbered a .. a+len-1 when it has saved chunks 0 .. a-1:
   (A) it saves them all and goes back to read; (B) saving chunk fp fails: got_exception is set, the exception is thrown
   into the mailbox generator; (C) the end marker: the saver closes normally holding all N chunks; (D) the end marker, and
   close() itself fails: closed with the exception recorded, got_exception set (nothing is killed — the final saver check
   of the processor reports it) *)
Lemma saver_loop len : forall a t,
  t_kind t = KSaver false -> t_fi t < length (t_rd t) -> t_cnt t = a -> t_rows t = zs a -> a + len <= S N -> a <= N ->
  (forall fp, fpo = Some fp -> a <= fp) ->
  let t' := sink_loop nt tid t (msgs N a len) in
  (a + len <= N /\ t_pc t' = PRead /\ t_cnt t' = a + len /\ t_rows t' = zs (a + len) /\
   cur_r t' = r_set_buf (cur_r t) [] /\ t_got t' = t_got t /\ t_closed t' = t_closed t /\ t_excrec t' = t_excrec t /\
   (forall fp, fpo = Some fp -> a + len <= fp)) \/
  (exists fp, fpo = Some fp /\ fp < N /\ fp < a + len /\ t_pc t' = PKillIn (EOrig c) /\ t_got t' = Some c /\
              t_rows t' = zs fp) \/
  (a + len = S N /\ fpo <> Some N /\ t_pc t' = PDone /\ t_closed t' = true /\ t_excrec t' = t_excrec t /\
   t_rows t' = zs N /\ t_got t' = t_got t) \/
  (a + len = S N /\ fpo = Some N /\ t_pc t' = PDead (EOrig c) /\ t_closed t' = true /\ t_excrec t' = true /\
   t_got t' = Some c /\ t_rows t' = zs N).
Proof.
  induction len as [|l IH]; intros a t Hk Hfi Hc Hrw Hb HaN0 Hfp.
  - rewrite msgs_0. cbn [sink_loop]. left. cbn. rewrite Nat.add_0_r.
    repeat split; auto.
    + unfold cur_r, set_cur_r. cbn. apply nth_upd_eq. auto.
  - destruct (Nat.eq_dec a N) as [EaN | EaN].
    { (* the end marker *)
      rewrite EaN in *. rewrite msgs_S_stop. cbn [sink_loop]. unfold sink_stop. cbn [t_kind set_cur_r set_rd t_cnt].
      rewrite Hk, Hc, Hf. destruct fpo as [fp|] eqn:Efp.
      - destruct (fp =? N) eqn:E.
        + apply Nat.eqb_eq in E. subst fp. right. right. right. cbn. repeat split; auto. lia.
        + apply Nat.eqb_neq in E. right. right. left. cbn. repeat split; auto; try lia. congruence.
      - right. right. left. cbn. repeat split; auto; try lia. discriminate. }
    assert (HaN : a < N) by lia.
    rewrite msgs_S_data by lia. cbn [sink_loop].
    set (tb := set_cur_r t (r_set_buf (cur_r t) (msgs N (S a) l))).
    assert (Hcur : cur_r tb = r_set_buf (cur_r t) (msgs N (S a) l)).
    { unfold tb, cur_r, set_cur_r. cbn. apply nth_upd_eq. auto. }
    assert (Hsd : sink_data nt tid tb (Z.of_nat a) =
                  match fault_at nt tid a with
                  | Some c' => (set_pc (set_got tb (Some c')) (PKillIn (EOrig c')), false)
                  | None => (add_row tb (Z.of_nat a), true)
                  end).
    { unfold sink_data. replace (t_kind tb) with (KSaver false) by (symmetry; exact Hk).
      replace (t_cnt tb) with a by (symmetry; exact Hc). reflexivity. }
    rewrite Hsd, Hf.
    assert (Hgo : (forall fp, fpo = Some fp -> S a <= fp) ->
      let t' := sink_loop nt tid (add_row tb (Z.of_nat a)) (msgs N (S a) l) in
      (a + S l <= N /\ t_pc t' = PRead /\ t_cnt t' = a + S l /\ t_rows t' = zs (a + S l) /\
       cur_r t' = r_set_buf (cur_r t) [] /\ t_got t' = t_got t /\ t_closed t' = t_closed t /\ t_excrec t' = t_excrec t /\
       (forall fp, fpo = Some fp -> a + S l <= fp)) \/
      (exists fp, fpo = Some fp /\ fp < N /\ fp < a + S l /\ t_pc t' = PKillIn (EOrig c) /\ t_got t' = Some c /\
                  t_rows t' = zs fp) \/
      (a + S l = S N /\ fpo <> Some N /\ t_pc t' = PDone /\ t_closed t' = true /\ t_excrec t' = t_excrec t /\
       t_rows t' = zs N /\ t_got t' = t_got t) \/
      (a + S l = S N /\ fpo = Some N /\ t_pc t' = PDead (EOrig c) /\ t_closed t' = true /\ t_excrec t' = true /\
       t_got t' = Some c /\ t_rows t' = zs N)).
    { intros Hfp'.
      assert (A1 : t_kind (add_row tb (Z.of_nat a)) = KSaver false) by exact Hk.
      assert (A2 : t_fi (add_row tb (Z.of_nat a)) < length (t_rd (add_row tb (Z.of_nat a)))).
      { cbn. rewrite upd_length. auto. }
      assert (A3 : t_cnt (add_row tb (Z.of_nat a)) = S a) by (cbn; rewrite Hc; reflexivity).
      assert (A3' : t_rows (add_row tb (Z.of_nat a)) = zs (S a)).
      { change (t_rows (add_row tb (Z.of_nat a))) with (t_rows t ++ [Z.of_nat a]). rewrite Hrw. symmetry. apply zs_S. }
      assert (A4 : S a + l <= S N) by lia.
      replace (a + S l) with (S a + l) by lia.
      assert (A4' : S a <= N) by lia.
      destruct (IH (S a) (add_row tb (Z.of_nat a)) A1 A2 A3 A3' A4 A4' Hfp')
        as [(H1 & H2 & H3 & H4 & H5 & H6 & H7 & H8 & H9) | [H | [H | H]]].
      - left. change (cur_r (add_row tb (Z.of_nat a))) with (cur_r tb) in H5. rewrite Hcur in H5.
        repeat split; auto.
      - right. left. exact H.
      - right. right. left. exact H.
      - right. right. right. exact H. }
    destruct fpo as [fp|] eqn:Efp.
    + destruct (fp =? a) eqn:E.
      * apply Nat.eqb_eq in E. subst fp. right. left. exists a. cbn. repeat split; auto; try lia.
      * apply Nat.eqb_neq in E. apply Hgo. intros fp' Ef. inversion Ef; subst. specialize (Hfp fp' eq_refl). lia.
    + apply Hgo. intros fp' Ef. discriminate.
Qed.
End SaverLoop.
