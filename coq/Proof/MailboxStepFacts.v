(* Facts about single C05 steps (Model/Mailbox.v) needed to couple mailboxes into networks (C13):
   what a sender step / a reader step leaves alone, when a sender step pushes a message, and the
   invariant J = C05's in-order invariant + "nothing is ever killed" for mailboxes carrying n plain
   messages without a killer thread and without futures. *)
From SV Require Import Base.Prelude Model.Mailbox Model.MailboxNet
  Proof.MailboxFacts Proof.MailboxProof Proof.MailboxInOrder Proof.MailboxNetLift.
Local Open Scope nat_scope.

(* ---------- the messages of a run of n chunks ---------- *)
Definition plain (n : nat) : list msg := map (fun k => Plain (Z.of_nat k)) (seq 0 n).

Lemma chunk_msgs_source n : chunk_msgs n = source_of (plain n).
Proof. unfold chunk_msgs, source_of, plain. rewrite map_map. reflexivity. Qed.

Lemma plain_nostop n m : In m (plain n) -> is_stop m = false.
Proof. unfold plain. intros H. apply in_map_iff in H. destruct H as (k & <- & _). reflexivity. Qed.

Lemma plain_length n : length (plain n) = n.
Proof. unfold plain. rewrite map_length, seq_length. reflexivity. Qed.

Lemma plain_N n : MailboxInOrder.N (plain n) = n.
Proof. unfold MailboxInOrder.N. apply plain_length. Qed.

(* ---------- J ---------- *)
Definition J (n : nat) (cfg : config) (st : state) : Prop :=
  Inv (plain n) 0 st /\ k_pc st = None /\ killed st = false.

Lemma J_step n : step_closed (J n).
Proof.
  intros cfg st t st' (HI & Hk & Hkl) Hs.
  split; [eapply (Inv_step cfg); eauto using plain_nostop|].
  destruct (step_frame _ _ _ _ Hs) as (_ & _ & Hkp & Hkill).
  assert (Ht : t <> TK).
  { intros ->. apply step_inv in Hs. destruct Hs as (up & Hup & _). congruence. }
  split; [rewrite Hkp; auto|].
  destruct (killed st') eqn:E; auto. exfalso.
  destruct (Hkill eq_refl) as [H|[H|(r & H)]]; try congruence.
  destruct HI as (_ & (_ & _ & Hpc) & _). rewrite H in Hpc. congruence.
Qed.

Lemma J_init n cfg drives : drives <> [] -> J n cfg (init cfg drives (chunk_msgs n) None 0).
Proof.
  intros Hd. rewrite chunk_msgs_source. split; [apply Inv_init; auto|].
  unfold init. destruct (c_lazy cfg); [split; reflexivity|].
  match goal with |- k_pc (produce ?s) = _ /\ _ => destruct (frame_produce s) as (E1 & _ & _ & E4) end.
  rewrite E1, E4. split; reflexivity.
Qed.

(* ---------- consequences of J ---------- *)
Section JFacts.
Variables (n : nat) (cfg : config) (st : state).
Hypothesis HJ : J n cfg st.

Lemma J_MB : MB (plain n) st. Proof. destruct HJ as ((H & _) & _). exact H. Qed.

Lemma J_box_len : length (box st) = n_sent st - min_nread (rds st).
Proof. apply (box_len (plain n)). apply J_MB. Qed.

Lemma J_min_le_sent : min_nread (rds st) <= n_sent st.
Proof. apply (MB_lo_le (plain n)). apply J_MB. Qed.

Lemma J_nread_le i r : nth_error (rds st) i = Some r -> r_nread r <= n_sent st.
Proof. intros Hi. destruct J_MB as (_ & _ & HR & _). apply (HR _ _ Hi). Qed.

Lemma J_min_le i r : nth_error (rds st) i = Some r -> min_nread (rds st) <= r_nread r.
Proof. apply min_nread_le. Qed.

Lemma J_not_killed : killed st = false. Proof. destruct HJ as (_ & _ & H). exact H. Qed.

Lemma J_sender : sender_ok (plain n) st. Proof. destruct HJ as ((_ & H & _) & _). exact H. Qed.

Lemma J_not_closed : s_pc st <> SDone -> closed st = false.
Proof.
  intros H. destruct J_sender as (_ & Hc & _). destruct (closed st); auto. exfalso. apply H. auto.
Qed.

Lemma J_not_fkilled : fkilled st = false.
Proof.
  destruct HJ as ((_ & _ & Hf & _) & _ & Hk). destruct (fkilled st); auto.
  rewrite Hf in Hk by reflexivity. discriminate.
Qed.

(* the source iterable is at most one item ahead of what has been put into the mailbox *)
Lemma J_advances : n - length (src st) <= n_sent st + 1.
Proof.
  pose proof J_not_killed as Hk. destruct J_sender as (_ & _ & Hpc).
  assert (Hlen : forall l : list (option nat * msg), length (map snd l) = length l) by (intros; apply map_length).
  destruct (s_pc st) eqn:E.
  - destruct (Hpc Hk) as [H _]. apply (f_equal (@length _)) in H.
    rewrite Hlen, skipn_length, plain_length in H. lia.
  - destruct (Hpc Hk) as [H _]. apply (f_equal (@length _)) in H.
    rewrite Hlen, skipn_length, plain_length in H. lia.
  - destruct Hpc as [_ Hh]. specialize (Hh Hk). unfold hand_ok in Hh. destruct closing.
    + destruct Hh as [_ Hh]. rewrite plain_N in Hh. lia.
    + apply (f_equal (@length _)) in Hh. cbn [length] in Hh.
      rewrite Hlen, skipn_length, plain_length in Hh. lia.
  - destruct (Hpc Hk) as [_ Hh]. unfold hand_ok in Hh. destruct closing.
    + destruct Hh as [_ Hh]. rewrite plain_N in Hh. lia.
    + apply (f_equal (@length _)) in Hh. cbn [length] in Hh.
      rewrite Hlen, skipn_length, plain_length in Hh. lia.
  - congruence.
  - destruct (Hpc Hk) as [H _]. rewrite plain_N in H. lia.
  - congruence.
Qed.
End JFacts.

(* ---------- what a sender step leaves alone ---------- *)
Lemma nread_map_woken l w : map r_nread (map (fun r => rd_set_woken r w) l) = map r_nread l.
Proof. rewrite map_map. reflexivity. Qed.

Lemma nreads_wake_readers st : map r_nread (rds (wake_readers st)) = map r_nread (rds st).
Proof. unfold wake_readers. cbn [rds set_rds]. apply nread_map_woken. Qed.

Lemma nreads_kill_region st up : map r_nread (rds (kill_region st up)) = map r_nread (rds st).
Proof.
  destruct (kill_region_view st up) as (_ & _ & _ & _ & _ & _ & _ & [E|E]); rewrite E; auto.
  apply nread_map_woken.
Qed.

Lemma nreads_produce st : rds (produce st) = rds st.
Proof. destruct (produce_view st) as (E & _). exact E. Qed.

Lemma nreads_after_send cfg st c : rds (after_send cfg st c) = rds st.
Proof. destruct (after_send_view cfg st c) as (E & _). exact E. Qed.

Lemma nreads_send_raises st c r : rds (send_raises st c r) = rds st.
Proof. destruct (send_raises_view st c r) as (E & _). exact E. Qed.

Lemma sender_step_nreads cfg st : map r_nread (rds (sender_step cfg st)) = map r_nread (rds st).
Proof.
  unfold sender_step. destruct (s_pc st); auto.
  - unfold gate_enter. destruct (can_fetch st); [now rewrite nreads_produce|reflexivity].
  - unfold gate_resume. destruct (can_fetch st); [now rewrite nreads_produce|reflexivity].
  - unfold send_enter.
    destruct (closed st); [now rewrite nreads_send_raises|].
    destruct (fkilled st); [now rewrite nreads_send_raises|].
    destruct (killed st); [now rewrite nreads_after_send|].
    destruct (_ <? _); [now rewrite nreads_send_raises|].
    destruct (can_write cfg st); [|reflexivity].
    unfold do_push. rewrite nreads_after_send, nreads_wake_readers. reflexivity.
  - unfold send_resume. destruct (can_write cfg st); [|reflexivity].
    destruct (killed st).
    + destruct (fkilled st); [now rewrite nreads_send_raises|now rewrite nreads_after_send].
    + unfold do_push. rewrite nreads_after_send, nreads_wake_readers. reflexivity.
  - cbn [rds set_spc]. apply nreads_kill_region.
Qed.

Lemma step_TS_nreads cfg st st' :
  step cfg st TS = Some st' -> map r_nread (rds st') = map r_nread (rds st).
Proof. intros H. apply step_inv in H. destruct H as [_ ->]. apply sender_step_nreads. Qed.

Lemma map_nth_eq {A B} (f : A -> B) l l' i :
  map f l = map f l' -> option_map f (nth_error l i) = option_map f (nth_error l' i).
Proof. intros H. rewrite <- !nth_error_map, H. reflexivity. Qed.

(* ---------- when a sender step pushes ---------- *)
Lemma nsent_produce st : n_sent (produce st) = n_sent st.
Proof. destruct (produce_view' st) as (_ & _ & E & _). exact E. Qed.
Lemma nsent_after_send cfg st c : n_sent (after_send cfg st c) = n_sent st.
Proof. destruct (after_send_view cfg st c) as (_ & _ & E & _). exact E. Qed.

Lemma spc_after_send_nowait cfg st c : sender_waits (s_pc (after_send cfg st c)) = false.
Proof.
  unfold after_send. destruct c; [reflexivity|]. destruct (c_lazy cfg); [reflexivity|].
  unfold produce. destruct (src st) as [|[num m] rest]; reflexivity.
Qed.

Lemma step_TS_gate n cfg st st' :
  J n cfg st -> at_gate (s_pc st) = true -> step cfg st TS = Some st' -> n_sent st' = n_sent st.
Proof.
  intros HJ Hg H. apply step_inv in H. destruct H as [_ ->].
  unfold sender_step. destruct (s_pc st); try discriminate.
  - unfold gate_enter. destruct (can_fetch st); [apply nsent_produce|reflexivity].
  - unfold gate_resume. destruct (can_fetch st); [apply nsent_produce|reflexivity].
Qed.

Lemma step_TS_send n cfg st st' :
  J n cfg st -> at_send (s_pc st) = true -> step cfg st TS = Some st' ->
  n_sent st' = (if sender_waits (s_pc st') then n_sent st else S (n_sent st)).
Proof.
  intros HJ Hs H. apply step_inv in H. destruct H as [_ ->].
  pose proof (J_not_killed _ _ _ HJ) as Hk. pose proof (J_not_fkilled _ _ _ HJ) as Hf.
  pose proof (J_min_le_sent _ _ _ HJ) as Hlo.
  unfold sender_step. destruct (s_pc st) eqn:Epc; try discriminate.
  - assert (Hc : closed st = false) by (apply (J_not_closed _ _ _ HJ); congruence).
    destruct (J_sender _ _ _ HJ) as (_ & _ & Hpc). rewrite Epc in Hpc. destruct Hpc as [-> _].
    unfold send_enter. rewrite Hc, Hf, Hk.
    replace (n_sent st <? min_nread (rds st)) with false by (symmetry; apply Nat.ltb_ge; lia).
    destruct (can_write cfg st).
    + unfold do_push. rewrite spc_after_send_nowait, nsent_after_send. reflexivity.
    + reflexivity.
  - unfold send_resume. destruct (can_write cfg st); [|cbn; rewrite Epc; reflexivity].
    rewrite Hk. unfold do_push. rewrite spc_after_send_nowait, nsent_after_send. reflexivity.
Qed.

(* ---------- what a reader step leaves alone ---------- *)
Lemma grab_frame cfg st i r k :
  n_sent (grab cfg st i r k) = n_sent st /\ s_pc (grab cfg st i r k) = s_pc st /\
  src (grab cfg st i r k) = src st /\
  forall j, j <> i -> nth_error (rds (grab cfg st i r k)) j = nth_error (rds st) j.
Proof.
  unfold grab. destruct (killed st).
  - cbn [n_sent s_pc src rds set_rds]. repeat split; auto. intros j Hj. apply nth_error_upd_neq. auto.
  - destruct (take_from (length (box st)) (box st) k) as [[ms n'] last].
    set (r2 := rd_set_nread (rd_set_waiting r None) n').
    set (st1 := set_rds st (upd i r2 (rds st))).
    set (st2 := set_box st1 (gc (min_nread (rds st1)) (box st1))).
    destruct (maybe_wake_gate_view cfg st2) as (A1 & _ & A3 & _ & _ & _ & A7 & _ & A9).
    destruct (wake_writer_view (maybe_wake_gate cfg st2)) as (B1 & _ & B3 & _ & _ & _ & B7 & _ & B9).
    cbn [n_sent s_pc src rds set_rds]. rewrite B3, A3, B9, A9, B7, A7, B1, A1.
    cbn [n_sent s_pc src rds st2 st1 set_box set_rds]. repeat split; auto.
    intros j Hj. rewrite !nth_error_upd_neq by auto. reflexivity.
Qed.

Lemma reader_step_frame cfg st i r :
  n_sent (reader_step cfg st i r) = n_sent st /\ s_pc (reader_step cfg st i r) = s_pc st /\
  src (reader_step cfg st i r) = src st /\
  forall j, j <> i -> nth_error (rds (reader_step cfg st i r)) j = nth_error (rds st) j.
Proof.
  unfold reader_step. destruct (r_pc r).
  - unfold read_enter. destruct (next_ready st n); [apply grab_frame|].
    match goal with |- context [maybe_wake_gate cfg ?s] =>
      destruct (maybe_wake_gate_view cfg s) as (A1 & _ & A3 & _ & _ & _ & A7 & _ & A9) end.
    rewrite A1, A3, A7, A9. cbn [n_sent s_pc src rds set_rds]. repeat split; auto.
    intros j Hj. apply nth_error_upd_neq. auto.
  - unfold read_resume. destruct (next_ready st n); [apply grab_frame|].
    cbn [n_sent s_pc src rds set_rds]. repeat split; auto. intros j Hj. apply nth_error_upd_neq. auto.
  - cbn [n_sent s_pc src rds set_rds]. repeat split; auto. intros j Hj. apply nth_error_upd_neq. auto.
  - repeat split; auto.
  - repeat split; auto.
Qed.

Lemma step_TR_frame cfg st i st' :
  step cfg st (TR i) = Some st' ->
  n_sent st' = n_sent st /\ s_pc st' = s_pc st /\ src st' = src st /\
  forall j, j <> i -> nth_error (rds st') j = nth_error (rds st) j.
Proof. intros H. apply step_inv in H. destruct H as (r & _ & _ & ->). apply reader_step_frame. Qed.

(* the number of subscribers never changes *)
Lemma step_rds_length cfg st t st' : step cfg st t = Some st' -> length (rds st') = length (rds st).
Proof.
  intros H. destruct (step_frame _ _ _ _ H) as (E & _).
  apply (f_equal (@length _)) in E. rewrite !map_length in E. exact E.
Qed.

(* ---------- the lazy gate: a lazy sender takes the next item only when _can_fetch() holds ---------- *)
Lemma src_after_send_lazy cfg st c : c_lazy cfg = true -> src (after_send cfg st c) = src st.
Proof. intros Hl. unfold after_send. destruct c; [reflexivity|]. rewrite Hl. reflexivity. Qed.

Lemma src_send_raises st c r : src (send_raises st c r) = src st.
Proof. unfold send_raises. destruct c; reflexivity. Qed.

Lemma src_kill_region st up : src (kill_region st up) = src st.
Proof. destruct (kill_region_view st up) as (_ & _ & _ & _ & E & _). exact E. Qed.

Lemma lazy_step_src cfg st t st' :
  c_lazy cfg = true -> step cfg st t = Some st' -> length (src st') < length (src st) ->
  t = TS /\ at_gate (s_pc st) = true /\ can_fetch st = true.
Proof.
  intros Hl Hs Hlt. destruct t.
  - apply step_inv in Hs. destruct Hs as [_ ->]. split; auto.
    unfold sender_step in Hlt. destruct (s_pc st) eqn:Epc.
    + unfold gate_enter in Hlt. destruct (can_fetch st); auto. cbn in Hlt. lia.
    + unfold gate_resume in Hlt. destruct (can_fetch st); auto. cbn in Hlt. lia.
    + exfalso. unfold send_enter in Hlt.
      destruct (closed st); [rewrite src_send_raises in Hlt; lia|].
      destruct (fkilled st); [rewrite src_send_raises in Hlt; lia|].
      destruct (killed st); [rewrite src_after_send_lazy in Hlt by auto; lia|].
      destruct (_ <? _); [rewrite src_send_raises in Hlt; lia|].
      destruct (can_write cfg st); [|cbn in Hlt; lia].
      unfold do_push in Hlt. rewrite src_after_send_lazy in Hlt by auto. cbn in Hlt. lia.
    + exfalso. unfold send_resume in Hlt. destruct (can_write cfg st); [|cbn in Hlt; lia].
      destruct (killed st).
      * destruct (fkilled st); [rewrite src_send_raises in Hlt; lia|].
        rewrite src_after_send_lazy in Hlt by auto. lia.
      * unfold do_push in Hlt. rewrite src_after_send_lazy in Hlt by auto. cbn in Hlt. lia.
    + exfalso. cbn [src set_spc] in Hlt. rewrite src_kill_region in Hlt. lia.
    + lia.
    + lia.
  - exfalso. destruct (step_TR_frame _ _ _ _ Hs) as (_ & _ & E & _). rewrite E in Hlt. lia.
  - exfalso. apply step_inv in Hs. destruct Hs as (up & _ & ->).
    cbn [src set_kpc] in Hlt. rewrite src_kill_region in Hlt. lia.
  - exfalso. apply step_inv in Hs. destruct Hs as (d & _ & _ & ->). cbn in Hlt. lia.
Qed.
