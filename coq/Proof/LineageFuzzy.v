(* C02 — fuzzy_match_iff: StorageFrontend._matches accepts a stored lineage exactly when it agrees
   with the requested one outside the data types in fuzzy_for and the options in fuzzy_for_options
   (agreement of values = Python's ==, evaluated on what json.loads returns for the stored side). *)
From SV Require Import Base.Prelude Model.Canon Model.Lineage Proof.CanonProof Spec.LineageSpec Proof.LineageEquiv.

(* ---------- comparison of two dicts by length + lookups ---------- *)
Definition assoc_eqb {A} (eqv : A -> A -> bool) (l1 l2 : list (Z * A)) : bool :=
  Nat.eqb (length l1) (length l2) &&
  forallb (fun kv => match lookup (fst kv) l2 with Some y => eqv (snd kv) y | None => false end) l1.

Definition assoc_rel {A} (eqv : A -> A -> bool) (l1 l2 : list (Z * A)) : Prop :=
  forall k, match lookup k l1, lookup k l2 with
            | Some x, Some y => eqv x y = true
            | None, None => True
            | _, _ => False
            end.

Lemma lookup_NoDup_In' {A} k (x : A) d : NoDup (keys d) -> In (k, x) d -> lookup k d = Some x.
Proof.
  induction d as [|[k' x'] d IH]; intros ND Hin; [destruct Hin|].
  unfold keys in ND. cbn [map fst] in ND. inversion ND as [|? ? Hn ND']; subst.
  cbn [lookup]. destruct Hin as [E|Hin].
  - inversion E; subst. now rewrite Z.eqb_refl.
  - destruct (k =? k') eqn:Q.
    + apply Z.eqb_eq in Q. subst. exfalso. apply Hn. now apply (in_map fst) in Hin.
    + now apply IH.
Qed.

Lemma assoc_eqb_spec {A} (eqv : A -> A -> bool) l1 l2 :
  NoDup (keys l1) -> NoDup (keys l2) -> (assoc_eqb eqv l1 l2 = true <-> assoc_rel eqv l1 l2).
Proof.
  intros N1 N2. unfold assoc_eqb. rewrite andb_true_iff, Nat.eqb_eq, forallb_forall. split.
  - intros [Hlen Hall] k.
    assert (Hincl : incl (keys l1) (keys l2)).
    { intros k' Hk. unfold keys in Hk. apply in_map_iff in Hk. destruct Hk as ([k2 x] & <- & Hin).
      specialize (Hall _ Hin). cbn [fst snd] in Hall |- *. apply has_key_spec. unfold has_key.
      destruct (lookup k2 l2); [reflexivity|discriminate]. }
    assert (Hincl2 : incl (keys l2) (keys l1)).
    { apply NoDup_length_incl; [exact N1| |exact Hincl]. unfold keys. rewrite !map_length. lia. }
    destruct (lookup k l1) as [x|] eqn:L1.
    + specialize (Hall _ (lookup_In _ _ _ L1)). cbn [fst snd] in Hall. destruct (lookup k l2); [exact Hall|discriminate].
    + destruct (lookup k l2) as [y|] eqn:L2; [|exact I].
      apply lookup_None_keys in L1. apply L1. apply Hincl2. apply lookup_In in L2. unfold keys. now apply (in_map fst) in L2.
  - intros Hrel. split.
    + assert (I1 : incl (keys l1) (keys l2)).
      { intros k Hk. apply has_key_spec in Hk. unfold has_key in Hk. specialize (Hrel k).
        destruct (lookup k l1); [|discriminate]. destruct (lookup k l2) eqn:L2; [|contradiction].
        apply lookup_In in L2. unfold keys. now apply (in_map fst) in L2. }
      assert (I2 : incl (keys l2) (keys l1)).
      { intros k Hk. apply has_key_spec in Hk. unfold has_key in Hk. specialize (Hrel k).
        destruct (lookup k l2); [|discriminate]. destruct (lookup k l1) eqn:L1; [|contradiction].
        apply lookup_In in L1. unfold keys. now apply (in_map fst) in L1. }
      pose proof (NoDup_incl_length N1 I1) as A1. pose proof (NoDup_incl_length N2 I2) as A2.
      unfold keys in A1, A2. rewrite !map_length in A1, A2. lia.
    + intros [k x] Hin. cbn [fst snd]. specialize (Hrel k). rewrite (lookup_NoDup_In' k x l1 N1 Hin) in Hrel.
      destruct (lookup k l2); [exact Hrel|contradiction].
Qed.

Lemma py_eqb_dict d1 d2 : py_eqb (VDict d1) (VDict d2) = assoc_eqb py_eqb d1 d2.
Proof.
  cbn [py_eqb]. unfold assoc_eqb. f_equal.
  induction d1 as [|[k x] r IH]; cbn [forallb fst snd]; [reflexivity|].
  destruct (lookup k d2); [|reflexivity]. now rewrite IH.
Qed.

Lemma lineage_eqb_assoc l1 l2 : lineage_eqb l1 l2 = assoc_eqb entry_eqb l1 l2.
Proof. reflexivity. Qed.

(* ---------- _filter_lineage ---------- *)
Definition filter_cfg (fo : list Z) (c : config) : config := filter (fun kv => negb (memZ (fst kv) fo)) c.

Lemma lookup_filter_lineage k l ff fo :
  lookup k (filter_lineage l ff fo) =
  if memZ k ff then None
  else option_map (fun e : lentry => (fst e, filter_cfg fo (snd e))) (lookup k l).
Proof.
  unfold filter_lineage.
  rewrite (lookup_map_snd (fun e : lentry => (fst e, filter (fun kv => negb (memZ (fst kv) fo)) (snd e)))).
  rewrite (lookup_filter_key (fun k => negb (memZ k ff))). destruct (memZ k ff); reflexivity.
Qed.

Lemma keys_filter_NoDup {A} (P : Z * A -> bool) l : NoDup (keys l) -> NoDup (keys (filter P l)).
Proof.
  unfold keys. induction l as [|kv l IH]; intros ND; cbn [filter map]; [constructor|].
  cbn [map] in ND. inversion ND as [|? ? Hn ND']; subst.
  destruct (P kv); cbn [map]; [|now apply IH]. constructor; [|now apply IH].
  intros Hin. apply Hn. apply in_map_iff in Hin. destruct Hin as (x & E & Hx). apply filter_In in Hx.
  rewrite <- E. apply in_map. tauto.
Qed.

Lemma keys_map_snd {A B} (f : A -> B) (l : list (Z * A)) : keys (map (fun kv => (fst kv, f (snd kv))) l) = keys l.
Proof. unfold keys. rewrite map_map. cbn [fst]. reflexivity. Qed.

(* ---------- the specification ---------- *)
Definition cfg_rel (fo : list Z) (c c' : config) : Prop :=
  forall o, ~ In o fo ->
    match lookup o c, lookup o c' with
    | Some x, Some y => py_eqb x y = true
    | None, None => True
    | _, _ => False
    end.

Definition fuzzy_spec (stored desired : lineage) (ff fo : list Z) : Prop :=
  forall dt, ~ In dt ff ->
    match lookup dt stored, lookup dt desired with
    | Some e, Some e' => fst (fst e) = fst (fst e') /\ snd (fst e) = snd (fst e') /\ cfg_rel fo (snd e) (snd e')
    | None, None => True
    | _, _ => False
    end.

Definition lin_wf (l : lineage) : Prop :=
  NoDup (keys l) /\ forall k e, lookup k l = Some e -> NoDup (keys (snd e)).

Lemma entry_eqb_spec fo (e e' : lentry) :
  NoDup (keys (snd e)) -> NoDup (keys (snd e')) ->
  (entry_eqb (fst e, filter_cfg fo (snd e)) (fst e', filter_cfg fo (snd e')) = true <->
   fst (fst e) = fst (fst e') /\ snd (fst e) = snd (fst e') /\ cfg_rel fo (snd e) (snd e')).
Proof.
  intros N N'. unfold entry_eqb. cbn [fst snd]. rewrite !andb_true_iff, !Z.eqb_eq, py_eqb_dict.
  rewrite assoc_eqb_spec by (apply keys_filter_NoDup; assumption).
  assert (R : assoc_rel py_eqb (filter_cfg fo (snd e)) (filter_cfg fo (snd e')) <-> cfg_rel fo (snd e) (snd e')).
  { unfold assoc_rel, cfg_rel, filter_cfg. split.
    - intros H o Ho. specialize (H o). rewrite !(lookup_filter_key (fun k => negb (memZ k fo))) in H.
      destruct (memZ o fo) eqn:M; [apply memZ_spec in M; contradiction|exact H].
    - intros H o. rewrite !(lookup_filter_key (fun k => negb (memZ k fo))).
      destruct (memZ o fo) eqn:M; cbn [negb]; [exact I|]. apply H. intros Hin. apply memZ_spec in Hin. congruence. }
  rewrite R. tauto.
Qed.

Theorem fuzzy_match_iff stored desired ff fo :
  lin_wf stored -> lin_wf desired -> fuzzy_on ff fo = true ->
  (matches stored desired ff fo = true <-> fuzzy_spec stored desired ff fo).
Proof.
  intros (N1 & C1) (N2 & C2) Hon.
  assert (E : matches stored desired ff fo = lineage_eqb (filter_lineage stored ff fo) (filter_lineage desired ff fo)).
  { unfold matches. destruct ff, fo; try reflexivity. discriminate. }
  rewrite E, lineage_eqb_assoc. clear E.
  rewrite assoc_eqb_spec.
  2,3: unfold filter_lineage;
       rewrite (keys_map_snd (fun e : lentry => (fst e, filter (fun kv => negb (memZ (fst kv) fo)) (snd e))));
       apply keys_filter_NoDup; assumption.
  unfold assoc_rel, fuzzy_spec. split.
  - intros H dt Hdt. specialize (H dt). rewrite !lookup_filter_lineage in H.
    destruct (memZ dt ff) eqn:M; [apply memZ_spec in M; contradiction|].
    destruct (lookup dt stored) as [e|] eqn:L1, (lookup dt desired) as [e'|] eqn:L2; cbn [option_map] in H; try contradiction; [|exact I].
    apply (entry_eqb_spec fo e e'); eauto.
  - intros H dt. rewrite !lookup_filter_lineage. destruct (memZ dt ff) eqn:M; [exact I|].
    assert (Hdt : ~ In dt ff) by (intros Hin; apply memZ_spec in Hin; congruence).
    specialize (H dt Hdt).
    destruct (lookup dt stored) as [e|] eqn:L1, (lookup dt desired) as [e'|] eqn:L2; cbn [option_map]; try contradiction; [|exact I].
    apply (entry_eqb_spec fo e e'); eauto.
Qed.

(* ---------- what the JSON round trip of metadata.json does to this ---------- *)
(* the intended statement compares the lineage as it was requested when the data was made ... *)
Definition full_fuzzy_match_iff : Prop :=
  forall made desired ff fo, lin_wf made -> lin_wf desired -> fuzzy_on ff fo = true ->
    (matches (lin_json_rt made) desired ff fo = true <-> fuzzy_spec made desired ff fo).

(* ... and is false as soon as a tracked option has a tuple value: the data is not even accepted for
   the very lineage it was made under (finding F2, replayed on the real Context) *)
Definition l_tuple : lineage := [(10, (101, 1000, [(20, VTuple [VInt 1; VInt 2]); (21, VInt 5)]))].

Theorem fuzzy_match_iff_refuted : ~ full_fuzzy_match_iff.
Proof.
  intros H. specialize (H l_tuple l_tuple [] [21]).
  assert (W : lin_wf l_tuple).
  { split; [repeat constructor; cbn; tauto|]. intros k e Hl. cbn in Hl. destruct (k =? 10); [|discriminate].
    inversion Hl; subst. cbn. repeat constructor; cbn; intuition lia. }
  destruct (H W W eq_refl) as [_ H2].
  assert (S : fuzzy_spec l_tuple l_tuple [] [21]).
  { intros dt _. cbn. destruct (dt =? 10); [|exact I]. cbn. repeat split.
    intros o _. cbn. destruct (o =? 20); [reflexivity|]. destruct (o =? 21); [reflexivity|exact I]. }
  specialize (H2 S). vm_compute in H2. discriminate.
Qed.

(* without tuples the round trip is the identity, and the intended statement holds *)
Fixpoint tuple_free (v : value) : Prop :=
  match v with
  | VInt _ | VStr _ => True
  | VTuple _ => False
  | VList l => (fix go (l : list value) : Prop := match l with [] => True | x :: r => tuple_free x /\ go r end) l
  | VDict d => (fix go (d : list (Z * value)) : Prop := match d with [] => True | kv :: r => tuple_free (snd kv) /\ go r end) d
  end.

Lemma json_rt_tuple_free : forall v, tuple_free v -> json_rt v = v.
Proof.
  induction v as [z|s|l IH|l IH|d IH] using value_ind'; intros H; try reflexivity.
  - cbn [json_rt]. f_equal. cbn [tuple_free] in H. induction IH as [|x l Hx _ IHl]; [reflexivity|].
    destruct H as [Hx' Hl]. cbn [map]. rewrite (Hx Hx'), (IHl Hl). reflexivity.
  - destruct H.
  - cbn [json_rt]. f_equal. cbn [tuple_free] in H. induction IH as [|[k x] d Hx _ IHd]; [reflexivity|].
    destruct H as [Hx' Hd]. cbn [snd] in *. rewrite (Hx Hx'), (IHd Hd). reflexivity.
Qed.

Definition lin_tuple_free (l : lineage) : Prop :=
  forall k e o v, lookup k l = Some e -> In (o, v) (snd e) -> tuple_free v.

Lemma lin_json_rt_tuple_free l : (forall e, In e l -> forall o v, In (o, v) (snd (snd e)) -> tuple_free v) -> lin_json_rt l = l.
Proof.
  intros H. unfold lin_json_rt. induction l as [|[k [[n ver] cfg]] l IH]; [reflexivity|]. cbn [map fst snd].
  rewrite IH by (intros e He o v Hov; exact (H e (or_intror He) o v Hov)). f_equal. f_equal. f_equal.
  assert (G : forall o v, In (o, v) cfg -> tuple_free v) by (intros o v Hin; exact (H (k, (n, ver, cfg)) (or_introl eq_refl) o v Hin)).
  clear H IH. induction cfg as [|[o v] cfg IHc]; [reflexivity|]. cbn [map fst snd].
  rewrite (json_rt_tuple_free v) by (exact (G o v (or_introl eq_refl))). rewrite IHc by (intros o' v' Hin; exact (G o' v' (or_intror Hin))). reflexivity.
Qed.

Theorem fuzzy_match_iff_partial made desired ff fo :
  (forall e, In e made -> forall o v, In (o, v) (snd (snd e)) -> tuple_free v) ->
  lin_wf made -> lin_wf desired -> fuzzy_on ff fo = true ->
  (matches (lin_json_rt made) desired ff fo = true <-> fuzzy_spec made desired ff fo).
Proof. intros Htf W1 W2 Hon. rewrite (lin_json_rt_tuple_free made Htf). now apply fuzzy_match_iff. Qed.
