(* C01 -- the down-chunking kind: a compute that yields several sub-chunks per call (DownChunkingPlugin).
   strax only runs the Chunk constructor on every yielded chunk; the plugin's own cut rule must tile the call.
   `cut_ok` states what a law-abiding rule delivers, `down_cut_ok` proves it of the harness rule, and
   `run_down_correct` gives the chunking independence of the kind. *)
From SV Require Import Model.Rows Model.SplitArray Model.Chunk Model.Rechunker Model.Network
     Proof.RowsFacts Proof.ChunkProof Proof.ConcatProof Proof.RechunkerProof Proof.NetworkProof.

Definition piece_chunk (m : ometa) (p : Z * Z * list row) : res chunk := out_chunk m (fst (fst p)) (snd (fst p)) (snd p).

(* rows of one call: inside [s, e], none starting at e *)
Definition in_call (s e : Z) (rows : list row) : Prop :=
  Forall (fun r => s <= rt r /\ rt r <= re r /\ re r <= e /\ rt r < e) rows.

Definition cut_ok (cut : Z -> Z -> list row -> pieces) : Prop :=
  forall m s e rows, 0 <= s -> s <= e -> sorted rows -> in_call s e rows ->
  exists out, map_res (piece_chunk m) (cut s e rows) = Ok out /\ out <> [] /\ Forall wf out /\ Forall tight out /\
              chain s out e /\ flat_map crows out = rows /\ uniform (o_dtype m) (o_run m) out /\ no_trailing e out.

Lemma removelast_cons {A} (x : A) l : l <> [] -> removelast (x :: l) = x :: removelast l.
Proof. destruct l; [congruence|reflexivity]. Qed.

Lemma chain_ends_le : forall cs s e, Forall wf cs -> chain s cs e -> Forall (fun c => cend c <= e) cs.
Proof.
  induction cs as [|c cs IH]; intros s e W Ch; [constructor|].
  inversion W as [|? ? Wc Wcs]; subst. cbn in Ch. destruct Ch as [_ Ch].
  constructor; [apply (chain_le _ _ _ Wcs Ch)|apply (IH (cend c) e Wcs Ch)].
Qed.

Lemma sorted_app_l a b : sorted (a ++ b) -> sorted a.
Proof. intros H. apply sorted_app in H. tauto. Qed.
Lemma sorted_app_r a b : sorted (a ++ b) -> sorted b.
Proof. intros H. apply sorted_app in H. tauto. Qed.
Lemma sorted_app_le a b : sorted (a ++ b) -> Forall (fun x => Forall (fun y => rt x <= rt y) b) a.
Proof. intros H. apply sorted_app in H. tauto. Qed.

Lemma down_from_spec m k : forall rows s e acc mx prev,
  0 <= s -> s <= e -> sorted (rev acc ++ rows) -> in_call s e (rev acc ++ rows) ->
  Forall (fun r => re r <= mx) acc -> Forall (fun r => rt r <= prev) acc ->
  exists out, map_res (piece_chunk m) (down_from k s e acc mx prev rows) = Ok out /\ out <> [] /\ Forall wf out /\
              Forall tight out /\ chain s out e /\ flat_map crows out = rev acc ++ rows /\
              uniform (o_dtype m) (o_run m) out /\ no_trailing e out.
Proof.
  induction rows as [|r rows IH]; intros s e acc mx prev H0 Hse Hs Hin Hmx Hpv.
  - (* the last piece: up to the end of the call *)
    rewrite app_nil_r in *. cbn [down_from map_res]. unfold piece_chunk at 1. cbn [fst snd].
    destruct (out_chunk_ok m s e (rev acc)) as (o & Eo & Wo & O1 & O2 & O3 & O4 & O5); auto.
    { eapply Forall_impl; [|exact Hin]. cbn; intros; lia. }
    rewrite Eo. cbn [res_bind]. exists [o]. split; [reflexivity|]. split; [discriminate|].
    split; [constructor; auto|]. split.
    { constructor; [|constructor]. unfold tight. rewrite O2, O3. eapply Forall_impl; [|exact Hin]. cbn; intros; lia. }
    split; [cbn; split; congruence|]. split; [cbn; rewrite app_nil_r; exact O3|].
    split; [constructor; [split; auto|constructor]|unfold no_trailing, ends_nt; cbn; constructor].
  - cbn [down_from].
    destruct ((Nat.leb k (length acc)) && negb (Nat.eqb (length acc) 0) && (mx <=? rt r) && (prev <? rt r)) eqn:EC.
    + (* cut before r *)
      apply andb_true_iff in EC as [EC E4]. apply andb_true_iff in EC as [EC E3]. apply andb_true_iff in EC as [E1 E2].
      apply Z.leb_le in E3. apply Z.ltb_lt in E4.
      assert (Hne : acc <> []).
      { intros ->. cbn in E2. discriminate. }
      pose proof (sorted_app_l _ _ Hs) as Hsa. pose proof (sorted_app_r _ _ Hs) as Hsr.
      unfold in_call in Hin. apply Forall_app in Hin as [Hia Hir]. inversion Hir as [|? ? Hr Hirr]; subst.
      assert (Hpv' : Forall (fun q => rt q <= prev) (rev acc)) by (apply Forall_rev; exact Hpv).
      assert (Hmx' : Forall (fun q => re q <= mx) (rev acc)) by (apply Forall_rev; exact Hmx).
      assert (Hsle : s <= rt r).
      { destruct (rev acc) as [|q l] eqn:Er; [apply (f_equal (@rev row)) in Er; rewrite rev_involutive in Er; cbn in Er; congruence|].
        inversion Hia as [|? ? Hq _]; subst. inversion Hpv' as [|? ? Hq' _]; subst. lia. }
      cbn [map_res]. unfold piece_chunk at 1. cbn [fst snd].
      destruct (out_chunk_ok m s (rt r) (rev acc)) as (o & Eo & Wo & O1 & O2 & O3 & O4 & O5); auto.
      { apply Forall_forall. intros q Hq. rewrite Forall_forall in Hia, Hmx'. specialize (Hia q Hq). specialize (Hmx' q Hq). lia. }
      rewrite Eo. cbn [res_bind].
      destruct (IH (rt r) e [r] (Z.max mx (re r)) (rt r)) as (out & Em & Hn & Wout & Tout & Cho & Ro & Uo & NTo); try lia.
      { cbn [rev app]. exact Hsr. }
      { cbn [rev app]. unfold in_call. constructor; [lia|].
        cbn in Hsr. destruct Hsr as [Hle _]. apply Forall_forall. intros q Hq.
        rewrite Forall_forall in Hirr, Hle. specialize (Hirr q Hq). specialize (Hle q Hq). lia. }
      { constructor; [lia|constructor]. }
      { constructor; [lia|constructor]. }
      rewrite Em. cbn [res_bind]. exists (o :: out). split; [reflexivity|]. split; [discriminate|].
      split; [constructor; auto|]. split.
      { constructor; [|exact Tout]. unfold tight. rewrite O2, O3. eapply Forall_impl; [|exact Hpv']. cbn; intros; lia. }
      split; [cbn; split; [congruence|rewrite O2; exact Cho]|].
      split; [cbn; rewrite O3, Ro; reflexivity|]. split; [constructor; [split; auto|exact Uo]|].
      unfold no_trailing, ends_nt in *. cbn [map]. rewrite removelast_cons.
      { constructor; [rewrite O2; lia|exact NTo]. }
      { destruct out; [congruence|discriminate]. }
    + (* r joins the current piece *)
      destruct (IH s e (r :: acc) (Z.max mx (re r)) (rt r)) as (out & Em & Hn & Wout & Tout & Cho & Ro & Uo & NTo); auto.
      { cbn [rev]. rewrite <- app_assoc. exact Hs. }
      { cbn [rev]. rewrite <- app_assoc. exact Hin. }
      { constructor; [lia|]. eapply Forall_impl; [|exact Hmx]. cbn; intros; lia. }
      { constructor; [lia|]. pose proof (sorted_app_le _ _ Hs) as Hle. apply Forall_rev in Hle. rewrite rev_involutive in Hle.
        eapply Forall_impl; [|exact Hle]. cbn. intros q Hq. inversion Hq; subst. lia. }
      exists out. cbn [rev] in Ro. rewrite <- app_assoc in Ro. cbn [app] in Ro. repeat (split; [assumption|]). assumption.
Qed.

Theorem down_cut_ok k : cut_ok (down_cut k).
Proof.
  intros m s e rows H0 Hse Hs Hin. unfold down_cut.
  exact (down_from_spec m k rows s e [] (-1) (-1) H0 Hse Hs Hin (Forall_nil _) (Forall_nil _)).
Qed.

(* ---- the kind ---- *)

Theorem run_down_core m h cut dt run R a b cs :
  local_comp h -> cut_ok cut -> chunking_core dt run R a b cs ->
  exists out, run_down m h cut cs = Ok out /\ chunking_core (o_dtype m) (o_run m) (h R) a b out /\
              (no_trailing b cs -> no_trailing b out).
Proof.
  intros L CO ((Hne & W & TT & Ch & HR) & U).
  destruct (iter_single_spec dt run cs a b Hne W U Ch) as (calls & Ei & F & _).
  unfold run_down. rewrite Ei. cbn [res_bind].
  assert (HM : forall cs calls s e, Forall wf cs -> Forall tight cs -> Forall2 same_data cs calls -> chain s cs e ->
     exists outs, map_res (fun c => map_res (fun p => out_chunk m (fst (fst p)) (snd (fst p)) (snd p))
                                            (cut (cstart c) (cend c) (h (crows c)))) calls = Ok outs /\
       Forall wf (concat outs) /\ Forall tight (concat outs) /\ chain s (concat outs) e /\
       flat_map crows (concat outs) = flat_map (fun c => h (crows c)) cs /\ uniform (o_dtype m) (o_run m) (concat outs) /\
       (cs <> [] -> concat outs <> []) /\ (cs = [] -> outs = []) /\ (no_trailing e cs -> no_trailing e (concat outs))).
  { clear - L CO. induction cs as [|c cs IH]; intros calls s e W TT F Ch.
    - inversion F; subst. exists []. cbn. repeat split; auto; try constructor; try congruence; try (intros H0; exact H0).
    - inversion F as [|? c' ? calls' (S1 & S2 & S3) F']; subst.
      inversion W as [|? ? Wc Wcs]; subst. inversion TT as [|? ? Tc Tcs]; subst. cbn in Ch. destruct Ch as [Cs Ch].
      pose proof Wc as (C0 & Cse & Csrt & CF).
      destruct (CO m (cstart c') (cend c') (h (crows c'))) as (o & Eo & Hn & Wo & To & Co & Ro & Uo & NTo); try lia.
      { rewrite S3. apply (lc_sorted h L). exact Csrt. }
      { rewrite S1, S2, S3. unfold in_call. apply Forall_forall. intros q Hq.
        pose proof (lc_within h L _ _ _ CF) as Hw. unfold within in Hw. rewrite Forall_forall in Hw. specialize (Hw q Hq).
        destruct (lc_rt h L _ _ Hq) as (r & Hr & Er). unfold tight in Tc. rewrite Forall_forall in Tc. specialize (Tc r Hr). lia. }
      destruct (IH calls' (cend c) e Wcs Tcs F' Ch) as (outs & Em & Wout & Tout & Cho & Rout & Uout & Hne' & Hnil' & NT').
      cbn [map_res]. unfold piece_chunk in Eo. rewrite Eo. cbn [res_bind]. rewrite Em. cbn [res_bind].
      exists (o :: outs). split; [reflexivity|]. cbn [concat]. split; [apply Forall_app; auto|].
      split; [apply Forall_app; auto|]. split.
      { apply chain_app. exists (cend c). split; [|exact Cho]. rewrite <- Cs, <- S1, <- S2. exact Co. }
      split; [rewrite flat_map_app, Ro, Rout, S3; reflexivity|]. split; [apply Forall_app; auto|].
      split; [intros _ Hc; apply app_eq_nil in Hc; tauto|]. split; [discriminate|].
      intros NTc. unfold no_trailing, ends_nt in *. rewrite map_app.
      destruct cs as [|c2 cs2].
      { rewrite (Hnil' eq_refl). cbn [concat map]. rewrite app_nil_r. cbn in Ch. rewrite <- Ch, <- S2. exact NTo. }
      assert (Hlt : cend c < e).
      { cbn [map] in NTc. rewrite removelast_cons in NTc by discriminate. inversion NTc; auto. }
      assert (Hcn : map cend (concat outs) <> []).
      { intros Hm. apply map_eq_nil in Hm. apply Hne'; [discriminate|exact Hm]. }
      rewrite removelast_app by exact Hcn. apply Forall_app. split.
      * apply Forall_map. pose proof (chain_ends_le o (cstart c') (cend c') Wo Co) as Hle.
        eapply Forall_impl; [|exact Hle]. cbn. intros x Hx. rewrite S2 in Hx. lia.
      * apply NT'. cbn [map] in NTc. rewrite removelast_cons in NTc by discriminate. inversion NTc; auto. }
  destruct (HM cs calls a b W TT F Ch) as (outs & Em & Wo & To & Cho & Ro & Uo & Hn & _ & HNT).
  rewrite Em. cbn [res_bind]. exists (concat outs). split; [reflexivity|]. split; [|exact HNT]. split; [|exact Uo].
  split; [apply Hn; exact Hne|]. split; [exact Wo|]. split; [exact To|]. split; [exact Cho|].
  rewrite Ro, <- (lc_flat h L), HR. reflexivity.
Qed.

Theorem run_down_correct m h cut dt run R a b cs :
  local_comp h -> cut_ok cut -> chunking_of dt run R a b cs ->
  exists out, run_down m h cut cs = Ok out /\ chunking_of (o_dtype m) (o_run m) (h R) a b out.
Proof.
  intros L CO HC. apply chunking_of_core in HC as [HC NT].
  destruct (run_down_core m h cut dt run R a b cs L CO HC) as (out & E & HO & HN).
  exists out. split; [exact E|]. apply chunking_of_core. auto.
Qed.
