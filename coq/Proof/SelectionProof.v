(* Property C10: time-range, row and column selections commute with chunking and storage.
   Lemmas over Model/Selection.v. *)
From SV Require Import Model.Rows Model.SplitArray Model.Chunk Model.Selection
  Proof.RowsFacts Proof.SplitArrayProof Proof.ChunkProof.

(* ------------------------------------------------------------------------------------------ *)
(* small list facts                                                                            *)
(* ------------------------------------------------------------------------------------------ *)
Lemma Forall_firstn' {A} (P : A -> Prop) n (l : list A) : Forall P l -> Forall P (firstn n l).
Proof.
  revert n; induction l as [|x l IH]; intros n H; destruct n; cbn; auto.
  inversion H; subst. constructor; auto.
Qed.

Lemma firstn_app_le {A} n (l1 l2 : list A) : (n <= length l1)%nat -> firstn n (l1 ++ l2) = firstn n l1.
Proof.
  intros H. rewrite firstn_app. replace (n - length l1)%nat with 0%nat by lia. cbn. apply app_nil_r.
Qed.

Lemma filter_false_all {A} (f : A -> bool) l : Forall (fun x => f x = false) l -> filter f l = [].
Proof.
  induction l as [|x l IH]; intros H; cbn; [reflexivity|]. inversion H; subst. rewrite H2. auto.
Qed.

Lemma filter_ext_Forall {A} (f g : A -> bool) l : Forall (fun x => f x = g x) l -> filter f l = filter g l.
Proof.
  induction l as [|x l IH]; intros H; cbn; [reflexivity|]. inversion H; subst. rewrite H2, IH; auto.
Qed.

Lemma filter_andb {A} (f g : A -> bool) l : filter (fun x => f x && g x) l = filter g (filter f l).
Proof.
  induction l as [|x l IH]; cbn; [reflexivity|].
  destruct (f x); cbn; [destruct (g x); cbn; rewrite IH; reflexivity | exact IH].
Qed.

Lemma filter_concat {A} (f : A -> bool) ll : filter f (concat ll) = concat (map (filter f) ll).
Proof. induction ll as [|l ll IH]; cbn; [reflexivity|]. rewrite filter_app, IH. reflexivity. Qed.

Lemma map_concat {A B} (f : A -> B) ll : map f (concat ll) = concat (map (map f) ll).
Proof. apply concat_map. Qed.

Lemma flat_map_concat {A B} (f : A -> list B) l : flat_map f l = concat (map f l).
Proof. apply flat_map_concat_map. Qed.

(* ------------------------------------------------------------------------------------------ *)
(* split_array / Chunk.split: rows on the left start strictly before the split time            *)
(* ------------------------------------------------------------------------------------------ *)
Lemma sa_scan_left_lt : forall rs pre t les spl ex les' spl',
  sa_scan rs (length pre) t les spl = (ex, les', spl') ->
  Forall (fun q => rt q < t) pre -> (spl <= length pre)%nat ->
  Forall (fun q => rt q < t) (firstn spl' (pre ++ rs)).
Proof.
  induction rs as [|d rs IH]; intros pre t les spl ex les' spl' Hs Hp Hspl.
  - cbn in Hs. inversion Hs; subst. rewrite app_nil_r. apply Forall_firstn'. exact Hp.
  - cbn [sa_scan] in Hs.
    set (spl2 := if rt d >=? les then length pre else spl) in *.
    assert (Hspl2 : (spl2 <= length pre)%nat) by (unfold spl2; destruct (rt d >=? les); lia).
    destruct (rt d >=? t) eqn:Et.
    + inversion Hs; subst. rewrite firstn_app_le by exact Hspl2. apply Forall_firstn'. exact Hp.
    + destruct (Z.max les (re d) >? t) eqn:El.
      * inversion Hs; subst. rewrite firstn_app_le by exact Hspl2. apply Forall_firstn'. exact Hp.
      * replace (pre ++ d :: rs) with ((pre ++ [d]) ++ rs) by (rewrite <- app_assoc; reflexivity).
        apply (IH (pre ++ [d]) t (Z.max les (re d)) spl2 ex les' spl').
        -- rewrite app_length. cbn [length]. rewrite Nat.add_1_r. exact Hs.
        -- apply Forall_app; split; [exact Hp|]. constructor; [lia|constructor].
        -- rewrite app_length. cbn [length]. lia.
Qed.

Lemma sa_scan_end_lt : forall rs i t les spl les' spl',
  sa_scan rs i t les spl = (ExEnd, les', spl') -> Forall (fun q => rt q < t) rs.
Proof.
  induction rs as [|d rs IH]; intros i t les spl les' spl' Hs; [constructor|].
  cbn [sa_scan] in Hs.
  destruct (rt d >=? t) eqn:Et; [discriminate|].
  destruct (Z.max les (re d) >? t) eqn:El; [discriminate|].
  constructor; [lia|]. eapply IH. exact Hs.
Qed.

Lemma split_array_left_lt rs t early l r t' :
  split_array rs t early = Some (l, r, t') -> Forall (fun q => rt q < t) l.
Proof.
  unfold split_array. destruct rs as [|d0 rs0] eqn:Ers.
  { intros H; inversion H; subst. constructor. }
  rewrite <- Ers. destruct (rt d0 >=? t) eqn:E0.
  { intros H; inversion H; subst. constructor. }
  destruct (sa_scan rs 0 t (-1) 0) as [[ex les] spl] eqn:Escan.
  assert (HL : Forall (fun q => rt q < t) (firstn spl rs)).
  { apply (sa_scan_left_lt rs [] t (-1) 0%nat ex les spl); [exact Escan|constructor|cbn; lia]. }
  destruct ex as [k| |].
  - destruct (negb (Nat.eqb spl k) || (les >? t)).
    + destruct early; intros H; inversion H; subst; exact HL.
    + intros H; inversion H; subst; exact HL.
  - cbn [negb orb]. destruct early; intros H; inversion H; subst; exact HL.
  - intros H; inversion H; subst. eapply sa_scan_end_lt. exact Escan.
Qed.

Definition clamp (c : chunk) (x : Z) : Z := Z.max (Z.min x (cend c)) (cstart c).

Lemma chunk_split_left_lt c x early a b :
  chunk_split c x early = Ok (a, b) -> clamp c x < cend c ->
  Forall (fun q => rt q < clamp c x) (crows a).
Proof.
  unfold chunk_split, clamp. set (t := Z.max (Z.min x (cend c)) (cstart c)).
  intros H Hlt. destruct (t =? cend c) eqn:Ee; [lia|].
  assert (Hgen : forall d1 d2 t'',
             (do c1 <- mk_chunk (cstart c) (Z.max (cstart c) t'') d1 (cdtype c) (ckind c) (crun c) (ctarget c);
              do c2 <- mk_chunk (Z.max (cstart c) t'') (Z.max t'' (cend c)) d2 (cdtype c) (ckind c) (crun c) (ctarget c);
              Ok (c1, c2)) = Ok (a, b) -> crows a = d1).
  { intros d1 d2 t'' HH.
    destruct (mk_chunk (cstart c) (Z.max (cstart c) t'') d1 (cdtype c) (ckind c) (crun c) (ctarget c)) as [c1|e] eqn:E1;
      cbn [res_bind] in HH; [|discriminate].
    destruct (mk_chunk (Z.max (cstart c) t'') (Z.max t'' (cend c)) d2 (cdtype c) (ckind c) (crun c) (ctarget c)) as [c2|e] eqn:E2;
      cbn [res_bind] in HH; [|discriminate].
    inversion HH; subst. apply mk_chunk_inv in E1. subst. reflexivity. }
  destruct (t =? cstart c) eqn:Es.
  - apply Hgen in H. rewrite H. constructor.
  - destruct (split_array (crows c) t early) as [[[l r] t']|] eqn:Esp; [|discriminate].
    apply Hgen in H. rewrite H. eapply split_array_left_lt. exact Esp.
Qed.

(* ------------------------------------------------------------------------------------------ *)
(* StorageBackend.apply_time_range on one well-formed chunk                                     *)
(* ------------------------------------------------------------------------------------------ *)
Lemma atr_left c t0 :
  wf c -> t0 < cend c ->
  exists c1,
    (if cstart c <? t0 then do '(_, r) <- chunk_split c t0 true; Ok r else Ok c) = Ok c1 /\
    wf c1 /\ crun c1 = crun c /\ cend c1 = cend c /\
    (t0 <= cstart c -> c1 = c) /\ (cstart c < t0 -> cstart c1 <= t0) /\
    exists dl, crows c = dl ++ crows c1 /\ Forall (fun r => re r <= t0 /\ rt r < t0) dl.
Proof.
  intros Hwf Hend. destruct (cstart c <? t0) eqn:Es.
  2:{ exists c. split; [reflexivity|]. split; [exact Hwf|]. split; [reflexivity|]. split; [reflexivity|].
      split; [reflexivity|]. split; [lia|]. exists []. split; [reflexivity|constructor]. }
  pose proof (chunk_split_correct c t0 true Hwf) as HP.
  assert (Hcl : clamp c t0 = t0) by (unfold clamp; lia).
  destruct (chunk_split c t0 true) as [[a b]|e] eqn:Esp.
  2:{ cbn in HP. destruct HP as (_ & Hf & _). discriminate. }
  cbn in HP. destruct HP as (Wa & Wb & A1 & A2 & A3 & A4 & _ & (_ & _ & M3 & _) & A5 & _).
  fold (clamp c t0) in A5. rewrite Hcl in A5.
  exists b. cbn [res_bind]. split; [reflexivity|]. split; [exact Wb|]. split; [exact M3|]. split; [exact A3|].
  split; [lia|]. split; [lia|].
  exists (crows a). split; [symmetry; exact A4|].
  pose proof (chunk_split_left_lt c t0 true a b Esp) as HL. rewrite Hcl in HL. specialize (HL Hend).
  destruct Wa as (_ & _ & _ & HFa).
  apply Forall_forall. intros r Hr. rewrite Forall_forall in HL, HFa.
  specialize (HL r Hr). specialize (HFa r Hr). cbn in HFa. lia.
Qed.

Lemma atr_right c1 t1 :
  wf c1 ->
  exists c',
    (if cend c1 >? t1 then
       match chunk_split c1 t1 false with
       | Ok (l, _) => Ok l
       | Err e => if e =? E_CANNOT_SPLIT then Ok c1 else Err e
       end
     else Ok c1) = Ok c' /\
    wf c' /\ crun c' = crun c1 /\ cstart c' = cstart c1 /\ (cend c1 <= t1 -> c' = c1) /\
    exists dr, crows c1 = crows c' ++ dr /\ Forall (fun r => t1 <= rt r) dr /\
      (dr <> [] -> t1 < cend c1 /\ forall q, In q (crows c1) -> ~ straddles q t1) /\
      (forall r, In r (crows c') -> rt r = t1 -> cstart c1 <= t1 -> t1 < cend c1 ->
                 exists q, In q (crows c1) /\ straddles q t1).
Proof.
  intros Hwf. destruct (cend c1 >? t1) eqn:Ee.
  2:{ exists c1. split; [reflexivity|]. split; [exact Hwf|]. split; [reflexivity|]. split; [reflexivity|].
      split; [reflexivity|]. exists []. rewrite app_nil_r. split; [reflexivity|]. split; [constructor|].
      split; [intros H; congruence|]. intros; lia. }
  pose proof (chunk_split_correct c1 t1 false Hwf) as HP.
  destruct (chunk_split c1 t1 false) as [[l r']|e] eqn:Esp.
  - cbn in HP. destruct HP as (Wl & Wr & A1 & A2 & A3 & A4 & (_ & _ & M3 & _) & _ & A5 & A6 & _).
    specialize (A6 eq_refl). fold (clamp c1 t1) in A5, A6.
    exists l. split; [reflexivity|]. split; [exact Wl|]. split; [exact M3|]. split; [exact A1|].
    split; [lia|].
    exists (crows r'). split; [symmetry; exact A4|].
    assert (Hcl : t1 <= clamp c1 t1) by (unfold clamp; lia).
    destruct Wl as (_ & _ & _ & HFl). destruct Wr as (_ & _ & _ & HFr).
    split; [|split; [intros _; split|]].
    + apply Forall_forall. intros r Hr. rewrite Forall_forall in HFr. specialize (HFr r Hr). cbn in HFr. lia.
    + lia.
    + intros q Hq [Hq1 Hq2]. rewrite <- A4 in Hq. apply in_app_or in Hq as [Hq|Hq].
      * rewrite Forall_forall in HFl. specialize (HFl q Hq). cbn in HFl.
        assert (re q <= clamp c1 t1) by lia.
        unfold clamp in *. lia.
      * rewrite Forall_forall in HFr. specialize (HFr q Hq). cbn in HFr. lia.
    + intros r Hr Hrt Hst Hlt. exfalso.
      assert (Hcl2 : clamp c1 t1 = t1) by (unfold clamp; lia).
      pose proof (chunk_split_left_lt c1 t1 false l r' Esp) as HL. rewrite Hcl2 in HL. specialize (HL Hlt).
      rewrite Forall_forall in HL. specialize (HL r Hr). lia.
  - cbn in HP. destruct HP as (-> & _ & q & Hq & Hstr). rewrite Z.eqb_refl.
    exists c1. split; [reflexivity|]. split; [exact Hwf|]. split; [reflexivity|]. split; [reflexivity|].
    split; [reflexivity|]. exists []. rewrite app_nil_r. split; [reflexivity|]. split; [constructor|].
    split; [intros H; congruence|].
    + intros r Hr Hrt Hst Hlt. exists q. split; [exact Hq|].
      fold (clamp c1 t1) in Hstr. replace (clamp c1 t1) with t1 in Hstr by (unfold clamp; lia). exact Hstr.
Qed.

Definition atr_post (c : chunk) (t0 t1 : Z) (c' : chunk) : Prop :=
  wf c' /\ crun c' = crun c /\
  (t0 <= cstart c -> cstart c' = cstart c) /\ (cend c <= t1 -> cend c' = cend c) /\
  exists dl dr, crows c = dl ++ crows c' ++ dr /\
    Forall (fun r => re r <= t0 /\ rt r < t0) dl /\
    Forall (fun r => t1 <= rt r) dr /\
    (dr <> [] -> t1 < cend c /\ (t0 <= t1 -> forall q, In q (crows c) -> ~ straddles q t1)) /\
    (forall r, In r (crows c') -> rt r = t1 -> t0 <= t1 -> t1 < cend c ->
               exists q, In q (crows c) /\ straddles q t1).

Lemma apply_time_range_spec c t0 t1 :
  wf c -> pruned t0 t1 c = false ->
  exists c', apply_time_range c t0 t1 = Ok c' /\ atr_post c t0 t1 c'.
Proof.
  intros Hwf Hnp. unfold pruned in Hnp. apply orb_false_iff in Hnp as [Hn1 Hn2].
  assert (Hend : t0 < cend c) by lia. assert (Hst : cstart c < t1) by lia.
  destruct (atr_left c t0 Hwf Hend) as (c1 & E1 & W1 & R1 & B1 & S1 & S2 & dl & Hdl & HFdl).
  destruct (atr_right c1 t1 W1) as (c' & E2 & W2 & R2 & B2 & S3 & dr & Hdr & HFdr & Hdr1 & Hdr2).
  exists c'. split.
  { unfold apply_time_range. rewrite E1. cbn [res_bind]. exact E2. }
  unfold atr_post. split; [exact W2|]. split; [congruence|].
  split. { intros H. rewrite B2. rewrite (S1 H). reflexivity. }
  split. { intros H. rewrite S3 by lia. exact B1. }
  exists dl, dr. split; [rewrite Hdl, Hdr; reflexivity|]. split; [exact HFdl|]. split; [exact HFdr|].
  split.
  - intros Hne. destruct (Hdr1 Hne) as [Hlt Hno]. split; [lia|].
    intros H01 q Hq Hstr. rewrite Hdl in Hq. apply in_app_or in Hq as [Hq|Hq].
    + rewrite Forall_forall in HFdl. specialize (HFdl q Hq). destruct Hstr. lia.
    + exact (Hno q Hq Hstr).
  - intros r Hr Hrt H01 Hlt.
    assert (Hc1 : cstart c1 <= t1).
    { destruct (Z_lt_dec (cstart c) t0) as [Hl|Hl]; [specialize (S2 Hl); lia|].
      rewrite (S1 ltac:(lia)). lia. }
    destruct (Hdr2 r Hr Hrt Hc1 ltac:(lia)) as (q & Hq & Hstr).
    exists q. split; [|exact Hstr]. rewrite Hdl. apply in_or_app. right. exact Hq.
Qed.

(* ------------------------------------------------------------------------------------------ *)
(* which rows of a stored chunk survive loading + time selection                               *)
(* ------------------------------------------------------------------------------------------ *)
Definition tk (m : tmode) (t0 t1 : Z) : row -> bool := time_keep row rt re m t0 t1.
Definition lostm (m : tmode) (t0 t1 : Z) (c : chunk) (r : row) : bool :=
  match m with FC => lost t0 t1 c r | _ => false end.
Definition notlost (m : tmode) (t0 t1 : Z) (c : chunk) (r : row) : bool := negb (lostm m t0 t1 c r).
Definition keepf (m : tmode) (t0 t1 : Z) (c : chunk) (r : row) : bool := notlost m t0 t1 c r && tk m t0 t1 r.
Definition np (t0 t1 : Z) (c : chunk) : bool := negb (pruned t0 t1 c).

Definition time_mode (m : tmode) : Prop := m = FC \/ m = Touching.

Lemma straddlesb_iff q x : straddlesb q x = true <-> straddles q x.
Proof. unfold straddlesb, straddles. lia. Qed.

Lemma existsb_straddle_false rows x :
  (forall q, In q rows -> ~ straddles q x) -> existsb (fun q => straddlesb q x) rows = false.
Proof.
  intros H. destruct (existsb (fun q => straddlesb q x) rows) eqn:E; [|reflexivity].
  apply existsb_exists in E as (q & Hq & Hs). apply straddlesb_iff in Hs. exfalso. exact (H q Hq Hs).
Qed.

Lemma existsb_straddle_true rows x q :
  In q rows -> straddles q x -> existsb (fun q => straddlesb q x) rows = true.
Proof. intros Hq Hs. apply existsb_exists. exists q. split; [exact Hq|]. apply straddlesb_iff. exact Hs. Qed.

(* a loaded (not pruned) chunk: exactly the not-lost rows pass the time selection *)
Lemma loaded_chunk_rows m t0 t1 c c' :
  time_mode m -> wf c -> pruned t0 t1 c = false -> atr_post c t0 t1 c' ->
  filter (tk m t0 t1) (crows c') = filter (keepf m t0 t1 c) (crows c).
Proof.
  intros Hm Hwf Hnp (W' & _ & _ & _ & dl & dr & Hrows & HFdl & HFdr & Hdr & HK).
  unfold pruned in Hnp. apply orb_false_iff in Hnp as [Hn1 Hn2].
  destruct Hwf as (_ & _ & _ & HFc).
  assert (HFc' : Forall (fun r => rt r <= re r) (crows c)).
  { eapply Forall_impl; [|exact HFc]. cbn; intros; lia. }
  rewrite Hrows in HFc'. apply Forall_app in HFc' as [Fdl Frest]. apply Forall_app in Frest as [Fc' Fdr].
  rewrite Hrows, !filter_app.
  rewrite (filter_false_all (keepf m t0 t1 c) dl).
  2:{ apply Forall_forall. intros r Hr. rewrite Forall_forall in HFdl. specialize (HFdl r Hr).
      unfold keepf, tk, time_keep. destruct Hm as [-> | ->]; [|]; lia. }
  rewrite (filter_false_all (keepf m t0 t1 c) dr).
  2:{ apply Forall_forall. intros r Hr. rewrite Forall_forall in HFdr, Fdr.
      specialize (HFdr r Hr). specialize (Fdr r Hr). cbn in Fdr.
      unfold keepf, tk, time_keep. destruct Hm as [-> | ->]; [|unfold notlost, lostm; lia].
      destruct ((t0 <=? rt r) && (re r <=? t1)) eqn:Etk; [|lia].
      assert (Hne : dr <> []) by (intros ->; destruct Hr).
      destruct (Hdr Hne) as [Hlt Hno]. specialize (Hno ltac:(lia)).
      apply existsb_straddle_false in Hno.
      unfold notlost, lostm, lost, pruned. rewrite Hno. lia. }
  cbn [app]. rewrite app_nil_r.
  apply filter_ext_Forall. apply Forall_forall. intros r Hr.
  unfold keepf. destruct (tk m t0 t1 r) eqn:Etk; [|lia].
  rewrite andb_true_r. unfold notlost, lostm. destruct Hm as [-> | ->]; [|reflexivity].
  destruct (lost t0 t1 c r) eqn:El; [|reflexivity]. exfalso.
  unfold tk, time_keep in Etk. unfold lost, pruned in El.
  destruct (existsb (fun q => straddlesb q t1) (crows c)) eqn:Eex.
  - lia.
  - assert (Hrt : rt r = t1) by lia.
    destruct (HK r Hr Hrt ltac:(lia) ltac:(lia)) as (q & Hq & Hs).
    rewrite (existsb_straddle_true _ _ q Hq Hs) in Eex. discriminate.
Qed.

(* a pruned chunk: every row that passes the time selection is a lost one *)
Lemma pruned_chunk_rows m t0 t1 c :
  time_mode m -> wf c -> pruned t0 t1 c = true -> filter (keepf m t0 t1 c) (crows c) = [].
Proof.
  intros Hm (_ & _ & _ & HFc) Hp. apply filter_false_all. apply Forall_forall. intros r Hr.
  rewrite Forall_forall in HFc. specialize (HFc r Hr). cbn in HFc.
  unfold keepf, notlost, lostm, tk, time_keep, lost. rewrite Hp. unfold pruned in Hp.
  destruct Hm as [-> | ->]; lia.
Qed.

(* ------------------------------------------------------------------------------------------ *)
(* the loader                                                                                  *)
(* ------------------------------------------------------------------------------------------ *)
Lemma load_chunks_spec t0 t1 cs :
  Forall wf cs ->
  exists loaded, load_chunks t0 t1 cs = Ok loaded /\
                 Forall2 (fun c c' => atr_post c t0 t1 c') (filter (np t0 t1) cs) loaded.
Proof.
  induction cs as [|c rest IH]; intros HF.
  - exists []. split; [reflexivity|constructor].
  - inversion HF as [|? ? Hc Hrest]; subst. destruct (IH Hrest) as (l' & El & F2).
    cbn [load_chunks filter]. unfold np at 1. destruct (pruned t0 t1 c) eqn:Ep; cbn [negb].
    + exists l'. split; [exact El|exact F2].
    + destruct (apply_time_range_spec c t0 t1 Hc Ep) as (c' & Ec & Hpost).
      exists (c' :: l'). rewrite Ec, El. cbn [res_bind]. split; [reflexivity|]. constructor; auto.
Qed.

Lemma loaded_rows m t0 t1 cs loaded :
  time_mode m -> Forall wf cs ->
  Forall2 (fun c c' => atr_post c t0 t1 c') (filter (np t0 t1) cs) loaded ->
  concat (map (fun c' => filter (tk m t0 t1) (crows c')) loaded) =
  concat (map (fun c => filter (keepf m t0 t1 c) (crows c)) cs).
Proof.
  intros Hm. revert loaded. induction cs as [|c rest IH]; intros loaded HF F2.
  - cbn in F2. inversion F2; subst. reflexivity.
  - inversion HF as [|? ? Hc Hrest]; subst. cbn [filter] in F2. unfold np at 1 in F2.
    destruct (pruned t0 t1 c) eqn:Ep; cbn [negb] in F2.
    + cbn [map concat]. rewrite (pruned_chunk_rows m t0 t1 c Hm Hc Ep). cbn [app]. apply IH; auto.
    + inversion F2 as [|? c' ? l' Hpost F2']; subst. cbn [map concat].
      rewrite (loaded_chunk_rows m t0 t1 c c' Hm Hc Ep Hpost). f_equal. apply IH; auto.
Qed.

Lemma filter_np_nil t0 t1 cs : filter (np t0 t1) cs = [] <-> forallb (pruned t0 t1) cs = true.
Proof.
  induction cs as [|c rest IH]; cbn; [tauto|]. unfold np at 1.
  destruct (pruned t0 t1 c); cbn; [exact IH|]. split; intros H; discriminate.
Qed.

(* ------------------------------------------------------------------------------------------ *)
(* contiguity                                                                                  *)
(* ------------------------------------------------------------------------------------------ *)
Fixpoint contig (cs : list chunk) : Prop :=
  match cs with
  | [] => True
  | c :: rest =>
      match rest with [] => True | d :: _ => cend c = cstart d /\ crun d = crun c end /\ contig rest
  end.

Lemma opt_eqb_refl o : opt_eqb o o = true.
Proof. destruct o; cbn; [apply Z.eqb_refl|reflexivity]. Qed.

Lemma continuity_from_contig : forall rest c i,
  contig (c :: rest) -> continuity_from (Some (cend c)) (crun c) i rest = None.
Proof.
  induction rest as [|d rest IH]; intros c i H; [reflexivity|].
  cbn [contig] in H. destruct H as [[He Hr] Hrest].
  cbn [continuity_from]. rewrite Hr, opt_eqb_refl. rewrite <- He, Z.eqb_refl. cbn [negb].
  rewrite <- Hr at 1. apply IH. exact Hrest.
Qed.

Lemma contig_continuity cs : contig cs -> continuity_check cs = None.
Proof.
  destruct cs as [|c rest]; [reflexivity|]. intros H. unfold continuity_check. cbn [continuity_from].
  assert (E : (if opt_eqb (crun c) None then @None Z else None) = None) by (destruct (opt_eqb (crun c) None); reflexivity).
  rewrite E. apply continuity_from_contig. exact H.
Qed.

Lemma starts_mono : forall l c, Forall wf (c :: l) -> contig (c :: l) -> Forall (fun y => cend c <= cstart y) l.
Proof.
  induction l as [|d l IH]; intros c HF HC; [constructor|].
  inversion HF as [|? ? Hc HF']; subst. cbn [contig] in HC. destruct HC as [[He _] HC'].
  specialize (IH d HF' HC'). inversion HF' as [|? ? Hd _]; subst.
  destruct Hd as (_ & Hse & _). constructor; [lia|].
  eapply Forall_impl; [|exact IH]. cbn. intros; lia.
Qed.

Lemma filter_np_contig t0 t1 cs : Forall wf cs -> contig cs -> contig (filter (np t0 t1) cs).
Proof.
  induction cs as [|c rest IH]; intros HF HC; [exact I|].
  inversion HF as [|? ? Hc HF']; subst. pose proof HC as HC0. cbn [contig] in HC. destruct HC as [Hhd HC'].
  specialize (IH HF' HC'). cbn [filter]. destruct (np t0 t1 c) eqn:En; [|exact IH].
  cbn [contig]. split; [|exact IH].
  destruct rest as [|x rest']; [exact I|]. destruct Hhd as [He Hr].
  cbn [filter]. destruct (np t0 t1 x) eqn:Ex; [split; assumption|].
  (* x is pruned although c is not: everything after x is pruned as well *)
  assert (Hall : filter (np t0 t1) rest' = []).
  { apply filter_false_all. inversion HF' as [|? ? Hx HF'']; subst.
    pose proof (starts_mono rest' x HF' HC') as Hm.
    apply Forall_forall. intros y Hy. rewrite Forall_forall in Hm. specialize (Hm y Hy).
    destruct Hx as (_ & Hxse & _). unfold np, pruned in *. lia. }
  rewrite Hall. exact I.
Qed.

Lemma Forall2_contig t0 t1 ks loaded :
  Forall2 (fun c c' => atr_post c t0 t1 c') ks loaded ->
  contig ks -> Forall (fun c => np t0 t1 c = true) ks -> contig loaded.
Proof.
  induction 1 as [|c c' ks' l' Hpost F2 IH]; intros HC HN; [exact I|].
  inversion HN as [|? ? Hnc HN']; subst. cbn [contig] in HC. destruct HC as [Hhd HC'].
  cbn [contig]. split; [|apply IH; assumption].
  destruct F2 as [|d d' ks'' l'' Hpostd F2']; [exact I|].
  destruct Hhd as [He Hr]. inversion HN' as [|? ? Hnd _]; subst.
  destruct Hpost as (_ & Rc & _ & Ec & _). destruct Hpostd as (_ & Rd & Sd & _).
  unfold np, pruned in Hnc, Hnd. split; [rewrite Ec, Sd; lia|congruence].
Qed.

Lemma filter_all_true {A} (f : A -> bool) l : Forall (fun x => f x = true) (filter f l).
Proof. apply Forall_forall. intros x Hx. apply filter_In in Hx. tauto. Qed.

(* ------------------------------------------------------------------------------------------ *)
(* apply_selection and the chunk loop of get_iter                                              *)
(* ------------------------------------------------------------------------------------------ *)
(* the row-independent part of apply_selection: the keep/drop conflict and the column list *)
Definition sel_head (keep drop : option (list Z)) : res (list Z) :=
  if is_nonempty drop && is_nonempty keep then Err E_KEEP_DROP else out_fields row_fields keep drop.

Definition proj (fs : list Z) (r : row) : list Z := map (row_fval r) fs.

Lemma apply_selection_rows_unfold t0 t1 m p keep drop xs :
  time_mode m ->
  apply_selection_rows (Some (t0, t1)) m p keep drop xs =
  do fs <- sel_head keep drop; Ok (fs, map (proj fs) (filter p (filter (tk m t0 t1) xs))).
Proof.
  intros Hm. unfold apply_selection_rows, apply_selection, sel_head.
  destruct (is_nonempty drop && is_nonempty keep); [reflexivity|].
  destruct Hm as [-> | ->]; cbn [res_bind]; reflexivity.
Qed.

Lemma mapM_ok {A B} (f : A -> res B) (g : A -> B) l :
  (forall x, In x l -> f x = Ok (g x)) -> mapM f l = Ok (map g l).
Proof.
  induction l as [|x l IH]; intros H; cbn; [reflexivity|].
  rewrite (H x (or_introl eq_refl)). cbn [res_bind]. rewrite IH; [reflexivity|].
  intros y Hy. apply H. right. exact Hy.
Qed.

Lemma collect_spec t0 t1 m p keep drop code xss :
  time_mode m -> xss <> [] ->
  collect row (apply_selection_rows (Some (t0, t1)) m p keep drop) code xss =
  do fs <- sel_head keep drop;
  Ok (fs, map (proj fs) (filter p (concat (map (filter (tk m t0 t1)) xss)))).
Proof.
  intros Hm Hne. unfold collect.
  destruct (sel_head keep drop) as [fs|e] eqn:Eh; cbn [res_bind].
  - set (g := fun xs : list row => (fs, map (proj fs) (filter p (filter (tk m t0 t1) xs)))).
    assert (E : concat (map snd (map g xss)) = map (proj fs) (filter p (concat (map (filter (tk m t0 t1)) xss)))).
    { rewrite map_map. unfold g. cbn [snd]. rewrite filter_concat, map_concat, !map_map. reflexivity. }
    rewrite (mapM_ok _ g).
    2:{ intros xs _. rewrite apply_selection_rows_unfold by exact Hm. rewrite Eh. reflexivity. }
    cbn [res_bind]. rewrite <- E.
    destruct xss as [|x0 xss']; [congruence|].
    change (map g (x0 :: xss')) with (g x0 :: map g xss'). cbv beta iota. reflexivity.
  - destruct xss as [|x0 xss']; [congruence|]. cbn [mapM].
    rewrite apply_selection_rows_unfold by exact Hm. rewrite Eh. reflexivity.
Qed.

(* the data a time-range request can see: everything but the lost rows *)
Definition visible_rows (m : tmode) (t0 t1 : Z) (cs : list chunk) : list row :=
  flat_map (fun c => filter (notlost m t0 t1 c) (crows c)) cs.

(* Exact characterisation of get_array with a time range on a stored, continuous stream *)
Theorem selection_characterised cs t0 t1 m p keep drop :
  time_mode m -> Forall wf cs -> contig cs ->
  get_array_abs cs (Some (t0, t1)) m p keep drop =
  if forallb (pruned t0 t1) cs then Err E_NO_CHUNK
  else apply_selection_rows (Some (t0, t1)) m p keep drop (visible_rows m t0 t1 cs).
Proof.
  intros Hm HF HC. unfold get_array_abs, load.
  destruct (load_chunks_spec t0 t1 cs HF) as (loaded & El & F2). rewrite El. cbn [res_bind no_chunk_code].
  destruct (forallb (pruned t0 t1) cs) eqn:Eall.
  - apply filter_np_nil in Eall. rewrite Eall in F2. inversion F2; subst. reflexivity.
  - assert (Hne : loaded <> []).
    { intros ->. inversion F2 as [Hnil|]; subst. symmetry in Hnil. apply filter_np_nil in Hnil. congruence. }
    rewrite collect_spec; [|exact Hm|destruct loaded; [congruence|discriminate]].
    rewrite apply_selection_rows_unfold by exact Hm.
    destruct (sel_head keep drop) as [fs|e]; cbn [res_bind]; [|reflexivity].
    assert (Hcont : continuity_check loaded = None).
    { apply contig_continuity. eapply Forall2_contig; [exact F2| |apply filter_all_true].
      apply filter_np_contig; assumption. }
    rewrite Hcont. f_equal. f_equal. f_equal. f_equal.
    rewrite map_map. rewrite (loaded_rows m t0 t1 cs loaded Hm HF F2).
    unfold visible_rows. rewrite flat_map_concat, filter_concat, map_map.
    f_equal. apply map_ext. intros c. unfold keepf. apply filter_andb.
Qed.

(* ------------------------------------------------------------------------------------------ *)
(* consequences                                                                                *)
(* ------------------------------------------------------------------------------------------ *)
Definition no_lost_row (m : tmode) (t0 t1 : Z) (p : row -> bool) (cs : list chunk) : Prop :=
  forall c r, In c cs -> In r (crows c) -> lostm m t0 t1 c r && p r = false.

Lemma visible_all m t0 t1 cs :
  (forall c r, In c cs -> In r (crows c) -> lostm m t0 t1 c r = false) -> visible_rows m t0 t1 cs = all_rows cs.
Proof.
  intros H. unfold visible_rows, all_rows. induction cs as [|c rest IH]; [reflexivity|].
  cbn [flat_map]. rewrite IH by (intros; apply H; [right|]; assumption). f_equal.
  rewrite (filter_ext_Forall _ (fun _ => true)).
  - clear. induction (crows c) as [|x l IHl]; cbn; [reflexivity|]. rewrite IHl. reflexivity.
  - apply Forall_forall. intros r Hr. unfold notlost. rewrite (H c r (or_introl eq_refl) Hr). reflexivity.
Qed.

(* lost rows are always rows the fully_contained selection keeps *)
Lemma lost_is_selected t0 t1 c r : lost t0 t1 c r = true -> tk FC t0 t1 r = true.
Proof. unfold lost, tk, time_keep. lia. Qed.

Lemma filter_p_visible m t0 t1 p cs :
  no_lost_row m t0 t1 p cs ->
  filter p (filter (tk m t0 t1) (visible_rows m t0 t1 cs)) = filter p (filter (tk m t0 t1) (all_rows cs)).
Proof.
  intros H. unfold visible_rows, all_rows. induction cs as [|c rest IH]; [reflexivity|].
  cbn [flat_map]. rewrite !filter_app. rewrite IH by (intros c' r Hc Hr; apply H; [right|]; assumption).
  f_equal. rewrite <- !filter_andb.
  apply filter_ext_Forall. apply Forall_forall. intros r Hr.
  specialize (H c r (or_introl eq_refl) Hr). unfold notlost. destruct (lostm m t0 t1 c r); cbn in *; [|reflexivity].
  rewrite H. rewrite ?andb_false_r. reflexivity.
Qed.

Theorem selection_commutes_partial cs t0 t1 m p keep drop :
  time_mode m -> Forall wf cs -> contig cs -> no_lost_row m t0 t1 p cs ->
  get_array_abs cs (Some (t0, t1)) m p keep drop =
  if forallb (pruned t0 t1) cs then Err E_NO_CHUNK
  else select_full cs (Some (t0, t1)) m p keep drop.
Proof.
  intros Hm HF HC HN. rewrite selection_characterised by assumption.
  destruct (forallb (pruned t0 t1) cs); [reflexivity|].
  unfold select_full. rewrite !apply_selection_rows_unfold by exact Hm.
  rewrite (filter_p_visible m t0 t1 p cs HN). reflexivity.
Qed.

(* touching mode commutes unconditionally *)
Theorem selection_commutes_touching cs t0 t1 p keep drop :
  Forall wf cs -> contig cs ->
  get_array_abs cs (Some (t0, t1)) Touching p keep drop =
  if forallb (pruned t0 t1) cs then Err E_NO_CHUNK
  else select_full cs (Some (t0, t1)) Touching p keep drop.
Proof.
  intros HF HC. apply selection_commutes_partial; auto; [right; reflexivity|].
  intros c r _ _. reflexivity.
Qed.

(* fully_contained mode commutes when no zero-length row sits exactly on an edge of the range *)
Theorem selection_commutes_no_edge_rows cs t0 t1 p keep drop :
  Forall wf cs -> contig cs ->
  (forall r, In r (all_rows cs) -> rt r = re r -> rt r <> t0 /\ rt r <> t1) ->
  get_array_abs cs (Some (t0, t1)) FC p keep drop =
  if forallb (pruned t0 t1) cs then Err E_NO_CHUNK
  else select_full cs (Some (t0, t1)) FC p keep drop.
Proof.
  intros HF HC HE. apply selection_commutes_partial; auto; [left; reflexivity|].
  intros c r Hc Hr. cbn [lostm]. destruct (lost t0 t1 c r) eqn:El; [|reflexivity]. exfalso.
  assert (Hin : In r (all_rows cs)).
  { unfold all_rows. apply in_flat_map. exists c. split; assumption. }
  unfold lost in El. destruct (HE r Hin ltac:(lia)). lia.
Qed.

(* empty result versus explicit error *)
Theorem no_chunk_is_error cs t0 t1 m p keep drop :
  forallb (pruned t0 t1) cs = true -> Forall wf cs ->
  get_array_abs cs (Some (t0, t1)) m p keep drop = Err E_NO_CHUNK.
Proof.
  intros Hall HF. unfold get_array_abs, load.
  destruct (load_chunks_spec t0 t1 cs HF) as (loaded & El & F2). rewrite El. cbn [res_bind].
  apply filter_np_nil in Hall. rewrite Hall in F2. inversion F2; subst. reflexivity.
Qed.

Lemma visible_incl m t0 t1 cs x : In x (visible_rows m t0 t1 cs) -> In x (all_rows cs).
Proof.
  unfold visible_rows, all_rows. rewrite !in_flat_map. intros (c & Hc & Hx).
  exists c. split; [exact Hc|]. apply filter_In in Hx. tauto.
Qed.

Lemma nil_of_no_In {A} (l : list A) : (forall x, ~ In x l) -> l = [].
Proof. destruct l as [|x l]; [reflexivity|]. intros H. exfalso. apply (H x). left. reflexivity. Qed.

Theorem empty_not_error cs t0 t1 m p keep drop fs :
  time_mode m -> Forall wf cs -> contig cs ->
  forallb (pruned t0 t1) cs = false ->
  select_full cs (Some (t0, t1)) m p keep drop = Ok (fs, []) ->
  get_array_abs cs (Some (t0, t1)) m p keep drop = Ok (fs, []).
Proof.
  intros Hm HF HC Hov Hsel. rewrite selection_characterised by assumption. rewrite Hov.
  unfold select_full in Hsel. rewrite apply_selection_rows_unfold in * by exact Hm.
  destruct (sel_head keep drop) as [fs'|e]; cbn [res_bind] in *; [|discriminate].
  assert (Hfs : fs' = fs) by congruence.
  assert (Hrows : map (proj fs') (filter p (filter (tk m t0 t1) (all_rows cs))) = []) by congruence.
  clear Hsel. subst fs'. apply map_eq_nil in Hrows.
  rewrite (nil_of_no_In (filter p (filter (tk m t0 t1) (visible_rows m t0 t1 cs)))); [reflexivity|].
  intros x Hx. apply filter_In in Hx as [Hx Hp]. apply filter_In in Hx as [Hx Ht].
  apply visible_incl in Hx.
  assert (Hin : In x (filter p (filter (tk m t0 t1) (all_rows cs)))).
  { apply filter_In. split; [|exact Hp]. apply filter_In. split; assumption. }
  rewrite Hrows in Hin. destruct Hin.
Qed.

(* ------------------------------------------------------------------------------------------ *)
(* exactness: the lost rows are precisely what breaks the commutation                          *)
(* ------------------------------------------------------------------------------------------ *)
Lemma length_filter_le {A} (f g : A -> bool) l :
  (forall x, In x l -> f x = true -> g x = true) -> (length (filter f l) <= length (filter g l))%nat.
Proof.
  induction l as [|x l IH]; intros H; cbn; [lia|].
  assert (IH' : (length (filter f l) <= length (filter g l))%nat).
  { apply IH. intros y Hy. apply H. right. exact Hy. }
  destruct (f x) eqn:Ef.
  - rewrite (H x (or_introl eq_refl) Ef). cbn. lia.
  - destruct (g x); cbn; lia.
Qed.

Lemma length_filter_lt {A} (f g : A -> bool) l :
  (forall x, In x l -> f x = true -> g x = true) ->
  (exists x, In x l /\ g x = true /\ f x = false) ->
  (length (filter f l) < length (filter g l))%nat.
Proof.
  induction l as [|x l IH]; intros H (y & Hy & Hg & Hf); [destruct Hy|].
  assert (Hle : (length (filter f l) <= length (filter g l))%nat).
  { apply length_filter_le. intros z Hz. apply H. right. exact Hz. }
  cbn. destruct Hy as [->|Hy].
  - rewrite Hg, Hf. cbn. lia.
  - assert (Hlt : (length (filter f l) < length (filter g l))%nat).
    { apply IH; [intros z Hz; apply H; right; exact Hz|]. exists y. auto. }
    destruct (f x) eqn:Ef.
    + rewrite (H x (or_introl eq_refl) Ef). cbn. lia.
    + destruct (g x); cbn; lia.
Qed.

Lemma length_concat_le {A B} (F G : A -> list B) cs :
  (forall c, In c cs -> (length (F c) <= length (G c))%nat) ->
  (length (concat (map F cs)) <= length (concat (map G cs)))%nat.
Proof.
  induction cs as [|c rest IH]; intros H; cbn; [lia|]. rewrite !app_length.
  specialize (H c (or_introl eq_refl)) as Hc.
  assert ((length (concat (map F rest)) <= length (concat (map G rest)))%nat).
  { apply IH. intros d Hd. apply H. right. exact Hd. }
  lia.
Qed.

Lemma length_concat_lt {A B} (F G : A -> list B) cs c0 :
  (forall c, In c cs -> (length (F c) <= length (G c))%nat) ->
  In c0 cs -> (length (F c0) < length (G c0))%nat ->
  (length (concat (map F cs)) < length (concat (map G cs)))%nat.
Proof.
  induction cs as [|c rest IH]; intros H Hin Hlt; [destruct Hin|]. cbn. rewrite !app_length.
  assert (Hrest : (length (concat (map F rest)) <= length (concat (map G rest)))%nat).
  { apply length_concat_le. intros d Hd. apply H. right. exact Hd. }
  destruct Hin as [->|Hin].
  - lia.
  - specialize (H c (or_introl eq_refl)) as Hc.
    assert ((length (concat (map F rest)) < length (concat (map G rest)))%nat).
    { apply IH; auto. intros d Hd. apply H. right. exact Hd. }
    lia.
Qed.

Lemma lostm_selected m t0 t1 c r : lostm m t0 t1 c r = true -> tk m t0 t1 r = true.
Proof. destruct m; cbn [lostm]; try discriminate. apply lost_is_selected. Qed.

(* a lost row that satisfies the row predicate makes the result strictly shorter *)
Lemma lost_row_shortens m t0 t1 p cs c0 r0 :
  In c0 cs -> In r0 (crows c0) -> lostm m t0 t1 c0 r0 = true -> p r0 = true ->
  (length (filter p (filter (tk m t0 t1) (visible_rows m t0 t1 cs))) <
   length (filter p (filter (tk m t0 t1) (all_rows cs))))%nat.
Proof.
  intros Hc Hr Hl Hp. unfold visible_rows, all_rows.
  rewrite !flat_map_concat, !filter_concat, !map_map.
  apply length_concat_lt with (c0 := c0); [|exact Hc|].
  - intros c _. rewrite <- !filter_andb. apply length_filter_le.
    intros x _ Hx. unfold notlost in Hx. destruct (lostm m t0 t1 c x); cbn in Hx; [discriminate|exact Hx].
  - rewrite <- !filter_andb. apply length_filter_lt.
    + intros x _ Hx. unfold notlost in Hx. destruct (lostm m t0 t1 c0 x); cbn in Hx; [discriminate|exact Hx].
    + exists r0. split; [exact Hr|]. rewrite (lostm_selected _ _ _ _ _ Hl), Hp. unfold notlost. rewrite Hl.
      split; reflexivity.
Qed.

Theorem selection_commutes_iff cs t0 t1 m p keep drop fs :
  time_mode m -> Forall wf cs -> contig cs ->
  forallb (pruned t0 t1) cs = false -> sel_head keep drop = Ok fs ->
  (get_array_abs cs (Some (t0, t1)) m p keep drop = select_full cs (Some (t0, t1)) m p keep drop
   <-> no_lost_row m t0 t1 p cs).
Proof.
  intros Hm HF HC Hov Hh. split.
  - intros Heq c r Hc Hr. destruct (lostm m t0 t1 c r && p r) eqn:E; [exfalso|reflexivity].
    apply andb_true_iff in E as [El Ep].
    rewrite selection_characterised in Heq by assumption. rewrite Hov in Heq.
    unfold select_full in Heq. rewrite !apply_selection_rows_unfold in Heq by exact Hm.
    rewrite Hh in Heq. cbn [res_bind] in Heq.
    assert (Hlen : length (map (proj fs) (filter p (filter (tk m t0 t1) (visible_rows m t0 t1 cs)))) =
                   length (map (proj fs) (filter p (filter (tk m t0 t1) (all_rows cs))))) by congruence.
    rewrite !map_length in Hlen.
    pose proof (lost_row_shortens m t0 t1 p cs c r Hc Hr El Ep). lia.
  - intros HN. rewrite selection_commutes_partial by assumption. rewrite Hov. reflexivity.
Qed.

(* ------------------------------------------------------------------------------------------ *)
(* the three ways to give the range                                                            *)
(* ------------------------------------------------------------------------------------------ *)
Theorem get_array1_characterised md cs rq p t0 t1 :
  to_absolute md cs (rq_time_range rq) (rq_seconds_range rq) (rq_time_within rq) = Ok (Some (t0, t1)) ->
  time_mode (rq_mode rq) -> Forall wf cs -> contig cs ->
  get_array1 md cs rq p =
  if forallb (pruned t0 t1) cs then Err E_NO_CHUNK
  else apply_selection_rows (Some (t0, t1)) (rq_mode rq) p (rq_keep rq) (rq_drop rq)
                            (visible_rows (rq_mode rq) t0 t1 cs).
Proof.
  intros Habs Hm HF HC. unfold get_array1. rewrite Habs. cbn [res_bind].
  apply selection_characterised; assumption.
Qed.

Lemma to_absolute_time_range md cs t0 t1 :
  to_absolute md cs (Some (t0, t1)) None None = Ok (Some (t0, t1)).
Proof. reflexivity. Qed.

Lemma to_absolute_seconds_range md cs a b :
  to_absolute md cs None (Some (a, b)) None =
  Ok (Some (run_start md cs + NS * a, run_start md cs + NS * b)).
Proof. reflexivity. Qed.

Lemma to_absolute_time_within md cs r :
  to_absolute md cs None None (Some r) = Ok (Some (rt r, re r)).
Proof. reflexivity. Qed.

(* the "pass no more than one" check only fires when all three are given; otherwise
   time_within wins over seconds_range, which wins over time_range *)
Lemma to_absolute_precedence md cs tr sr r :
  (tr = None \/ sr = None) -> to_absolute md cs tr sr (Some r) = Ok (Some (rt r, re r)).
Proof. intros H; destruct tr as [[? ?]|], sr as [[? ?]|]; try reflexivity; destruct H; discriminate. Qed.

Lemma to_absolute_three_is_error md cs tr sr r :
  to_absolute md cs (Some tr) (Some sr) (Some r) = Err E_MANY_RANGES.
Proof. reflexivity. Qed.

(* ------------------------------------------------------------------------------------------ *)
(* a partial request never creates savers                                                      *)
(* ------------------------------------------------------------------------------------------ *)
Lemma creates_saver_partial cf pf t b :
  is_partial pf = true -> creates_saver cf pf t = Ok b -> b = false.
Proof.
  unfold is_partial, creates_saver. intros Hp H.
  destruct (negb (ti_stored t) && pf_time_range pf && (ti_save_when t >? SAVEWHEN_EXPLICIT)); [discriminate|].
  destruct (ti_temp t); [congruence|]. destruct (ti_stored t); [congruence|].
  destruct (cf_superrun_nowrite cf); [congruence|].
  destruct (target_should_be_saved t) as [s|e]; cbn [res_bind] in H; [|discriminate].
  destruct (negb s); [congruence|].
  destruct (pf_time_range pf); [congruence|]. destruct (pf_selection pf); [congruence|].
  destruct (pf_keep pf); cbn in *; [congruence|]. destruct (pf_drop pf); cbn in *; [congruence|discriminate].
Qed.

Theorem partial_request_never_saves cf pf ts l :
  is_partial pf = true -> savers_of cf pf ts = Ok l -> l = [].
Proof.
  intros Hp. revert l. induction ts as [|[name t] rest IH]; intros l H; cbn in H; [congruence|].
  destruct (creates_saver cf pf t) as [b|e] eqn:Eb; cbn [res_bind] in H; [|discriminate].
  destruct (savers_of cf pf rest) as [r|e] eqn:Er; cbn [res_bind] in H; [|discriminate].
  rewrite (creates_saver_partial cf pf t b Hp Eb) in H. rewrite (IH r eq_refl) in H. congruence.
Qed.

(* conversely: a full request on a plain context does save what policy asks for (non-vacuity) *)
Example full_request_saves :
  savers_of (mkflags false false false) (mkpartial false false false false)
            [(11, mktarget SAVEWHEN_ALWAYS true false false false); (1, mktarget SAVEWHEN_ALWAYS false false false true)]
  = Ok [11].
Proof. reflexivity. Qed.
Example partial_request_saves_nothing :
  savers_of (mkflags false false false) (mkpartial false true false false)
            [(11, mktarget SAVEWHEN_ALWAYS true false false false); (1, mktarget SAVEWHEN_ALWAYS false false false true)]
  = Ok [].
Proof. reflexivity. Qed.

(* ------------------------------------------------------------------------------------------ *)
(* witnesses                                                                                   *)
(* ------------------------------------------------------------------------------------------ *)
Ltac wf_tac := unfold wf; cbn; repeat split; try lia; repeat constructor; cbn; lia.

(* rows [1,3) [4,6) [10,10) [12,15); the zero-length row stored at the start of the second chunk *)
Definition w_late : list chunk :=
  [mkchunk 0 10 [mkrow 1 3 0 0; mkrow 4 6 1 1] 1 1 (Some 7) 4;
   mkchunk 10 20 [mkrow 10 10 2 0; mkrow 12 15 3 1] 1 1 (Some 7) 4].
(* the same rows, the zero-length row stored at the end of the first chunk *)
Definition w_early : list chunk :=
  [mkchunk 0 10 [mkrow 1 3 0 0; mkrow 4 6 1 1; mkrow 10 10 2 0] 1 1 (Some 7) 4;
   mkchunk 10 20 [mkrow 12 15 3 1] 1 1 (Some 7) 4].

Lemma w_late_ok : Forall wf w_late /\ contig w_late.
Proof. split; [repeat constructor; wf_tac|cbn; auto]. Qed.
Lemma w_early_ok : Forall wf w_early /\ contig w_early.
Proof. split; [repeat constructor; wf_tac|cbn; auto]. Qed.

Definition full_selection_commutes : Prop :=
  forall cs t0 t1 m p keep drop,
    time_mode m -> Forall wf cs -> contig cs ->
    get_array_abs cs (Some (t0, t1)) m p keep drop =
    if forallb (pruned t0 t1) cs then Err E_NO_CHUNK
    else select_full cs (Some (t0, t1)) m p keep drop.

Theorem selection_commutes_refuted : ~ full_selection_commutes.
Proof.
  intros H. specialize (H w_late 0 10 FC (fun _ => true) None None (or_introl eq_refl)
                          (proj1 w_late_ok) (proj2 w_late_ok)).
  vm_compute in H. discriminate.
Qed.

(* the same rows, the same request, two stored layouts, two answers *)
Theorem chunking_dependence_witness :
  all_rows w_late = all_rows w_early /\
  get_array_abs w_late (Some (0, 10)) FC (fun _ => true) None None =
    Ok (row_fields, [[1; 3; 0; 0]; [4; 6; 1; 1]]) /\
  get_array_abs w_early (Some (0, 10)) FC (fun _ => true) None None =
    Ok (row_fields, [[1; 3; 0; 0]; [4; 6; 1; 1]; [10; 10; 2; 0]]) /\
  select_full w_late (Some (0, 10)) FC (fun _ => true) None None =
    Ok (row_fields, [[1; 3; 0; 0]; [4; 6; 1; 1]; [10; 10; 2; 0]]) /\
  (* and an error instead of the row when the range is the single instant *)
  get_array_abs w_late (Some (10, 10)) FC (fun _ => true) None None = Err E_NO_CHUNK /\
  select_full w_late (Some (10, 10)) FC (fun _ => true) None None = Ok (row_fields, [[10; 10; 2; 0]]).
Proof. repeat split; vm_compute; reflexivity. Qed.

(* the hypotheses of the partial theorem are satisfiable on a non-trivial request:
   range (3, 13) cuts both chunks, the zero-length row is inside, rows 0 and 3 are excluded *)
Example partial_hypotheses_hold :
  Forall wf w_late /\ contig w_late /\ no_lost_row FC 3 13 (fun _ => true) w_late /\
  forallb (pruned 3 13) w_late = false /\
  get_array_abs w_late (Some (3, 13)) FC (fun _ => true) None None =
    Ok (row_fields, [[4; 6; 1; 1]; [10; 10; 2; 0]]).
Proof.
  split; [exact (proj1 w_late_ok)|]. split; [exact (proj2 w_late_ok)|]. split.
  - intros c r Hc Hr. cbn in Hc. destruct Hc as [<-|[<-|[]]]; cbn in Hr;
      repeat (destruct Hr as [<-|Hr]; [vm_compute; reflexivity|]); destruct Hr.
  - split; vm_compute; reflexivity.
Qed.

(* two same-kind targets stored with different chunk boundaries, rows [1,3) [4,6) [13,15) [18,19):
   the right edge 14 is straddled by [13,15) *)
Definition w2_a : list chunk :=
  [mkchunk 0 17 [mkrow 1 3 0 0; mkrow 4 6 1 1; mkrow 13 15 2 0] 1 1 (Some 7) 4;
   mkchunk 17 20 [mkrow 18 19 3 1] 1 1 (Some 7) 4].
Definition w2_b : list chunk :=
  [mkchunk 0 12 [mkrow 1 3 100 10; mkrow 4 6 101 11] 2 1 (Some 7) 4;
   mkchunk 12 20 [mkrow 13 15 102 10; mkrow 18 19 103 11] 2 1 (Some 7) 4].

Definition same_kind (ra rb : list row) : Prop := map (fun r => (rt r, re r)) ra = map (fun r => (rt r, re r)) rb.
Definition positive_rows (rs : list row) : Prop := Forall (fun r => rt r < re r) rs.
Definition same_span (csa csb : list chunk) : Prop :=
  match csa, csb with
  | a :: _, b :: _ => cstart a = cstart b /\ last_end (cend a) (tl csa) = last_end (cend b) (tl csb)
  | _, _ => False
  end.

(* even without zero-length rows and with positive-length chunks *)
Definition full_multi_target_commutes : Prop :=
  forall csa csb t0 t1 m p keep drop,
    time_mode m -> Forall wf csa -> contig csa -> Forall wf csb -> contig csb ->
    same_kind (all_rows csa) (all_rows csb) -> positive_rows (all_rows csa) -> same_span csa csb ->
    Forall (fun c => cstart c < cend c) (csa ++ csb) ->
    get_array2_abs csa csb (Some (t0, t1)) m p keep drop =
    if forallb (pruned t0 t1) csa then Err E_EMPTY_INPUT
    else select_full2 csa csb (Some (t0, t1)) m p keep drop.

Theorem multi_target_commutes_refuted : ~ full_multi_target_commutes.
Proof.
  intros H.
  assert (Ha : Forall wf w2_a /\ contig w2_a) by (split; [repeat constructor; wf_tac|cbn; auto]).
  assert (Hb : Forall wf w2_b /\ contig w2_b) by (split; [repeat constructor; wf_tac|cbn; auto]).
  specialize (H w2_a w2_b 5 14 Touching (fun _ => true) None None (or_intror eq_refl)
                (proj1 Ha) (proj2 Ha) (proj1 Hb) (proj2 Hb)).
  assert (H1 : same_kind (all_rows w2_a) (all_rows w2_b)) by reflexivity.
  assert (H2 : positive_rows (all_rows w2_a)) by (repeat constructor; cbn; lia).
  assert (H3 : same_span w2_a w2_b) by (cbn; auto).
  assert (H4 : Forall (fun c => cstart c < cend c) (w2_a ++ w2_b)) by (repeat constructor; cbn; lia).
  specialize (H H1 H2 H3 H4). vm_compute in H. discriminate.
Qed.

Theorem multi_target_witness :
  get_array2_abs w2_a w2_b (Some (5, 14)) Touching (fun _ => true) None None = Err E_PREMATURE /\
  select_full2 w2_a w2_b (Some (5, 14)) Touching (fun _ => true) None None =
    Ok (pair_fields, [[4; 6; 1; 1; 101; 11]; [13; 15; 2; 0; 102; 10]]) /\
  (* one unit further right nothing straddles the edge and the request succeeds *)
  get_array2_abs w2_a w2_b (Some (5, 16)) Touching (fun _ => true) None None =
    Ok (pair_fields, [[4; 6; 1; 1; 101; 11]; [13; 15; 2; 0; 102; 10]]).
Proof. repeat split; vm_compute; reflexivity. Qed.
