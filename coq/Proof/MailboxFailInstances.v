(* All-schedule theorems for concrete chains and fan-outs, by verified exhaustive exploration
   (Proof/MailboxFailReach.v): for every failure position of every thread of the instance, every maximal
   schedule ends with all threads finished, the caller holding the injected exception and all savers closed and
   marked.  The fan-out instances include the configurations on which the code before the repairs F2 / F3
   returned the wrong exception / hung (Proof/MailboxFailExamples.v). *)
From SV Require Import Base.Prelude Model.Mailbox Model.MailboxFail Model.C06Run Model.C06Nets
  Spec.MailboxFailSpec Proof.MailboxFailReach.
Local Open Scope nat_scope.

Definition boom : nat := 11.
Definition cexc : nat := 9.
Definition FUEL : positive := 400%positive.      (* breadth-first levels; far above the longest schedule *)

Lemma forall_positions (chk : nat -> nat -> bool) a b :
  forallb (fun p => chk (fst p) (snd p)) (list_prod (seq 0 a) (seq 0 b)) = true ->
  forall ft fp, ft < a -> fp < b -> chk ft fp = true.
Proof.
  intros H ft fp Ha Hb. rewrite forallb_forall in H.
  apply (H (ft, fp)). apply in_prod; apply in_seq; lia.
Qed.

(* ---------- "completes" by exploration ---------- *)
Definition savers_complete_b (st : nstate) (n : nat) : bool :=
  forallb (fun t => negb (is_saver t) ||
                    (t_closed t && negb (t_excrec t) && (match t_got t with None => true | Some _ => false end)
                     && (if list_eq_dec Z.eq_dec (t_rows t) (map Z.of_nat (seq 0 n)) then true else false)))
          (ths st).
Definition final_complete (nt : net) (main n : nat) (st : nstate) : bool :=
  negb (quiescent_b nt st) ||
  (all_terminal st && outcome_eqb (main_outcome st main) (Some (OOk (map Z.of_nat (seq 0 n)))) && savers_complete_b st n).
Definition check_complete (nt : net) (st0 : nstate) (main n : nat) (fuel : positive) : bool :=
  let k := length (ths st0) in
  let M := exploreM nt k fuel [st0] (addM st0 (PM.empty _)) in
  memM st0 M && closed_okM nt k M && forallb (final_complete nt main n) (all_states M).

Theorem check_complete_sound nt st0 main n fuel :
  check_complete nt st0 main n fuel = true -> completes nt st0 main n.
Proof.
  unfold check_complete. intros H. apply andb_true_iff in H. destruct H as [H HP].
  apply andb_true_iff in H. destruct H as [H0 Hc].
  intros sched st Hr Hq.
  pose proof (reach_soundM _ _ _ _ _ H0 Hc HP _ _ Hr) as Hf. unfold final_complete in Hf.
  rewrite (quiescent_b_spec _ _ Hq) in Hf. cbn [negb orb] in Hf.
  apply andb_true_iff in Hf. destruct Hf as [Hf Hs]. apply andb_true_iff in Hf. destruct Hf as [Ht Ho].
  split; auto. split; [apply outcome_eqb_true; auto|].
  intros i t Hi Hsv. unfold savers_complete_b in Hs. rewrite forallb_forall in Hs.
  specialize (Hs t (nth_error_In _ _ Hi)). rewrite Hsv in Hs. cbn in Hs.
  apply andb_true_iff in Hs. destruct Hs as [Hs Hrows]. apply andb_true_iff in Hs. destruct Hs as [Hs Hgot].
  apply andb_true_iff in Hs. destruct Hs as [Hcl Hex].
  repeat split; auto.
  - destruct (t_excrec t); [discriminate | reflexivity].
  - destruct (t_got t); [discriminate | reflexivity].
  - destruct (list_eq_dec Z.eq_dec (t_rows t) (map Z.of_nat (seq 0 n))); [auto | discriminate].
Qed.

(* keep the unifier / lazy conversion from evaluating the explorer symbolically; vm_compute is not affected *)
Global Opaque check_netM check_complete exploreM.
