(* Property C08, safety half: alignment, adjacency, exactly-once, error-not-drop, derived from the
   loop invariant (plugin_iter_post). *)
From SV Require Import Model.Rows Model.SplitArray Model.Chunk Model.PluginIter
     Proof.RowsFacts Proof.SplitArrayProof Proof.ChunkProof Proof.PluginIterProof Proof.PluginIterRound
     Proof.PluginIterLoop.

(* rows of dependency i handed to compute over the calls *)
Definition delivered (i : nat) (calls : list call) : list row :=
  flat_map (fun c => crows (nth i (call_inputs c) dummy_chunk)) calls.

Lemma zip_app_length : forall dones inps, length inps = length dones -> length (zip_app dones inps) = length dones.
Proof.
  induction dones as [|d dr IH]; intros [|i ir] H; cbn in *; try lia. rewrite IH; lia.
Qed.

Lemma zip_app_nth : forall dones inps i dn,
  length inps = length dones -> nth_error dones i = Some dn ->
  nth_error (zip_app dones inps) i = Some (dn ++ crows (nth i inps dummy_chunk)).
Proof.
  induction dones as [|d dr IH]; intros [|c ir] i dn HL Hn; cbn in *; try (destruct i; discriminate); try lia.
  destruct i as [|i]; cbn in *; [inversion Hn; reflexivity|]. apply IH; [lia|exact Hn].
Qed.

Lemma acc_calls_nth : forall calls dones i dn,
  nth_error dones i = Some dn -> Forall (fun c => length (call_inputs c) = length dones) calls ->
  nth_error (acc_calls dones calls) i = Some (dn ++ delivered i calls).
Proof.
  induction calls as [|c r IH]; intros dones i dn Hn HF; cbn [acc_calls delivered flat_map].
  - rewrite app_nil_r. exact Hn.
  - apply Forall_cons_iff in HF as [Hc HF].
    rewrite app_assoc. apply IH.
    + apply zip_app_nth; assumption.
    + rewrite zip_app_length by exact Hc. exact HF.
Qed.

Lemma calls_chain_fun : forall calls a b b', calls_chain a calls b -> calls_chain a calls b' -> b = b'.
Proof.
  induction calls as [|c r IH]; intros a b b' H1 H2; cbn in *; [congruence|].
  destruct H1 as [_ H1]. destruct H2 as [_ H2]. eapply IH; eauto.
Qed.

Lemma Forall2_nth_error {A B} (P : A -> B -> Prop) l1 l2 : Forall2 P l1 l2 -> forall i x,
  nth_error l1 i = Some x -> exists y, nth_error l2 i = Some y /\ P x y.
Proof.
  induction 1 as [|a b l1 l2 Hab _ IH]; intros i x Hx; [destruct i; discriminate|].
  destruct i as [|i]; cbn in *; [inversion Hx; subst; eauto|eauto].
Qed.

Lemma Forall2_length' {A B} (P : A -> B -> Prop) l1 l2 : Forall2 P l1 l2 -> length l1 = length l2.
Proof. induction 1; cbn; congruence. Qed.

Lemma dep_ok_kinds run a deps specs : Forall2 (dep_ok run a) deps specs -> map dk specs = map fst deps.
Proof. induction 1 as [|d sp deps specs (_ & _ & _ & _ & Hk) _ IH]; cbn; [reflexivity|]. congruence. Qed.

Section Safety.
Variables (run : option Z) (sw a : Z) (deps : list (Z * list chunk)) (specs : list dspec).
Hypothesis Hne : deps <> [].
Hypothesis Hok : Forall2 (dep_ok run a) deps specs.

Let calls := fst (plugin_iter sw deps).
Let outcome := snd (plugin_iter sw deps).

(* every call: one identical interval for all inputs (so no row straddles a call boundary), same-kind
   inputs of equal length; successive calls adjacent, the first starting at the run start *)
Theorem iter_calls_aligned_thm :
  Forall (call_ok (map fst deps)) calls /\ exists b, calls_chain a calls b.
Proof.
  destruct (plugin_iter_post run sw a deps specs Hne Hok) as (Ef & ssf & P1 & P2 & _).
  rewrite (dep_ok_kinds _ _ _ _ Hok) in P2. split; [exact P2|]. exists Ef. exact P1.
Qed.

(* every row exactly once and in order: what has been handed over is always a prefix of what the
   dependency sent; after a normal end the rest lies at or after the last call's end, and is empty
   for a plugin that saves by default *)
Theorem iter_rows_exactly_once_thm : forall i d, nth_error deps i = Some d ->
  exists rest, delivered i calls ++ rest = srows (snd d) /\
    (outcome = None ->
       (forall b, calls_chain a calls b -> Forall (fun q => b <= rt q) rest) /\
       (saves_by_default sw = true -> rest = [])).
Proof.
  intros i d Hd.
  destruct (plugin_iter_post run sw a deps specs Hne Hok) as (Ef & ssf & P1 & P2 & P3 & P4 & P5).
  fold calls in P1, P2, P3. fold outcome in P4, P5.
  destruct (Forall2_nth_error _ _ _ Hok i d Hd) as (sp & Hsp & (_ & _ & _ & HR & _)).
  pose proof (slots_inv_length _ _ _ _ _ P3) as [L1 L2].
  assert (Hdn : nth_error (map (fun _ : dspec => @nil row) specs) i = Some []).
  { rewrite nth_error_map, Hsp. reflexivity. }
  assert (Hacc : nth_error (acc_calls (map (fun _ => []) specs) calls) i = Some ([] ++ delivered i calls)).
  { apply acc_calls_nth; [exact Hdn|]. eapply Forall_impl; [|exact P2]. cbn.
    intros c (_ & Hl & _). rewrite !map_length in *. exact Hl. }
  cbn [app] in Hacc.
  destruct (nth_error ssf i) as [s|] eqn:Es.
  2:{ apply nth_error_None in Es. assert (i < length specs)%nat by (apply nth_error_Some; congruence). lia. }
  destruct (slots_inv_nth _ _ _ _ _ P3 i s Es) as (sp' & dn & Hsp' & Hdn' & HS & Hst & _).
  rewrite Hsp in Hsp'. inversion Hsp'; subst sp'. rewrite Hacc in Hdn'. inversion Hdn'; subst dn.
  exists (crows (sbuf s) ++ srows (siter s)). split.
  - rewrite <- HR. apply (si_rows _ _ _ _ _ _ HS).
  - intros Hout. destruct (P5 Hout) as [Hit Hsv].
    rewrite Forall_forall in Hit. rewrite (Hit s (nth_error_In _ _ Es)). cbn [srows flat_map]. rewrite app_nil_r.
    split.
    + intros b Hb. rewrite (calls_chain_fun _ _ _ _ Hb P1).
      destruct (si_wf _ _ _ _ _ _ HS) as (_ & _ & _ & HF). rewrite <- Hst.
      eapply Forall_impl; [|exact HF]. cbn. intros; lia.
    + intros Hs. specialize (Hsv Hs). rewrite Forall_forall in Hsv. apply (Hsv s (nth_error_In _ _ Es)).
Qed.

(* error, not drop: a plugin that saves by default never ends normally with an undelivered row *)
Theorem iter_error_not_drop_thm :
  saves_by_default sw = true -> outcome = None ->
  forall i d, nth_error deps i = Some d -> delivered i calls = srows (snd d).
Proof.
  intros Hs Hout i d Hd. destruct (iter_rows_exactly_once_thm i d Hd) as (rest & Hr & Hrest).
  destruct (Hrest Hout) as [_ Hnil]. rewrite (Hnil Hs), app_nil_r in Hr. exact Hr.
Qed.

(* the model's fuel always suffices *)
Theorem iter_fuel_suffices_thm : outcome <> Some E_ITER_FUEL.
Proof. destruct (plugin_iter_post run sw a deps specs Hne Hok) as (Ef & ssf & _ & _ & _ & P4 & _). exact P4. Qed.
End Safety.

(* ---------- same-kind inputs are row-aligned ---------- *)

Definition te (q : row) : Z * Z := (rt q, re q).

Lemma pieces_aligned : forall (xs ys : list (list row)) rx ry,
  map te (concat xs ++ rx) = map te (concat ys ++ ry) ->
  Forall2 (fun x y => length x = length y) xs ys ->
  Forall2 (fun x y => map te x = map te y) xs ys.
Proof.
  induction xs as [|x xs IH]; intros ys rx ry Heq HF; inversion HF as [|? y ? ys' Hl HF']; subst; [constructor|].
  cbn [concat] in Heq. rewrite <- !app_assoc, !map_app in Heq.
  assert (Hxy : map te x = map te y /\ map te (concat xs ++ rx) = map te (concat ys' ++ ry)).
  { rewrite !map_app. clear - Heq Hl. revert y Hl Heq. induction x as [|q x IHx]; intros [|p y] Hl Heq; cbn in *; try lia.
    - auto.
    - inversion Heq as [[H1 H2 H3]]. destruct (IHx y) as [A B]; [lia|exact H3|]. split; [congruence|exact B]. }
  constructor; [tauto|]. eapply IH; [apply Hxy|exact HF'].
Qed.

Lemma delivered_concat i calls :
  delivered i calls = concat (map (fun c => crows (nth i (call_inputs c) dummy_chunk)) calls).
Proof. unfold delivered. apply flat_map_concat_map. Qed.

Lemma same_kind_lengths kinds i j k : forall calls,
  Forall (call_ok kinds) calls -> nth_error kinds i = Some k -> nth_error kinds j = Some k ->
  Forall2 (fun x y : list row => length x = length y)
          (map (fun c => crows (nth i (call_inputs c) dummy_chunk)) calls)
          (map (fun c => crows (nth j (call_inputs c) dummy_chunk)) calls).
Proof.
  induction calls as [|c r IH]; intros Hcalls Hi Hj; cbn [map]; [constructor|].
  apply Forall_cons_iff in Hcalls as [(_ & Hl & _ & Hsame) Hr]. constructor; [|apply IH; assumption].
  assert (Hi' : (i < length kinds)%nat) by (apply nth_error_Some; congruence).
  assert (Hj' : (j < length kinds)%nat) by (apply nth_error_Some; congruence).
  destruct (nth_error (call_inputs c) i) as [ci|] eqn:Eci; [|apply nth_error_None in Eci; lia].
  destruct (nth_error (call_inputs c) j) as [cj|] eqn:Ecj; [|apply nth_error_None in Ecj; lia].
  rewrite (nth_error_nth _ _ dummy_chunk Eci), (nth_error_nth _ _ dummy_chunk Ecj).
  apply (Hsame i j k ci cj); auto.
Qed.

Lemma Forall2_map_same {A B} (P : B -> B -> Prop) (f g : A -> B) : forall l,
  Forall2 P (map f l) (map g l) -> Forall (fun x => P (f x) (g x)) l.
Proof. induction l as [|x l IH]; cbn [map]; intros H; inversion H; subst; constructor; auto. Qed.

(* two dependencies of one kind that carry the same (time, endtime) per row receive, in every call,
   inputs with the same (time, endtime) per row: the column merge pairs the right rows *)
Theorem iter_same_kind_row_aligned_thm run sw a deps specs i j di dj :
  deps <> [] -> Forall2 (dep_ok run a) deps specs ->
  nth_error deps i = Some di -> nth_error deps j = Some dj -> fst di = fst dj ->
  map te (srows (snd di)) = map te (srows (snd dj)) ->
  Forall (fun c => map te (crows (nth i (call_inputs c) dummy_chunk)) =
                   map te (crows (nth j (call_inputs c) dummy_chunk))) (fst (plugin_iter sw deps)).
Proof.
  intros Hne Hok Hi Hj Hk Hte.
  destruct (iter_rows_exactly_once_thm run sw a deps specs Hne Hok i di Hi) as (ri & Hri & _).
  destruct (iter_rows_exactly_once_thm run sw a deps specs Hne Hok j dj Hj) as (rj & Hrj & _).
  destruct (iter_calls_aligned_thm run sw a deps specs Hne Hok) as [Hcalls _].
  rewrite <- Hri, <- Hrj, !delivered_concat in Hte.
  assert (HF := same_kind_lengths (map fst deps) i j (fst di) _ Hcalls).
  rewrite !nth_error_map, Hi, Hj in HF. cbn [option_map] in HF. rewrite Hk in HF. specialize (HF eq_refl eq_refl).
  apply (Forall2_map_same (fun x y => map te x = map te y)).
  eapply pieces_aligned; [exact Hte|exact HF].
Qed.

(* ---------- the hypotheses are satisfiable: a concrete two-dependency run with straddling ---------- *)

Definition ex_depA : Z * list chunk :=
  (0, [mkchunk 0 5 [mkrow 0 2 0 0] 0 0 (Some 7) 4; mkchunk 5 10 [mkrow 6 7 1 0] 0 0 (Some 7) 4]).
Definition ex_depB : Z * list chunk :=
  (1, [mkchunk 0 10 [mkrow 1 3 100 0; mkrow 4 6 101 0; mkrow 8 9 102 0] 1 1 (Some 7) 4]).
Definition ex_specs : list dspec :=
  [mkdspec (srows (snd ex_depA)) 10 0 0; mkdspec (srows (snd ex_depB)) 10 1 1].

Example ex_deps_ok : Forall2 (dep_ok (Some 7) 0) [ex_depA; ex_depB] ex_specs.
Proof.
  assert (W : forall c, wfb c = true -> wf c).
  { intros c H. unfold wfb in H. repeat (apply andb_true_iff in H as [H ?]).
    unfold wf. repeat split; try lia.
    - apply sortedb_sound; assumption.
    - apply Forall_forall. intros q Hq. rewrite forallb_forall in H0. specialize (H0 q Hq). lia. }
  repeat constructor; cbn; try discriminate; try apply W; reflexivity.
Qed.

(* the pacemaker's boundary 5 is straddled by B's row [4,6): the first call is trimmed to [0,4) *)
Example ex_run :
  (map (fun c => (call_start c, call_end c, map (fun i => map rid (crows i)) (call_inputs c)))
       (fst (plugin_iter 3 [ex_depA; ex_depB])), snd (plugin_iter 3 [ex_depA; ex_depB]))
  = ([(0, 4, [[0]; [100]]); (4, 10, [[1]; [101; 102]])], None).
Proof. vm_compute. reflexivity. Qed.
