(* C01 on top of C08 and C09: the closed graph theorem with Plugin.iter as the aligner of two-dependency nodes and
   OverlapWindowPlugin.iter as the semantics of overlap-window nodes. *)
From SV Require Import Model.Rows Model.SplitArray Model.Chunk Model.Rechunker Model.PluginIter Model.NetworkIter
     Proof.RechunkerProof Proof.NetworkProof Proof.NetworkGraphProof Proof.NetworkIterProof.
From SV Require Proof.NetworkOverlapProof.

Theorem results_chunking_independent_full rn T src nt given g target :
  graph_ok iter_pre rn NetworkOverlapProof.ovl_pre T src nt given [] g ->
  exists env, eval_graph_x ovl_c09 align_iter given [] g = Ok env /\
    match lookup target env with
    | Some cs => exists R, lookup target (eval_whole src [] g) = Some R /\ tiles R 0 T cs
    | None => lookup target (eval_whole src [] g) = None
    end.
Proof.
  exact (results_chunking_independent align_iter iter_pre rn (align_iter_ok rn)
           ovl_c09 NetworkOverlapProof.ovl_pre (NetworkOverlapProof.ovl_c09_ok rn) T src nt given g target).
Qed.

(* the hypotheses are satisfiable with an overlap-window node: source 1 (disjoint positive-length rows, three chunks,
   one of them empty and of zero duration) -> neighbour count within (2, 2) with window (1, 1) -> a row-wise node;
   nt holds of the source only *)
From SV Require Import Model.OverlapKernels Spec.WindowLocal Proof.WindowLocalProof.

Definition exo_meta (d : Z) : ometa := mkometa d d (Some 0) 4.
Definition exo_graph : list node :=
  [ mknode 1 [] CSrc (exo_meta 1);
    mknode 2 [1] (COverlap (f_count 2 2) true 1 1 3) (exo_meta 2);
    mknode 3 [2] (CLocal (h_rowwise 2 1)) (exo_meta 3) ].
Definition exo_rows : list row := [mkrow 1 4 100 5; mkrow 5 9 101 6; mkrow 12 15 102 7].
Definition exo_stream : stream :=
  [ mkchunk 0 9 [mkrow 1 4 100 5; mkrow 5 9 101 6] 1 1 (Some 0) 4;
    mkchunk 9 9 [] 1 1 (Some 0) 4;
    mkchunk 9 20 [mkrow 12 15 102 7] 1 1 (Some 0) 4 ].
Definition exo_given (d : Z) : option stream := if d =? 1 then Some exo_stream else None.
Definition exo_src (d : Z) : list row := if d =? 1 then exo_rows else [].

Example exo_eval :
  match eval_graph_x ovl_c09 align_iter exo_given [] exo_graph with
  | Ok env => option_map (fun cs => flat_map (fun c => map rch (crows c)) cs) (lookup 3 env)
  | Err _ => None
  end = option_map (map rch) (lookup 3 (eval_whole exo_src [] exo_graph))
  /\ option_map (map rch) (lookup 3 (eval_whole exo_src [] exo_graph)) = Some [5; 5; 3].
Proof. vm_compute. split; reflexivity. Qed.

Example exo_graph_ok :
  graph_ok iter_pre (Some 0) NetworkOverlapProof.ovl_pre 20 exo_src (fun d => d = 1) exo_given [] exo_graph.
Proof.
  assert (HS : chunking_of 1 (Some 0) exo_rows 0 20 exo_stream).
  { unfold chunking_of, tiles, uniform, exo_stream, exo_rows. split.
    - split; [discriminate|]. split; [|split; [|split]].
      + repeat constructor; cbn; try lia; repeat constructor; cbn; lia.
      + repeat constructor; cbn; lia.
      + cbn. repeat split; reflexivity.
      + reflexivity.
    - split; [repeat constructor|]. unfold no_trailing, ends_nt. cbn. repeat constructor; lia. }
  apply chunking_of_core in HS.
  unfold exo_graph. cbn [graph_ok n_comp n_deps n_id n_meta comp_ok].
  unfold given_ok, arity_ok, data_ok, nt_ok, exo_given. cbn [n_comp n_deps n_id n_meta].
  repeat match goal with |- _ /\ _ => split end;
    try exact I; try discriminate; try reflexivity; try apply local_h_rowwise;
    try (eexists; reflexivity); try (repeat constructor; discriminate); try (intros H; discriminate H).
  - cbn. exists 1. split; [apply HS|intros _; apply HS].
  - cbn. unfold NetworkOverlapProof.ovl_pre. split; [lia|]. split; [lia|]. split.
    + apply f_count_window_local; lia.
    + unfold exo_src, exo_rows. cbn. unfold pos_row. cbn. repeat split; try lia; repeat constructor; cbn; lia.
Qed.
