From Coq Require Import Permutation.
From SV Require Import Model.Merge.

Lemma memz_In x l : memz x l = true <-> In x l.
Proof.
  induction l as [|y l IH]; cbn; [split; [discriminate|tauto]|].
  rewrite orb_true_iff, IH, Z.eqb_eq. split; intros [H|H]; auto.
Qed.

Lemma add_new_spec fs : forall seen, NoDup seen ->
  NoDup (add_new seen fs) /\ (forall x, In x (add_new seen fs) <-> In x seen \/ In x fs) /\
  exists tl, add_new seen fs = seen ++ tl.
Proof.
  induction fs as [|f fs IH]; intros seen Hnd; cbn [add_new].
  - split; [auto|]. split; [intros; cbn; tauto|exists []; rewrite app_nil_r; auto].
  - destruct (memz f seen) eqn:E.
    + apply memz_In in E. destruct (IH seen Hnd) as (H1 & H2 & tl & H3).
      split; [auto|]. split; [|eauto]. intros x. rewrite H2. cbn. split; [tauto|].
      intros [H|[<-|H]]; auto.
    + assert (Hn : ~ In f seen) by (intros H; apply memz_In in H; congruence).
      assert (Hnd' : NoDup (seen ++ [f])).
      { apply Permutation_NoDup with (l := f :: seen).
        - apply Permutation_cons_append.
        - constructor; auto. }
      destruct (IH (seen ++ [f]) Hnd') as (H1 & H2 & tl & H3).
      split; [auto|]. split.
      * intros x. rewrite H2, in_app_iff. cbn. tauto.
      * exists (f :: tl). rewrite H3, <- app_assoc. reflexivity.
Qed.

Lemma merged_fields_spec dts :
  NoDup (merged_fields dts) /\ forall x, In x (merged_fields dts) <-> exists d, In d dts /\ In x d.
Proof.
  unfold merged_fields.
  assert (H : forall seen, NoDup seen ->
    NoDup (fold_left add_new dts seen) /\
    forall x, In x (fold_left add_new dts seen) <-> In x seen \/ exists d, In d dts /\ In x d).
  { induction dts as [|d dts IH]; intros seen Hnd; cbn [fold_left].
    - split; [auto|]. intros x. split; [auto|]. intros [H|(d & [] & _)]; auto.
    - destruct (add_new_spec d seen Hnd) as (H1 & H2 & _).
      destruct (IH _ H1) as (H3 & H4). split; [auto|]. intros x. rewrite H4, H2. split.
      + intros [[H|H]|(d' & Hd & Hx)]; auto; right; [exists d|exists d']; cbn; auto.
      + intros [H|(d' & [<-|Hd] & Hx)]; auto. right. exists d'; auto. }
  destruct (H [] (NoDup_nil _)) as (H1 & H2). split; [auto|].
  intros x. rewrite H2. cbn. tauto.
Qed.

(* the value of a merged column is the column of the LAST input that has the field *)
Lemma lookup_last_app f arrs1 a arrs2 acc c :
  lookup f a = Some c -> (forall b, In b arrs2 -> lookup f b = None) ->
  lookup_last f (arrs1 ++ a :: arrs2) acc = Some c.
Proof.
  intros Ha Hn. revert acc. induction arrs1 as [|b arrs1 IH]; intros acc; cbn [app lookup_last].
  - rewrite Ha. clear Ha. revert Hn. generalize (Some c) as acc'. induction arrs2 as [|b arrs2 IH2]; intros acc' Hn; cbn; [auto|].
    rewrite (Hn b (or_introl eq_refl)). apply IH2. intros b' Hb'. apply Hn. right; auto.
  - apply IH.
Qed.

Lemma lookup_last_none f arrs : (forall b, In b arrs -> lookup f b = None) -> lookup_last f arrs None = None.
Proof.
  induction arrs as [|b arrs IH]; intros Hn; cbn; [auto|].
  rewrite (Hn b (or_introl eq_refl)). apply IH. intros b' Hb'. apply Hn. right; auto.
Qed.

Lemma lookup_In f a : (exists c, lookup f a = Some c) <-> In f (fields a).
Proof.
  induction a as [|[g col] a IH]; cbn; [split; [intros [c H]; discriminate|tauto]|].
  destruct (f =? g) eqn:E.
  - apply Z.eqb_eq in E. subst. split; eauto.
  - apply Z.eqb_neq in E. rewrite IH. split; [auto|]. intros [H|H]; [congruence|auto].
Qed.

Lemma all_eqb_spec l : all_eqb l = true <-> forall x y, In x l -> In y l -> x = y.
Proof.
  destruct l as [|a l]; cbn; [split; [intros _ x y []|auto]|].
  rewrite forallb_forall. split.
  - intros H x y Hx Hy.
    assert (Hxa : x = a) by (destruct Hx as [<-|Hx]; [auto|apply Z.eqb_eq, H; auto]).
    assert (Hya : y = a) by (destruct Hy as [<-|Hy]; [auto|apply Z.eqb_eq, H; auto]).
    congruence.
  - intros H x Hx. apply Z.eqb_eq. apply H; auto.
Qed.

Definition uniform {A} (f : A -> Z) (cs : list A) : Prop := forall c d, In c cs -> In d cs -> f c = f d.

Lemma all_eqb_map {A} (f : A -> Z) cs : all_eqb (map f cs) = true <-> uniform f cs.
Proof.
  rewrite all_eqb_spec. unfold uniform. split.
  - intros H c d Hc Hd. apply H; apply in_map; auto.
  - intros H x y Hx Hy. apply in_map_iff in Hx as (c & <- & Hc). apply in_map_iff in Hy as (d & <- & Hd). auto.
Qed.

(* merge accepts exactly: same kind, same run, equal lengths, equal (start, end) *)
Theorem merge_accepts_iff cs dt :
  (2 <= length cs)%nat ->
  ((exists c, merge cs dt = Ok c) <->
   (uniform kkind cs /\ uniform krun cs /\ uniform klen cs /\ uniform kstart cs /\ uniform kend cs)).
Proof.
  intros Hlen. destruct cs as [|c0 [|c1 rest]]; cbn [length] in Hlen; try lia.
  unfold merge. set (cs := c0 :: c1 :: rest).
  destruct (all_eqb (map kkind cs)) eqn:E1; cbn [negb].
  2:{ split; [intros [c H]; discriminate|]. intros (H & _). apply all_eqb_map in H. congruence. }
  destruct (all_eqb (map krun cs)) eqn:E2; cbn [negb].
  2:{ split; [intros [c H]; discriminate|]. intros (_ & H & _). apply all_eqb_map in H. congruence. }
  destruct (all_eqb (map klen cs)) eqn:E3; cbn [negb].
  2:{ split; [intros [c H]; discriminate|]. intros (_ & _ & H & _). apply all_eqb_map in H. congruence. }
  destruct (all_eqb (map kstart cs)) eqn:E4; destruct (all_eqb (map kend cs)) eqn:E5; cbn [andb negb];
    try (split; [intros [c H]; discriminate|]; intros (_ & _ & _ & H4 & H5);
         apply all_eqb_map in H4; apply all_eqb_map in H5; congruence).
  apply all_eqb_map in E1, E2, E3, E4, E5. split; [tauto|eauto].
Qed.

Lemma sort_by_dtype_In c cs : In c (sort_by_dtype cs) <-> In c cs.
Proof.
  assert (Hins : forall d l, In c (ins_by_dtype d l) <-> c = d \/ In c l).
  { intros d l. induction l as [|e l IH]; cbn; [split; intros [H|H]; auto; tauto|].
    destruct (kdtype d <? kdtype e); cbn; [split; intros [H|H]; auto|].
    rewrite IH. split; intros [H|[H|H]]; auto. }
  induction cs as [|d cs IH]; cbn; [tauto|]. rewrite Hins, IH. split; intros [H|H]; auto.
Qed.

Lemma lookup_map_fields (val : Z -> list Z) order f :
  In f order -> lookup f (map (fun g => (g, val g)) order) = Some (val f).
Proof.
  induction order as [|g order IH]; intros Hin; [destruct Hin|]. cbn.
  destruct (f =? g) eqn:E; [apply Z.eqb_eq in E; subst; reflexivity|].
  apply Z.eqb_neq in E. destruct Hin as [->|Hin]; [congruence|auto].
Qed.

(* the merged chunk: fields = union of the inputs' fields, each once; every column is the column of the
   last input (in the order given = depends_on order) that has the field *)
Theorem merge_columns cs dt c :
  (2 <= length cs)%nat -> merge cs dt = Ok c ->
  NoDup (fields (kdata c)) /\
  (forall f, In f (fields (kdata c)) <-> exists d, In d cs /\ In f (fields (kdata d))) /\
  (forall f pre d post col, cs = pre ++ d :: post -> lookup f (kdata d) = Some col ->
      (forall b, In b post -> lookup f (kdata b) = None) -> lookup f (kdata c) = Some col).
Proof.
  intros Hlen Hm. destruct cs as [|c0 [|c1 rest]]; cbn [length] in Hlen; try lia.
  assert (Hin0 : In c0 (c0 :: c1 :: rest)) by (left; auto).
  unfold merge in Hm. remember (c0 :: c1 :: rest) as cs eqn:Ecs.
  rewrite Ecs in Hm at 1. cbv iota beta in Hm. clear Hlen.
  destruct (negb (all_eqb (map kkind _))); [discriminate|].
  destruct (negb (all_eqb (map krun cs))); [discriminate|].
  destruct (negb (all_eqb (map klen cs))); [discriminate|].
  destruct (negb (all_eqb (map kstart cs) && all_eqb (map kend cs))); [discriminate|].
  inversion Hm; subst c; clear Hm. cbn [kdata].
  destruct (merged_fields_spec (map (fun c => fields (kdata c)) (sort_by_dtype cs))) as [Hnd Hin].
  assert (Hfields : fields (merge_arrs (map kdata cs)
             (merged_fields (map (fun c => fields (kdata c)) (sort_by_dtype cs))) (klen c0))
           = merged_fields (map (fun c => fields (kdata c)) (sort_by_dtype cs))).
  { unfold merge_arrs, fields. rewrite map_map. cbn [fst]. apply map_id. }
  assert (Hunion : forall f, In f (merged_fields (map (fun c => fields (kdata c)) (sort_by_dtype cs))) <->
                             exists d, In d cs /\ In f (fields (kdata d))).
  { intros f. rewrite Hin. split.
    - intros (d & Hd & Hf). apply in_map_iff in Hd as (e & <- & He). apply (proj1 (sort_by_dtype_In e cs)) in He. eauto.
    - intros (d & Hd & Hf). exists (fields (kdata d)). split; [|auto].
      apply in_map_iff. exists d. split; [auto|]. apply (proj2 (sort_by_dtype_In d cs)). auto. }
  rewrite Hfields. split; [exact Hnd|]. split; [exact Hunion|].
  intros f pre d post col Hcs Hl Hpost. unfold merge_arrs.
  rewrite (lookup_map_fields (fun g => match lookup_last g (map kdata cs) None with Some c => c | None => [] end)).
  - rewrite Hcs, map_app. cbn [map].
    rewrite (lookup_last_app f (map kdata pre) (kdata d) (map kdata post) None col Hl); [reflexivity|].
    intros b Hb. apply in_map_iff in Hb as (e & <- & He). auto.
  - apply Hunion. exists d. split; [rewrite Hcs; apply in_or_app; right; left; auto|].
    apply lookup_In. eauto.
Qed.

Example merge_example :
  merge [mkk 0 10 2 1 7 5 [(1, [0; 3]); (2, [1; 4]); (10, [100; 101])];
         mkk 0 10 2 1 7 3 [(1, [0; 3]); (2, [1; 4]); (11, [7; 8])]] 99
  = Ok (mkk 0 10 2 1 7 99 [(1, [0; 3]); (2, [1; 4]); (11, [7; 8]); (10, [100; 101])]).
Proof. vm_compute. reflexivity. Qed.
