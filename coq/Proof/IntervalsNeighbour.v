(* abs_time_to_prev_next_interval: the scan with the moving start index equals the minimum
   distance to the previous / next interval. *)
From SV Require Import Model.Rows Model.Intervals Spec.IntervalDefs Proof.RowsFacts
  Proof.IntervalsChecks Proof.IntervalsSort.

Definition qb (t : Z) (iv : row) : bool := (rt iv <? t) && (re iv <=? t).

(* ---------- small list facts ---------- *)
Lemma Forall_skipn {A} (P : A -> Prop) l n : Forall P l -> Forall P (skipn n l).
Proof.
  revert n; induction l as [|x l IH]; intros n H; destruct n; cbn [skipn]; auto.
  inversion H; auto.
Qed.

Lemma filter_all {A} (p : A -> bool) l : Forall (fun x => p x = true) l -> filter p l = l.
Proof. induction l as [|x l IH]; intros H; cbn [filter]; [reflexivity|]. inversion H; subst. rewrite H2, IH; auto. Qed.

Lemma filter_none {A} (p : A -> bool) l : Forall (fun x => p x = false) l -> filter p l = [].
Proof. induction l as [|x l IH]; intros H; cbn [filter]; [reflexivity|]. inversion H; subst. rewrite H2, IH; auto. Qed.

Lemma last_in {A} (l : list A) d : l <> [] -> In (last l d) l.
Proof.
  induction l as [|x l IH]; intros H; [congruence|]. destruct l as [|y l]; [left; reflexivity|].
  right. apply IH. discriminate.
Qed.

Lemma last_skipn {A} (l : list A) n d : (n < length l)%nat -> last (skipn n l) d = last l d.
Proof.
  revert n; induction l as [|x l IH]; intros n H; cbn [length] in H; [lia|].
  destruct n as [|n]; [reflexivity|]. cbn [skipn]. rewrite IH by lia.
  destruct l as [|y l]; [cbn [length] in H; lia|reflexivity].
Qed.

Lemma minl_min x l : minl x l <= x /\ Forall (fun y => minl x l <= y) l /\ In (minl x l) (x :: l).
Proof.
  unfold minl. induction l as [|y l IH]; cbn [fold_right].
  - split; [lia|]. split; [constructor|left; reflexivity].
  - destruct IH as (H1 & H2 & H3). split; [lia|]. split.
    + constructor; [lia|]. eapply Forall_impl; [|exact H2]. cbn; intros; lia.
    + destruct (Z.min_spec y (fold_right Z.min x l)) as [[_ ->]|[_ ->]].
      * right; left; reflexivity.
      * destruct H3 as [H3|H3]; [left; auto|right; right; auto].
Qed.

Lemma minl_eq x l v : In v (x :: l) -> Forall (fun y => v <= y) (x :: l) -> minl x l = v.
Proof.
  intros Hin Hall. destruct (minl_min x l) as (H1 & H2 & H3).
  assert (Hle : minl x l <= v).
  { destruct Hin as [<-|Hin]; [auto|]. rewrite Forall_forall in H2. apply H2, Hin. }
  rewrite Forall_forall in Hall. specialize (Hall _ H3). lia.
Qed.

(* ---------- monotone ends ---------- *)
Fixpoint re_mono (l : list row) : Prop :=
  match l with [] => True | c :: r => Forall (fun c' => re c <= re c') r /\ re_mono r end.

Lemma sep_re_mono l : sep l -> nonnegP l -> re_mono l.
Proof.
  induction l as [|c r IH]; cbn [sep re_mono]; [auto|]. intros [S1 S2] Hn. inversion Hn as [|? ? Hc Hr]; subst.
  split; [|auto]. rewrite Forall_forall in S1, Hr |- *. intros c' Hc'. specialize (S1 _ Hc'). specialize (Hr _ Hc'). cbn in Hr. lia.
Qed.

Lemma re_mono_last l iv : re_mono l -> In iv l -> re iv <= re (last l row0).
Proof.
  induction l as [|c r IH]; intros Hm Hin; [destruct Hin|]. destruct Hm as [M1 M2].
  destruct r as [|c' r'].
  - destruct Hin as [->|[]]. cbn. lia.
  - change (last (c :: c' :: r') row0) with (last (c' :: r') row0).
    destruct Hin as [->|Hin]; [|apply IH; auto].
    rewrite Forall_forall in M1. apply M1. apply last_in. discriminate.
Qed.

Lemma in_firstn_in {A} (l : list A) n x : In x (firstn n l) -> In x l.
Proof.
  revert n; induction l as [|y l IH]; intros n H; destruct n; cbn [firstn] in H; try destruct H.
  - left; auto.
  - right; eapply IH; eauto.
Qed.

Lemma re_mono_firstn l n : re_mono l -> re_mono (firstn n l).
Proof.
  revert n; induction l as [|c r IH]; intros n H; destruct n; cbn [firstn re_mono]; auto.
  destruct H as [H1 H2]. split; [|auto].
  rewrite Forall_forall in H1 |- *. intros x Hx. apply H1. eapply in_firstn_in; eauto.
Qed.

(* ---------- the Q-prefix of the intervals ---------- *)
Lemma q_tail_false t : forall ivs,
  sep ivs -> nonnegP ivs ->
  Forall (fun iv => qb t iv = false) (skipn (prefix_len (qb t) ivs) ivs).
Proof.
  induction ivs as [|iv l IH]; intros Hs Hn; cbn [prefix_len]; [constructor|].
  destruct Hs as [S1 S2]. inversion Hn as [|? ? Hiv Hl]; subst.
  destruct (qb t iv) eqn:E; cbn [skipn]; [apply IH; auto|].
  constructor; [exact E|].
  rewrite Forall_forall in S1 |- *. intros b Hb. specialize (S1 _ Hb).
  unfold qb in E |- *. lia.
Qed.

Lemma q_mono t t' iv : t <= t' -> qb t iv = true -> qb t' iv = true.
Proof. unfold qb. lia. Qed.

Lemma prefix_len_mono {A} (p q : A -> bool) l :
  (forall x, p x = true -> q x = true) -> (prefix_len p l <= prefix_len q l)%nat.
Proof.
  intros H. induction l as [|x l IH]; cbn [prefix_len]; [lia|].
  destruct (p x) eqn:E; [rewrite (H _ E); lia|lia].
Qed.

(* ---------- the two inner loops ---------- *)
Lemma loop1_prefix t : forall P Tl prev seen,
  Forall (fun iv => qb t iv = true) P ->
  atp_loop1 t (P ++ Tl) prev seen =
  atp_loop1 t Tl (match P with [] => prev | _ => t - re (last P row0) end) (seen + length P).
Proof.
  induction P as [|iv P IH]; intros Tl prev seen H; cbn [app length].
  - rewrite Nat.add_0_r. reflexivity.
  - inversion H as [|? ? Hq HP]; subst. cbn [atp_loop1]. unfold qb in Hq.
    replace (rt iv >=? t) with false by lia. replace (t - re iv >=? 0) with true by lia.
    rewrite IH by auto. replace (S seen + length P)%nat with (seen + S (length P))%nat by lia.
    destruct P as [|x P']; reflexivity.
Qed.

Lemma loop1_stop t Tl prev seen :
  sep Tl -> match Tl with [] => True | iv :: _ => qb t iv = false end ->
  atp_loop1 t Tl prev seen = (prev, seen).
Proof.
  destruct Tl as [|iv Tl']; intros Hs Hq; [reflexivity|]. cbn [atp_loop1].
  destruct (rt iv >=? t) eqn:E; [reflexivity|]. unfold qb in Hq.
  replace (t - re iv >=? 0) with false by lia.
  destruct Tl' as [|iv' Tl'']; [reflexivity|]. cbn [atp_loop1].
  destruct Hs as [S1 _]. inversion S1; subst.
  replace (rt iv' >=? t) with true by lia. reflexivity.
Qed.

Lemma loop2_spec e : forall Tl,
  sorted Tl ->
  atp_loop2 e Tl =
  match map (fun iv => rt iv - e) (filter (fun iv => rt iv >=? e) Tl) with
  | [] => -1
  | x :: r => minl x r
  end.
Proof.
  induction Tl as [|iv Tl IH]; intros Hs; [reflexivity|]. destruct Hs as [H1 H2].
  cbn [atp_loop2 filter].
  destruct (rt iv <? e) eqn:E.
  - replace (rt iv >=? e) with false by lia. apply IH, H2.
  - replace (rt iv >=? e) with true by lia. cbn [map].
    symmetry. apply minl_eq; [left; reflexivity|]. constructor; [lia|].
    apply Forall_forall. intros y Hy. apply in_map_iff in Hy as (b & <- & Hb).
    apply filter_In in Hb as [Hb _]. rewrite Forall_forall in H1. specialize (H1 _ Hb). lia.
Qed.

(* ---------- one thing ---------- *)
Lemma atp_step th ivs seen :
  sep ivs -> nonnegP ivs -> rt th <= re th ->
  let k := prefix_len (qb (rt th)) ivs in
  (seen = 0 \/ seen < k)%nat ->
  atp_loop1 (rt th) (skipn seen ivs) (-1) seen = (prev_spec ivs th, k) /\
  atp_loop2 (re th) (skipn k ivs) = next_spec ivs th.
Proof.
  intros Hs Hn Hle k Hseen. set (t := rt th) in *.
  set (P := firstn k ivs). set (Tl := skipn k ivs).
  assert (Hsplit : ivs = P ++ Tl) by (symmetry; apply firstn_skipn).
  assert (HP : Forall (fun iv => qb t iv = true) P) by apply prefix_len_firstn.
  assert (HS : Forall (fun iv => qb t iv = false) Tl) by (apply q_tail_false; auto).
  assert (HlenP : length P = k) by (apply firstn_length_le, prefix_len_le).
  assert (HsepS : sep Tl) by (rewrite Hsplit in Hs; eapply sep_app_r; eauto).
  assert (HmonoP : re_mono P) by (apply re_mono_firstn, sep_re_mono; auto).
  (* value of the spec for "previous" *)
  assert (Hprev : prev_spec ivs th = match P with [] => -1 | _ => t - re (last P row0) end).
  { unfold prev_spec. change (fun iv => (rt iv <? rt th) && (re iv <=? rt th)) with (qb t).
    rewrite Hsplit at 1. rewrite filter_app, (filter_all _ _ HP), (filter_none _ _ HS), app_nil_r.
    destruct P as [|x r] eqn:EP; [reflexivity|]. cbn [map].
    apply minl_eq.
    - change (In (t - re (last (x :: r) row0)) (map (fun iv => t - re iv) (x :: r))).
      apply in_map_iff. exists (last (x :: r) row0). split; [reflexivity|]. apply last_in. discriminate.
    - change (Forall (fun y => t - re (last (x :: r) row0) <= y) (map (fun iv => t - re iv) (x :: r))).
      apply Forall_forall. intros y Hy. apply in_map_iff in Hy as (b & <- & Hb).
      pose proof (re_mono_last _ _ HmonoP Hb). lia. }
  split.
  - rewrite Hsplit at 1. rewrite skipn_app. replace (seen - length P)%nat with 0%nat by lia.
    change (skipn 0 Tl) with Tl.
    rewrite loop1_prefix by (apply Forall_skipn; exact HP).
    rewrite loop1_stop; [|exact HsepS|destruct Tl; [exact I|inversion HS; auto]].
    rewrite skipn_length, Hprev. f_equal; [|lia].
    destruct Hseen as [->|Hlt].
    + reflexivity.
    + destruct (skipn seen P) as [|y r] eqn:Esk.
      * apply (f_equal (@length _)) in Esk. rewrite skipn_length in Esk. cbn in Esk. lia.
      * rewrite <- Esk, last_skipn by lia. destruct P; [cbn in HlenP; lia|reflexivity].
  - fold Tl. rewrite loop2_spec.
    + unfold next_spec. rewrite Hsplit at 1. rewrite filter_app.
      rewrite (filter_none _ P); [reflexivity|].
      eapply Forall_impl; [|exact HP]. cbn. intros iv Hq. unfold qb in Hq. lia.
    + apply sep_sorted; auto. unfold Tl. apply Forall_skipn. exact Hn.
Qed.

(* ---------- all things ---------- *)
Lemma atp_go_spec ivs : sep ivs -> nonnegP ivs -> forall things seen,
  sorted things -> nonnegP things ->
  (match things with [] => True | th :: _ => (seen = 0 \/ seen < prefix_len (qb (rt th)) ivs)%nat end) ->
  atp_go things ivs seen = map (fun th => (prev_spec ivs th, next_spec ivs th)) things.
Proof.
  intros Hs Hn. induction things as [|th rest IH]; intros seen Hst Hnt Hseen; [reflexivity|].
  destruct Hst as [St1 St2]. inversion Hnt as [|? ? Hth Hrest]; subst.
  cbn [atp_go map].
  destruct (atp_step th ivs seen Hs Hn Hth Hseen) as [H1 H2]. rewrite H1, H2. f_equal.
  apply IH; auto.
  destruct rest as [|th' rest']; [exact I|].
  inversion St1 as [|? ? Hle _]; subst.
  pose proof (prefix_len_mono (qb (rt th)) (qb (rt th')) ivs (fun x => q_mono _ _ x Hle)) as Hm.
  destruct (prefix_len (qb (rt th)) ivs) as [|k]; [left; reflexivity|right; cbn; lia].
Qed.

Definition atp_pre (things ivs : list row) : Prop :=
  check_time_sorted (map rt things) = true /\ check_nonneg_length things = true /\
  check_not_overlapping ivs = true /\ check_nonneg_length ivs = true.

Theorem abs_time_to_prev_next_spec things ivs :
  atp_pre things ivs ->
  abs_time_to_prev_next_interval things ivs =
  Ok (negb (check_time_sorted (map re things)), atp_spec things ivs).
Proof.
  intros (H1 & H2 & H3 & H4).
  assert (Hn : nonnegP ivs) by (apply check_nonneg_iff; auto).
  assert (Hs : sep ivs) by (apply check_not_overlapping_sep; auto).
  assert (H5 : check_time_sorted (map rt ivs) = true) by (apply check_time_sorted_iff, sep_sorted; auto).
  unfold abs_time_to_prev_next_interval. rewrite H1, H5. cbn [negb].
  destruct things as [|th things]; [destruct ivs; reflexivity|].
  destruct ivs as [|iv ivs]; [reflexivity|].
  f_equal. f_equal. unfold atp_spec.
  apply atp_go_spec; auto.
  - apply check_time_sorted_iff; auto.
  - apply check_nonneg_iff; auto.
Qed.

(* with intervals of positive length the natural definition of "previous" coincides *)
Lemma prev_spec_nat_eq ivs th :
  Forall (fun iv => rt iv < re iv) ivs -> prev_spec_nat ivs th = prev_spec ivs th.
Proof.
  intros H. unfold prev_spec_nat, prev_spec.
  replace (filter (fun iv => re iv <=? rt th) ivs)
    with (filter (fun iv => (rt iv <? rt th) && (re iv <=? rt th)) ivs); [reflexivity|].
  apply filter_ext_in. intros iv Hiv. rewrite Forall_forall in H. specialize (H _ Hiv). lia.
Qed.

Theorem abs_time_to_prev_next_unsorted_rejected things ivs :
  (~ sorted things -> abs_time_to_prev_next_interval things ivs = Err 1) /\
  (sorted things -> ~ sorted ivs -> abs_time_to_prev_next_interval things ivs = Err 2).
Proof.
  unfold abs_time_to_prev_next_interval. split.
  - intros H. rewrite <- check_time_sorted_iff in H.
    destruct (check_time_sorted (map rt things)); [congruence|reflexivity].
  - intros H1 H2. rewrite <- check_time_sorted_iff in H1, H2. rewrite H1. cbn [negb].
    destruct (check_time_sorted (map rt ivs)); [congruence|reflexivity].
Qed.

Example atp_pre_example :
  let things := [mkrow 5 6 0 0; mkrow 6 6 1 0; mkrow 10 12 2 0; mkrow 30 31 3 0] in
  let ivs := [mkrow 0 1 0 0; mkrow 2 3 1 0; mkrow 3 6 2 0; mkrow 7 8 3 0; mkrow 20 21 4 0] in
  atp_pre things ivs /\
  abs_time_to_prev_next_interval things ivs = Ok (false, [(2, 1); (0, 1); (2, 8); (9, -1)]).
Proof. vm_compute. repeat split; reflexivity. Qed.
