(* Property C16: rechunk on load (StorageBackend._read_format_split_chunk with rechunk=True). *)
From SV Require Import Model.Rows Model.SplitArray Model.Chunk Model.Rechunker Model.CopyRechunk
     Proof.RowsFacts Proof.SplitArrayProof Proof.ChunkProof Proof.RechunkerProof Proof.RechunkerStrong
     Proof.CopyRechunkProof.

(* one stored chunk cut on its own: never fails for a positive target, pieces partition the rows, tile the
   chunk's range, and every new boundary lies strictly inside a row-free gap of the chunk *)
Lemma split_on_load_ok c t :
  wf c -> 0 < t ->
  exists pieces, split_on_load c t = Ok pieces /\ pieces <> [] /\ Forall wf pieces /\
    flat_map crows pieces = crows c /\ chain (cstart c) pieces (cend c) /\ Forall (compat c) pieces /\
    Forall (cut_ok c) (removelast pieces).
Proof.
  intros Hwf Ht.
  destruct (get_splits_ok (crows c) t DEFAULT_CHUNK_SPLIT_NS Ht) as (l & El & gs & -> & Hs & Hinc).
  assert (HG : GapsRel (crows c) (nat_diffs (0%nat :: gs))).
  { change (crows c) with (skipn 0 (crows c)). apply good_splits_rel; [exact Hs|].
    intros g Hg. apply gap_indices_isgap; [|apply Hinc; exact Hg].
    destruct Hwf as (H0 & _ & _ & HF). eapply Forall_impl; [|exact HF]. cbn. intros; lia. }
  destruct (split_off_correct _ c Hwf HG) as (out & c' & Eo & Wo & Wc & Ro & Co & Mo).
  pose proof (split_off_cuts _ c out c' Hwf HG Eo) as Hcuts.
  exists (out ++ [c']). unfold split_on_load. rewrite El. cbn [res_bind]. rewrite Eo. cbn [res_bind].
  split; [reflexivity|]. split; [destruct out; discriminate|]. split; [apply Forall_app; split; auto|].
  split; [rewrite flat_map_app; cbn [flat_map]; rewrite app_nil_r; exact Ro|]. split; [exact Co|].
  split; [exact Mo|]. rewrite removelast_last. exact Hcuts.
Qed.

Section OnLoad.
Context {bytes : Type} (dec : Z -> bytes -> option (list row)).

Lemma load_from_onload (s : stored bytes) t : 0 < t -> forall cis i cs,
  load_from dec s None None None i cis = Ok cs -> Forall wf cs ->
  exists out, load_from dec s None None (Some t) i cis = Ok out /\ Forall wf out /\
    flat_map crows out = flat_map crows cs /\ (forall a b, chain a cs b -> chain a out b) /\
    (cs <> [] -> out <> []).
Proof.
  intros Ht. induction cis as [|ci cis IH]; intros i cs H Hwf; cbn [load_from selected] in *.
  - inversion H; subst. exists []. repeat split; auto.
  - destruct (read_chunk dec s None ci) as [c|e] eqn:Ec; cbn [res_bind] in *; [|discriminate].
    destruct (load_from dec s None None None (S i) cis) as [more|e] eqn:E; cbn [res_bind] in *; [|discriminate].
    inversion H; subst cs. clear H. inversion Hwf as [|? ? Wc Wm]; subst.
    destruct (split_on_load_ok c t Wc Ht) as (pieces & Ep & Pne & Pw & Pr & Pc & _).
    destruct (IH (S i) more E Wm) as (out & Eo & Ow & Or & Oc & _).
    exists (pieces ++ out). rewrite Ep. cbn [res_bind]. rewrite Eo. cbn [res_bind].
    split; [reflexivity|]. split; [apply Forall_app; split; auto|].
    split; [rewrite flat_map_app, Pr, Or; reflexivity|]. split.
    + intros a b Hch. cbn in Hch. destruct Hch as [Ha Hch]. apply chain_app. exists (cend c).
      split; [rewrite <- Ha; exact Pc|apply Oc; exact Hch].
    + intros _. destruct pieces; [congruence|discriminate].
Qed.

(* loading through a rechunk_on_load plugin: same rows, well-formed, contiguous over the same range *)
Theorem rechunk_on_load_preserves (s : stored bytes) cs t :
  load dec s None None None = Ok cs -> valid_stream cs -> 0 < t ->
  exists out, load dec s None None (Some t) = Ok out /\ out <> [] /\ Forall wf out /\
    flat_map crows out = flat_map crows cs /\ chain (stream_start cs) out (stream_end cs).
Proof.
  intros HL HV Ht. destruct (valid_vstream cs HV) as (dt & run & Hne & Hwf & _ & Hch).
  unfold load in *. destruct (md_chunks s) as [|ci cis]; [discriminate|].
  destruct (load_from_onload s t Ht _ _ _ HL Hwf) as (out & E & W & R & C & N).
  exists out. repeat split; auto.
Qed.
End OnLoad.
