(* The boolean checkers of the wrappers (what strax really verifies) and the Prop-level
   preconditions they establish. *)
From SV Require Import Model.Rows Model.Intervals Spec.IntervalDefs Proof.RowsFacts.

(* pairwise separation of containers: every earlier container ends at or before every later start *)
Fixpoint sep (cs : list row) : Prop :=
  match cs with
  | [] => True
  | c :: r => Forall (fun c' => re c <= rt c') r /\ sep r
  end.

Lemma sep_app_r l1 l2 : sep (l1 ++ l2) -> sep l2.
Proof. induction l1 as [|x l1 IH]; cbn [app sep]; [auto|]. intros [_ H]. auto. Qed.

Lemma sep_app_l l1 l2 : sep (l1 ++ l2) -> sep l1.
Proof.
  induction l1 as [|x l1 IH]; cbn [app sep]; [auto|]. intros [H1 H2].
  apply Forall_app in H1 as [H1 _]. split; auto.
Qed.

Lemma sep_app_cross l1 l2 : sep (l1 ++ l2) -> Forall (fun a => Forall (fun b => re a <= rt b) l2) l1.
Proof.
  induction l1 as [|x l1 IH]; cbn [app sep]; [constructor|]. intros [H1 H2].
  apply Forall_app in H1 as [_ H1]. constructor; auto.
Qed.

Definition nonnegP (rs : list row) : Prop := Forall (fun r => rt r <= re r) rs.
Definition ends_sorted (rs : list row) : Prop := sorted (map (fun r => mkrow (re r) (re r) 0 0) rs).

Lemma check_nonneg_iff rs : check_nonneg_length rs = true <-> nonnegP rs.
Proof.
  unfold check_nonneg_length, nonnegP. rewrite forallb_forall, Forall_forall.
  split; intros H x Hx; specialize (H x Hx); lia.
Qed.

Lemma zsorted_from_iff p rs :
  zsorted_from p (map rt rs) = true <-> Forall (fun q => p <= rt q) rs /\ sorted rs.
Proof.
  revert p; induction rs as [|r rs IH]; intros p; cbn [map zsorted_from sorted].
  - split; [intros _; split; [constructor|exact I]|reflexivity].
  - rewrite andb_true_iff, IH. split.
    + intros [H1 [H2 H3]]. split; [constructor; [lia|]|split; auto].
      eapply Forall_impl; [|exact H2]. cbn; intros; lia.
    + intros [H1 [H2 H3]]. inversion H1; subst. split; [lia|]. split; auto.
Qed.

Lemma check_time_sorted_iff rs : check_time_sorted (map rt rs) = true <-> sorted rs.
Proof.
  destruct rs as [|r rs]; cbn [map check_time_sorted sorted]; [tauto|].
  rewrite zsorted_from_iff. tauto.
Qed.

Lemma check_ends_sorted_iff rs : check_time_sorted (map re rs) = true <-> ends_sorted rs.
Proof.
  unfold ends_sorted. rewrite <- check_time_sorted_iff. rewrite map_map. cbn [rt]. tauto.
Qed.

(* sortedness in a form convenient for ends *)
Lemma ends_sorted_cons r rs :
  ends_sorted (r :: rs) <-> Forall (fun q => re r <= re q) rs /\ ends_sorted rs.
Proof.
  unfold ends_sorted. cbn [map sorted]. rewrite Forall_map. cbn [rt]. tauto.
Qed.

Lemma nonoverlap_from_sep p rs :
  nonoverlap_from p rs = true -> nonnegP rs -> Forall (fun q => p <= rt q) rs /\ sep rs.
Proof.
  revert p; induction rs as [|r rs IH]; intros p H Hn; cbn [nonoverlap_from sep] in *.
  - split; [constructor|exact I].
  - apply andb_true_iff in H as [H1 H2]. inversion Hn as [|? ? Hr Hn']; subst.
    destruct (IH _ H2 Hn') as [F S]. split; [constructor; [lia|]|split; auto].
    eapply Forall_impl; [|exact F]. cbn; intros; lia.
Qed.

Lemma check_not_overlapping_sep rs :
  check_not_overlapping rs = true -> nonnegP rs -> sep rs.
Proof.
  destruct rs as [|r rs]; cbn [check_not_overlapping sep]; [auto|].
  intros H Hn. inversion Hn; subst. apply nonoverlap_from_sep in H; auto.
Qed.

Lemma sep_nonoverlap_from p rs :
  Forall (fun q => p <= rt q) rs -> sep rs -> nonoverlap_from p rs = true.
Proof.
  revert p; induction rs as [|r rs IH]; intros p F S; cbn [nonoverlap_from sep] in *; [reflexivity|].
  inversion F; subst. destruct S as [S1 S2]. apply andb_true_iff. split; [lia|]. apply IH; auto.
Qed.

Lemma sep_check_not_overlapping rs : sep rs -> check_not_overlapping rs = true.
Proof.
  destruct rs as [|r rs]; cbn [check_not_overlapping sep]; [auto|]. intros [S1 S2].
  apply sep_nonoverlap_from; auto.
Qed.

(* separated containers of non-negative length are sorted by start *)
Lemma sep_sorted rs : sep rs -> nonnegP rs -> sorted rs.
Proof.
  induction rs as [|r rs IH]; cbn [sep sorted]; [auto|]. intros [S1 S2] Hn.
  inversion Hn; subst. split; [|auto]. eapply Forall_impl; [|exact S1]. cbn; intros; lia.
Qed.

(* first_idx facts *)
Lemma first_idx_app_false {A} (p : A -> bool) pre l i :
  Forall (fun x => p x = false) pre -> first_idx p (pre ++ l) i = first_idx p l (i + length pre).
Proof.
  revert i; induction pre as [|x pre IH]; intros i H; cbn [app first_idx length].
  - f_equal. lia.
  - inversion H; subst. rewrite H2, IH by auto. f_equal. lia.
Qed.

Lemma first_idx_all_false {A} (p : A -> bool) l i :
  Forall (fun x => p x = false) l -> first_idx p l i = -1.
Proof.
  revert i; induction l as [|x l IH]; intros i H; cbn [first_idx]; [reflexivity|].
  inversion H; subst. rewrite H2. auto.
Qed.

Lemma first_idx_ext_in {A} (p q : A -> bool) l i :
  (forall x, In x l -> p x = q x) -> first_idx p l i = first_idx q l i.
Proof.
  revert i; induction l as [|x l IH]; intros i H; cbn [first_idx]; [reflexivity|].
  rewrite (H x) by (left; auto). rewrite IH; [reflexivity|]. intros y Hy. apply H. right; auto.
Qed.

Lemma first_idx_range {A} (p : A -> bool) l i :
  first_idx p l i = -1 \/ Z.of_nat i <= first_idx p l i < Z.of_nat (i + length l).
Proof.
  revert i; induction l as [|x l IH]; intros i; cbn [first_idx length]; [left; reflexivity|].
  destruct (p x); [right; lia|]. destruct (IH (S i)) as [H|H]; [left; auto|right; lia].
Qed.
