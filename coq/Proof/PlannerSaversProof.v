(* C11 — proofs about the planner model, part 2: reachability and the saving loop. *)
From SV Require Import Spec.PlannerSpec Proof.PlannerProof.

Local Open Scope nat_scope.

Lemma fold_res_err {A S} (f : A -> S -> res S) : forall l s e,
  fold_res f l s = Err e -> exists x s1, In x l /\ f x s1 = Err e.
Proof.
  induction l as [|x l IH]; intros s e H; cbn [fold_res] in H; [discriminate|].
  destruct (f x s) as [s'|e'] eqn:E; cbn [res_bind] in H.
  - apply IH in H. destruct H as [y [s1 [Hin Hf]]]. exists y, s1. split; [right; exact Hin | exact Hf].
  - inversion H; subst. exists x, s. split; [left; reflexivity | exact E].
Qed.

Section Planner.
  Variables (g : graph) (cx : context) (rq : request).
  Notation ld := (loadable (c_fes cx)).
  Notation sfe := (saver_frontends (c_fes cx)).

  Lemma reach_trans a b c : reach g cx a b -> reach g cx b c -> reach g cx a c.
  Proof.
    intros Hab Hbc. induction Hbc as [|x j p y Hbx IH Hu Hp Hin]; [exact Hab|].
    eapply reach_step; eauto.
  Qed.

  Lemma reach_needed a b : needed g cx rq a -> reach g cx a b -> needed g cx rq b.
  Proof.
    intros Ha Hab. induction Hab as [|x j p y Hax IH Hu Hp Hin]; [exact Ha|].
    eapply needed_dep; eauto.
  Qed.

  Lemma needed_reach b : needed g cx rq b -> exists t, In t (r_targets rq) /\ reach g cx t b.
  Proof.
    intros H. induction H as [d Hd | d j p d' Hn [t [Ht Hr]] Hu Hp Hin].
    - exists d. split; [exact Hd | apply reach_refl].
    - exists t. split; [exact Ht | eapply reach_step; eauto].
  Qed.

  Lemma has_saver_In sv d : has_saver sv d = true <-> In d (map fst sv).
  Proof.
    unfold has_saver. rewrite existsb_exists, in_map_iff. split.
    - intros [x [Hin He]]. apply Nat.eqb_eq in He. exists x. auto.
    - intros [x [He Hin]]. exists x. split; [exact Hin | apply Nat.eqb_eq; exact He].
  Qed.

  (* what the saving loop guarantees for the outputs it has gone over *)
  Definition outs_saved (p : plugin) (outs : list dt) (sv : list (dt * list nat)) : Prop :=
    forall d2, In d2 outs -> ld d2 = false ->
      conflict rq p d2 = false /\
      (admits rq p d2 = true -> sfe d2 <> [] -> In (d2, sfe d2) sv).

  Definition new_entry (p : plugin) (outs : list dt) (e : dt * list nat) : Prop :=
    In (fst e) outs /\ ld (fst e) = false /\ admits rq p (fst e) = true /\
    snd e = sfe (fst e) /\ snd e <> [].

  Lemma add_savers_ok p : forall outs sv sv',
    add_savers cx rq p outs sv = Ok sv' ->
    (forall e, In e sv -> snd e = sfe (fst e)) ->
    incl sv sv' /\
    outs_saved p outs sv' /\
    (forall e, In e sv' -> In e sv \/ new_entry p outs e) /\
    (NoDup (map fst sv) -> NoDup (map fst sv')).
  Proof.
    induction outs as [|d2 rest IH]; intros sv sv' H Hk; cbn [add_savers] in H.
    - inversion H; subst. split; [apply incl_refl|]. split; [intros ? []|]. split; [auto|auto].
    - assert (Hlift : forall e, new_entry p rest e -> new_entry p (d2 :: rest) e).
      { intros e [? ?]. split; [right; assumption | assumption]. }
      destruct (ld d2) eqn:Eld.
      + destruct (IH _ _ H Hk) as [I1 [I2 [I3 I4]]]. split; [exact I1|]. split.
        * intros y [->|Hy] Hl; [congruence | apply I2; assumption].
        * split; [|exact I4]. intros e He. destruct (I3 e He) as [?|?]; [left; assumption | right; auto].
      + rewrite should_save_spec in H. destruct (conflict rq p d2) eqn:Ec; cbn [res_bind] in H; [discriminate|].
        destruct (negb (admits rq p d2) || has_saver sv d2) eqn:Eskip.
        * destruct (IH _ _ H Hk) as [I1 [I2 [I3 I4]]]. split; [exact I1|]. split.
          -- intros y [->|Hy] Hl; [|apply I2; assumption]. split; [exact Ec|].
             intros Ha Hne. rewrite Ha in Eskip. cbn in Eskip.
             apply has_saver_In in Eskip. apply in_map_iff in Eskip. destruct Eskip as [[k fl] [Hk1 Hk2]].
             cbn in Hk1. subst k. pose proof (Hk _ Hk2) as Hfl. cbn in Hfl. subst fl. apply I1. exact Hk2.
          -- split; [|exact I4]. intros e He. destruct (I3 e He) as [?|?]; [left; assumption | right; auto].
        * apply orb_false_iff in Eskip. destruct Eskip as [Ea Ehs]. apply negb_false_iff in Ea.
          destruct (sfe d2) as [|f0 fl] eqn:Esf.
          -- destruct (IH _ _ H Hk) as [I1 [I2 [I3 I4]]]. split; [exact I1|]. split.
             ++ intros y [->|Hy] Hl; [|apply I2; assumption]. split; [exact Ec|]. intros _ Hne. congruence.
             ++ split; [|exact I4]. intros e He. destruct (I3 e He) as [?|?]; [left; assumption | right; auto].
          -- assert (Hk' : forall e, In e ((d2, f0 :: fl) :: sv) -> snd e = sfe (fst e)).
             { intros e [<-|He]; [cbn; congruence | apply Hk; exact He]. }
             destruct (IH _ _ H Hk') as [I1 [I2 [I3 I4]]]. split; [intros e He; apply I1; right; exact He|]. split.
             ++ intros y [->|Hy] Hl; [|apply I2; assumption]. split; [exact Ec|]. intros _ _.
                apply I1. left. congruence.
             ++ split.
                ** intros e He. destruct (I3 e He) as [[<-|?]|?].
                   --- right. unfold new_entry. cbn. split; [left; reflexivity|]. split; [exact Eld|].
                       split; [exact Ea|]. split; [congruence | discriminate].
                   --- left. assumption.
                   --- right. auto.
                ** intros Hnd. apply I4. cbn. constructor; [|exact Hnd].
                   intros Hin. apply has_saver_In in Hin. congruence.
  Qed.

  Lemma add_savers_err p : forall outs sv e,
    add_savers cx rq p outs sv = Err e ->
    e = E_VALUE /\ exists d2, In d2 outs /\ ld d2 = false /\ conflict rq p d2 = true.
  Proof.
    induction outs as [|d2 rest IH]; intros sv e H; cbn [add_savers] in H; [discriminate|].
    destruct (ld d2) eqn:Eld.
    - destruct (IH _ _ H) as [He [y [Hy ?]]]. split; [exact He|]. exists y. split; [right; exact Hy | assumption].
    - rewrite should_save_spec in H. destruct (conflict rq p d2) eqn:Ec; cbn [res_bind] in H.
      + inversion H. split; [reflexivity|]. exists d2. split; [left; reflexivity | auto].
      + assert (Hrest : exists sv1, add_savers cx rq p rest sv1 = Err e).
        { destruct (negb (admits rq p d2) || has_saver sv d2); [eauto|].
          destruct (sfe d2); eauto. }
        destruct Hrest as [sv1 H1]. destruct (IH _ _ H1) as [He [y [Hy ?]]].
        split; [exact He|]. exists y. split; [right; exact Hy | assumption].
  Qed.

  (* ---- saver_part ---- *)

  (* x (an output of p that has just been computed) has been through the saving part *)
  Definition saver_done (sv : list (dt * list nat)) (p : plugin) (x : dt) : Prop :=
    p_temp p = false ->
    conflict rq p x = false /\
    (save_loop_entered cx rq p x -> outs_saved p (p_prov p) sv).

  Lemma saver_part_ok p d st st' :
    saver_part cx rq p d st = Ok st' ->
    (forall e, In e (s_savers st) -> snd e = sfe (fst e)) ->
    s_seen st' = s_seen st /\ s_loaders st' = s_loaders st /\ s_compute st' = s_compute st /\
    incl (s_savers st) (s_savers st') /\
    saver_done (s_savers st') p d /\
    (forall e, In e (s_savers st') -> In e (s_savers st) \/
         (save_loop_entered cx rq p d /\ new_entry p (p_prov p) e)) /\
    (NoDup (map fst (s_savers st)) -> NoDup (map fst (s_savers st'))).
  Proof.
    unfold saver_part. intros H Hk.
    assert (Hsame : forall (Hd : saver_done (s_savers st) p d),
      s_seen st = s_seen st /\ s_loaders st = s_loaders st /\ s_compute st = s_compute st /\
      incl (s_savers st) (s_savers st) /\
      saver_done (s_savers st) p d /\
      (forall e, In e (s_savers st) -> In e (s_savers st) \/
           (save_loop_entered cx rq p d /\ new_entry p (p_prov p) e)) /\
      (NoDup (map fst (s_savers st)) -> NoDup (map fst (s_savers st)))).
    { intros Hd. split; [reflexivity|]. split; [reflexivity|]. split; [reflexivity|].
      split; [apply incl_refl|]. split; [exact Hd|]. split; [intros e He; left; exact He | auto]. }
    destruct (p_temp p) eqn:Et.
    - inversion H; subst. apply Hsame. intros Hc. congruence.
    - rewrite should_save_spec in H. destruct (conflict rq p d) eqn:Ec; cbn [res_bind] in H; [discriminate|].
      destruct (negb (admits rq p d) && negb (multi_output p)) eqn:E1.
      + inversion H; subst. apply Hsame. intros _. split; [exact Ec|].
        intros [_ [_ [Ha|Hm]]]; apply andb_true_iff in E1; destruct E1 as [E1 E2].
        * rewrite Ha in E1. discriminate.
        * rewrite Hm in E2. discriminate.
      + destruct (partial_request cx rq) eqn:Ep.
        * inversion H; subst. apply Hsame. intros _. split; [exact Ec|]. intros [_ [Hp _]]. congruence.
        * destruct (add_savers cx rq p (p_prov p) (s_savers st)) as [sv|e] eqn:Ea; cbn [res_bind] in H; [|discriminate].
          inversion H; subst. cbn [s_seen s_loaders s_compute s_savers].
          destruct (add_savers_ok _ _ _ _ Ea Hk) as [I1 [I2 [I3 I4]]].
          assert (Hent : save_loop_entered cx rq p d).
          { split; [exact Et|]. split; [exact Ep|]. apply andb_false_iff in E1.
            destruct E1 as [E1|E1]; apply negb_false_iff in E1; auto. }
          split; [reflexivity|]. split; [reflexivity|]. split; [reflexivity|]. split; [exact I1|].
          split; [intros _; split; [exact Ec | intros _; exact I2]|].
          split; [|exact I4]. intros e He. destruct (I3 e He); auto.
  Qed.

  Lemma saver_part_err p d st e :
    saver_part cx rq p d st = Err e ->
    e = E_VALUE /\ p_temp p = false /\
    (conflict rq p d = true \/
     (save_loop_entered cx rq p d /\ exists d2, In d2 (p_prov p) /\ ld d2 = false /\ conflict rq p d2 = true)).
  Proof.
    unfold saver_part. intros H. destruct (p_temp p) eqn:Et; [discriminate|].
    rewrite should_save_spec in H. destruct (conflict rq p d) eqn:Ec; cbn [res_bind] in H.
    - inversion H. auto.
    - destruct (negb (admits rq p d) && negb (multi_output p)) eqn:E1; [discriminate|].
      destruct (partial_request cx rq) eqn:Ep; [discriminate|].
      destruct (add_savers cx rq p (p_prov p) (s_savers st)) as [sv|e'] eqn:Ea; cbn [res_bind] in H; [discriminate|].
      inversion H; subst. destruct (add_savers_err _ _ _ _ Ea) as [He Hd2].
      split; [exact He|]. split; [reflexivity|]. right. split; [|exact Hd2].
      split; [exact Et|]. split; [exact Ep|]. apply andb_false_iff in E1.
      destruct E1 as [E1|E1]; apply negb_false_iff in E1; auto.
  Qed.
End Planner.
