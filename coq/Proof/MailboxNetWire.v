(* C13: the wiring computed by `wire` (the model of ThreadedMailboxProcessor.__init__) is well-formed for
   every valid set of components. *)
From SV Require Import Base.Prelude Model.Mailbox Model.MailboxNet
  Proof.MailboxFacts Proof.MailboxProof Proof.MailboxInOrder Proof.MailboxNetLift Proof.MailboxStepFacts
  Proof.MailboxNetFlow Proof.MailboxNetBound.
From Coq Require Import Permutation.
Local Open Scope nat_scope.

(* ---------- the table of mailboxes under construction ---------- *)
Definition keys (ws : wstate) : list mkey := map fst ws.

Lemma mkey_eqb_eq a b : mkey_eqb a b = true <-> a = b.
Proof.
  destruct a, b; cbn; split; intros H; try discriminate; try (apply Nat.eqb_eq in H; congruence);
    inversion H; apply Nat.eqb_refl.
Qed.
Lemma mkey_eqb_refl a : mkey_eqb a a = true. Proof. apply mkey_eqb_eq. reflexivity. Qed.
Lemma mkey_eqb_neq a b : a <> b -> mkey_eqb a b = false.
Proof. intros H. destruct (mkey_eqb a b) eqn:E; auto. apply mkey_eqb_eq in E. contradiction. Qed.

Lemma idx_some_in k ws : forall m, ws_index k ws = Some m -> In k (keys ws).
Proof.
  induction ws as [|[k' ds'] t IH]; intros m; cbn [ws_index keys map In fst]; [discriminate|].
  destruct (mkey_eqb k k') eqn:E.
  - apply mkey_eqb_eq in E. intros _. left. congruence.
  - destruct (ws_index k t) eqn:Ei; cbn [option_map]; [|discriminate]. intros _. right. eapply IH. reflexivity.
Qed.

Lemma idx_none k ws : ws_index k ws = None <-> ~ In k (keys ws).
Proof.
  induction ws as [|[k' ds'] t IH]; cbn [ws_index keys map In fst]; [tauto|].
  destruct (mkey_eqb k k') eqn:E.
  - apply mkey_eqb_eq in E. subst. split; [discriminate|]. intros H. exfalso. apply H. auto.
  - assert (k' <> k) by (intros ->; rewrite mkey_eqb_refl in E; discriminate).
    destruct (ws_index k t) eqn:Ei; cbn [option_map].
    + split; [discriminate|]. intros H1. exfalso. apply H1. right. eapply idx_some_in; eauto.
    + split; auto. intros _ [Hh|Hh]; [contradiction|]. apply IH in Hh; auto.
Qed.

Lemma idx_nth ws : NoDup (keys ws) -> forall k m,
  ws_index k ws = Some m <-> exists ds, nth_error ws m = Some (k, ds).
Proof.
  induction ws as [|[k' ds'] t IH]; intros Hnd k m; cbn [ws_index].
  - split; [discriminate|]. intros (ds & H). destruct m; discriminate.
  - cbn [keys map fst] in Hnd. apply NoDup_cons_iff in Hnd. destruct Hnd as [Hnot Hnd].
    destruct (mkey_eqb k k') eqn:E.
    + apply mkey_eqb_eq in E. subst k'. split.
      * intros H. inversion H; subst. exists ds'. reflexivity.
      * intros (ds & H). destruct m as [|m]; [reflexivity|]. cbn in H. exfalso. apply Hnot.
        apply nth_error_In in H. apply (in_map fst) in H. exact H.
    + split.
      * destruct (ws_index k t) eqn:Ei; cbn [option_map]; [|discriminate]. intros H. inversion H; subst.
        apply (IH Hnd) in Ei. exact Ei.
      * intros (ds & H). destruct m as [|m]; cbn in H.
        -- inversion H; subst. rewrite mkey_eqb_refl in E. discriminate.
        -- assert (Hi : ws_index k t = Some m) by (apply (IH Hnd); eauto). rewrite Hi. reflexivity.
Qed.

Lemma idx_inj ws k k' m : NoDup (keys ws) -> ws_index k ws = Some m -> ws_index k' ws = Some m -> k = k'.
Proof.
  intros Hnd H1 H2. apply (idx_nth ws Hnd) in H1. apply (idx_nth ws Hnd) in H2.
  destruct H1 as (d1 & H1). destruct H2 as (d2 & H2). congruence.
Qed.

(* ws' extends ws: the same mailboxes at the same positions, subscriber lists only grow *)
Definition ext (ws ws' : wstate) : Prop :=
  forall u k ds, nth_error ws u = Some (k, ds) ->
    exists ds', nth_error ws' u = Some (k, ds') /\ length ds <= length ds'.

Lemma ext_refl ws : ext ws ws. Proof. intros u k ds H. eauto. Qed.
Lemma ext_trans a b c : ext a b -> ext b c -> ext a c.
Proof.
  intros H1 H2 u k ds H. destruct (H1 _ _ _ H) as (d1 & A & B). destruct (H2 _ _ _ A) as (d2 & C & D).
  exists d2. split; auto. lia.
Qed.

Lemma ext_idx ws ws' k m : NoDup (keys ws) -> NoDup (keys ws') -> ext ws ws' ->
  ws_index k ws = Some m -> ws_index k ws' = Some m.
Proof.
  intros N1 N2 He H. apply (idx_nth ws N1) in H. destruct H as (ds & H).
  destruct (He _ _ _ H) as (ds' & A & _). apply (idx_nth ws' N2). eauto.
Qed.

Lemma nodup_snoc {A} (l : list A) x : NoDup l -> ~ In x l -> NoDup (l ++ [x]).
Proof.
  intros H Hn. apply (Permutation_NoDup (l := x :: l)); [apply Permutation_cons_append|constructor; auto].
Qed.

Lemma touch_spec k ws m ws' :
  NoDup (keys ws) -> ws_touch k ws = (m, ws') ->
  NoDup (keys ws') /\ ext ws ws' /\ ws_index k ws' = Some m /\
  (forall u k0 ds, nth_error ws' u = Some (k0, ds) -> nth_error ws u = Some (k0, ds) \/ (k0 = k /\ ds = [])).
Proof.
  intros Hnd. unfold ws_touch. destruct (ws_index k ws) as [m0|] eqn:E; intros H; inversion H; subst.
  - repeat split; auto using ext_refl.
  - assert (Hnot : ~ In k (keys ws)) by (apply idx_none; exact E).
    assert (Hnd' : NoDup (keys (ws ++ [(k, [])]))).
    { unfold keys. rewrite map_app. cbn [map fst]. apply nodup_snoc; auto. }
    repeat split; auto.
    + intros u k0 ds Hu. exists ds. split; auto. rewrite nth_error_app1; auto. apply nth_error_Some. congruence.
    + apply (idx_nth _ Hnd'). exists []. rewrite nth_error_app2 by lia. rewrite Nat.sub_diag. reflexivity.
    + intros u k0 ds Hu. destruct (Nat.lt_ge_cases u (length ws)) as [Hlt|Hge].
      * rewrite nth_error_app1 in Hu by auto. auto.
      * rewrite nth_error_app2 in Hu by auto. destruct (u - length ws) as [|j]; cbn in Hu.
        -- inversion Hu; auto.
        -- destruct j; discriminate.
Qed.

Definition bump (k : mkey) (b : bool) (kd : mkey * list bool) : mkey * list bool :=
  if mkey_eqb (fst kd) k then (fst kd, snd kd ++ [b]) else kd.

Lemma keys_bump k b ws : keys (map (bump k b) ws) = keys ws.
Proof.
  unfold keys. rewrite map_map. apply map_ext. intros [k0 ds]. unfold bump. cbn. destruct (mkey_eqb k0 k); reflexivity.
Qed.

Lemma subscribe_spec k b ws m i ws' :
  NoDup (keys ws) -> ws_subscribe k b ws = (m, i, ws') ->
  NoDup (keys ws') /\ ext ws ws' /\ ws_index k ws' = Some m /\
  (exists ds, nth_error ws' m = Some (k, ds) /\ length ds = S i) /\
  (forall k0 ds0, nth_error ws m = Some (k0, ds0) -> length ds0 = i) /\
  (forall u k0 ds, u <> m -> nth_error ws' u = Some (k0, ds) -> nth_error ws u = Some (k0, ds)).
Proof.
  intros Hnd. unfold ws_subscribe. destruct (ws_touch k ws) as [m0 ws1] eqn:Et.
  destruct (touch_spec _ _ _ _ Hnd Et) as (N1 & E1 & I1 & B1).
  intros H. inversion H; subst m0 ws'. clear H.
  fold (bump k b). change (map (fun kd => if mkey_eqb (fst kd) k then (fst kd, snd kd ++ [b]) else kd) ws1)
    with (map (bump k b) ws1) in *.
  assert (N2 : NoDup (keys (map (bump k b) ws1))) by (rewrite keys_bump; exact N1).
  apply (idx_nth _ N1) in I1. destruct I1 as (ds1 & I1). rewrite I1 in *.
  assert (Hm : nth_error (map (bump k b) ws1) m = Some (k, ds1 ++ [b])).
  { rewrite nth_error_map, I1. cbn. unfold bump. cbn. rewrite mkey_eqb_refl. reflexivity. }
  assert (Hoth : forall u k0 ds, u <> m -> nth_error (map (bump k b) ws1) u = Some (k0, ds) ->
                                 nth_error ws1 u = Some (k0, ds)).
  { intros u k0 ds Hu Hn. rewrite nth_error_map in Hn. destruct (nth_error ws1 u) as [[k1 d1]|] eqn:E1'; [|discriminate].
    cbn in Hn. unfold bump in Hn. cbn in Hn. destruct (mkey_eqb k1 k) eqn:Ek.
    - apply mkey_eqb_eq in Ek. subst k1. exfalso. apply Hu.
      assert (A : ws_index k ws1 = Some u) by (apply (idx_nth _ N1); eauto).
      assert (B : ws_index k ws1 = Some m) by (apply (idx_nth _ N1); eauto). congruence.
    - inversion Hn; subst. reflexivity. }
  repeat split; auto.
  - intros u k0 ds Hu. destruct (E1 _ _ _ Hu) as (d' & A & B).
    destruct (Nat.eq_dec u m) as [->|Hne].
    + rewrite I1 in A. inversion A; subst. exists (d' ++ [b]). split; auto. rewrite app_length. lia.
    + exists d'. split; auto. rewrite nth_error_map, A. cbn. unfold bump. cbn.
      destruct (mkey_eqb k0 k) eqn:Ek; auto. apply mkey_eqb_eq in Ek. subst k0. exfalso. apply Hne.
      assert (X : ws_index k ws1 = Some u) by (apply (idx_nth _ N1); eauto).
      assert (Y : ws_index k ws1 = Some m) by (apply (idx_nth _ N1); eauto). congruence.
  - apply (idx_nth _ N2). eauto.
  - exists (ds1 ++ [b]). split; auto. rewrite app_length. cbn. lia.
  - intros k0 ds0 H0. destruct (E1 _ _ _ H0) as (d' & A & B). rewrite I1 in A. inversion A; subst.
    destruct (B1 _ _ _ I1) as [Hold|[_ ->]].
    + rewrite H0 in Hold. inversion Hold; subst. reflexivity.
    + cbn in B |- *. lia.
  - intros u k0 ds Hu Hn. apply Hoth in Hn; auto. destruct (B1 _ _ _ Hn) as [Hold|[-> ->]]; auto.
    exfalso. apply Hu.
    assert (X : ws_index k ws1 = Some u) by (apply (idx_nth _ N1); eauto).
    assert (Y : ws_index k ws1 = Some m) by (apply (idx_nth _ N1); eauto). congruence.
Qed.

(* ---------- the invariant of the construction ---------- *)
Definition reader_roles (th : thread) : list (nat * nat) :=
  match th with
  | Sink u i _ => [(u, i)]
  | Worker prog _ _ => flat_map (fun o => match o with OPull u i => [(u, i)] | _ => [] end) prog
  end.
Definition gates_of (prog : list op) : list nat :=
  flat_map (fun o => match o with OGate d => [d] | _ => [] end) prog.
Definition sends_th (th : thread) : list nat :=
  match th with Worker prog _ _ => sends_of prog | Sink _ _ _ => [] end.
Definition shape_ok (th : thread) : Prop :=
  match th with
  | Worker prog pc it => pc = 0 /\ it = 0 /\ 0 < length prog /\ (forall g, In g (gates_of prog) -> In g (sends_of prog))
  | Sink _ _ _ => True
  end.

Definition subd (ws : wstate) (k : mkey) : Prop := exists u ds, nth_error ws u = Some (k, ds) /\ ds <> [].

Lemma subd_ext ws ws' k : ext ws ws' -> subd ws k -> subd ws' k.
Proof.
  intros He (u & ds & Hu & Hne). destruct (He _ _ _ Hu) as (ds' & A & B). exists u, ds'. split; auto.
  destruct ds; [congruence|]. destruct ds'; [cbn in B; lia|discriminate].
Qed.

Record WI (RD : list (nat * nat)) (SD : list nat) (SK : list mkey) (ws : wstate) : Prop := mkWI {
  wi_keys : NoDup (keys ws);
  wi_rd_nodup : NoDup RD;
  wi_rd_ok : forall u i, In (u, i) RD -> exists k ds, nth_error ws u = Some (k, ds) /\ i < length ds;
  wi_sd_nodup : NoDup SD;
  wi_sd_keys : forall m, In m SD -> exists k, In k SK /\ ws_index k ws = Some m;
  wi_cover : forall u k ds, nth_error ws u = Some (k, ds) -> ds <> [] \/ In k SK;
}.

Lemma WI_sender RD SD SK ws k m ws' :
  WI RD SD SK ws -> ~ In k SK -> ws_touch k ws = (m, ws') ->
  WI RD (SD ++ [m]) (SK ++ [k]) ws' /\ ext ws ws' /\ ws_index k ws' = Some m.
Proof.
  intros [K R RO S SKs C] Hk Ht. destruct (touch_spec _ _ _ _ K Ht) as (K' & E & I & B).
  split; [|auto]. constructor; auto.
  - intros u i Hin. destruct (RO _ _ Hin) as (k0 & ds & A & Hl). destruct (E _ _ _ A) as (ds' & A' & L).
    exists k0, ds'. split; auto. lia.
  - apply nodup_snoc; auto. intros Hin. destruct (SKs _ Hin) as (k' & Hk' & Hi).
    pose proof (ext_idx _ _ _ _ K K' E Hi) as Hi'. pose proof (idx_inj _ _ _ _ K' I Hi'). subst. contradiction.
  - intros m0 Hin. apply in_app_or in Hin. destruct Hin as [Hin|[<-|[]]].
    + destruct (SKs _ Hin) as (k' & Hk' & Hi). exists k'. split; [apply in_or_app; auto|]. exact (ext_idx _ _ _ _ K K' E Hi).
    + exists k. split; [apply in_or_app; right; left; auto|auto].
  - intros u k0 ds Hu. destruct (B _ _ _ Hu) as [Hold|[-> ->]].
    + destruct (C _ _ _ Hold); auto. right. apply in_or_app; auto.
    + right. apply in_or_app. right. left. reflexivity.
Qed.

Lemma WI_subscribe RD SD SK ws k b m i ws' :
  WI RD SD SK ws -> ws_subscribe k b ws = (m, i, ws') ->
  WI (RD ++ [(m, i)]) SD SK ws' /\ ext ws ws' /\ ws_index k ws' = Some m /\ subd ws' k.
Proof.
  intros [K R RO S SKs C] Hs. destruct (subscribe_spec _ _ _ _ _ _ K Hs) as (K' & E & I & (ds & Hm & Hl) & Hold & Hoth).
  split; [|repeat split; auto].
  - constructor; auto.
    + apply nodup_snoc; auto. intros Hin. destruct (RO _ _ Hin) as (k0 & ds0 & A & L).
      rewrite (Hold _ _ A) in L. lia.
    + intros u j Hin. apply in_app_or in Hin. destruct Hin as [Hin|[Heq|[]]].
      * destruct (RO _ _ Hin) as (k0 & ds0 & A & L). destruct (E _ _ _ A) as (ds' & A' & L').
        exists k0, ds'. split; auto. lia.
      * inversion Heq; subst. exists k, ds. split; auto. lia.
    + intros m0 Hin. destruct (SKs _ Hin) as (k' & Hk' & Hi). exists k'. split; auto. exact (ext_idx _ _ _ _ K K' E Hi).
    + intros u k0 ds0 Hu. destruct (Nat.eq_dec u m) as [->|Hne].
      * rewrite Hm in Hu. inversion Hu; subst. left. destruct ds0; [discriminate|discriminate].
      * apply (C u). apply Hoth; auto.
  - exists m, ds. split; auto. destruct ds; [discriminate|discriminate].
Qed.

Lemma WI_subscribe_all ks : forall RD SD SK ws pulls ws',
  WI RD SD SK ws -> ws_subscribe_all ks ws = (pulls, ws') ->
  WI (RD ++ pulls) SD SK ws' /\ ext ws ws' /\ (forall k, In k ks -> subd ws' k) /\
  Forall2 (fun k ui => ws_index k ws' = Some (fst ui)) ks pulls.
Proof.
  induction ks as [|k t IH]; intros RD SD SK ws pulls ws' HW H; cbn [ws_subscribe_all] in H.
  - inversion H; subst. rewrite app_nil_r. split; [exact HW|]. split; [apply ext_refl|]. split; [intros k0 []|constructor].
  - destruct (ws_subscribe k true ws) as [[m i] ws1] eqn:E1.
    destruct (ws_subscribe_all t ws1) as [l ws2] eqn:E2. inversion H; subst. clear H.
    destruct (WI_subscribe _ _ _ _ _ _ _ _ _ HW E1) as (W1 & X1 & I1 & S1).
    destruct (IH _ _ _ _ _ _ W1 E2) as (W2 & X2 & S2 & F2).
    rewrite <- app_assoc in W2. cbn [app] in W2.
    split; [exact W2|]. split; [eapply ext_trans; eauto|]. split.
    + intros k0 [<-|Hin]; [eapply subd_ext; eauto|auto].
    + constructor; auto. cbn [fst]. exact (ext_idx _ _ _ _ (wi_keys _ _ _ _ W1) (wi_keys _ _ _ _ W2) X2 I1).
Qed.

Lemma WI_touch_all ks : forall RD SD SK ws oms ws',
  WI RD SD SK ws -> NoDup ks -> (forall k, In k ks -> ~ In k SK) -> ws_touch_all ks ws = (oms, ws') ->
  WI RD (SD ++ oms) (SK ++ ks) ws' /\ ext ws ws' /\ Forall2 (fun k m => ws_index k ws' = Some m) ks oms.
Proof.
  induction ks as [|k t IH]; intros RD SD SK ws oms ws' HW Hnd Hdis H; cbn [ws_touch_all] in H.
  - inversion H; subst. rewrite !app_nil_r. split; [exact HW|]. split; [apply ext_refl|constructor].
  - destruct (ws_touch k ws) as [m ws1] eqn:E1. destruct (ws_touch_all t ws1) as [l ws2] eqn:E2.
    inversion H; subst. clear H. apply NoDup_cons_iff in Hnd. destruct Hnd as [Hk Hnd].
    destruct (WI_sender _ _ _ _ _ _ _ HW (Hdis k (or_introl eq_refl)) E1) as (W1 & X1 & I1).
    assert (Hdis' : forall k0, In k0 t -> ~ In k0 (SK ++ [k])).
    { intros k0 Hin Hin'. apply in_app_or in Hin'. destruct Hin' as [Hin'|[<-|[]]].
      - apply (Hdis k0); auto. right; auto.
      - contradiction. }
    destruct (IH _ _ _ _ _ _ W1 Hnd Hdis' E2) as (W2 & X2 & F2).
    rewrite <- !app_assoc in W2. cbn [app] in W2.
    split; [exact W2|]. split; [eapply ext_trans; eauto|].
    constructor; auto. exact (ext_idx _ _ _ _ (wi_keys _ _ _ _ W1) (wi_keys _ _ _ _ W2) X2 I1).
Qed.

Lemma nodup_app_r {A} (a b : list A) : NoDup (a ++ b) -> NoDup b.
Proof. induction a as [|x a IH]; cbn; auto. intros H. apply NoDup_cons_iff in H. tauto. Qed.
Lemma nodup_app_l {A} (a b : list A) : NoDup (a ++ b) -> NoDup a.
Proof.
  induction a as [|x a IH]; cbn; intros H; [constructor|]. apply NoDup_cons_iff in H. destruct H as [H1 H2].
  constructor; auto. intros Hin. apply H1. apply in_or_app; auto.
Qed.
Lemma nodup_app_disj {A} (a b : list A) x : NoDup (a ++ b) -> In x a -> In x b -> False.
Proof.
  induction a as [|y a IH]; cbn; intros H Ha Hb; [destruct Ha|]. apply NoDup_cons_iff in H. destruct H as [H1 H2].
  destruct Ha as [<-|Ha]; [apply H1; apply in_or_app; auto|eauto].
Qed.

(* ---------- programs ---------- *)
Definition RDs (ths : list thread) : list (nat * nat) := flat_map reader_roles ths.
Definition SDs (ths : list thread) : list nat := flat_map sends_th ths.

Definition pulls_of (prog : list op) : list (nat * nat) :=
  flat_map (fun o => match o with OPull u i => [(u, i)] | _ => [] end) prog.

Lemma pulls_of_app a b : pulls_of (a ++ b) = pulls_of a ++ pulls_of b.
Proof. apply flat_map_app. Qed.
Lemma gates_of_app a b : gates_of (a ++ b) = gates_of a ++ gates_of b.
Proof. apply flat_map_app. Qed.

Lemma pulls_of_pulls l : pulls_of (map (fun ui : nat * nat => OPull (fst ui) (snd ui)) l) = l.
Proof. induction l as [|[u i] t IH]; cbn; auto. f_equal. exact IH. Qed.
Lemma pulls_of_gates l : pulls_of (map OGate l) = [].
Proof. induction l; cbn; auto. Qed.
Lemma pulls_of_sends l : pulls_of (map OSend l) = [].
Proof. induction l; cbn; auto. Qed.
Lemma gates_of_gates l : gates_of (map OGate l) = l.
Proof. induction l as [|g t IH]; cbn; auto. f_equal. exact IH. Qed.
Lemma gates_of_sends l : gates_of (map OSend l) = [].
Proof. induction l; cbn; auto. Qed.
Lemma gates_of_pulls l : gates_of (map (fun ui : nat * nat => OPull (fst ui) (snd ui)) l) = [].
Proof. induction l; cbn; auto. Qed.
Lemma sends_of_pulls l : sends_of (map (fun ui : nat * nat => OPull (fst ui) (snd ui)) l) = [].
Proof. unfold sends_of. induction l; cbn; auto. Qed.
Lemma sends_of_gates' l : sends_of (map OGate l) = [].
Proof. unfold sends_of. induction l; cbn; auto. Qed.
Lemma sends_of_sends' l : sends_of (map OSend l) = l.
Proof. unfold sends_of. induction l as [|g t IH]; cbn; auto. f_equal. exact IH. Qed.

Lemma sender_prog_pulls lz m pulls : pulls_of (sender_prog lz m pulls) = pulls.
Proof.
  unfold sender_prog. rewrite !pulls_of_app, pulls_of_pulls. destruct lz; cbn; rewrite app_nil_r; reflexivity.
Qed.
Lemma sender_prog_sends lz m pulls : sends_of (sender_prog lz m pulls) = [m].
Proof.
  unfold sender_prog. rewrite !sends_of_app, sends_of_pulls. destruct lz; reflexivity.
Qed.
Lemma sender_prog_shape lz m pulls : shape_ok (Worker (sender_prog lz m pulls) 0 0).
Proof.
  cbn [shape_ok]. repeat split; auto.
  - unfold sender_prog. rewrite !app_length. cbn. lia.
  - intros g Hg. rewrite sender_prog_sends. unfold sender_prog in Hg.
    rewrite !gates_of_app, gates_of_pulls in Hg. destruct lz; cbn in *; tauto.
Qed.

Definition div_prog (lz : bool) (gated : list nat) (mn ri : nat) (oms : list nat) : list op :=
  (if lz then map OGate gated else []) ++ [OPull mn ri] ++ map OSend oms.

Lemma div_prog_pulls lz gated mn ri oms : pulls_of (div_prog lz gated mn ri oms) = [(mn, ri)].
Proof.
  unfold div_prog. rewrite !pulls_of_app, pulls_of_sends. destruct lz; [rewrite pulls_of_gates|]; reflexivity.
Qed.
Lemma div_prog_sends lz gated mn ri oms : sends_of (div_prog lz gated mn ri oms) = oms.
Proof.
  unfold div_prog. rewrite !sends_of_app, sends_of_sends'. destruct lz; [rewrite sends_of_gates'|]; reflexivity.
Qed.
Lemma div_prog_shape lz gated mn ri oms :
  (forall g, In g gated -> In g oms) -> shape_ok (Worker (div_prog lz gated mn ri oms) 0 0).
Proof.
  intros Hg. cbn [shape_ok]. repeat split; auto.
  - unfold div_prog. rewrite !app_length. cbn. lia.
  - intros g Hin. rewrite div_prog_sends. unfold div_prog in Hin.
    rewrite !gates_of_app, gates_of_sends in Hin. cbn in Hin. rewrite app_nil_r in Hin.
    destruct lz; [rewrite gates_of_gates in Hin; auto|destruct Hin].
Qed.

(* ---------- loaders ---------- *)
Lemma loaders_ok lz ls : forall RD SD SK ws ths ws',
  WI RD SD SK ws -> NoDup ls -> (forall d, In d ls -> ~ In (KD d) SK) ->
  wire_loaders lz ls ws = (ths, ws') ->
  WI (RD ++ RDs (map snd ths)) (SD ++ SDs (map snd ths)) (SK ++ map KD ls) ws' /\ ext ws ws' /\
  Forall shape_ok (map snd ths).
Proof.
  induction ls as [|d t IH]; intros RD SD SK ws ths ws' HW Hnd Hdis H; cbn [wire_loaders] in H.
  - inversion H; subst. cbn. rewrite !app_nil_r. split; [exact HW|]. split; [apply ext_refl|constructor].
  - destruct (ws_touch (KD d) ws) as [m ws1] eqn:E1. destruct (wire_loaders lz t ws1) as [ths1 ws2] eqn:E2.
    inversion H; subst. clear H. apply NoDup_cons_iff in Hnd. destruct Hnd as [Hd Hnd].
    destruct (WI_sender _ _ _ _ _ _ _ HW (Hdis d (or_introl eq_refl)) E1) as (W1 & X1 & I1).
    assert (Hdis' : forall d0, In d0 t -> ~ In (KD d0) (SK ++ [KD d])).
    { intros d0 Hin Hin'. apply in_app_or in Hin'. destruct Hin' as [Hin'|[Heq|[]]].
      - apply (Hdis d0); auto. right; auto.
      - inversion Heq; subst. contradiction. }
    destruct (IH _ _ _ _ _ _ W1 Hnd Hdis' E2) as (W2 & X2 & F2).
    cbn [map snd RDs SDs flat_map reader_roles sends_th]. fold (RDs (map snd ths1)) (SDs (map snd ths1)).
    change (flat_map (fun o => match o with OPull u i => [(u, i)] | _ => [] end) (sender_prog lz m []))
      with (pulls_of (sender_prog lz m [])).
    rewrite sender_prog_pulls, sender_prog_sends. cbn [app].
    rewrite <- !app_assoc in W2. cbn [app] in W2.
    split; [exact W2|]. split; [eapply ext_trans; eauto|]. constructor; [apply sender_prog_shape|exact F2].
Qed.

(* ---------- plugins ---------- *)
Definition plugin_keys (c : comps) (dq : nat * nat) : list mkey :=
  let p := pdef c (snd dq) in
  if multi_output p then KM (snd dq) :: map KD (divided c p) else [KD (fst dq)].

Lemma gated_sub (ff outs oms : list nat) g :
  In g (flat_map (fun dm : nat * nat => if memb (fst dm) ff then [] else [snd dm]) (combine outs oms)) -> In g oms.
Proof.
  intros H. apply in_flat_map in H. destruct H as ([d m] & Hin & Hg). cbn in Hg.
  destruct (memb d ff); [destruct Hg|]. destruct Hg as [<-|[]]. eapply in_combine_r; eauto.
Qed.


(* ---------- what the threads of a plugin look like in the finished wiring ---------- *)
Definition dep_idx (ws : wstate) (deps : list nat) (pulls : list (nat * nat)) : Prop :=
  Forall2 (fun dep ui => ws_index (KD dep) ws = Some (fst ui)) deps pulls.
Definition out_idx (ws : wstate) (outs oms : list nat) : Prop :=
  Forall2 (fun out m => ws_index (KD out) ws = Some m) outs oms.
Definition plugin_spec (c : comps) (lz : bool) (ws : wstate) (ths : list thread) (dq : nat * nat) : Prop :=
  let p := pdef c (snd dq) in
  if multi_output p then
    exists mn pulls gated ri oms,
      In (Worker (sender_prog lz mn pulls) 0 0) ths /\ In (Worker (div_prog lz gated mn ri oms) 0 0) ths /\
      ws_index (KM (snd dq)) ws = Some mn /\ dep_idx ws (p_deps p) pulls /\ out_idx ws (divided c p) oms
  else
    exists m pulls,
      In (Worker (sender_prog lz m pulls) 0 0) ths /\ ws_index (KD (fst dq)) ws = Some m /\
      dep_idx ws (p_deps p) pulls.

Lemma F2_impl {A B} (P Q : A -> B -> Prop) l l' : (forall a b, P a b -> Q a b) -> Forall2 P l l' -> Forall2 Q l l'.
Proof. intros H F. induction F; constructor; auto. Qed.
Lemma F2_mapl {A B C} (f : A -> B) (P : B -> C -> Prop) l l' :
  Forall2 P (map f l) l' -> Forall2 (fun a c => P (f a) c) l l'.
Proof.
  revert l'; induction l as [|x t IH]; intros l' F; inversion F; subst; constructor; auto.
Qed.

Lemma plugin_spec_mono c lz ws ws' ths ths' dq :
  NoDup (keys ws) -> NoDup (keys ws') -> ext ws ws' -> incl ths ths' ->
  plugin_spec c lz ws ths dq -> plugin_spec c lz ws' ths' dq.
Proof.
  intros N1 N2 E Hi. unfold plugin_spec. cbn zeta.
  assert (T : forall k m, ws_index k ws = Some m -> ws_index k ws' = Some m)
    by (intros k m; apply ext_idx; auto).
  destruct (multi_output (pdef c (snd dq))).
  - intros (mn & pulls & gated & ri & oms & A & B & C & D & F).
    exists mn, pulls, gated, ri, oms. repeat split; auto.
    + eapply F2_impl; [|exact D]. cbn. auto.
    + eapply F2_impl; [|exact F]. cbn. auto.
  - intros (m & pulls & A & B & D). exists m, pulls. repeat split; auto.
    eapply F2_impl; [|exact D]. cbn. auto.
Qed.

Lemma plugins_ok c lz ff l : forall RD SD SK ws ths ws',
  WI RD SD SK ws -> NoDup (flat_map (plugin_keys c) l) ->
  (forall k, In k (flat_map (plugin_keys c) l) -> ~ In k SK) ->
  wire_plugins c lz ff l ws = (ths, ws') ->
  WI (RD ++ RDs (map snd ths)) (SD ++ SDs (map snd ths)) (SK ++ flat_map (plugin_keys c) l) ws' /\ ext ws ws' /\
  Forall shape_ok (map snd ths) /\
  (forall dq dep, In dq l -> In dep (p_deps (pdef c (snd dq))) -> subd ws' (KD dep)) /\
  (forall dq, In dq l -> multi_output (pdef c (snd dq)) = true -> subd ws' (KM (snd dq))) /\
  (forall dq, In dq l -> plugin_spec c lz ws' (map snd ths) dq).
Proof.
  induction l as [|[d q] t IH]; intros RD SD SK ws ths ws' HW Hnd Hdis H; cbn [wire_plugins] in H.
  - inversion H; subst. cbn. rewrite !app_nil_r. split; [exact HW|]. split; [apply ext_refl|].
    split; [constructor|]. split; [|split]; intros dq; intros; contradiction.
  - cbn [flat_map] in Hnd, Hdis. unfold plugin_keys at 1 in Hnd. unfold plugin_keys at 1 in Hdis. cbn [fst snd] in Hnd, Hdis.
    cbn [flat_map]. unfold plugin_keys at 1. cbn [fst snd].
    destruct (multi_output (pdef c q)) eqn:Emo.
    + (* multi-output plugin: its iter feeds <Plugin>_divide_outputs, the divider feeds the outputs *)
      destruct (ws_touch (KM q) ws) as [mn ws0] eqn:E0.
      destruct (ws_subscribe_all (map KD (p_deps (pdef c q))) ws0) as [pulls ws1] eqn:E1.
      destruct (ws_touch_all (map KD (divided c (pdef c q))) ws1) as [oms ws2] eqn:E2.
      destruct (ws_subscribe (KM q) true ws2) as [[mn' ri] ws3] eqn:E3.
      destruct (wire_plugins c lz ff t ws3) as [ths1 ws4] eqn:E4.
      injection H as Eths Ews. subst ws'.
      set (outs := divided c (pdef c q)) in *.
      set (gated := flat_map (fun dm : nat * nat => if memb (fst dm) ff then [] else [snd dm]) (combine outs oms)).
      assert (ET : map snd ths = Worker (sender_prog lz mn pulls) 0 0 :: Worker (div_prog lz gated mn ri oms) 0 0
                                 :: map snd ths1) by (rewrite <- Eths; reflexivity).
      assert (Hgs : forall g, In g gated -> In g oms) by (intros g Hg; eapply gated_sub; exact Hg).
      clearbody gated. clear Eths. rewrite ET.
      cbn [app] in Hnd. apply NoDup_cons_iff in Hnd. destruct Hnd as [Hkm Hnd].
      pose proof (nodup_app_r _ _ Hnd) as Hnd_t. pose proof (nodup_app_l _ _ Hnd) as Hnd_o.
      destruct (WI_sender _ _ _ _ _ _ _ HW (Hdis _ (or_introl eq_refl)) E0) as (W0 & X0 & I0).
      destruct (WI_subscribe_all _ _ _ _ _ _ _ W0 E1) as (W1 & X1 & S1 & F1).
      assert (Hdo : forall k, In k (map KD outs) -> ~ In k (SK ++ [KM q])).
      { intros k Hin Hin'. apply in_app_or in Hin'. destruct Hin' as [Hin'|[<-|[]]].
        - apply (Hdis k); auto. right. apply in_or_app; auto.
        - apply in_map_iff in Hin. destruct Hin as (x & Hx & _). discriminate. }
      destruct (WI_touch_all _ _ _ _ _ _ _ W1 Hnd_o Hdo E2) as (W2 & X2 & F2).
      destruct (WI_subscribe _ _ _ _ _ _ _ _ _ W2 E3) as (W3 & X3 & I3 & S3).
      assert (Hdt : forall k, In k (flat_map (plugin_keys c) t) -> ~ In k ((SK ++ [KM q]) ++ map KD outs)).
      { intros k Hin Hin'. apply in_app_or in Hin'. destruct Hin' as [Hin'|Hin'].
        - apply in_app_or in Hin'. destruct Hin' as [Hin'|[<-|[]]].
          + apply (Hdis k); auto. right. apply in_or_app; auto.
          + apply Hkm. apply in_or_app; auto.
        - exact (nodup_app_disj _ _ _ Hnd Hin' Hin). }
      destruct (IH _ _ _ _ _ _ W3 Hnd_t Hdt E4) as (W4 & X4 & F4 & D4 & M4 & P4).
      assert (Emn : mn' = mn).
      { pose proof (ext_idx _ _ _ _ (wi_keys _ _ _ _ W0) (wi_keys _ _ _ _ W3)
                            (ext_trans _ _ _ (ext_trans _ _ _ X1 X2) X3) I0) as A. congruence. }
      subst mn'.
      cbn [map snd RDs SDs flat_map reader_roles sends_th]. fold (RDs (map snd ths1)) (SDs (map snd ths1)).
      change (flat_map (fun o => match o with OPull u i => [(u, i)] | _ => [] end) (sender_prog lz mn pulls))
        with (pulls_of (sender_prog lz mn pulls)).
      change (flat_map (fun o => match o with OPull u i => [(u, i)] | _ => [] end) (div_prog lz gated mn ri oms))
        with (pulls_of (div_prog lz gated mn ri oms)).
      rewrite sender_prog_pulls, sender_prog_sends, div_prog_pulls, div_prog_sends.
      pose proof W4 as W4'. rewrite <- ?app_assoc in W4. cbn [app] in W4. rewrite <- ?app_assoc. cbn [app].
      split; [exact W4|]. split.
      { eapply ext_trans; [|exact X4]. eapply ext_trans; [|exact X3]. eapply ext_trans; [|exact X2].
        eapply ext_trans; eauto. }
      split.
      { constructor; [apply sender_prog_shape|]. constructor; [|exact F4].
        apply div_prog_shape. exact Hgs. }
      split; [|split].
      * intros dq dep [Heq|Hin] Hdep.
        -- inversion Heq; subst. cbn [snd] in Hdep. eapply subd_ext; [exact X4|]. eapply subd_ext; [exact X3|].
           eapply subd_ext; [exact X2|]. apply S1. apply in_map. exact Hdep.
        -- eapply D4; eauto.
      * intros dq [Heq|Hin] Hm.
        -- inversion Heq; subst. cbn [snd]. eapply subd_ext; [exact X4|]. exact S3.
        -- eapply M4; eauto.
      * pose proof (wi_keys _ _ _ _ W0) as K0. pose proof (wi_keys _ _ _ _ W1) as K1.
        pose proof (wi_keys _ _ _ _ W2) as K2. pose proof (wi_keys _ _ _ _ W3) as K3.
        pose proof (wi_keys _ _ _ _ W4') as K4.
        intros dq [Heq|Hin].
        -- subst dq. unfold plugin_spec. cbn [fst snd]. rewrite Emo.
           exists mn, pulls, gated, ri, oms. split; [left; reflexivity|]. split; [right; left; reflexivity|].
           split; [exact (ext_idx _ _ _ _ K0 K4 (ext_trans _ _ _ (ext_trans _ _ _ (ext_trans _ _ _ X1 X2) X3) X4) I0)|].
           split.
           ++ eapply F2_impl; [|exact (F2_mapl _ _ _ _ F1)]. cbn. intros a b Hab.
              exact (ext_idx _ _ _ _ K1 K4 (ext_trans _ _ _ (ext_trans _ _ _ X2 X3) X4) Hab).
           ++ eapply F2_impl; [|exact (F2_mapl _ _ _ _ F2)]. cbn. intros a b Hab.
              exact (ext_idx _ _ _ _ K2 K4 (ext_trans _ _ _ X3 X4) Hab).
        -- eapply plugin_spec_mono; [exact K4|exact K4|apply ext_refl| |exact (P4 dq Hin)].
           intros x Hx. right. right. exact Hx.
    + (* single-output plugin *)
      destruct (ws_subscribe_all (map KD (p_deps (pdef c q))) ws) as [pulls ws1] eqn:E1.
      destruct (ws_touch (KD d) ws1) as [m ws2] eqn:E2.
      destruct (wire_plugins c lz ff t ws2) as [ths1 ws3] eqn:E3.
      inversion H; subst. clear H.
      cbn [app] in Hnd. apply NoDup_cons_iff in Hnd. destruct Hnd as [Hk Hnd].
      destruct (WI_subscribe_all _ _ _ _ _ _ _ HW E1) as (W1 & X1 & S1 & F1).
      destruct (WI_sender _ _ _ _ _ _ _ W1 (Hdis _ (or_introl eq_refl)) E2) as (W2 & X2 & I2).
      assert (Hdt : forall k, In k (flat_map (plugin_keys c) t) -> ~ In k (SK ++ [KD d])).
      { intros k Hin Hin'. apply in_app_or in Hin'. destruct Hin' as [Hin'|[<-|[]]].
        - apply (Hdis k); auto. right; auto.
        - contradiction. }
      destruct (IH _ _ _ _ _ _ W2 Hnd Hdt E3) as (W3 & X3 & F3 & D3 & M3 & P3).
      pose proof (wi_keys _ _ _ _ W1) as K1. pose proof (wi_keys _ _ _ _ W2) as K2.
      pose proof (wi_keys _ _ _ _ W3) as K3.
      cbn [map snd RDs SDs flat_map reader_roles sends_th]. fold (RDs (map snd ths1)) (SDs (map snd ths1)).
      change (flat_map (fun o => match o with OPull u i => [(u, i)] | _ => [] end) (sender_prog lz m pulls))
        with (pulls_of (sender_prog lz m pulls)).
      rewrite sender_prog_pulls, sender_prog_sends.
      rewrite <- ?app_assoc in W3. cbn [app] in W3. rewrite <- ?app_assoc. cbn [app].
      split; [exact W3|]. split; [eapply ext_trans; [|exact X3]; eapply ext_trans; eauto|].
      split; [constructor; [apply sender_prog_shape|exact F3]|]. split; [|split].
      * intros dq dep [Heq|Hin] Hdep.
        -- inversion Heq; subst. cbn [snd] in Hdep. eapply subd_ext; [exact X3|]. eapply subd_ext; [exact X2|].
           apply S1. apply in_map. exact Hdep.
        -- eapply D3; eauto.
      * intros dq [Heq|Hin] Hm.
        -- inversion Heq; subst. cbn [snd] in Hm. congruence.
        -- eapply M3; eauto.
      * intros dq [Heq|Hin].
        -- subst dq. unfold plugin_spec. cbn [fst snd]. rewrite Emo.
           exists m, pulls. split; [left; reflexivity|].
           split; [exact (ext_idx _ _ _ _ K2 K3 X3 I2)|].
           eapply F2_impl; [|exact (F2_mapl _ _ _ _ F1)]. cbn. intros a b Hab.
           exact (ext_idx _ _ _ _ K1 K3 (ext_trans _ _ _ X2 X3) Hab).
        -- eapply plugin_spec_mono; [exact K3|exact K3|apply ext_refl| |exact (P3 dq Hin)].
           intros x Hx. right. exact Hx.
Qed.

(* ---------- savers, discarders ---------- *)
Lemma RDs_app a b : RDs (a ++ b) = RDs a ++ RDs b. Proof. apply flat_map_app. Qed.
Lemma SDs_app a b : SDs (a ++ b) = SDs a ++ SDs b. Proof. apply flat_map_app. Qed.

Lemma savers_of_ok d drive n : forall k RD SD SK ws ths ws',
  WI RD SD SK ws -> wire_savers_of d drive k n ws = (ths, ws') ->
  WI (RD ++ RDs (map snd ths)) SD SK ws' /\ ext ws ws' /\ Forall shape_ok (map snd ths) /\
  SDs (map snd ths) = [] /\ (0 < n -> subd ws' (KD d)).
Proof.
  induction n as [|n IH]; intros k RD SD SK ws ths ws' HW H; cbn [wire_savers_of] in H.
  - injection H as <- <-. cbn. rewrite app_nil_r. split; [exact HW|]. split; [apply ext_refl|].
    split; [constructor|]. split; [reflexivity|lia].
  - destruct (ws_subscribe (KD d) drive ws) as [[m i] ws1] eqn:E1.
    destruct (wire_savers_of d drive (S k) n ws1) as [ths1 ws2] eqn:E2. injection H as <- <-.
    destruct (WI_subscribe _ _ _ _ _ _ _ _ _ HW E1) as (W1 & X1 & I1 & S1).
    destruct (IH _ _ _ _ _ _ _ W1 E2) as (W2 & X2 & F2 & Z2 & _).
    cbn [map snd RDs SDs flat_map reader_roles sends_th]. fold (RDs (map snd ths1)) (SDs (map snd ths1)).
    rewrite <- ?app_assoc in W2. cbn [app] in W2 |- *.
    split; [exact W2|]. split; [eapply ext_trans; eauto|]. split; [constructor; [exact I|exact F2]|].
    split; [exact Z2|]. intros _. eapply subd_ext; eauto.
Qed.

Lemma savers_ok c lz l : forall RD SD SK ws ths ws',
  WI RD SD SK ws -> wire_savers c lz l ws = (ths, ws') ->
  WI (RD ++ RDs (map snd ths)) SD SK ws' /\ ext ws ws' /\ Forall shape_ok (map snd ths) /\
  SDs (map snd ths) = [] /\ (forall d n, In (d, n) l -> 0 < n -> subd ws' (KD d)).
Proof.
  induction l as [|[d n] t IH]; intros RD SD SK ws ths ws' HW H; cbn [wire_savers] in H.
  - injection H as <- <-. cbn. rewrite app_nil_r. split; [exact HW|]. split; [apply ext_refl|].
    split; [constructor|]. split; [reflexivity|]. intros d n [].
  - destruct (wire_savers_of d _ 0 n ws) as [a ws1] eqn:E1. destruct (wire_savers c lz t ws1) as [b ws2] eqn:E2.
    injection H as <- <-.
    destruct (savers_of_ok _ _ _ _ _ _ _ _ _ _ HW E1) as (W1 & X1 & F1 & Z1 & S1).
    destruct (IH _ _ _ _ _ _ W1 E2) as (W2 & X2 & F2 & Z2 & S2).
    rewrite map_app, RDs_app, SDs_app, Z1, Z2. rewrite <- app_assoc in W2.
    split; [exact W2|]. split; [eapply ext_trans; eauto|]. split; [apply Forall_app; auto|].
    split; [reflexivity|]. intros d0 n0 [Heq|Hin] Hn.
    + inversion Heq; subst. eapply subd_ext; eauto.
    + eapply S2; eauto.
Qed.

Lemma discarders_ok l : forall RD SD SK ws ths ws',
  WI RD SD SK ws -> wire_discarders l ws = (ths, ws') ->
  WI (RD ++ RDs (map snd ths)) SD SK ws' /\ ext ws ws' /\ Forall shape_ok (map snd ths) /\
  SDs (map snd ths) = [] /\ (forall d, In d l -> subd ws' (KD d)).
Proof.
  induction l as [|d t IH]; intros RD SD SK ws ths ws' HW H; cbn [wire_discarders] in H.
  - injection H as <- <-. cbn. rewrite app_nil_r. split; [exact HW|]. split; [apply ext_refl|].
    split; [constructor|]. split; [reflexivity|]. intros d [].
  - destruct (ws_subscribe (KD d) true ws) as [[m i] ws1] eqn:E1.
    destruct (wire_discarders t ws1) as [ths1 ws2] eqn:E2. injection H as <- <-.
    destruct (WI_subscribe _ _ _ _ _ _ _ _ _ HW E1) as (W1 & X1 & I1 & S1).
    destruct (IH _ _ _ _ _ _ W1 E2) as (W2 & X2 & F2 & Z2 & S2).
    cbn [map snd RDs SDs flat_map reader_roles sends_th]. fold (RDs (map snd ths1)) (SDs (map snd ths1)).
    rewrite <- ?app_assoc in W2. cbn [app] in W2 |- *.
    split; [exact W2|]. split; [eapply ext_trans; eauto|]. split; [constructor; [exact I|exact F2]|].
    split; [exact Z2|]. intros d0 [<-|Hin]; [eapply subd_ext; eauto|auto].
Qed.

(* ---------- set-like helpers of the wiring ---------- *)
Lemma in_diff x a b : In x (diff a b) <-> In x a /\ ~ In x b.
Proof.
  unfold diff. rewrite filter_In. split; intros [H1 H2]; split; auto.
  - intros Hb. apply memb_in in Hb. rewrite Hb in H2. discriminate.
  - destruct (memb x b) eqn:E; auto. apply memb_in in E. contradiction.
Qed.

Lemma in_dedup x l : In x (dedup l) <-> In x l.
Proof.
  induction l as [|y t IH]; cbn [dedup]; [tauto|]. destruct (memb y t) eqn:E.
  - rewrite IH. split; [right; auto|]. intros [<-|H]; auto. apply memb_in. exact E.
  - cbn [In]. rewrite IH. tauto.
Qed.

Lemma order_sub l : forall seen dq, In dq (plugin_order l seen) -> In dq l.
Proof.
  induction l as [|[d q] t IH]; intros seen dq H; cbn [plugin_order] in H; [destruct H|].
  destruct (memb q seen); [right; eauto|]. destruct H as [<-|H]; [left; auto|right; eauto].
Qed.

Lemma order_cover l : forall seen d q, In (d, q) l ->
  memb q seen = true \/ exists d', In (d', q) (plugin_order l seen).
Proof.
  induction l as [|[d0 q0] t IH]; intros seen d q H; [destruct H|]. cbn [plugin_order].
  destruct H as [Heq|H].
  - inversion Heq; subst. destruct (memb q seen) eqn:E; auto. right. exists d. left. reflexivity.
  - destruct (memb q0 seen) eqn:E0.
    + apply (IH seen d q H).
    + destruct (IH (q0 :: seen) d q H) as [Hm|(d' & Hd')].
      * unfold memb in Hm. cbn [existsb] in Hm. apply orb_true_iff in Hm. destruct Hm as [Hm|Hm].
        -- apply Nat.eqb_eq in Hm. subst. right. exists d0. left. reflexivity.
        -- left. exact Hm.
      * right. exists d'. right. exact Hd'.
Qed.

(* ---------- valid components ---------- *)
Definition sender_keys (c : comps) : list mkey :=
  map KD (c_loaders c) ++ flat_map (plugin_keys c) (plugin_order (c_plugins c) []).

(* every mailbox gets exactly one sender (a loader, a single-output plugin under its own key, a multi-output
   plugin's iter, the divider for the outputs that are not loaded), and components.plugins lists a plugin under
   data types it provides.  Nothing else is needed for well-formedness: not even acyclicity. *)
Definition valid_comps (c : comps) : Prop :=
  NoDup (sender_keys c) /\ forall dq, In dq (c_plugins c) -> In (fst dq) (p_provides (pdef c (snd dq))).

Lemma nodup_flat_map_in {A B} (f : A -> list B) l x : NoDup (flat_map f l) -> In x l -> NoDup (f x).
Proof.
  induction l as [|y t IH]; intros H Hin; [destruct Hin|]. cbn [flat_map] in H. destruct Hin as [<-|Hin].
  - eapply nodup_app_l; eauto.
  - apply IH; auto. eapply nodup_app_r; eauto.
Qed.

Lemma flat_map_disj {A B} (f : A -> list B) l : forall w1 w2 a b x,
  NoDup (flat_map f l) -> w1 <> w2 -> nth_error l w1 = Some a -> nth_error l w2 = Some b ->
  In x (f a) -> In x (f b) -> False.
Proof.
  induction l as [|y t IH]; intros w1 w2 a b x H Hne H1 H2 Ha Hb; [destruct w1; discriminate|].
  cbn [flat_map] in H. destruct w1 as [|w1], w2 as [|w2]; cbn [nth_error] in H1, H2; try congruence.
  - inversion H1; subst. apply nth_error_In in H2. eapply nodup_app_disj; [exact H|exact Ha|].
    apply in_flat_map. eauto.
  - inversion H2; subst. apply nth_error_In in H1. eapply nodup_app_disj; [exact H|exact Hb|].
    apply in_flat_map. eauto.
  - eapply (IH w1 w2); eauto. eapply nodup_app_r; eauto.
Qed.

Lemma role_cases th x : shape_ok th -> In x (roles th) ->
  (exists u i, x = (u, TR i) /\ In (u, i) (reader_roles th)) \/ (exists m, x = (m, TS) /\ In m (sends_th th)).
Proof.
  destruct th as [prog pc it|u i b]; cbn [roles reader_roles sends_th shape_ok].
  - intros (_ & _ & _ & Hg) Hin. apply in_map_iff in Hin. destruct Hin as (o & <- & Ho).
    destruct o as [d|u i|d]; cbn [op_role].
    + right. exists d. split; auto. apply Hg. unfold gates_of. apply in_flat_map. exists (OGate d). split; auto. left; auto.
    + left. exists u, i. split; auto. apply in_flat_map. exists (OPull u i). split; auto. left; auto.
    + right. exists d. split; auto. apply in_sends. exact Ho.
  - intros _ [<-|[]]. left. exists u, i. split; auto. left; auto.
Qed.

(* ---------- the theorem ---------- *)
Lemma WI_nil : WI [] [] [] [].
Proof. constructor; try constructor; intros; try contradiction. destruct u; discriminate. Qed.

Lemma produced_cover c d : In d (produced c) -> In d (required c) \/ In d (saved c) \/ In d (to_discard c).
Proof.
  intros Hp. destruct (memb d (required c)) eqn:Er; [left; apply memb_in; exact Er|].
  assert (Hf : In d (flow0 c)).
  { apply in_diff. split; auto. intros H. apply memb_in in H. congruence. }
  destruct (memb d (saved c)) eqn:Es; [right; left; apply memb_in; exact Es|].
  right. right. apply in_dedup. apply in_diff. split; auto. intros H. apply memb_in in H. congruence.
Qed.

Lemma in_saved c d : In d (saved c) -> exists n, In (d, n) (c_savers c) /\ 0 < n.
Proof.
  unfold saved. intros H. apply in_flat_map in H. destruct H as ([d0 n] & Hin & Hd). cbn [fst snd] in Hd.
  destruct (0 <? n) eqn:E; [|destruct Hd]. destruct Hd as [<-|[]]. apply Nat.ltb_lt in E. eauto.
Qed.

Theorem wire_wf c o p N : valid_comps c -> GI N (net_of (wire c o p) N).
Proof.
  intros [Hnd Hprov]. rewrite net_of_mk. unfold wire.
  set (lz := lazy_mode o).
  destruct (wire_loaders lz (c_loaders c) []) as [t1 ws1] eqn:E1.
  destruct (wire_plugins c lz (flow_freely c) (plugin_order (c_plugins c) []) ws1) as [t2 ws2] eqn:E2.
  destruct (wire_savers c lz (c_savers c) ws2) as [t3 ws3] eqn:E3.
  destruct (wire_discarders (to_discard c) ws3) as [t4 ws4] eqn:E4.
  destruct (ws_subscribe (KD (c_target c)) true ws4) as [[m i] ws5] eqn:E5.
  cbn [w_boxes w_threads].
  unfold sender_keys in Hnd.
  assert (Hl : NoDup (c_loaders c)).
  { apply nodup_app_l in Hnd. clear - Hnd. induction (c_loaders c) as [|x t IH]; [constructor|].
    cbn [map] in Hnd. apply NoDup_cons_iff in Hnd. destruct Hnd as [A B]. constructor; auto.
    intros Hin. apply A. apply in_map. exact Hin. }
  destruct (loaders_ok lz (c_loaders c) _ _ _ _ _ _ WI_nil Hl (fun d _ H => H) E1) as (W1 & X1 & F1).
  cbn [app] in W1.
  assert (Hd2 : forall k, In k (flat_map (plugin_keys c) (plugin_order (c_plugins c) [])) -> ~ In k (map KD (c_loaders c))).
  { intros k Hin Hin'. exact (nodup_app_disj _ _ _ Hnd Hin' Hin). }
  destruct (plugins_ok c lz _ _ _ _ _ _ _ _ W1 (nodup_app_r _ _ Hnd) Hd2 E2) as (W2 & X2 & F2 & D2 & M2 & P2).
  destruct (savers_ok c lz _ _ _ _ _ _ _ W2 E3) as (W3 & X3 & F3 & Z3 & S3).
  destruct (discarders_ok _ _ _ _ _ _ _ W3 E4) as (W4 & X4 & F4 & Z4 & S4).
  destruct (WI_subscribe _ _ _ _ _ _ _ _ _ W4 E5) as (W5 & X5 & I5 & S5).
  set (all := map snd (t1 ++ t2 ++ t3 ++ t4 ++ [(TConsumer, Sink m i (Some p))])).
  assert (ERD : RDs all = ((RDs (map snd t1) ++ RDs (map snd t2)) ++ RDs (map snd t3)) ++ RDs (map snd t4) ++ [(m, i)]).
  { unfold all. rewrite !map_app, !RDs_app. cbn. rewrite <- !app_assoc. reflexivity. }
  assert (ESD : SDs all = SDs (map snd t1) ++ SDs (map snd t2)).
  { unfold all. rewrite !map_app, !SDs_app, Z3, Z4. cbn. rewrite !app_nil_r. reflexivity. }
  rewrite <- app_assoc in W5. rewrite <- ERD in W5. rewrite <- ESD in W5.
  assert (Hshape : Forall shape_ok all).
  { unfold all. rewrite !map_app. repeat (apply Forall_app; split; auto). constructor; [exact I|constructor]. }
  destruct W5 as [K5 R5 RO5 SN5 SK5 C5].
  (* every sender key is subscribed in the end *)
  assert (Hsub : forall k, In k (map KD (c_loaders c) ++ flat_map (plugin_keys c) (plugin_order (c_plugins c) [])) -> subd ws5 k).
  { assert (Hprod : forall d, In d (produced c) -> subd ws5 (KD d)).
    { intros d Hp. destruct (produced_cover c d Hp) as [Hr|[Hs|Hdc]].
      - destruct Hr as [<-|Hr]; [exact S5|].
        apply in_flat_map in Hr. destruct Hr as ([d0 q] & Hin & Hdep). cbn [snd] in Hdep.
        destruct (order_cover _ [] _ _ Hin) as [Hm|(d' & Hd')]; [discriminate|].
        eapply subd_ext; [exact X5|]. eapply subd_ext; [exact X4|]. eapply subd_ext; [exact X3|].
        apply (D2 (d', q) d Hd'). exact Hdep.
      - destruct (in_saved _ _ Hs) as (n & Hin & Hn). eapply subd_ext; [exact X5|]. eapply subd_ext; [exact X4|].
        eapply S3; eauto.
      - eapply subd_ext; [exact X5|]. apply S4. exact Hdc. }
    intros k Hin. apply in_app_or in Hin. destruct Hin as [Hin|Hin].
    - apply in_map_iff in Hin. destruct Hin as (d & <- & Hd). apply Hprod. unfold produced. apply in_or_app; auto.
    - apply in_flat_map in Hin. destruct Hin as ([d q] & Ho & Hk). pose proof (order_sub _ _ _ Ho) as Hc.
      unfold plugin_keys in Hk. cbn [fst snd] in Hk. destruct (multi_output (pdef c q)) eqn:Emo.
      + destruct Hk as [<-|Hk].
        * eapply subd_ext; [exact X5|]. eapply subd_ext; [exact X4|]. eapply subd_ext; [exact X3|].
          apply (M2 (d, q) Ho Emo).
        * apply in_map_iff in Hk. destruct Hk as (x & <- & Hx). apply Hprod. unfold produced. apply in_or_app. right.
          apply in_flat_map. exists (d, q). split; auto. cbn [snd]. unfold divided in Hx. apply in_diff in Hx. tauto.
      + destruct Hk as [<-|[]]. apply Hprod. unfold produced. apply in_or_app. right.
        apply in_flat_map. exists (d, q). split; auto. apply (Hprov (d, q) Hc). }
  set (nb := map (fun kcd : mkey * config * list bool => (snd (fst kcd), snd kcd))
                 (map (fun kd : mkey * list bool =>
                         (fst kd, mkConfig (Some (key_cap c o (fst kd))) (lz && key_gated c (fst kd)), snd kd)) ws5)).
  assert (Hnb : forall u cfg ds, nth_error nb u = Some (cfg, ds) ->
                  exists k, nth_error ws5 u = Some (k, ds) /\ c_cap cfg <> None).
  { intros u cfg ds H. unfold nb in H. rewrite map_map, nth_error_map in H.
    destruct (nth_error ws5 u) as [[k d0]|] eqn:E; [|discriminate]. cbn in H. inversion H; subst.
    exists k. split; auto. discriminate. }
  assert (Hnb' : forall u k ds, nth_error ws5 u = Some (k, ds) -> exists cfg, nth_error nb u = Some (cfg, ds)).
  { intros u k ds H. unfold nb. rewrite map_map, nth_error_map, H. cbn. eauto. }
  apply wf_GI.
  - (* every mailbox: finite capacity, at least one subscriber *)
    intros d cfg ds H. destruct (Hnb _ _ _ H) as (k & Hk & Hc). split; auto.
    destruct (C5 _ _ _ Hk) as [Hne|Hin]; auto.
    destruct (Hsub _ Hin) as (u' & ds' & Hu' & Hne').
    assert (A : ws_index k ws5 = Some d) by (apply (idx_nth _ K5); eauto).
    assert (B : ws_index k ws5 = Some u') by (apply (idx_nth _ K5); eauto).
    assert (u' = d) by congruence. subst u'. rewrite Hk in Hu'. inversion Hu'; subst. exact Hne'.
  - (* every thread starts at the top of a sensible program and subscribes to existing mailboxes *)
    intros w th Hw. fold all in Hw. pose proof (nth_error_In _ _ Hw) as Hin.
    pose proof (proj1 (Forall_forall _ _) Hshape _ Hin) as Hsh. split.
    + destruct th as [prog pc it|u0 i0 b0]; auto. destruct Hsh as (A & B & Cc & _). repeat split; auto.
      exact (nodup_flat_map_in sends_th all (Worker prog pc it) SN5 Hin).
    + intros u j Hr. destruct (role_cases _ _ Hsh Hr) as [(u1 & j1 & Heq & Hrr)|(m1 & Heq & _)]; [|discriminate].
      inversion Heq; subst. assert (Hall : In (u1, j1) (RDs all)) by (apply in_flat_map; eauto).
      destruct (RO5 _ _ Hall) as (k & ds & Hk & Hl'). destruct (Hnb' _ _ _ Hk) as (cfg & Hc). eauto.
  - (* every mailbox role belongs to exactly one thread *)
    fold all. intros w1 w2 r1 r2 x Hne H1 H2 Hx1 Hx2. rewrite nth_error_map in H1, H2.
    destruct (nth_error all w1) as [a|] eqn:Ea; [|discriminate].
    destruct (nth_error all w2) as [b|] eqn:Eb; [|discriminate].
    cbn in H1, H2. inversion H1; subst r1. inversion H2; subst r2.
    pose proof (proj1 (Forall_forall _ _) Hshape _ (nth_error_In _ _ Ea)) as Sa.
    pose proof (proj1 (Forall_forall _ _) Hshape _ (nth_error_In _ _ Eb)) as Sb.
    destruct (role_cases _ _ Sa Hx1) as [(u1 & j1 & -> & Ha)|(m1 & -> & Ha)];
      destruct (role_cases _ _ Sb Hx2) as [(u2 & j2 & Heq & Hb)|(m2 & Heq & Hb)]; try discriminate.
    + inversion Heq; subst. exact (flat_map_disj reader_roles all w1 w2 a b _ R5 Hne Ea Eb Ha Hb).
    + inversion Heq; subst. exact (flat_map_disj sends_th all w1 w2 a b _ SN5 Hne Ea Eb Ha Hb).
Qed.

(* ---------- the path bound on every wiring ---------- *)
Definition table_of (w : wiring) : wstate :=
  map (fun kcd : mkey * config * list bool => (fst (fst kcd), snd kcd)) (w_boxes w).

Lemma F2_in {A B} (P : A -> B -> Prop) l l' a : Forall2 P l l' -> In a l -> exists b, In b l' /\ P a b.
Proof.
  intros F. induction F as [|x y l l' Hxy F IH]; intros Hin; [destruct Hin|].
  destruct Hin as [<-|Hin]; [exists y; split; [left|]; auto|].
  destruct (IH Hin) as (b & Hb & Hp). exists b. split; [right|]; auto.
Qed.

Lemma wire_facts c o p :
  valid_comps c ->
  let w := wire c o p in
  NoDup (keys (table_of w)) /\
  (forall dq, In dq (plugin_order (c_plugins c) []) ->
     plugin_spec c (lazy_mode o) (table_of w) (map snd (w_threads w)) dq) /\
  (exists m i, In (Sink m i (Some p)) (map snd (w_threads w)) /\
               ws_index (KD (c_target c)) (table_of w) = Some m) /\
  (forall u k ds N, nth_error (table_of w) u = Some (k, ds) ->
     cap_of (n_boxes (net_of w N)) u = key_cap c o k).
Proof.
  intros [Hnd Hprov]. cbn zeta. unfold wire.
  set (lz := lazy_mode o).
  destruct (wire_loaders lz (c_loaders c) []) as [t1 ws1] eqn:E1.
  destruct (wire_plugins c lz (flow_freely c) (plugin_order (c_plugins c) []) ws1) as [t2 ws2] eqn:E2.
  destruct (wire_savers c lz (c_savers c) ws2) as [t3 ws3] eqn:E3.
  destruct (wire_discarders (to_discard c) ws3) as [t4 ws4] eqn:E4.
  destruct (ws_subscribe (KD (c_target c)) true ws4) as [[m i] ws5] eqn:E5.
  unfold sender_keys in Hnd.
  assert (Hl : NoDup (c_loaders c)).
  { apply nodup_app_l in Hnd. clear - Hnd. induction (c_loaders c) as [|x t IH]; [constructor|].
    cbn [map] in Hnd. apply NoDup_cons_iff in Hnd. destruct Hnd as [A B]. constructor; auto.
    intros Hin. apply A. apply in_map. exact Hin. }
  destruct (loaders_ok lz (c_loaders c) _ _ _ _ _ _ WI_nil Hl (fun d _ H => H) E1) as (W1 & X1 & F1).
  cbn [app] in W1.
  assert (Hd2 : forall k, In k (flat_map (plugin_keys c) (plugin_order (c_plugins c) [])) -> ~ In k (map KD (c_loaders c))).
  { intros k Hin Hin'. exact (nodup_app_disj _ _ _ Hnd Hin' Hin). }
  destruct (plugins_ok c lz _ _ _ _ _ _ _ _ W1 (nodup_app_r _ _ Hnd) Hd2 E2) as (W2 & X2 & F2 & D2 & M2 & P2).
  destruct (savers_ok c lz _ _ _ _ _ _ _ W2 E3) as (W3 & X3 & F3 & Z3 & S3).
  destruct (discarders_ok _ _ _ _ _ _ _ W3 E4) as (W4 & X4 & F4 & Z4 & S4).
  destruct (WI_subscribe _ _ _ _ _ _ _ _ _ W4 E5) as (W5 & X5 & I5 & S5).
  pose proof (wi_keys _ _ _ _ W2) as K2. pose proof (wi_keys _ _ _ _ W5) as K5.
  cbn [w_boxes w_threads].
  assert (ET : table_of
            (mkWiring (map (fun kd : mkey * list bool =>
                              (fst kd, mkConfig (Some (key_cap c o (fst kd))) (lz && key_gated c (fst kd)), snd kd)) ws5)
                      (t1 ++ t2 ++ t3 ++ t4 ++ [(TConsumer, Sink m i (Some p))])) = ws5).
  { unfold table_of. cbn [w_boxes]. rewrite map_map. rewrite <- (map_id ws5) at 2. apply map_ext.
    intros [k ds]. reflexivity. }
  rewrite ET. cbn [w_threads]. split; [exact K5|]. split; [|split].
  - intros dq Hin. eapply plugin_spec_mono; [exact K2|exact K5| | |exact (P2 dq Hin)].
    + eapply ext_trans; [exact X3|]. eapply ext_trans; [exact X4|exact X5].
    + intros x Hx. rewrite !map_app. apply in_or_app. right. apply in_or_app. left. exact Hx.
  - exists m, i. split; [|exact I5]. rewrite !map_app. apply in_or_app. right. apply in_or_app. right.
    apply in_or_app. right. apply in_or_app. right. left. reflexivity.
  - intros u k ds N Hu. unfold cap_of, net_of. cbn [n_boxes w_boxes]. rewrite map_map, nth_error_map, Hu. reflexivity.
Qed.

(* needed c o p d B: data type d is needed for the target through plugins of the components; B is p plus
   twice the capacities of the mailboxes on that path (a multi-output plugin contributes its
   <Plugin>_divide_outputs mailbox, which keeps the default max_messages) *)
Inductive needed (c : comps) (o : popts) (p : nat) : nat -> nat -> Prop :=
| needed_target : needed c o p (c_target c) (p + 2 * key_cap c o (KD (c_target c)))
| needed_single d q dep B :
    In (d, q) (plugin_order (c_plugins c) []) -> multi_output (pdef c q) = false ->
    In dep (p_deps (pdef c q)) -> needed c o p d B ->
    needed c o p dep (B + 2 * key_cap c o (KD dep))
| needed_multi d q out dep B :
    In (d, q) (plugin_order (c_plugins c) []) -> multi_output (pdef c q) = true ->
    In out (divided c (pdef c q)) -> In dep (p_deps (pdef c q)) -> needed c o p out B ->
    needed c o p dep (B + 2 * o_maxmsg o + 2 * key_cap c o (KD dep)).

Lemma in_worker ths prog : In (Worker prog 0 0) ths ->
  exists w, option_map prog_of (nth_error ths w) = Some (Some prog).
Proof. intros H. apply In_nth_error in H. destruct H as (w & Hw). exists w. rewrite Hw. reflexivity. Qed.

Lemma pull_in_sender lz m pulls ui : In ui pulls -> In (OPull (fst ui) (snd ui)) (sender_prog lz m pulls).
Proof.
  intros H. unfold sender_prog. apply in_or_app. right. apply in_or_app. left.
  apply (in_map (fun ui : nat * nat => OPull (fst ui) (snd ui))). exact H.
Qed.

Lemma needed_reach c o p d B :
  valid_comps c -> needed c o p d B ->
  exists u, ws_index (KD d) (table_of (wire c o p)) = Some u /\
            forall N, reach (net_of (wire c o p) N) u B.
Proof.
  intros Hv Hn. destruct (wire_facts c o p Hv) as (K & Hspec & (mc & ic & Hsink & Hct) & Hcap).
  induction Hn as [|d q dep B Ho Hmo Hdep Hn IH|d q out dep B Ho Hmo Hout Hdep Hn IH].
  - exists mc. split; auto. intros N.
    apply (idx_nth _ K) in Hct. destruct Hct as (ds & Hct). rewrite <- (Hcap _ _ _ N Hct).
    eapply reach_sink with (i := ic). apply In_nth_error in Hsink. destruct Hsink as (w & Hw). exists w.
    cbn [n_threads net_of]. rewrite Hw. reflexivity.
  - destruct IH as (ud & Hud & Hr). pose proof (Hspec _ Ho) as Hs. unfold plugin_spec in Hs. cbn [fst snd] in Hs.
    rewrite Hmo in Hs. destruct Hs as (m & pulls & Hth & Hm & Hdeps). assert (m = ud) by congruence. subst m.
    destruct (F2_in _ _ _ _ Hdeps Hdep) as (ui & Hui & Hidx). cbn in Hidx.
    exists (fst ui). split; auto. intros N.
    destruct (proj1 (idx_nth _ K _ _) Hidx) as (ds & Hnth). rewrite <- (Hcap _ _ _ N Hnth).
    eapply (reach_edge _ (sender_prog (lazy_mode o) ud pulls) (fst ui) (snd ui) ud).
    + apply in_worker. exact Hth.
    + apply pull_in_sender. exact Hui.
    + rewrite sender_prog_sends. left. reflexivity.
    + apply Hr.
  - destruct IH as (uo & Huo & Hr). pose proof (Hspec _ Ho) as Hs. unfold plugin_spec in Hs. cbn [fst snd] in Hs.
    rewrite Hmo in Hs. destruct Hs as (mn & pulls & gated & ri & oms & Hit & Hdv & Hmn & Hdeps & Houts).
    destruct (F2_in _ _ _ _ Houts Hout) as (mo & Hmo' & Hidxo). cbn in Hidxo. assert (mo = uo) by congruence. subst mo.
    destruct (F2_in _ _ _ _ Hdeps Hdep) as (ui & Hui & Hidx). cbn in Hidx.
    exists (fst ui). split; auto. intros N.
    destruct (proj1 (idx_nth _ K _ _) Hidx) as (ds & Hnth). rewrite <- (Hcap _ _ _ N Hnth).
    destruct (proj1 (idx_nth _ K _ _) Hmn) as (dsm & Hnthm).
    assert (Hcm : cap_of (n_boxes (net_of (wire c o p) N)) mn = o_maxmsg o) by (rewrite (Hcap _ _ _ N Hnthm); reflexivity).
    eapply (reach_edge _ (sender_prog (lazy_mode o) mn pulls) (fst ui) (snd ui) mn).
    + apply in_worker. exact Hit.
    + apply pull_in_sender. exact Hui.
    + rewrite sender_prog_sends. left. reflexivity.
    + rewrite <- Hcm. eapply (reach_edge _ (div_prog (lazy_mode o) gated mn ri oms) mn ri uo).
      * apply in_worker. exact Hdv.
      * unfold div_prog. apply in_or_app. right. left. reflexivity.
      * rewrite div_prog_sends. exact Hmo'.
      * apply Hr.
Qed.

(* for every valid components, every data type needed for the target, every schedule, every run length *)
Theorem wire_flow_bound c o p d B :
  valid_comps c -> needed c o p d B ->
  exists u, ws_index (KD d) (table_of (wire c o p)) = Some u /\
    forall N sched n, nrun (net_of (wire c o p) N) sched = Some n -> advances N (n_boxes n) u <= B + 1.
Proof.
  intros Hv Hn. destruct (needed_reach c o p d B Hv Hn) as (u & Hu & Hr). exists u. split; auto.
  intros N sched n Hrun. exact (flow_bound N _ sched n u B (wire_wf c o p N Hv) Hrun (Hr N)).
Qed.
