(* C14: the data key of a superrun depends exactly on the set of its sub-runs (and the combining flag);
   define_run orders the spec by run start; what a DataDirectory hands back is ordered by run id. *)
From SV Require Import Model.Superrun.
From Coq Require Import Permutation Sorted.

Section SortBy.
  Context {A : Type} (key : A -> Z).

  Lemma ins_by_perm x l : Permutation (ins_by key x l) (x :: l).
  Proof.
    induction l as [|y r IH]; cbn [ins_by]; [reflexivity|].
    destruct (key x <? key y); [reflexivity|].
    rewrite IH. apply perm_swap.
  Qed.

  Lemma sort_by_acc_perm l acc : Permutation (fold_left (fun a x => ins_by key x a) l acc) (acc ++ l).
  Proof.
    revert acc; induction l as [|x l IH]; intros acc; cbn [fold_left].
    - rewrite app_nil_r. reflexivity.
    - rewrite IH, ins_by_perm. cbn [app]. apply Permutation_middle.
  Qed.

  Lemma sort_by_perm l : Permutation (sort_by key l) l.
  Proof. unfold sort_by. rewrite sort_by_acc_perm. reflexivity. Qed.

  Definition key_le (a b : A) : Prop := key a <= key b.

  Lemma ins_by_sorted x l : StronglySorted key_le l -> StronglySorted key_le (ins_by key x l).
  Proof.
    induction 1 as [|y r Hs IH Hall]; cbn [ins_by].
    - constructor; constructor.
    - destruct (key x <? key y) eqn:E.
      + constructor; [constructor; auto|].
        constructor; [unfold key_le; lia|].
        eapply Forall_impl; [|exact Hall]. unfold key_le; intros; lia.
      + constructor; [exact IH|].
        eapply Permutation_Forall; [symmetry; apply ins_by_perm|].
        constructor; [unfold key_le; lia|exact Hall].
  Qed.

  Lemma sort_by_acc_sorted l acc :
    StronglySorted key_le acc -> StronglySorted key_le (fold_left (fun a x => ins_by key x a) l acc).
  Proof.
    revert acc; induction l as [|x l IH]; intros acc H; cbn [fold_left]; auto.
    apply IH, ins_by_sorted, H.
  Qed.

  Lemma sort_by_sorted l : StronglySorted key_le (sort_by key l).
  Proof. apply sort_by_acc_sorted. constructor. Qed.

  (* inserting an element whose key is >= every key already present appends it: a list that is already
     sorted is left alone (python's sort is stable) *)
  Lemma ins_by_last x l : Forall (fun y => key y <= key x) l -> ins_by key x l = l ++ [x].
  Proof.
    induction 1 as [|y r Hy _ IH]; cbn [ins_by app]; [reflexivity|].
    destruct (key x <? key y) eqn:E; [lia|]. now rewrite IH.
  Qed.

  Lemma sort_by_acc_id l acc :
    StronglySorted key_le (acc ++ l) -> fold_left (fun a x => ins_by key x a) l acc = acc ++ l.
  Proof.
    revert acc; induction l as [|x l IH]; intros acc H; cbn [fold_left].
    - now rewrite app_nil_r.
    - rewrite ins_by_last.
      + rewrite IH; rewrite <- app_assoc; cbn [app]; auto.
      + clear IH. induction acc as [|a acc IHa]; [constructor|].
        cbn [app] in H. inversion H as [|? ? Hs Hall]; subst.
        constructor; [|apply IHa, Hs].
        rewrite Forall_app in Hall. destruct Hall as [_ Hall]. inversion Hall; subst. assumption.
  Qed.

  Lemma sort_by_id l : StronglySorted key_le l -> sort_by key l = l.
  Proof. intros H. unfold sort_by. now rewrite sort_by_acc_id. Qed.
End SortBy.

(* two lists of integers that are sorted and permutations of each other are equal *)
Lemma sorted_perm_eq (l1 l2 : list Z) :
  StronglySorted Z.le l1 -> StronglySorted Z.le l2 -> Permutation l1 l2 -> l1 = l2.
Proof.
  revert l2; induction l1 as [|a l1 IH]; intros l2 H1 H2 HP.
  - apply Permutation_nil in HP. now subst.
  - destruct l2 as [|b l2]; [apply Permutation_sym, Permutation_nil in HP; discriminate|].
    inversion H1 as [|? ? Hs1 Ha]; inversion H2 as [|? ? Hs2 Hb]; subst.
    assert (a = b).
    { assert (In a (b :: l2)) as Hia by (eapply Permutation_in; [exact HP|left; auto]).
      assert (In b (a :: l1)) as Hib by (eapply Permutation_in; [symmetry; exact HP|left; auto]).
      destruct Hia as [->|Hia]; auto. destruct Hib as [->|Hib]; auto.
      rewrite Forall_forall in Ha, Hb. specialize (Ha _ Hib). specialize (Hb _ Hia). lia. }
    subst b. f_equal. apply IH; auto. eapply Permutation_cons_inv; exact HP.
Qed.

Lemma sort_id_sorted l : StronglySorted Z.le (sort_by (fun x : Z => x) l).
Proof.
  pose proof (sort_by_sorted (fun x : Z => x) l) as H.
  eapply StronglySorted_ind with (P := fun l => StronglySorted Z.le l); [| |exact H].
  - constructor.
  - intros a r _ IH Hall. constructor; auto.
Qed.

Section KeyProof.
  Variable hash : list Z * bool -> Z.
  Hypothesis hash_inj : forall a b, hash a = hash b -> a = b.

  (* equal key suffixes: the same set of sub-runs and the same flag *)
  Lemma key_suffix_inj s1 c1 s2 c2 :
    key_suffix hash s1 c1 = key_suffix hash s2 c2 -> Permutation s1 s2 /\ c1 = c2.
  Proof.
    unfold key_suffix, canon_spec. intros H. apply hash_inj in H. inversion H as [[Hl Hc]].
    split; auto.
    rewrite <- (sort_by_perm (fun x => x) s1), <- (sort_by_perm (fun x => x) s2), Hl. reflexivity.
  Qed.

  (* the key is canonical: the order in which the sub-runs are listed does not matter *)
  Lemma key_suffix_canonical s1 s2 c :
    Permutation s1 s2 -> key_suffix hash s1 c = key_suffix hash s2 c.
  Proof.
    intros HP. unfold key_suffix, canon_spec. f_equal. f_equal.
    apply sorted_perm_eq; try apply sort_id_sorted.
    rewrite !sort_by_perm. exact HP.
  Qed.

  (* redefinition with a different set of sub-runs (or the other combining mode) gives another key *)
  Lemma redefinition_changes_key run s1 c1 s2 c2 dt lin :
    ~ (Permutation s1 s2 /\ c1 = c2) ->
    data_key hash run s1 c1 dt lin <> data_key hash run s2 c2 dt lin.
  Proof.
    intros Hne Heq. apply Hne. unfold data_key in Heq. inversion Heq as [Hk].
    now apply key_suffix_inj.
  Qed.

  Lemma key_eqb_eq a b : key_eqb a b = true <-> a = b.
  Proof.
    destruct a as [[[a1 a2] a3] a4], b as [[[b1 b2] b3] b4]. cbn [key_eqb]. split.
    - intros H. rewrite !andb_true_iff, !Z.eqb_eq in H. destruct H as [[[-> ->] ->] ->]. reflexivity.
    - intros H. inversion H; subst. now rewrite !Z.eqb_refl.
  Qed.

  (* whatever a lookup under the current definition returns was stored under a definition with the
     same sub-runs: stored superrun data of another definition is unavailable, never stale *)
  Lemma lookup_sound {V} (st : store V) run spec comb dt lin v :
    Forall (fun kv => exists r s c d l, fst kv = data_key hash r s c d l) st ->
    find_key (data_key hash run spec comb dt lin) st = Some v ->
    exists s, In (data_key hash run s comb dt lin, v) st /\ Permutation s spec.
  Proof.
    induction st as [|[k w] st IH]; intros Hall Hf; [discriminate|].
    cbn [find_key] in Hf. inversion Hall as [|? ? Hk Hrest]; subst.
    destruct (key_eqb (data_key hash run spec comb dt lin) k) eqn:E.
    - inversion Hf; subst w. apply key_eqb_eq in E.
      destruct Hk as (r & s & c & d & l & Hk). cbn [fst] in Hk. rewrite Hk in E.
      unfold data_key in E. inversion E as [[Hr Hs Hd Hl]].
      apply key_suffix_inj in Hs as [HP Hc]. subst r c d l.
      exists s. split; [left; rewrite Hk; reflexivity|]. symmetry; exact HP.
    - destruct (IH Hrest Hf) as (s & Hin & HP). exists s. split; [right; exact Hin|exact HP].
  Qed.

  Lemma lookup_after_redefinition {V} run s1 c1 s2 c2 dt lin (v : V) :
    ~ (Permutation s1 s2 /\ c1 = c2) ->
    find_key (data_key hash run s2 c2 dt lin) [(data_key hash run s1 c1 dt lin, v)] = None.
  Proof.
    intros Hne. cbn [find_key].
    destruct (key_eqb _ _) eqn:E; [|reflexivity].
    apply key_eqb_eq in E. exfalso. eapply redefinition_changes_key; [|symmetry; exact E]. exact Hne.
  Qed.
End KeyProof.

(* the hypotheses are satisfiable: a pairing-free "hash" that is injective on canonical forms cannot be
   an integer function in general, so the Example instantiates the statement shape with two concrete
   specs instead: their canonical serialisations differ *)
Example canon_differs : canon_spec [3; 1; 2] false <> canon_spec [1; 2] false.
Proof. vm_compute. discriminate. Qed.
Example canon_same : canon_spec [3; 1; 2] false = canon_spec [2; 3; 1] false.
Proof. vm_compute. reflexivity. Qed.

(* --------------------------------------------------------------------------------------------
   define_run orders by run start; the DataDirectory round trip re-orders by run id
   -------------------------------------------------------------------------------------------- *)
Lemma define_run_sorted start_of data :
  StronglySorted (fun a b => start_of a <= start_of b) (define_run_order start_of data).
Proof. apply (sort_by_sorted start_of). Qed.

Lemma define_run_perm start_of data : Permutation (define_run_order start_of data) (dedup data).
Proof. apply sort_by_perm. Qed.

Lemma sub_run_spec_perm start_of data : Permutation (sub_run_spec start_of data) (dedup data).
Proof. unfold sub_run_spec, json_sort_keys. rewrite sort_by_perm. apply define_run_perm. Qed.

Lemma sub_run_spec_sorted_ids start_of data : StronglySorted Z.le (sub_run_spec start_of data).
Proof. apply sort_id_sorted. Qed.

(* when the order of the run ids agrees with the order of the run starts, what is read back is ordered
   by run start *)
Lemma sub_run_spec_by_start start_of data :
  (forall a b, In a data -> In b data -> a <= b -> start_of a <= start_of b) ->
  StronglySorted (fun a b => start_of a <= start_of b) (sub_run_spec start_of data).
Proof.
  intros Hmono.
  assert (Hin : forall x, In x (sub_run_spec start_of data) -> In x data).
  { intros x Hx. eapply Permutation_in in Hx; [|apply sub_run_spec_perm].
    clear -Hx. induction data as [|y r IH]; cbn [dedup] in Hx; [destruct Hx|].
    destruct Hx as [->|Hx]; [left; auto|]. apply filter_In in Hx as [Hx _]. right; auto. }
  pose proof (sub_run_spec_sorted_ids start_of data) as Hs.
  induction Hs as [|a r Hs IH Hall]; [constructor|].
  constructor.
  - apply IH. intros x Hx. apply Hin. right; exact Hx.
  - rewrite Forall_forall in *. intros b Hb. apply Hmono; [apply Hin; left; auto|apply Hin; right; auto|auto].
Qed.

(* ... and otherwise not: run 2 starts at 0, run 1 at 20 (finding F1) *)
Definition start_f1 (r : Z) : Z := if r =? 2 then 0 else 20.
Example define_run_f1 : define_run_order start_f1 [2; 1] = [2; 1].
Proof. vm_compute. reflexivity. Qed.
Example sub_run_spec_f1 : sub_run_spec start_f1 [2; 1] = [1; 2].
Proof. vm_compute. reflexivity. Qed.
Lemma sub_run_spec_not_by_start :
  exists start_of data,
    ~ StronglySorted (fun a b => start_of a <= start_of b) (sub_run_spec start_of data).
Proof.
  exists start_f1, [2; 1]. rewrite sub_run_spec_f1. intros H.
  inversion H as [|? ? _ Hall]; subst. inversion Hall as [|? ? Hle _]; subst.
  vm_compute in Hle. apply Hle. reflexivity.
Qed.

(* since /repo 317aec4 check_cache re-orders what it read by the run starts: whatever the frontend did to
   the order, the sub-runs are chained in order of run start *)
Lemma chained_spec_sorted start_of data :
  StronglySorted (fun a b => start_of a <= start_of b) (chained_spec start_of data).
Proof. apply (sort_by_sorted start_of). Qed.

Lemma chained_spec_perm start_of data : Permutation (chained_spec start_of data) (dedup data).
Proof. unfold chained_spec. rewrite sort_by_perm. apply sub_run_spec_perm. Qed.

Example chained_spec_f1_example : chained_spec start_f1 [2; 1] = [2; 1] /\ sub_run_spec start_f1 [2; 1] = [1; 2].
Proof. vm_compute. split; reflexivity. Qed.

(* ---------------------------------------------------------------------------------------------
   histories of (re)definitions and gets on one directory: data found stored under the current
   definition was stored under a definition with the same sub-runs -- never stale
   --------------------------------------------------------------------------------------------- *)
Lemma list_eqb_eq a b : list_eqb a b = true <-> a = b.
Proof.
  revert b; induction a as [|x a IH]; intros [|y b]; cbn; split; intros H; try discriminate; auto.
  - apply andb_prop in H as [H1 H2]. apply Z.eqb_eq in H1. apply IH in H2. congruence.
  - inversion H; subst. rewrite Z.eqb_refl. cbn. now apply IH.
Qed.

(* the definitions that were current when a get actually stored something *)
Fixpoint h_gotten (s : hstate) (ops : list hop) : list (list Z) :=
  match ops with
  | [] => []
  | op :: more =>
      (match op with
       | HGet true => if h_is_stored s then [] else [h_spec s]
       | _ => []
       end) ++ h_gotten (h_step s op) more
  end.

Lemma h_made_sound ops : forall s G,
  (forall k, In k (h_made s) -> exists spec, In spec G /\ k = fst (canon_spec spec false)) ->
  forall k, In k (h_made (fold_left h_step ops s)) ->
  exists spec, In spec (G ++ h_gotten s ops) /\ k = fst (canon_spec spec false).
Proof.
  induction ops as [|op ops IH]; intros s G HG k Hk; cbn [fold_left h_gotten] in *.
  - rewrite app_nil_r. auto.
  - rewrite app_assoc. apply (IH (h_step s op)); [|exact Hk].
    intros k' Hk'. destruct op as [d|w]; cbn [h_step] in Hk'.
    + cbn [h_made] in Hk'. destruct (HG k' Hk') as (spec & Hin & He). exists spec. split; [|exact He].
      rewrite app_nil_r. exact Hin.
    + destruct w; cbn [andb] in Hk'.
      * destruct (h_is_stored s) eqn:E; cbn [negb] in Hk'.
        -- destruct (HG k' Hk') as (spec & Hin & He). exists spec. split; [|exact He]. rewrite app_nil_r. exact Hin.
        -- cbn [h_made] in Hk'. destruct Hk' as [<-|Hk'].
           ++ exists (h_spec s). split; [apply in_or_app; right; left; reflexivity|reflexivity].
           ++ destruct (HG k' Hk') as (spec & Hin & He). exists spec. split; [|exact He]. apply in_or_app; left; exact Hin.
      * destruct (HG k' Hk') as (spec & Hin & He). exists spec. split; [|exact He]. rewrite app_nil_r. exact Hin.
Qed.

Theorem hist_not_stale ops :
  let s := fold_left h_step ops (mkh [] []) in
  h_is_stored s = true ->
  exists spec, In spec (h_gotten (mkh [] []) ops) /\ Permutation spec (h_spec s).
Proof.
  cbn zeta. intros H. unfold h_is_stored in H. apply existsb_exists in H as (k & Hk & He).
  apply list_eqb_eq in He.
  destruct (h_made_sound ops (mkh [] []) [] ltac:(intros k' []) k Hk) as (spec & Hin & Hs).
  exists spec. split; [exact Hin|].
  unfold h_key in He. rewrite Hs in He. unfold canon_spec in He. cbn [fst] in He.
  rewrite <- (sort_by_perm (fun x => x) spec), <- (sort_by_perm (fun x => x) (h_spec _)), He. reflexivity.
Qed.

Example hist_example :
  h_trace (mkh [] []) [HDefine [1; 2; 3]; HGet true; HDefine [2; 1]; HGet true; HDefine [3; 2; 1]]
  = [false; true; false; true; true].
Proof. vm_compute. reflexivity. Qed.
