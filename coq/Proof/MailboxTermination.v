(* Termination of the mailbox LTS (implicit numbering): a measure that strictly decreases with every
   step of every thread, hence a bound on the length of every schedule.

   mu = (S + 2) * P + F + pw        S = number of subscribers
     P  progress potential: a rank of the sender's pc and remaining source, a rank per subscriber
        (messages still to read, stage inside the read loop, messages still to yield), 1 for a pending kill
     F  number of waiting threads whose woken flag is set     (F <= S + 1)
     pw number of futures not yet completed
   A step either lowers P (then mu drops whatever happens to the flags, because F <= S + 1 < S + 2),
   or is a re-check of a wait predicate that goes back to waiting (P equal, own flag cleared, nobody
   woken), or is a worker completing a future. *)
From SV Require Import Base.Prelude Model.Mailbox Proof.MailboxFacts Proof.MailboxProof Proof.MailboxInOrder.
Local Open Scope nat_scope.

Fixpoint nsum (l : list nat) : nat := match l with [] => 0 | x :: t => x + nsum t end.

Lemma nsum_upd {A} (f : A -> nat) i x y l :
  nth_error l i = Some x -> nsum (map f (upd i y l)) + f x = nsum (map f l) + f y.
Proof.
  revert i; induction l as [|h t IH]; intros [|i] H; cbn [nth_error upd map nsum] in *; try discriminate.
  - inversion H; subst. lia.
  - specialize (IH _ H). lia.
Qed.

Lemma nsum_le_length l : (forall x, In x l -> x <= 1) -> nsum l <= length l.
Proof.
  induction l as [|h t IH]; intros H; cbn [nsum length]; auto.
  assert (h <= 1) by (apply H; left; auto).
  assert (nsum t <= length t) by (apply IH; intros; apply H; right; auto). lia.
Qed.

Definition rank_s (st : state) : nat :=
  match s_pc st with
  | SGate => 4 * (length (src st) + 1) + 3
  | SGateWait => 4 * (length (src st) + 1) + 2
  | SSend _ _ false => 4 * (length (src st) + 2) + 1
  | SSend _ _ true => 4 * (length (src st) + 1) + 1
  | SSendWait _ _ false => 4 * (length (src st) + 2)
  | SSendWait _ _ true => 4 * (length (src st) + 1)
  | SKill _ => 1
  | SDone | SDead => 0
  end.

Definition flag_s (st : state) : nat :=
  match s_pc st with
  | SGateWait | SSendWait _ _ _ => if s_woken st then 1 else 0
  | _ => 0
  end.

Definition flag_r (r : reader) : nat :=
  match r_pc r with RWait _ => if r_woken r then 1 else 0 | _ => 0 end.

Definition pw (st : state) : nat := length (filter negb (w_done st)).

Section Termination.
Variable cfg : config.
Variable msgs : list msg.
Variable nfut : nat.
Hypothesis nostop : forall m, In m msgs -> is_stop m = false.

Notation N := (length msgs).
Notation A := (msgs ++ [Stop]).

Definition rank_r (r : reader) : nat :=
  match r_pc r with
  | REnter _ => 3 * (S N - r_nread r) + 2
  | RWait _ => 3 * (S N - r_nread r) + 1
  | RAwait _ _ rest _ _ => 3 * (S N - r_nread r) + length rest + 3
  | RDone | RRaised => 0
  end.

Definition P (st : state) : nat :=
  rank_s st + nsum (map rank_r (rds st)) + match k_pc st with Some _ => 1 | None => 0 end.
Definition F (st : state) : nat := flag_s st + nsum (map flag_r (rds st)).
Definition mu (st : state) : nat := (length (rds st) + 2) * P st + F st + pw st.

Lemma F_bound st : F st <= length (rds st) + 1.
Proof.
  unfold F. assert (flag_s st <= 1).
  { unfold flag_s. destruct (s_pc st); try lia; destruct (s_woken st); lia. }
  assert (nsum (map flag_r (rds st)) <= length (rds st)).
  { rewrite <- (map_length flag_r). apply nsum_le_length. intros x Hx. apply in_map_iff in Hx.
    destruct Hx as (r & <- & _). unfold flag_r. destruct (r_pc r); try lia. destruct (r_woken r); lia. }
  lia.
Qed.

(* the three ways a step lowers mu *)
Definition decreases (st st' : state) : Prop :=
  length (rds st') = length (rds st) /\
  ((P st' < P st /\ pw st' <= pw st) \/
   (P st' = P st /\ F st' < F st /\ pw st' = pw st) \/
   (P st' = P st /\ F st' = F st /\ pw st' < pw st)).

Lemma decreases_mu st st' : decreases st st' -> mu st' < mu st.
Proof.
  intros (El & H). unfold mu. rewrite El.
  pose proof (F_bound st') as B'. rewrite El in B'. pose proof (F_bound st) as B.
  destruct H as [(H1 & H2)|[(H1 & H2 & H3)|(H1 & H2 & H3)]].
  - nia.
  - rewrite H1, H3. lia.
  - rewrite H1, H2. lia.
Qed.

(* ---------- ranks do not look at woken flags ---------- *)
Lemma rank_r_woken r w : rank_r (rd_set_woken r w) = rank_r r.
Proof. reflexivity. Qed.

Lemma map_rank_wake l : map rank_r (map (fun r => rd_set_woken r true) l) = map rank_r l.
Proof. rewrite map_map. apply map_ext. intros r. apply rank_r_woken. Qed.

(* "only the sender moved": readers keep their ranks, killer and futures untouched *)
Definition readers_still (st st' : state) : Prop :=
  map rank_r (rds st') = map rank_r (rds st) /\ k_pc st' = k_pc st /\ w_done st' = w_done st.

Lemma readers_still_refl st : readers_still st st. Proof. repeat split. Qed.
Lemma readers_still_trans a b c : readers_still a b -> readers_still b c -> readers_still a c.
Proof. intros (A1 & A2 & A3) (B1 & B2 & B3). repeat split; congruence. Qed.

Lemma decreases_sender st st' :
  readers_still st st' -> rank_s st' < rank_s st -> decreases st st'.
Proof.
  intros (E1 & E2 & E3) H. split.
  - rewrite <- (map_length rank_r (rds st')), E1. apply map_length.
  - left. unfold P, pw. rewrite E1, E2, E3. lia.
Qed.

Lemma rs_wake_readers st : readers_still st (wake_readers st).
Proof. unfold wake_readers. repeat split. simp_st. apply map_rank_wake. Qed.
Lemma rs_wake_writer st : readers_still st (wake_writer st).
Proof. unfold wake_writer. destruct (s_pc st); repeat split. Qed.
Lemma rs_wake_gate st : readers_still st (wake_gate st).
Proof. unfold wake_gate. destruct (s_pc st); repeat split. Qed.
Lemma rs_maybe_wake_gate st : readers_still st (maybe_wake_gate cfg st).
Proof. unfold maybe_wake_gate. destruct (c_lazy cfg && can_fetch st); [apply rs_wake_gate|apply readers_still_refl]. Qed.
Lemma rs_produce st : readers_still st (produce st).
Proof. unfold produce. destruct (src st) as [|[num m] rest]; repeat split. Qed.
Lemma rs_after_send st c : readers_still st (after_send cfg st c).
Proof.
  unfold after_send. destruct c; [repeat split|]. destruct (c_lazy cfg); [repeat split|apply rs_produce].
Qed.
Lemma rs_send_raises st c r : readers_still st (send_raises st c r).
Proof. unfold send_raises. destruct c; repeat split. Qed.
Lemma rs_do_push st k m c : readers_still st (do_push cfg st k m c).
Proof.
  unfold do_push. eapply readers_still_trans; [|apply rs_after_send].
  eapply readers_still_trans; [|apply rs_wake_readers]. repeat split.
Qed.
Lemma rs_kill_region st up : readers_still st (kill_region st up).
Proof.
  assert (H : forall s, readers_still s (wake_gate (wake_writer (wake_readers s)))).
  { intros s. eapply readers_still_trans; [apply rs_wake_readers|].
    eapply readers_still_trans; [apply rs_wake_writer|apply rs_wake_gate]. }
  unfold kill_region. destruct up; simp_st; destruct (killed st); simp_st; try (repeat split; fail).
  - eapply readers_still_trans; [|apply H]. repeat split.
  - eapply readers_still_trans; [|apply H]. repeat split.
Qed.

(* ---------- the sender's rank ---------- *)
Lemma rank_produce st : rank_s (produce st) <= 4 * (length (src st) + 1) + 1.
Proof.
  unfold produce, rank_s. destruct (src st) as [|[num m] rest] eqn:Es; simp_st; rewrite ?Es; cbn [length]; lia.
Qed.

Lemma rank_after_send st c :
  rank_s (after_send cfg st c) <= if c then 0 else 4 * (length (src st) + 1) + 3.
Proof.
  unfold after_send. destruct c; [cbn; lia|]. destruct (c_lazy cfg).
  - unfold rank_s. simp_st. lia.
  - pose proof (rank_produce st). lia.
Qed.

Lemma rank_send_raises st c r : rank_s (send_raises st c r) <= 1.
Proof. unfold send_raises, rank_s. destruct c; simp_st; lia. Qed.

Lemma rank_do_push st k m c :
  rank_s (do_push cfg st k m c) <= if c then 0 else 4 * (length (src st) + 1) + 3.
Proof. unfold do_push. apply (rank_after_send (wake_readers (push_box st (insert k m (box st)))) c). Qed.

Lemma sender_step_decreases st :
  sender_enabled st = true -> decreases st (sender_step cfg st).
Proof.
  intros Hen. unfold sender_enabled in Hen. unfold sender_step.
  destruct (s_pc st) eqn:Epc; try discriminate.
  - (* SGate *)
    unfold gate_enter. destruct (can_fetch st).
    + apply decreases_sender; [apply rs_produce|]. pose proof (rank_produce st). unfold rank_s at 2. rewrite Epc. lia.
    + apply decreases_sender; [repeat split|]. unfold rank_s. simp_st. rewrite Epc. lia.
  - (* SGateWait, woken *)
    unfold gate_resume. destruct (can_fetch st).
    + apply decreases_sender; [apply rs_produce|]. pose proof (rank_produce st). unfold rank_s at 2. rewrite Epc. lia.
    + (* re-check failed: same rank, own flag cleared *)
      split; [reflexivity|]. right. left. repeat split.
      unfold F, flag_s. simp_st. rewrite Epc, Hen. lia.
  - (* SSend *)
    assert (Hr : forall st', readers_still st st' ->
                 rank_s st' <= (if closing then 0 else 4 * (length (src st) + 1) + 3) -> decreases st st').
    { intros st' Hs Hle. apply decreases_sender; auto. unfold rank_s at 2. rewrite Epc. destruct closing; lia. }
    assert (Hr1 : forall st', readers_still st st' -> rank_s st' <= 1 -> decreases st st').
    { intros st' Hs Hle. apply decreases_sender; auto. unfold rank_s at 2. rewrite Epc. destruct closing; lia. }
    unfold send_enter.
    destruct (closed st); [apply Hr1; [apply rs_send_raises|apply rank_send_raises]|].
    destruct (fkilled st); [apply Hr1; [apply rs_send_raises|apply rank_send_raises]|].
    destruct (killed st); [apply Hr; [apply rs_after_send|apply rank_after_send]|].
    destruct (_ <? _); [apply Hr1; [apply rs_send_raises|apply rank_send_raises]|].
    destruct (can_write cfg st); [apply Hr; [apply rs_do_push|apply rank_do_push]|].
    apply decreases_sender; [repeat split|]. unfold rank_s. simp_st. rewrite Epc. destruct closing; lia.
  - (* SSendWait, woken *)
    unfold send_resume. destruct (can_write cfg st).
    + assert (Hr : forall st', readers_still st st' ->
                   rank_s st' <= (if closing then 0 else 4 * (length (src st) + 1) + 3) -> decreases st st').
      { intros st' Hs Hle. apply decreases_sender; auto. unfold rank_s at 2. rewrite Epc. destruct closing; lia. }
      destruct (killed st); [|apply Hr; [apply rs_do_push|apply rank_do_push]].
      destruct (fkilled st); [|apply Hr; [apply rs_after_send|apply rank_after_send]].
      apply decreases_sender; [apply rs_send_raises|].
      pose proof (rank_send_raises st closing false). unfold rank_s at 2. rewrite Epc. destruct closing; lia.
    + split; [reflexivity|]. right. left. repeat split.
      unfold F, flag_s. simp_st. rewrite Epc, Hen. lia.
  - (* SKill *)
    apply decreases_sender.
    + eapply readers_still_trans; [apply (rs_kill_region st true)|]. repeat split.
    + unfold rank_s. simp_st. rewrite Epc. destruct reraise; simp_st; lia.
Qed.

(* ---------- the readers ---------- *)
Lemma rank_deliver wd r ms n' last :
  rank_r (deliver wd r ms n' last) <= 3 * (S N - r_nread r) + length ms + 2.
Proof.
  revert r; induction ms as [|m t IH]; intros r; cbn [deliver length].
  - unfold rank_r. destruct last; simp_st; lia.
  - destruct m.
    + specialize (IH (rd_log r v)). cbn [r_nread rd_log] in IH. lia.
    + destruct (nth k wd false).
      * specialize (IH (rd_log r v)). cbn [r_nread rd_log] in IH. lia.
      * unfold rank_r. simp_st. lia.
    + unfold rank_r. destruct last; simp_st; lia.
Qed.

(* "only reader i moved": from r to r' *)
Lemma decreases_reader st st' i r r' :
  nth_error (rds st) i = Some r -> rds st' = upd i r' (rds st) ->
  s_pc st' = s_pc st -> src st' = src st -> k_pc st' = k_pc st -> w_done st' = w_done st ->
  rank_r r' < rank_r r -> decreases st st'.
Proof.
  intros Hi Er E1 E2 E3 E4 Hlt. split.
  - rewrite Er. apply upd_length.
  - left. unfold P, pw, rank_s. rewrite Er, E1, E2, E3, E4.
    pose proof (nsum_upd rank_r i r r' (rds st) Hi). lia.
Qed.

Lemma recheck_reader st st' i r r' :
  nth_error (rds st) i = Some r -> rds st' = upd i r' (rds st) ->
  s_pc st' = s_pc st -> src st' = src st -> k_pc st' = k_pc st -> w_done st' = w_done st ->
  s_woken st' = s_woken st -> rank_r r' = rank_r r -> flag_r r' < flag_r r -> decreases st st'.
Proof.
  intros Hi Er E1 E2 E3 E4 E5 Heq Hlt. split.
  - rewrite Er. apply upd_length.
  - right. left. unfold P, F, pw, rank_s, flag_s. rewrite Er, E1, E2, E3, E4, E5.
    pose proof (nsum_upd rank_r i r r' (rds st) Hi). pose proof (nsum_upd flag_r i r r' (rds st) Hi).
    repeat split; lia.
Qed.

Lemma grab_decreases st i r n :
  Inv msgs nfut st -> nth_error (rds st) i = Some r -> (r_pc r = REnter n \/ r_pc r = RWait n) ->
  next_ready st n = true -> decreases st (grab cfg st i r n).
Proof.
  intros (HM & HS & HF & HW) Hi Hpc Hnr.
  pose proof (MB_lo_le _ _ HM) as Hlo. pose proof HM as (HB & HSn & HR & Hne). unfold box_ok in HB.
  destruct (HR _ _ Hi) as [Hrn Hrpc].
  destruct (pc_ok_wants _ _ _ _ Hrpc Hpc) as (Enr & HnN & Elog).
  assert (Hold : 3 * (S N - n) + 1 <= rank_r r).
  { unfold rank_r. destruct Hpc as [E|E]; rewrite E, Enr; lia. }
  unfold grab. destruct (killed st) eqn:Ek.
  - eapply (decreases_reader st _ i r (rd_set_pc (rd_set_waiting r None) RRaised)); eauto; try reflexivity.
    unfold rank_r at 1. simp_st. lia.
  - unfold next_ready in Hnr. rewrite Ek, orb_false_r in Hnr.
    set (lo := min_nread (rds st)) in *.
    assert (Hlen : lo + (n_sent st - lo) <= length A).
    { rewrite app_length. cbn [length]. unfold MailboxInOrder.N in HSn. lia. }
    fold (MailboxInOrder.A msgs) in HB.
    unfold MailboxInOrder.A in HB.
    rewrite HB in Hnr. rewrite has_msg_seg in Hnr by exact Hlen.
    apply andb_true_iff in Hnr. destruct Hnr as [Hn1 Hn2].
    apply Nat.leb_le in Hn1. apply Nat.ltb_lt in Hn2.
    rewrite HB at 1 2. rewrite seg_length by exact Hlen.
    rewrite take_from_seg; try lia.
    replace (lo + (n_sent st - lo)) with (n_sent st) by lia.
    set (ms := firstn (n_sent st - n) (skipn n A)).
    set (r2 := rd_set_nread (rd_set_waiting r None) (n_sent st)).
    set (st1 := set_rds st (upd i r2 (rds st))).
    set (st2 := set_box st1 (gc (min_nread (rds st1)) (box st1))).
    set (st3 := wake_writer (maybe_wake_gate cfg st2)).
    set (rf := deliver (w_done st3) r2 ms (n_sent st) (stop_in ms)).
    destruct (wake_writer_view (maybe_wake_gate cfg st2)) as (A1 & A2 & A3 & A4 & A5 & A6 & A7 & A8 & A9).
    destruct (maybe_wake_gate_view cfg st2) as (B1 & B2 & B3 & B4 & B5 & B6 & B7 & B8 & B9).
    destruct (rs_wake_writer (maybe_wake_gate cfg st2)) as (_ & C2 & _).
    destruct (rs_maybe_wake_gate st2) as (_ & D2 & _).
    assert (E1 : rds st3 = upd i r2 (rds st)) by exact (eq_trans A1 B1).
    assert (Hms : length ms <= n_sent st - n) by (unfold ms; apply firstn_le_length).
    pose proof (rank_deliver (w_done st3) r2 ms (n_sent st) (stop_in ms)) as Hrk. fold rf in Hrk.
    change (r_nread r2) with (n_sent st) in Hrk.
    eapply (decreases_reader st _ i r rf); eauto.
    + cbn [rds set_rds]. rewrite E1. apply upd_upd.
    + exact (eq_trans A9 B9).
    + exact (eq_trans A7 B7).
    + exact (eq_trans C2 D2).
    + exact (eq_trans A6 B6).
    + unfold MailboxInOrder.N in *. lia.
Qed.

Lemma reader_step_decreases st i r :
  Inv msgs nfut st -> nth_error (rds st) i = Some r -> reader_enabled st r = true ->
  decreases st (reader_step cfg st i r).
Proof.
  intros HI Hi Hen. unfold reader_enabled in Hen. unfold reader_step.
  destruct (r_pc r) eqn:Epc; try discriminate.
  - (* REnter *)
    unfold read_enter. destruct (next_ready st n) eqn:Enr; [apply grab_decreases; auto|].
    set (r' := rd_set_woken (rd_set_pc (rd_set_waiting r (Some n)) (RWait n)) false).
    destruct (maybe_wake_gate_view cfg (set_rds st (upd i r' (rds st)))) as (B1 & B2 & B3 & B4 & B5 & B6 & B7 & B8 & B9).
    destruct (rs_maybe_wake_gate (set_rds st (upd i r' (rds st)))) as (_ & D2 & _).
    eapply (decreases_reader st _ i r r'); eauto.
    unfold rank_r, r'. simp_st. rewrite Epc. lia.
  - (* RWait, woken *)
    unfold read_resume. destruct (next_ready st n) eqn:Enr; [apply grab_decreases; auto|].
    eapply (recheck_reader st _ i r (rd_set_woken r false)); eauto; try reflexivity.
    unfold flag_r. simp_st. rewrite Epc, Hen. lia.
  - (* RAwait *)
    pose proof (rank_deliver (w_done st) (rd_log r v) rest n' last) as Hrk.
    cbn [r_nread rd_log] in Hrk.
    eapply (decreases_reader st _ i r (deliver (w_done st) (rd_log r v) rest n' last)); eauto; try reflexivity.
    unfold rank_r at 2. rewrite Epc. lia.
Qed.

Lemma pw_upd_true l k : nth_error l k = Some false -> length (filter negb (upd k true l)) < length (filter negb l).
Proof.
  revert k; induction l as [|h t IH]; intros [|k] H; cbn [nth_error upd filter] in *; try discriminate.
  - inversion H; subst. cbn. lia.
  - specialize (IH _ H). destruct h; cbn [negb length]; lia.
Qed.

Lemma step_decreases st t st' :
  Inv msgs nfut st -> step cfg st t = Some st' -> decreases st st'.
Proof.
  intros HI Hs. apply step_inv in Hs. destruct t.
  - destruct Hs as [Hen ->]. apply sender_step_decreases; auto.
  - destruct Hs as (r & Hr & Hen & ->). apply reader_step_decreases; auto.
  - destruct Hs as (up & Hk & ->).
    destruct (rs_kill_region st up) as (E1 & E2 & E3).
    split.
    + cbn [rds set_kpc]. rewrite <- (map_length rank_r (rds (kill_region st up))), E1. apply map_length.
    + left. unfold P, pw, rank_s. cbn [rds s_pc src k_pc w_done set_kpc].
      rewrite E1, E3, spc_kill_region, Hk.
      destruct (kill_region_view st up) as (_ & _ & _ & _ & Es & _). rewrite Es. lia.
  - destruct Hs as (d & Hd & -> & ->). split; [reflexivity|]. right. right. repeat split.
    unfold pw. cbn [w_done set_wdone]. apply pw_upd_true. exact Hd.
Qed.

(* every schedule is at most mu(initial state) long *)
Theorem schedules_bounded dm killer sched st :
  dm <> [] ->
  run cfg (init cfg dm (source_of msgs) killer nfut) sched = Some st ->
  length sched + mu st <= mu (init cfg dm (source_of msgs) killer nfut).
Proof.
  intros Hd. set (st0 := init cfg dm (source_of msgs) killer nfut).
  assert (H : forall sched s s', Inv msgs nfut s -> run cfg s sched = Some s' -> length sched + mu s' <= mu s).
  { intros sc; induction sc as [|t sc IH]; intros s s' HI Hrun; cbn [run length] in *.
    - inversion Hrun; subst. lia.
    - destruct (step cfg s t) as [s1|] eqn:Es; try discriminate.
      pose proof (decreases_mu _ _ (step_decreases _ _ _ HI Es)).
      assert (HI1 : Inv msgs nfut s1) by (eapply Inv_step; eauto).
      specialize (IH _ _ HI1 Hrun). lia. }
  intros Hrun. apply (H sched st0 st); auto. apply Inv_init; auto.
Qed.

End Termination.
