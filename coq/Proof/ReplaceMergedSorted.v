(* replace_merged: the result is ordered by time when the originals and the merged peaks are, and
   every merged peak lies (in time) after the originals before its window and before those after. *)
From SV Require Import Model.Merging Spec.MergingSpec Proof.ReplaceMergedProof.

Lemma FOP_app_iff {X} (R : X -> X -> Prop) a b :
  ForallOrdPairs R (a ++ b) <->
  ForallOrdPairs R a /\ ForallOrdPairs R b /\ (forall x y, In x a -> In y b -> R x y).
Proof.
  induction a as [|x a IH]; cbn [app].
  - split; [intros H; repeat split; [constructor|exact H|intros ? ? []]|tauto].
  - split.
    + intros H. inversion H as [|? ? Hf Hr]; subst. apply IH in Hr as (H1 & H2 & H3).
      apply Forall_app in Hf as [Hfa Hfb]. repeat split; auto.
      * constructor; auto.
      * intros u v [<-|Hu] Hv; [rewrite Forall_forall in Hfb; auto|auto].
    + intros (H1 & H2 & H3). inversion H1 as [|? ? Hf Hr]; subst. constructor.
      * apply Forall_app. split; [exact Hf|]. rewrite Forall_forall. intros v Hv. apply H3; [left; auto|auto].
      * apply IH. repeat split; auto. intros u v Hu Hv. apply H3; [right; auto|auto].
Qed.

Lemma in_firstn {X} k : forall (l : list X) y, In y (firstn k l) -> In y l.
Proof.
  induction k as [|k IH]; intros l y H; [destruct H|]. destruct l as [|x l]; [destruct H|].
  cbn [firstn] in H. destruct H as [<-|H]; [left; auto|right; auto].
Qed.

Lemma FOP_skipn {X} (R : X -> X -> Prop) k : forall l, ForallOrdPairs R l -> ForallOrdPairs R (skipn k l).
Proof.
  induction k as [|k IH]; intros l H; [exact H|]. destruct l as [|x l]; [constructor|].
  inversion H; subst. cbn [skipn]. auto.
Qed.

Lemma FOP_firstn {X} (R : X -> X -> Prop) k : forall l, ForallOrdPairs R l -> ForallOrdPairs R (firstn k l).
Proof.
  induction k as [|k IH]; intros l H; [constructor|]. destruct l as [|x l]; [constructor|].
  inversion H as [|? ? Hf Hr]; subst. cbn [firstn]. constructor; [|auto].
  rewrite Forall_forall in *. intros y Hy. apply Hf. eapply in_firstn; eauto.
Qed.

(* R-related by position: earlier elements are R-related to later ones *)
Lemma FOP_nth {X} (R : X -> X -> Prop) : forall l j1 j2 x y, ForallOrdPairs R l ->
  nth_error l j1 = Some x -> nth_error l j2 = Some y -> (j1 < j2)%nat -> R x y.
Proof.
  induction l as [|a l IH]; intros j1 j2 x y H H1 H2 Hlt; [destruct j1; discriminate|].
  inversion H as [|? ? Hf Hr]; subst. destruct j2 as [|j2]; [lia|]. cbn [nth_error] in H2.
  destruct j1 as [|j1].
  - cbn in H1. injection H1 as <-. rewrite Forall_forall in Hf. apply Hf. eapply nth_error_In; eauto.
  - cbn [nth_error] in H1. eapply IH; eauto. lia.
Qed.

Lemma nth_error_skipn {X} a : forall (l : list X) j, nth_error (skipn a l) j = nth_error l (a + j).
Proof.
  induction a as [|a IH]; intros l j; [reflexivity|]. destruct l as [|x l]; [destruct j; reflexivity|].
  cbn [skipn Nat.add nth_error]. apply IH.
Qed.

Lemma in_firstn_nth {X} k : forall (l : list X) x, In x (firstn k l) ->
  exists j, (j < k)%nat /\ nth_error l j = Some x.
Proof.
  induction k as [|k IH]; intros l x H; [destruct H|]. destruct l as [|a l]; [destruct H|].
  cbn [firstn] in H. destruct H as [<-|H].
  - exists 0%nat. split; [lia|reflexivity].
  - destruct (IH l x H) as (j & Hj & Hn). exists (S j). split; [lia|exact Hn].
Qed.

Section Sorted.
Context {T : Type}.
Variable key : T -> Z.
Variable orig : list T.
Notation n := (zlen orig).

Definition le_k (a b : T) : Prop := key a <= key b.
Definition ksorted (l : list T) : Prop := ForallOrdPairs le_k l.

Lemma tslice_in a b x : 0 <= a -> In x (tslice orig a b) ->
  exists j, nth_error orig j = Some x /\ a <= Z.of_nat j < b.
Proof.
  intros Ha H. unfold tslice in H. apply in_firstn_nth in H as (j & Hj & Hn).
  rewrite nth_error_skipn in Hn. exists (Z.to_nat a + j)%nat. split; [exact Hn|lia].
Qed.

Lemma tslice_sorted a b : ksorted orig -> ksorted (tslice orig a b).
Proof. intros H. unfold tslice. apply FOP_firstn, FOP_skipn, H. Qed.

(* every merged element lies after the originals before its window and before those from its end on *)
Definition win_ordered (mw : list (T * Z * Z)) : Prop :=
  Forall (fun w => let '(m, s, e) := w in
                   (forall j x, nth_error orig j = Some x -> Z.of_nat j < s -> key x <= key m) /\
                   (forall j x, nth_error orig j = Some x -> e <= Z.of_nat j -> key m <= key x)) mw.
Definition merge_sorted (mw : list (T * Z * Z)) : Prop :=
  ForallOrdPairs (fun a b => key (fst (fst a)) <= key (fst (fst b))) mw.

Lemma rm_spec_elems : forall mw i x, 0 <= i -> wchain n i mw -> In x (rm_spec orig i mw) ->
  (exists j, nth_error orig j = Some x /\ i <= Z.of_nat j) \/ (exists s e, In (x, s, e) mw).
Proof.
  induction mw as [|[[m s] e] r IH]; intros i x Hi Hw Hin; cbn [rm_spec] in Hin.
  - left. apply tslice_in in Hin as (j & Hj & Hr); [|exact Hi]. exists j. split; [auto|lia].
  - cbn [wchain] in Hw. destruct Hw as (H1 & H2 & H3 & Hch & _).
    apply in_app_or in Hin as [Hin|[<-|Hin]].
    + left. apply tslice_in in Hin as (j & Hj & Hr); [|exact Hi]. exists j. split; [auto|lia].
    + right. exists s, e. left. reflexivity.
    + destruct (IH e x ltac:(lia) Hch Hin) as [(j & Hj & Hr)|(s' & e' & Hm)].
      * left. exists j. split; [auto|lia].
      * right. exists s', e'. right. exact Hm.
Qed.

Theorem rm_spec_sorted : forall mw i, 0 <= i -> wchain n i mw ->
  ksorted orig -> win_ordered mw -> merge_sorted mw -> ksorted (rm_spec orig i mw).
Proof.
  induction mw as [|[[m s] e] r IH]; intros i Hi Hw Hso Hwo Hms; cbn [rm_spec].
  - apply tslice_sorted, Hso.
  - cbn [wchain] in Hw. destruct Hw as (H1 & H2 & H3 & Hch & _).
    inversion Hwo as [|? ? Hw0 Hwo']; subst. cbn beta iota zeta in Hw0. destruct Hw0 as [Hbefore Hafter].
    inversion Hms as [|? ? Hmf Hms']; subst.
    assert (Hrest : forall y, In y (rm_spec orig e r) -> key m <= key y).
    { intros y Hy. destruct (rm_spec_elems r e y ltac:(lia) Hch Hy) as [(j & Hj & Hr)|(s' & e' & Hm)].
      - eapply Hafter; eauto.
      - rewrite Forall_forall in Hmf. apply (Hmf (y, s', e') Hm). }
    apply FOP_app_iff. split; [apply tslice_sorted, Hso|]. split.
    + constructor; [rewrite Forall_forall; exact Hrest|]. apply IH; auto. lia.
    + intros x y Hx Hy. apply tslice_in in Hx as (j & Hj & Hr); [|exact Hi].
      assert (Hxm : key x <= key m) by (eapply Hbefore; eauto; lia).
      destruct Hy as [<-|Hy]; [exact Hxm|]. unfold le_k. specialize (Hrest y Hy). lia.
Qed.

(* the result of replace_merged is ordered by the key (time) *)
Theorem replace_merged_sorted mw out :
  wchain n 0 mw -> ksorted orig -> win_ordered mw -> merge_sorted mw ->
  replace_merged orig mw = Ok out -> ksorted out.
Proof.
  intros Hw Hso Hwo Hms Hrun. rewrite (replace_merged_spec orig mw Hw) in Hrun. injection Hrun as <-.
  apply rm_spec_sorted; auto. lia.
Qed.
End Sorted.

Example rm_sorted_example :
  @ksorted Z (fun x => x) [10; 20; 30; 40] /\
  @win_ordered Z (fun x => x) [10; 20; 30; 40] [(20, 1, 3)] /\ wchain 4 0 [(20, 1, 3)] /\
  replace_merged [10; 20; 30; 40] [(20, 1, 3)] = Ok [10; 20; 40].
Proof.
  split; [repeat constructor; unfold le_k; lia|]. split.
  - constructor; [|constructor]. split.
    + intros [|[|j]] x H Hj; cbn in H; try (injection H as <-; lia); lia.
    + intros [|[|[|[|j]]]] x H Hj; cbn in H; try (injection H as <-; lia); try lia; destruct j; discriminate.
  - split; [cbn; lia|vm_compute; reflexivity].
Qed.
