(* Deadlock freedom of the divide_outputs system (Model/MailboxDivider.v), for all schedules.
   Two ingredients: (1) an accounting invariant that ties the divider's program counter and the number
   of dicts still to fetch to the phase (at the gate / holding an item / closing / closed) and the number
   of remaining items of every component mailbox; (2) the single-mailbox lemma no_enabled_terminal applied
   to the mailbox the divider is working on: if neither the divider nor any subscriber of that mailbox can
   run, the mailbox's own transition system has no enabled thread, so its sender would be finished --
   which the accounting invariant excludes. *)
From SV Require Import Base.Prelude Model.Mailbox Model.MailboxDivider
  Proof.MailboxFacts Proof.MailboxProof Proof.MailboxInOrder Proof.MailboxDividerProof.
Local Open Scope nat_scope.

Inductive phase : Type := PG | PH | PC | PD | PX.

Definition phase_of (c : state) : phase :=
  match s_pc c with
  | SGate | SGateWait => PG
  | SSend _ _ false | SSendWait _ _ false => PH
  | SSend _ _ true | SSendWait _ _ true => PC
  | SDone => PD
  | _ => PX
  end.

(* items the sender still has to push (not counting the end marker) *)
Definition rem (c : state) : nat := length (src c) + match phase_of c with PH => 1 | _ => 0 end.

Definition hc (R : nat) : phase := if R =? 0 then PC else PH.

(* ---------- one sender step of a component ---------- *)
Lemma phase_produce c :
  phase_of (produce c) = hc (length (src c)) /\ rem (produce c) = length (src c) /\
  killed (produce c) = killed c /\ comp_waiting (produce c) = false.
Proof.
  unfold produce, rem, phase_of, hc, comp_waiting. destruct (src c) as [|[num m] rest] eqn:Es; simp_st; rewrite ?Es;
    cbn [length Nat.eqb]; repeat split; try reflexivity; try lia.
Qed.

Lemma phase_after_send cfg c closing :
  let c' := after_send cfg c closing in
  killed c' = killed c /\ comp_waiting c' = false /\
  if closing then phase_of c' = PD
  else rem c' = length (src c) /\ phase_of c' = if c_lazy cfg then PG else hc (length (src c)).
Proof.
  unfold after_send. destruct closing.
  - unfold phase_of, comp_waiting. simp_st. auto.
  - destruct (c_lazy cfg).
    + unfold rem, phase_of, comp_waiting. simp_st. repeat split; try reflexivity; lia.
    + destruct (phase_produce c) as (H1 & H2 & H3 & H4). auto.
Qed.

Lemma comp_step cfg ms c :
  Inv ms 0 c -> killed c = false -> sender_enabled c = true ->
  let c' := sender_step cfg c in
  killed c' = false /\
  match phase_of c with
  | PG => (comp_waiting c' = true /\ phase_of c' = PG /\ rem c' = rem c) \/
          (comp_waiting c' = false /\ rem c' = rem c /\ phase_of c' = hc (rem c))
  | PH => (comp_waiting c' = true /\ phase_of c' = PH /\ rem c' = rem c) \/
          (comp_waiting c' = false /\ S (rem c') = rem c /\
           phase_of c' = if c_lazy cfg then PG else hc (rem c'))
  | PC => (comp_waiting c' = true /\ phase_of c' = PC /\ rem c' = rem c) \/
          (comp_waiting c' = false /\ phase_of c' = PD)
  | _ => True
  end.
Proof.
  intros HI Hk Hen. pose proof HI as (HM & HS & HF & _). pose proof HS as (Hsn & Hcl & Hpc).
  assert (Hfk : fkilled c = false) by (destruct (fkilled c); auto; specialize (HF eq_refl); congruence).
  cbv zeta.
  remember (phase_of c) as ph eqn:Eph. remember (rem c) as rm eqn:Erm.
  unfold rem in Erm. rewrite <- Eph in Erm. unfold phase_of in Eph.
  unfold sender_step. destruct (s_pc c) eqn:Epc.
  - (* SGate *)
    subst ph. rewrite Nat.add_0_r in Erm. unfold gate_enter. destruct (can_fetch c).
    + destruct (phase_produce c) as (H1 & H2 & H3 & H4). split; [congruence|]. right.
      rewrite H1, H2, H4, Erm. auto.
    + split; [exact Hk|]. left. unfold comp_waiting, rem, phase_of. simp_st. rewrite ?Epc. split; auto. split; auto. lia.
  - (* SGateWait *)
    subst ph. rewrite Nat.add_0_r in Erm. unfold gate_resume. destruct (can_fetch c).
    + destruct (phase_produce c) as (H1 & H2 & H3 & H4). split; [congruence|]. right.
      rewrite H1, H2, H4, Erm. auto.
    + split; [exact Hk|]. left. unfold comp_waiting, rem, phase_of. simp_st. rewrite ?Epc. split; auto. split; auto. lia.
  - (* SSend *)
    assert (Hc : closed c = false) by (apply (closed_false_of ms); auto; congruence).
    destruct Hpc as [-> Hh]. specialize (Hh Hk).
    pose proof (MB_lo_le _ _ HM) as Hlo.
    unfold send_enter. rewrite Hc, Hfk, Hk.
    replace (n_sent c <? min_nread (rds c)) with false by (symmetry; apply Nat.ltb_ge; lia).
    destruct (can_write cfg c).
    + unfold do_push.
      set (c1 := wake_readers (push_box c (insert (n_sent c) m (box c)))).
      destruct (phase_after_send cfg c1 closing) as (H1 & H2 & H3).
      split; [rewrite H1; exact Hk|].
      destruct closing; subst ph.
      * right. auto.
      * right. destruct H3 as [H3 H4]. split; [exact H2|].
        change (src c1) with (src c) in H3, H4. split; [lia|]. rewrite H4, H3. reflexivity.
    + split; [exact Hk|]. unfold comp_waiting, rem, phase_of. simp_st.
      destruct closing; subst ph; left; (split; [reflexivity|]); (split; [reflexivity|]); lia.
  - (* SSendWait *)
    assert (Hc : closed c = false) by (apply (closed_false_of ms); auto; congruence).
    unfold send_resume. rewrite Hk.
    destruct (can_write cfg c).
    + unfold do_push.
      set (c1 := wake_readers (push_box c (insert num m (box c)))).
      destruct (phase_after_send cfg c1 closing) as (H1 & H2 & H3).
      split; [rewrite H1; exact Hk|].
      destruct closing; subst ph.
      * right. auto.
      * right. destruct H3 as [H3 H4]. split; [exact H2|].
        change (src c1) with (src c) in H3, H4. split; [lia|]. rewrite H4, H3. reflexivity.
    + split; [exact Hk|]. unfold comp_waiting, rem, phase_of. simp_st. rewrite Epc.
      destruct closing; subst ph; left; (split; [reflexivity|]); (split; [reflexivity|]); lia.
  - (* SKill: unreachable when not killed *) congruence.
  - subst ph. auto.
  - subst ph. auto.
Qed.

(* ---------- subscriber steps leave the sender's side of a component alone ---------- *)
Lemma reader_step_frame cfg c i r :
  nth_error (rds c) i = Some r ->
  s_pc (reader_step cfg c i r) = s_pc c /\ src (reader_step cfg c i r) = src c /\
  killed (reader_step cfg c i r) = killed c.
Proof.
  intros Hi. unfold reader_step.
  assert (Hg : forall n, s_pc (grab cfg c i r n) = s_pc c /\ src (grab cfg c i r n) = src c /\
                         killed (grab cfg c i r n) = killed c).
  { intros n. unfold grab. destruct (killed c) eqn:Ek; [cbn; auto|].
    destruct (take_from (length (box c)) (box c) n) as [[ms n'] last].
    set (r2 := rd_set_nread (rd_set_waiting r None) n').
    set (st1 := set_rds c (upd i r2 (rds c))).
    set (st2 := set_box st1 (gc (min_nread (rds st1)) (box st1))).
    destruct (wake_writer_view (maybe_wake_gate cfg st2)) as (A1 & A2 & A3 & A4 & A5 & A6 & A7 & A8 & A9).
    destruct (maybe_wake_gate_view cfg st2) as (B1 & B2 & B3 & B4 & B5 & B6 & B7 & B8 & B9).
    cbn [s_pc src killed set_rds]. rewrite A9, B9, A7, B7, A4, B4. cbn. auto. }
  destruct (r_pc r); try (cbn; auto; fail).
  - unfold read_enter. destruct (next_ready c n); [apply Hg|].
    destruct (maybe_wake_gate_view cfg (set_rds c (upd i (rd_set_woken (rd_set_pc (rd_set_waiting r (Some n)) (RWait n)) false) (rds c))))
      as (B1 & B2 & B3 & B4 & B5 & B6 & B7 & B8 & B9).
    rewrite B9, B7, B4. cbn. auto.
  - unfold read_resume. destruct (next_ready c n); [apply Hg|]. cbn. auto.
Qed.

Lemma phase_rem_same c c' :
  s_pc c' = s_pc c -> src c' = src c -> phase_of c' = phase_of c /\ rem c' = rem c.
Proof. unfold rem, phase_of. intros -> ->. auto. Qed.

(* ---------- first_gated ---------- *)
Lemma first_gated_some dc fuel j j' :
  first_gated dc fuel j = Some j' ->
  j <= j' /\ j' < j + fuel /\ gated dc j' = true /\ forall k, j <= k -> k < j' -> gated dc k = false.
Proof.
  revert j; induction fuel as [|f IH]; intros j H; cbn [first_gated] in H; [discriminate|].
  destruct (gated dc j) eqn:E.
  - inversion H; subst. split; [lia|]. split; [lia|]. split; [exact E|]. intros k; lia.
  - apply IH in H. destruct H as (H1 & H2 & H3 & H4). split; [lia|]. split; [lia|]. split; [exact H3|].
    intros k Hk1 Hk2. destruct (Nat.eq_dec k j) as [->|]; auto. apply H4; lia.
Qed.

Lemma first_gated_none dc fuel j :
  first_gated dc fuel j = None -> forall k, j <= k -> k < j + fuel -> gated dc k = false.
Proof.
  revert j; induction fuel as [|f IH]; intros j H k Hk1 Hk2; cbn [first_gated] in H; [lia|].
  destruct (gated dc j) eqn:E; [discriminate|].
  destruct (Nat.eq_dec k j) as [->|]; auto. apply (IH _ H); lia.
Qed.

Section Live.
Variable dc : dconfig.
Variable subs : list (list bool).
Variable comps : list (list msg).
Variable ndicts : nat.

Notation n := (length subs).
Hypothesis n_pos : 0 < n.
Hypothesis comps_len : length comps = n.
Hypothesis subs_ne : forall j dr, nth_error subs j = Some dr -> dr <> [].
Hypothesis comps_ok : forall j ms, nth_error comps j = Some ms ->
  length ms = ndicts /\ forall m, In m ms -> exists v, m = Plain v.
Hypothesis cap_pos : forall c, dc_cap dc = Some c -> 1 <= c.
Hypothesis drivers : forall j dr, nth_error subs j = Some dr -> gated dc j = true -> In true dr.

Definition ok (ph : phase) (R : nat) (c : state) : Prop := phase_of c = ph /\ rem c = R /\ killed c = false.

Definition gate_expect (j R k : nat) : phase := if gated dc k && (j <=? k) then PG else hc R.
Definition sent_expect (R k : nat) : phase := if gated dc k then PG else hc R.

Definition dcons (ds : dstate) : Prop :=
  length (d_mbs ds) = n /\
  match d_pc ds with
  | DGate j => j < n /\ gated dc j = true /\
      forall k c, nth_error (d_mbs ds) k = Some c -> ok (gate_expect j (d_left ds) k) (d_left ds) c
  | DSend j => j < n /\
      forall k c, nth_error (d_mbs ds) k = Some c ->
        if k <? j then ok (sent_expect (d_left ds) k) (d_left ds) c else ok PH (S (d_left ds)) c
  | DClose j => j < n /\ d_left ds = 0 /\
      forall k c, nth_error (d_mbs ds) k = Some c ->
        if k <? j then phase_of c = PD /\ killed c = false else ok PC 0 c
  | DDone => forall k c, nth_error (d_mbs ds) k = Some c -> phase_of c = PD /\ killed c = false
  end.

Lemma nth_lt {T} (l : list T) k x : nth_error l k = Some x -> k < length l.
Proof. intros H. apply nth_error_Some. congruence. Qed.

(* all gates from j on have been passed: components are at the gate iff gated and not yet passed *)
Lemma after_gates_cons mbs j R :
  length mbs = n -> j <= n ->
  (forall k c, nth_error mbs k = Some c -> ok (gate_expect j R k) R c) ->
  dcons (mkD mbs (fst (after_gates dc n j R)) (snd (after_gates dc n j R))).
Proof.
  intros Hlen Hj Hall. unfold after_gates. destruct (first_gated dc (n - j) j) as [j'|] eqn:Eg.
  - apply first_gated_some in Eg. destruct Eg as (G1 & G2 & G3 & G4).
    cbn [fst snd]. split; [exact Hlen|]. cbn [d_pc d_mbs d_left]. split; [lia|]. split; [exact G3|].
    intros k c Hk. specialize (Hall _ _ Hk). unfold gate_expect in *.
    destruct (gated dc k) eqn:Egk; cbn [andb] in *; auto.
    destruct (j <=? k) eqn:E1; destruct (j' <=? k) eqn:E2; auto.
    + apply Nat.leb_le in E1. apply Nat.leb_gt in E2. rewrite G4 in Egk by lia. discriminate.
    + apply Nat.leb_gt in E1. apply Nat.leb_le in E2. lia.
  - pose proof (first_gated_none _ _ _ Eg) as Hnone.
    assert (Hall' : forall k c, nth_error mbs k = Some c -> ok (hc R) R c).
    { intros k c Hk. specialize (Hall _ _ Hk). unfold gate_expect in Hall.
      destruct (gated dc k) eqn:Egk; cbn [andb] in Hall; auto.
      destruct (j <=? k) eqn:E1; auto. apply Nat.leb_le in E1.
      pose proof (nth_lt _ _ _ Hk). rewrite Hnone in Egk by lia. discriminate. }
    destruct R as [|l]; cbn [fst snd]; (split; [exact Hlen|]); cbn [d_pc d_mbs d_left].
    + split; [lia|]. split; [reflexivity|]. intros k c Hk. cbn [Nat.ltb Nat.leb]. apply (Hall' _ _ Hk).
    + split; [lia|]. intros k c Hk. cbn [Nat.ltb Nat.leb]. apply (Hall' _ _ Hk).
Qed.

Lemma ok_same ph R c c' :
  phase_of c' = phase_of c -> rem c' = rem c -> killed c' = killed c -> ok ph R c -> ok ph R c'.
Proof. unfold ok. intros -> -> ->. auto. Qed.

(* replacing component j by one with the same phase, rem, killed keeps dcons *)
Lemma dcons_same ds j c c' :
  dcons ds -> nth_error (d_mbs ds) j = Some c ->
  phase_of c' = phase_of c -> rem c' = rem c -> killed c' = killed c ->
  dcons (mkD (upd j c' (d_mbs ds)) (d_pc ds) (d_left ds)).
Proof.
  intros (Hlen & Hpc) Hj E1 E2 E3. split; [cbn [d_mbs]; rewrite upd_length; exact Hlen|].
  cbn [d_pc d_mbs d_left].
  assert (Hrep : forall (Q : nat -> state -> Prop),
            (forall k, Q k c -> Q k c') ->
            (forall k x, nth_error (d_mbs ds) k = Some x -> Q k x) ->
            forall k x, nth_error (upd j c' (d_mbs ds)) k = Some x -> Q k x).
  { intros Q HQ Hall k x Hk. apply nth_error_upd in Hk. destruct Hk as [(-> & -> & _)|(_ & Hk)]; auto. }
  destruct (d_pc ds) as [j0|j0|j0|].
  - destruct Hpc as (H1 & H2 & H3). split; [exact H1|]. split; [exact H2|].
    apply (Hrep (fun k x => ok (gate_expect j0 (d_left ds) k) (d_left ds) x)); auto.
    intros k. apply ok_same; auto.
  - destruct Hpc as (H1 & H3). split; [exact H1|].
    apply (Hrep (fun k x => if k <? j0 then ok (sent_expect (d_left ds) k) (d_left ds) x else ok PH (S (d_left ds)) x)); auto.
    intros k. destruct (k <? j0); apply ok_same; auto.
  - destruct Hpc as (H1 & H2 & H3). split; [exact H1|]. split; [exact H2|].
    apply (Hrep (fun k x => if k <? j0 then phase_of x = PD /\ killed x = false else ok PC 0 x)); auto.
    intros k. destruct (k <? j0); [rewrite E1, E3; auto|apply ok_same; auto].
  - apply (Hrep (fun k x => phase_of x = PD /\ killed x = false)); auto.
    intros k. rewrite E1, E3. auto.
Qed.

(* what is known about a reachable component *)
Lemma comp_facts ds j c :
  all_reach dc subs comps ds -> nth_error (d_mbs ds) j = Some c ->
  exists dr ms, nth_error subs j = Some dr /\ nth_error comps j = Some ms /\
    Inv ms 0 c /\ W (cfg_of dc j) c /\ map r_drive (rds c) = dr /\ k_pc c = None /\ killed c = false /\
    w_done c = [] /\ valid (cfg_of dc j) ms 0 dr.
Proof.
  intros HA Hj. destruct (HA _ _ Hj) as (dr & ms & sched & H1 & H2 & H3).
  destruct (comps_ok _ _ H2) as [Hlen Hplain].
  assert (Hns : forall m, In m ms -> is_stop m = false).
  { intros m Hm. destruct (Hplain _ Hm) as (v & ->). reflexivity. }
  pose proof (subs_ne _ _ H1) as Hne.
  destruct (not_killed_reachable (cfg_of dc j) ms 0 Hns dr sched c Hne H3) as (HI & Hk & Hkl).
  exists dr, ms. split; [exact H1|]. split; [exact H2|]. split; [exact HI|].
  split; [eapply mailbox_no_lost_wakeup_gen; eauto|].
  split; [eapply drives_reachable; eauto|].
  split; [exact Hk|]. split; [exact Hkl|].
  split; [destruct HI as (_ & _ & _ & Hw); destruct (w_done c); [auto|discriminate]|].
  split; [exact Hne|]. split; [intros cc Hc; apply cap_pos; exact Hc|].
  split; [intros Hl; apply (drivers _ _ H1); exact Hl|].
  intros k v Hin. destruct (Hplain _ Hin) as (v' & E). discriminate.
Qed.

Lemma dcons_step ds t ds' :
  all_reach dc subs comps ds -> dcons ds -> dstep dc ds t = Some ds' -> dcons ds'.
Proof.
  intros HA HC Hs. unfold dstep in Hs. destruct (denabled ds t) eqn:En; try discriminate.
  destruct t as [|j i].
  - (* the divider *)
    inversion Hs; subst ds'. clear Hs. cbn [denabled] in En. unfold div_enabled in En. unfold div_step.
    pose proof HC as (Hlen & Hpc).
    destruct (d_pc ds) as [j|j|j|] eqn:Epc; try discriminate;
      (destruct (nth_error (d_mbs ds) j) as [c|] eqn:Ej; [|discriminate]);
      destruct (comp_facts _ _ _ HA Ej) as (dr & ms & _ & _ & HI & _ & _ & _ & Hkl & _ & _);
      pose proof (comp_step (cfg_of dc j) ms c HI Hkl En) as (Hk' & Hstep);
      set (c' := sender_step (cfg_of dc j) c) in *.
    + (* at the gate of mailbox j *)
      destruct Hpc as (Hjn & Hgj & Hall).
      pose proof (Hall _ _ Ej) as (Hph & Hrm & _). unfold gate_expect in Hph. rewrite Hgj, Nat.leb_refl in Hph.
      cbn [andb] in Hph. rewrite Hph in Hstep.
      destruct Hstep as [(Hw & Hp' & Hr')|(Hw & Hr' & Hp')]; rewrite Hw.
      * rewrite <- Epc. apply (dcons_same ds j c c'); auto; try congruence.
      * destruct (after_gates dc (length (d_mbs ds)) (S j) (d_left ds)) as [pc' lft'] eqn:Eag.
        rewrite Hlen in Eag.
        replace pc' with (fst (after_gates dc n (S j) (d_left ds))) by (rewrite Eag; reflexivity).
        replace lft' with (snd (after_gates dc n (S j) (d_left ds))) by (rewrite Eag; reflexivity).
        apply after_gates_cons; [rewrite upd_length; exact Hlen|lia|].
        intros k x Hk. apply nth_error_upd in Hk. destruct Hk as [(-> & -> & _)|(Hne & Hk)].
        -- unfold gate_expect. rewrite Hgj. replace (S k <=? k) with false by (symmetry; apply Nat.leb_gt; lia).
           cbn [andb]. split; [rewrite Hp', Hrm; reflexivity|]. split; [congruence|exact Hk'].
        -- specialize (Hall _ _ Hk). unfold gate_expect in *.
           destruct (gated dc k); cbn [andb] in *; auto.
           destruct (j <=? k) eqn:E1; destruct (S j <=? k) eqn:E2; auto.
           ++ apply Nat.leb_le in E1. apply Nat.leb_gt in E2. lia.
           ++ apply Nat.leb_gt in E1. apply Nat.leb_le in E2. lia.
    + (* sending to mailbox j *)
      destruct Hpc as (Hjn & Hall).
      pose proof (Hall _ _ Ej) as Hcj. rewrite Nat.ltb_irrefl in Hcj. destruct Hcj as (Hph & Hrm & _).
      rewrite Hph in Hstep.
      destruct Hstep as [(Hw & Hp' & Hr')|(Hw & Hr' & Hp')]; rewrite Hw.
      * rewrite <- Epc. apply (dcons_same ds j c c'); auto; try congruence.
      * assert (Hc' : ok (sent_expect (d_left ds) j) (d_left ds) c').
        { unfold ok, sent_expect. assert (rem c' = d_left ds) by lia.
          split; [|split; auto]. rewrite Hp'. cbn [cfg_of c_lazy]. rewrite H. reflexivity. }
        rewrite Hlen. destruct (S j <? n) eqn:Esj.
        -- apply Nat.ltb_lt in Esj. split; [cbn [d_mbs]; rewrite upd_length; exact Hlen|].
           cbn [d_pc d_mbs d_left]. split; [exact Esj|].
           intros k x Hk. apply nth_error_upd in Hk. destruct Hk as [(-> & -> & _)|(Hne & Hk)].
           ++ replace (k <? S k) with true by (symmetry; apply Nat.ltb_lt; lia). exact Hc'.
           ++ specialize (Hall _ _ Hk). destruct (k <? j) eqn:E1; destruct (k <? S j) eqn:E2; auto.
              ** apply Nat.ltb_lt in E1. apply Nat.ltb_ge in E2. lia.
              ** apply Nat.ltb_ge in E1. apply Nat.ltb_lt in E2. lia.
        -- apply Nat.ltb_ge in Esj.
           destruct (after_gates dc n 0 (d_left ds)) as [pc' lft'] eqn:Eag.
           replace pc' with (fst (after_gates dc n 0 (d_left ds))) by (rewrite Eag; reflexivity).
           replace lft' with (snd (after_gates dc n 0 (d_left ds))) by (rewrite Eag; reflexivity).
           apply after_gates_cons; [rewrite upd_length; exact Hlen|lia|].
           intros k x Hk. unfold gate_expect. cbn [Nat.leb]. rewrite andb_true_r.
           apply nth_error_upd in Hk. destruct Hk as [(-> & -> & _)|(Hne & Hk)]; [exact Hc'|].
           specialize (Hall _ _ Hk). pose proof (nth_lt _ _ _ Hk).
           replace (k <? j) with true in Hall by (symmetry; apply Nat.ltb_lt; lia). exact Hall.
    + (* closing mailbox j *)
      destruct Hpc as (Hjn & Hl0 & Hall).
      pose proof (Hall _ _ Ej) as Hcj. rewrite Nat.ltb_irrefl in Hcj. destruct Hcj as (Hph & Hrm & _).
      rewrite Hph in Hstep.
      destruct Hstep as [(Hw & Hp' & Hr')|(Hw & Hp')]; rewrite Hw.
      * rewrite <- Epc. apply (dcons_same ds j c c'); auto; try congruence.
      * rewrite Hlen. destruct (S j <? n) eqn:Esj.
        -- apply Nat.ltb_lt in Esj. split; [cbn [d_mbs]; rewrite upd_length; exact Hlen|].
           cbn [d_pc d_mbs d_left]. split; [exact Esj|]. split; [exact Hl0|].
           intros k x Hk. apply nth_error_upd in Hk. destruct Hk as [(-> & -> & _)|(Hne & Hk)].
           ++ replace (k <? S k) with true by (symmetry; apply Nat.ltb_lt; lia). auto.
           ++ specialize (Hall _ _ Hk). destruct (k <? j) eqn:E1; destruct (k <? S j) eqn:E2; auto.
              ** apply Nat.ltb_lt in E1. apply Nat.ltb_ge in E2. lia.
              ** apply Nat.ltb_ge in E1. apply Nat.ltb_lt in E2. lia.
        -- apply Nat.ltb_ge in Esj. split; [cbn [d_mbs]; rewrite upd_length; exact Hlen|].
           cbn [d_pc d_mbs d_left].
           intros k x Hk. apply nth_error_upd in Hk. destruct Hk as [(-> & -> & _)|(Hne & Hk)]; [auto|].
           specialize (Hall _ _ Hk). pose proof (nth_lt _ _ _ Hk).
           replace (k <? j) with true in Hall by (symmetry; apply Nat.ltb_lt; lia). exact Hall.
  - (* a subscriber of mailbox j *)
    destruct (nth_error (d_mbs ds) j) as [c|] eqn:Ej; [|discriminate].
    destruct (step (cfg_of dc j) c (TR i)) as [c'|] eqn:Est; [|discriminate].
    inversion Hs; subst ds'. apply step_inv in Est. destruct Est as (r & Hr & _ & ->).
    destruct (reader_step_frame (cfg_of dc j) c i r Hr) as (E1 & E2 & E3).
    destruct (phase_rem_same _ _ E1 E2) as [E4 E5].
    apply (dcons_same ds j c); auto.
Qed.

(* ---------- the accounting invariant holds in every reachable state ---------- *)
Lemma init_comp_ok j dr ms :
  length ms = ndicts -> ok (sent_expect ndicts j) ndicts (init (cfg_of dc j) dr (source_of ms) None 0).
Proof.
  intros Hl. unfold init, sent_expect. cbn [cfg_of c_lazy].
  set (st0 := mkState [] 0 false false false (map init_reader dr) SGate false (source_of ms) None (repeat false 0)).
  assert (Hs : length (src st0) = ndicts) by (cbn [src st0]; unfold source_of; rewrite map_length; exact Hl).
  destruct (gated dc j).
  - unfold ok, phase_of, rem, phase_of. cbn [s_pc st0 killed]. rewrite Hs. repeat split; lia.
  - destruct (phase_produce st0) as (H1 & H2 & H3 & H4). unfold ok. rewrite H1, H2, H3, Hs. auto.
Qed.

Lemma init_mbs_length k sb cp : length cp = length sb -> length (init_mbs dc k sb cp) = length sb.
Proof.
  revert k cp; induction sb as [|dr sb IH]; intros k cp H; destruct cp as [|ms cp]; cbn in *; try lia.
  rewrite IH; auto.
Qed.

Lemma dcons_init : dcons (dinit dc subs comps ndicts).
Proof.
  unfold dinit.
  assert (Hlen : length (init_mbs dc 0 subs comps) = n) by (apply init_mbs_length; exact comps_len).
  rewrite Hlen.
  destruct (after_gates dc n 0 ndicts) as [pc lft] eqn:Eag.
  replace pc with (fst (after_gates dc n 0 ndicts)) by (rewrite Eag; reflexivity).
  replace lft with (snd (after_gates dc n 0 ndicts)) by (rewrite Eag; reflexivity).
  apply after_gates_cons; [exact Hlen|lia|].
  intros k c Hk. apply init_mbs_nth in Hk. destruct Hk as (dr & ms & H1 & H2 & ->).
  unfold gate_expect. cbn [Nat.leb]. rewrite andb_true_r. cbn [Nat.add].
  apply init_comp_ok. apply (comps_ok _ _ H2).
Qed.

Lemma reach_inv sched ds :
  drun dc (dinit dc subs comps ndicts) sched = Some ds -> all_reach dc subs comps ds /\ dcons ds.
Proof.
  assert (H : forall sc s s', all_reach dc subs comps s -> dcons s -> drun dc s sc = Some s' ->
                              all_reach dc subs comps s' /\ dcons s').
  { intros sc; induction sc as [|t sc IH]; intros s s' HA HC Hr; cbn [drun] in Hr.
    - inversion Hr; subst; auto.
    - destruct (dstep dc s t) eqn:E; [|discriminate]. eapply IH; [| |exact Hr].
      + eapply all_reach_step; eauto.
      + eapply dcons_step; eauto. }
  intros Hr. eapply H; [apply all_reach_init|apply dcons_init|exact Hr].
Qed.

(* ---------- progress ---------- *)
Lemma comp_no_enabled ds j c :
  nth_error (d_mbs ds) j = Some c -> k_pc c = None -> w_done c = [] ->
  sender_enabled c = false -> (forall i, denabled ds (DR j i) = false) ->
  forall t, enabled c t = false.
Proof.
  intros Hj Hk Hw Hs Hr t. destruct t as [|i| |k]; cbn [enabled].
  - exact Hs.
  - specialize (Hr i). cbn [denabled] in Hr. rewrite Hj in Hr. exact Hr.
  - rewrite Hk. reflexivity.
  - rewrite Hw. destruct k; reflexivity.
Qed.

Lemma terminal_phase c : all_terminal c = true -> phase_of c = PD \/ phase_of c = PX.
Proof.
  unfold all_terminal, phase_of. destruct (s_pc c); cbn; auto; try discriminate.
Qed.

Lemma no_denabled_terminal ds :
  all_reach dc subs comps ds -> dcons ds -> (forall t, denabled ds t = false) -> d_all_terminal ds = true.
Proof.
  intros HA (Hlen & Hpc) Hno.
  assert (Hcomp : forall j c, nth_error (d_mbs ds) j = Some c -> sender_enabled c = false ->
                              all_terminal c = true).
  { intros j c Hj Hs. destruct (comp_facts _ _ _ HA Hj) as (dr & ms & H1 & H2 & HI & HW & Hdr & Hk & Hkl & Hw & Hv).
    destruct (comps_ok _ _ H2) as [_ Hplain].
    assert (Hns : forall m, In m ms -> is_stop m = false).
    { intros m Hm. destruct (Hplain _ Hm) as (v & ->). reflexivity. }
    eapply (no_enabled_terminal (cfg_of dc j) ms 0 Hns dr c); eauto.
    eapply comp_no_enabled; eauto. }
  assert (Hstuck : forall j, (d_pc ds = DGate j \/ d_pc ds = DSend j \/ d_pc ds = DClose j) -> False).
  { intros j Hd.
    assert (Hjn : j < n).
    { destruct Hd as [E|[E|E]]; rewrite E in Hpc; tauto. }
    destruct (nth_error (d_mbs ds) j) as [c|] eqn:Ej; [|apply nth_error_None in Ej; lia].
    assert (Hs : sender_enabled c = false).
    { specialize (Hno DT). cbn [denabled] in Hno. unfold div_enabled in Hno.
      destruct Hd as [E|[E|E]]; rewrite E, Ej in Hno; exact Hno. }
    pose proof (terminal_phase _ (Hcomp _ _ Ej Hs)) as Hph.
    destruct Hd as [E|[E|E]]; rewrite E in Hpc.
    - destruct Hpc as (_ & Hg & Hall). destruct (Hall _ _ Ej) as (Hp & _).
      unfold gate_expect in Hp. rewrite Hg, Nat.leb_refl in Hp. cbn in Hp. destruct Hph; congruence.
    - destruct Hpc as (_ & Hall). specialize (Hall _ _ Ej). rewrite Nat.ltb_irrefl in Hall.
      destruct Hall as (Hp & _). destruct Hph; congruence.
    - destruct Hpc as (_ & _ & Hall). specialize (Hall _ _ Ej). rewrite Nat.ltb_irrefl in Hall.
      destruct Hall as (Hp & _). destruct Hph; congruence. }
  destruct (d_pc ds) as [j|j|j|] eqn:Epc; try (exfalso; apply (Hstuck j); auto; fail).
  unfold d_all_terminal. rewrite Epc. cbn [andb]. apply forallb_forall. intros c Hin.
  apply In_nth_error in Hin. destruct Hin as (j & Hj).
  destruct (Hpc _ _ Hj) as [Hp _].
  assert (Hs : sender_enabled c = false).
  { unfold sender_enabled. unfold phase_of in Hp. destruct (s_pc c); try discriminate; auto.
    - destruct closing; discriminate.
    - destruct closing; discriminate. }
  pose proof (Hcomp _ _ Hj Hs) as Ht. unfold all_terminal in Ht.
  apply andb_true_iff in Ht. destruct Ht as [Ht _]. apply andb_true_iff in Ht. destruct Ht as [Ht _].
  apply andb_true_iff in Ht. destruct Ht as [_ Ht]. exact Ht.
Qed.

Fixpoint comp_tids (j : nat) (mbs : list state) : list dtid :=
  match mbs with
  | [] => []
  | c :: t => map (DR j) (seq 0 (length (rds c))) ++ comp_tids (S j) t
  end.

Lemma in_comp_tids k mbs j c i :
  nth_error mbs j = Some c -> i < length (rds c) -> In (DR (k + j) i) (comp_tids k mbs).
Proof.
  revert k j; induction mbs as [|h t IH]; intros k j Hj Hi; [destruct j; discriminate|].
  cbn [comp_tids]. apply in_or_app. destruct j as [|j]; cbn [nth_error] in Hj.
  - inversion Hj; subst. left. rewrite Nat.add_0_r. apply in_map. apply in_seq. lia.
  - right. replace (k + S j) with (S k + j) by lia. apply IH; auto.
Qed.

Theorem divider_deadlock_free sched ds :
  drun dc (dinit dc subs comps ndicts) sched = Some ds ->
  (exists t, denabled ds t = true) \/ d_all_terminal ds = true.
Proof.
  intros Hr. destruct (reach_inv _ _ Hr) as [HA HC].
  destruct (existsb (denabled ds) (DT :: comp_tids 0 (d_mbs ds))) eqn:E.
  - left. apply existsb_exists in E. destruct E as (t & _ & Ht). eauto.
  - right. apply no_denabled_terminal; auto.
    intros t. destruct (denabled ds t) eqn:Et; auto. exfalso.
    assert (Hin : In t (DT :: comp_tids 0 (d_mbs ds))).
    { destruct t as [|j i]; [left; auto|right]. cbn [denabled] in Et.
      destruct (nth_error (d_mbs ds) j) as [c|] eqn:Ej; [|discriminate].
      cbn [enabled] in Et. destruct (nth_error (rds c) i) eqn:Ei; [|discriminate].
      apply (in_comp_tids 0 _ j c i Ej). apply nth_error_Some. congruence. }
    assert (existsb (denabled ds) (DT :: comp_tids 0 (d_mbs ds)) = true).
    { apply existsb_exists. eauto. }
    congruence.
Qed.
End Live.
