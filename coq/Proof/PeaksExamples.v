(* find_peaks: non-vacuity examples and the T3 refutation witness. *)
From SV Require Import Model.Peaks Spec.PeaksSpec Proof.PeaksProof Proof.PeaksTheorems.

Definition ex_P := mkfp 10 2 3 0 1 1000.
Definition ex_hits := [mkhit 100 4 1 0 1; mkhit 106 2 1 1 2; mkhit 130 3 1 0 1].
Definition ex_groups := [[mkhit 100 4 1 0 1; mkhit 106 2 1 1 2]; [mkhit 130 3 1 0 1]].
Example ex_find_peaks : find_peaks ex_P [1; 1] 2 ex_hits =
  Ok [mkpeak 98 13 1 2 3 [1; 2] 2; mkpeak 128 8 1 1 1 [1; 0] 0].
Proof. vm_compute. reflexivity. Qed.
Example ex_clustering :
  Clustering ex_P ex_hits ex_groups /\ AllFar ex_P ex_groups /\ fp_asserts ex_P [1; 1] ex_hits = true
  /\ uniform 1 ex_hits /\ hits_sorted ex_hits.
Proof.
  split; [|split; [|split; [reflexivity|split]]].
  - apply (cl_cons ex_P [mkhit 100 4 1 0 1; mkhit 106 2 1 1 2] (mkhit 130 3 1 0 1) []).
    + cbn. split; [reflexivity|exact I].
    + reflexivity.
    + apply cl_last. exact I.
  - constructor; [reflexivity|constructor].
  - intros h [<-|[<-|[<-|[]]]]; cbn; lia.
  - repeat constructor; cbn; lia.
Qed.

(* T3: with the duration cut deciding a boundary the two peaks overlap *)
Definition t3_P := mkfp 10 0 0 0 1 21.
Definition t3_hits := [mkhit 0 20 1 0 1; mkhit 2 20 1 0 1].
Theorem find_peaks_overlap_witness :
  exists P gains nch hs ps,
    fp_asserts P gains hs = true /\ hits_sorted hs /\ uniform 1 hs /\
    Forall (fun x => 0 <= hch x) hs /\ 0 <= fp_lext P /\ 0 <= fp_rext P /\
    find_peaks P gains nch hs = Ok ps /\ ~ peaks_disjoint_ordered ps.
Proof.
  exists t3_P, [1; 1], 2%nat, t3_hits, [mkpeak 0 20 1 1 1 [1; 0] 0; mkpeak 2 20 1 1 1 [1; 0] 0].
  split; [reflexivity|]. split; [repeat constructor; cbn; lia|]. split.
  { intros h [<-|[<-|[]]]; cbn; lia. }
  split; [repeat constructor; cbn; lia|]. split; [cbn; lia|]. split; [cbn; lia|].
  split; [vm_compute; reflexivity|].
  intros H. inversion H as [|? ? Hfa _]; subst. inversion Hfa as [|? ? [Hov _] _]; subst.
  vm_compute in Hov. apply Hov. reflexivity.
Qed.
