(* Property C08: two plausible strengthenings of the totality theorem that the faithful model refutes
   (both are loud failures of Plugin.iter on law-abiding input, replayed on the real code by the
   harness: design_notes/C08.md). *)
From SV Require Import Model.Rows Model.SplitArray Model.Chunk Model.PluginIter
     Proof.RowsFacts Proof.SplitArrayProof Proof.ChunkProof Proof.PluginIterProof Proof.PluginIterRound
     Proof.PluginIterLoop Proof.PluginIterSafety Proof.PluginIterStair Proof.PluginIterTotal
     Proof.PluginIterTotal2 Proof.PluginIterTotal3 Proof.PluginIterExamples.

(* totality WITHOUT the hypothesis that no dependency keeps zero-duration chunks back at the end *)
Definition total_without_trailing_hyp : Prop :=
  forall run sw a b deps specs,
    deps <> [] -> Forall2 (dep_ok run a) deps specs -> Forall (fun sp => db sp = b) specs ->
    NoDup (map fst deps) ->
    (forall c, In c (pacemaker_chunks deps) ->
               exists y', stair_ok (map (fun d => srows (snd d)) deps) max_passes (cend c) y') ->
    snd (plugin_iter sw deps) = None.

(* witness: B = [0,5) [5,5): the trailing zero-duration chunk is never fetched *)
Definition w1_deps : list (Z * list chunk) :=
  [(0, [mkchunk 0 5 [] 0 0 (Some 7) 4]);
   (1, [mkchunk 0 5 [] 1 1 (Some 7) 4; mkchunk 5 5 [] 1 1 (Some 7) 4])].
Definition w1_specs : list dspec := [mkdspec [] 5 0 0; mkdspec [] 5 1 1].

Lemma w1_run : plugin_iter 3 w1_deps = ([mkcall 0 5 [mkchunk 0 5 [] 0 0 (Some 7) 4; mkchunk 0 5 [] 1 1 (Some 7) 4]],
                                        Some E_NOT_EXHAUSTED).
Proof. vm_compute. reflexivity. Qed.

Theorem total_without_trailing_hyp_refuted : ~ total_without_trailing_hyp.
Proof.
  intros H. specialize (H (Some 7) 3 0 5 w1_deps w1_specs).
  rewrite w1_run in H. cbn [snd] in H. assert (Hf : Some E_NOT_EXHAUSTED = @None Z); [|discriminate].
  apply H.
  - discriminate.
  - repeat constructor; cbn; try discriminate; try apply wfb_wf; reflexivity.
  - repeat constructor.
  - repeat constructor; cbn; intuition discriminate.
  - assert (Hp : pacemaker_chunks w1_deps = [mkchunk 0 5 [] 0 0 (Some 7) 4]) by (vm_compute; reflexivity).
    rewrite Hp. intros c [<-|[]]. cbn [cend]. exists 5.
    apply (stair_ok_mono _ 1); [|vm_compute; repeat constructor].
    apply stair_ok_unstraddled. intros R [<-|[<-|[]]] [q [[] _]].
Qed.

(* totality for two dependencies of ONE kind carrying the same rows (independent chunkings) *)
Definition total_same_kind : Prop :=
  forall run sw a b dA dB specs,
    Forall2 (dep_ok run a) [dA; dB] specs -> Forall (fun sp => db sp = b) specs ->
    fst dA = fst dB -> map te (srows (snd dA)) = map te (srows (snd dB)) ->
    Forall (fun d => Forall (fun c => cend c < b) (removelast (snd d))) [dA; dB] ->
    (forall c, In c (pacemaker_chunks [dA; dB]) ->
               exists y', stair_ok (map (fun d => srows (snd d)) [dA; dB]) max_passes (cend c) y') ->
    snd (plugin_iter sw [dA; dB]) = None.

(* witness: a zero-length row sitting exactly on a chunk boundary, stored on different sides *)
Definition w2_A : Z * list chunk :=
  (0, [mkchunk 0 5 [mkrow 1 2 0 0; mkrow 5 5 1 0] 0 0 (Some 7) 4; mkchunk 5 9 [] 0 0 (Some 7) 4]).
Definition w2_B : Z * list chunk :=
  (0, [mkchunk 0 5 [mkrow 1 2 100 0] 1 0 (Some 7) 4; mkchunk 5 9 [mkrow 5 5 101 0] 1 0 (Some 7) 4]).
Definition w2_specs : list dspec := [mkdspec (srows (snd w2_A)) 9 0 0; mkdspec (srows (snd w2_B)) 9 1 0].

Lemma w2_run : plugin_iter 3 [w2_A; w2_B] = ([], Some E_MERGE_LEN).
Proof. vm_compute. reflexivity. Qed.

Theorem total_same_kind_refuted : ~ total_same_kind.
Proof.
  intros H. specialize (H (Some 7) 3 0 9 w2_A w2_B w2_specs).
  rewrite w2_run in H. cbn [snd] in H. assert (Hf : Some E_MERGE_LEN = @None Z); [|discriminate].
  apply H.
  - repeat constructor; cbn; try discriminate; try apply wfb_wf; reflexivity.
  - repeat constructor.
  - reflexivity.
  - reflexivity.
  - repeat constructor; cbn; lia.
  - assert (Hp : pacemaker_chunks [w2_A; w2_B] = snd w2_A) by (vm_compute; reflexivity).
    rewrite Hp. intros c [<-|[<-|[]]]; cbn [cend].
    + exists 5. apply (stair_ok_mono _ 1); [|vm_compute; repeat constructor].
      apply stair_ok_unstraddled. intros R [<-|[<-|[]]] [q [Hq [H1 H2]]]; cbn in Hq.
      * destruct Hq as [<-|[<-|[]]]; cbn in *; lia.
      * destruct Hq as [<-|[<-|[]]]; cbn in *; lia.
    + exists 9. apply (stair_ok_mono _ 1); [|vm_compute; repeat constructor].
      apply stair_ok_unstraddled. intros R [<-|[<-|[]]] [q [Hq [H1 H2]]]; cbn in Hq.
      * destruct Hq as [<-|[<-|[]]]; cbn in *; lia.
      * destruct Hq as [<-|[<-|[]]]; cbn in *; lia.
Qed.
