(* Chains of arbitrary length without savers: source s0 -> s1 -> ... -> s(L-1) -> the caller; N chunks, any
   capacities >= 1, lazy or eager, one injected failure at stage ft, position fp <= N.

   The inductive invariant Inv (until the caller notices the failure) ties every mailbox j to its sender (thread j)
   and its reader (thread j+1): the box is the segment [nread, nsent) of the message stream MS N = chunk 0 .. chunk
   N-1, Stop; the reader's position, wait entry and buffer; the sender's counter; nothing at or after the failing stage
   ever sends Stop; every exception code is the injected one. *)
From SV Require Import Base.Prelude Model.Mailbox Proof.MailboxFacts Model.MailboxFail Model.C06Run Model.C06Nets
  Spec.MailboxFailSpec Proof.MailboxFailFacts Proof.MailboxFailWake Proof.MailboxFailStruct Proof.MailboxFailShutdown
  Proof.MailboxFailInv Proof.MailboxFailFrame.
Local Open Scope nat_scope.

Lemma MS_stop_inv N k : nth_error (MS N) k = Some Stop -> k = N.
Proof.
  intros H. destruct (Nat.lt_trichotomy k N) as [Hlt|[->|Hgt]]; auto.
  - rewrite MS_data in H by auto. discriminate.
  - assert (k < length (MS N)) by (apply nth_error_Some; congruence). rewrite MS_length in *. lia.
Qed.
Lemma MS_some_le N k m : nth_error (MS N) k = Some m -> k <= N.
Proof. intros H. assert (k < length (MS N)) by (apply nth_error_Some; congruence). rewrite MS_length in *. lia. Qed.
Lemma MS_nonstop_lt N k m : nth_error (MS N) k = Some m -> is_stop m = false -> k < N.
Proof.
  intros H Hs. pose proof (MS_some_le _ _ _ H). destruct (Nat.eq_dec k N) as [->|]; [|lia].
  rewrite MS_stop in H. inversion H; subst. discriminate.
Qed.

Section Chain.
Variables L N : nat.
Variables lz relay : bool.
Variables ft fp c : nat.
(* cmode = true: no stage fails (ft = L); the consumer raises cx / closes the iterator (ccl) while handling chunk ck *)
Variable cmode : bool.
Variables (ck : nat) (ccl : bool) (cx : nat).
Variable nt : net.
Hypothesis HL : 1 <= L.
Hypothesis Hft : ft <= L.
Hypothesis Hfp : fp <= N.
Hypothesis Hfault : forall i k, i < L -> fault_at nt i k = if (ft =? i) && (fp =? k) then Some c else None.
Hypothesis Hcf : n_cfault nt = if cmode then Some (ck, ccl, cx) else None.
Hypothesis Hmode :
  if cmode then ft = L /\ ck < N /\ c = (if ccl then (if relay then C_OUTSIDE else C_GENEXIT) else cx) /\ n_f1 nt = true
  else True.
Hypothesis Hkill : n_kill nt <> [].
Hypothesis Hjoin : forall x, In x (n_join nt) -> x <> L.
Hypothesis Hsav : n_savers nt = [].

Lemma fault_at_spec i k : i < L -> fault_at nt i k = if (ft =? i) && (fp =? k) then Some c else None.
Proof. apply Hfault. Qed.

(* ---------- the static shape ---------- *)
Definition stage_sig (i : nat) : tkind * list (nat * nat) :=
  (KStage N i, match i with O => [] | S p => [(p, 0)] end).

Record shape (st : nstate) : Prop := {
  sh_nm : length (mbs st) = L;
  sh_nt : length (ths st) = S L;
  sh_st : forall i, i < L -> tsig (get_th st i) = stage_sig i;
  sh_main : tsig (get_th st L) = (KMain relay, [(L - 1, 0)]);
  sh_mb : forall j, j < L -> exists cap, msig (get_mb st j) = (cap, lz, [true]) /\ 1 <= cap;
}.

Lemma tsig_get_th st st' i : sig st' = sig st -> tsig (get_th st' i) = tsig (get_th st i).
Proof.
  intros Hs. destruct (sig_lengths _ _ Hs) as [_ Hl].
  destruct (nth_error (ths st') i) as [t'|] eqn:E.
  - destruct (sig_thread _ _ _ _ Hs E) as [t [Et Es]]. rewrite (get_th_nth _ _ _ E), (get_th_nth _ _ _ Et). exact Es.
  - apply nth_error_None in E. unfold get_th. rewrite !nth_overflow by lia. reflexivity.
Qed.

Lemma shape_sig st st' : sig st' = sig st -> shape st -> shape st'.
Proof.
  intros Hs [H1 H2 H3 H4 H5]. destruct (sig_lengths _ _ Hs) as [Hlm Hlt].
  split; try congruence.
  - intros i Hi. rewrite (tsig_get_th _ _ _ Hs). auto.
  - rewrite (tsig_get_th _ _ _ Hs). auto.
  - intros j Hj. rewrite (sig_mbox _ _ _ Hs). auto.
Qed.

(* ---------- the dynamic invariant ---------- *)
Definition sub0 (m : mbox) : sub := get_sub m 0.

Record Mok (j : nat) (m : mbox) : Prop := {
  mo_subs : mb_subs m = [sub0 m];
  mo_box : mb_box m = seg (MS N) (sb_nread (sub0 m)) (mb_nsent m - sb_nread (sub0 m));
  mo_le : sb_nread (sub0 m) <= mb_nsent m;
  mo_bound : mb_nsent m <= S N;
  mo_closed : mb_closed m = (mb_nsent m =? S N);
  mo_ft : ft <= j -> mb_nsent m <= N;
  mo_fk : mb_fkilled m = mb_killed m;
  mo_reason : mb_killed m = true -> mb_reason m = c;
}.

Definition Sok (m : mbox) (s : thread) : Prop :=
  (mb_closed m = true -> t_pc s = PDone) /\
  (mb_killed m = false ->
   match t_pc s with
   | PGate _ | PGateWait _ | PRead | PReadWait => mb_nsent m = t_cnt s
   | PSend _ mg cl | PSendWait _ mg cl =>
       nth_error (MS N) (mb_nsent m) = Some mg /\ cl = is_stop mg /\
       t_cnt s = (if cl then mb_nsent m else S (mb_nsent m))
   | PKillOut _ _ => True
   | PDone => mb_closed m = true
   | _ => False
   end).

Definition rcore (m : mbox) (t : thread) : Prop :=
  r_next (cur_r t) = sb_nread (sub0 m) /\
  r_buf (cur_r t) = msgs N (r_next (cur_r t) - length (r_buf (cur_r t))) (length (r_buf (cur_r t))) /\
  length (r_buf (cur_r t)) <= r_next (cur_r t) /\
  r_last (cur_r t) = (r_next (cur_r t) =? S N) /\
  r_next (cur_r t) <= S N.

Definition Rok (m : mbox) (r : thread) : Prop :=
  rcore m r /\
  sb_wait (sub0 m) = match t_pc r with PReadWait => Some (r_next (cur_r r)) | _ => None end /\
  match t_pc r with PRead | PReadWait => r_buf (cur_r r) = [] /\ r_next (cur_r r) <= N | _ => True end.

Definition closing_pc (p : pc) : bool :=
  match p with PSend _ _ true | PSendWait _ _ true => true | _ => false end.

Definition head_no (t : thread) : nat := r_next (cur_r t) - length (r_buf (cur_r t)).

Definition Tok (i : nat) (t : thread) : Prop :=
  t_fi t = 0 /\ t_nstop t = 0 /\
  (i = L -> (t_pc t = PRead \/ t_pc t = PReadWait) /\ t_cnt t = r_next (cur_r t) /\ (cmode = true -> t_cnt t <= ck) /\
           t_rows t = zs (t_cnt t)) /\
  (i < L ->
     match t_pc t with
     | PGate _ | PGateWait _ | PSend _ _ _ | PSendWait _ _ _ | PDone | PDead _ => True
     | PRead | PReadWait => 1 <= i
     | PKillOut _ e => exn_code e = c
     | _ => False
     end /\
     (ft <= i -> closing_pc (t_pc t) = false) /\
     (i = ft -> t_cnt t <= fp) /\
     (1 <= i -> match t_pc t with
                | PGate _ | PGateWait _ | PRead | PReadWait | PSend _ _ false | PSendWait _ _ false =>
                    t_cnt t = head_no t /\ head_no t <= N
                | PSend _ _ true | PSendWait _ _ true => r_next (cur_r t) = S N
                | _ => True
                end)).

Definition Inv (st : nstate) : Prop :=
  shape st /\
  (forall j, j < L -> Mok j (get_mb st j) /\ Sok (get_mb st j) (get_th st j) /\ Rok (get_mb st j) (get_th st (S j))) /\
  (forall i, i <= L -> Tok i (get_th st i)) /\
  (forall j, S j < L -> mb_closed (get_mb st (S j)) = true -> mb_closed (get_mb st j) = true).

(* none of these looks at the woken flag *)
Lemma Sok_weq m s s' : weq s s' -> Sok m s -> Sok m s'.
Proof. intros [->| ->]; auto. Qed.
Lemma Rok_weq m s s' : weq s s' -> Rok m s -> Rok m s'.
Proof. intros [->| ->]; auto. Qed.
Lemma Tok_weq i s s' : weq s s' -> Tok i s -> Tok i s'.
Proof. intros [->| ->]; auto. Qed.

(* ---------- thread-local code of a plugin stage ---------- *)
Local Opaque msgs MS.

Lemma stage_rd i t : tsig t = stage_sig (S i) ->
  t_kind t = KStage N (S i) /\ exists rr, t_rd t = [rr] /\ r_mb rr = i /\ r_sub rr = 0.
Proof.
  unfold tsig, stage_sig. intros H. injection H as Hk Hr. split; auto.
  destruct (t_rd t) as [|rr [|]]; cbn in Hr; try discriminate.
  exists rr. split; auto. unfold rsig in Hr. injection Hr as H1 H2. auto.
Qed.

(* what `consume` does for stage i >= 1 standing at the top of its loop *)
Lemma consume_mid i t :
  S i < L -> tsig t = stage_sig (S i) -> t_fi t = 0 -> t_nstop t = 0 ->
  r_buf (cur_r t) = msgs N (head_no t) (length (r_buf (cur_r t))) ->
  length (r_buf (cur_r t)) <= r_next (cur_r t) ->
  r_last (cur_r t) = (r_next (cur_r t) =? S N) -> r_next (cur_r t) <= S N ->
  t_cnt t = head_no t -> head_no t <= N -> (S i = ft -> t_cnt t <= fp) -> (ft < S i -> r_next (cur_r t) <= N) ->
  let t' := consume nt (S i) t in
  Tok (S i) t' /\
  (r_next (cur_r t') = r_next (cur_r t) /\ r_last (cur_r t') = r_last (cur_r t) /\
   r_buf (cur_r t') = msgs N (head_no t') (length (r_buf (cur_r t'))) /\
   length (r_buf (cur_r t')) <= r_next (cur_r t')) /\
  (t_pc t' <> PReadWait /\ (t_pc t' = PRead -> r_buf (cur_r t') = [] /\ r_next (cur_r t') <= N)) /\
  (forall m, mb_closed m = false -> (mb_killed m = false -> mb_nsent m = t_cnt t) -> Sok m t').
Proof.
  intros Hi Hsig Hfi Hns Hbuf Hlen Hlast Hnb Hcnt Hk Hftc Hgt.
  destruct (stage_rd _ _ Hsig) as [Hkind [rr [Hrd [Hmb Hsub]]]].
  unfold head_no in *.
  destruct t as [kind pc0 wk rd fi nstop val cnt rows cl ex got]. cbn in *. subst kind rd fi nstop.
  destruct rr as [rmb rsub rnext rlast rbuf]. cbn in *. subst rmb rsub rlast.
  unfold consume. cbn. unfold cur_r. cbn.
  destruct rbuf as [|m rest]; cbn in *.
  - (* the buffer is empty: go and read *)
    rewrite Nat.sub_0_r in *.
    replace (rnext =? S N) with false by (symmetry; apply Nat.eqb_neq; lia).
    cbn. unfold Tok, Sok, head_no, cur_r; cbn. rewrite Nat.sub_0_r.
    repeat split; intros; auto; try lia; try discriminate; try congruence.
  - set (k := rnext - S (length rest)) in *.
    destruct (Nat.eq_dec k N) as [EkN | EkN].
    + (* the end marker *)
      rewrite EkN in Hbuf. rewrite msgs_S_stop in Hbuf. injection Hbuf as -> ->. cbn in *.
      unfold stage_end. cbn. rewrite fault_at_spec by lia.
      destruct ((ft =? S i) && (fp =? cnt)) eqn:Ef; cbn.
      * unfold Tok, Sok, head_no, cur_r; cbn.
        repeat split; intros; auto; try lia; try discriminate; try congruence.
      * apply andb_false_iff in Ef.
        assert (Hup : S i < ft).
        { destruct (Nat.lt_trichotomy ft (S i)) as [Hlt | [He | Hg]]; auto.
          - specialize (Hgt Hlt). lia.
          - specialize (Hftc (eq_sym He)). destruct Ef as [Ef | Ef]; apply Nat.eqb_neq in Ef; lia. }
        unfold Tok, Sok, head_no, cur_r; cbn.
        repeat split; intros; auto; try lia; try discriminate; try congruence.
        all: try (rewrite H0 by auto; rewrite Hcnt, EkN; apply MS_stop).
    + (* a data chunk *)
      assert (Hlt : k < N) by lia.
      rewrite (msgs_S_data N k (length rest) Hlt) in Hbuf. injection Hbuf as -> Hrest. cbn.
      unfold stage_compute. cbn. rewrite fault_at_spec by lia.
      destruct ((ft =? S i) && (fp =? cnt)) eqn:Ef; cbn.
      * unfold Tok, Sok, head_no, cur_r; cbn.
        repeat split; intros; auto; try lia; try discriminate; try congruence.
        all: try (replace (rnext - length rest) with (S k) by lia; auto).
      * apply andb_false_iff in Ef.
        unfold Tok, Sok, head_no, cur_r; cbn.
        repeat split; intros; auto; try lia; try discriminate; try congruence.
        all: try (replace (rnext - length rest) with (S k) by lia; auto).
        all: try (destruct Ef as [Ef | Ef]; apply Nat.eqb_neq in Ef; lia).
        all: try (rewrite H0 by auto; rewrite Hcnt; apply MS_data; auto).
Qed.

(* the source *)
Lemma stage0_rd t : tsig t = stage_sig 0 -> t_kind t = KStage N 0 /\ t_rd t = [].
Proof.
  unfold tsig, stage_sig. intros H. injection H as Hk Hr. split; auto.
  destruct (t_rd t); cbn in Hr; [auto | discriminate].
Qed.

Lemma consume_src t :
  tsig t = stage_sig 0 -> t_fi t = 0 -> t_nstop t = 0 -> (0 = ft -> t_cnt t <= fp) ->
  let t' := consume nt 0 t in
  Tok 0 t' /\ t_pc t' <> PReadWait /\ t_pc t' <> PRead /\
  (forall m, mb_closed m = false -> (mb_killed m = false -> mb_nsent m = t_cnt t /\ mb_nsent m <= N) -> Sok m t').
Proof.
  intros Hsig Hfi Hns Hftc. destruct (stage0_rd _ Hsig) as [Hkind Hrd].
  destruct t as [kind pc0 wk rd fi nstop val cnt rows cl ex got]. cbn in *. subst kind rd fi nstop.
  unfold consume. cbn [t_kind t_rd]. unfold source_produce. cbn [t_cnt].
  destruct (cnt <? N) eqn:Ec.
  - apply Nat.ltb_lt in Ec. unfold stage_compute. cbn. rewrite fault_at_spec by lia.
    destruct ((ft =? 0) && (fp =? cnt)) eqn:Ef; cbn.
    + unfold Tok, Sok; cbn. repeat split; intros; auto; try lia; try discriminate; try congruence.
    + apply andb_false_iff in Ef. unfold Tok, Sok; cbn.
      repeat split; intros; auto; try lia; try discriminate; try congruence.
      all: try (destruct Ef as [Ef | Ef]; apply Nat.eqb_neq in Ef; lia).
      all: try (destruct (H0 H1) as [E1 E2]; rewrite E1; try apply MS_data; auto).
  - apply Nat.ltb_ge in Ec. unfold stage_end. cbn. rewrite fault_at_spec by lia.
    destruct ((ft =? 0) && (fp =? cnt)) eqn:Ef; cbn.
    + unfold Tok, Sok; cbn. repeat split; intros; auto; try lia; try discriminate; try congruence.
    + apply andb_false_iff in Ef.
      assert (Hup : 0 < ft).
      { destruct ft as [|f]; [|lia]. specialize (Hftc eq_refl). destruct Ef as [Ef | Ef]; apply Nat.eqb_neq in Ef; lia. }
      unfold Tok, Sok; cbn. repeat split; intros; auto; try lia; try discriminate; try congruence.
      all: try (destruct (H0 H1) as [E1 E2]; rewrite E1; try (replace cnt with N by lia; apply MS_stop); auto).
Qed.

(* the caller taking data chunks numbered a .. a+len-1: it takes them all, or the consumer's failure fires *)
Lemma cmode_cases : {cmode = true} + {cmode = false}.
Proof. destruct cmode; auto. Qed.

Lemma main_loop len : forall a t,
  t_kind t = KMain relay -> t_fi t < length (t_rd t) -> t_cnt t = a -> t_rows t = zs a -> a + len <= S N -> a <= N ->
  (cmode = false -> ft < L -> a + len <= N) -> (cmode = true -> a <= ck) ->
  let t' := sink_loop nt L t (msgs N a len) in
  (t_pc t' = PRead /\ t_cnt t' = a + len /\ (cmode = true -> a + len <= ck) /\
   t_fi t' = t_fi t /\ t_nstop t' = t_nstop t /\ cur_r t' = r_set_buf (cur_r t) [] /\ t_rows t' = zs (a + len) /\
   a + len <= N) \/
  (exists e, t_pc t' = PKillIn e /\ exn_code e = c /\ is_mk e = false) \/
  t_pc t' = PKillAll 0 c \/
  (cmode = false /\ ft = L /\ t_pc t' = PJoin 0 None /\ t_rows t' = zs N /\ a + len = S N).
Proof.
  induction len as [|l IH]; intros a t Hk Hfi Hc Hrw Hb HaN0 Hn Hm.
  - rewrite msgs_0. cbn [sink_loop]. left. cbn. rewrite Nat.add_0_r. repeat split; auto; try lia.
    all: try (intros E; specialize (Hm E); lia).
    unfold cur_r, set_cur_r. cbn. apply nth_upd_eq. auto.
  - pose proof Hcf as Hcf'. pose proof Hmode as Hmode'.
    destruct (Nat.eq_dec a N) as [EaN | EaN].
    { (* the end marker: the consumer has everything *)
      rewrite EaN in *. rewrite msgs_S_stop. cbn [sink_loop]. right. right. right.
      assert (Ecm : cmode = false).
      { destruct cmode_cases as [E|E]; auto. rewrite E in Hmode'. specialize (Hm E). lia. }
      assert (EfL : ft = L).
      { destruct (Nat.eq_dec ft L); auto. assert (ft < L) by lia. specialize (Hn Ecm H). lia. }
      split; auto. split; auto. unfold sink_stop. cbn [t_kind set_cur_r set_rd]. rewrite Hk. cbn. split; auto. split; auto. lia. }
    assert (HaN : a < N) by lia.
    rewrite msgs_S_data by lia. cbn [sink_loop].
    set (tb := set_cur_r t (r_set_buf (cur_r t) (msgs N (S a) l))).
    assert (Hcur : cur_r tb = r_set_buf (cur_r t) (msgs N (S a) l)).
    { unfold tb, cur_r, set_cur_r. cbn. apply nth_upd_eq. auto. }
    assert (Hgo : sink_data nt L tb (Z.of_nat a) = (add_row tb (Z.of_nat a), true) ->
                  let t' := (let '(t', go) := sink_data nt L tb (Z.of_nat a) in if go then sink_loop nt L t' (msgs N (S a) l) else t') in
                  (cmode = true -> S a <= ck) ->
                  (t_pc t' = PRead /\ t_cnt t' = a + S l /\ (cmode = true -> a + S l <= ck) /\
                   t_fi t' = t_fi t /\ t_nstop t' = t_nstop t /\ cur_r t' = r_set_buf (cur_r t) [] /\ t_rows t' = zs (a + S l) /\
                   a + S l <= N) \/
                  (exists e, t_pc t' = PKillIn e /\ exn_code e = c /\ is_mk e = false) \/
                  t_pc t' = PKillAll 0 c \/
                  (cmode = false /\ ft = L /\ t_pc t' = PJoin 0 None /\ t_rows t' = zs N /\ a + S l = S N)).
    { intros Hsd. rewrite Hsd. cbv zeta. intros Hm'.
      assert (A1 : t_kind (add_row tb (Z.of_nat a)) = KMain relay) by exact Hk.
      assert (A2 : t_fi (add_row tb (Z.of_nat a)) < length (t_rd (add_row tb (Z.of_nat a)))).
      { cbn. rewrite upd_length. auto. }
      assert (A3 : t_cnt (add_row tb (Z.of_nat a)) = S a) by (cbn; rewrite Hc; reflexivity).
      assert (A3' : t_rows (add_row tb (Z.of_nat a)) = zs (S a)).
      { change (t_rows (add_row tb (Z.of_nat a))) with (t_rows t ++ [Z.of_nat a]). rewrite Hrw. symmetry. apply zs_S. }
      assert (A4 : S a + l <= S N) by lia.
      assert (A5 : cmode = false -> ft < L -> S a + l <= N) by (intros E E'; specialize (Hn E E'); lia).
      assert (A4' : S a <= N) by lia.
      destruct (IH (S a) (add_row tb (Z.of_nat a)) A1 A2 A3 A3' A4 A4' A5 Hm')
        as [(H1 & H2 & H3 & H4 & H5 & H6 & H7 & H8) | [H | [H | (G1 & G2 & G3 & G4 & G5)]]].
      - left. rewrite H1, H2, H4, H5, H6, H7.
        change (cur_r (add_row tb (Z.of_nat a))) with (cur_r tb). rewrite Hcur.
        split; [reflexivity|]. split; [lia|]. split; [intros E; specialize (H3 E); lia|].
        split; [reflexivity|]. split; [reflexivity|]. split; [reflexivity|]. split; [f_equal; lia | lia].
      - right. left. exact H.
      - right. right. left. exact H.
      - right. right. right. repeat split; auto. lia. }
    assert (Hsd0 : sink_data nt L tb (Z.of_nat a) =
                   match cfault_at nt a with
                   | Some (true, _) =>
                       if relay then (set_pc tb (PKillIn (EOrig C_OUTSIDE)), false)
                       else if n_f1 nt then (set_pc tb (enter_killall nt C_GENEXIT), false)
                       else (set_pc tb (PFin (OErr (EOrig C_TYPEERR))), false)
                   | Some (false, x) => (set_pc tb (PKillIn (EOrig x)), false)
                   | None => (add_row tb (Z.of_nat a), true)
                   end).
    { unfold sink_data. replace (t_kind tb) with (KMain relay) by (symmetry; exact Hk).
      replace (t_cnt tb) with a by (symmetry; exact Hc). reflexivity. }
    unfold cfault_at in Hsd0. rewrite Hcf' in Hsd0.
    destruct cmode_cases as [E|E]; rewrite E in Hsd0, Hmode'.
    + destruct Hmode' as (_ & HckN & Hcode & Hf1). specialize (Hm E).
      destruct (ck =? a) eqn:Eck.
      * apply Nat.eqb_eq in Eck. rewrite Hsd0. right.
        destruct ccl.
        -- destruct relay.
           ++ left. eexists. cbn. split; [reflexivity|]. split; [symmetry; exact Hcode | reflexivity].
           ++ rewrite Hf1. right. left. cbn. unfold enter_killall. destruct (n_kill nt); [contradiction|]. rewrite Hcode. reflexivity.
        -- left. eexists. cbn. split; [reflexivity|]. split; [symmetry; exact Hcode | reflexivity].
      * apply Nat.eqb_neq in Eck. apply (Hgo Hsd0). intros _. lia.
    + apply (Hgo Hsd0). intros E'. congruence.
Qed.

(* ---------- state access after a region ---------- *)
Lemma mbs_mwg j st : mbs (maybe_wake_gate j st) = mbs st.
Proof. unfold maybe_wake_gate. destruct (_ && _); reflexivity. Qed.
Lemma get_mb_mwg j st k : get_mb (maybe_wake_gate j st) k = get_mb st k.
Proof. unfold get_mb. rewrite mbs_mwg. reflexivity. Qed.
Lemma len_mwg j st : length (ths (maybe_wake_gate j st)) = length (ths st).
Proof. unfold maybe_wake_gate. destruct (_ && _); [apply length_ths_wake | reflexivity]. Qed.
Lemma len_kill_mb st j r : length (ths (kill_mb st j r)) = length (ths st).
Proof. destruct (sig_lengths _ _ (sig_kill_mb st j r)) as [_ H]. exact H. Qed.
Lemma get_mb_kill_mb st j r : j < length (mbs st) ->
  get_mb (kill_mb st j r) j =
    if mb_killed (get_mb st j) then set_fkilled (get_mb st j) true
    else set_killed (set_fkilled (get_mb st j) true) true r.
Proof.
  intros H. unfold kill_mb. cbn [mb_killed set_fkilled]. destruct (mb_killed (get_mb st j)).
  - apply get_mb_set_mb_eq. auto.
  - rewrite !get_mb_wake. apply get_mb_set_mb_eq. auto.
Qed.

Ltac lens := rewrite ?length_ths_set_th, ?length_ths_wake, ?len_mwg, ?len_kill_mb, ?ths_set_mb.
Ltac gets := repeat first [ rewrite get_mb_set_th | rewrite get_mb_wake | rewrite get_mb_mwg ].

(* ---------- re-establishing Inv after a region of thread tid that touched mailbox k (k = L: none) ---------- *)
Lemma Inv_frame st st' tid k :
  Inv st -> shape st' -> fr tid k st st' -> tid <= L ->
  (k < L -> Mok k (get_mb st' k)) ->
  (tid < L -> Sok (get_mb st' tid) (get_th st' tid)) ->
  (k < L -> k <> tid -> Sok (get_mb st' k) (get_th st k)) ->
  (forall p, tid = S p -> Rok (get_mb st' p) (get_th st' tid)) ->
  (k < L -> S k <> tid -> Rok (get_mb st' k) (get_th st (S k))) ->
  Tok tid (get_th st' tid) ->
  (k < L -> mb_closed (get_mb st' k) = mb_closed (get_mb st k) \/
            (mb_closed (get_mb st' k) = true /\ forall p, k = S p -> mb_closed (get_mb st p) = true)) ->
  Inv st'.
Proof.
  intros [Hsh [Hmb [Hth Hcc]]] Hsh' Hfr Htid HM HS1 HS2 HR1 HR2 HT HC.
  pose proof (sh_nt _ Hsh) as Hnt.
  split; auto. split; [|split].
  - intros j Hj. destruct (Hmb j Hj) as [HMj [HSj HRj]].
    assert (Hgm : j <> k -> get_mb st' j = get_mb st j) by (intros Hne; apply (proj2 Hfr); auto).
    split; [|split].
    + destruct (Nat.eq_dec j k) as [->|Hne]; [auto | rewrite Hgm; auto].
    + destruct (Nat.eq_dec j tid) as [->|Hnt']; [auto|].
      apply (Sok_weq _ (get_th st j)); [eapply fr_get_th; eauto; lia|].
      destruct (Nat.eq_dec j k) as [->|Hne]; [auto | rewrite Hgm; auto].
    + destruct (Nat.eq_dec (S j) tid) as [E|Hnt']; [rewrite E; apply HR1; auto|].
      apply (Rok_weq _ (get_th st (S j))); [eapply fr_get_th; eauto; lia|].
      destruct (Nat.eq_dec j k) as [->|Hne]; [auto | rewrite Hgm; auto].
  - intros i Hi. destruct (Nat.eq_dec i tid) as [->|Hne]; auto.
    apply (Tok_weq _ (get_th st i)); [eapply fr_get_th; eauto; lia | auto].
  - intros j Hj Hc.
    assert (Hgm : forall x, x <> k -> get_mb st' x = get_mb st x) by (intros; apply (proj2 Hfr); auto).
    destruct (Nat.eq_dec (S j) k) as [E|E].
    + rewrite (Hgm j) by lia. assert (Hk : k < L) by lia. destruct (HC Hk) as [Heq | [_ Hp]].
      * rewrite <- E in Heq. rewrite Heq in Hc. apply (Hcc j Hj Hc).
      * apply (Hp j). auto.
    + rewrite (Hgm (S j)) in Hc by auto. pose proof (Hcc j Hj Hc) as Hcj.
      destruct (Nat.eq_dec j k) as [E2|E2].
      * subst j. assert (Hk : k < L) by lia. destruct (HC Hk) as [Heq | [Ht _]]; [rewrite Heq; auto | auto].
      * rewrite Hgm by auto. auto.
Qed.

(* mailboxes as seen by Sok / Rok: only some fields matter *)
Lemma Sok_fields m m' s :
  mb_closed m' = mb_closed m -> mb_killed m' = mb_killed m -> mb_nsent m' = mb_nsent m -> Sok m s -> Sok m' s.
Proof. unfold Sok. intros -> -> ->. auto. Qed.
Lemma Rok_fields m m' r : sub0 m' = sub0 m -> Rok m r -> Rok m' r.
Proof. unfold Rok, rcore. intros ->. auto. Qed.
Lemma Sok_killed m s : mb_killed m = true -> (mb_closed m = true -> t_pc s = PDone) -> Sok m s.
Proof. intros H1 H2. split; auto. intros H. congruence. Qed.


(* ---------- a stage at the top of its loop ---------- *)
Definition ready (i : nat) (t : thread) : Prop :=
  tsig t = stage_sig i /\ t_fi t = 0 /\ t_nstop t = 0 /\ (i = ft -> t_cnt t <= fp) /\
  (1 <= i ->
     r_buf (cur_r t) = msgs N (head_no t) (length (r_buf (cur_r t))) /\
     length (r_buf (cur_r t)) <= r_next (cur_r t) /\
     r_last (cur_r t) = (r_next (cur_r t) =? S N) /\ r_next (cur_r t) <= S N /\
     t_cnt t = head_no t /\ head_no t <= N /\ (ft < i -> r_next (cur_r t) <= N)).

Definition post (i : nat) (t t' : thread) : Prop :=
  Tok i t' /\
  (forall m, 1 <= i -> r_next (cur_r t) = sb_nread (sub0 m) -> sb_wait (sub0 m) = None -> Rok m t') /\
  (forall m, mb_closed m = false -> (mb_killed m = false -> mb_nsent m = t_cnt t /\ mb_nsent m <= N) -> Sok m t').

Lemma consume_stage i t : i < L -> ready i t -> post i t (consume nt i t).
Proof.
  intros Hi [Hsig [Hfi [Hns [Hftc Hmid]]]]. destruct i as [|p].
  - destruct (consume_src t Hsig Hfi Hns Hftc) as [H1 [H2 [H3 H4]]]. split; [auto|]. split; [intros; lia | auto].
  - destruct Hmid as [Hb [Hl [Hla [Hnb [Hc [Hk Hgt]]]]]]; [lia|].
    destruct (consume_mid p t Hi Hsig Hfi Hns Hb Hl Hla Hnb Hc Hk Hftc Hgt) as [H1 [[E1 [E2 [E3 E4]]] [[P1 P2] H4]]].
    split; [auto|]. split.
    + intros m _ Hn Hw. unfold Rok, rcore. rewrite E1, E2. repeat split; auto; try congruence.
      * unfold head_no in E3. rewrite E1 in E3. exact E3.
      * rewrite Hw. destruct (t_pc (consume nt (S p) t)); auto. congruence.
      * destruct (t_pc (consume nt (S p) t)) eqn:E; auto; [|congruence].
        destruct (P2 eq_refl) as [Q1 Q2]. rewrite E1 in Q2. auto.
    + intros m Hc' Hk'. apply H4; auto. intros Hkk. apply (Hk' Hkk).
Qed.

Lemma loop_start_stage st i t : i < L -> ready i t -> post i t (loop_start nt i st t).
Proof.
  intros Hi Hr. pose proof Hr as [Hsig [Hfi [Hns [Hftc Hmid]]]].
  assert (Hk : t_kind t = KStage N i) by (unfold tsig, stage_sig in Hsig; congruence).
  unfold loop_start. rewrite Hk. destruct (mb_lazy (get_mb st i)); [|apply consume_stage; auto].
  split; [|split].
  - unfold Tok. cbn. repeat split; auto; try lia; try discriminate.
    all: destruct Hmid as [Hb [Hl [Hla [Hnb [Hc [Hk' Hgt]]]]]]; auto.
  - intros m H1 Hn Hw. destruct (Hmid H1) as [Hb [Hl [Hla [Hnb [Hc [Hk' Hgt]]]]]].
    unfold Rok, rcore. cbn. unfold head_no in Hb. repeat split; auto.
  - intros m Hc Hkk. split; [congruence|]. intros Hnk. cbn. apply (Hkk Hnk).
Qed.

Definition looptop (p : pc) : Prop :=
  match p with
  | PGate _ | PGateWait _ | PRead | PReadWait | PSend _ _ false | PSendWait _ _ false => True
  | _ => False
  end.

Lemma ready_top st i : Inv st -> i < L -> looptop (t_pc (get_th st i)) -> ready i (get_th st i).
Proof.
  intros [Hsh [Hmb [Hth Hcc]]] Hi Hp. destruct (Hth i (Nat.lt_le_incl _ _ Hi)) as [Hfi [Hns [_ Hst]]].
  destruct (Hst Hi) as [Hrng [Hcl [Hcnt Hlink]]].
  split; [apply (sh_st _ Hsh); auto|]. split; auto. split; auto. split; auto.
  intros H1. destruct i as [|p]; [lia|].
  destruct (Hmb p) as [HM [_ [[Hn [Hb [Hl [Hla Hnb]]]] _]]]; [lia|].
  assert (Hlk : t_cnt (get_th st (S p)) = head_no (get_th st (S p)) /\ head_no (get_th st (S p)) <= N).
  { specialize (Hlink H1). destruct (t_pc (get_th st (S p))) as [| | | | ? ? [|] | ? ? [|] | | | | | | |];
      cbn in Hp; try contradiction; auto. }
  destruct Hlk as [Hc Hk]. repeat split; auto.
  intros Hgt. rewrite Hn. pose proof (mo_le _ _ HM). pose proof (mo_ft _ _ HM). lia.
Qed.

(* ---------- small transfers ---------- *)
Lemma out_mb_stage t n o oi : t_kind t = KStage n o -> out_mb t oi = o.
Proof. unfold out_mb. intros ->. reflexivity. Qed.
Lemma n_outs_stage t n o : t_kind t = KStage n o -> n_outs t = 1.
Proof. unfold n_outs. intros ->. reflexivity. Qed.

(* t' is t up to the woken flag and the waiting variant of the pc *)
Definition wvar (p p' : pc) : Prop :=
  p' = p \/ (exists oi, p = PGate oi /\ p' = PGateWait oi) \/
  (exists oi m x, p = PSend oi m x /\ p' = PSendWait oi m x).
Definition sim (t t' : thread) : Prop :=
  t_kind t' = t_kind t /\ t_rd t' = t_rd t /\ t_fi t' = t_fi t /\ t_nstop t' = t_nstop t /\ t_cnt t' = t_cnt t /\
  t_rows t' = t_rows t /\ wvar (t_pc t) (t_pc t').

Lemma sim_wait t p' b : wvar (t_pc t) p' -> sim t (set_woken (set_pc t p') b).
Proof. intros H. unfold sim. cbn. auto 10. Qed.
Lemma sim_woken t b : sim t (set_woken t b).
Proof. unfold sim, wvar. cbn. auto 10. Qed.

Ltac sim_tac t t' H :=
  destruct t as [kind pc0 wk rd fi nstop val cnt rows cl ex got];
  destruct t' as [kind' pc0' wk' rd' fi' nstop' val' cnt' rows' cl' ex' got'];
  unfold sim in H; cbn in H; destruct H as (-> & -> & -> & -> & -> & -> & Hw);
  destruct Hw as [->|[(oi & -> & ->)|(oi & mm & x & -> & ->)]].

Lemma sim_Sok m t t' : sim t t' -> Sok m t -> Sok m t'.
Proof.
  intros H. sim_tac t t' H; unfold Sok; cbn; auto.
  - intros [H1 H2]. split; auto. intros E. specialize (H1 E). discriminate.
  - intros [H1 H2]. split; auto. intros E. specialize (H1 E). discriminate.
Qed.
Lemma sim_Rok m t t' : sim t t' -> Rok m t -> Rok m t'.
Proof. intros H. sim_tac t t' H; unfold Rok, rcore, cur_r; cbn; auto. Qed.
Lemma sim_Tok i t t' : sim t t' -> Tok i t -> Tok i t'.
Proof.
  intros H. sim_tac t t' H; auto.
  - unfold Tok, head_no, cur_r. cbn. intros (H1 & H2 & H3 & H4).
    repeat split; auto; try (intros E; destruct (H3 E) as [[X|X] _]; discriminate); try (match goal with HH : _ = L |- _ => destruct (H3 HH) as [[X|X] _]; discriminate end); try (apply H4; auto).
  - destruct x; unfold Tok, head_no, cur_r; cbn; intros (H1 & H2 & H3 & H4);
      repeat split; auto; try (intros E; destruct (H3 E) as [[X|X] _]; discriminate); try (match goal with HH : _ = L |- _ => destruct (H3 HH) as [[X|X] _]; discriminate end); try (apply H4; auto).
Qed.

(* a thread that only changes as in sim *)
Lemma Inv_sim st i t' :
  Inv st -> i <= L -> sim (get_th st i) t' -> shape (set_th st i t') -> Inv (set_th st i t').
Proof.
  intros HI Hi Hs Hsh'. pose proof HI as [Hsh [Hmb [Hth Hcc]]].
  assert (Hlen : i < length (ths st)) by (rewrite (sh_nt _ Hsh); lia).
  apply (Inv_frame st _ i L HI Hsh' (fr_set_th i L st t')); try lia.
  - intros Hlt. gets. rewrite get_th_set_th_eq by auto. apply (sim_Sok _ _ _ Hs). apply (Hmb i Hlt).
  - intros p Hp. gets. rewrite get_th_set_th_eq by auto. apply (sim_Rok _ _ _ Hs). subst i. apply (Hmb p). lia.
  - rewrite get_th_set_th_eq by auto. apply (sim_Tok _ _ _ Hs). auto.
Qed.

(* a stage thread that leaves its loop: PKillOut / PDone / PDead *)
Lemma Rok_leave m t p' :
  Rok m t -> t_pc t <> PReadWait ->
  match p' with PRead | PReadWait => False | _ => True end -> Rok m (set_pc t p').
Proof.
  unfold Rok, rcore. cbn. intros (H1 & H2 & H3) Hn Hp. split; auto. split.
  - rewrite H2. destruct (t_pc t); try congruence; destruct p'; auto; contradiction.
  - destruct p'; auto; contradiction.
Qed.
Lemma Tok_leave i t p' :
  Tok i t -> i < L ->
  match p' with PDone | PDead _ => True | PKillOut _ e => exn_code e = c | _ => False end -> Tok i (set_pc t p').
Proof.
  unfold Tok. cbn. intros (H1 & H2 & H3 & H4) Hi Hp. destruct (H4 Hi) as (A & B & C & D).
  destruct p'; try contradiction; cbn; repeat split; auto; try lia.
Qed.

(* ---------- the fetch gate ---------- *)
Lemma gate_case st i (resume : bool) (oi : nat) :
  Inv st -> i < L -> nth_error (ths st) i = Some (get_th st i) ->
  t_pc (get_th st i) = (if resume then PGateWait oi else PGate oi) ->
  shape (gate_region nt i resume st (get_th st i) oi) ->
  Inv (gate_region nt i resume st (get_th st i) oi).
Proof.
  intros HI Hi Hnth Hpc. set (t := get_th st i) in *.
  pose proof HI as [Hsh [Hmb [Hth Hcc]]].
  assert (Hlen : i < length (ths st)) by (rewrite (sh_nt _ Hsh); lia).
  assert (Hk : t_kind t = KStage N i).
  { pose proof (sh_st _ Hsh i Hi) as Hs. unfold tsig, stage_sig in Hs. fold t in Hs. congruence. }
  destruct (Hmb i Hi) as [HM [HS _]]. fold t in HS.
  assert (Htop : looptop (t_pc t)) by (rewrite Hpc; destruct resume; exact I).
  pose proof (ready_top st i HI Hi Htop) as Hrdy. fold t in Hrdy.
  assert (Hcl : mb_closed (get_mb st i) = false).
  { destruct (mb_closed (get_mb st i)) eqn:E; auto. destruct HS as [HS _]. specialize (HS E).
    rewrite Hpc in HS. destruct resume; discriminate. }
  assert (Hns : mb_killed (get_mb st i) = false ->
                mb_nsent (get_mb st i) = t_cnt t /\ mb_nsent (get_mb st i) <= N).
  { intros Hnk. destruct HS as [_ HS]. specialize (HS Hnk). rewrite Hpc in HS.
    split; [destruct resume; auto|].
    pose proof (mo_closed _ _ HM) as E. rewrite Hcl in E. pose proof (mo_bound _ _ HM).
    symmetry in E. apply Nat.eqb_neq in E. lia. }
  unfold gate_region. rewrite (out_mb_stage _ _ _ _ Hk). destruct (mb_can_fetch (get_mb st i)) eqn:Ecf.
  - rewrite Hk. intros Hsh'.
    destruct (consume_stage i t Hi Hrdy) as [PT [PR PS]].
    apply (Inv_frame st _ i L HI Hsh' (fr_set_th i L st _)); try lia.
    + intros _. gets. rewrite get_th_set_th_eq by auto. apply PS; auto.
    + intros p Hp. gets. rewrite get_th_set_th_eq by auto.
      destruct (Hmb p) as [_ [_ [[Hn _] [Hw _]]]]; [lia|]. subst i. fold t in Hn, Hw.
      apply PR; [lia | exact Hn | rewrite Hw, Hpc; destruct resume; reflexivity].
    + rewrite get_th_set_th_eq by auto. exact PT.
  - destruct resume; intros Hsh'.
    + apply Inv_sim; auto; try lia. apply sim_woken.
    + apply Inv_sim; auto; try lia. apply sim_wait. right. left. exists oi. rewrite Hpc. auto.
Qed.

(* ---------- kill_from_exception on the stage's own output ---------- *)
Lemma killout_case st i oi e :
  Inv st -> i < L -> nth_error (ths st) i = Some (get_th st i) ->
  t_pc (get_th st i) = PKillOut oi e ->
  shape (killout_region i st (get_th st i) oi e) ->
  Inv (killout_region i st (get_th st i) oi e).
Proof.
  intros HI Hi Hnth Hpc. set (t := get_th st i) in *.
  pose proof HI as [Hsh [Hmb [Hth Hcc]]].
  assert (Hlen : i < length (ths st)) by (rewrite (sh_nt _ Hsh); lia).
  assert (Hlm : i < length (mbs st)) by (rewrite (sh_nm _ Hsh); lia).
  assert (Hk : t_kind t = KStage N i).
  { pose proof (sh_st _ Hsh i Hi) as Hs. unfold tsig, stage_sig in Hs. fold t in Hs. congruence. }
  destruct (Hmb i Hi) as [HM [HS HR]]. fold t in HS.
  pose proof (Hth i (Nat.lt_le_incl _ _ Hi)) as HT. fold t in HT.
  assert (Hcode : exn_code e = c).
  { destruct HT as (_ & _ & _ & H4). destruct (H4 Hi) as [H5 _]. rewrite Hpc in H5. exact H5. }
  intros Hsh'. pose proof (fr_killout_region i st t oi e) as Hfr. revert Hsh' Hfr.
  unfold killout_region. rewrite (out_mb_stage _ _ _ _ Hk), (n_outs_stage _ _ _ Hk), Hcode.
  replace (S oi <? 1) with false by (symmetry; apply Nat.ltb_ge; lia).
  set (t' := if is_mk e then set_pc t PDone else set_pc t (PDead e)).
  intros Hsh' Hfr.
  assert (Hm' : get_mb (set_th (kill_mb st i c) i t') i =
                if mb_killed (get_mb st i) then set_fkilled (get_mb st i) true
                else set_killed (set_fkilled (get_mb st i) true) true c).
  { gets. apply get_mb_kill_mb. auto. }
  assert (Ht' : get_th (set_th (kill_mb st i c) i t') i = t').
  { apply get_th_set_th_eq. lens. auto. }
  assert (Hpc' : t' = set_pc t PDone \/ t' = set_pc t (PDead e)) by (unfold t'; destruct (is_mk e); auto).
  apply (Inv_frame st _ i i HI Hsh' Hfr); try lia.
  - intros _. rewrite Hm'. destruct HM. destruct (mb_killed (get_mb st i)) eqn:Ek; split; cbn; auto.
  - intros _. rewrite Hm', Ht'. apply Sok_killed.
    + destruct (mb_killed (get_mb st i)) eqn:Ek; cbn; auto.
    + intros Hc. exfalso. assert (Hc' : mb_closed (get_mb st i) = true).
      { destruct (mb_killed (get_mb st i)); cbn in Hc; auto. }
      destruct HS as [HS _]. specialize (HS Hc'). congruence.
  - intros p Hp. rewrite Ht'. assert (Hpi : p <> i) by lia.
    rewrite (proj2 Hfr p Hpi).
    assert (HRp : Rok (get_mb st p) t) by (subst i; apply (Hmb p); lia).
    destruct Hpc' as [-> | ->]; apply Rok_leave; auto; rewrite Hpc; discriminate.
  - intros _ _. rewrite Hm'. eapply Rok_fields; [|exact HR].
    destruct (mb_killed (get_mb st i)); reflexivity.
  - rewrite Ht'. destruct Hpc' as [-> | ->]; apply Tok_leave; auto; exact I.
  - intros _. left. rewrite Hm'. destruct (mb_killed (get_mb st i)); reflexivity.
Qed.

(* ---------- send ---------- *)
Lemma Sok_closedfalse_pc m t : Sok m t -> t_pc t <> PDone -> mb_closed m = false.
Proof. intros [H _] Hp. destruct (mb_closed m); auto. exfalso. apply Hp. auto. Qed.

Lemma Mok_nsent_le j m : Mok j m -> mb_closed m = false -> mb_nsent m <= N.
Proof.
  intros HM Hc. pose proof (mo_closed _ _ HM) as E. rewrite Hc in E. pose proof (mo_bound _ _ HM).
  symmetry in E. apply Nat.eqb_neq in E. lia.
Qed.

Section Send.
Variable st : nstate.
Variable i : nat.
Hypothesis HI : Inv st.
Hypothesis Hi : i < L.
Let t := get_th st i.
Let m := get_mb st i.
Variables (resume : bool) (oi : nat) (mg : msg) (cl : bool).
Hypothesis Hpc : t_pc t = (if resume then PSendWait oi mg cl else PSend oi mg cl).

Lemma send_facts :
  i < length (ths st) /\ i < length (mbs st) /\ t_kind t = KStage N i /\ Mok i m /\ Sok m t /\
  Rok m (get_th st (S i)) /\ Tok i t /\ mb_closed m = false /\ t_pc t <> PReadWait /\ t_pc t <> PDone.
Proof.
  pose proof HI as [Hsh [Hmb [Hth Hcc]]].
  destruct (Hmb i Hi) as [HM [HS HR]].
  assert (Hp1 : t_pc t <> PReadWait) by (rewrite Hpc; destruct resume; discriminate).
  assert (Hp2 : t_pc t <> PDone) by (rewrite Hpc; destruct resume; discriminate).
  refine (conj _ (conj _ (conj _ (conj HM (conj HS (conj HR (conj _ (conj _ (conj Hp1 Hp2))))))))).
  - rewrite (sh_nt _ Hsh). lia.
  - rewrite (sh_nm _ Hsh). lia.
  - pose proof (sh_st _ Hsh i Hi) as Hs. unfold tsig, stage_sig in Hs. fold t in Hs. congruence.
  - apply Hth. lia.
  - apply (Sok_closedfalse_pc m t); auto.
Qed.

(* MailboxKilled leaves send() *)
Lemma raise_ok :
  mb_killed m = true ->
  shape (set_th st i (send_raise nt t cl (EKilled (mb_reason m)))) ->
  Inv (set_th st i (send_raise nt t cl (EKilled (mb_reason m)))).
Proof.
  intros Hkd Hsh'. destruct send_facts as (Hlen & Hlm & Hk & HM & HS & HR & HT & Hcl & Hp1 & Hp2).
  pose proof HI as [Hsh [Hmb [Hth Hcc]]].
  assert (Ht' : exists p', send_raise nt t cl (EKilled (mb_reason m)) = set_pc t p' /\
                           match p' with PDone | PDead _ => True | PKillOut _ e => exn_code e = c | _ => False end).
  { unfold send_raise. rewrite Hk. destruct cl.
    - eexists. split; [reflexivity | exact I].
    - eexists. split; [reflexivity|]. cbn. apply (mo_reason _ _ HM). auto. }
  destruct Ht' as [p' [Et' Hp']]. rewrite Et' in *.
  apply (Inv_frame st _ i L HI Hsh' (fr_set_th i L st _)); try lia.
  - intros _. gets. rewrite get_th_set_th_eq by auto. apply Sok_killed; auto. fold m. congruence.
  - intros p Hp. gets. rewrite get_th_set_th_eq by auto.
    assert (HRp : Rok (get_mb st p) t) by (unfold t; subst i; apply (Hmb p); lia).
    apply Rok_leave; auto. destruct p'; auto; contradiction.
  - rewrite get_th_set_th_eq by auto. apply Tok_leave; auto.
Qed.

(* the message goes into the box *)
Lemma push_ok :
  mb_killed m = false ->
  shape (do_push nt i st t oi mg cl) -> Inv (do_push nt i st t oi mg cl).
Proof.
  intros Hnk. destruct send_facts as (Hlen & Hlm & Hk & HM & HS & HR & HT & Hcl & Hp1 & Hp2).
  pose proof HI as [Hsh [Hmb [Hth Hcc]]].
  assert (HS2 : nth_error (MS N) (mb_nsent m) = Some mg /\ cl = is_stop mg /\
                t_cnt t = (if cl then mb_nsent m else S (mb_nsent m))).
  { destruct HS as [_ HS]. specialize (HS Hnk). rewrite Hpc in HS. destruct resume; exact HS. }
  destruct HS2 as [Hnth [Hcls Hcnt]].
  assert (Hftcl : ft <= i -> cl = false).
  { intros Hf. destruct HT as (_ & _ & _ & H4). destruct (H4 Hi) as (_ & H5 & _). specialize (H5 Hf).
    rewrite Hpc in H5. destruct resume, cl; cbn in H5; auto. }
  pose proof (fr_do_push nt i st t oi mg cl) as Hfr. rewrite (out_mb_stage _ _ _ _ Hk) in Hfr.
  revert Hfr. unfold do_push, after_send. rewrite (out_mb_stage _ _ _ _ Hk), (n_outs_stage _ _ _ Hk).
  replace (S oi <? 1) with false by (symmetry; apply Nat.ltb_ge; lia).
  fold m.
  set (mp := push_box m (insert (mb_nsent m) mg (mb_box m))).
  set (st1 := wake waits_read i (set_mb st i mp)).
  assert (Hg1 : get_mb st1 i = mp) by (unfold st1; rewrite get_mb_wake; apply get_mb_set_mb_eq; auto).
  assert (Hl1 : length (ths st1) = length (ths st)) by (unfold st1; lens; reflexivity).
  assert (Hlm1 : length (mbs st1) = length (mbs st)) by (unfold st1; rewrite mbs_wake; apply length_mbs_set_mb).
  (* the new box *)
  assert (Hbox : mb_box mp = seg (MS N) (sb_nread (sub0 m)) (S (mb_nsent m) - sb_nread (sub0 m))).
  { unfold mp. cbn [mb_box push_box]. rewrite (mo_box _ _ HM). pose proof (mo_le _ _ HM) as Hle.
    replace (S (mb_nsent m) - sb_nread (sub0 m)) with (S (mb_nsent m - sb_nread (sub0 m))) by lia.
    rewrite <- (insert_seg (MS N) (sb_nread (sub0 m)) (mb_nsent m - sb_nread (sub0 m)) mg).
    - f_equal. lia.
    - replace (sb_nread (sub0 m) + (mb_nsent m - sb_nread (sub0 m))) with (mb_nsent m) by lia. exact Hnth. }
  pose proof (MS_some_le _ _ _ Hnth) as Hnle.
  destruct cl.
  - (* close(): Stop pushed, closed, thread done *)
    assert (HeN : mb_nsent m = N) by (destruct mg; cbn in Hcls; try discriminate; apply MS_stop_inv; auto).
    set (mc := set_closed (get_mb st1 i) true).
    intros Hfr Hsh'.
    assert (Hm' : get_mb (set_th (set_mb st1 i mc) i (set_pc t PDone)) i = mc).
    { gets. apply get_mb_set_mb_eq. lia. }
    assert (Ht' : get_th (set_th (set_mb st1 i mc) i (set_pc t PDone)) i = set_pc t PDone).
    { apply get_th_set_th_eq. lens. lia. }
    assert (Hmc : mc = set_closed mp true) by (unfold mc; rewrite Hg1; reflexivity).
    apply (Inv_frame st _ i i HI Hsh' Hfr); try lia.
    + intros _. rewrite Hm', Hmc. destruct HM. split; cbn; auto; try lia.
      all: try (symmetry; apply Nat.eqb_eq; lia).
      all: try (intros Hf; specialize (Hftcl Hf); discriminate).
    + intros _. rewrite Hm', Ht', Hmc. split; cbn; auto.
    + intros p Hp. rewrite Ht'. assert (Hpi : p <> i) by lia. rewrite (proj2 Hfr p Hpi).
      assert (HRp : Rok (get_mb st p) t) by (unfold t; subst i; apply (Hmb p); lia).
      apply Rok_leave; auto; try exact I.
    + intros _ _. rewrite Hm', Hmc. eapply Rok_fields; [|exact HR]. reflexivity.
    + rewrite Ht'. apply Tok_leave; auto; try exact I.
    + intros _. right. rewrite Hm', Hmc. split; [reflexivity|]. intros p Ep.
      assert (HRp : Rok (get_mb st p) t) by (unfold t; subst i; apply (Hmb p); lia).
      destruct HRp as [[Hn _] _].
      assert (HMp : Mok p (get_mb st p)) by (apply (Hmb p); lia).
      assert (Hrn : r_next (cur_r t) = S N).
      { destruct HT as (_ & _ & _ & H4). destruct (H4 Hi) as (_ & _ & _ & H5).
        assert (H1 : 1 <= i) by lia. specialize (H5 H1). rewrite Hpc in H5. destruct resume; exact H5. }
      rewrite (mo_closed _ _ HMp). apply Nat.eqb_eq.
      pose proof (mo_le _ _ HMp). pose proof (mo_bound _ _ HMp). lia.
  - (* an ordinary send, then the top of the loop *)
    assert (Hlt : mb_nsent m < N) by (apply (MS_nonstop_lt _ _ _ Hnth); auto).
    set (t' := loop_start nt i st1 t).
    intros Hfr Hsh'.
    assert (Hm' : get_mb (set_th st1 i t') i = mp) by (gets; auto).
    assert (Ht' : get_th (set_th st1 i t') i = t') by (apply get_th_set_th_eq; lia).
    assert (Htop : looptop (t_pc (get_th st i))) by (fold t; rewrite Hpc; destruct resume; exact I).
    destruct (loop_start_stage st1 i t Hi (ready_top st i HI Hi Htop)) as [PT [PR PS]]. fold t' in PT, PR, PS.
    apply (Inv_frame st _ i i HI Hsh' Hfr); try lia.
    + intros _. rewrite Hm'. destruct HM. split; auto; unfold mp; cbn; auto; try lia.
      all: try (rewrite Hcl; symmetry; apply Nat.eqb_neq; lia).
    + intros _. rewrite Hm', Ht'. apply PS.
      * unfold mp. cbn. exact Hcl.
      * intros _. unfold mp. cbn. split; lia.
    + intros p Hp. rewrite Ht'. assert (Hpi : p <> i) by lia. rewrite (proj2 Hfr p Hpi).
      assert (HRp : Rok (get_mb st p) t) by (unfold t; subst i; apply (Hmb p); lia).
      destruct HRp as [[Hn _] [Hw _]]. apply PR; [lia | exact Hn |].
      rewrite Hw, Hpc. destruct resume; reflexivity.
    + intros _ _. rewrite Hm'. eapply Rok_fields; [|exact HR]. reflexivity.
    + rewrite Ht'. exact PT.
    + intros _. left. rewrite Hm'. reflexivity.
Qed.

End Send.

Lemma send_case st i (resume : bool) (oi : nat) (mg : msg) (cl : bool) :
  Inv st -> i < L ->
  t_pc (get_th st i) = (if resume then PSendWait oi mg cl else PSend oi mg cl) ->
  shape (send_region nt i resume st (get_th st i) oi mg cl) -> Inv (send_region nt i resume st (get_th st i) oi mg cl).
Proof.
  intros HI Hi Hpc.
  destruct (send_facts st i HI Hi resume oi mg cl Hpc) as (Hlen & Hlm & Hk & HM & HS & HR & HT & Hcl & Hp1 & Hp2).
  pose proof (mo_fk _ _ HM) as Hfk.
  unfold send_region. rewrite (out_mb_stage _ _ _ _ Hk). rewrite Hcl, Hfk.
  destruct resume.
  - destruct (mb_can_write (get_mb st i)).
    + destruct (mb_killed (get_mb st i)) eqn:Ek; [apply (raise_ok st i HI Hi true oi mg cl Hpc); auto | apply (push_ok st i HI Hi true oi mg cl Hpc); auto].
    + intros Hsh'. apply Inv_sim; auto; try lia. apply sim_woken.
  - destruct (mb_killed (get_mb st i)) eqn:Ek; [apply (raise_ok st i HI Hi false oi mg cl Hpc); auto|].
    destruct (mb_can_write (get_mb st i)); [apply (push_ok st i HI Hi false oi mg cl Hpc); auto|].
    intros Hsh'. apply Inv_sim; auto; try lia. apply sim_wait. right. right. exists oi, mg, cl.
    rewrite Hpc. auto.
Qed.

(* ---------- read ---------- *)
Lemma cur_r_of t k p : tsig t = (k, [(p, 0)]) -> t_fi t = 0 ->
  t_rd t = [cur_r t] /\ r_mb (cur_r t) = p /\ r_sub (cur_r t) = 0.
Proof.
  unfold tsig. intros H Hfi. injection H as _ Hr. unfold cur_r. rewrite Hfi.
  destruct (t_rd t) as [|rr [|]]; cbn in Hr; try discriminate. cbn. unfold rsig in Hr. injection Hr as H1 H2. auto.
Qed.

Lemma Mok_set_sub j m x : Mok j m -> sb_nread x = sb_nread (sub0 m) ->
  Mok j (set_sub m 0 x) /\ sub0 (set_sub m 0 x) = x.
Proof.
  intros HM Hx. assert (E : sub0 (set_sub m 0 x) = x).
  { unfold sub0, get_sub, set_sub. cbn. rewrite (mo_subs _ _ HM). reflexivity. }
  split; auto. destruct HM.
  split; rewrite ?E, ?Hx; auto.
  unfold set_sub. cbn. rewrite mo_subs0. reflexivity.
Qed.

Lemma has_lt j m : Mok j m -> has_msg (mb_box m) (sb_nread (sub0 m)) = (sb_nread (sub0 m) <? mb_nsent m).
Proof.
  intros HM. destruct HM. rewrite mo_box0. rewrite has_msg_seg by (rewrite MS_length; lia).
  rewrite Nat.leb_refl. cbn [andb]. f_equal. lia.
Qed.

Local Transparent msgs.
Lemma take_ok j m : Mok j m -> sb_nread (sub0 m) < mb_nsent m ->
  take_from (length (mb_box m)) (mb_box m) (sb_nread (sub0 m)) =
  (msgs N (sb_nread (sub0 m)) (mb_nsent m - sb_nread (sub0 m)), mb_nsent m, mb_nsent m =? S N).
Proof.
  intros HM Hlt. destruct HM. rewrite mo_box0.
  set (a := sb_nread (sub0 m)) in *. set (len := mb_nsent m - a).
  assert (Hal : a + len = mb_nsent m) by (unfold len; lia).
  rewrite seg_length by (rewrite MS_length; lia).
  rewrite take_from_seg; try rewrite MS_length; try lia.
  replace (a + len - a) with len by lia. rewrite Hal.
  fold (msgs N a len). rewrite stop_in_msgs by lia.
  replace (0 <? len) with true by (symmetry; apply Nat.ltb_lt; lia). rewrite Hal. reflexivity.
Qed.
Local Opaque msgs.

Definition after_read (m : mbox) (n' : nat) : mbox :=
  let m1 := set_sub m 0 (sub_set_wait (get_sub m 0) None) in
  let m2 := set_sub m1 0 (sub_set_nread (get_sub m1 0) n') in
  set_box m2 (gc (min_read (mb_subs m2)) (mb_box m2)).

Lemma read_mb_ok j m : Mok j m ->
  Mok j (after_read m (mb_nsent m)) /\
  sub0 (after_read m (mb_nsent m)) = mkSub (mb_nsent m) None (sb_drive (sub0 m)) /\
  mb_closed (after_read m (mb_nsent m)) = mb_closed m /\ mb_killed (after_read m (mb_nsent m)) = mb_killed m /\
  mb_nsent (after_read m (mb_nsent m)) = mb_nsent m.
Proof.
  intros HM. pose proof (mo_subs _ _ HM) as Hs.
  assert (E : after_read m (mb_nsent m) =
              mkMb (gc (mb_nsent m) (mb_box m)) (mb_nsent m) (mb_closed m) (mb_killed m) (mb_fkilled m) (mb_reason m)
                   [mkSub (mb_nsent m) None (sb_drive (sub0 m))] (mb_cap m) (mb_lazy m)).
  { unfold after_read, set_sub, get_sub, set_box, set_subs. cbn -[gc]. rewrite Hs. cbn -[gc]. reflexivity. }
  rewrite E. split; [|cbn; auto].
  destruct HM. split; cbn -[gc Nat.sub]; auto; try lia.
  rewrite mo_box0. rewrite gc_seg; try rewrite MS_length; try lia. f_equal. lia.
Qed.

Lemma Sok_rw m t b : t_pc t = PRead -> Sok m t -> Sok m (set_woken (set_pc t PReadWait) b).
Proof.
  unfold Sok. cbn. intros E [H1 H2]. rewrite E in *. split; auto. intros Hc. specialize (H1 Hc). discriminate.
Qed.
Lemma Tok_rw i t b : t_pc t = PRead -> Tok i t -> Tok i (set_woken (set_pc t PReadWait) b).
Proof.
  unfold Tok, head_no, cur_r. cbn. intros E (H1 & H2 & H3 & H4). rewrite E in *.
  split; auto. split; auto. split.
  - intros Ei. destruct (H3 Ei) as (_ & A & B). auto.
  - intros Ei. destruct (H4 Ei) as (A & B & C & D). auto.
Qed.

Lemma Rok_intro m m' t t' :
  rcore m t -> cur_r t' = cur_r t -> sb_nread (sub0 m') = sb_nread (sub0 m) ->
  sb_wait (sub0 m') = match t_pc t' with PReadWait => Some (r_next (cur_r t)) | _ => None end ->
  match t_pc t' with PRead | PReadWait => r_buf (cur_r t) = [] /\ r_next (cur_r t) <= N | _ => True end ->
  Rok m' t'.
Proof. unfold Rok, rcore. intros (A & B & C & D & E) Hc Hn Hw Hr. rewrite Hc, Hn. auto 10. Qed.

(* the consumer's failure has fired: the caller is about to kill its input and enter kill-all *)
Definition firing (st : nstate) : Prop :=
  shape st /\ exists e, t_pc (get_th st L) = PKillIn e /\ exn_code e = c /\ is_mk e = false.

(* the caller has taken the end marker: every stage is done *)
Definition stopping (st : nstate) : Prop :=
  shape st /\ cmode = false /\ ft = L /\ (forall j, j < L -> t_pc (get_th st j) = PDone) /\
  t_pc (get_th st L) = PJoin 0 None /\ t_rows (get_th st L) = zs N.

Lemma all_closed st : Inv st -> mb_closed (get_mb st (L - 1)) = true -> forall j, j < L -> mb_closed (get_mb st j) = true.
Proof.
  intros [_ [_ [_ Hcc]]] Hc.
  assert (H : forall d j, j + d = L - 1 -> mb_closed (get_mb st j) = true).
  { induction d as [|d IH]; intros j Hj.
    - replace j with (L - 1) by lia. exact Hc.
    - apply Hcc; [lia|]. apply IH. lia. }
  intros j Hj. apply (H (L - 1 - j)). lia.
Qed.

Lemma read_case st p (resume : bool) :
  Inv st -> p < L ->
  t_pc (get_th st (S p)) = (if resume then PReadWait else PRead) ->
  shape (read_region nt (S p) resume st (get_th st (S p))) ->
  Inv (read_region nt (S p) resume st (get_th st (S p))) \/
  firing (read_region nt (S p) resume st (get_th st (S p))) \/
  noticed L (read_region nt (S p) resume st (get_th st (S p))) c \/
  (S p = L /\ stopping (read_region nt (S p) resume st (get_th st (S p)))).
Proof.
  intros HI Hp Hpc. set (tid := S p) in *. set (t := get_th st tid) in *.
  pose proof HI as [Hsh [Hmb [Hth Hcc]]].
  destruct (Hmb p Hp) as [HM [HSp HR]]. fold tid in HR. fold t in HR.
  assert (Htid : tid <= L) by (unfold tid; lia).
  pose proof (Hth tid Htid) as HT. fold t in HT.
  assert (Hlen : tid < length (ths st)) by (rewrite (sh_nt _ Hsh); unfold tid; lia).
  assert (Hlm : p < length (mbs st)) by (rewrite (sh_nm _ Hsh); lia).
  assert (Hfi : t_fi t = 0) by apply HT.
  assert (Hns0 : t_nstop t = 0) by apply HT.
  assert (Hsig : exists k, tsig t = (k, [(p, 0)]) /\ (tid < L -> k = KStage N tid) /\ (tid = L -> k = KMain relay)).
  { destruct (Nat.eq_dec tid L) as [E|E].
    - exists (KMain relay). pose proof (sh_main _ Hsh) as Hs. unfold t. rewrite E. rewrite Hs.
      split; [|split; [lia | auto]]. replace (L - 1) with p by (unfold tid in E; lia). reflexivity.
    - exists (KStage N tid). split; [|split; [auto | intros; contradiction]].
      unfold t. rewrite (sh_st _ Hsh tid) by lia. reflexivity. }
  destruct Hsig as [k [Hsig [Hk1 Hk2]]].
  destruct (cur_r_of t k p Hsig Hfi) as [Hrd [Hrmb Hrsub]].
  assert (Hkind : t_kind t = k) by (unfold tsig in Hsig; congruence).
  assert (Hrc : rcore (get_mb st p) t) by apply HR.
  destruct HR as [[Hn [Hb [Hl [Hla Hnb]]]] [Hw Hrdp]].
  assert (Hbuf : r_buf (cur_r t) = [] /\ r_next (cur_r t) <= N) by (rewrite Hpc in Hrdp; destruct resume; exact Hrdp).
  destruct Hbuf as [Hbuf HnN].
  pose proof (fr_read_region nt tid resume st t) as Hfr. rewrite Hrmb in Hfr.
  revert Hfr. unfold read_region. rewrite Hrmb, Hrsub, Hn. cbv zeta.
  set (m := get_mb st p) in *.
  destruct (mb_killed m) eqn:Ek.
  - rewrite orb_true_r.
    set (x := sub_set_wait (get_sub m 0) None).
    assert (Hx : sb_nread x = sb_nread (sub0 m)) by reflexivity.
    destruct (Mok_set_sub p m x HM Hx) as [HM1 Hs1].
    set (m1 := set_sub m 0 x) in *.
    destruct (Nat.eq_dec tid L) as [EL | NL].
    + (* the caller notices *)
      intros _ _. right. right. left. unfold noticed. rewrite <- EL. rewrite get_th_set_th_eq by (lens; auto).
      unfold on_input_killed. rewrite Hkind, (Hk2 EL). unfold enter_killall.
      destruct (n_kill nt) eqn:En; [contradiction|]. cbn. apply (mo_reason _ _ HM). auto.
    + (* a stage passes the MailboxKilled on *)
      assert (HtL : tid < L) by lia. intros Hfr Hsh'. left.
      set (t' := on_input_killed nt t (mb_reason m)) in *.
      assert (Et' : t' = set_pc t (PKillOut 0 (EKilled (mb_reason m)))).
      { unfold t', on_input_killed. rewrite Hkind, (Hk1 HtL). unfold first_out.
        rewrite (n_outs_stage t N tid) by (rewrite Hkind; auto). reflexivity. }
      assert (Hm' : get_mb (set_th (set_mb st p m1) tid t') p = m1) by (gets; apply get_mb_set_mb_eq; auto).
      assert (Ht' : get_th (set_th (set_mb st p m1) tid t') tid = t') by (apply get_th_set_th_eq; lens; auto).
      assert (Hmt : get_mb (set_th (set_mb st p m1) tid t') tid = get_mb st tid) by (apply (proj2 Hfr); unfold tid; lia).
      apply (Inv_frame st _ tid p HI Hsh' Hfr); try lia.
      * intros _. rewrite Hm'. exact HM1.
      * intros _. rewrite Hmt, Ht', Et'. destruct (Hmb tid HtL) as [_ [HSt _]]. fold t in HSt. split.
        -- intros Hc. destruct HSt as [H1 _]. specialize (H1 Hc). rewrite Hpc in H1. destruct resume; discriminate.
        -- intros _. exact I.
      * intros _ _. rewrite Hm'. eapply Sok_fields; [| | | exact HSp]; reflexivity.
      * intros q Hq. assert (q = p) by (unfold tid in Hq; lia). subst q. rewrite Hm', Ht', Et'.
        apply (Rok_intro m m1 t); [exact Hrc | reflexivity | rewrite Hs1; exact Hx | rewrite Hs1; reflexivity | exact I].
      * rewrite Ht', Et'. apply Tok_leave; auto. cbn. apply (mo_reason _ _ HM); auto.
      * intros _. left. rewrite Hm'. reflexivity.
  - rewrite orb_false_r. rewrite (has_lt p m HM). destruct (sb_nread (sub0 m) <? mb_nsent m) eqn:Elt.
    + (* data *)
      apply Nat.ltb_lt in Elt. rewrite (take_ok p m HM Elt). cbv beta iota.
      destruct (read_mb_ok p m HM) as (HM3 & Hs3 & Hc3 & Hk3 & Hn3).
      set (m3 := after_read m (mb_nsent m)) in *.
      change (set_box _ _) with m3.
      set (ms := msgs N (sb_nread (sub0 m)) (mb_nsent m - sb_nread (sub0 m))).
      set (t1 := set_cur_r t (mkR p 0 (mb_nsent m) (mb_nsent m =? S N) ms)).
      set (st3 := wake waits_write p (maybe_wake_gate p (set_mb st p m3))).
      assert (Hlms : length ms = mb_nsent m - sb_nread (sub0 m)).
      { unfold ms. apply msgs_length. pose proof (mo_bound _ _ HM). lia. }
      assert (Hc1 : cur_r t1 = mkR p 0 (mb_nsent m) (mb_nsent m =? S N) ms).
      { unfold t1, cur_r, set_cur_r. cbn. apply nth_upd_eq. rewrite Hrd, Hfi. cbn. lia. }
      assert (Hg3 : forall t', get_mb (set_th st3 tid t') p = m3).
      { intros t'. unfold st3. gets. apply get_mb_set_mb_eq. auto. }
      assert (Hl3 : tid < length (ths st3)) by (unfold st3; lens; auto).
      assert (Ht3 : forall t', get_th (set_th st3 tid t') tid = t') by (intros; apply get_th_set_th_eq; auto).
      assert (HS2 : Sok m3 (get_th st p)) by (eapply Sok_fields; [| | | exact HSp]; auto).
      destruct (Nat.eq_dec tid L) as [EL | NL].
      * (* the caller takes the chunks *)
        intros Hfr Hsh'.
        assert (Ht3L : forall t', get_th (set_th st3 tid t') L = t') by (intros; rewrite <- EL; apply Ht3).
        assert (Hco : consume nt tid t1 = sink_loop nt L t1 ms).
        { unfold consume. change (t_kind t1) with (t_kind t). rewrite Hkind, (Hk2 EL), Hc1, EL. reflexivity. }
        rewrite Hco in *.
        destruct HT as (_ & _ & HT3 & _). destruct (HT3 EL) as (_ & Hcm & Hck & Hrows).
        pose proof (mo_bound _ _ HM) as Hbd.
        assert (B1 : t_kind t1 = KMain relay) by (change (t_kind t1) with (t_kind t); rewrite Hkind; auto).
        assert (B2 : t_fi t1 < length (t_rd t1)).
        { unfold t1, set_cur_r. cbn. rewrite upd_length, Hrd, Hfi. cbn. lia. }
        assert (B3 : t_cnt t1 = sb_nread (sub0 m)) by (change (t_cnt t1) with (t_cnt t); rewrite Hcm, Hn; reflexivity).
        assert (B3' : t_rows t1 = zs (sb_nread (sub0 m))).
        { change (t_rows t1) with (t_rows t). rewrite Hrows, Hcm, Hn. reflexivity. }
        assert (B4 : sb_nread (sub0 m) + (mb_nsent m - sb_nread (sub0 m)) <= S N) by lia.
        assert (B4' : sb_nread (sub0 m) <= N) by (rewrite <- Hn; exact HnN).
        assert (B5 : cmode = false -> ft < L -> sb_nread (sub0 m) + (mb_nsent m - sb_nread (sub0 m)) <= N).
        { intros E E'. assert (mb_nsent m <= N) by (apply (mo_ft _ _ HM); unfold tid in EL; lia). lia. }
        assert (B6 : cmode = true -> sb_nread (sub0 m) <= ck).
        { intros E. specialize (Hck E). rewrite Hcm, Hn in Hck. exact Hck. }
        destruct (main_loop (mb_nsent m - sb_nread (sub0 m)) (sb_nread (sub0 m)) t1 B1 B2 B3 B3' B4 B4' B5 B6)
          as [(Q1 & Qc & Qk & Q2 & Q3 & Q4 & Q5 & Q6) | [Hfire | [Hnot | (G1 & G2 & G3 & G4 & G5)]]].
        -- fold ms in Q1, Qc, Qk, Q2, Q3, Q4, Q5. left. set (t' := sink_loop nt L t1 ms) in *.
           apply (Inv_frame st _ tid p HI Hsh' Hfr); try lia.
           ++ intros _. rewrite Hg3. exact HM3.
           ++ intros _ _. rewrite Hg3. exact HS2.
           ++ intros q Hq. assert (q = p) by (unfold tid in Hq; lia). subst q. rewrite Hg3, Ht3.
              unfold Rok, rcore. rewrite Q1, Q4, Hc1, Hs3. cbn. rewrite msgs_0.
              repeat split; auto; try lia; try (symmetry; apply Nat.eqb_neq; lia).
           ++ rewrite Ht3. unfold Tok. rewrite Q1, Q2, Q3, Q4, Q5, Qc, Hc1.
              change (t_fi t1) with (t_fi t). change (t_nstop t1) with (t_nstop t). cbn [r_next r_set_buf].
              repeat split; auto; try lia; try (intros E; specialize (Qk E); lia); try (f_equal; lia).
           ++ intros _. left. rewrite Hg3. exact Hc3.
        -- fold ms in Hfire. right. left. split; [exact Hsh'|]. rewrite Ht3L. exact Hfire.
        -- fold ms in Hnot. right. right. left. unfold noticed. rewrite Ht3L, Hnot. reflexivity.
        -- fold ms in G3, G4. right. right. right. split; [exact EL|].
           split; [exact Hsh'|]. split; [exact G1|]. split; [exact G2|].
           assert (Hclm : mb_closed m = true).
           { rewrite (mo_closed _ _ HM). apply Nat.eqb_eq. lia. }
           assert (Hall : forall j, j < L -> t_pc (get_th st j) = PDone).
           { intros j Hj. assert (Hcj : mb_closed (get_mb st j) = true).
             { apply (all_closed st HI); auto. replace (L - 1) with p by (unfold tid in EL; lia). exact Hclm. }
             destruct (Hmb j Hj) as [_ [[HSj _] _]]. auto. }
           split; [|rewrite Ht3L; auto].
           intros j Hj. rewrite <- (Hall j Hj).
           assert (Hw' : weq (get_th st j) (get_th (set_th st3 tid (sink_loop nt L t1 ms)) j)).
           { eapply fr_get_th; eauto; lia. }
           destruct Hw' as [-> | ->]; reflexivity.
      * (* a stage goes on with its loop *)
        assert (HtL : tid < L) by lia. intros Hfr Hsh'. left.
        destruct (Hmb tid HtL) as [HMt [HSt _]]. fold t in HSt.
        destruct HT as (_ & _ & _ & HT4). destruct (HT4 HtL) as (_ & _ & HTc & HTl).
        assert (Hlink : t_cnt t = head_no t /\ head_no t <= N).
        { specialize (HTl (le_n_S _ _ (Nat.le_0_l p))). rewrite Hpc in HTl. destruct resume; exact HTl. }
        assert (Hrdy : ready tid t1).
        { unfold ready, head_no. rewrite Hc1. cbn [r_buf r_next r_last]. rewrite Hlms.
          change (t_fi t1) with (t_fi t). change (t_nstop t1) with (t_nstop t). change (t_cnt t1) with (t_cnt t).
          replace (mb_nsent m - (mb_nsent m - sb_nread (sub0 m))) with (sb_nread (sub0 m)) by lia.
          split.
          { unfold t1. rewrite tsig_set_cur_r; [rewrite Hsig, (Hk1 HtL); reflexivity|].
            unfold rsig. cbn. rewrite Hrmb, Hrsub. reflexivity. }
          split; auto. split; auto. split; auto.
          intros _. pose proof (mo_bound _ _ HM). unfold head_no in Hlink. rewrite Hbuf, Hn in Hlink. cbn in Hlink.
          repeat split; auto; try lia.
          intros Hf. apply (mo_ft _ _ HM). unfold tid in Hf. lia. }
        destruct (consume_stage tid t1 HtL Hrdy) as [PT [PR PS]].
        set (t' := consume nt tid t1) in *.
        assert (Hmt : get_mb (set_th st3 tid t') tid = get_mb st tid) by (apply (proj2 Hfr); unfold tid; lia).
        apply (Inv_frame st _ tid p HI Hsh' Hfr); try lia.
        -- intros _. rewrite Hg3. exact HM3.
        -- intros _. rewrite Hmt, Ht3.
           assert (Hclt : mb_closed (get_mb st tid) = false).
           { apply (Sok_closedfalse_pc _ t); auto. rewrite Hpc. destruct resume; discriminate. }
           apply PS; auto. intros Hnk. change (t_cnt t1) with (t_cnt t). split.
           ++ destruct HSt as [_ H2]. specialize (H2 Hnk). rewrite Hpc in H2. destruct resume; exact H2.
           ++ apply (Mok_nsent_le tid); auto.
        -- intros _ _. rewrite Hg3. exact HS2.
        -- intros q Hq. assert (q = p) by (unfold tid in Hq; lia). subst q. rewrite Hg3, Ht3.
           apply PR; [unfold tid; lia | rewrite Hc1, Hs3; reflexivity | rewrite Hs3; reflexivity].
        -- rewrite Ht3. exact PT.
        -- intros _. left. rewrite Hg3. exact Hc3.
    + (* nothing there yet *)
      destruct resume.
      * intros _ Hsh'. left. apply Inv_sim; auto. apply sim_woken.
      * set (x := sub_set_wait (get_sub m 0) (Some (sb_nread (sub0 m)))).
        assert (Hx : sb_nread x = sb_nread (sub0 m)) by reflexivity.
        destruct (Mok_set_sub p m x HM Hx) as [HM1 Hs1].
        set (m1 := set_sub m 0 x) in *.
        set (t' := set_woken (set_pc t PReadWait) false) in *.
        set (st2 := maybe_wake_gate p (set_mb st p m1)) in *.
        intros Hfr Hsh'. left.
        assert (Hm' : get_mb (set_th st2 tid t') p = m1) by (unfold st2; gets; apply get_mb_set_mb_eq; auto).
        assert (Ht' : get_th (set_th st2 tid t') tid = t') by (apply get_th_set_th_eq; unfold st2; lens; auto).
        apply (Inv_frame st _ tid p HI Hsh' Hfr); try lia.
        -- intros _. rewrite Hm'. exact HM1.
        -- intros HtL. rewrite Ht'. rewrite (proj2 Hfr) by (unfold tid; lia). apply Sok_rw; auto.
           apply (Hmb tid HtL).
        -- intros _ _. rewrite Hm'. eapply Sok_fields; [| | | exact HSp]; reflexivity.
        -- intros q Hq. assert (q = p) by (unfold tid in Hq; lia). subst q. rewrite Hm', Ht'.
           apply (Rok_intro m m1 t); [exact Hrc | reflexivity | rewrite Hs1; exact Hx | |].
           ++ rewrite Hs1. unfold t'. cbn [t_pc set_pc set_woken]. unfold x. cbn [sb_wait sub_set_wait]. rewrite Hn. reflexivity.
           ++ unfold t'. cbn [t_pc set_pc set_woken]. auto.
        -- rewrite Ht'. apply Tok_rw; auto.
        -- intros _. left. rewrite Hm'. reflexivity.
Qed.

(* ---------- one step ---------- *)
Lemma noticed_settle tid X : L < length (ths X) -> noticed L X c -> noticed L (settle nt tid X) c.
Proof.
  intros Hl Hn. unfold settle. destruct (t_pc (get_th X tid)) eqn:E; auto.
  destruct (Nat.eq_dec tid L) as [->|Hne].
  - unfold noticed in Hn. rewrite E in Hn. destruct exc as [c'|]; [|contradiction]. subst c'.
    destruct (first_alive _ _ _); unfold noticed; rewrite get_th_set_th_eq by auto; reflexivity.
  - destruct (first_alive _ _ _); unfold noticed; rewrite get_th_set_th_neq by auto; exact Hn.
Qed.

Lemma Tok_not_join i t : i <= L -> Tok i t -> forall k exc, t_pc t <> PJoin k exc.
Proof.
  intros Hi (_ & _ & H3 & H4) k exc E. destruct (Nat.eq_dec i L) as [->|Hne].
  - destruct (H3 eq_refl) as [[X|X] _]; congruence.
  - destruct H4 as [H4 _]; [lia|]. rewrite E in H4. exact H4.
Qed.

Lemma enter_killall_c : enter_killall nt c = PKillAll 0 c.
Proof. unfold enter_killall. destruct (n_kill nt); [contradiction | reflexivity]. Qed.

(* the run is over: everything delivered *)
Definition finished (st : nstate) : Prop :=
  cmode = false /\ ft = L /\ all_terminal st = true /\ main_outcome st L = Some (OOk (zs N)).

Lemma first_alive_none_all st order : (forall x, In x order -> terminal (get_th st x) = true) ->
  forall idx, first_alive st order idx = None.
Proof.
  induction order as [|x rest IH]; intros H idx; cbn; auto.
  rewrite (H x) by (left; auto). apply IH. intros y Hy. apply H. right. auto.
Qed.

Lemma all_terminal_intro st : (forall i, i < length (ths st) -> terminal (get_th st i) = true) -> all_terminal st = true.
Proof.
  intros H. unfold all_terminal. apply forallb_forall. intros t Hin.
  destruct (In_nth _ _ dflt_th Hin) as [i [Hi E]]. rewrite <- E. apply (H i Hi).
Qed.

Lemma Inv_step st tid st' :
  Inv st -> nstep nt st tid = Some st' -> Inv st' \/ firing st' \/ noticed L st' c \/ finished st'.
Proof.
  intros HI Hstep. pose proof HI as [Hsh [Hmb [Hth Hcc]]].
  unfold nstep in Hstep. destruct (nth_error (ths st) tid) as [t|] eqn:Et; [|discriminate].
  destruct (t_enabled nt st t) eqn:Een; [|discriminate]. inversion Hstep; subst st'. clear Hstep.
  assert (Hlt : tid < length (ths st)) by (apply nth_error_Some; congruence).
  assert (Htid : tid <= L) by (rewrite (sh_nt _ Hsh) in Hlt; lia).
  pose proof (get_th_nth _ _ _ Et) as Hg. subst t.
  assert (HshX : shape (thread_step nt tid st (get_th st tid))).
  { apply (shape_sig st); [apply (sig_thread_step nt tid st _ Et) | auto]. }
  assert (HlX : length (ths (thread_step nt tid st (get_th st tid))) = S L).
  { destruct (sig_lengths _ _ (sig_thread_step nt tid st _ Et)) as [_ Hl]. rewrite Hl, (sh_nt _ Hsh). reflexivity. }
  pose proof (Hth tid Htid) as HT.
  assert (HX : Inv (thread_step nt tid st (get_th st tid)) \/ firing (thread_step nt tid st (get_th st tid)) \/
               noticed L (thread_step nt tid st (get_th st tid)) c \/
               (tid = L /\ stopping (thread_step nt tid st (get_th st tid)))).
  { destruct HT as (_ & _ & HT3 & HT4).
    assert (Hstage : t_pc (get_th st tid) <> PRead -> t_pc (get_th st tid) <> PReadWait -> tid < L).
    { intros H1 H2. destruct (Nat.eq_dec tid L) as [E|E]; [|lia]. destruct (HT3 E) as [[X|X] _]; contradiction. }
    assert (Hrd : t_pc (get_th st tid) = PRead \/ t_pc (get_th st tid) = PReadWait -> exists p, tid = S p /\ p < L).
    { intros H. destruct tid as [|p]; [|exists p; split; auto; lia].
      exfalso. destruct HT4 as [H4 _]; [lia|]. destruct H as [H|H]; rewrite H in H4; lia. }
    unfold thread_step in *. unfold t_enabled in Een.
    destruct (t_pc (get_th st tid)) eqn:Hpc; try discriminate.
    - left. apply (gate_case st tid false oi); auto. apply Hstage; discriminate.
    - left. apply (gate_case st tid true oi); auto. apply Hstage; discriminate.
    - destruct Hrd as [p [-> Hp]]; auto. apply (read_case st p false); auto.
    - destruct Hrd as [p [-> Hp]]; auto. apply (read_case st p true); auto.
    - left. apply (send_case st tid false oi m closing); auto. apply Hstage; discriminate.
    - left. apply (send_case st tid true oi m closing); auto. apply Hstage; discriminate.
    - left. apply (killout_case st tid oi e); auto. apply Hstage; discriminate.
    - exfalso. destruct HT4 as [H4 _]; [apply Hstage; discriminate | exact H4].
    - exfalso. destruct HT4 as [H4 _]; [apply Hstage; discriminate | exact H4].
    - exfalso. destruct HT4 as [H4 _]; [apply Hstage; discriminate | exact H4]. }
  destruct HX as [HIX | [HfX | [HnX | [EL HsX]]]].
  - left. rewrite settle_other; auto.
    intros k exc. apply (Tok_not_join tid); auto. destruct HIX as [_ [_ [H _]]]. apply H. auto.
  - destruct HfX as [_ [e [E1 [E2 E3]]]].
    destruct (Nat.eq_dec tid L) as [->|Hne].
    + right. left. rewrite settle_other by (intros k exc; rewrite E1; discriminate).
      split; auto. exists e. auto.
    + right. left. split; [apply (shape_sig (thread_step nt tid st (get_th st tid))); [apply sig_settle | auto]|].
      exists e. rewrite (pe_get_th tid _ _ L (pe_settle nt tid _)) by auto. auto.
  - right. right. left. apply noticed_settle; auto. rewrite HlX. lia.
  - right. right. right. subst tid. destruct HsX as (_ & G1 & G2 & Gall & Gpc & Grows).
    set (X := thread_step nt L st (get_th st L)) in *.
    assert (Hterm : forall x, x <> L -> terminal (get_th X x) = true).
    { intros x Hx. destruct (Nat.lt_ge_cases x L) as [H|H].
      - unfold terminal. rewrite (Gall x H). reflexivity.
      - unfold get_th. rewrite nth_overflow by lia. reflexivity. }
    unfold settle. rewrite Gpc. cbn [skipn].
    rewrite first_alive_none_all by (intros x Hx; apply Hterm; apply Hjoin; auto).
    unfold final_outcome. rewrite Hsav. cbn [saver_check]. rewrite Grows.
    split; auto. split; auto. split.
    + apply all_terminal_intro. rewrite length_ths_set_th. intros i Hi.
      destruct (Nat.eq_dec i L) as [->|Hne].
      * rewrite get_th_set_th_eq by lia. reflexivity.
      * rewrite get_th_set_th_neq by auto. apply Hterm. auto.
    + unfold main_outcome. rewrite get_th_set_th_eq by lia. reflexivity.
Qed.

Lemma finished_run sched : forall st st', finished st -> nrun nt st sched = Some st' -> st' = st.
Proof.
  destruct sched as [|t rest]; intros st st' HF Hr; cbn in Hr; [inversion Hr; auto|].
  exfalso. destruct HF as (_ & _ & Hat & _). unfold nstep in Hr.
  destruct (nth_error (ths st) t) as [t0|] eqn:E; [|discriminate].
  assert (Ht0 : terminal t0 = true).
  { unfold all_terminal in Hat. rewrite forallb_forall in Hat. apply Hat. eapply nth_error_In; eauto. }
  assert (Hen : t_enabled nt st t0 = false).
  { unfold terminal in Ht0. unfold t_enabled. destruct (t_pc t0); try discriminate; reflexivity. }
  rewrite Hen in Hr. discriminate.
Qed.

(* from the firing state: the caller's next step kills its input and enters kill-all with c *)
Lemma firing_step st tid st' : firing st -> nstep nt st tid = Some st' -> firing st' \/ noticed L st' c.
Proof.
  intros [Hsh [e [E1 [E2 E3]]]] Hstep.
  assert (Hsh' : shape st') by (apply (shape_sig st); [apply (sig_step _ _ _ _ Hstep) | auto]).
  destruct (Nat.eq_dec tid L) as [->|Hne].
  - right. unfold nstep in Hstep. destruct (nth_error (ths st) L) as [t|] eqn:Et; [|discriminate].
    destruct (t_enabled nt st t); [|discriminate]. inversion Hstep; subst st'. clear Hstep.
    pose proof (get_th_nth _ _ _ Et) as Hg. subst t.
    assert (Hlt : L < length (ths st)) by (rewrite (sh_nt _ Hsh); lia).
    assert (Hk : t_kind (get_th st L) = KMain relay).
    { pose proof (sh_main _ Hsh) as Hs. unfold tsig in Hs. congruence. }
    unfold thread_step. rewrite E1. unfold killin_region. rewrite E3. cbn [andb]. rewrite Hk, E2, enter_killall_c.
    rewrite settle_other.
    + unfold noticed. rewrite get_th_set_th_eq by (rewrite len_kill_mb; auto). reflexivity.
    + intros k exc. rewrite get_th_set_th_eq by (rewrite len_kill_mb; auto). discriminate.
  - left. split; auto. exists e. pose proof (pe_step _ _ _ _ Hstep) as Hpe.
    rewrite (pe_get_th tid st st' L Hpe) by auto. auto.
Qed.

Lemma firing_run sched : forall st st', firing st -> nrun nt st sched = Some st' ->
  firing st' \/ exists s1 s2 st1, sched = s1 ++ s2 /\ nrun nt st s1 = Some st1 /\ noticed L st1 c /\ nrun nt st1 s2 = Some st'.
Proof.
  induction sched as [|t rest IH]; intros st st' HF Hr; cbn in Hr.
  - inversion Hr; subst. auto.
  - destruct (nstep nt st t) as [sa|] eqn:E; [|discriminate].
    destruct (firing_step _ _ _ HF E) as [HFa | Hn].
    + destruct (IH _ _ HFa Hr) as [H | (s1 & s2 & st1 & -> & H1 & H2 & H3)]; auto.
      right. exists (t :: s1), s2, st1. cbn. rewrite E. auto.
    + right. exists [t], rest, sa. cbn. rewrite E. auto.
Qed.

Lemma Inv_run sched : forall st st', Inv st -> nrun nt st sched = Some st' ->
  Inv st' \/ firing st' \/
  (exists s1 s2 st1, sched = s1 ++ s2 /\ nrun nt st s1 = Some st1 /\ noticed L st1 c /\ nrun nt st1 s2 = Some st') \/
  finished st'.
Proof.
  induction sched as [|t rest IH]; intros st st' HI Hr; cbn in Hr.
  - inversion Hr; subst. auto.
  - destruct (nstep nt st t) as [sa|] eqn:E; [|discriminate].
    destruct (Inv_step _ _ _ HI E) as [HIa | [HFa | [Hn | Hfin]]].
    + destruct (IH _ _ HIa Hr) as [H | [H | [(s1 & s2 & st1 & -> & H1 & H2 & H3) | H]]]; auto.
      right. right. left. exists (t :: s1), s2, st1. cbn. rewrite E. auto.
    + destruct (firing_run rest _ _ HFa Hr) as [H | (s1 & s2 & st1 & -> & H1 & H2 & H3)]; auto.
      right. right. left. exists (t :: s1), s2, st1. cbn. rewrite E. auto.
    + right. right. left. exists [t], rest, sa. cbn. rewrite E. auto.
    + right. right. right. rewrite (finished_run rest _ _ Hfin Hr). exact Hfin.
Qed.

(* ---------- no deadlock before the caller has noticed ---------- *)
Lemma nth_get st i : i < length (ths st) -> nth_error (ths st) i = Some (get_th st i).
Proof.
  intros H. destruct (nth_error (ths st) i) as [t|] eqn:E.
  - rewrite (get_th_nth _ _ _ E). reflexivity.
  - apply nth_error_None in E. lia.
Qed.

Lemma reader_sig st j : shape st -> j < L -> exists k, tsig (get_th st (S j)) = (k, [(j, 0)]).
Proof.
  intros Hsh Hj. destruct (Nat.eq_dec (S j) L) as [E|E].
  - exists (KMain relay). rewrite E, (sh_main _ Hsh). replace (L - 1) with j by lia. reflexivity.
  - exists (KStage N (S j)). rewrite (sh_st _ Hsh (S j)) by lia. reflexivity.
Qed.

Section Quiet.
Variable st : nstate.
Hypothesis HI : Inv st.
Hypothesis HW : Wn st.
Hypothesis Hq : quiescent nt st.

Lemma q_disabled i : i <= L -> t_enabled nt st (get_th st i) = false.
Proof.
  intros Hi. destruct HI as [Hsh _]. specialize (Hq i). unfold nenabled in Hq.
  rewrite nth_get in Hq by (rewrite (sh_nt _ Hsh); lia). exact Hq.
Qed.
Lemma q_tok i : i <= L -> tok st (get_th st i).
Proof.
  intros Hi. destruct HI as [Hsh _]. destruct HW as [H _]. apply (H i).
  apply nth_get. rewrite (sh_nt _ Hsh). lia.
Qed.

Lemma stuck_step j :
  j < L -> (forall j', S j' = j -> t_pc (get_th st (S j')) = PReadWait -> False) ->
  t_pc (get_th st (S j)) = PReadWait -> False.
Proof.
  intros Hj IH Hpc. pose proof HI as [Hsh [Hmb [Hth Hcc]]].
  destruct (Hmb j Hj) as [HM [HS HR]].
  pose proof (Hth j (Nat.lt_le_incl _ _ Hj)) as HTs.
  pose proof (Hth (S j) Hj) as HTr.
  set (r := get_th st (S j)) in *. set (s := get_th st j) in *. set (m := get_mb st j) in *.
  assert (Hren : t_enabled nt st r = false) by (apply q_disabled; lia).
  unfold t_enabled in Hren. rewrite Hpc in Hren.
  assert (Htr : tok st r) by (apply q_tok; lia).
  destruct Htr as [Hwo _]. specialize (Hwo Hren). unfold wait_ok in Hwo. rewrite Hpc in Hwo.
  destruct (reader_sig st j Hsh Hj) as [k Hsig]. fold r in Hsig.
  assert (Hfi : t_fi r = 0) by apply HTr.
  destruct (cur_r_of r k j Hsig Hfi) as [_ [Hrmb _]].
  rewrite Hrmb in Hwo. fold m in Hwo. destruct Hwo as [Hno Hnk].
  destruct HR as [[Hn _] [Hw Hrdp]]. rewrite Hpc in Hw, Hrdp. destruct Hrdp as [_ HnN].
  rewrite Hn in Hno. rewrite (has_lt j m HM) in Hno. apply Nat.ltb_ge in Hno.
  pose proof (mo_le _ _ HM) as Hle. assert (Heq : mb_nsent m = sb_nread (sub0 m)) by lia.
  assert (Hsen : t_enabled nt st s = false) by (apply q_disabled; lia).
  assert (Hts : tok st s) by (apply q_tok; lia).
  destruct Hts as [Hswo _].
  destruct HS as [_ HS]. specialize (HS Hnk).
  assert (Hk : t_kind s = KStage N j).
  { pose proof (sh_st _ Hsh j Hj) as Hs. unfold tsig, stage_sig in Hs. fold s in Hs. congruence. }
  destruct (sh_mb _ Hsh j Hj) as [cap [Hms Hcap]]. fold m in Hms. unfold msig in Hms.
  rewrite (mo_subs _ _ HM) in Hms. cbn in Hms.
  assert (Hdrive : sb_drive (sub0 m) = true) by congruence.
  assert (Hcapm : mb_cap m = cap) by congruence.
  unfold t_enabled in Hsen. unfold wait_ok in Hswo.
  destruct (t_pc s) eqn:Eps; try discriminate; try contradiction.
  - (* waiting at the fetch gate: the reader is waiting for a message that is not there, so _can_fetch holds *)
    specialize (Hswo Hsen). rewrite (out_mb_stage _ _ _ _ Hk) in Hswo. fold m in Hswo.
    unfold mb_can_fetch in Hswo. rewrite Hnk, (mo_subs _ _ HM) in Hswo. cbn [existsb] in Hswo.
    unfold sb_waits_in, sb_drives in Hswo. rewrite Hw, Hn, (has_lt j m HM), Hdrive in Hswo.
    replace (sb_nread (sub0 m) <? mb_nsent m) with false in Hswo by (symmetry; apply Nat.ltb_ge; lia).
    cbn in Hswo. discriminate.
  - (* waiting for its own input: one mailbox further up *)
    destruct HTs as (_ & _ & _ & H4). destruct (H4 Hj) as [H5 _]. rewrite Eps in H5.
    destruct j as [|j']; [lia|]. apply (IH j'); auto.
  - (* waiting for room: the box is empty *)
    specialize (Hswo Hsen). rewrite (out_mb_stage _ _ _ _ Hk) in Hswo. fold m in Hswo.
    unfold mb_can_write, mb_room in Hswo. rewrite Hnk, orb_false_r in Hswo.
    rewrite (mo_box _ _ HM) in Hswo. rewrite seg_length in Hswo by (rewrite MS_length; pose proof (mo_bound _ _ HM); lia).
    apply Nat.ltb_ge in Hswo. lia.
  - (* done: the end marker is in the box *)
    pose proof (mo_closed _ _ HM) as Hc. rewrite HS in Hc. symmetry in Hc. apply Nat.eqb_eq in Hc. lia.
Qed.

Lemma reader_never_stuck j : j < L -> t_pc (get_th st (S j)) = PReadWait -> False.
Proof.
  induction j as [|j' IH]; intros Hj Hpc.
  - apply (stuck_step 0 Hj); auto. intros j' E. discriminate.
  - apply (stuck_step (S j') Hj); auto. intros j'' E. injection E as ->. apply IH. lia.
Qed.

Lemma no_deadlock : False.
Proof.
  pose proof HI as [Hsh [Hmb [Hth Hcc]]].
  destruct (Hth L (le_n _)) as (_ & _ & H3 & _).
  pose proof (q_disabled L (le_n _)) as Hen. unfold t_enabled in Hen.
  destruct (H3 eq_refl) as [[E|E] _]; rewrite E in Hen; [discriminate|].
  apply (reader_never_stuck (L - 1)); [lia|]. replace (S (L - 1)) with L by lia. exact E.
Qed.
End Quiet.

(* ---------- the initial state and the theorem for any wiring of this shape ---------- *)
Section Init.
Variables (boxes : list mbox) (threads : list thread).
Hypothesis Hlb : length boxes = L.
Hypothesis Hlt : length threads = S L.
Hypothesis Hbox : forall j, j < L -> exists cap, nth j boxes dflt_mb = mk_mbox cap lz [true] /\ 1 <= cap.
Hypothesis Hstg : forall i, i < L ->
  nth i threads dflt_th = mk_thread (KStage N i) (match i with O => [] | S p => [(p, 0)] end).
Hypothesis Hmain : nth L threads dflt_th = mk_thread (KMain relay) [(L - 1, 0)].

Let st0 := mkSt boxes threads.

Lemma shape0 : shape st0.
Proof.
  split; auto.
  - intros i Hi. unfold get_th, st0. cbn [ths]. rewrite Hstg by auto. destruct i; reflexivity.
  - unfold get_th, st0. cbn [ths]. rewrite Hmain. reflexivity.
  - intros j Hj. destruct (Hbox j Hj) as [cap [E Hc]]. exists cap. split; auto.
    unfold get_mb, st0. cbn [mbs]. rewrite E. reflexivity.
Qed.

Lemma Mok0 j cap : Mok j (mk_mbox cap lz [true]).
Proof. split; cbn; auto; try lia; try discriminate. Qed.

Lemma Inv_init : Inv (ninit nt boxes threads).
Proof.
  unfold ninit. fold st0. destruct (start_all_spec nt st0) as [Hm [Hl Hth]].
  assert (Hsh : shape (start_all nt st0)) by (apply (shape_sig st0); [apply sig_start_all | apply shape0]).
  assert (Hgm : forall j, get_mb (start_all nt st0) j = get_mb st0 j) by (intros; unfold get_mb; rewrite Hm; reflexivity).
  assert (Hg0 : forall i, i < L -> get_th st0 i = mk_thread (KStage N i) (match i with O => [] | S p => [(p, 0)] end)).
  { intros i Hi. unfold get_th, st0. cbn [ths]. auto. }
  assert (Hstage : forall i, i < L -> post i (get_th st0 i) (get_th (start_all nt st0) i)).
  { intros i Hi. rewrite Hth by (unfold st0; cbn [ths]; lia). apply loop_start_stage; auto.
    rewrite Hg0 by auto. unfold ready, head_no, cur_r, mk_thread. cbn.
    destruct i as [|p]; cbn; rewrite ?msgs_0; repeat split; auto; try lia. }
  assert (Hmn : t_pc (get_th (start_all nt st0) L) = PRead /\ t_fi (get_th (start_all nt st0) L) = 0 /\
                t_nstop (get_th (start_all nt st0) L) = 0 /\
                cur_r (get_th (start_all nt st0) L) = mkR (L - 1) 0 0 false [] /\
                t_cnt (get_th (start_all nt st0) L) = 0 /\ t_rows (get_th (start_all nt st0) L) = []).
  { rewrite Hth by (unfold st0; cbn [ths]; lia). unfold get_th, st0. cbn [ths]. rewrite Hmain. cbn. auto 10. }
  destruct Hmn as (Q1 & Q2 & Q3 & Q4 & Q5 & Q6).
  split; [auto|]. split; [|split].
  - intros j Hj. rewrite Hgm. destruct (Hbox j Hj) as [cap [E Hc]].
    assert (Em : get_mb st0 j = mk_mbox cap lz [true]) by (unfold get_mb, st0; cbn [mbs]; auto).
    rewrite Em. split; [apply Mok0|]. split.
    + destruct (Hstage j Hj) as [_ [_ PS]]. apply PS; [reflexivity|]. intros _. rewrite Hg0 by auto. cbn. split; lia.
    + destruct (Nat.eq_dec (S j) L) as [E1|E1].
      * rewrite E1. unfold Rok, rcore. rewrite Q1, Q4. cbn. rewrite msgs_0. repeat split; auto; lia.
      * destruct (Hstage (S j)) as [_ [PR _]]; [lia|]. apply PR; [lia | | reflexivity].
        rewrite Hg0 by lia. reflexivity.
  - intros i Hi. destruct (Nat.eq_dec i L) as [->|E].
    + unfold Tok. rewrite Q1, Q2, Q3, Q4, Q5, Q6. cbn. repeat split; auto; lia.
    + destruct (Hstage i) as [PT _]; [lia|]. exact PT.
  - intros j Hj Hc. rewrite Hgm in Hc. destruct (Hbox (S j) Hj) as [cap [E _]].
    unfold get_mb, st0 in Hc. cbn [mbs] in Hc. rewrite E in Hc. discriminate.
Qed.

Hypothesis Hcov : cover nt st0 L.

Theorem chain_core : forall sched st,
  nrun nt (ninit nt boxes threads) sched = Some st -> quiescent nt st ->
  all_terminal st = true /\
  (main_outcome st L = Some (OErr (EOrig c)) \/
   (cmode = false /\ ft = L /\ main_outcome st L = Some (OOk (zs N)))).
Proof.
  intros sched st Hr Hq.
  assert (Hthr : forall t, In t threads ->
            plain_pc (t_pc t) /\ ~ main_pc (t_pc t) /\ forall r, In r (t_rd t) -> r_buf r = []).
  { intros t Hin. destruct (In_nth _ _ dflt_th Hin) as [i [Hi E]]. rewrite Hlt in Hi.
    destruct (Nat.eq_dec i L) as [->|Hne].
    - rewrite Hmain in E. subst t. cbn. split; [exact I|]. split; [tauto|]. intros r [<-|[]]. reflexivity.
    - rewrite Hstg in E by lia. subst t. cbn. split; [exact I|]. split; [tauto|].
      destruct i; cbn; intros r Hr'; [contradiction | destruct Hr' as [<-|[]]; reflexivity]. }
  assert (Hbx : forall m, In m boxes -> mb_box m = []).
  { intros m Hin. destruct (In_nth _ _ dflt_mb Hin) as [j [Hj E]]. rewrite Hlb in Hj.
    destruct (Hbox j Hj) as [cap [E2 _]]. rewrite E2 in E. subst m. reflexivity. }
  destruct (Inv_run sched _ _ Inv_init Hr) as [HIst | [HFst | [(s1 & s2 & st1 & -> & H1 & H2 & H3) | Hfin]]].
  - exfalso. apply (no_deadlock st HIst); auto.
    apply (Wn_reachable nt boxes threads sched st); auto. intros t Hin. apply (Hthr t Hin).
  - exfalso. destruct HFst as [Hsh [e [E1 _]]]. specialize (Hq L). unfold nenabled in Hq.
    rewrite nth_get in Hq by (rewrite (sh_nt _ Hsh); lia). unfold t_enabled in Hq. rewrite E1 in Hq. discriminate.
  - destruct (shutdown_theorem nt L boxes threads Hcov Hthr Hbx s1 st1 c H1 H2 s2 st H3 Hq) as [A B]. auto.
  - destruct Hfin as (A & B & C & D). auto 6.
Qed.
End Init.

End Chain.

(* ---------- chains exactly as ThreadedMailboxProcessor wires them (Model/C06Nets.v), without savers ---------- *)
Lemma sum_first_zero L : forall i, sum_first (repeat 0 L) i = 0.
Proof. induction L as [|L IH]; intros [|i]; cbn; auto. Qed.
Lemma nth_repeat0 L : forall i, nth i (repeat 0 L) 0 = 0.
Proof. induction L as [|L IH]; intros [|i]; cbn; auto. Qed.
Lemma flat_map_nil {A B} (f : A -> list B) l : (forall x, In x l -> f x = []) -> flat_map f l = [].
Proof. induction l as [|a l IH]; cbn; auto. intros H. rewrite H by auto. rewrite IH; auto. Qed.

Section NoSavers.
Variable sp : chain_spec.
Let L := length (ch_caps sp).
Hypothesis Hv : valid_chain sp.
Hypothesis Hns : ch_nsav sp = repeat 0 L.

Lemma ns_nth i : nth i (ch_nsav sp) 0 = 0.
Proof. rewrite Hns. apply nth_repeat0. Qed.

Lemma ns_threads :
  chain_threads sp = map (chain_stage sp) (seq 0 L) ++ [mk_thread (KMain (ch_relay sp)) [(L - 1, 0)]].
Proof.
  unfold chain_threads. rewrite flat_map_nil.
  - rewrite ns_nth. reflexivity.
  - intros x _. unfold chain_savers_of. rewrite ns_nth. reflexivity.
Qed.

Lemma ns_stage i : i < L -> nth i (chain_threads sp) dflt_th = chain_stage sp i.
Proof.
  intros Hi. rewrite ns_threads, app_nth1 by (rewrite map_length, seq_length; auto).
  rewrite (nth_indep _ dflt_th (chain_stage sp 0)) by (rewrite map_length, seq_length; auto).
  rewrite map_nth, seq_nth by auto. reflexivity.
Qed.
Lemma ns_main : nth L (chain_threads sp) dflt_th = mk_thread (KMain (ch_relay sp)) [(L - 1, 0)].
Proof.
  rewrite ns_threads, app_nth2 by (rewrite map_length, seq_length; auto).
  rewrite map_length, seq_length, Nat.sub_diag. reflexivity.
Qed.
Lemma ns_len : length (chain_threads sp) = S L.
Proof. rewrite ns_threads, app_length, map_length, seq_length. cbn. lia. Qed.
Lemma ns_nth_error i t : nth_error (chain_threads sp) i = Some t ->
  (i < L /\ t = chain_stage sp i) \/ (i = L /\ t = mk_thread (KMain (ch_relay sp)) [(L - 1, 0)]).
Proof.
  intros H. assert (Hi : i < S L) by (rewrite <- ns_len; apply nth_error_Some; congruence).
  pose proof (nth_error_nth_dflt _ _ dflt_th _ H) as E.
  destruct (Nat.eq_dec i L) as [->|Hne].
  - right. rewrite ns_main in E. auto.
  - left. rewrite ns_stage in E by lia. split; [lia | auto].
Qed.

Lemma ns_box j : j < L ->
  nth j (chain_boxes sp) dflt_mb = mk_mbox (nth j (ch_caps sp) 1) (ch_lazy sp) [true].
Proof.
  intros Hj. unfold chain_boxes.
  rewrite (nth_indep _ dflt_mb (chain_box sp 0)) by (rewrite map_length, seq_length; auto).
  rewrite map_nth, seq_nth by auto. cbn [Nat.add]. unfold chain_box. rewrite ns_nth. cbn [repeat].
  destruct (S j <? length (ch_caps sp)); reflexivity.
Qed.

Lemma ns_core fault cfault ft fp c (cmode : bool) ck (ccl : bool) cx :
  ft <= L -> fp <= ch_N sp ->
  (forall i k, i < L -> fault_at (chain_net sp true fault cfault) i k = if (ft =? i) && (fp =? k) then Some c else None) ->
  cfault = (if cmode then Some (ck, ccl, cx) else None) ->
  (if cmode then ft = L /\ ck < ch_N sp /\
                 c = (if ccl then (if ch_relay sp then C_OUTSIDE else C_GENEXIT) else cx) /\ true = true
   else True) ->
  forall sched st, nrun (chain_net sp true fault cfault) (chain_init sp true fault cfault) sched = Some st ->
    quiescent (chain_net sp true fault cfault) st ->
    all_terminal st = true /\
    (main_outcome st (chain_main sp) = Some (OErr (EOrig c)) \/
     (cmode = false /\ ft = L /\ main_outcome st (chain_main sp) = Some (OOk (zs (ch_N sp))))) /\
    (forall i t, nth_error (ths st) i = Some t -> is_saver t = false).
Proof.
  intros Hft Hfp Hfault Hcfault Hmode sched st Hr Hq.
  assert (Hmain : chain_main sp = L).
  { unfold chain_main. rewrite Hns. fold L. rewrite sum_first_zero. lia. }
  rewrite Hmain.
  destruct Hv as [HL [Hlen Hcaps]]. fold L in HL.
  set (nt := chain_net sp true fault cfault) in *.
  assert (Hlb : length (chain_boxes sp) = L) by (unfold chain_boxes; rewrite map_length, seq_length; reflexivity).
  assert (Hkillne : n_kill nt <> []).
  { cbn. intros E. assert (H0 : length (seq 0 (length (ch_caps sp))) = 0) by (rewrite E; reflexivity).
    rewrite seq_length in H0. unfold L in HL. lia. }
  assert (Hbox : forall j, j < L -> exists cap, nth j (chain_boxes sp) dflt_mb = mk_mbox cap (ch_lazy sp) [true] /\ 1 <= cap).
  { intros j Hj. exists (nth j (ch_caps sp) 1). split; [apply ns_box; auto|]. apply Hcaps. apply nth_In. auto. }
  assert (Hcov : cover nt (mkSt (chain_boxes sp) (chain_threads sp)) L).
  { split.
    - reflexivity.
    - cbn [mbs]. lia.
    - intros j Hj. cbn [mbs] in Hj. cbn. apply in_seq. fold L. lia.
    - intros j Hj. cbn in Hj. apply in_seq in Hj. cbn [mbs]. fold L in Hj. lia.
    - intros i Hi Hne. cbn [ths] in Hi. rewrite ns_len in Hi. cbn. unfold chain_join. apply in_flat_map.
      exists i. split; [apply in_seq; fold L; lia | left; reflexivity].
    - intros Hin. cbn in Hin. unfold chain_join in Hin. apply in_flat_map in Hin. destruct Hin as [x [Hx Hin]].
      apply in_seq in Hx. fold L in Hx. rewrite ns_nth in Hin. cbn in Hin. destruct Hin as [E|[]]. lia.
    - intros i t Hi. cbn [ths] in Hi. destruct (ns_nth_error i t Hi) as [[Hlt ->] | [-> ->]].
      + unfold is_main_k. cbn. split; [discriminate | lia].
      + unfold is_main_k. cbn. tauto.
    - intros i t r Hi Hin. cbn [ths] in Hi. cbn [mbs]. rewrite Hlb.
      destruct (ns_nth_error i t Hi) as [[Hlt ->] | [-> ->]].
      + destruct i as [|p]; cbn in Hin; [contradiction|]. destruct Hin as [<-|[]]. cbn. lia.
      + cbn in Hin. destruct Hin as [<-|[]]. cbn. lia. }
  assert (Hjoin : forall x, In x (n_join nt) -> x <> L).
  { intros x Hin. cbn in Hin. unfold chain_join in Hin. apply in_flat_map in Hin. destruct Hin as [y [Hy Hin]].
    apply in_seq in Hy. fold L in Hy. rewrite ns_nth in Hin. cbn in Hin. destruct Hin as [E|[]]. lia. }
  assert (Hsav : n_savers nt = []).
  { cbn. unfold chain_saver_tids. apply flat_map_nil. intros x _. rewrite ns_nth. reflexivity. }
  destruct (chain_core L (ch_N sp) (ch_lazy sp) (ch_relay sp) ft fp c cmode ck ccl cx nt HL Hft Hfp Hfault Hcfault Hmode
              Hkillne Hjoin Hsav (chain_boxes sp) (chain_threads sp) Hlb ns_len Hbox
              (fun i Hi => ns_stage i Hi) ns_main Hcov sched st Hr Hq) as [Hat Hout].
  split; [auto|]. split; [exact Hout|].
  (* there are no savers *)
  intros i t Hi.
  assert (Hsig : sig st = sig (mkSt (chain_boxes sp) (chain_threads sp))).
  { rewrite (sig_run _ _ _ _ Hr). unfold chain_init, ninit. apply sig_start_all. }
  destruct (sig_thread _ _ _ _ Hsig Hi) as [t0 [Ht0 Es]]. cbn [ths] in Ht0.
  unfold is_saver. replace (t_kind t) with (t_kind t0) by (unfold tsig in Es; congruence).
  destruct (ns_nth_error i t0 Ht0) as [[_ ->] | [_ ->]]; reflexivity.
Qed.

Lemma ns_fail fault cfault ft fp c (cmode : bool) ck (ccl : bool) cx :
  ft <= L -> fp <= ch_N sp ->
  (forall i k, i < L -> fault_at (chain_net sp true fault cfault) i k = if (ft =? i) && (fp =? k) then Some c else None) ->
  cfault = (if cmode then Some (ck, ccl, cx) else None) ->
  (if cmode then ft = L /\ ck < ch_N sp /\
                 c = (if ccl then (if ch_relay sp then C_OUTSIDE else C_GENEXIT) else cx) /\ true = true
   else ft < L) ->
  failure_reaches_caller (chain_net sp true fault cfault) (chain_init sp true fault cfault) (chain_main sp) (ch_N sp) c.
Proof.
  intros Hft Hfp Hfault Hcfault Hmode sched st Hr Hq.
  assert (Hmode' : if cmode then ft = L /\ ck < ch_N sp /\
                     c = (if ccl then (if ch_relay sp then C_OUTSIDE else C_GENEXIT) else cx) /\ true = true else True).
  { destruct cmode; auto. }
  destruct (ns_core fault cfault ft fp c cmode ck ccl cx Hft Hfp Hfault Hcfault Hmode' sched st Hr Hq) as [Hat [Hout Hnos]].
  split; [auto|]. split.
  - destruct Hout as [H | (E1 & E2 & _)]; auto. exfalso. rewrite E1 in Hmode. lia.
  - intros i t Hi Hsv. rewrite (Hnos i t Hi) in Hsv. discriminate.
Qed.

(* a plugin stage fails *)
Theorem chain_nosav_failure_reaches_caller ft fp c :
  ft < L -> fp <= ch_N sp ->
  failure_reaches_caller (chain_net sp true (Some (ft, fp, c)) None) (chain_init sp true (Some (ft, fp, c)) None)
                         (chain_main sp) (ch_N sp) c.
Proof.
  intros Hft Hfp. apply (ns_fail (Some (ft, fp, c)) None ft fp c false 0 false 0); auto; try lia.
Qed.

(* the consumer raises cx while handling chunk k *)
Theorem chain_nosav_consumer_exception k cx :
  k < ch_N sp ->
  failure_reaches_caller (chain_net sp true None (Some (k, false, cx))) (chain_init sp true None (Some (k, false, cx)))
                         (chain_main sp) (ch_N sp) cx.
Proof.
  intros Hk. apply (ns_fail None (Some (k, false, cx)) L 0 cx true k false cx); auto; try lia.
  intros i j Hi. unfold fault_at. cbn [n_fault chain_net].
  assert (E : (L =? i) = false) by (apply Nat.eqb_neq; lia). rewrite E. reflexivity.
Qed.

(* the consumer closes the iterator while handling chunk k *)
Theorem chain_nosav_consumer_close k cx :
  k < ch_N sp ->
  failure_reaches_caller (chain_net sp true None (Some (k, true, cx))) (chain_init sp true None (Some (k, true, cx)))
                         (chain_main sp) (ch_N sp) (if ch_relay sp then C_OUTSIDE else C_GENEXIT).
Proof.
  intros Hk.
  apply (ns_fail None (Some (k, true, cx)) L 0 (if ch_relay sp then C_OUTSIDE else C_GENEXIT) true k true cx); auto; try lia.
  intros i j Hi. unfold fault_at. cbn [n_fault chain_net].
  assert (E : (L =? i) = false) by (apply Nat.eqb_neq; lia). rewrite E. reflexivity.
Qed.

(* nothing fails: every maximal run delivers all chunks, in order *)
Theorem chain_nosav_completes :
  completes (chain_net sp true None None) (chain_init sp true None None) (chain_main sp) (ch_N sp).
Proof.
  intros sched st Hr Hq.
  assert (Hfa : forall c i k, i < L ->
            fault_at (chain_net sp true None None) i k = if (L =? i) && (0 =? k) then Some c else None).
  { intros c i k Hi. unfold fault_at. cbn [n_fault chain_net].
    assert (E : (L =? i) = false) by (apply Nat.eqb_neq; lia). rewrite E. reflexivity. }
  destruct (ns_core None None L 0 0 false 0 false 0 (le_n _) (Nat.le_0_l _) (Hfa 0) eq_refl I sched st Hr Hq)
    as [Hat [Hout0 Hnos]].
  destruct (ns_core None None L 0 1 false 0 false 0 (le_n _) (Nat.le_0_l _) (Hfa 1) eq_refl I sched st Hr Hq)
    as [_ [Hout1 _]].
  split; [auto|]. split.
  - destruct Hout0 as [H0 | (_ & _ & H0)]; [|exact H0].
    destruct Hout1 as [H1 | (_ & _ & H1)]; rewrite H0 in H1; discriminate.
  - intros i t Hi Hsv. rewrite (Hnos i t Hi) in Hsv. discriminate.
Qed.
End NoSavers.
