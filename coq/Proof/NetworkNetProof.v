(* C01 on top of C13 / C05: stage determinism at the level of the whole network of mailboxes.

   Model/MailboxNet.v composes C05's mailbox transition system into networks (any wiring: loaders, plugins,
   dividers, savers, discarders, the consumer); every network step is one C05 step of one mailbox.  Its stages are
   1:1 and what a stage will send is fixed in advance (the "prophecy": mailbox d's source list).  Here the prophecy
   of mailbox d is the stream of data type d -- e.g. the one eval_graph computes -- with message number i carrying
   chunk number i.  Then, for EVERY network (any wiring), EVERY schedule and EVERY reachable network state: every
   subscriber of every mailbox (plugin threads, savers, the consumer) has received a prefix of that mailbox's
   stream, in order, and exactly the stream once its iteration has ended.

   Since every stage is a function of the sequences it reads (eval_graph: run_node), this is the induction step
   of "the stream at every node equals eval_graph's": what MailboxNet does not contain is the computation of what
   a stage sends from what it has read (the prophecy replaces it), see Props/C01.v. *)
From SV Require Import Base.Prelude Model.Mailbox Model.MailboxNet Proof.MailboxFacts Proof.MailboxProof
     Proof.MailboxInOrder Proof.MailboxNetLift Props.C05.
From SV Require Import Model.Chunk Model.Network Proof.NetworkChannelProof.
Local Open Scope nat_scope.

(* mailbox d started as a C05 mailbox whose source is the encoded stream of data type d *)
Definition carries (streams : nat -> stream) (drives : nat -> list bool) (killer : nat -> option bool) (nfut : nat -> nat)
           (bs : boxes) : Prop :=
  forall d cfg st, nth_error bs d = Some (cfg, st) ->
    exists sched, run cfg (init cfg (drives d) (source_of (encode (streams d))) (killer d) (nfut d)) sched = Some st.

Lemma carries_step streams drives killer nfut n w n' :
  carries streams drives killer nfut (n_boxes n) -> nstep n w = Some n' -> carries streams drives killer nfut (n_boxes n').
Proof.
  intros HC Hs. apply nstep_inv in Hs.
  destruct Hs as (th & th' & d & t & cfg & st & st' & _ & _ & Hn & Hst & -> & _).
  intros e cfg0 st0 He. apply nth_error_upd in He. destruct He as [(-> & Heq & _)|(_ & He)].
  - inversion Heq; subst. destruct (HC _ _ _ Hn) as (sched & Hr).
    exists (sched ++ [t]). rewrite run_app, Hr. cbn [run]. rewrite Hst. reflexivity.
  - apply (HC _ _ _ He).
Qed.

Theorem network_delivery streams drives killer nfut n0 sched n :
  (forall d cfg st, nth_error (n_boxes n0) d = Some (cfg, st) ->
     st = init cfg (drives d) (source_of (encode (streams d))) (killer d) (nfut d)) ->
  nrun n0 sched = Some n ->
  forall d cfg st, nth_error (n_boxes n) d = Some (cfg, st) ->
  forall i r, nth_error (rds st) i = Some r ->
    (exists rest, decode (streams d) (r_log r) ++ rest = streams d) /\
    (r_pc r = RDone -> decode (streams d) (r_log r) = streams d).
Proof.
  intros H0 Hrun.
  assert (HC : carries streams drives killer nfut (n_boxes n)).
  { eapply (nrun_invariant (fun m => carries streams drives killer nfut (n_boxes m))); [| |exact Hrun].
    - intros m w m' Hm Hs. eapply carries_step; eauto.
    - intros d cfg st Hd. exists []. cbn [run]. rewrite (H0 _ _ _ Hd). reflexivity. }
  intros d cfg st Hd i r Hr. destruct (HC _ _ _ Hd) as (s & Hs).
  apply (channel_delivery cfg (streams d) (nfut d) (drives d) (killer d) s st Hs i r Hr).
Qed.

(* without kills: a mailbox whose threads have all finished has delivered exactly its stream to every subscriber *)
Theorem network_complete streams drives nfut n0 sched n :
  (forall d cfg st, nth_error (n_boxes n0) d = Some (cfg, st) ->
     drives d <> [] /\ st = init cfg (drives d) (source_of (encode (streams d))) None (nfut d)) ->
  nrun n0 sched = Some n ->
  forall d cfg st, nth_error (n_boxes n) d = Some (cfg, st) -> all_terminal st = true ->
  forall i r, nth_error (rds st) i = Some r -> decode (streams d) (r_log r) = streams d.
Proof.
  intros H0 Hrun.
  assert (HC : carries streams drives (fun _ => None) nfut (n_boxes n) /\
               forall d cfg st, nth_error (n_boxes n) d = Some (cfg, st) -> drives d <> []).
  { eapply (nrun_invariant (fun m => carries streams drives (fun _ => None) nfut (n_boxes m) /\
               forall d cfg st, nth_error (n_boxes m) d = Some (cfg, st) -> drives d <> [])); [| |exact Hrun].
    - intros m w m' [Hm Hd] Hs. split; [eapply carries_step; eauto|].
      intros d cfg st He. apply nstep_inv in Hs.
      destruct Hs as (th & th' & d0 & t & cfg0 & st0 & st' & _ & _ & Hn & Hst & Hb & _).
      rewrite Hb in He. apply nth_error_upd in He. destruct He as [(-> & Heq & _)|(_ & He)].
      + apply (Hd _ _ _ Hn).
      + apply (Hd _ _ _ He).
    - split.
      + intros d cfg st Hd. exists []. cbn [run]. destruct (H0 _ _ _ Hd) as [_ ->]. reflexivity.
      + intros d cfg st Hd. apply (H0 _ _ _ Hd). }
  destruct HC as [HC HD]. intros d cfg st Hd Ht i r Hr. destruct (HC _ _ _ Hd) as (s & Hs).
  apply (channel_complete cfg (streams d) (nfut d) (drives d) s st (HD _ _ _ Hd) Hs Ht i r Hr).
Qed.
