(* Proofs about Model/CtxRace.v (the Context code as repaired by /repo commit d202a14):
   for EVERY interleaving of any number of workers, any initial plugin cache, single or several targets,
   nobody fails, the shared registry is untouched, and every worker obtains exactly the plugins its call
   skeleton determines (hence the same as in the sequential execution). *)
From SV Require Import Base.Prelude Model.CtxRace.

(* ------------------------------------------------------------------ sections *)
Definition is_ok (r : sres) : Prop := exists C tr, r = SOk C tr.
Definition no_fuel (r : sres) : Prop := match r with SFuel _ => False | _ => True end.

Lemma s_prepend_ok p r : is_ok r -> is_ok (s_prepend p r).
Proof. intros (C & tr & ->). cbn. eexists _, _. reflexivity. Qed.
Lemma s_prepend_nofuel p r : no_fuel r -> no_fuel (s_prepend p r).
Proof. destruct r; cbn; auto. Qed.
Lemma ok_nofuel r : is_ok r -> no_fuel r.
Proof. intros (C & tr & ->). exact I. Qed.

Lemma s_seq_ok {A} (step : cache -> A -> sres) l :
  (forall C x, In x l -> is_ok (step C x)) -> forall C, is_ok (s_seq step C l).
Proof.
  induction l as [|x l IH]; intros H C; cbn [s_seq].
  - eexists _, _. reflexivity.
  - destruct (H C x (or_introl eq_refl)) as (C1 & tr1 & ->).
    apply s_prepend_ok, IH. intros C' y Hy. apply H. right; exact Hy.
Qed.

Lemma s_seq_nofuel {A} (step : cache -> A -> sres) l :
  (forall C x, In x l -> no_fuel (step C x)) -> forall C, no_fuel (s_seq step C l).
Proof.
  induction l as [|x l IH]; intros H C; cbn [s_seq].
  - exact I.
  - pose proof (H C x (or_introl eq_refl)) as Hx. destruct (step C x) as [C1 tr1|C1 tr1|tr1]; cbn in *; auto.
    apply s_prepend_nofuel, IH. intros C' y Hy. apply H. right; exact Hy.
Qed.

Lemma get_plugin_ok c R : forall f t, closed f c R t = true -> forall C, is_ok (get_plugin f c R C t).
Proof.
  induction f as [|f IH]; intros t Hc C; cbn [closed] in Hc; [discriminate|].
  apply andb_true_iff in Hc as [Hm Hd]. cbn [get_plugin].
  destruct (pac R C t) as [b tr0]. destruct b; [eexists _, _; reflexivity|].
  rewrite Hm. cbn [negb].
  assert (Hs : is_ok (s_seq (fun C' d => get_plugin f c R C' d) C (deps_of c t))).
  { apply s_seq_ok. intros C' d Hd'. apply IH. rewrite forallb_forall in Hd. apply Hd, Hd'. }
  destruct Hs as (C1 & tr1 & ->). destruct (ptc R C1 t) as [C2 tr2]. eexists _, _. reflexivity.
Qed.

Lemma get_plugin_nofuel c : forall f t, depth_ok f c t = true ->
  forall R C, no_fuel (get_plugin f c R C t).
Proof.
  induction f as [|f IH]; intros t Hd R C; cbn [depth_ok] in Hd; [discriminate|].
  cbn [get_plugin]. destruct (pac R C t) as [b tr0]. destruct b; [exact I|].
  destruct (negb (mem_reg t R)); [exact I|].
  assert (Hs : no_fuel (s_seq (fun C' d => get_plugin f c R C' d) C (deps_of c t))).
  { apply s_seq_nofuel. intros C' d Hd'. apply IH. rewrite forallb_forall in Hd. apply Hd, Hd'. }
  destruct (s_seq _ C (deps_of c t)) as [C1 tr1|C1 tr1|tr1]; cbn in *; auto.
  destruct (ptc R C1 t). exact I.
Qed.

Lemma get_plugins_ok c R ts : gp_closed c R ts = true ->
  forall C, exists C' tr o, get_plugins c R C ts = (SOk C' tr, o) /\ gp_order (c_fuel c) c ts [] = Some o.
Proof.
  unfold gp_closed, get_plugins. destruct (gp_order (c_fuel c) c ts []) as [o|]; [|discriminate].
  intros Hc C.
  assert (Hs : is_ok (s_seq (get_plugin (c_fuel c) c R) C o)).
  { apply s_seq_ok. intros C' t Ht. apply get_plugin_ok. rewrite forallb_forall in Hc. apply Hc, Ht. }
  destruct (s_prepend_ok (iter_tr L_GP (length R)) _ Hs) as (C' & tr & ->). eexists _, _, _. split; reflexivity.
Qed.

Lemma get_plugins_nofuel c ts : gp_nofuel c ts = true ->
  forall R C, exists r o, get_plugins c R C ts = (r, o) /\ no_fuel r /\ gp_order (c_fuel c) c ts [] = Some o.
Proof.
  unfold gp_nofuel, get_plugins. destruct (gp_order (c_fuel c) c ts []) as [o|]; [|discriminate].
  intros Hc R C. eexists _, _. split; [reflexivity|]. split; [|reflexivity].
  apply s_prepend_nofuel, s_seq_nofuel. intros C' t Ht. apply get_plugin_nofuel.
  rewrite forallb_forall in Hc. apply Hc, Ht.
Qed.

Lemma key_for_ok c R t : gp_closed c R [t] = true -> forall C, is_ok (key_for c R C t).
Proof.
  intros Hc C. unfold key_for. destruct (pac R C t) as [b tr0]. destruct b; [eexists _, _; reflexivity|].
  destruct (get_plugins_ok c R [t] Hc C) as (C' & tr & o & -> & _). cbn [fst]. apply s_prepend_ok.
  eexists _, _. reflexivity.
Qed.

Lemma key_for_nofuel c t : gp_nofuel c [t] = true -> forall R C, no_fuel (key_for c R C t).
Proof.
  intros Hc R C. unfold key_for. destruct (pac R C t) as [b tr0]. destruct b; [exact I|].
  destruct (get_plugins_nofuel c [t] Hc R C) as (r & o & -> & Hn & _). cbn [fst]. apply s_prepend_nofuel, Hn.
Qed.

(* ------------------------------------------------------------------ scopes *)
Lemma pop_to_mark_wf c R0 P : forall items, in_scope items = true ->
  wf_items c R0 P items = true -> wf_items c R0 P (pop_to_mark items) = true.
Proof.
  induction items as [|it rest IH]; intros Hs Hw; [discriminate|].
  destruct it; cbn [pop_to_mark]; cbn [in_scope existsb is_mark orb] in Hs; fold (in_scope rest) in Hs;
    cbn [wf_items] in Hw.
  - apply andb_true_iff in Hw as [_ Hw]. apply IH; auto.
  - apply andb_true_iff in Hw as [_ Hw]. apply IH; auto.
  - apply andb_true_iff in Hw as [Hn _]. rewrite Hs in Hn. discriminate.
  - apply andb_true_iff in Hw as [Hn _]. rewrite Hs in Hn. discriminate.
  - apply andb_true_iff in Hw as [Hn _]. rewrite Hs in Hn. discriminate.
  - apply andb_true_iff in Hw as [_ Hw]. apply IH; auto.
  - apply andb_true_iff in Hw as [_ Hw]. apply IH; auto.
  - exact Hw.
  - apply andb_true_iff in Hw as [Hn _]. rewrite Hs in Hn. discriminate.
Qed.

Lemma pop_to_mark_got c : forall items, in_scope items = true ->
  exp_got c (pop_to_mark items) = exp_got c items.
Proof.
  induction items as [|it rest IH]; intros Hs; [discriminate|].
  destruct it; cbn [pop_to_mark exp_got]; cbn [in_scope existsb is_mark orb] in Hs; fold (in_scope rest) in Hs;
    try (apply IH; exact Hs); try reflexivity.
  rewrite Hs. cbn [app]. apply IH, Hs.
Qed.

Lemma prog_weight_cons c it rest : prog_weight c (it :: rest) = (item_weight c it + prog_weight c rest)%nat.
Proof. reflexivity. Qed.

Lemma pop_to_mark_weight c : forall items, (prog_weight c (pop_to_mark items) <= prog_weight c items)%nat.
Proof.
  induction items as [|it rest IH]; [cbn; lia|].
  rewrite prog_weight_cons. destruct it; cbn [pop_to_mark]; lia.
Qed.

Lemma settle_items_wf c R0 : forall items P, wf_items c R0 P items = true ->
  wf_items c R0 (snd (settle_items items P)) (fst (settle_items items P)) = true.
Proof.
  induction items as [|it rest IH]; intros P Hw; [exact Hw|].
  destruct it; cbn [settle_items fst snd]; try exact Hw.
  - apply IH. exact Hw.
  - apply IH. cbn [wf_items] in Hw. apply andb_true_iff in Hw as [_ Hw]. exact Hw.
Qed.

Lemma settle_items_got c : forall items P, exp_got c (fst (settle_items items P)) = exp_got c items.
Proof.
  induction items as [|it rest IH]; intros P; [reflexivity|].
  destruct it; cbn [settle_items fst exp_got]; try reflexivity; apply IH.
Qed.

Lemma settle_items_weight c : forall items P,
  (prog_weight c (fst (settle_items items P)) <= prog_weight c items)%nat.
Proof.
  induction items as [|it rest IH]; intros P; [cbn; lia|].
  destruct it; cbn [settle_items fst]; try lia.
  - specialize (IH P). rewrite prog_weight_cons. lia.
  - specialize (IH None). rewrite prog_weight_cons. lia.
Qed.

(* ------------------------------------------------------------------ one thread *)
(* G = what the _get_plugins calls of the whole skeleton return *)
Definition TInv (c : cfgm) (R0 : reg) (G : list (list name)) (th : thread) : Prop :=
  match th_status th with
  | Running => wf_items c R0 (th_reg th) (th_items th) = true /\
               th_got th ++ exp_got c (th_items th) = G
  | Done => th_got th = G
  | Crashed _ _ => False
  end.

Definition tw (c : cfgm) (th : thread) : nat :=
  match th_status th with Running => S (prog_weight c (th_items th)) | _ => O end.

Lemma settle_inv c R0 G items P tr got steps :
  wf_items c R0 P items = true -> got ++ exp_got c items = G ->
  let th' := settle (mkthread items P Running tr got steps) in
  TInv c R0 G th' /\ (tw c th' <= S (prog_weight c items))%nat.
Proof.
  intros Hw Hg. cbn zeta. unfold settle. cbn [th_status th_items th_reg th_trace th_got th_steps].
  pose proof (settle_items_wf c R0 items P Hw) as Hw'.
  pose proof (settle_items_got c items P) as Hg'.
  pose proof (settle_items_weight c items P) as Hwt.
  destruct (settle_items items P) as [items' P']. cbn [fst snd] in *.
  destruct items' as [|i r].
  - unfold TInv, tw. cbn. split; [|lia]. cbn in Hg'. rewrite <- Hg' in Hg. rewrite app_nil_r in Hg. exact Hg.
  - unfold TInv, tw. cbn [th_status th_reg th_items th_got]. split; [split; [exact Hw'|rewrite Hg'; exact Hg]|lia].
Qed.

Lemma advance_inv c R0 G th items P tr got :
  wf_items c R0 P items = true -> (th_got th ++ got) ++ exp_got c items = G ->
  TInv c R0 G (advance th items P tr got) /\ (tw c (advance th items P tr got) <= S (prog_weight c items))%nat.
Proof. intros Hw Hg. unfold advance. apply settle_inv; assumption. Qed.

Lemma fail_key_inv c R0 G th rest tr :
  in_scope rest = true -> wf_items c R0 (th_reg th) rest = true -> th_got th ++ exp_got c rest = G ->
  TInv c R0 G (fail th rest K_KEY tr) /\ (tw c (fail th rest K_KEY tr) <= S (prog_weight c rest))%nat.
Proof.
  intros Hs Hw Hg. unfold fail. rewrite Hs. cbn [Z.eqb K_KEY Pos.eqb andb].
  pose proof (pop_to_mark_weight c rest) as Hwt.
  destruct (advance_inv c R0 G th (pop_to_mark rest) (th_reg th) tr []) as [H1 H2].
  - apply pop_to_mark_wf; assumption.
  - rewrite app_nil_r, pop_to_mark_got by exact Hs. exact Hg.
  - split; [exact H1|lia].
Qed.

Lemma in_scope_app l1 l2 : in_scope (l1 ++ l2) = in_scope l1 || in_scope l2.
Proof. unfold in_scope. apply existsb_app. Qed.

Lemma wf_repeat_keyfor c R0 P t l : gp_nofuel c [t] = true -> in_scope l = true ->
  wf_items c R0 P l = true -> forall k, wf_items c R0 P (repeat (IKeyFor t) k ++ l) = true.
Proof.
  intros Ht Hs Hl. induction k as [|k IH]; cbn [repeat app]; [exact Hl|].
  cbn [wf_items]. rewrite in_scope_app, Hs, orb_true_r, Ht. cbn [andb]. exact IH.
Qed.

Lemma got_repeat_keyfor c t l : forall k, exp_got c (repeat (IKeyFor t) k ++ l) = exp_got c l.
Proof. induction k as [|k IH]; cbn [repeat app exp_got]; auto. Qed.

Lemma weight_repeat_keyfor c t l : forall k,
  prog_weight c (repeat (IKeyFor t) k ++ l) = (k + prog_weight c l)%nat.
Proof.
  induction k as [|k IH]; cbn [repeat app]; [reflexivity|]. rewrite prog_weight_cons, IH. cbn [item_weight]. lia.
Qed.

Definition expansion (nsf : nat) (o : list name) (rest : list item) : list item :=
  flat_map (fun t => repeat (IKeyFor t) nsf ++ [IRegRead L_IS_READ t]) o ++ IMark :: rest.

Lemma expansion_cons nsf t o rest :
  expansion nsf (t :: o) rest = repeat (IKeyFor t) nsf ++ IRegRead L_IS_READ t :: expansion nsf o rest.
Proof. unfold expansion. cbn [flat_map]. rewrite <- !app_assoc. reflexivity. Qed.

Lemma expansion_scope nsf o rest : in_scope (expansion nsf o rest) = true.
Proof. unfold expansion. rewrite in_scope_app. cbn [in_scope existsb is_mark orb]. apply orb_true_r. Qed.

Lemma wf_expansion c R0 P nsf rest : forall o,
  forallb (fun t => gp_nofuel c [t]) o = true ->
  wf_items c R0 P rest = true ->
  wf_items c R0 P (expansion nsf o rest) = true.
Proof.
  induction o as [|t o IH]; intros Ho Hw; [exact Hw|].
  cbn [forallb] in Ho. apply andb_true_iff in Ho as [Ht Ho]. specialize (IH Ho Hw).
  rewrite expansion_cons. apply wf_repeat_keyfor; auto.
  - cbn [in_scope existsb is_mark orb]. apply expansion_scope.
  - cbn [wf_items]. rewrite expansion_scope. cbn. exact IH.
Qed.

Lemma got_expansion c nsf rest : forall o, exp_got c (expansion nsf o rest) = exp_got c rest.
Proof.
  induction o as [|t o IH]; [reflexivity|].
  rewrite expansion_cons, got_repeat_keyfor. cbn [exp_got]. exact IH.
Qed.

Lemma weight_expansion c nsf rest : forall o,
  prog_weight c (expansion nsf o rest) = (length o * S nsf + 1 + prog_weight c rest)%nat.
Proof.
  induction o as [|t o IH].
  - unfold expansion. cbn [flat_map app length Nat.mul]. rewrite prog_weight_cons. cbn [item_weight]. lia.
  - rewrite expansion_cons, weight_repeat_keyfor, prog_weight_cons, IH. cbn [item_weight length]. lia.
Qed.

(* one transition of a thread keeps the invariant, the shared registry, and makes progress *)
Lemma step_inv c R0 G sh th :
  sh_reg sh = R0 -> TInv c R0 G th ->
  let sh' := fst (step_thread c sh th) in
  let th' := snd (step_thread c sh th) in
  sh_reg sh' = R0 /\ TInv c R0 G th' /\ (th_status th = Running -> (tw c th' < tw c th)%nat) /\
  (th_status th <> Running -> th' = th).
Proof.
  intros HR HI. unfold step_thread. unfold TInv in HI.
  destruct (th_status th) eqn:Est; cbn zeta.
  2:{ cbn [fst snd]. repeat split; auto; [unfold TInv; rewrite Est; exact HI|intros; discriminate]. }
  2:{ contradiction. }
  destruct HI as [Hw Hg].
  destruct (th_items th) as [|it rest] eqn:Eit.
  { cbn [fst snd]. split; [exact HR|].
    assert (Hth : th = mkthread [] (th_reg th) Running (th_trace th) (th_got th) (th_steps th))
      by (destruct th; cbn in *; subst; reflexivity).
    rewrite Hth at 1 2. destruct (settle_inv c R0 G [] (th_reg th) (th_trace th) (th_got th) (th_steps th) Hw Hg) as [H1 H2].
    split; [exact H1|]. split; [|intros H; congruence].
    intros _. unfold tw at 2. rewrite Est, Eit.
    unfold settle, tw. cbn. lia. }
  assert (Hcur : cur_reg sh th = match th_reg th with Some p => p | None => R0 end)
    by (unfold cur_reg; rewrite HR; reflexivity).
  assert (Htw : tw c th = S (item_weight c it + prog_weight c rest))
    by (unfold tw; rewrite Est, Eit; reflexivity).
  destruct it; cbn [wf_items] in Hw; cbn [exp_got] in Hg; cbn [item_weight] in Htw.
  - (* IGetPlugins *)
    apply andb_true_iff in Hw as [Hsec Hw]. rewrite <- Hcur in Hsec.
    destruct (in_scope rest) eqn:Esc.
    + destruct (get_plugins_nofuel c ts Hsec (cur_reg sh th) (sh_cache sh)) as (r & o & -> & Hn & _).
      cbn [app] in Hg.
      destruct r as [C tr|C tr|tr]; cbn [fst snd with_cache sh_reg]; [| |contradiction].
      * destruct (advance_inv c R0 G th rest (th_reg th) tr []) as [H1 H2]; auto.
        { rewrite app_nil_r. exact Hg. }
        repeat split; auto; [lia|congruence].
      * destruct (fail_key_inv c R0 G th rest tr Esc Hw Hg) as [H1 H2].
        repeat split; auto; [lia|congruence].
    + destruct (get_plugins_ok c (cur_reg sh th) ts Hsec (sh_cache sh)) as (C & tr & o & -> & Ho).
      rewrite Ho in Hg. cbn [fst snd with_cache sh_reg].
      destruct (advance_inv c R0 G th rest (th_reg th) tr [o]) as [H1 H2]; auto.
      { rewrite <- app_assoc. exact Hg. }
      repeat split; auto; [lia|congruence].
  - (* IKeyFor *)
    apply andb_true_iff in Hw as [Hsec Hw]. rewrite <- Hcur in Hsec.
    destruct (in_scope rest) eqn:Esc.
    + pose proof (key_for_nofuel c t Hsec (cur_reg sh th) (sh_cache sh)) as Hn.
      destruct (key_for c (cur_reg sh th) (sh_cache sh) t) as [C tr|C tr|tr]; cbn [fst snd with_cache sh_reg];
        [| |contradiction].
      * destruct (advance_inv c R0 G th rest (th_reg th) tr []) as [H1 H2]; auto.
        { rewrite app_nil_r. exact Hg. }
        repeat split; auto; [lia|congruence].
      * destruct (fail_key_inv c R0 G th rest tr Esc Hw Hg) as [H1 H2].
        repeat split; auto; [lia|congruence].
    + destruct (key_for_ok c (cur_reg sh th) t Hsec (sh_cache sh)) as (C & tr & ->).
      cbn [fst snd with_cache sh_reg].
      destruct (advance_inv c R0 G th rest (th_reg th) tr []) as [H1 H2]; auto.
      { rewrite app_nil_r. exact Hg. }
      repeat split; auto; [lia|congruence].
  - (* ICopyReg *)
    apply andb_true_iff in Hw as [_ Hw]. cbn [fst snd]. rewrite HR.
    destruct (advance_inv c R0 G th rest (Some R0) [L_COPY] []) as [H1 H2]; auto.
    { rewrite app_nil_r. exact Hg. }
    repeat split; auto; [lia|congruence].
  - (* IRegister *)
    apply andb_true_iff in Hw as [_ Hw]. destruct (th_reg th) as [p|] eqn:EP; [|discriminate].
    cbn [fst snd].
    destruct (advance_inv c R0 G th rest (Some (reg_set t cl p)) (register_tr t cl p) []) as [H1 H2]; auto.
    { rewrite app_nil_r. exact Hg. }
    repeat split; auto; [lia|congruence].
  - (* ICleanup *)
    apply andb_true_iff in Hw as [_ Hw]. destruct (th_reg th) as [p|] eqn:EP.
    + cbn [fst snd].
      destruct (advance_inv c R0 G th rest (Some (cleanup_reg p)) (cleanup_tr p) []) as [H1 H2]; auto.
      { rewrite app_nil_r. exact Hg. }
      repeat split; auto; [lia|congruence].
    + apply andb_true_iff in Hw as [Hnt Hw]. rewrite HR.
      destruct (existsb (fun kv => is_temp (fst kv)) R0); [discriminate|]. cbn [fst snd].
      destruct (advance_inv c R0 G th rest None (cleanup_tr R0) []) as [H1 H2]; auto.
      { rewrite app_nil_r. exact Hg. }
      repeat split; auto; [lia|congruence].
  - (* IRegRead *)
    apply andb_true_iff in Hw as [Hm Hw]. rewrite <- Hcur in Hm.
    destruct (mem_reg t (cur_reg sh th)) eqn:Em; cbn [fst snd].
    + destruct (advance_inv c R0 G th rest (th_reg th) [l] []) as [H1 H2]; auto.
      { rewrite app_nil_r. exact Hg. }
      repeat split; auto; [lia|congruence].
    + rewrite orb_false_r in Hm.
      destruct (fail_key_inv c R0 G th rest [l] Hm Hw Hg) as [H1 H2].
      repeat split; auto; [lia|congruence].
  - (* IEstimate *)
    apply andb_true_iff in Hw as [He Hw]. unfold est_ok in He.
    destruct (gp_order (c_fuel c) c ts []) as [o|] eqn:Eo; [|discriminate].
    apply andb_true_iff in He as [Hd Hk].
    assert (Hnf : gp_nofuel c ts = true) by (unfold gp_nofuel; rewrite Eo; exact Hd).
    destruct (get_plugins_nofuel c ts Hnf (cur_reg sh th) (sh_cache sh)) as (r & o' & -> & Hn & Ho').
    rewrite Eo in Ho'. injection Ho' as <-.
    destruct r as [C tr|C tr|tr]; cbn [fst snd with_cache sh_reg]; [| |contradiction].
    + fold (expansion nsf o rest).
      destruct (advance_inv c R0 G th (expansion nsf o rest) (th_reg th) tr []) as [H1 H2].
      { apply wf_expansion; assumption. }
      { rewrite app_nil_r, got_expansion. exact Hg. }
      rewrite weight_expansion in H2.
      repeat split; auto; [lia|congruence].
    + destruct (advance_inv c R0 G th rest (th_reg th) tr []) as [H1 H2]; auto.
      { rewrite app_nil_r. exact Hg. }
      repeat split; auto; [lia|congruence].
  - (* IMark *)
    cbn [fst snd]. split; [exact HR|].
    assert (Hs : settle th = settle (mkthread rest (th_reg th) Running (th_trace th) (th_got th) (th_steps th))).
    { unfold settle. rewrite Est. cbn [th_status th_items th_reg th_trace th_got th_steps]. rewrite Eit. reflexivity. }
    rewrite Hs.
    destruct (settle_inv c R0 G rest (th_reg th) (th_trace th) (th_got th) (th_steps th) Hw Hg) as [H1 H2].
    split; [exact H1|]. split; [intros _; rewrite Htw; lia|congruence].
  - (* IEndCall *)
    cbn [fst snd]. split; [exact HR|]. apply andb_true_iff in Hw as [_ Hw].
    assert (Hs : settle th = settle (mkthread rest None Running (th_trace th) (th_got th) (th_steps th))).
    { unfold settle. rewrite Est. cbn [th_status th_items th_reg th_trace th_got th_steps]. rewrite Eit. reflexivity. }
    rewrite Hs.
    destruct (settle_inv c R0 G rest None (th_trace th) (th_got th) (th_steps th) Hw Hg) as [H1 H2].
    split; [exact H1|]. split; [intros _; rewrite Htw; lia|congruence].
Qed.

Lemma nth_error_ext {A} : forall (l l' : list A), (forall j, nth_error l j = nth_error l' j) -> l = l'.
Proof.
  induction l as [|a l IH]; intros [|b l'] H; auto.
  - specialize (H O). discriminate.
  - specialize (H O). discriminate.
  - pose proof (H O) as H0. cbn in H0. injection H0 as ->. f_equal. apply IH. intros j. apply (H (S j)).
Qed.

(* ------------------------------------------------------------------ the system *)
Lemma set_nth_same {A} : forall (l : list A) i x y, nth_error l i = Some y -> nth_error (set_nth i x l) i = Some x.
Proof. induction l as [|a l IH]; intros [|i] x y H; cbn [nth_error set_nth] in *; try discriminate; eauto. Qed.

Lemma set_nth_other {A} : forall (l : list A) i j x, i <> j -> nth_error (set_nth i x l) j = nth_error l j.
Proof. induction l as [|a l IH]; intros [|i] [|j] x Hij; cbn [set_nth nth_error]; auto; try congruence. Qed.

Lemma set_nth_Forall2 {A B} (R : A -> B -> Prop) : forall (l : list A) (l' : list B) i x y,
  Forall2 R l l' -> nth_error l' i = Some y -> R x y -> Forall2 R (set_nth i x l) l'.
Proof.
  induction l as [|a l IH]; intros l' i x y HF Hn HR; inversion HF; subst; cbn [set_nth].
  - destruct i; discriminate.
  - destruct i as [|i]; cbn [nth_error] in Hn.
    + injection Hn as <-. constructor; auto.
    + constructor; auto. eapply IH; eauto.
Qed.

Lemma Forall2_nth_error {A B} (R : A -> B -> Prop) : forall (l : list A) (l' : list B) i x,
  Forall2 R l l' -> nth_error l i = Some x -> exists y, nth_error l' i = Some y /\ R x y.
Proof.
  induction l as [|a l IH]; intros l' i x HF Hn; inversion HF; subst; destruct i; cbn [nth_error] in *;
    try discriminate.
  - injection Hn as <-. eauto.
  - eapply IH; eauto.
Qed.

Lemma Forall2_nth_error_r {A B} (R : A -> B -> Prop) : forall (l : list A) (l' : list B) i y,
  Forall2 R l l' -> nth_error l' i = Some y -> exists x, nth_error l i = Some x /\ R x y.
Proof.
  induction l as [|a l IH]; intros l' i y HF Hn; inversion HF; subst; destruct i; cbn [nth_error] in *;
    try discriminate.
  - injection Hn as <-. eauto.
  - eapply IH; eauto.
Qed.

Lemma Forall2_length {A B} (R : A -> B -> Prop) l l' : Forall2 R l l' -> length l = length l'.
Proof. induction 1; cbn [length]; auto. Qed.

Section SYS.
Variable c : cfgm.
Variable R0 : reg.

(* per thread: (what its _get_plugins calls return, a bound of the transitions it still makes) *)
Definition TI (th : thread) (gw : list (list name) * nat) : Prop :=
  TInv c R0 (fst gw) th /\ (tw c th <= snd gw)%nat.

Definition SInv (GW : list (list (list name) * nat)) (s : sys) : Prop :=
  sh_reg (s_sh s) = R0 /\ Forall2 TI (s_ths s) GW.

Lemma sys_step_inv GW s tid : SInv GW s -> SInv GW (sys_step c s tid).
Proof.
  intros [HR HF]. unfold sys_step. destruct (nth_error (s_ths s) tid) as [th|] eqn:E; [|split; auto].
  destruct (Forall2_nth_error _ _ _ _ _ HF E) as (gw & Hgw & [HT Hw]).
  pose proof (step_inv c R0 (fst gw) (s_sh s) th HR HT) as (H1 & H2 & H3 & H4).
  destruct (step_thread c (s_sh s) th) as [sh' th'] eqn:Est. cbn [fst snd] in *.
  split; [exact H1|]. cbn [s_ths]. eapply set_nth_Forall2; eauto. split; [exact H2|].
  destruct (th_status th) eqn:Es.
  - specialize (H3 eq_refl). lia.
  - rewrite H4 by congruence. exact Hw.
  - rewrite H4 by congruence. exact Hw.
Qed.

Lemma run_sched_inv GW sched : forall s, SInv GW s -> SInv GW (run_sched c s sched).
Proof. induction sched as [|t r IH]; intros s H; cbn [run_sched]; auto. apply IH, sys_step_inv, H. Qed.

Lemma run_alone_inv GW k tid : forall s, SInv GW s -> SInv GW (run_alone c k s tid).
Proof. induction k as [|k IH]; intros s H; cbn [run_alone]; auto. apply IH, sys_step_inv, H. Qed.

Lemma sys_step_other s tid j : tid <> j -> nth_error (s_ths (sys_step c s tid)) j = nth_error (s_ths s) j.
Proof.
  intros H. unfold sys_step. destruct (nth_error (s_ths s) tid); [|reflexivity].
  destruct (step_thread c (s_sh s) t). cbn [s_ths]. apply set_nth_other, H.
Qed.

Lemma run_alone_other k : forall s tid j, tid <> j ->
  nth_error (s_ths (run_alone c k s tid)) j = nth_error (s_ths s) j.
Proof.
  induction k as [|k IH]; intros s tid j H; cbn [run_alone]; [reflexivity|].
  rewrite IH by exact H. apply sys_step_other, H.
Qed.

(* a thread that is given at least as many transitions as its bound has finished *)
Lemma run_alone_done GW : forall k s tid th,
  SInv GW s -> nth_error (s_ths s) tid = Some th -> (tw c th <= k)%nat ->
  exists th', nth_error (s_ths (run_alone c k s tid)) tid = Some th' /\ tw c th' = O.
Proof.
  induction k as [|k IH]; intros s tid th HI Hn Hw; cbn [run_alone].
  - exists th. split; [exact Hn|lia].
  - assert (HI' := sys_step_inv GW s tid HI).
    destruct HI as [HR HF].
    destruct (Forall2_nth_error _ _ _ _ _ HF Hn) as (gw & Hgw & [HT _]).
    pose proof (step_inv c R0 (fst gw) (s_sh s) th HR HT) as (_ & _ & H3 & H4).
    assert (Hn' : nth_error (s_ths (sys_step c s tid)) tid = Some (snd (step_thread c (s_sh s) th))).
    { unfold sys_step. rewrite Hn. destruct (step_thread c (s_sh s) th). cbn [s_ths snd].
      eapply set_nth_same; eauto. }
    eapply IH; eauto.
    destruct (th_status th) eqn:Es.
    + specialize (H3 eq_refl). lia.
    + rewrite H4 by congruence. unfold tw. rewrite Es. lia.
    + rewrite H4 by congruence. unfold tw. rewrite Es. lia.
Qed.

Lemma tw_zero_done G th : TInv c R0 G th -> tw c th = O -> th_status th = Done /\ th_got th = G.
Proof.
  unfold TInv, tw. destruct (th_status th); intros H Hz; [discriminate|auto|contradiction].
Qed.

Definition finished_upto (GW : list (list (list name) * nat)) (s : sys) (m : nat) : Prop :=
  forall j th, (j < m)%nat -> nth_error (s_ths s) j = Some th -> tw c th = O.

Lemma drain_inv GW n : forall tids s, SInv GW s -> SInv GW (drain c n s tids).
Proof. induction tids as [|t r IH]; intros s H; cbn [drain]; auto. apply IH, run_alone_inv, H. Qed.

Lemma drain_finishes GW n : (forall gw, In gw GW -> (snd gw <= n)%nat) ->
  forall k m s, SInv GW s -> finished_upto GW s m -> finished_upto GW (drain c n s (seq m k)) (m + k).
Proof.
  intros Hn. induction k as [|k IH]; intros m s HI HF; cbn [seq drain].
  - rewrite Nat.add_0_r. exact HF.
  - replace (m + S k)%nat with (S m + k)%nat by lia. apply IH; [apply run_alone_inv, HI|].
    intros j th Hj Hth. destruct (Nat.eq_dec j m) as [->|Hne].
    + destruct (nth_error (s_ths s) m) as [th0|] eqn:E0.
      * destruct HI as [HR HF2].
        destruct (Forall2_nth_error _ _ _ _ _ HF2 E0) as (gw & Hgw & [_ Hw]).
        assert (Hle : (tw c th0 <= n)%nat).
        { specialize (Hn gw (nth_error_In _ _ Hgw)). lia. }
        destruct (run_alone_done GW n s m th0 (conj HR HF2) E0 Hle) as (th' & Hth' & Hz).
        rewrite Hth' in Hth. injection Hth as <-. exact Hz.
      * exfalso. pose proof (run_alone_inv GW n m s HI) as [_ HF3].
        pose proof (Forall2_length _ _ _ HF3) as L1. destruct HI as [_ HF2]. pose proof (Forall2_length _ _ _ HF2) as L2.
        assert (nth_error (s_ths (run_alone c n s m)) m <> None) by congruence.
        apply nth_error_Some in H. apply nth_error_None in E0. lia.
    + rewrite run_alone_other in Hth by auto. eapply HF; [|exact Hth]. lia.
Qed.
End SYS.

Definition wf_sys (c : cfgm) (sh : shared) (progs : list (list item)) : bool :=
  forallb (wf_items c (sh_reg sh) None) progs.
Definition max_weight (c : cfgm) (progs : list (list item)) : nat :=
  fold_right (fun p a => Nat.max (S (prog_weight c p)) a) O progs.

Lemma max_weight_ge c progs p : In p progs -> (S (prog_weight c p) <= max_weight c progs)%nat.
Proof.
  induction progs as [|q l IH]; intros H; [destruct H|]. cbn [max_weight fold_right]. fold (max_weight c l).
  destruct H as [->|H]; [lia|]. specialize (IH H). lia.
Qed.

Lemma init_inv c sh progs : wf_sys c sh progs = true ->
  SInv c (sh_reg sh) (map (fun p => (exp_got c p, S (prog_weight c p))) progs) (init_sys sh progs).
Proof.
  intros Hw. split; [reflexivity|]. cbn [s_ths init_sys]. unfold wf_sys in Hw.
  induction progs as [|p l IH]; cbn [map]; constructor.
  - cbn [forallb] in Hw. apply andb_true_iff in Hw as [Hp _]. unfold init_thread, TI. cbn [fst snd].
    apply settle_inv; auto.
  - apply IH. cbn [forallb] in Hw. apply andb_true_iff in Hw as [_ Hl]. exact Hl.
Qed.

Theorem ctx_race_free :
  forall (c : cfgm) (sh : shared) (progs : list (list item)),
  wf_sys c sh progs = true ->
  forall sched : list nat,
    (* at every moment of every interleaving nobody has failed and the context's registry is untouched *)
    (forallb (fun th => negb (th_crashed th)) (s_ths (run_sched c (init_sys sh progs) sched)) = true /\
     sh_reg (s_sh (run_sched c (init_sys sh progs) sched)) = sh_reg sh) /\
    (* and when every worker has run to its end, every worker has finished normally with exactly the
       plugins its call skeleton determines *)
    forall n, (max_weight c progs <= n)%nat ->
      let fin := run_all c sh progs sched n in
      forallb th_done (s_ths fin) = true /\
      map th_got (s_ths fin) = map (exp_got c) progs /\
      sh_reg (s_sh fin) = sh_reg sh.
Proof.
  intros c sh progs Hwf sched.
  set (GW := map (fun p => (exp_got c p, S (prog_weight c p))) progs).
  pose proof (init_inv c sh progs Hwf) as H0. fold GW in H0.
  pose proof (run_sched_inv c (sh_reg sh) GW sched _ H0) as H1.
  split.
  - destruct H1 as [HR HF]. split; [|exact HR].
    apply forallb_forall. intros th Hin. apply In_nth_error in Hin as [i Hi].
    destruct (Forall2_nth_error _ _ _ _ _ HF Hi) as (gw & _ & [HT _]).
    unfold TInv in HT. unfold th_crashed. destruct (th_status th); auto.
  - intros n Hn fin.
    assert (Hb : forall gw, In gw GW -> (snd gw <= n)%nat).
    { intros gw Hin. subst GW. apply in_map_iff in Hin as (p & <- & Hp). cbn [snd].
      pose proof (max_weight_ge c progs p Hp). lia. }
    pose proof (drain_inv c (sh_reg sh) GW n (seq 0 (length progs)) _ H1) as H2.
    pose proof (drain_finishes c (sh_reg sh) GW n Hb (length progs) 0 _ H1
                  (fun j th Hj _ => match Nat.nlt_0_r j Hj with end)) as H3.
    fold (run_all c sh progs sched n) in H2, H3. fold fin in H2, H3. cbn [Nat.add] in H3.
    destruct H2 as [HR HF].
    assert (Hlen : length (s_ths fin) = length progs).
    { rewrite (Forall2_length _ _ _ HF). subst GW. apply map_length. }
    assert (Hall : forall i th, nth_error (s_ths fin) i = Some th ->
                   th_status th = Done /\ exists p, nth_error progs i = Some p /\ th_got th = exp_got c p).
    { intros i th Hi.
      destruct (Forall2_nth_error _ _ _ _ _ HF Hi) as (gw & Hgw & [HT _]).
      assert (Hlt : (i < length progs)%nat).
      { rewrite <- Hlen. apply nth_error_Some. congruence. }
      pose proof (H3 i th Hlt Hi) as Hz.
      destruct (tw_zero_done c (sh_reg sh) (fst gw) th HT Hz) as [Hd Hg].
      split; [exact Hd|]. subst GW. rewrite nth_error_map in Hgw.
      destruct (nth_error progs i) as [p|]; [|discriminate]. injection Hgw as <-. exists p. split; auto. }
    split; [|split; [|exact HR]].
    + apply forallb_forall. intros th Hin. apply In_nth_error in Hin as [i Hi].
      destruct (Hall i th Hi) as [Hd _]. unfold th_done. rewrite Hd. reflexivity.
    + apply nth_error_ext. intros i. rewrite !nth_error_map.
      destruct (nth_error (s_ths fin) i) as [th|] eqn:Ei.
      * destruct (Hall i th Ei) as (_ & p & Hp & Hg). rewrite Hp. cbn. f_equal. exact Hg.
      * apply nth_error_None in Ei. rewrite Hlen in Ei. apply nth_error_None in Ei. rewrite Ei. reflexivity.
Qed.

(* the outcome of every interleaving is the outcome of the sequential execution *)
Corollary ctx_race_free_sequential :
  forall c sh progs, wf_sys c sh progs = true ->
  forall sched n, (max_weight c progs <= n)%nat ->
    map th_got (s_ths (run_all c sh progs sched n)) = map th_got (s_ths (run_all c sh progs [] n)) /\
    map th_status (s_ths (run_all c sh progs sched n)) = map th_status (s_ths (run_all c sh progs [] n)).
Proof.
  intros c sh progs Hwf sched n Hn.
  destruct (ctx_race_free c sh progs Hwf sched) as [_ H1]. destruct (ctx_race_free c sh progs Hwf []) as [_ H2].
  destruct (H1 n Hn) as (D1 & G1 & _). destruct (H2 n Hn) as (D2 & G2 & _).
  split; [rewrite G1, G2; reflexivity|].
  assert (L : forall s, forallb th_done (s_ths s) = true -> map th_status (s_ths s) = map (fun _ => Done) (s_ths s)).
  { intros s H. apply map_ext_in. intros th Hin. rewrite forallb_forall in H. specialize (H th Hin).
    unfold th_done in H. destruct (th_status th); try discriminate. reflexivity. }
  rewrite (L _ D1), (L _ D2).
  assert (Len : length (s_ths (run_all c sh progs sched n)) = length (s_ths (run_all c sh progs [] n))).
  { rewrite <- (map_length th_got (s_ths (run_all c sh progs sched n))), G1.
    rewrite <- (map_length th_got (s_ths (run_all c sh progs [] n))), G2. reflexivity. }
  revert Len. generalize (s_ths (run_all c sh progs sched n)) (s_ths (run_all c sh progs [] n)).
  induction l as [|a l IH]; intros [|b l'] Hl; cbn in *; try discriminate; auto. f_equal. apply IH. lia.
Qed.
