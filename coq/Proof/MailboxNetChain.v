(* C13: the path bound instantiated for chains of any length and for one multi-output stage with any
   number of outputs and any savers / discarders; and for the wirings `wire` produces for concrete graphs. *)
From SV Require Import Base.Prelude Model.Mailbox Model.MailboxNet
  Proof.MailboxFacts Proof.MailboxProof Proof.MailboxInOrder Proof.MailboxNetLift Proof.MailboxStepFacts
  Proof.MailboxNetFlow Proof.MailboxNetBound.
Local Open Scope nat_scope.

(* ---------- list helpers ---------- *)
Lemma nth_seq L a w : w < L -> nth_error (seq a L) w = Some (a + w).
Proof.
  intros H. rewrite (nth_error_nth' _ 0) by (rewrite seq_length; auto). rewrite seq_nth by auto. reflexivity.
Qed.

Lemma nth_repeat {T} (x : T) L k : k < L -> nth_error (repeat x L) k = Some x.
Proof.
  revert k; induction L as [|L IH]; intros k H; [lia|]. destruct k; cbn; auto. apply IH. lia.
Qed.

Lemma nth_repeat_inv {T} (x y : T) L k : nth_error (repeat x L) k = Some y -> y = x /\ k < L.
Proof.
  intros H. split.
  - apply nth_error_In in H. apply repeat_spec in H. exact H.
  - assert (k < length (repeat x L)) by (apply nth_error_Some; congruence). rewrite repeat_length in *. auto.
Qed.

(* ================= chains ================= *)
Lemma chain_thread_nth L lz p w th :
  nth_error (chain_threads L lz p) w = Some th ->
  (w < L /\ th = Worker (chain_prog lz w) 0 0) \/ (w = L /\ th = Sink (L - 1) 0 (Some p)).
Proof.
  unfold chain_threads. intros H. destruct (Nat.lt_ge_cases w L) as [Hlt|Hge].
  - left. rewrite nth_error_app1 in H by (rewrite map_length, seq_length; auto).
    rewrite nth_error_map, nth_seq in H by auto. cbn in H. inversion H. auto.
  - right. rewrite nth_error_app2 in H by (rewrite map_length, seq_length; auto).
    rewrite map_length, seq_length in H. destruct (w - L) as [|k] eqn:E; cbn in H.
    + inversion H. split; [lia|auto].
    + destruct k; discriminate.
Qed.

Lemma chain_thread_worker L lz p j :
  j < L -> nth_error (chain_threads L lz p) j = Some (Worker (chain_prog lz j) 0 0).
Proof.
  intros H. unfold chain_threads. rewrite nth_error_app1 by (rewrite map_length, seq_length; auto).
  rewrite nth_error_map, nth_seq by auto. reflexivity.
Qed.

Lemma chain_thread_sink L lz p : nth_error (chain_threads L lz p) L = Some (Sink (L - 1) 0 (Some p)).
Proof.
  unfold chain_threads. rewrite nth_error_app2 by (rewrite map_length, seq_length; auto).
  rewrite map_length, seq_length, Nat.sub_diag. reflexivity.
Qed.

Lemma chain_roles lz j x :
  In x (map op_role (chain_prog lz j)) -> x = (j, TS) \/ (exists k, j = S k /\ x = (k, TR 0)).
Proof. unfold chain_prog, sender_prog. destruct lz, j; cbn; intuition eauto. Qed.

Lemma chain_sends lz j : sends_of (chain_prog lz j) = [j].
Proof. destruct lz, j; reflexivity. Qed.

Lemma chain_prog_len lz j : 0 < length (chain_prog lz j).
Proof. destruct lz, j; cbn; lia. Qed.

Lemma chain_pull lz k : In (OPull k 0) (chain_prog lz (S k)).
Proof. destruct lz; cbn; auto. Qed.

Lemma chain_owner L lz p : owner_ok (map roles (chain_threads L lz p)).
Proof.
  intros w1 w2 r1 r2 x Hne H1 H2 Hx1 Hx2. rewrite nth_error_map in H1, H2.
  destruct (nth_error (chain_threads L lz p) w1) as [t1|] eqn:E1; [|discriminate].
  destruct (nth_error (chain_threads L lz p) w2) as [t2|] eqn:E2; [|discriminate].
  cbn in H1, H2. inversion H1; subst r1. inversion H2; subst r2. clear H1 H2.
  destruct (chain_thread_nth _ _ _ _ _ E1) as [(L1 & ->)|(-> & ->)];
    destruct (chain_thread_nth _ _ _ _ _ E2) as [(L2 & ->)|(-> & ->)]; cbn [roles] in Hx1, Hx2.
  - apply chain_roles in Hx1. apply chain_roles in Hx2.
    destruct Hx1 as [->|(k1 & -> & ->)]; destruct Hx2 as [Hx|(k2 & -> & Hx)]; inversion Hx; subst; lia.
  - apply chain_roles in Hx1. destruct Hx2 as [Hx|[]]. subst x.
    destruct Hx1 as [Hx|(k1 & -> & Hx)]; inversion Hx; subst; lia.
  - apply chain_roles in Hx2. destruct Hx1 as [Hx|[]]. subst x.
    destruct Hx2 as [Hx|(k2 & -> & Hx)]; inversion Hx; subst; lia.
  - congruence.
Qed.

Lemma chain_boxes_ok L c lz : boxes_ok (chain_boxes L c lz).
Proof.
  intros d cfg ds H. apply nth_repeat_inv in H. destruct H as [H _]. inversion H; subst. split; discriminate.
Qed.

Lemma chain_threads_ok L c lz p :
  1 <= L -> forall w th, nth_error (chain_threads L lz p) w = Some th -> thread_init_ok (chain_boxes L c lz) th.
Proof.
  intros HL w th H. destruct (chain_thread_nth _ _ _ _ _ H) as [(Hw & ->)|(-> & ->)]; split.
  - repeat split; auto using chain_prog_len. rewrite chain_sends. repeat constructor. intros [].
  - intros u i Hin. cbn [roles] in Hin. apply chain_roles in Hin.
    destruct Hin as [Hx|(k & -> & Hx)]; inversion Hx; subst.
    exists (mkConfig (Some c) lz), [true]. split; [apply nth_repeat; lia|cbn; lia].
  - exact I.
  - intros u i Hin. destruct Hin as [Hx|[]]. inversion Hx; subst.
    exists (mkConfig (Some c) lz), [true]. split; [apply nth_repeat; lia|cbn; lia].
Qed.

Lemma chain_GI L c lz p N : 1 <= L -> GI N (chain_net L c lz p N).
Proof.
  intros HL. unfold chain_net. apply wf_GI.
  - apply chain_boxes_ok.
  - apply chain_threads_ok; auto.
  - apply chain_owner.
Qed.

Lemma chain_cap L c lz p N u : u < L -> cap_of (n_boxes (chain_net L c lz p N)) u = c.
Proof.
  intros H. unfold cap_of, chain_net, mk_net, chain_boxes. cbn [n_boxes].
  rewrite nth_error_map, nth_repeat by auto. reflexivity.
Qed.

Lemma chain_reach L c lz p N : forall k, k < L ->
  reach (chain_net L c lz p N) (L - 1 - k) (p + 2 * c * S k).
Proof.
  induction k as [|k IH]; intros Hk.
  - rewrite Nat.sub_0_r.
    replace (p + 2 * c * 1) with (p + 2 * cap_of (n_boxes (chain_net L c lz p N)) (L - 1))
      by (rewrite chain_cap by lia; lia).
    eapply reach_sink with (i := 0). exists L. cbn [n_threads chain_net mk_net].
    rewrite chain_thread_sink. reflexivity.
  - specialize (IH ltac:(lia)).
    replace (p + 2 * c * S (S k)) with (p + 2 * c * S k + 2 * cap_of (n_boxes (chain_net L c lz p N)) (L - 1 - S k))
      by (rewrite chain_cap by lia; lia).
    eapply (reach_edge _ (chain_prog lz (L - 1 - k)) (L - 1 - S k) 0 (L - 1 - k)); auto.
    + exists (L - 1 - k). cbn [n_threads chain_net mk_net]. rewrite chain_thread_worker by lia. reflexivity.
    + replace (L - 1 - k) with (S (L - 1 - S k)) by lia. apply chain_pull.
    + rewrite chain_sends. left; reflexivity.
Qed.

(* quiescence_bound_chain, the counting part: in every reachable state of every schedule the source has
   been advanced at most p + B_chain L c times *)
Theorem chain_bound L c lz p N sched n :
  1 <= L -> nrun (chain_net L c lz p N) sched = Some n ->
  advances N (n_boxes n) 0 <= p + B_chain L c.
Proof.
  intros HL Hrun.
  pose proof (flow_bound N _ sched n 0 (p + 2 * c * L) (chain_GI L c lz p N HL) Hrun) as H.
  unfold B_chain. assert (Hr : reach (chain_net L c lz p N) 0 (p + 2 * c * L)).
  { pose proof (chain_reach L c lz p N (L - 1) ltac:(lia)) as Hr.
    replace (L - 1 - (L - 1)) with 0 in Hr by lia. replace (S (L - 1)) with L in Hr by lia. exact Hr. }
  specialize (H Hr). lia.
Qed.

(* every mailbox of the chain: at most max_messages undelivered messages (eager_capacity_everywhere) *)
Lemma mk_net_fresh nb ths N : starts_fresh (mk_net nb ths N).
Proof.
  intros d cfg st H. unfold mk_net in H. cbn [n_boxes] in H.
  apply nth_error_map_some in H. destruct H as ([cfg0 ds] & _ & Heq). inversion Heq; subst. eauto.
Qed.

(* ================= one multi-output stage ================= *)
Lemma sends_gates l : sends_of (map OGate l) = [].
Proof. unfold sends_of. induction l as [|g l IH]; cbn; auto. Qed.

Lemma sends_sends l : sends_of (map OSend l) = l.
Proof. unfold sends_of. induction l as [|g l IH]; cbn; auto. f_equal. exact IH. Qed.

Section Fanout.
Variables (k c : nat) (lz : bool) (gated : list nat) (drives : nat -> list bool)
          (sides : list (nat * nat)) (t it p N : nat).
Hypothesis Ht : t < k.
Hypothesis Hgated : forall g, In g gated -> 2 <= g.
Hypothesis Hdrives : forall j, j < k -> drives j <> [].
Hypothesis Hit : it < length (drives t).
Hypothesis Hsides : forall u i, In (u, i) sides -> exists j, j < k /\ u = 2 + j /\ i < length (drives j).
Hypothesis Hnodup : NoDup ((2 + t, it) :: sides).

Let ths := fanout_threads k lz gated sides t it p.
Let nb := fanout_boxes k c lz gated drives.

Lemma fo_nb_out j : j < k -> nth_error nb (2 + j) = Some (mkConfig (Some c) (lz && memb (2 + j) gated), drives j).
Proof.
  intros H. unfold nb, fanout_boxes. cbn [app nth_error plus]. rewrite nth_error_map, nth_seq by auto. reflexivity.
Qed.

Lemma fo_boxes_ok : boxes_ok nb.
Proof.
  intros d cfg ds H. unfold nb, fanout_boxes in H.
  destruct d as [|[|d]]; cbn [app nth_error] in H.
  - inversion H; subst. split; discriminate.
  - inversion H; subst. split; discriminate.
  - apply nth_error_map_some in H. destruct H as (j & Hj & Heq). inversion Heq; subst.
    assert (d < k) by (rewrite <- (seq_length k 0); apply nth_error_Some; congruence).
    rewrite nth_seq in Hj by auto. inversion Hj; subst. split; [discriminate|apply Hdrives; auto].
Qed.

(* the role classes *)
Definition R0 (x : nat * tid) : Prop := x = (0, TS).
Definition R1 (x : nat * tid) : Prop := x = (1, TS) \/ x = (0, TR 0).
Definition R2 (x : nat * tid) : Prop := (exists m, 2 <= m /\ x = (m, TS)) \/ x = (1, TR 0).
Definition RS (x : nat * tid) : Prop := exists u i, 2 <= u /\ x = (u, TR i).

Lemma roles_w0 x : In x (map op_role (sender_prog lz 0 [])) -> R0 x.
Proof. unfold sender_prog, R0. destruct lz; cbn; intuition. Qed.
Lemma roles_w1 x : In x (map op_role (sender_prog lz 1 [(0, 0)])) -> R1 x.
Proof. unfold sender_prog, R1. destruct lz; cbn; intuition. Qed.
Lemma roles_w2 x : In x (map op_role (divider_prog lz k gated)) -> R2 x.
Proof.
  unfold divider_prog, R2. rewrite !map_app, !in_app_iff. intros [H|[H|H]].
  - destruct lz; [|destruct H]. rewrite map_map in H. apply in_map_iff in H. destruct H as (g & <- & Hg).
    left. exists g. split; auto.
  - cbn in H. destruct H as [<-|[]]. auto.
  - rewrite map_map in H. apply in_map_iff in H. destruct H as (m & <- & Hm). apply in_seq in Hm.
    left. exists m. split; [lia|reflexivity].
Qed.

Lemma fo_thread_nth w th :
  nth_error ths w = Some th ->
  (w = 0 /\ th = Worker (sender_prog lz 0 []) 0 0) \/
  (w = 1 /\ th = Worker (sender_prog lz 1 [(0, 0)]) 0 0) \/
  (w = 2 /\ th = Worker (divider_prog lz k gated) 0 0) \/
  (exists s ui, w = 3 + s /\ nth_error sides s = Some ui /\ th = Sink (fst ui) (snd ui) None) \/
  (w = 3 + length sides /\ th = Sink (2 + t) it (Some p)).
Proof.
  unfold ths, fanout_threads. destruct w as [|[|[|w]]]; cbn [app nth_error]; intros H.
  - inversion H; auto.
  - inversion H; auto.
  - inversion H; auto 6.
  - right. right. right. destruct (Nat.lt_ge_cases w (length sides)) as [Hlt|Hge].
    + left. rewrite nth_error_app1 in H by (rewrite map_length; auto). rewrite nth_error_map in H.
      destruct (nth_error sides w) as [ui|] eqn:E; [|discriminate]. inversion H. exists w, ui. auto.
    + right. rewrite nth_error_app2 in H by (rewrite map_length; auto). rewrite map_length in H.
      destruct (w - length sides) as [|q] eqn:E; cbn in H.
      * inversion H. split; [lia|auto].
      * destruct q; discriminate.
Qed.

Lemma side_role s ui x : nth_error sides s = Some ui -> In x (roles (Sink (fst ui) (snd ui) None)) ->
  RS x /\ x = (fst ui, TR (snd ui)) /\ In ui sides.
Proof.
  intros Hs [<-|[]]. pose proof (nth_error_In _ _ Hs) as Hin. destruct ui as [u i].
  destruct (Hsides _ _ Hin) as (j & Hj & -> & _). cbn [fst snd]. repeat split; auto.
  exists (2 + j), i. split; [lia|reflexivity].
Qed.

Lemma R_disjoint x :
  (R0 x -> R1 x -> False) /\ (R0 x -> R2 x -> False) /\ (R0 x -> RS x -> False) /\
  (R1 x -> R2 x -> False) /\ (R1 x -> RS x -> False) /\ (R2 x -> RS x -> False).
Proof.
  unfold R0, R1, R2, RS. repeat split.
  - intros -> [H|H]; inversion H.
  - intros -> [(m & Hm & H)|H]; inversion H; lia.
  - intros -> (u & i & Hu & H); inversion H.
  - intros [->| ->] [(m & Hm & H)|H]; inversion H; lia.
  - intros [->| ->] (u & i & Hu & H); inversion H; lia.
  - intros [(m & Hm & ->)| ->] (u & i & Hu & H); inversion H; lia.
Qed.

Lemma fo_owner : owner_ok (map roles ths).
Proof.
  intros w1 w2 r1 r2 x Hne H1 H2 Hx1 Hx2. rewrite nth_error_map in H1, H2.
  destruct (nth_error ths w1) as [t1|] eqn:E1; [|discriminate].
  destruct (nth_error ths w2) as [t2|] eqn:E2; [|discriminate].
  cbn in H1, H2. inversion H1; subst r1. inversion H2; subst r2. clear H1 H2.
  destruct (R_disjoint x) as (D01 & D02 & D0S & D12 & D1S & D2S).
  assert (Hcons : forall y, In y (roles (Sink (2 + t) it (Some p))) -> RS y /\ y = (2 + t, TR it)).
  { intros y [<-|[]]. split; auto. exists (2 + t), it. split; [lia|reflexivity]. }
  apply NoDup_cons_iff in Hnodup. destruct Hnodup as [Hnot Hnd].
  destruct (fo_thread_nth _ _ E1) as [(-> & ->)|[(-> & ->)|[(-> & ->)|[(s1 & ui1 & -> & Hs1 & ->)|(-> & ->)]]]];
    destruct (fo_thread_nth _ _ E2) as [(-> & ->)|[(-> & ->)|[(-> & ->)|[(s2 & ui2 & -> & Hs2 & ->)|(-> & ->)]]]];
    try congruence; cbn [roles] in Hx1, Hx2;
    try (apply roles_w0 in Hx1); try (apply roles_w1 in Hx1); try (apply roles_w2 in Hx1);
    try (apply roles_w0 in Hx2); try (apply roles_w1 in Hx2); try (apply roles_w2 in Hx2);
    try (destruct (side_role _ _ _ Hs1 Hx1) as (Hx1a & Hx1b & Hx1c));
    try (destruct (side_role _ _ _ Hs2 Hx2) as (Hx2a & Hx2b & Hx2c));
    try (destruct (Hcons _ Hx1) as (Hc1a & Hc1b)); try (destruct (Hcons _ Hx2) as (Hc2a & Hc2b));
    eauto.
  - (* two different side sinks *)
    assert (ui1 = ui2) by (destruct ui1, ui2; cbn [fst snd] in *; congruence).
    subst ui2. assert (s1 = s2); [|lia].
    eapply (proj1 (NoDup_nth_error sides) Hnd); [apply nth_error_Some; congruence|congruence].
  - (* a side sink and the consumer *)
    apply Hnot. destruct ui1 as [u1 i1]. cbn [fst snd] in *.
    assert (E : (u1, i1) = (2 + t, it)) by congruence. rewrite <- E. exact Hx1c.
  - apply Hnot. destruct ui2 as [u2 i2]. cbn [fst snd] in *.
    assert (E : (u2, i2) = (2 + t, it)) by congruence. rewrite <- E. exact Hx2c.
Qed.

Lemma divider_sends : sends_of (divider_prog lz k gated) = seq 2 k.
Proof.
  unfold divider_prog. rewrite !sends_of_app, sends_sends.
  destruct lz; [rewrite sends_gates|]; reflexivity.
Qed.

Lemma fo_threads_ok w th : nth_error ths w = Some th -> thread_init_ok nb th.
Proof.
  intros H.
  destruct (fo_thread_nth _ _ H) as [(-> & ->)|[(-> & ->)|[(-> & ->)|[(s & ui & -> & Hs & ->)|(-> & ->)]]]]; split.
  - repeat split; auto; [destruct lz; cbn; lia|destruct lz; cbn; repeat constructor; intros []].
  - intros u i Hin. cbn [roles] in Hin. apply roles_w0 in Hin. inversion Hin.
  - repeat split; auto; [destruct lz; cbn; lia|destruct lz; cbn; repeat constructor; intros []].
  - intros u i Hin. cbn [roles] in Hin. apply roles_w1 in Hin. destruct Hin as [Hx|Hx]; inversion Hx; subst.
    exists (mkConfig (Some c) lz), [true]. split; [reflexivity|cbn; lia].
  - repeat split; auto.
    + unfold divider_prog. rewrite !app_length. cbn. lia.
    + rewrite divider_sends. apply seq_NoDup.
  - intros u i Hin. cbn [roles] in Hin. apply roles_w2 in Hin.
    destruct Hin as [(m & _ & Hx)|Hx]; inversion Hx; subst.
    exists (mkConfig (Some c) lz), [true]. split; [reflexivity|cbn; lia].
  - exact I.
  - intros u i Hin. destruct (side_role _ _ _ Hs Hin) as (_ & Hx & Hin'). inversion Hx; subst.
    destruct ui as [u i]. cbn [fst snd] in *. destruct (Hsides _ _ Hin') as (j & Hj & -> & Hi).
    eexists _, _. split; [apply fo_nb_out; auto|auto].
  - exact I.
  - intros u i [Hx|[]]. inversion Hx; subst. eexists _, _. split; [apply fo_nb_out; auto|auto].
Qed.

Lemma fanout_GI : GI N (fanout_net k c lz gated drives sides t it p N).
Proof. unfold fanout_net. apply wf_GI; [apply fo_boxes_ok|apply fo_threads_ok|apply fo_owner]. Qed.

Lemma fo_cap u : u < 2 + k -> cap_of (n_boxes (fanout_net k c lz gated drives sides t it p N)) u = c.
Proof.
  intros H. unfold cap_of, fanout_net, mk_net. cbn [n_boxes]. rewrite nth_error_map. fold nb.
  destruct u as [|[|u]]; [reflexivity|reflexivity|].
  replace (S (S u)) with (2 + u) by lia. rewrite fo_nb_out by lia. reflexivity.
Qed.

Lemma fanout_reach : reach (fanout_net k c lz gated drives sides t it p N) 0 (p + 6 * c).
Proof.
  set (n0 := fanout_net k c lz gated drives sides t it p N).
  assert (R2' : reach n0 (2 + t) (p + 2 * c)).
  { replace (p + 2 * c) with (p + 2 * cap_of (n_boxes n0) (2 + t)) by (unfold n0; rewrite fo_cap by lia; lia).
    eapply reach_sink with (i := it). exists (3 + length sides).
    unfold n0, fanout_net, mk_net, fanout_threads. cbn [n_threads app nth_error plus].
    rewrite nth_error_app2 by (rewrite map_length; auto). rewrite map_length, Nat.sub_diag. reflexivity. }
  assert (R1' : reach n0 1 (p + 2 * c + 2 * c)).
  { replace (p + 2 * c + 2 * c) with (p + 2 * c + 2 * cap_of (n_boxes n0) 1)
      by (unfold n0; rewrite fo_cap by lia; lia).
    eapply (reach_edge _ (divider_prog lz k gated) 1 0 (2 + t)); eauto.
    - exists 2. reflexivity.
    - unfold divider_prog. apply in_or_app. right. left. reflexivity.
    - rewrite divider_sends. apply in_seq. lia. }
  replace (p + 6 * c) with (p + 2 * c + 2 * c + 2 * cap_of (n_boxes n0) 0)
    by (unfold n0; rewrite fo_cap by lia; lia).
  eapply (reach_edge _ (sender_prog lz 1 [(0, 0)]) 0 0 1); eauto.
  - exists 1. reflexivity.
  - destruct lz; cbn; auto.
  - destruct lz; cbn; auto.
Qed.

(* quiescence_bound_fanout, the counting part *)
Theorem fanout_bound sched n :
  nrun (fanout_net k c lz gated drives sides t it p N) sched = Some n ->
  advances N (n_boxes n) 0 <= p + B_fanout c.
Proof.
  intros Hrun. pose proof (flow_bound N _ sched n 0 (p + 6 * c) fanout_GI Hrun fanout_reach).
  unfold B_fanout. lia.
Qed.
End Fanout.
