(* C14: concrete states that satisfy the hypotheses of the proved theorems, and the witnesses on which the
   PINNED tree (before /repo bea6d1c and 317aec4, Model/SuperrunPinned.v) violated the property. *)
From SV Require Import Model.Annot Model.Superrun Model.SuperrunPinned Proof.SuperrunKeyProof Proof.AnnotProof
     Proof.SuperrunRowsProof Proof.SuperrunExactProof Proof.SuperrunTotalProof Proof.SuperrunMainProof.
From Coq Require Import Permutation Sorted.

Lemma lgood_intro T prun x S E c :
  la x < le x -> lr x <> prun -> mk_chunk (la x) (le x) (lrows x) 0 0 None 0 = Ok c -> 0 <= lr x ->
  In (mkspan (Some (lr x)) S E) T -> S <= la x -> le x <= E -> lgood T prun x.
Proof.
  intros H1 H2 H3 H4 H5 H6 H7. split; [split; [exact H1|split; [exact H2|exists c; exact H3]]|].
  split; [exact H4|]. exists S, E. auto.
Qed.

Ltac lg S E :=
  eapply (lgood_intro _ _ _ S E); [cbn; lia|cbn; lia|vm_compute; reflexivity|cbn; lia|cbn; auto|cbn; lia|cbn; lia].

(* a valid instance: the sub-runs' chunks L in spec order, T = the sub-runs' spans *)
Definition valid_instance (T : annot) (prun : Z) (L : list lc) : Prop :=
  wfa T /\ NoDup (keys T) /\ has_none_key T = false /\ prun < 0 /\ L <> [] /\
  Forall (lgood T prun) L /\
  lorder 0 (la (hd (mklc 0 0 0 []) L)) L /\ lgaps T (la (hd (mklc 0 0 0 []) L)) L.

(* ---------------------------------------------------------------------------------------------
   finding F2 (fixed by bea6d1c): a gap between the sub-runs
   --------------------------------------------------------------------------------------------- *)
Definition f2_T : annot := [mkspan (Some 1) 0 20; mkspan (Some 2) 30 45].
Definition f2_L : list lc :=
  [mklc 1 0 20 [mkrow 1 2 0 1]; mklc 2 30 40 [mkrow 31 32 1 2]; mklc 2 40 45 []].
Definition f2_subs : list (list stored) :=
  [[stored_of 11 1 4 (mklc 1 0 20 [mkrow 1 2 0 1])];
   [stored_of 11 1 4 (mklc 2 30 40 [mkrow 31 32 1 2]); stored_of 11 1 4 (mklc 2 40 45 [])]].
Definition f2_levels : list level := [mklevel 12 1 false 4; mklevel 13 1 false 4].

Lemma f2_valid : valid_instance f2_T (-1) f2_L.
Proof.
  split; [split; repeat constructor; cbn; lia|].
  split; [repeat constructor; cbn; intuition discriminate|].
  split; [reflexivity|]. split; [lia|]. split; [discriminate|].
  split; [constructor; [lg 0 20|]; constructor; [lg 30 45|]; constructor; [lg 30 45|]; constructor|].
  split; [cbn; repeat split; try lia; intros H; discriminate H || lia|].
  cbn. repeat split; reflexivity.
Qed.

(* on the pinned tree the last chunk [40,45) recorded run 2 with span (30,45) *)
Theorem superrun_annotations_exact_pinned_refuted :
  exists T prun L subruns levels out,
    valid_instance T prun L /\ concat subruns = map (stored_of 11 1 4) L /\ levels <> [] /\
    superrun_get_pinned prun levels subruns = Ok out /\ ~ Forall (exactc T prun) out.
Proof.
  exists f2_T, (-1), f2_L, f2_subs, f2_levels.
  assert (E : exists out, superrun_get_pinned (-1) f2_levels f2_subs = Ok out /\
                          exists c, nth_error out 2 = Some c /\ asub c = Some [mkspan (Some 2) 30 45] /\
                                    cstart (abase c) = 40 /\ cend (abase c) = 45).
  { vm_compute. eexists. split; [reflexivity|]. eexists. split; [reflexivity|]. repeat split. }
  destruct E as (out & Hget & c & Hnth & Hsub & Hs & He).
  exists out. split; [exact f2_valid|]. split; [reflexivity|]. split; [discriminate|]. split; [exact Hget|].
  intros H. apply nth_error_In in Hnth. rewrite Forall_forall in H. specialize (H c Hnth).
  destruct H as (_ & _ & Hex & _). rewrite Hs, He, Hsub in Hex. vm_compute in Hex. discriminate Hex.
Qed.

(* ... and now it records (40,45): the repaired model on the same input *)
Example f2_now_exact :
  exists out savs, superrun_get (-1) false f2_levels f2_subs = Ok (out, savs) /\
    map (fun c => (cstart (abase c), cend (abase c), asub c)) out =
    [(0, 20, Some [mkspan (Some 1) 0 20]); (20, 40, Some [mkspan (Some 2) 30 40]); (40, 45, Some [mkspan (Some 2) 40 45])].
Proof. vm_compute. eexists. eexists. split; reflexivity. Qed.

(* the same defect, one more chunk and one more level: processing failed *)
Definition f2b_L : list lc :=
  [mklc 1 0 20 [mkrow 1 2 0 1]; mklc 2 30 40 [mkrow 31 32 1 2]; mklc 2 40 45 []; mklc 2 45 50 []].
Definition f2b_T : annot := [mkspan (Some 1) 0 20; mkspan (Some 2) 30 50].
Definition f2b_subs : list (list stored) :=
  [[stored_of 10 1 4 (mklc 1 0 20 [mkrow 1 2 0 1])];
   [stored_of 10 1 4 (mklc 2 30 40 [mkrow 31 32 1 2]); stored_of 10 1 4 (mklc 2 40 45 []);
    stored_of 10 1 4 (mklc 2 45 50 [])]].
Definition f2b_levels : list level := [mklevel 11 1 false 4; mklevel 12 1 false 4; mklevel 13 1 false 4].

Lemma f2b_valid : valid_instance f2b_T (-1) f2b_L.
Proof.
  split; [split; repeat constructor; cbn; lia|].
  split; [repeat constructor; cbn; intuition discriminate|].
  split; [reflexivity|]. split; [lia|]. split; [discriminate|].
  split; [constructor; [lg 0 20|]; constructor; [lg 30 50|]; constructor; [lg 30 50|]; constructor; [lg 30 50|]; constructor|].
  split; [cbn; repeat split; try lia; intros H; discriminate H || lia|].
  cbn. repeat split; reflexivity.
Qed.

Theorem superrun_rows_pinned_refuted :
  exists T prun L subruns levels e,
    valid_instance T prun L /\ concat subruns = map (stored_of 10 1 4) L /\ levels <> [] /\
    superrun_get_pinned prun levels subruns = Err e.
Proof.
  exists f2b_T, (-1), f2b_L, f2b_subs, f2b_levels, E_MERGE_SPANS.
  split; [exact f2b_valid|]. split; [reflexivity|]. split; [discriminate|]. vm_compute. reflexivity.
Qed.

Example f2b_now_runs :
  exists out savs, superrun_get (-1) false f2b_levels f2b_subs = Ok (out, savs) /\ length out = 4%nat.
Proof. vm_compute. eexists. eexists. split; reflexivity. Qed.

(* finding F1 (fixed by 317aec4): on the pinned tree check_cache chained the sub-runs in the order of
   run_metadata(...)["sub_run_spec"], which a DataDirectory returns ordered by run id *)
Theorem spec_by_start_pinned_refuted :
  exists start_of data,
    ~ StronglySorted (fun a b => start_of a <= start_of b) (sub_run_spec start_of data).
Proof. exact sub_run_spec_not_by_start. Qed.

Example chained_spec_f1 : chained_spec start_f1 [2; 1] = [2; 1].
Proof. vm_compute. reflexivity. Qed.

(* ---------------------------------------------------------------------------------------------
   the hypotheses of the proved theorems are satisfiable: two touching sub-runs, three chunks, two
   superrun-capable levels, the lower one rechunking across the sub-run border, everything written
   --------------------------------------------------------------------------------------------- *)
Definition ex_T : annot := [mkspan (Some 1) 0 3000; mkspan (Some 2) 3000 9000].
Definition ex_L : list lc :=
  [mklc 1 0 3000 [mkrow 100 101 0 1; mkrow 2500 2501 1 1];
   mklc 2 3000 6000 [mkrow 4000 4001 2 2]; mklc 2 6000 9000 [mkrow 7000 7001 3 2; mkrow 8500 8501 4 2]].
Definition ex_subs : list (list stored) :=
  [[stored_of 11 1 4 (mklc 1 0 3000 [mkrow 100 101 0 1; mkrow 2500 2501 1 1])];
   [stored_of 11 1 4 (mklc 2 3000 6000 [mkrow 4000 4001 2 2]);
    stored_of 11 1 4 (mklc 2 6000 9000 [mkrow 7000 7001 3 2; mkrow 8500 8501 4 2])]].
Definition ex_levels : list level := [mklevel 12 1 true 1; mklevel 13 1 false 4].

Example ex_hypotheses : valid_instance ex_T (-1) ex_L /\ concat ex_subs = map (stored_of 11 1 4) ex_L.
Proof.
  split; [|reflexivity].
  split; [split; repeat constructor; cbn; lia|].
  split; [repeat constructor; cbn; intuition discriminate|].
  split; [reflexivity|]. split; [lia|]. split; [discriminate|].
  split; [constructor; [lg 0 3000|]; constructor; [lg 3000 9000|]; constructor; [lg 3000 9000|]; constructor|].
  split; [cbn; repeat split; try lia; intros H; discriminate H || lia|].
  cbn. repeat split; reflexivity.
Qed.

(* ... and the model really runs on it: four chunks are stored for the lower level, the one
   that straddles the border records both runs *)
Example ex_runs :
  exists out savs, superrun_get (-1) true ex_levels ex_subs = Ok (out, savs) /\
    length out = 3%nat /\
    map (fun sv => map (fun s => st_sub s) sv) savs =
    [[Some [mkspan (Some 1) 0 2000]; Some [mkspan (Some 1) 2000 3000; mkspan (Some 2) 3000 3500];
      Some [mkspan (Some 2) 3500 6500]; Some [mkspan (Some 2) 6500 9000]];
     [Some [mkspan (Some 1) 0 3000]; Some [mkspan (Some 2) 3000 6000]; Some [mkspan (Some 2) 6000 9000]]].
Proof. vm_compute. eexists. eexists. split; [reflexivity|]. split; reflexivity. Qed.

(* annotations: a split strictly inside a span and its inverse *)
Example ex_split_concat :
  let l := [mkspan (Some 1) 0 4; mkspan (Some 2) 4 10] in
  wfa l /\ NoDup (keys l) /\
  split_runs (Some l) 6 = (Some [mkspan (Some 1) 0 4; mkspan (Some 2) 4 6], Some [mkspan (Some 2) 6 10]) /\
  mergable_check (merge_runs (Some [mkspan (Some 2) 6 10])
                    (merge_runs (Some [mkspan (Some 1) 0 4; mkspan (Some 2) 4 6]) [])) false = Ok l.
Proof.
  cbn zeta. split; [split; repeat constructor; cbn; lia|].
  split; [repeat constructor; cbn; intuition discriminate|]. split; vm_compute; reflexivity.
Qed.
