(* C14: the full statements, the witnesses that refute them on the faithful model (two defects of the
   pinned tree), and concrete states that satisfy the hypotheses of the proved theorems. *)
From SV Require Import Model.Annot Model.Superrun Proof.SuperrunKeyProof Proof.AnnotProof
     Proof.SuperrunRowsProof Proof.SuperrunExactProof Proof.SuperrunTotalProof Proof.SuperrunMainProof.
From Coq Require Import Permutation Sorted.

(* the chunks of the sub-runs in spec order: ordered in time, gaps allowed *)
Fixpoint lorder (e : Z) (l : list lc) : Prop :=
  match l with [] => True | x :: r => e <= la x /\ lorder (le x) r end.

(* FULL statement of superrun_annotations_exact: whatever the gaps between the sub-runs *)
Definition full_superrun_annotations_exact : Prop :=
  forall T prun dt k tgt L subruns levels write out savs,
    wfa T -> NoDup (keys T) -> has_none_key T = false -> prun < 0 ->
    concat subruns = map (stored_of dt k tgt) L -> L <> [] ->
    Forall (lgood T prun) L -> lorder 0 L -> levels <> [] ->
    superrun_get prun write levels subruns = Ok (out, savs) ->
    Forall (exactc T prun) out.

(* FULL statement of superrun_rows: processing returns, with the sub-runs' rows in order *)
Definition full_superrun_rows : Prop :=
  forall T prun dt k tgt L subruns levels write,
    wfa T -> NoDup (keys T) -> has_none_key T = false -> prun < 0 ->
    concat subruns = map (stored_of dt k tgt) L -> L <> [] ->
    Forall (lgood T prun) L -> lorder 0 L -> levels <> [] ->
    exists out savs, superrun_get prun write levels subruns = Ok (out, savs) /\
                     rows_of_stream out = flat_map lrows L.

(* FULL statement of the ordering: what is read back as sub_run_spec is ordered by run start *)
Definition full_spec_by_start : Prop :=
  forall start_of data,
    StronglySorted (fun a b => start_of a <= start_of b) (sub_run_spec start_of data).

Lemma lgood_intro T prun x S E c :
  la x < le x -> lr x <> prun -> mk_chunk (la x) (le x) (lrows x) 0 0 None 0 = Ok c -> 0 <= lr x ->
  In (mkspan (Some (lr x)) S E) T -> S <= la x -> le x <= E -> lgood T prun x.
Proof.
  intros H1 H2 H3 H4 H5 H6 H7. split; [split; [exact H1|split; [exact H2|exists c; exact H3]]|].
  split; [exact H4|]. exists S, E. auto.
Qed.

Ltac lg S E :=
  eapply (lgood_intro _ _ _ S E); [cbn; lia|cbn; lia|vm_compute; reflexivity|cbn; lia|cbn; auto|cbn; lia|cbn; lia].

(* ---------------------------------------------------------------------------------------------
   finding F2: a gap between the sub-runs
   --------------------------------------------------------------------------------------------- *)
Definition f2_T : annot := [mkspan (Some 1) 0 20; mkspan (Some 2) 30 45].
Definition f2_L : list lc :=
  [mklc 1 0 20 [mkrow 1 2 0 1]; mklc 2 30 40 [mkrow 31 32 1 2]; mklc 2 40 45 []].
Definition f2_subs : list (list stored) :=
  [[stored_of 11 1 4 (mklc 1 0 20 [mkrow 1 2 0 1])];
   [stored_of 11 1 4 (mklc 2 30 40 [mkrow 31 32 1 2]); stored_of 11 1 4 (mklc 2 40 45 [])]].
Definition f2_levels : list level := [mklevel 12 1 false 4; mklevel 13 1 false 4].

Lemma f2_wfa : wfa f2_T. Proof. split; repeat constructor; cbn; lia. Qed.
Lemma f2_nodup : NoDup (keys f2_T).
Proof. repeat constructor; cbn; intuition discriminate. Qed.
Lemma f2_good : Forall (lgood f2_T (-1)) f2_L.
Proof.
  constructor; [lg 0 20|]. constructor; [lg 30 45|]. constructor; [lg 30 45|]. constructor.
Qed.

Theorem superrun_annotations_exact_refuted : ~ full_superrun_annotations_exact.
Proof.
  intros H.
  assert (E : exists out savs, superrun_get (-1) false f2_levels f2_subs = Ok (out, savs) /\
                               exists c, nth_error out 2 = Some c /\ asub c = Some [mkspan (Some 2) 30 45] /\
                                         cstart (abase c) = 40 /\ cend (abase c) = 45).
  { vm_compute. eexists. eexists. split; [reflexivity|]. eexists. split; [reflexivity|]. repeat split. }
  destruct E as (out & savs & Hget & c & Hnth & Hsub & Hs & He).
  specialize (H f2_T (-1) 11 1 4 f2_L f2_subs f2_levels false out savs f2_wfa f2_nodup eq_refl ltac:(lia)
                eq_refl ltac:(discriminate) f2_good).
  assert (Hord : lorder 0 f2_L) by (cbn; lia).
  specialize (H Hord ltac:(discriminate) Hget).
  apply nth_error_In in Hnth. rewrite Forall_forall in H. specialize (H c Hnth).
  destruct H as (_ & _ & _ & _ & Hex & _). rewrite Hs, He, Hsub in Hex. vm_compute in Hex. discriminate Hex.
Qed.

(* the same defect, one more chunk and one more level: processing fails *)
Definition f2b_L : list lc :=
  [mklc 1 0 20 [mkrow 1 2 0 1]; mklc 2 30 40 [mkrow 31 32 1 2]; mklc 2 40 45 []; mklc 2 45 50 []].
Definition f2b_T : annot := [mkspan (Some 1) 0 20; mkspan (Some 2) 30 50].
Definition f2b_subs : list (list stored) :=
  [[stored_of 10 1 4 (mklc 1 0 20 [mkrow 1 2 0 1])];
   [stored_of 10 1 4 (mklc 2 30 40 [mkrow 31 32 1 2]); stored_of 10 1 4 (mklc 2 40 45 []);
    stored_of 10 1 4 (mklc 2 45 50 [])]].
Definition f2b_levels : list level := [mklevel 11 1 false 4; mklevel 12 1 false 4; mklevel 13 1 false 4].

Lemma f2b_wfa : wfa f2b_T. Proof. split; repeat constructor; cbn; lia. Qed.
Lemma f2b_nodup : NoDup (keys f2b_T).
Proof. repeat constructor; cbn; intuition discriminate. Qed.
Lemma f2b_good : Forall (lgood f2b_T (-1)) f2b_L.
Proof.
  constructor; [lg 0 20|]. constructor; [lg 30 50|]. constructor; [lg 30 50|]. constructor; [lg 30 50|]. constructor.
Qed.

Theorem superrun_rows_refuted : ~ full_superrun_rows.
Proof.
  intros H.
  assert (Hord : lorder 0 f2b_L) by (cbn; lia).
  destruct (H f2b_T (-1) 10 1 4 f2b_L f2b_subs f2b_levels false f2b_wfa f2b_nodup eq_refl ltac:(lia)
              eq_refl ltac:(discriminate) f2b_good Hord ltac:(discriminate)) as (out & savs & Hget & _).
  vm_compute in Hget. discriminate Hget.
Qed.

(* finding F1: the spec read back from a DataDirectory is ordered by run id, not by run start *)
Theorem spec_by_start_refuted : ~ full_spec_by_start.
Proof.
  intros H. destruct sub_run_spec_not_by_start as (s & d & Hn). apply Hn, H.
Qed.

(* ---------------------------------------------------------------------------------------------
   the hypotheses of the proved theorems are satisfiable: two touching sub-runs, three chunks, two
   superrun-capable levels, the lower one rechunking to single rows across the sub-run border,
   everything written and re-read
   --------------------------------------------------------------------------------------------- *)
Definition ex_T : annot := [mkspan (Some 1) 0 3000; mkspan (Some 2) 3000 9000].
Definition ex_L : list lc :=
  [mklc 1 0 3000 [mkrow 100 101 0 1; mkrow 2500 2501 1 1];
   mklc 2 3000 6000 [mkrow 4000 4001 2 2]; mklc 2 6000 9000 [mkrow 7000 7001 3 2; mkrow 8500 8501 4 2]].
Definition ex_subs : list (list stored) :=
  [[stored_of 11 1 4 (mklc 1 0 3000 [mkrow 100 101 0 1; mkrow 2500 2501 1 1])];
   [stored_of 11 1 4 (mklc 2 3000 6000 [mkrow 4000 4001 2 2]);
    stored_of 11 1 4 (mklc 2 6000 9000 [mkrow 7000 7001 3 2; mkrow 8500 8501 4 2])]].
Definition ex_levels : list level := [mklevel 12 1 true 1; mklevel 13 1 false 4].

Example ex_hypotheses :
  wfa ex_T /\ NoDup (keys ex_T) /\ has_none_key ex_T = false /\ tight ex_T /\
  concat ex_subs = map (stored_of 11 1 4) ex_L /\ ex_L <> [] /\ Forall (lgood ex_T (-1)) ex_L /\
  lchain (la (hd (mklc 0 0 0 []) ex_L)) ex_L.
Proof.
  split; [split; repeat constructor; cbn; lia|].
  split; [repeat constructor; cbn; intuition discriminate|].
  split; [reflexivity|]. split; [cbn; auto|]. split; [reflexivity|]. split; [discriminate|].
  split; [|cbn; auto].
  constructor; [lg 0 3000|]. constructor; [lg 3000 9000|]. constructor; [lg 3000 9000|]. constructor.
Qed.

(* ... and the model really runs on it: four chunks are stored for the lower level, the one
   that straddles the border records both runs *)
Example ex_runs :
  exists out savs, superrun_get (-1) true ex_levels ex_subs = Ok (out, savs) /\
    length out = 3%nat /\
    map (fun sv => map (fun s => st_sub s) sv) savs =
    [[Some [mkspan (Some 1) 0 2000]; Some [mkspan (Some 1) 2000 3000; mkspan (Some 2) 3000 3500];
      Some [mkspan (Some 2) 3500 6500]; Some [mkspan (Some 2) 6500 9000]];
     [Some [mkspan (Some 1) 0 3000]; Some [mkspan (Some 2) 3000 6000]; Some [mkspan (Some 2) 6000 9000]]].
Proof. vm_compute. eexists. eexists. split; [reflexivity|]. split; reflexivity. Qed.

(* annotations: a split strictly inside a span and its inverse *)
Example ex_split_concat :
  let l := [mkspan (Some 1) 0 4; mkspan (Some 2) 4 10] in
  wfa l /\ NoDup (keys l) /\
  split_runs (Some l) 6 = (Some [mkspan (Some 1) 0 4; mkspan (Some 2) 4 6], Some [mkspan (Some 2) 6 10]) /\
  mergable_check (merge_runs (Some [mkspan (Some 2) 6 10])
                    (merge_runs (Some [mkspan (Some 1) 0 4; mkspan (Some 2) 4 6]) [])) false = Ok l.
Proof.
  cbn zeta. split; [split; repeat constructor; cbn; lia|].
  split; [repeat constructor; cbn; intuition discriminate|]. split; vm_compute; reflexivity.
Qed.
