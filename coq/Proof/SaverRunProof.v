(* C04 -- proofs about the saver as the code runs it (Model/SaverRun.v): for every fault plan and every
   schedule the issued operations follow the protocol (so Proof/FsProtocolProof applies), a failure reaches
   the caller, and a fault-free retry ends visible and correct.  The pinned save_from is refuted. *)
From SV Require Import Model.FsProtocol Model.SaverRun Proof.FsProtocolProof.

(* ------------------------------------------------------------------------------------------ *)
(* small facts                                                                                *)
(* ------------------------------------------------------------------------------------------ *)

Lemma number_from_app a l1 l2 :
  number_from a (l1 ++ l2) = number_from a l1 ++ number_from (a + Z.of_nat (length l1)) l2.
Proof.
  revert a; induction l1 as [|[n v] l1 IH]; intros a; cbn [number_from app length].
  - rewrite Z.add_0_r. reflexivity.
  - rewrite IH. f_equal. f_equal. f_equal. lia.
Qed.

Lemma number_from_ids a l i n v : In (i, n, v) (number_from a l) -> a <= i.
Proof.
  revert a; induction l as [|[n' v'] l IH]; intros a H; cbn in H; [destruct H|].
  destruct H as [H|H]; [inversion H; lia | apply IH in H; lia].
Qed.

Lemma infos_app a b : infos (a ++ b) = infos a ++ infos b.
Proof. unfold infos. apply map_app. Qed.

Definition worker_faultless (pl : plan) : Prop :=
  forall nf k i v, pl nf k (OWriteTmp i v) = None /\ pl nf k (ORenameChunk i) = None.

(* the monitor's answers, by operation *)
Section Psteps.
  Variable c : pcfg.
  Variable p : pst.

  Lemma pstep_rmfinal oc : p_ph p = PhInit -> p_allow_rm c = true ->
    pstep c p (ORmFinal, oc) = Some (mkPst PhInit (p_failed p || is_fail oc) (p_tmp p) (p_fin p)).
  Proof. intros H1 H2. unfold pstep. rewrite H1, H2. reflexivity. Qed.

  Lemma pstep_rmtemp oc : p_ph p = PhInit ->
    pstep c p (ORmTemp, oc) = Some (mkPst PhInit (p_failed p || is_fail oc) (p_tmp p) (p_fin p)).
  Proof. intros H1. unfold pstep. rewrite H1. reflexivity. Qed.

  Lemma pstep_mktemp oc : p_ph p = PhInit ->
    pstep c p (OMkTemp, oc) = Some (mkPst (if did oc then PhOpen else PhInit) (p_failed p || is_fail oc) [] []).
  Proof. intros H1. unfold pstep. rewrite H1. reflexivity. Qed.

  Lemma pstep_wtmp i v oc : p_ph p = PhOpen ->
    pstep c p (OWriteTmp i v, oc) =
    Some (mkPst PhOpen (p_failed p || is_fail oc)
            (match oc with
             | Done | Failed EFull => (i, v) :: rm_i i (p_tmp p)
             | Failed ETrunc => rm_i i (p_tmp p)
             | Failed ENone => p_tmp p
             end) (p_fin p)).
  Proof. intros H1. unfold pstep. rewrite H1. reflexivity. Qed.

  Lemma pstep_rename i oc : p_ph p = PhOpen ->
    pstep c p (ORenameChunk i, oc) =
    Some (if did oc
          then mkPst PhOpen (p_failed p || is_fail oc) (rm_i i (p_tmp p))
                 (match lookup_i i (p_tmp p) with
                  | Some v => (i, v) :: rm_i i (p_fin p)
                  | None => rm_i i (p_fin p)
                  end)
          else mkPst PhOpen (p_failed p || is_fail oc) (p_tmp p) (p_fin p)).
  Proof. intros H1. unfold pstep. rewrite H1. reflexivity. Qed.

  Lemma pstep_meta_running m oc : p_ph p = PhOpen -> m_ended m = false -> running_ok c p m = true ->
    pstep c p (OWriteMeta m, oc) = Some (mkPst PhOpen (p_failed p || is_fail oc) (p_tmp p) (p_fin p)).
  Proof. intros H1 H2 H3. unfold pstep. rewrite H1, H2, H3. reflexivity. Qed.

  Lemma pstep_meta_closing m oc : p_ph p = PhOpen -> m_ended m = true -> closing_ok c p m = true ->
    pstep c p (OWriteMeta m, oc) =
    Some (mkPst (match oc with Done => if m_exc m then PhClosingX else PhClosing | Failed _ => PhOpen end)
            (p_failed p || is_fail oc) (p_tmp p) (p_fin p)).
  Proof. intros H1 H2 H3. unfold pstep. rewrite H1, H2, H3. reflexivity. Qed.

  Lemma pstep_rendir (x : bool) oc : p_ph p = (if x then PhClosingX else PhClosing) ->
    pstep c p (ORenameDir, oc) =
    Some (mkPst (if did oc then (if x then PhDoneX else PhDone) else (if x then PhClosingX else PhClosing))
            (p_failed p || is_fail oc) (p_tmp p) (p_fin p)).
  Proof. intros H1. unfold pstep. rewrite H1. destruct x; reflexivity. Qed.

  Lemma pstep_upexc oc : pstep c p (OUpExc, oc) = Some (mkPst (p_ph p) true (p_tmp p) (p_fin p)).
  Proof. reflexivity. Qed.
End Psteps.

(* do_op: exactly one event is recorded, applied to the file system and fed to the monitor *)
Lemma do_op_spec pl pc0 s o s' ok :
  do_op pl pc0 s o = (s', ok) ->
  exists oc f',
    apply_ev (c_fs s) (o, oc) = Some f' /\
    c_pc s' = c_pc s /\ c_fs s' = f' /\ c_todo s' = c_todo s /\ c_i s' = c_i s /\ c_rec s' = c_rec s /\
    c_pend s' = c_pend s /\ c_exc s' = c_exc s /\ c_kill s' = c_kill s /\ c_deliv s' = c_deliv s /\
    c_tr s' = (o, oc) :: c_tr s /\
    c_mon s' = match c_mon s with None => None | Some p => pstep pc0 p (o, oc) end /\
    (ok = true -> oc = Done) /\ (ok = false -> is_fail oc = true) /\
    (pl (c_nf s) (length (c_tr s)) o = None -> apply_done (c_fs s) o <> None -> ok = true).
Proof.
  unfold do_op. intros H.
  destruct (pl (c_nf s) (length (c_tr s)) o) as [e|] eqn:Ep.
  - destruct (apply_failed (c_fs s) o e) as [f'|] eqn:Ea; inversion H; subst; clear H.
    + exists (Failed e), f'. cbn. repeat split; auto; try discriminate.
    + exists (Failed ENone), (c_fs s). cbn. repeat split; auto; try discriminate.
  - destruct (apply_done (c_fs s) o) as [f'|] eqn:Ea; inversion H; subst; clear H.
    + exists Done, f'. cbn. repeat split; auto; try discriminate.
    + exists (Failed ENone), (c_fs s). cbn. repeat split; auto; try discriminate; try (intros _ C; contradiction).
Qed.

(* ------------------------------------------------------------------------------------------ *)
(* the invariant of the machine                                                               *)
(* ------------------------------------------------------------------------------------------ *)

Definition task_for (i : Z) (l : list task) : option task := List.find (fun t => t_i t =? i) l.

(* chunk i with payload v is where it should be: in the hands of its pending write, else a final-named file *)
Definition chunk_ok (p : pst) (pend : list task) (i v : Z) : Prop :=
  match task_for i pend with
  | Some t => t_v t = v
  | None => lookup_i i (p_fin p) = Some v
  end.

Definition open_pc (x : pc) : bool :=
  match x with PLoop | PSaveW _ _ | PSaveR _ | PRec _ | PCheck | PWait | PClose => true | _ => false end.

Section Inv.
  Variable cfg : rcfg.
  Variable inp : input.
  Variable pl : plan.
  Variable pc0 : pcfg.
  Let ex := expected_of inp.

  (* what the monitor state and the file system look like at each program point *)
  Definition phase_rel (s : cst) (p : pst) : Prop :=
    match c_pc s with
    | PInit0 => c_pend s = [] /\ p_ph p = PhInit /\ (f_final (c_fs s) <> None -> p_allow_rm pc0 = true)
    | PInit1 => c_pend s = [] /\ p_ph p = PhInit /\ f_final (c_fs s) = None
    | PInit2 => c_pend s = [] /\ p_ph p = PhInit /\ f_final (c_fs s) = None /\ f_temp (c_fs s) = None
    | PInit3 => c_pend s = [] /\ p_ph p = PhOpen /\ f_final (c_fs s) = None
    | PLoop | PSaveW _ _ | PSaveR _ | PRec _ | PCheck | PWait | PClose => p_ph p = PhOpen /\ f_final (c_fs s) = None
    | PRen => p_ph p = (if c_exc s then PhClosingX else PhClosing) /\ f_final (c_fs s) = None /\ (p_failed p = true -> c_exc s = true) /\
              exists d, f_temp (c_fs s) = Some d /\ dlookup d FMeta = Some (CMeta (Some (mkMeta (c_rec s) true (c_exc s))))
    | PEnd => (p_failed p = true -> c_exc s = true) /\
              exists d, f_final (c_fs s) = Some d /\ dlookup d FMeta = Some (CMeta (Some (mkMeta (c_rec s) true (c_exc s))))
    | PAbort => True
    end.

  Definition task_inv (p : pst) (t : task) : Prop :=
    match t_st t with
    | TNew => True
    | TWritten => lookup_i (t_i t) (p_tmp p) = Some (t_v t)
    | TOk => lookup_i (t_i t) (p_fin p) = Some (t_v t)
    | TFail => p_failed p = true
    end.

  (* the chunk being saved right now *)
  Definition cur_ok (s : cst) (p : pst) (cur : list (Z * Z)) : Prop :=
    match c_pc s with
    | PSaveW n v => cur = [(n, v)] /\ n <> 0
    | PSaveR n => exists v, cur = [(n, v)] /\ n <> 0 /\ lookup_i (c_i s) (p_tmp p) = Some v
    | PRec n => exists v, cur = [(n, v)] /\ (n <> 0 -> chunk_ok p (c_pend s) (c_i s) v)
    | PWait | PClose | PRen | PEnd => cur = [] /\ c_todo s = []
    | _ => cur = []
    end.

  (* while no exception is being handled: the chunks saved so far are a prefix of the complete save and
     each of them is where it should be *)
  Definition data_inv (s : cst) (p : pst) : Prop :=
    exists dn cur,
      ex = dn ++ number_from (c_i s) (cur ++ c_todo s) /\
      c_rec s = infos dn /\
      cur_ok s p cur /\
      (forall i n v, In (i, n, v) dn -> i < c_i s) /\
      (forall i n v, In (i, n, v) dn -> n <> 0 -> chunk_ok p (c_pend s) i v) /\
      (forall t, In t (c_pend s) -> t_i t < c_i s \/ (t_i t = c_i s /\ exists n, c_pc s = PRec n)).

  (* the part of the invariant that does not mention the program counter *)
  Record cbase (s : cst) (p : pst) : Prop := mkCbase {
    cb_mon : c_mon s = Some p;
    cb_inv : Inv pc0 p (c_fs s);
    cb_exc : c_exc s = true -> p_failed p = true;
    cb_kill : c_kill s = true -> c_exc s = true /\ r_proc cfg = SingleThread;
    cb_tasks : Forall (task_inv p) (c_pend s);
    cb_nodup : NoDup (map t_i (c_pend s));
    cb_async : c_pend s <> [] -> is_async cfg = true /\ c_kill s = false;
    cb_pinned : r_var cfg = Pinned -> existsb t_failed (c_pend s) = false
  }.

  (* the part that does *)
  Record cpcinv (s : cst) (p : pst) : Prop := mkCpc {
    cp_phase : phase_rel s p;
    cp_nosync : is_async cfg = true -> c_kill s = false ->
                match c_pc s with PSaveW _ _ | PSaveR _ => False | _ => True end;
    cp_undone : forallb t_done (c_pend s) = false -> open_pc (c_pc s) = true /\ c_pc s <> PClose;
    cp_closefail : c_pc s = PClose -> existsb t_failed (c_pend s) = true -> c_exc s = true;
    cp_excpc : c_exc s = true -> c_kill s = true \/
               match c_pc s with PWait | PClose | PRen | PEnd | PAbort => True | _ => False end;
    cp_J : c_pc s <> PAbort -> p_failed p = true ->
           c_exc s = true \/ (r_var cfg = Fixed /\ existsb t_failed (c_pend s) = true);
    cp_data : c_exc s = false -> c_pc s <> PAbort -> data_inv s p
  }.

  Definition cinvp (s : cst) (p : pst) : Prop := cbase s p /\ cpcinv s p.
  Definition cinv (s : cst) : Prop := exists p, cinvp s p.
End Inv.

(* ------------------------------------------------------------------------------------------ *)
(* lists of pending writes                                                                    *)
(* ------------------------------------------------------------------------------------------ *)

Lemma task_for_In i l t : task_for i l = Some t -> In t l /\ t_i t = i.
Proof.
  unfold task_for. intros H. apply find_some in H as [H1 H2]. apply Z.eqb_eq in H2. auto.
Qed.

Lemma task_for_None i l : task_for i l = None -> forall t, In t l -> t_i t <> i.
Proof.
  unfold task_for. intros H t Hin E. pose proof (find_none _ _ H t Hin) as H2. cbn in H2.
  apply Z.eqb_neq in H2. contradiction.
Qed.

Lemma task_for_unique i l t : NoDup (map t_i l) -> In t l -> t_i t = i -> task_for i l = Some t.
Proof.
  unfold task_for. induction l as [|a l IH]; intros Hnd Hin Hi; [destruct Hin|].
  cbn. inversion Hnd as [|x xs Hnot Hnd']; subst x xs.
  destruct Hin as [->|Hin].
  - rewrite Hi, Z.eqb_refl. reflexivity.
  - destruct (t_i a =? i) eqn:E.
    + apply Z.eqb_eq in E. exfalso. apply Hnot. rewrite E, <- Hi. apply in_map. exact Hin.
    + apply IH; auto.
Qed.

Lemma task_for_app_other i l t : t_i t <> i -> task_for i (l ++ [t]) = task_for i l.
Proof.
  unfold task_for. intros Hne. induction l as [|a l IH]; cbn.
  - destruct (t_i t =? i) eqn:E; [apply Z.eqb_eq in E; contradiction | reflexivity].
  - destruct (t_i a =? i); [reflexivity | exact IH].
Qed.

Lemma task_for_app_new i l t :
  (forall u, In u l -> t_i u <> i) -> t_i t = i -> task_for i (l ++ [t]) = Some t.
Proof.
  unfold task_for. intros Hall Hi. induction l as [|a l IH]; cbn.
  - rewrite Hi, Z.eqb_refl. reflexivity.
  - destruct (t_i a =? i) eqn:E.
    + apply Z.eqb_eq in E. exfalso. apply (Hall a); [left; reflexivity | exact E].
    + apply IH. intros u Hu. apply Hall. right; exact Hu.
Qed.

Lemma map_upd_nth_id (l : list task) j t t' :
  nth_error l j = Some t -> t_i t' = t_i t -> map t_i (upd_nth l j t') = map t_i l.
Proof.
  revert j; induction l as [|a l IH]; intros j Hn Hi; destruct j; cbn in *; try discriminate.
  - inversion Hn; subst. rewrite Hi. reflexivity.
  - f_equal. eapply IH; eauto.
Qed.

Lemma In_upd_nth (l : list task) j t' u :
  In u (upd_nth l j t') -> u = t' \/ (In u l /\ nth_error l j <> Some u) \/ In u l.
Proof.
  revert j; induction l as [|a l IH]; intros j H; destruct j; cbn in *; auto.
  - destruct H as [->|H]; auto.
  - destruct H as [->|H]; auto. apply IH in H. intuition.
Qed.

(* the elements of upd_nth: the new one at position j, the old ones elsewhere *)
Lemma Forall_upd_nth (P : task -> Prop) l j t' :
  Forall P l -> P t' -> Forall P (upd_nth l j t').
Proof.
  revert j; induction l as [|a l IH]; intros j Hl Ht; destruct j; cbn; auto;
    inversion Hl; subst; constructor; auto.
Qed.

Lemma Forall_upd_nth_other (P Q : task -> Prop) l j t t' :
  NoDup (map t_i l) -> nth_error l j = Some t ->
  Forall P l -> (forall u, In u l -> t_i u <> t_i t -> P u -> Q u) -> Q t' ->
  Forall Q (upd_nth l j t').
Proof.
  revert j; induction l as [|a l IH]; intros j Hnd Hn Hl Hpq Ht; destruct j; cbn in *; try discriminate; auto.
  - inversion Hn; subst a. inversion Hl; subst. inversion Hnd; subst. constructor; [exact Ht|].
    rewrite Forall_forall in *. intros u Hu. apply Hpq; auto.
    intros E. apply H3. rewrite <- E. apply in_map; exact Hu.
  - inversion Hl; subst. inversion Hnd; subst. constructor.
    + apply Hpq; auto. intros E. apply H3. rewrite E. apply in_map. eapply nth_error_In; eauto.
    + eapply IH; eauto.
Qed.

Lemma task_for_upd i l j t t' :
  NoDup (map t_i l) -> nth_error l j = Some t -> t_i t' = t_i t ->
  task_for i (upd_nth l j t') = if t_i t =? i then Some t' else task_for i l.
Proof.
  unfold task_for. revert j; induction l as [|a l IH]; intros j Hnd Hn Hi; destruct j; cbn in *; try discriminate.
  - inversion Hn; subst a. rewrite Hi. destruct (t_i t =? i); reflexivity.
  - inversion Hnd; subst.
    destruct (t_i a =? i) eqn:Ea.
    + destruct (t_i t =? i) eqn:Et; [|reflexivity].
      apply Z.eqb_eq in Ea, Et. exfalso. apply H1. rewrite Ea, <- Et. apply in_map. eapply nth_error_In; eauto.
    + eapply IH; eauto.
Qed.

Lemma existsb_upd_nth (f : task -> bool) l j t t' :
  nth_error l j = Some t -> f t = false ->
  existsb f (upd_nth l j t') = existsb f l || f t'.
Proof.
  revert j; induction l as [|a l IH]; intros j Hn Hf; destruct j; cbn in *; try discriminate.
  - inversion Hn; subst. rewrite Hf. cbn. apply Bool.orb_comm.
  - rewrite (IH _ Hn Hf). rewrite Bool.orb_assoc. reflexivity.
Qed.

Lemma upd_nth_nil_iff (l : list task) j t' : upd_nth l j t' = [] <-> l = [].
Proof. destruct l, j; cbn; split; intros H; try discriminate; auto. Qed.

Lemma NoDup_map_filter (f : task -> bool) l : NoDup (map t_i l) -> NoDup (map t_i (filter f l)).
Proof.
  induction l as [|a l IH]; intros H; cbn; [constructor|]. inversion H; subst.
  destruct (f a); cbn; auto. constructor; auto.
  intros Hin. apply H2. apply in_map_iff in Hin as (u & Hu & Hin). apply filter_In in Hin as [Hin _].
  rewrite <- Hu. apply in_map. exact Hin.
Qed.

Lemma task_for_filter_keep i l f t :
  task_for i l = Some t -> f t = true -> task_for i (filter f l) = Some t.
Proof.
  unfold task_for. induction l as [|a l IH]; cbn; intros H Hf; [discriminate|].
  destruct (t_i a =? i) eqn:E.
  - inversion H; subst a. rewrite Hf. cbn. rewrite E. reflexivity.
  - destruct (f a); cbn; [rewrite E|]; apply IH; auto.
Qed.

Lemma task_for_filter_none i l f :
  (forall t, In t l -> t_i t = i -> f t = false) -> task_for i (filter f l) = None.
Proof.
  unfold task_for. induction l as [|a l IH]; cbn; intros H; [reflexivity|].
  destruct (f a) eqn:Ef; cbn.
  - destruct (t_i a =? i) eqn:E.
    + apply Z.eqb_eq in E. rewrite (H a (or_introl eq_refl) E) in Ef. discriminate.
    + apply IH. intros; apply H; auto.
  - apply IH. intros; apply H; auto.
Qed.

Lemma first_undone_spec l : forall k j, first_undone l k = Some j ->
  exists t, nth_error l (j - k) = Some t /\ t_done t = false /\ (k <= j)%nat.
Proof.
  induction l as [|a l IH]; intros k j H; cbn in H; [discriminate|].
  destruct (t_done a) eqn:E.
  - destruct (IH _ _ H) as (t & Hn & Hd & Hk). exists t.
    replace (j - k)%nat with (S (j - S k)) by lia. cbn. repeat split; auto; lia.
  - inversion H; subst. exists a. rewrite Nat.sub_diag. cbn. auto.
Qed.

Lemma forallb_false_exists (f : task -> bool) l : forallb f l = false -> exists t, In t l /\ f t = false.
Proof.
  induction l as [|a l IH]; cbn; intros H; [discriminate|].
  destruct (f a) eqn:E; [destruct (IH H) as (t & Hin & Hf); eauto | eauto].
Qed.

(* ------------------------------------------------------------------------------------------ *)
(* preservation                                                                               *)
(* ------------------------------------------------------------------------------------------ *)

Section Preservation.
  Variable cfg : rcfg.
  Variable inp : input.
  Variable pl : plan.
  Variable pc0 : pcfg.
  Hypothesis Hpc0 : p_expected pc0 = expected_of inp.
  Hypothesis Hex : expected_of inp <> [].
  (* the mode in which the saver keeps to the protocol: inspected futures, or no thread pool, or no
     failing pooled write *)
  Hypothesis Hmode : r_var cfg = Fixed \/ is_async cfg = false \/ worker_faultless pl.

  Notation cbase := (cbase cfg pc0).
  Notation cpcinv := (cpcinv cfg inp pc0).
  Notation cinvp := (cinvp cfg inp pc0).
  Notation data_inv := (data_inv inp).


  Lemma Hex' : p_expected pc0 <> [].
  Proof. rewrite Hpc0. exact Hex. Qed.

  Lemma sync_no_tasks s p : cbase s p -> is_async cfg = false -> c_pend s = [].
  Proof.
    intros B Ha. destruct (c_pend s) eqn:E; [reflexivity|].
    destruct (cb_async _ _ _ _ B) as [H _]; [rewrite E; discriminate | congruence].
  Qed.

  Lemma single_no_tasks s p : cbase s p -> r_proc cfg = SingleThread -> c_pend s = [].
  Proof. intros B H. apply (sync_no_tasks s p B). unfold is_async. rewrite H. reflexivity. Qed.

  Lemma kill_no_tasks s p : cbase s p -> c_kill s = true -> c_pend s = [].
  Proof.
    intros B Hk. destruct (c_pend s) eqn:E; [reflexivity|].
    destruct (cb_async _ _ _ _ B) as [_ H]; [rewrite E; discriminate | congruence].
  Qed.

  (* a failed pending write exists only where futures are inspected *)
  Lemma failed_task_fixed s p : cbase s p -> existsb t_failed (c_pend s) = true -> r_var cfg = Fixed.
  Proof.
    intros B H. destruct (r_var cfg) eqn:E; [|reflexivity].
    rewrite (cb_pinned _ _ _ _ B E) in H. discriminate.
  Qed.

  Lemma failed_task_pfailed s p : cbase s p -> existsb t_failed (c_pend s) = true -> p_failed p = true.
  Proof.
    intros B H. apply existsb_exists in H as (t & Hin & Hf).
    pose proof (cb_tasks _ _ _ _ B) as Ht. rewrite Forall_forall in Ht. specialize (Ht t Hin).
    unfold task_inv in Ht. unfold t_failed in Hf. destruct (t_st t); try discriminate. exact Ht.
  Qed.

  (* An event of the saver thread: the pending list, exc and kill stay; the monitor moves from p to p'.
     Either there are no pending writes, or the event leaves the monitor's file lists alone. *)
  Lemma cbase_event s p s' p' :
    cbase s p ->
    c_mon s' = Some p' -> Inv pc0 p' (c_fs s') ->
    (p_failed p = true -> p_failed p' = true) ->
    c_exc s' = c_exc s -> c_kill s' = c_kill s -> c_pend s' = c_pend s ->
    (c_pend s = [] \/ (p_tmp p' = p_tmp p /\ p_fin p' = p_fin p)) ->
    cbase s' p'.
  Proof.
    intros B Hm Hi Hf He Hk Hp Hl. destruct B as [Bm Bi Be Bk Bt Bn Ba Bp].
    constructor; rewrite ?He, ?Hk, ?Hp; auto.
    destruct Hl as [Hl|[Hl1 Hl2]]; [rewrite Hl; constructor|].
    rewrite Forall_forall in *. intros t Hin. specialize (Bt t Hin). unfold task_inv in *.
    destruct (t_st t); auto; congruence.
  Qed.

  (* the same state with another program counter *)
  Lemma cbase_set_pc s p x : cbase s p -> cbase (set_pc s x) p.
  Proof. intros [Bm Bi Be Bk Bt Bn Ba Bp]. constructor; cbn; auto. Qed.

  Lemma Inv_event s p o oc f' p' :
    cbase s p -> apply_ev (c_fs s) (o, oc) = Some f' -> pstep pc0 p (o, oc) = Some p' -> Inv pc0 p' f'.
  Proof. intros B Ha Hs. eapply pstep_inv; eauto using Hex', cb_inv. Qed.

  Lemma failed_mono (b : bool) oc : b = true -> b || is_fail oc = true.
  Proof. intros ->. reflexivity. Qed.

  (* --- the exception handler --------------------------------------------------------------- *)
  Lemma handler_inv s p :
    cbase s p -> p_failed p = true ->
    (p_ph p = PhOpen /\ f_final (c_fs s) = None) ->
    open_pc (c_pc s) = true -> c_pc s <> PClose ->
    (c_exc s = true -> c_kill s = true) ->
    (is_async cfg = true -> c_kill s = false -> True) ->
    cinvp (handler cfg inp s) p.
  Proof.
    intros B Hf Hph Hop Hnc Hek _. unfold handler.
    destruct (c_kill s) eqn:Ek.
    - (* inside kill_spies: the failure propagates, the saver stays unclosed *)
      pose proof (kill_no_tasks s p B Ek) as Hpend.
      split; [apply cbase_set_pc; exact B|].
      constructor; cbn; rewrite ?Hpend; cbn; auto; try congruence; try discriminate.
    - destruct (r_proc cfg) eqn:Epr.
      + (* single thread: kill_spies flushes the rechunker and closes *)
        pose proof (single_no_tasks s p B Epr) as Hpend.
        destruct B as [Bm Bi Be Bk Bt Bn Ba Bp].
        split; constructor; cbn; rewrite ?Hpend in *; cbn; auto; try congruence; try discriminate; try contradiction.
      + (* threaded: save_from's except/finally -> close(wait_for=pending) *)
        destruct B as [Bm Bi Be Bk Bt Bn Ba Bp].
        split; constructor; cbn; auto; try congruence; try discriminate.
        * intros H. destruct (Ba H) as [H1 _]. auto.
        * intros _. split; [reflexivity | discriminate].
  Qed.

  (* --- carrying data_inv across steps that do not save a chunk -------------------------------- *)
  Definition cur_class (x : pc) : nat :=
    match x with
    | PSaveW _ _ | PSaveR _ | PRec _ => 0
    | PWait | PClose | PRen | PEnd => 2
    | _ => 1
    end.

  Lemma chunk_ok_fin p p' pend i v : p_fin p' = p_fin p -> chunk_ok p pend i v -> chunk_ok p' pend i v.
  Proof. unfold chunk_ok. intros ->. auto. Qed.

  Lemma data_inv_carry s p s' p' :
    data_inv s p ->
    c_i s' = c_i s -> c_todo s' = c_todo s -> c_rec s' = c_rec s -> c_pend s' = c_pend s ->
    p_fin p' = p_fin p ->
    cur_class (c_pc s) <> 0%nat -> cur_class (c_pc s') <> 0%nat ->
    (cur_class (c_pc s') = 2%nat -> cur_class (c_pc s) = 2%nat \/ c_todo s = []) ->
    data_inv s' p'.
  Proof.
    intros (dn & cur & He & Hr & Hc & Hlt & Hch & Ht) Hi Htd Hrc Hp Hf C1 C2 C3.
    assert (Hcur : cur = [] /\ (cur_class (c_pc s) = 2%nat -> c_todo s = [])).
    { unfold cur_ok in Hc. destruct (c_pc s); cbn in C1; try (exfalso; apply C1; reflexivity);
        intuition (try discriminate; try congruence). }
    destruct Hcur as [-> Htd2].
    exists dn, []. rewrite Hi, Htd, Hrc, Hp. repeat split; auto.
    - unfold cur_ok. destruct (c_pc s') eqn:E; cbn in C2, C3; try contradiction; auto; split; auto;
        rewrite Htd; destruct C3 as [C3|C3]; auto.
    - intros i n v Hin Hn. eapply chunk_ok_fin; eauto.
    - intros t Hin. destruct (Ht t Hin) as [H|[H1 [n H2]]]; [left; exact H|].
      rewrite H2 in C1. cbn in C1. contradiction.
  Qed.

  (* --- FileSaver.__init__ ------------------------------------------------------------------- *)
  Lemma init_pend_done s p : cinvp s p -> open_pc (c_pc s) = false -> forallb t_done (c_pend s) = true.
  Proof.
    intros [_ C] H. destruct (forallb t_done (c_pend s)) eqn:E; [reflexivity|].
    destruct (cp_undone _ _ _ _ _ C E) as [H1 _]. congruence.
  Qed.

  (* an aborted run keeps the base invariant; nothing else is claimed *)
  Lemma abort_inv s p : cbase s p -> forallb t_done (c_pend s) = true -> cinvp (set_pc s PAbort) p.
  Proof.
    intros B Hd. split; [apply cbase_set_pc; exact B|].
    constructor; cbn; auto; try congruence; try discriminate; try contradiction.
  Qed.

  (* the `lost` flag is not part of the invariant *)
  Lemma cinvp_set_lost s p b : cinvp s p -> cinvp (set_lost s b) p.
  Proof.
    intros [[Bm Bi Be Bk Bt Bn Ba Bp] [Cp Cn Cu Cc Ce Cj Cd]].
    split; constructor; auto.
  Qed.

  (* --- moving to program point x after an event (or none) that saves no chunk ------------------- *)
  Definition waitset (x : pc) : Prop := match x with PWait | PClose | PRen | PEnd | PAbort => True | _ => False end.

  Lemma cpc_move s p s' p' x :
    cinvp s p -> cbase s' p' ->
    c_i s' = c_i s -> c_todo s' = c_todo s -> c_rec s' = c_rec s -> c_pend s' = c_pend s ->
    c_exc s' = c_exc s -> c_kill s' = c_kill s ->
    p_failed p' = p_failed p -> p_fin p' = p_fin p ->
    c_pc s <> PAbort ->
    phase_rel pc0 (set_pc s' x) p' ->
    cur_class (c_pc s) <> 0%nat -> cur_class x <> 0%nat ->
    (cur_class x = 2%nat -> cur_class (c_pc s) = 2%nat \/ c_todo s = []) ->
    (forallb t_done (c_pend s) = false -> open_pc x = true /\ x <> PClose) ->
    (x = PClose -> existsb t_failed (c_pend s) = true -> c_exc s = true) ->
    (c_exc s = true -> c_kill s = true \/ waitset x) ->
    cinvp (set_pc s' x) p'.
  Proof.
    intros [B C] B' Hi Htd Hrc Hp He Hk Hf Hfin Hna Hph C1 C2 C3 Hund Hcf Hex2.
    split; [apply cbase_set_pc; exact B'|].
    constructor; cbn [set_pc c_pc c_pend c_exc c_kill c_fs c_i c_todo c_rec]; rewrite ?Hp, ?He, ?Hk.
    - exact Hph.
    - intros _ _. destruct x; cbn in C2; auto; apply C2; reflexivity.
    - exact Hund.
    - exact Hcf.
    - intros He1. destruct (Hex2 He1) as [H|H]; [left; exact H | right]. destruct x; cbn in H; auto.
    - intros _ Hpf. rewrite Hf in Hpf. exact (cp_J _ _ _ _ _ C Hna Hpf).
    - intros He1 _. pose proof (cp_data _ _ _ _ _ C He1 Hna) as D.
      eapply (data_inv_carry s p (set_pc s' x) p'); eauto.
  Qed.

  Ltac doop Ed :=
    destruct (do_op_spec _ _ _ _ _ _ Ed)
      as (oc & f' & Ha & Hpc' & Hfs & Htd & Hi & Hrec & Hpend & Hexc & Hkill & Hdel & Htr & Hmon & Hok1 & Hok2 & Hok3).

  Notation mstep := (main_step cfg inp pl pc0).
  Notation wstep := (work_step pl pc0).

  Lemma final_kept f o oc f' :
    apply_ev f (o, oc) = Some f' -> o <> ORmFinal -> o <> ORenameDir -> f_final f' = f_final f.
  Proof.
    intros H N1 N2.
    assert (Hd : forall g, apply_done f o = Some g -> f_final g = f_final f).
    { intros g Hg. destruct o; cbn in Hg; unfold on_temp in Hg; try contradiction;
        try (destruct (f_temp f) as [d|]; try discriminate);
        try match type of Hg with context [dlookup ?a ?b] => destruct (dlookup a b) end;
        try discriminate; inversion Hg; subst; reflexivity. }
    destruct oc as [|[]]; cbn in H; auto.
    - inversion H; reflexivity.
    - destruct o; try discriminate; unfold on_temp in H; destruct (f_temp f); inversion H; reflexivity.
  Qed.


  (* the common part of every saver-thread event: either no writes are pending, or the event leaves the
     monitor's file lists alone *)
  Lemma main_event_b s p o s' ok ph' fl' tmp' fin' :
    cbase s p ->
    (forall oc, pstep pc0 p (o, oc) = Some (mkPst (ph' oc) (fl' oc) (tmp' oc) (fin' oc))) ->
    (forall oc, p_failed p = true -> fl' oc = true) ->
    (c_pend s = [] \/ (forall oc, tmp' oc = p_tmp p /\ fin' oc = p_fin p)) ->
    do_op pl pc0 s o = (s', ok) ->
    exists oc,
      let p' := mkPst (ph' oc) (fl' oc) (tmp' oc) (fin' oc) in
      cbase s' p' /\ apply_ev (c_fs s) (o, oc) = Some (c_fs s') /\
      c_pc s' = c_pc s /\ c_todo s' = c_todo s /\ c_i s' = c_i s /\ c_rec s' = c_rec s /\
      c_pend s' = c_pend s /\ c_exc s' = c_exc s /\ c_kill s' = c_kill s /\
      (ok = true -> oc = Done) /\ (ok = false -> is_fail oc = true) /\
      (pl (c_nf s) (length (c_tr s)) o = None -> apply_done (c_fs s) o <> None -> ok = true).
  Proof.
    intros B Hps Hfl Hl Ed. doop Ed. exists oc. cbn zeta.
    rewrite (cb_mon _ _ _ _ B), (Hps oc) in Hmon.
    assert (HI : Inv pc0 (mkPst (ph' oc) (fl' oc) (tmp' oc) (fin' oc)) f')
      by (eapply Inv_event; eauto).
    subst f'. split; [|repeat split; auto].
    apply (cbase_event s p s' _ B Hmon); auto; [apply Hfl|].
    destruct Hl as [Hl|Hl]; [left; exact Hl | right; apply Hl].
  Qed.

  Lemma main_event s p o s' ok ph' tmp' fin' :
    cinvp s p ->
    (forall oc, pstep pc0 p (o, oc) = Some (mkPst (ph' oc) (p_failed p || is_fail oc) (tmp' oc) (fin' oc))) ->
    (c_pend s = [] \/ (forall oc, tmp' oc = p_tmp p /\ fin' oc = p_fin p)) ->
    do_op pl pc0 s o = (s', ok) ->
    exists oc,
      let p' := mkPst (ph' oc) (p_failed p || is_fail oc) (tmp' oc) (fin' oc) in
      cbase s' p' /\ apply_ev (c_fs s) (o, oc) = Some (c_fs s') /\
      c_pc s' = c_pc s /\ c_todo s' = c_todo s /\ c_i s' = c_i s /\ c_rec s' = c_rec s /\
      c_pend s' = c_pend s /\ c_exc s' = c_exc s /\ c_kill s' = c_kill s /\
      (ok = true -> oc = Done) /\ (ok = false -> is_fail oc = true) /\
      (pl (c_nf s) (length (c_tr s)) o = None -> apply_done (c_fs s) o <> None -> ok = true).
  Proof.
    intros [B C] Hps Hl Ed.
    apply (main_event_b s p o s' ok ph' (fun oc => p_failed p || is_fail oc) tmp' fin' B Hps); auto.
    intros oc. apply failed_mono.
  Qed.

  Lemma excpc_init s p : cpcinv s p -> open_pc (c_pc s) = false -> c_pc s <> PRen -> c_pc s <> PEnd -> c_pc s <> PAbort ->
    c_exc s = true -> c_kill s = true.
  Proof.
    intros C H1 H2 H3 H4 He. destruct (cp_excpc _ _ _ _ _ C He) as [H|H]; [exact H|].
    destruct (c_pc s); cbn in *; try discriminate; try contradiction; destruct H.
  Qed.

  (* FileSaver.__init__: rmtree of the old directory *)
  Lemma main_init0 s p : cinvp s p -> c_pc s = PInit0 -> exists p', cinvp (mstep s) p'.
  Proof.
    intros I Hpc. pose proof I as [B C]. unfold main_step. rewrite Hpc.
    pose proof (cp_phase _ _ _ _ _ C) as Hph. unfold phase_rel in Hph. rewrite Hpc in Hph.
    destruct Hph as (Hp0 & Hph & Hal).
    assert (Hek : c_exc s = true -> c_kill s = true)
      by (apply (excpc_init s p C); rewrite Hpc; cbn; auto; discriminate).
    destruct (f_final (c_fs s)) as [d|] eqn:Ef.
    - destruct (do_op pl pc0 s ORmFinal) as [s' ok] eqn:Ed.
      assert (Hal' : p_allow_rm pc0 = true) by (apply Hal; discriminate).
      destruct (main_event s p ORmFinal s' ok (fun _ => PhInit) (fun _ => p_tmp p) (fun _ => p_fin p) I
                  (fun oc => pstep_rmfinal pc0 p oc Hph Hal') (or_introl Hp0) Ed)
        as (oc & B' & Ha & Hpc' & Htd & Hi & Hrec & Hpend & Hexc & Hkill & Hok1 & Hok2 & _).
      destruct ok.
      + assert (oc = Done) by auto; subst oc. eexists.
        assert (Hf' : c_fs s' = mkFs (f_temp (c_fs s)) None) by (cbn in Ha; rewrite Ef in Ha; inversion Ha; reflexivity).
        eapply (cpc_move s p s'); eauto; try (rewrite Hpc; cbn; try discriminate; auto; fail).
        * cbn. apply Bool.orb_false_r.
        * unfold phase_rel. cbn. rewrite Hf', Hpend. cbn. auto.
        * discriminate.
        * rewrite Hp0. discriminate.
        * discriminate.
      + eexists. apply abort_inv; [exact B' | rewrite Hpend, Hp0; reflexivity].
    - exists p. eapply (cpc_move s p s p); eauto; try (rewrite Hpc; cbn; try discriminate; auto; fail).
      + unfold phase_rel. cbn. auto.
      + discriminate.
      + rewrite Hp0. discriminate.
      + discriminate.
  Qed.

  (* FileSaver.__init__: rmtree of an old temp directory *)
  Lemma main_init1 s p : cinvp s p -> c_pc s = PInit1 -> exists p', cinvp (mstep s) p'.
  Proof.
    intros I Hpc. pose proof I as [B C]. unfold main_step. rewrite Hpc.
    pose proof (cp_phase _ _ _ _ _ C) as Hph. unfold phase_rel in Hph. rewrite Hpc in Hph.
    destruct Hph as (Hp0 & Hph & Hfin).
    assert (Hek : c_exc s = true -> c_kill s = true)
      by (apply (excpc_init s p C); rewrite Hpc; cbn; auto; discriminate).
    destruct (f_temp (c_fs s)) as [d|] eqn:Et.
    - destruct (do_op pl pc0 s ORmTemp) as [s' ok] eqn:Ed.
      destruct (main_event s p ORmTemp s' ok (fun _ => PhInit) (fun _ => p_tmp p) (fun _ => p_fin p) I
                  (fun oc => pstep_rmtemp pc0 p oc Hph) (or_introl Hp0) Ed)
        as (oc & B' & Ha & Hpc' & Htd & Hi & Hrec & Hpend & Hexc & Hkill & Hok1 & Hok2 & _).
      destruct ok.
      + assert (oc = Done) by auto; subst oc. eexists.
        assert (Hf' : c_fs s' = mkFs None (f_final (c_fs s))) by (cbn in Ha; rewrite Et in Ha; inversion Ha; reflexivity).
        eapply (cpc_move s p s'); eauto; try (rewrite Hpc; cbn; try discriminate; auto; fail).
        * cbn. apply Bool.orb_false_r.
        * unfold phase_rel. cbn. rewrite Hf', Hpend. cbn. auto.
        * discriminate.
        * rewrite Hp0. discriminate.
        * discriminate.
      + eexists. apply abort_inv; [exact B' | rewrite Hpend, Hp0; reflexivity].
    - exists p. eapply (cpc_move s p s p); eauto; try (rewrite Hpc; cbn; try discriminate; auto; fail).
      + unfold phase_rel. cbn. auto.
      + discriminate.
      + rewrite Hp0. discriminate.
      + discriminate.
  Qed.

  (* FileSaver.__init__: makedirs of the temp directory *)
  Lemma main_init2 s p : cinvp s p -> c_pc s = PInit2 -> exists p', cinvp (mstep s) p'.
  Proof.
    intros I Hpc. pose proof I as [B C]. unfold main_step. rewrite Hpc.
    pose proof (cp_phase _ _ _ _ _ C) as Hph. unfold phase_rel in Hph. rewrite Hpc in Hph.
    destruct Hph as (Hp0 & Hph & Hfin & Htemp).
    assert (Hek : c_exc s = true -> c_kill s = true)
      by (apply (excpc_init s p C); rewrite Hpc; cbn; auto; discriminate).
    destruct (do_op pl pc0 s OMkTemp) as [s' ok] eqn:Ed.
    destruct (main_event s p OMkTemp s' ok (fun oc => if did oc then PhOpen else PhInit) (fun _ => []) (fun _ => []) I
                (fun oc => pstep_mktemp pc0 p oc Hph) (or_introl Hp0) Ed)
      as (oc & B' & Ha & Hpc' & Htd & Hi & Hrec & Hpend & Hexc & Hkill & Hok1 & Hok2 & _).
    destruct ok.
    - assert (oc = Done) by auto; subst oc. eexists.
      assert (Hf' : c_fs s' = mkFs (Some []) (f_final (c_fs s))) by (cbn in Ha; rewrite Htemp in Ha; inversion Ha; reflexivity).
      eapply (cpc_move s p s'); eauto; try (rewrite Hpc; cbn; try discriminate; auto; fail).
      + cbn. apply Bool.orb_false_r.
      + cbn. destruct (cb_inv _ _ _ _ B) as [_ Hl]. rewrite Hph in Hl. symmetry; apply Hl.
      + unfold phase_rel. cbn. rewrite Hf', Hpend. cbn. auto.
      + discriminate.
      + rewrite Hp0. discriminate.
      + discriminate.
    - eexists. apply abort_inv; [exact B' | rewrite Hpend, Hp0; reflexivity].
  Qed.

  (* FileSaver.__init__: the first metadata flush *)
  Lemma main_init3 s p : cinvp s p -> c_pc s = PInit3 -> exists p', cinvp (mstep s) p'.
  Proof.
    intros I Hpc. pose proof I as [B C]. unfold main_step. rewrite Hpc.
    pose proof (cp_phase _ _ _ _ _ C) as Hph. unfold phase_rel in Hph. rewrite Hpc in Hph.
    destruct Hph as (Hp0 & Hph & Hfin).
    assert (Hek : c_exc s = true -> c_kill s = true)
      by (apply (excpc_init s p C); rewrite Hpc; cbn; auto; discriminate).
    destruct (do_op pl pc0 s (OWriteMeta (mkMeta [] false false))) as [s' ok] eqn:Ed.
    assert (Hrun : running_ok pc0 p (mkMeta [] false false) = true)
      by (unfold running_ok; cbn; apply Bool.orb_true_r).
    destruct (main_event s p _ s' ok (fun _ => PhOpen) (fun _ => p_tmp p) (fun _ => p_fin p) I
                (fun oc => pstep_meta_running pc0 p (mkMeta [] false false) oc Hph eq_refl Hrun) (or_introl Hp0) Ed)
      as (oc & B' & Ha & Hpc' & Htd & Hi & Hrec & Hpend & Hexc & Hkill & Hok1 & Hok2 & _).
    destruct ok.
    - assert (oc = Done) by auto; subst oc. eexists.
      eapply (cpc_move s p s'); eauto; try (rewrite Hpc; cbn; try discriminate; auto; fail).
      + cbn. apply Bool.orb_false_r.
      + unfold phase_rel. cbn. split; [reflexivity|].
        rewrite (final_kept _ _ _ _ Ha); [exact Hfin | discriminate | discriminate].
      + discriminate.
      + rewrite Hp0. discriminate.
      + discriminate.
    - eexists. apply abort_inv; [exact B' | rewrite Hpend, Hp0; reflexivity].
  Qed.

  (* --- Saver.close ---------------------------------------------------------------------------- *)
  Lemma forallb_forall_in (f : task -> bool) l : forallb f l = true -> forall t, In t l -> f t = true.
  Proof. intros H. apply forallb_forall. exact H. Qed.

  Lemma existsb_false_in (f : task -> bool) l : existsb f l = false -> forall t, In t l -> f t = false.
  Proof.
    intros H t Hin. destruct (f t) eqn:E; [|reflexivity].
    assert (existsb f l = true) by (apply existsb_exists; eauto). congruence.
  Qed.

  Lemma closing_guard s p : cinvp s p -> c_pc s = PClose ->
    closing_ok pc0 p (mkMeta (c_rec s) true (c_exc s)) = true.
  Proof.
    intros [B C] Hpc. unfold closing_ok. cbn [m_exc m_chunks].
    apply Bool.andb_true_iff. split.
    - destruct (p_failed p) eqn:Ef; [cbn|reflexivity].
      destruct (cp_J _ _ _ _ _ C) as [H|[_ H]]; auto; [rewrite Hpc; discriminate|].
      apply (cp_closefail _ _ _ _ _ C Hpc H).
    - destruct (c_exc s) eqn:Ee; [reflexivity|]. cbn.
      destruct (cp_data _ _ _ _ _ C Ee) as (dn & cur & He & Hr & Hc & Hlt & Hch & Ht); [rewrite Hpc; discriminate|].
      unfold cur_ok in Hc. rewrite Hpc in Hc. destruct Hc as [-> Htd]. rewrite Htd in He. cbn in He.
      rewrite app_nil_r in He. rewrite Hpc0, He.
      assert (Hdone : forallb t_done (c_pend s) = true).
      { destruct (forallb t_done (c_pend s)) eqn:E; [reflexivity|].
        destruct (cp_undone _ _ _ _ _ C E) as [_ H]. contradiction. }
      assert (Hnf : existsb t_failed (c_pend s) = false).
      { destruct (existsb t_failed (c_pend s)) eqn:E; [|reflexivity].
        rewrite (cp_closefail _ _ _ _ _ C Hpc E) in Ee. discriminate. }
      apply Bool.andb_true_iff. split; [apply list_eqb_pair_eq; exact Hr|].
      unfold all_final. apply forallb_forall. intros [[i n] v] Hin. cbn.
      destruct (n =? 0) eqn:En; [reflexivity|]. cbn. apply mem_iv_true.
      apply Z.eqb_neq in En. specialize (Hch i n v Hin En). unfold chunk_ok in Hch.
      destruct (task_for i (c_pend s)) as [t|] eqn:Et; [|exact Hch].
      destruct (task_for_In _ _ _ Et) as [Hint Hti].
      pose proof (forallb_forall_in _ _ Hdone t Hint) as Hd.
      pose proof (existsb_false_in _ _ Hnf t Hint) as Hf.
      pose proof (cb_tasks _ _ _ _ B) as HT. rewrite Forall_forall in HT. specialize (HT t Hint).
      unfold task_inv in HT. unfold t_done in Hd. unfold t_failed in Hf.
      destruct (t_st t); try discriminate. rewrite Hti, Hch in HT. exact HT.
  Qed.

  Lemma main_close s p : cinvp s p -> c_pc s = PClose -> exists p', cinvp (mstep s) p'.
  Proof.
    intros I Hpc. pose proof I as [B C]. unfold main_step. rewrite Hpc.
    pose proof (cp_phase _ _ _ _ _ C) as Hph. unfold phase_rel in Hph. rewrite Hpc in Hph.
    destruct Hph as (Hph & Hfin).
    assert (Hdone : forallb t_done (c_pend s) = true).
    { destruct (forallb t_done (c_pend s)) eqn:E; [reflexivity|].
      destruct (cp_undone _ _ _ _ _ C E) as [_ H]. contradiction. }
    destruct (do_op pl pc0 s (OWriteMeta (mkMeta (c_rec s) true (c_exc s)))) as [s' ok] eqn:Ed.
    pose proof (closing_guard s p I Hpc) as Hg.
    destruct (main_event s p _ s' ok (fun oc => match oc with
                                                | Done => if c_exc s then PhClosingX else PhClosing
                                                | Failed _ => PhOpen
                                                end)
                (fun _ => p_tmp p) (fun _ => p_fin p) I
                (fun oc => pstep_meta_closing pc0 p (mkMeta (c_rec s) true (c_exc s)) oc Hph eq_refl Hg)
                (or_intror (fun _ => conj eq_refl eq_refl)) Ed)
      as (oc & B' & Ha & Hpc' & Htd & Hi & Hrec & Hpend & Hexc & Hkill & Hok1 & Hok2 & _).
    destruct ok.
    - assert (oc = Done) by auto; subst oc. eexists.
      eapply (cpc_move s p s'); eauto; try (rewrite Hpc; cbn; try discriminate; auto; fail).
      + cbn. apply Bool.orb_false_r.
      + unfold phase_rel. cbn. split; [rewrite Hexc; reflexivity|].
        split; [rewrite (final_kept _ _ _ _ Ha); [exact Hfin | discriminate | discriminate]|].
        split.
        { rewrite Bool.orb_false_r, Hexc. intros Hpf. unfold closing_ok in Hg. rewrite Hpf in Hg. cbn in Hg.
          apply Bool.andb_true_iff in Hg as [Hg _]. exact Hg. }
        cbn in Ha. unfold on_temp in Ha. destruct (f_temp (c_fs s)) as [d|]; [|discriminate].
        inversion Ha as [Hfs]. cbn. eexists. split; [reflexivity|].
        rewrite Hrec, Hexc. apply dlookup_dinsert_same.
      + discriminate.
      + rewrite Hdone. discriminate.
      + discriminate.
      + intros _. right. constructor.
    - eexists. apply cinvp_set_lost. apply abort_inv; [exact B' | rewrite Hpend; exact Hdone].
  Qed.

  Lemma main_ren s p : cinvp s p -> c_pc s = PRen -> exists p', cinvp (mstep s) p'.
  Proof.
    intros I Hpc. pose proof I as [B C]. unfold main_step. rewrite Hpc.
    pose proof (cp_phase _ _ _ _ _ C) as Hph. unfold phase_rel in Hph. rewrite Hpc in Hph.
    destruct Hph as (Hph & Hfin & Hfe & d & Htemp & Hmeta).
    assert (Hdone : forallb t_done (c_pend s) = true) by (apply (init_pend_done s p I); rewrite Hpc; reflexivity).
    destruct (do_op pl pc0 s ORenameDir) as [s' ok] eqn:Ed.
    destruct (main_event s p _ s' ok (fun oc => if did oc then (if c_exc s then PhDoneX else PhDone)
                                                else (if c_exc s then PhClosingX else PhClosing))
                (fun _ => p_tmp p) (fun _ => p_fin p) I
                (fun oc => pstep_rendir pc0 p (c_exc s) oc Hph)
                (or_intror (fun _ => conj eq_refl eq_refl)) Ed)
      as (oc & B' & Ha & Hpc' & Htd & Hi & Hrec & Hpend & Hexc & Hkill & Hok1 & Hok2 & _).
    destruct ok.
    - assert (oc = Done) by auto; subst oc. eexists.
      eapply (cpc_move s p s'); eauto; try (rewrite Hpc; cbn; try discriminate; auto; fail).
      + cbn. apply Bool.orb_false_r.
      + unfold phase_rel. cbn. cbn in Ha. rewrite Htemp, Hfin in Ha. inversion Ha as [Hfs]. cbn.
        rewrite Bool.orb_false_r, Hexc. split; [exact Hfe|]. exists d. rewrite Hrec. auto.
      + discriminate.
      + rewrite Hdone. discriminate.
      + discriminate.
      + intros _. right. constructor.
    - eexists. apply cinvp_set_lost. apply abort_inv; [exact B' | rewrite Hpend; exact Hdone].
  Qed.

  (* --- waiting for / looking at the pending futures --------------------------------------------- *)
  Lemma main_wait s p : cinvp s p -> c_pc s = PWait -> exists p', cinvp (mstep s) p'.
  Proof.
    intros I Hpc. pose proof I as [B C]. unfold main_step. rewrite Hpc.
    pose proof (cp_phase _ _ _ _ _ C) as Hph. unfold phase_rel in Hph. rewrite Hpc in Hph.
    destruct (forallb t_done (c_pend s)) eqn:Hdone; [|exists p; exact I].
    assert (Hmove : existsb t_failed (c_pend s) = false -> cinvp (set_pc s PClose) p).
    { intros Hnf.
      apply (cpc_move s p s p PClose I B eq_refl eq_refl eq_refl eq_refl eq_refl eq_refl eq_refl eq_refl).
      - rewrite Hpc; discriminate.
      - exact Hph.
      - rewrite Hpc; discriminate.
      - discriminate.
      - intros _. left. rewrite Hpc. reflexivity.
      - rewrite Hdone. discriminate.
      - rewrite Hnf. discriminate.
      - intros _. right. constructor. }
    exists p. destruct (r_var cfg) eqn:Ev.
    - apply Hmove. apply (cb_pinned _ _ _ _ B Ev).
    - destruct (existsb t_failed (c_pend s)) eqn:Hf; [|apply Hmove; reflexivity].
      pose proof (failed_task_pfailed s p B Hf) as Hpf.
      destruct B as [Bm Bi Be Bk Bt Bn Ba Bp].
      split; constructor; cbn; auto; try discriminate.
      + intros Hk. split; [reflexivity | apply (Bk Hk)].
      + rewrite Hdone. discriminate.
  Qed.

  Lemma Forall_filter (P : task -> Prop) f l : Forall P l -> Forall P (filter f l).
  Proof. rewrite !Forall_forall. intros H t Hin. apply filter_In in Hin as [Hin _]. auto. Qed.

  Lemma existsb_filter_false (g f : task -> bool) l : existsb g l = false -> existsb g (filter f l) = false.
  Proof.
    intros H. destruct (existsb g (filter f l)) eqn:E; [|reflexivity].
    apply existsb_exists in E as (t & Hin & Hg). apply filter_In in Hin as [Hin _].
    rewrite (existsb_false_in _ _ H t Hin) in Hg. discriminate.
  Qed.

  Lemma chunk_ok_filter s p i v :
    cbase s p -> existsb t_failed (c_pend s) = false ->
    chunk_ok p (c_pend s) i v -> chunk_ok p (filter (fun t => negb (t_done t)) (c_pend s)) i v.
  Proof.
    intros B Hnf H. unfold chunk_ok in *.
    destruct (task_for i (c_pend s)) as [t|] eqn:Et.
    - destruct (task_for_In _ _ _ Et) as [Hin Hti].
      destruct (t_done t) eqn:Hd.
      + (* the write is finished and successful: the file has its final name *)
        rewrite (task_for_filter_none i (c_pend s)).
        * pose proof (cb_tasks _ _ _ _ B) as HT. rewrite Forall_forall in HT. specialize (HT t Hin).
          pose proof (existsb_false_in _ _ Hnf t Hin) as Hf.
          unfold task_inv in HT. unfold t_done in Hd. unfold t_failed in Hf.
          destruct (t_st t); try discriminate. rewrite Hti, H in HT. exact HT.
        * intros u Hu Hui.
          assert (task_for i (c_pend s) = Some u) by (apply task_for_unique; auto; apply (cb_nodup _ _ _ _ B)).
          assert (u = t) by congruence. subst u. rewrite Hd. reflexivity.
      + rewrite (task_for_filter_keep i (c_pend s) _ t Et); [exact H | rewrite Hd; reflexivity].
    - rewrite (task_for_filter_none i (c_pend s)); [exact H|].
      intros u Hu Hui. exfalso. apply (task_for_None _ _ Et u Hu Hui).
  Qed.

  Lemma check_filter s p :
    cinvp s p -> c_pc s = PCheck -> existsb t_failed (c_pend s) = false ->
    cinvp (set_pc (set_pend s (filter (fun t => negb (t_done t)) (c_pend s))) PLoop) p.
  Proof.
    intros [B C] Hpc Hnf.
    pose proof (cp_phase _ _ _ _ _ C) as Hph. unfold phase_rel in Hph. rewrite Hpc in Hph.
    assert (Hek : c_exc s = true -> c_kill s = true).
    { intros He. destruct (cp_excpc _ _ _ _ _ C He) as [H|H]; [exact H | rewrite Hpc in H; destruct H]. }
    split.
    - destruct B as [Bm Bi Be Bk Bt Bn Ba Bp]. constructor; cbn; auto.
      + apply Forall_filter; exact Bt.
      + apply NoDup_map_filter; exact Bn.
      + intros H. apply Ba. intros E. rewrite E in H. apply H. reflexivity.
      + intros _. apply existsb_filter_false; exact Hnf.
    - constructor; cbn [set_pc set_pend c_pc c_pend c_exc c_kill c_fs c_i c_todo c_rec].
      + exact Hph.
      + auto.
      + intros _. split; [reflexivity | discriminate].
      + discriminate.
      + intros He. left. auto.
      + intros H1 H2. destruct (cp_J _ _ _ _ _ C) as [H|[_ H]]; auto; [rewrite Hpc; discriminate | congruence].
      + intros He _. destruct (cp_data _ _ _ _ _ C He) as (dn & cur & Hx & Hr & Hc & Hlt & Hch & Ht); [rewrite Hpc; discriminate|].
        unfold cur_ok in Hc. rewrite Hpc in Hc. subst cur.
        exists dn, []. cbn [set_pc set_pend c_pc c_pend c_exc c_kill c_fs c_i c_todo c_rec].
        split; [exact Hx|]. split; [exact Hr|]. split; [reflexivity|]. split; [exact Hlt|]. split.
        * intros i n v Hin Hn. apply chunk_ok_filter; [exact B | exact Hnf | exact (Hch i n v Hin Hn)].
        * intros t Hin. apply filter_In in Hin as [Hin _]. destruct (Ht t Hin) as [H|[_ [n H]]]; [left; exact H|].
          rewrite Hpc in H. discriminate.
  Qed.

  Lemma main_check s p : cinvp s p -> c_pc s = PCheck -> exists p', cinvp (mstep s) p'.
  Proof.
    intros I Hpc. pose proof I as [B C]. unfold main_step. rewrite Hpc.
    pose proof (cp_phase _ _ _ _ _ C) as Hph. unfold phase_rel in Hph. rewrite Hpc in Hph.
    exists p. destruct (r_var cfg) eqn:Ev.
    - apply check_filter; auto. apply (cb_pinned _ _ _ _ B Ev).
    - destruct (existsb t_failed (c_pend s)) eqn:Hf; [|apply check_filter; auto].
      apply handler_inv; auto.
      + apply (failed_task_pfailed s p B Hf).
      + rewrite Hpc; reflexivity.
      + rewrite Hpc; discriminate.
      + intros He. destruct (cp_excpc _ _ _ _ _ C He) as [H|H]; [exact H | rewrite Hpc in H; destruct H].
  Qed.

  (* --- the loop of save_from / SaverSpy.receive ----------------------------------------------- *)
  Lemma upexc_fs f oc f' : apply_ev f (OUpExc, oc) = Some f' -> f' = f.
  Proof. destruct oc as [|[]]; cbn; intros H; inversion H; reflexivity. Qed.

  Lemma NoDup_app_single (l : list Z) x : NoDup l -> ~ In x l -> NoDup (l ++ [x]).
  Proof.
    induction l as [|a l IH]; intros Hn Hx; cbn; [constructor; [intros []| constructor]|].
    inversion Hn; subst. constructor.
    - intros Hin. apply in_app_or in Hin as [Hin|[<-|[]]]; [contradiction|]. apply Hx. left; reflexivity.
    - apply IH; auto. intros Hin. apply Hx. right; exact Hin.
  Qed.

  Lemma existsb_app_single (f : task -> bool) l t : f t = false -> existsb f (l ++ [t]) = existsb f l.
  Proof. intros H. rewrite existsb_app. cbn. rewrite H. rewrite !Bool.orb_false_r. reflexivity. Qed.

  Lemma forallb_app_single (f : task -> bool) l t : forallb f (l ++ [t]) = forallb f l && f t.
  Proof. rewrite forallb_app. cbn. rewrite Bool.andb_true_r. reflexivity. Qed.

  Lemma main_loop s p : cinvp s p -> c_pc s = PLoop -> exists p', cinvp (mstep s) p'.
  Proof.
    intros I Hpc. pose proof I as [B C]. unfold main_step. rewrite Hpc.
    pose proof (cp_phase _ _ _ _ _ C) as Hph. unfold phase_rel in Hph. rewrite Hpc in Hph.
    assert (Hek : c_exc s = true -> c_kill s = true).
    { intros He. destruct (cp_excpc _ _ _ _ _ C He) as [H|H]; [exact H | rewrite Hpc in H; destruct H]. }
    destruct (negb (c_kill s) && match in_upfail inp with Some k => Nat.eqb k (c_deliv s) | None => false end) eqn:Eup.
    - (* the source fails: the exception is thrown into the saver *)
      destruct (do_op pl pc0 s OUpExc) as [s' ok] eqn:Ed.
      destruct (main_event_b s p OUpExc s' ok (fun _ => p_ph p) (fun _ => true) (fun _ => p_tmp p) (fun _ => p_fin p) B
                  (fun oc => pstep_upexc pc0 p oc) (fun _ _ => eq_refl)
                  (or_intror (fun _ => conj eq_refl eq_refl)) Ed)
        as (oc & B' & Ha & Hpc' & Htd & Hi & Hrec & Hpend & Hexc & Hkill & Hok1 & Hok2 & _).
      eexists. apply handler_inv.
      + exact B'.
      + reflexivity.
      + cbn [p_ph]. rewrite (upexc_fs _ _ _ Ha). exact Hph.
      + rewrite Hpc', Hpc. reflexivity.
      + rewrite Hpc', Hpc. discriminate.
      + rewrite Hexc, Hkill. exact Hek.
      + auto.
    - destruct (c_todo s) as [|[n v] rest] eqn:Etodo.
      + (* the source is exhausted *)
        assert (Hmove : forall x, (x = PWait \/ (x = PClose /\ c_pend s = [])) -> cinvp (set_pc s x) p).
        { intros x Hx.
          apply (cpc_move s p s p x I B eq_refl eq_refl eq_refl eq_refl eq_refl eq_refl eq_refl eq_refl).
          - rewrite Hpc; discriminate.
          - destruct Hx as [->|[-> _]]; exact Hph.
          - rewrite Hpc; discriminate.
          - destruct Hx as [->|[-> _]]; discriminate.
          - intros _. right. exact Etodo.
          - destruct Hx as [->|[-> Hp0]]; [intros _; split; [reflexivity | discriminate] | rewrite Hp0; discriminate].
          - destruct Hx as [->|[-> Hp0]]; [discriminate | rewrite Hp0; discriminate].
          - intros _. right. destruct Hx as [->|[-> _]]; constructor. }
        exists p. destruct (c_kill s) eqn:Ek.
        * apply Hmove. right. split; [reflexivity | apply (kill_no_tasks s p B Ek)].
        * destruct (r_proc cfg) eqn:Epr.
          -- apply Hmove. right. split; [reflexivity | apply (single_no_tasks s p B Epr)].
          -- apply Hmove. left. reflexivity.
      + (* the next chunk *)
        exists p.
        (* data_inv of the state in which chunk (n, v) is being saved, for a pending list l *)
        assert (D1 : c_exc s = false ->
                     exists dn, expected_of inp = dn ++ number_from (c_i s) ([(n, v)] ++ rest) /\ c_rec s = infos dn /\
                       (forall i n' v', In (i, n', v') dn -> i < c_i s) /\
                       (forall i n' v', In (i, n', v') dn -> n' <> 0 -> chunk_ok p (c_pend s) i v') /\
                       (forall t, In t (c_pend s) -> t_i t < c_i s)).
        { intros He. destruct (cp_data _ _ _ _ _ C He) as (dn & cur & Hx & Hr & Hc & Hlt & Hch & Ht); [rewrite Hpc; discriminate|].
          unfold cur_ok in Hc. rewrite Hpc in Hc. subst cur. rewrite Etodo in Hx. exists dn. repeat split; auto.
          intros t Hin. destruct (Ht t Hin) as [H|[_ [n' H]]]; [exact H | rewrite Hpc in H; discriminate]. }
        destruct (n =? 0) eqn:En.
        * (* an empty chunk: no file *)
          split; [destruct B; constructor; cbn; auto|].
          constructor; cbn [set_pc c_pc c_pend c_exc c_kill c_fs c_i c_todo c_rec].
          -- exact Hph.
          -- auto.
          -- intros _. split; [reflexivity | discriminate].
          -- discriminate.
          -- intros He. left; auto.
          -- intros _ Hpf. apply (cp_J _ _ _ _ _ C); [rewrite Hpc; discriminate | exact Hpf].
          -- intros He _. destruct (D1 He) as (dn & Hx & Hr & Hlt & Hch & Ht).
             exists dn, [(n, v)]. cbn [set_pc c_pc c_pend c_exc c_kill c_fs c_i c_todo c_rec].
             split; [exact Hx|]. split; [exact Hr|]. split.
             { exists v. split; [reflexivity|]. apply Z.eqb_eq in En. intros; contradiction. }
             split; [exact Hlt|]. split; [exact Hch|]. intros t Hin. left. auto.
        * destruct (is_async cfg && negb (c_kill s)) eqn:Eas.
          -- (* thread-pool saving: submit the write *)
             apply Bool.andb_true_iff in Eas as [Eas Ekf]. apply Bool.negb_true_iff in Ekf.
             set (t := mkTask (c_i s) v TNew).
             assert (Hids : c_exc s = false -> forall u, In u (c_pend s) -> t_i u <> t_i t).
             { intros He u Hu. destruct (D1 He) as (dn & _ & _ & _ & _ & Ht). specialize (Ht u Hu). cbn. lia. }
             assert (Hexc0 : c_exc s = false).
             { destruct (c_exc s) eqn:E; [|reflexivity]. rewrite (Hek eq_refl) in Ekf. discriminate. }
             split.
             ++ destruct B as [Bm Bi Be Bk Bt Bn Ba Bp].
                constructor; cbn [set_pc set_pend c_pc c_pend c_exc c_kill c_fs c_i c_todo c_rec c_mon]; auto.
                ** apply Forall_app. split; [exact Bt | constructor; [exact Logic.I | constructor]].
                ** rewrite map_app. cbn. apply NoDup_app_single; [exact Bn|].
                   intros Hin. apply in_map_iff in Hin as (u & Hu1 & Hu2). apply (Hids Hexc0 u Hu2). exact Hu1.
                ** intros Hv. rewrite existsb_app_single; [apply Bp; exact Hv | reflexivity].
             ++ constructor; cbn [set_pc set_pend c_pc c_pend c_exc c_kill c_fs c_i c_todo c_rec].
                ** exact Hph.
                ** auto.
                ** intros _. split; [reflexivity | discriminate].
                ** discriminate.
                ** intros He. left; auto.
                ** intros _ Hpf. destruct (cp_J _ _ _ _ _ C) as [H|[H1 H2]]; auto; [rewrite Hpc; discriminate|].
                   right. split; [exact H1|]. rewrite existsb_app_single; [exact H2 | reflexivity].
                ** intros He _. destruct (D1 He) as (dn & Hx & Hr & Hlt & Hch & Ht).
                   exists dn, [(n, v)]. cbn [set_pc set_pend c_pc c_pend c_exc c_kill c_fs c_i c_todo c_rec].
                   split; [exact Hx|]. split; [exact Hr|]. split.
                   { exists v. split; [reflexivity|]. intros _. unfold chunk_ok.
                     cbn [set_pc set_pend c_pc c_pend c_exc c_kill c_fs c_i c_todo c_rec].
                     rewrite (task_for_app_new (c_i s) (c_pend s) t); [reflexivity | | reflexivity].
                     intros u Hu. apply (Hids He u Hu). }
                   split; [exact Hlt|]. split.
                   { intros i n' v' Hin Hn'. specialize (Hch i n' v' Hin Hn'). unfold chunk_ok in *.
                     rewrite task_for_app_other; [exact Hch|]. cbn. specialize (Hlt i n' v' Hin). lia. }
                   intros u Hin. apply in_app_or in Hin as [Hin|[<-|[]]]; [left; auto|].
                   right. split; [reflexivity | eauto].
          -- (* serial saving: strax.save_file right here *)
             split; [destruct B; constructor; cbn; auto|].
             constructor; cbn [set_pc c_pc c_pend c_exc c_kill c_fs c_i c_todo c_rec].
             ++ exact Hph.
             ++ intros Ha Hk. rewrite Ha, Hk in Eas. discriminate.
             ++ intros _. split; [reflexivity | discriminate].
             ++ discriminate.
             ++ intros He. left; auto.
             ++ intros _ Hpf. apply (cp_J _ _ _ _ _ C); [rewrite Hpc; discriminate | exact Hpf].
             ++ intros He _. destruct (D1 He) as (dn & Hx & Hr & Hlt & Hch & Ht).
                exists dn, [(n, v)]. cbn [set_pc c_pc c_pend c_exc c_kill c_fs c_i c_todo c_rec].
                split; [exact Hx|]. split; [exact Hr|]. split.
                { split; [reflexivity|]. apply Z.eqb_neq. exact En. }
                split; [exact Hlt|]. split; [exact Hch|]. intros u Hin. left. auto.
  Qed.

  (* --- serial strax.save_file: write the temp file, rename it ----------------------------------- *)
  Lemma pstep_rename' p i oc : p_ph p = PhOpen ->
    pstep pc0 p (ORenameChunk i, oc) =
    Some (mkPst PhOpen (p_failed p || is_fail oc)
            (if did oc then rm_i i (p_tmp p) else p_tmp p)
            (if did oc then match lookup_i i (p_tmp p) with
                            | Some v => (i, v) :: rm_i i (p_fin p)
                            | None => rm_i i (p_fin p)
                            end
             else p_fin p)).
  Proof. intros H. rewrite (pstep_rename pc0 p i oc H). destruct (did oc); reflexivity. Qed.

  Lemma serial_no_tasks s p : cinvp s p ->
    match c_pc s with PSaveW _ _ | PSaveR _ => True | _ => False end -> c_pend s = [].
  Proof.
    intros [B C] Hpc. destruct (c_pend s) as [|t l] eqn:E; [reflexivity|]. exfalso.
    destruct (cb_async _ _ _ _ B) as [Ha Hk]; [rewrite E; discriminate|].
    pose proof (cp_nosync _ _ _ _ _ C Ha Hk) as H. destruct (c_pc s); auto.
  Qed.

  Lemma lookup_i_cons_other i j v l : j <> i -> lookup_i j ((i, v) :: l) = lookup_i j l.
  Proof. intros H. cbn. destruct (i =? j) eqn:E; [apply Z.eqb_eq in E; subst; contradiction | reflexivity]. Qed.

  Lemma main_savew s p n v : cinvp s p -> c_pc s = PSaveW n v -> exists p', cinvp (mstep s) p'.
  Proof.
    intros I Hpc. pose proof I as [B C]. unfold main_step. rewrite Hpc.
    pose proof (cp_phase _ _ _ _ _ C) as Hph. unfold phase_rel in Hph. rewrite Hpc in Hph.
    destruct Hph as [Hph Hfin].
    assert (Hek : c_exc s = true -> c_kill s = true).
    { intros He. destruct (cp_excpc _ _ _ _ _ C He) as [H|H]; [exact H | rewrite Hpc in H; destruct H]. }
    assert (Hp0 : c_pend s = []) by (apply (serial_no_tasks s p I); rewrite Hpc; exact Logic.I).
    destruct (do_op pl pc0 s (OWriteTmp (c_i s) v)) as [s' ok] eqn:Ed.
    destruct (main_event s p _ s' ok (fun _ => PhOpen)
                (fun oc => match oc with
                           | Done | Failed EFull => (c_i s, v) :: rm_i (c_i s) (p_tmp p)
                           | Failed ETrunc => rm_i (c_i s) (p_tmp p)
                           | Failed ENone => p_tmp p
                           end) (fun _ => p_fin p) I
                (fun oc => pstep_wtmp pc0 p (c_i s) v oc Hph) (or_introl Hp0) Ed)
      as (oc & B' & Ha & Hpc' & Htd & Hi & Hrec & Hpend & Hexc & Hkill & Hok1 & Hok2 & _).
    assert (Hfin' : f_final (c_fs s') = None)
      by (rewrite (final_kept _ _ _ _ Ha); [exact Hfin | discriminate | discriminate]).
    destruct ok.
    - assert (oc = Done) by auto; subst oc. eexists.
      split; [apply cbase_set_pc; exact B'|].
      constructor; cbn [set_pc c_pc c_pend c_exc c_kill c_fs c_i c_todo c_rec p_ph p_failed p_tmp p_fin];
        rewrite ?Hpend, ?Hexc, ?Hkill.
      + split; [reflexivity | exact Hfin'].
      + intros H1 H2. pose proof (cp_nosync _ _ _ _ _ C H1 H2) as H. rewrite Hpc in H. exact H.
      + rewrite Hp0. discriminate.
      + discriminate.
      + intros He. left; auto.
      + intros _ Hpf. rewrite Bool.orb_false_r in Hpf. apply (cp_J _ _ _ _ _ C); [rewrite Hpc; discriminate | exact Hpf].
      + intros He _. destruct (cp_data _ _ _ _ _ C He) as (dn & cur & Hx & Hr & Hc & Hlt & Hch & Ht); [rewrite Hpc; discriminate|].
        unfold cur_ok in Hc. rewrite Hpc in Hc. destruct Hc as [-> Hn].
        exists dn, [(n, v)]. cbn [set_pc c_pc c_pend c_exc c_kill c_fs c_i c_todo c_rec]. rewrite Hi, Htd, Hrec, ?Hpend. split; [exact Hx|]. split; [exact Hr|]. split.
        { unfold cur_ok. cbn [set_pc c_pc c_pend c_exc c_kill c_fs c_i c_todo c_rec p_tmp]. rewrite Hi.
          exists v. split; [reflexivity|]. split; [exact Hn|]. cbn. rewrite Z.eqb_refl. reflexivity. }
        split; [exact Hlt|]. split.
        { intros i n' v' Hin Hn'. eapply chunk_ok_fin; [|apply (Hch i n' v' Hin Hn')]. reflexivity. }
        rewrite Hp0. intros t [].
    - eexists. apply handler_inv.
      + exact B'.
      + cbn. rewrite (Hok2 eq_refl). apply Bool.orb_true_r.
      + split; [reflexivity | exact Hfin'].
      + rewrite Hpc', Hpc. reflexivity.
      + rewrite Hpc', Hpc. discriminate.
      + rewrite Hexc, Hkill. exact Hek.
      + auto.
  Qed.

  Lemma main_saver s p n : cinvp s p -> c_pc s = PSaveR n -> exists p', cinvp (mstep s) p'.
  Proof.
    intros I Hpc. pose proof I as [B C]. unfold main_step. rewrite Hpc.
    pose proof (cp_phase _ _ _ _ _ C) as Hph. unfold phase_rel in Hph. rewrite Hpc in Hph.
    destruct Hph as [Hph Hfin].
    assert (Hek : c_exc s = true -> c_kill s = true).
    { intros He. destruct (cp_excpc _ _ _ _ _ C He) as [H|H]; [exact H | rewrite Hpc in H; destruct H]. }
    assert (Hp0 : c_pend s = []) by (apply (serial_no_tasks s p I); rewrite Hpc; exact Logic.I).
    destruct (do_op pl pc0 s (ORenameChunk (c_i s))) as [s' ok] eqn:Ed.
    destruct (main_event s p _ s' ok (fun _ => PhOpen) _ _ I
                (fun oc => pstep_rename' p (c_i s) oc Hph) (or_introl Hp0) Ed)
      as (oc & B' & Ha & Hpc' & Htd & Hi & Hrec & Hpend & Hexc & Hkill & Hok1 & Hok2 & _).
    assert (Hfin' : f_final (c_fs s') = None)
      by (rewrite (final_kept _ _ _ _ Ha); [exact Hfin | discriminate | discriminate]).
    destruct ok.
    - assert (oc = Done) by auto; subst oc. eexists.
      split; [apply cbase_set_pc; exact B'|].
      constructor; cbn [set_pc c_pc c_pend c_exc c_kill c_fs c_i c_todo c_rec p_ph p_failed p_tmp p_fin did];
        rewrite ?Hpend, ?Hexc, ?Hkill.
      + split; [reflexivity | exact Hfin'].
      + auto.
      + rewrite Hp0. discriminate.
      + discriminate.
      + intros He. left; auto.
      + intros _ Hpf. rewrite Bool.orb_false_r in Hpf. apply (cp_J _ _ _ _ _ C); [rewrite Hpc; discriminate | exact Hpf].
      + intros He _. destruct (cp_data _ _ _ _ _ C He) as (dn & cur & Hx & Hr & Hc & Hlt & Hch & Ht); [rewrite Hpc; discriminate|].
        unfold cur_ok in Hc. rewrite Hpc in Hc. destruct Hc as (v & -> & Hn & Hl).
        exists dn, [(n, v)]. cbn [set_pc c_pc c_pend c_exc c_kill c_fs c_i c_todo c_rec]. rewrite Hi, Htd, Hrec, ?Hpend. split; [exact Hx|]. split; [exact Hr|]. split.
        { unfold cur_ok. cbn [set_pc c_pc c_pend c_exc c_kill c_fs c_i c_todo c_rec p_fin]. rewrite Hi, Hpend, Hp0.
          exists v. split; [reflexivity|]. intros _. unfold chunk_ok. cbn [task_for find p_fin].
          rewrite Hl. cbn. rewrite Z.eqb_refl. reflexivity. }
        split; [exact Hlt|]. split.
        { intros i n' v' Hin Hn'. specialize (Hch i n' v' Hin Hn'). specialize (Hlt i n' v' Hin).
          rewrite Hp0 in *. unfold chunk_ok in *. cbn [task_for find p_fin] in *. rewrite Hl.
          rewrite lookup_i_cons_other by lia. rewrite lookup_i_rm_other by lia. exact Hch. }
        rewrite Hp0. intros t [].
    - eexists. apply handler_inv.
      + exact B'.
      + cbn. rewrite (Hok2 eq_refl). apply Bool.orb_true_r.
      + split; [reflexivity | exact Hfin'].
      + rewrite Hpc', Hpc. reflexivity.
      + rewrite Hpc', Hpc. discriminate.
      + rewrite Hexc, Hkill. exact Hek.
      + auto.
  Qed.

  (* --- _save_chunk_metadata: append the chunk info, flush the metadata --------------------------- *)
  Lemma mem_pair_infos_app a c b : mem_pair (fst (fst c), snd (fst c)) (infos (a ++ c :: b)) = true.
  Proof.
    unfold mem_pair. apply existsb_exists. exists (fst (fst c), snd (fst c)). split.
    - unfold infos. rewrite map_app. apply in_or_app. right. left. reflexivity.
    - apply pair_eqb_eq. reflexivity.
  Qed.

  Lemma forallb_mem_infos_prefix a b : forallb (fun q => mem_pair q (infos (a ++ b))) (infos a) = true.
  Proof.
    apply forallb_forall. intros q Hin. unfold mem_pair. apply existsb_exists. exists q. split.
    - rewrite infos_app. apply in_or_app. left. exact Hin.
    - apply pair_eqb_eq. reflexivity.
  Qed.

  Lemma main_rec s p n : cinvp s p -> c_pc s = PRec n -> exists p', cinvp (mstep s) p'.
  Proof.
    intros I Hpc. pose proof I as [B C]. unfold main_step. rewrite Hpc.
    pose proof (cp_phase _ _ _ _ _ C) as Hph. unfold phase_rel in Hph. rewrite Hpc in Hph.
    destruct Hph as [Hph Hfin].
    assert (Hek : c_exc s = true -> c_kill s = true).
    { intros He. destruct (cp_excpc _ _ _ _ _ C He) as [H|H]; [exact H | rewrite Hpc in H; destruct H]. }
    set (rec' := c_rec s ++ [(c_i s, n)]).
    set (s1 := mkCst (PRec n) (c_fs s) (c_todo s) (c_i s) rec' (c_pend s) (c_exc s) (c_kill s) (c_deliv s)
                 (c_tr s) (c_mon s) (c_nf s) (c_lost s)).
    assert (B1 : cbase s1 p) by (destruct B; constructor; cbn; auto).
    (* the flush lists only recorded chunk infos *)
    assert (Hrun : running_ok pc0 p (mkMeta rec' false false) = true).
    { unfold running_ok. cbn [m_chunks]. destruct (p_failed p) eqn:Epf; [reflexivity|]. cbn.
      destruct (c_exc s) eqn:Ee; [rewrite (cb_exc _ _ _ _ B Ee) in Epf; discriminate|].
      destruct (cp_data _ _ _ _ _ C Ee) as (dn & cur & Hx & Hr & Hc & Hlt & Hch & Ht); [rewrite Hpc; discriminate|].
      unfold cur_ok in Hc. rewrite Hpc in Hc. destruct Hc as (v & -> & Hc).
      cbn in Hx. rewrite Hpc0, Hx. unfold rec'. rewrite Hr.
      rewrite forallb_app. apply Bool.andb_true_iff. split.
      - apply forallb_mem_infos_prefix.
      - cbn. rewrite Bool.andb_true_r. apply (mem_pair_infos_app dn (c_i s, n, v)). }
    destruct (do_op pl pc0 s1 (OWriteMeta (mkMeta rec' false false))) as [s' ok] eqn:Ed.
    destruct (main_event_b s1 p _ s' ok (fun _ => PhOpen) (fun oc => p_failed p || is_fail oc)
                (fun _ => p_tmp p) (fun _ => p_fin p) B1
                (fun oc => pstep_meta_running pc0 p (mkMeta rec' false false) oc Hph eq_refl Hrun)
                (fun oc => failed_mono _ oc)
                (or_intror (fun _ => conj eq_refl eq_refl)) Ed)
      as (oc & B' & Ha & Hpc' & Htd & Hi & Hrec & Hpend & Hexc & Hkill & Hok1 & Hok2 & _).
    cbn [s1 c_pc c_fs c_todo c_i c_rec c_pend c_exc c_kill] in Ha, Hpc', Htd, Hi, Hrec, Hpend, Hexc, Hkill.
    assert (Hfin' : f_final (c_fs s') = None)
      by (rewrite (final_kept _ _ _ _ Ha); [exact Hfin | discriminate | discriminate]).
    destruct ok.
    - assert (oc = Done) by auto; subst oc. eexists.
      split.
      + destruct B' as [Bm Bi Be Bk Bt Bn Ba Bp]. constructor; cbn; eauto.
      + assert (Hcls : cur_class (after_rec cfg s') <> 0%nat /\ open_pc (after_rec cfg s') = true /\
                       after_rec cfg s' <> PClose /\ after_rec cfg s' <> PAbort /\
                       match after_rec cfg s' with PSaveW _ _ | PSaveR _ => False | _ => True end /\
                       (after_rec cfg s' = PLoop \/ after_rec cfg s' = PCheck)).
        { unfold after_rec. destruct (r_proc cfg); [|destruct (c_kill s')]; cbn; repeat split; auto; discriminate. }
        destruct Hcls as (Hc1 & Hc2 & Hc3 & Hc4 & Hc5 & Hc6).
        constructor; cbn [c_pc c_pend c_exc c_kill c_fs c_i c_todo c_rec p_ph p_failed p_tmp p_fin];
          rewrite ?Hpend, ?Hexc, ?Hkill.
        * unfold phase_rel. cbn [c_pc c_fs c_pend]. destruct Hc6 as [-> | ->]; split; auto.
        * intros _ _. exact Hc5.
        * intros _. split; [exact Hc2 | exact Hc3].
        * intros H. contradiction.
        * intros He. left; auto.
        * intros _ Hpf. cbn in Hpf. rewrite Bool.orb_false_r in Hpf.
          apply (cp_J _ _ _ _ _ C); [rewrite Hpc; discriminate | exact Hpf].
        * intros He _.
          destruct (cp_data _ _ _ _ _ C He) as (dn & cur & Hx & Hr & Hc & Hlt & Hch & Ht); [rewrite Hpc; discriminate|].
          unfold cur_ok in Hc. rewrite Hpc in Hc. destruct Hc as (v & -> & Hc).
          exists (dn ++ [(c_i s, n, v)]), [].
          cbn [c_pc c_pend c_exc c_kill c_fs c_i c_todo c_rec]. rewrite Hi, Htd, Hrec, ?Hpend.
          split; [cbn in Hx; rewrite Hx, <- app_assoc; reflexivity|].
          split; [unfold rec'; rewrite infos_app, Hr; reflexivity|].
          split; [unfold cur_ok; cbn [c_pc]; destruct Hc6 as [-> | ->]; reflexivity|].
          split.
          { intros i n' v' Hin. apply in_app_or in Hin as [Hin|[Hin|[]]]; [specialize (Hlt _ _ _ Hin); lia|].
            inversion Hin; subst. lia. }
          split.
          { intros i n' v' Hin Hn'. apply in_app_or in Hin as [Hin|[Hin|[]]].
            - eapply chunk_ok_fin; [|apply (Hch _ _ _ Hin Hn')]. reflexivity.
            - inversion Hin; subst. eapply chunk_ok_fin; [|apply (Hc Hn')]. reflexivity. }
          intros t Hin. left. destruct (Ht t Hin) as [H|[H _]]; lia.
    - eexists. apply handler_inv.
      + exact B'.
      + cbn. rewrite (Hok2 eq_refl). apply Bool.orb_true_r.
      + split; [reflexivity | exact Hfin'].
      + rewrite Hpc'. reflexivity.
      + rewrite Hpc'. discriminate.
      + rewrite Hexc, Hkill. exact Hek.
      + auto.
  Qed.

  Lemma main_step_inv s : cinv cfg inp pc0 s -> cinv cfg inp pc0 (mstep s).
  Proof.
    intros [p I]. destruct (c_pc s) eqn:Hpc.
    - apply (main_init0 s p I Hpc).
    - apply (main_init1 s p I Hpc).
    - apply (main_init2 s p I Hpc).
    - apply (main_init3 s p I Hpc).
    - apply (main_loop s p I Hpc).
    - apply (main_savew s p n v I Hpc).
    - apply (main_saver s p n I Hpc).
    - apply (main_rec s p n I Hpc).
    - apply (main_check s p I Hpc).
    - apply (main_wait s p I Hpc).
    - apply (main_close s p I Hpc).
    - apply (main_ren s p I Hpc).
    - exists p. unfold main_step. rewrite Hpc. exact I.
    - exists p. unfold main_step. rewrite Hpc. exact I.
  Qed.

  (* --- one operation of a pooled chunk write (strax.io.save_file on a worker thread) ------------- *)
  Lemma In_upd_nth' (l : list task) j t' u : In u (upd_nth l j t') -> u = t' \/ In u l.
  Proof.
    revert j; induction l as [|a l IH]; intros j H; destruct j; cbn in *; auto.
    - destruct H as [->|H]; auto.
    - destruct H as [->|H]; auto. apply IH in H. intuition.
  Qed.

  Lemma chunk_ok_upd p p' pend j t t' i v :
    NoDup (map t_i pend) -> nth_error pend j = Some t -> t_i t' = t_i t -> t_v t' = t_v t ->
    (forall b, b <> t_i t -> lookup_i b (p_fin p') = lookup_i b (p_fin p)) ->
    chunk_ok p pend i v -> chunk_ok p' (upd_nth pend j t') i v.
  Proof.
    intros Hnd Hn Hi Hv Hfin H. unfold chunk_ok in *.
    rewrite (task_for_upd i pend j t t' Hnd Hn Hi).
    destruct (t_i t =? i) eqn:E.
    - apply Z.eqb_eq in E.
      rewrite (task_for_unique i pend t Hnd (nth_error_In _ _ Hn) E) in H. congruence.
    - apply Z.eqb_neq in E. destruct (task_for i pend); [exact H|]. rewrite Hfin by auto. exact H.
  Qed.

  Lemma undone_open s p t : cinvp s p -> In t (c_pend s) -> t_done t = false ->
    open_pc (c_pc s) = true /\ c_pc s <> PClose /\ p_ph p = PhOpen /\ f_final (c_fs s) = None /\
    is_async cfg = true /\ c_kill s = false.
  Proof.
    intros [B C] Hin Hd.
    assert (Hf : forallb t_done (c_pend s) = false).
    { destruct (forallb t_done (c_pend s)) eqn:E; [|reflexivity].
      rewrite (forallb_forall_in _ _ E t Hin) in Hd. discriminate. }
    destruct (cp_undone _ _ _ _ _ C Hf) as [H1 H2].
    destruct (cb_async _ _ _ _ B) as [H3 H4]; [intros E; rewrite E in Hin; destruct Hin|].
    pose proof (cp_phase _ _ _ _ _ C) as Hph. unfold phase_rel in Hph.
    destruct (c_pc s); cbn in H1; try discriminate; destruct Hph; auto 10.
  Qed.

  Lemma worker_event s p j t o s' ok tmp' fin' t' :
    cinvp s p -> nth_error (c_pend s) j = Some t -> t_done t = false ->
    (forall oc, pstep pc0 p (o, oc) = Some (mkPst PhOpen (p_failed p || is_fail oc) (tmp' oc) (fin' oc))) ->
    (forall oc b, b <> t_i t -> lookup_i b (tmp' oc) = lookup_i b (p_tmp p) /\ lookup_i b (fin' oc) = lookup_i b (p_fin p)) ->
    (o <> ORmFinal /\ o <> ORenameDir) ->
    do_op pl pc0 s o = (s', ok) ->
    t_i t' = t_i t -> t_v t' = t_v t -> (ok = false -> t_st t' = TFail) ->
    (ok = true -> task_inv (mkPst PhOpen (p_failed p || false) (tmp' Done) (fin' Done)) t' /\ t_failed t' = false) ->
    (worker_faultless pl -> pl (c_nf s) (length (c_tr s)) o = None) ->
    apply_done (c_fs s) o <> None ->
    exists p', cinvp (set_pend s' (upd_nth (c_pend s') j t')) p'.
  Proof.
    intros I Hn Hd Hps Hoth [Ho1 Ho2] Ed Hti Htv Hfail Hokt Hwf Happ.
    pose proof I as [B C].
    pose proof (nth_error_In _ _ Hn) as Hin.
    destruct (undone_open s p t I Hin Hd) as (Hop & Hnc & Hph & Hfin & Hasy & Hkf).
    doop Ed. rewrite (cb_mon _ _ _ _ B), (Hps oc) in Hmon.
    set (p' := mkPst PhOpen (p_failed p || is_fail oc) (tmp' oc) (fin' oc)) in *.
    assert (HI : Inv pc0 p' f') by (eapply Inv_event; eauto).
    assert (Hfin' : f_final f' = None) by (rewrite (final_kept _ _ _ _ Ha); auto).
    (* in a mode where the saver keeps to the protocol a failing pooled write is looked at *)
    assert (Hfixed : ok = false -> r_var cfg = Fixed).
    { intros ->. destruct Hmode as [H|[H|H]]; [exact H | congruence |].
      exfalso. specialize (Hok3 (Hwf H) Happ). discriminate. }
    assert (Hnft : t_failed t = false) by (unfold t_done in Hd; unfold t_failed; destruct (t_st t); auto; discriminate).
    assert (Hft' : t_failed t' = negb ok).
    { destruct ok; cbn; [apply (Hokt eq_refl) | unfold t_failed; rewrite (Hfail eq_refl); reflexivity]. }
    exists p'. split.
    - (* cbase *)
      destruct B as [Bm Bi Be Bk Bt Bn Ba Bp].
      constructor; cbn [set_pend c_pend c_mon c_fs c_exc c_kill]; rewrite ?Hpend, ?Hexc, ?Hkill, ?Hfs; auto.
      + intros He. cbn. rewrite (Be He). reflexivity.
      + eapply (Forall_upd_nth_other (task_inv p) (task_inv p')); eauto.
        * intros u Hu Hne Hu2. unfold task_inv in *. destruct (Hoth oc (t_i u) Hne) as [H1 H2].
          unfold p'. cbn [p_tmp p_fin p_failed].
          destruct (t_st u); [exact Logic.I | rewrite H1; exact Hu2 | rewrite H2; exact Hu2 | rewrite Hu2; reflexivity].
        * destruct ok.
          -- assert (oc = Done) by auto; subst oc. exact (proj1 (Hokt eq_refl)).
          -- unfold task_inv. rewrite (Hfail eq_refl). cbn. rewrite (Hok2 eq_refl). apply Bool.orb_true_r.
      + rewrite (map_upd_nth_id _ j t t' Hn Hti). exact Bn.
      + intros Hv. rewrite (existsb_upd_nth t_failed _ j t t' Hn Hnft), (Bp Hv), Hft'. cbn.
        destruct ok; [reflexivity|]. rewrite (Hfixed eq_refl) in Hv. discriminate.
    - (* the part that mentions the program counter: it has not moved *)
      constructor; cbn [set_pend c_pc c_pend c_fs c_exc c_kill c_i c_todo c_rec]; rewrite ?Hpc', ?Hpend, ?Hexc, ?Hkill, ?Hfs.
      + unfold phase_rel. cbn [set_pend c_pc c_fs c_pend c_rec c_exc]. rewrite Hpc', Hfs.
        destruct (c_pc s); cbn in Hop; try discriminate; split; auto.
      + apply (cp_nosync _ _ _ _ _ C).
      + intros _. split; [exact Hop | exact Hnc].
      + intros H. contradiction.
      + apply (cp_excpc _ _ _ _ _ C).
      + intros Hna Hpf. cbn in Hpf.
        rewrite (existsb_upd_nth t_failed _ j t t' Hn Hnft), Hft'.
        destruct ok.
        * assert (oc = Done) by auto; subst oc. cbn in Hpf. rewrite Bool.orb_false_r in Hpf.
          destruct (cp_J _ _ _ _ _ C Hna Hpf) as [H|[H1 H2]]; [left; exact H | right].
          split; [exact H1 | rewrite H2; reflexivity].
        * right. split; [apply Hfixed; reflexivity | apply Bool.orb_true_r].
      + intros He Hna.
        destruct (cp_data _ _ _ _ _ C He Hna) as (dn & cur & Hx & Hr & Hc & Hlt & Hch & Ht).
        assert (Hck : forall i v, chunk_ok p (c_pend s) i v -> chunk_ok p' (upd_nth (c_pend s) j t') i v).
        { intros i v. apply (chunk_ok_upd p p' (c_pend s) j t t' i v); auto; [apply (cb_nodup _ _ _ _ B)|].
          intros b Hb. apply (Hoth oc b Hb). }
        exists dn, cur. cbn [set_pend c_pc c_pend c_fs c_exc c_kill c_i c_todo c_rec].
        rewrite ?Hpc', ?Hpend, ?Hi, ?Htd, ?Hrec.
        split; [exact Hx|]. split; [exact Hr|]. split.
        { unfold cur_ok in *. cbn [set_pend c_pc c_pend c_i c_todo]. rewrite Hpc', ?Hpend, ?Hi, ?Htd.
          pose proof (cp_nosync _ _ _ _ _ C Hasy Hkf) as Hns.
          destruct (c_pc s); auto; try contradiction.
          destruct Hc as (v & Hc1 & Hc2). exists v. split; [exact Hc1|]. intros Hn0. apply Hck. auto. }
        split; [exact Hlt|]. split.
        { intros i n v Hi' Hn0. apply Hck. eapply Hch; eauto. }
        intros u Hu. apply In_upd_nth' in Hu as [->|Hu]; [rewrite Hti; apply (Ht t Hin) | apply (Ht u Hu)].
  Qed.

  Lemma work_step_inv s j : cinv cfg inp pc0 s -> cinv cfg inp pc0 (wstep s j).
  Proof.
    intros [p I]. unfold work_step.
    destruct (nth_error (c_pend s) j) as [t|] eqn:Hn; [|exists p; exact I].
    pose proof I as [B C]. pose proof (nth_error_In _ _ Hn) as Hin.
    pose proof (cb_tasks _ _ _ _ B) as HT. rewrite Forall_forall in HT. specialize (HT t Hin).
    destruct (t_st t) eqn:Est; try (exists p; exact I).
    - (* write the temp file *)
      assert (Hd : t_done t = false) by (unfold t_done; rewrite Est; reflexivity).
      destruct (undone_open s p t I Hin Hd) as (Hop & Hnc & Hph & Hfin & Hasy & Hkf).
      destruct (do_op pl pc0 s (OWriteTmp (t_i t) (t_v t))) as [s' ok] eqn:Ed.
      refine (worker_event s p j t (OWriteTmp (t_i t) (t_v t)) s' ok
                (fun oc => match oc with
                           | Done | Failed EFull => (t_i t, t_v t) :: rm_i (t_i t) (p_tmp p)
                           | Failed ETrunc => rm_i (t_i t) (p_tmp p)
                           | Failed ENone => p_tmp p
                           end) (fun _ => p_fin p) (mkTask (t_i t) (t_v t) (if ok then TWritten else TFail))
                I Hn Hd _ _ _ Ed eq_refl eq_refl _ _ _ _).
      + intros oc. apply pstep_wtmp. exact Hph.
      + intros oc b Hb. split; [|reflexivity].
        destruct oc as [|[]]; try reflexivity;
          try (rewrite lookup_i_cons_other by auto); rewrite lookup_i_rm_other by auto; reflexivity.
      + split; discriminate.
      + intros ->. reflexivity.
      + intros ->. split; [|reflexivity]. unfold task_inv. cbn. rewrite Z.eqb_refl. reflexivity.
      + intros H. apply H.
      + destruct (cb_inv _ _ _ _ B) as [_ Hi]. rewrite Hph in Hi. destruct Hi as (d & Hd' & _).
        cbn. unfold on_temp. rewrite Hd'. discriminate.
    - (* rename it *)
      assert (Hd : t_done t = false) by (unfold t_done; rewrite Est; reflexivity).
      destruct (undone_open s p t I Hin Hd) as (Hop & Hnc & Hph & Hfin & Hasy & Hkf).
      unfold task_inv in HT. rewrite Est in HT.
      destruct (do_op pl pc0 s (ORenameChunk (t_i t))) as [s' ok] eqn:Ed.
      refine (worker_event s p j t (ORenameChunk (t_i t)) s' ok _ _ (mkTask (t_i t) (t_v t) (if ok then TOk else TFail))
                I Hn Hd (fun oc => pstep_rename' p (t_i t) oc Hph) _ _ Ed eq_refl eq_refl _ _ _ _).
      + intros oc b Hb. cbn beta. destruct (did oc); [|split; reflexivity]. split.
        * apply lookup_i_rm_other; auto.
        * destruct (lookup_i (t_i t) (p_tmp p)); [rewrite lookup_i_cons_other by auto|];
            apply lookup_i_rm_other; auto.
      + split; discriminate.
      + intros ->. reflexivity.
      + intros ->. split; [|reflexivity]. unfold task_inv. cbn. rewrite HT. cbn. rewrite Z.eqb_refl. reflexivity.
      + intros H. exact (proj2 (H (c_nf s) (length (c_tr s)) (t_i t) 0)).
      + destruct (cb_inv _ _ _ _ B) as [_ Hi]. rewrite Hph in Hi. destruct Hi as (d & Hd' & Hft & _).
        cbn. unfold on_temp. rewrite Hd'. rewrite (Hft _ _ HT). discriminate.
  Qed.

  Lemma step_inv s ch : cinv cfg inp pc0 s -> cinv cfg inp pc0 (step cfg inp pl pc0 s ch).
  Proof.
    intros I. unfold step.
    assert (Hfb : cinv cfg inp pc0
                    (if main_blocked s
                     then match first_undone (c_pend s) 0 with Some j => wstep s j | None => mstep s end
                     else mstep s)).
    { destruct (main_blocked s); [|apply main_step_inv; exact I].
      destruct (first_undone (c_pend s) 0); [apply work_step_inv | apply main_step_inv]; exact I. }
    destruct ch as [j|]; [|exact Hfb].
    destruct (nth_error (c_pend s) j) as [t|]; [|exact Hfb].
    destruct (t_done t); [exact Hfb | apply work_step_inv; exact I].
  Qed.

  Lemma run_inv fuel : forall sched s, cinv cfg inp pc0 s -> cinv cfg inp pc0 (run cfg inp pl pc0 fuel sched s).
  Proof.
    induction fuel as [|fuel IH]; intros sched s I; cbn [run]; [exact I|].
    destruct (terminal s); [exact I|].
    destruct sched as [|ch r]; apply IH; apply step_inv; exact I.
  Qed.

  (* --- the initial state ------------------------------------------------------------------------ *)
  Lemma init_cinv f0 :
    fs_ok (p_expected pc0) f0 -> (f_final f0 <> None -> p_allow_rm pc0 = true) ->
    cinv cfg inp pc0 (init_cst inp f0).
  Proof.
    intros Hok Hal. exists pst_init. split.
    - constructor; cbn; auto; try discriminate; try contradiction.
      + apply Inv_init. exact Hok.
      + constructor.
    - constructor; cbn; auto; try discriminate; try contradiction.
      intros _ _. exists [], []. cbn. repeat split; auto; intros; contradiction.
  Qed.

  (* --- termination: every step of a non-terminal state decreases a measure ---------------------- *)
  Definition task_rem (t : task) : nat := match t_st t with TNew => 2 | TWritten => 1 | _ => 0 end.
  Fixpoint tasks_rem (l : list task) : nat :=
    match l with [] => 0%nat | t :: r => (task_rem t + tasks_rem r)%nat end.
  Definition pcw (x : pc) : nat :=
    match x with
    | PInit0 => 8 | PInit1 => 7 | PInit2 => 6 | PInit3 => 5
    | PLoop => 4 | PSaveW _ _ => 8 | PSaveR _ => 7 | PRec _ => 6 | PCheck => 5
    | PWait => 3 | PClose => 2 | PRen => 1 | PEnd | PAbort => 0
    end%nat.
  Definition mu (s : cst) : nat :=
    (pcw (c_pc s) + 5 * length (c_todo s) + (if c_kill s then 0 else 5 * length (in_rem inp) + 1)
     + tasks_rem (c_pend s))%nat.

  Lemma tasks_rem_app l1 l2 : tasks_rem (l1 ++ l2) = (tasks_rem l1 + tasks_rem l2)%nat.
  Proof. induction l1 as [|a l1 IH]; cbn; [reflexivity|]. rewrite IH. lia. Qed.

  Lemma tasks_rem_filter l : tasks_rem (filter (fun t => negb (t_done t)) l) = tasks_rem l.
  Proof.
    induction l as [|a l IH]; cbn; [reflexivity|].
    destruct (t_done a) eqn:E; cbn; rewrite IH; [|reflexivity].
    unfold t_done in E. unfold task_rem. destruct (t_st a); try discriminate; reflexivity.
  Qed.

  Lemma tasks_rem_upd l j t t' :
    nth_error l j = Some t -> (tasks_rem (upd_nth l j t') + task_rem t = tasks_rem l + task_rem t')%nat.
  Proof.
    revert j; induction l as [|a l IH]; intros j H; destruct j; cbn in *; try discriminate.
    - inversion H; subst. lia.
    - specialize (IH _ H). lia.
  Qed.

  Lemma do_op_shape s o s' ok :
    do_op pl pc0 s o = (s', ok) ->
    c_pc s' = c_pc s /\ c_todo s' = c_todo s /\ c_kill s' = c_kill s /\ c_pend s' = c_pend s.
  Proof. intros Ed. doop Ed. auto. Qed.

  Lemma handler_mu s : (4 <= pcw (c_pc s))%nat -> (mu (handler cfg inp s) < mu s)%nat.
  Proof.
    intros H. unfold handler, mu. destruct (c_kill s) eqn:Ek; cbn [set_pc c_pc c_todo c_kill c_pend pcw].
    - rewrite ?Ek. lia.
    - destruct (r_proc cfg); cbn [c_pc c_todo c_kill c_pend pcw]; rewrite ?Ek; lia.
  Qed.

  Lemma main_step_mu s : terminal s = false -> main_blocked s = false -> (mu (mstep s) < mu s)%nat.
  Proof.
    intros Ht Hb. unfold main_step. unfold terminal in Ht.
    destruct (c_pc s) eqn:Hpc; try discriminate.
    - destruct (f_final (c_fs s)).
      + destruct (do_op pl pc0 s ORmFinal) as [s' ok] eqn:Ed. destruct (do_op_shape _ _ _ _ Ed) as (H1 & H2 & H3 & H4).
        destruct ok; unfold mu; cbn [set_pc c_pc c_todo c_kill c_pend pcw]; rewrite H2, H3, H4, Hpc; cbn [pcw]; lia.
      + unfold mu; cbn [set_pc c_pc c_todo c_kill c_pend pcw]; rewrite Hpc; cbn [pcw]; lia.
    - destruct (f_temp (c_fs s)).
      + destruct (do_op pl pc0 s ORmTemp) as [s' ok] eqn:Ed. destruct (do_op_shape _ _ _ _ Ed) as (H1 & H2 & H3 & H4).
        destruct ok; unfold mu; cbn [set_pc c_pc c_todo c_kill c_pend pcw]; rewrite H2, H3, H4, Hpc; cbn [pcw]; lia.
      + unfold mu; cbn [set_pc c_pc c_todo c_kill c_pend pcw]; rewrite Hpc; cbn [pcw]; lia.
    - destruct (do_op pl pc0 s OMkTemp) as [s' ok] eqn:Ed. destruct (do_op_shape _ _ _ _ Ed) as (H1 & H2 & H3 & H4).
      destruct ok; unfold mu; cbn [set_pc c_pc c_todo c_kill c_pend pcw]; rewrite H2, H3, H4, Hpc; cbn [pcw]; lia.
    - destruct (do_op pl pc0 s (OWriteMeta (mkMeta [] false false))) as [s' ok] eqn:Ed.
      destruct (do_op_shape _ _ _ _ Ed) as (H1 & H2 & H3 & H4).
      destruct ok; unfold mu; cbn [set_pc c_pc c_todo c_kill c_pend pcw]; rewrite H2, H3, H4, Hpc; cbn [pcw]; lia.
    - (* PLoop *)
      destruct (negb (c_kill s) && match in_upfail inp with Some k => Nat.eqb k (c_deliv s) | None => false end).
      + destruct (do_op pl pc0 s OUpExc) as [s' ok] eqn:Ed. destruct (do_op_shape _ _ _ _ Ed) as (H1 & H2 & H3 & H4).
        assert (Hm : mu s' = mu s) by (unfold mu; rewrite H1, H2, H3, H4; reflexivity).
        rewrite <- Hm. apply handler_mu. rewrite H1, Hpc. cbn. lia.
      + destruct (c_todo s) as [|[n v] rest] eqn:Etd.
        * destruct (c_kill s) eqn:Ek; [|destruct (r_proc cfg)];
            unfold mu; cbn [set_pc c_pc c_todo c_kill c_pend pcw]; rewrite Hpc, Etd, ?Ek; cbn [pcw length]; lia.
        * destruct (n =? 0); [|destruct (is_async cfg && negb (c_kill s))];
            unfold mu; cbn [set_pc set_pend c_pc c_todo c_kill c_pend pcw]; rewrite Hpc, Etd, ?tasks_rem_app;
            cbn [pcw length tasks_rem task_rem t_st]; lia.
    - destruct (do_op pl pc0 s (OWriteTmp (c_i s) v)) as [s' ok] eqn:Ed. destruct (do_op_shape _ _ _ _ Ed) as (H1 & H2 & H3 & H4).
      destruct ok.
      + unfold mu; cbn [set_pc c_pc c_todo c_kill c_pend pcw]; rewrite H2, H3, H4, Hpc; cbn [pcw]; lia.
      + assert (Hm : mu s' = mu s) by (unfold mu; rewrite H1, H2, H3, H4; reflexivity).
        rewrite <- Hm. apply handler_mu. rewrite H1, Hpc. cbn. lia.
    - destruct (do_op pl pc0 s (ORenameChunk (c_i s))) as [s' ok] eqn:Ed. destruct (do_op_shape _ _ _ _ Ed) as (H1 & H2 & H3 & H4).
      destruct ok.
      + unfold mu; cbn [set_pc c_pc c_todo c_kill c_pend pcw]; rewrite H2, H3, H4, Hpc; cbn [pcw]; lia.
      + assert (Hm : mu s' = mu s) by (unfold mu; rewrite H1, H2, H3, H4; reflexivity).
        rewrite <- Hm. apply handler_mu. rewrite H1, Hpc. cbn. lia.
    - (* PRec *)
      match goal with |- context [do_op pl pc0 ?s1 ?o] => destruct (do_op pl pc0 s1 o) as [s' ok] eqn:Ed end.
      destruct (do_op_shape _ _ _ _ Ed) as (H1 & H2 & H3 & H4). cbn in H1, H2, H3, H4.
      destruct ok.
      + unfold mu; cbn [c_pc c_todo c_kill c_pend]; rewrite H2, H3, H4, Hpc.
        unfold after_rec. destruct (r_proc cfg); [|rewrite H3; destruct (c_kill s)]; cbn [pcw]; lia.
      + assert (Hm : mu s' = mu s) by (unfold mu; rewrite H1, H2, H3, H4, Hpc; reflexivity).
        rewrite <- Hm. apply handler_mu. rewrite H1. cbn. lia.
    - (* PCheck *)
      assert (Hf : (mu (set_pc (set_pend s (filter (fun t => negb (t_done t)) (c_pend s))) PLoop) < mu s)%nat).
      { unfold mu; cbn [set_pc set_pend c_pc c_todo c_kill c_pend pcw]. rewrite tasks_rem_filter, Hpc. cbn [pcw]. lia. }
      destruct (r_var cfg); [exact Hf|]. destruct (existsb t_failed (c_pend s)); [|exact Hf].
      apply handler_mu. rewrite Hpc. cbn. lia.
    - (* PWait: not blocked, so every pending write is done *)
      unfold main_blocked in Hb. rewrite Hpc in Hb. apply Bool.negb_false_iff in Hb. rewrite Hb.
      destruct (r_var cfg); [|destruct (existsb t_failed (c_pend s))];
        unfold mu; cbn [set_pc c_pc c_todo c_kill c_pend pcw]; rewrite Hpc; cbn [pcw]; lia.
    - match goal with |- context [do_op pl pc0 s ?o] => destruct (do_op pl pc0 s o) as [s' ok] eqn:Ed end.
      destruct (do_op_shape _ _ _ _ Ed) as (H1 & H2 & H3 & H4).
      destruct ok; unfold mu, close_failed; cbn [set_lost set_pc c_pc c_todo c_kill c_pend pcw]; rewrite H2, H3, H4, Hpc; cbn [pcw]; lia.
    - destruct (do_op pl pc0 s ORenameDir) as [s' ok] eqn:Ed. destruct (do_op_shape _ _ _ _ Ed) as (H1 & H2 & H3 & H4).
      destruct ok; unfold mu, close_failed; cbn [set_lost set_pc c_pc c_todo c_kill c_pend pcw]; rewrite H2, H3, H4, Hpc; cbn [pcw]; lia.
  Qed.

  Lemma work_step_mu s j t : nth_error (c_pend s) j = Some t -> t_done t = false -> (mu (wstep s j) < mu s)%nat.
  Proof.
    intros Hn Hd. unfold work_step. rewrite Hn. unfold t_done in Hd.
    destruct (t_st t) eqn:Est; try discriminate.
    - destruct (do_op pl pc0 s (OWriteTmp (t_i t) (t_v t))) as [s' ok] eqn:Ed.
      destruct (do_op_shape _ _ _ _ Ed) as (H1 & H2 & H3 & H4). rewrite H4.
      pose proof (tasks_rem_upd (c_pend s) j t (mkTask (t_i t) (t_v t) (if ok then TWritten else TFail)) Hn) as Hu.
      unfold mu; cbn [set_pend c_pc c_todo c_kill c_pend]. rewrite H1, H2, H3.
      unfold task_rem in Hu. cbn [t_st] in Hu. rewrite Est in Hu. destruct ok; lia.
    - destruct (do_op pl pc0 s (ORenameChunk (t_i t))) as [s' ok] eqn:Ed.
      destruct (do_op_shape _ _ _ _ Ed) as (H1 & H2 & H3 & H4). rewrite H4.
      pose proof (tasks_rem_upd (c_pend s) j t (mkTask (t_i t) (t_v t) (if ok then TOk else TFail)) Hn) as Hu.
      unfold mu; cbn [set_pend c_pc c_todo c_kill c_pend]. rewrite H1, H2, H3.
      unfold task_rem in Hu. cbn [t_st] in Hu. rewrite Est in Hu. destruct ok; lia.
  Qed.

  Lemma first_undone_some l k : forallb t_done l = false -> first_undone l k <> None.
  Proof.
    revert k; induction l as [|a l IH]; intros k H; cbn in *; [discriminate|].
    destruct (t_done a); [apply IH; exact H | discriminate].
  Qed.

  Lemma step_mu s ch : terminal s = false -> (mu (step cfg inp pl pc0 s ch) < mu s)%nat.
  Proof.
    intros Ht. unfold step.
    assert (Hfb : (mu (if main_blocked s
                       then match first_undone (c_pend s) 0 with Some j => wstep s j | None => mstep s end
                       else mstep s) < mu s)%nat).
    { destruct (main_blocked s) eqn:Hb; [|apply main_step_mu; auto].
      destruct (first_undone (c_pend s) 0) as [j|] eqn:Ef.
      - destruct (first_undone_spec _ _ _ Ef) as (t & Hn & Hd & _). rewrite Nat.sub_0_r in Hn.
        eapply work_step_mu; eauto.
      - exfalso. unfold main_blocked in Hb. destruct (c_pc s); try discriminate.
        apply Bool.negb_true_iff in Hb. apply (first_undone_some _ 0%nat Hb Ef). }
    destruct ch as [j|]; [|exact Hfb].
    destruct (nth_error (c_pend s) j) as [t|] eqn:Hn; [|exact Hfb].
    destruct (t_done t) eqn:Hd; [exact Hfb | eapply work_step_mu; eauto].
  Qed.

  Lemma run_terminates fuel : forall sched s, (mu s <= fuel)%nat -> terminal (run cfg inp pl pc0 fuel sched s) = true.
  Proof.
    induction fuel as [|fuel IH]; intros sched s H; cbn [run].
    - destruct (terminal s) eqn:Ht; [reflexivity|].
      exfalso. unfold mu in H. unfold terminal in Ht. destruct (c_pc s); try discriminate; cbn [pcw] in H; lia.
    - destruct (terminal s) eqn:Ht; [exact Ht|].
      destruct sched as [|ch r]; apply IH; pose proof (step_mu s) as Hs.
      + specialize (Hs None Ht). lia.
      + specialize (Hs ch Ht). lia.
  Qed.

  (* --- what the invariant says about a terminal state ------------------------------------------- *)
  Lemma terminal_facts s : cinv cfg inp pc0 s -> terminal s = true ->
    exists p, c_mon s = Some p /\ fs_ok (p_expected pc0) (c_fs s) /\
      (p_failed p = true -> c_pc s = PAbort \/ c_exc s = true) /\
      (c_pc s = PEnd -> c_exc s = false -> visible (c_fs s) = true).
  Proof.
    intros [p [B C]] Ht. exists p. split; [apply (cb_mon _ _ _ _ B)|].
    split; [apply (proj1 (cb_inv _ _ _ _ B))|].
    pose proof (cp_phase _ _ _ _ _ C) as Hph. unfold phase_rel in Hph.
    unfold terminal in Ht. destruct (c_pc s) eqn:Hpc; try discriminate.
    - destruct Hph as (Hfe & d & Hd & Hm). split; [intros H; right; auto|].
      intros _ He. unfold visible, find, meta_of. rewrite Hd, Hm, He. reflexivity.
    - split; [intros _; left; reflexivity | discriminate].
  Qed.

  (* --- without faults nothing fails ------------------------------------------------------------- *)
  Definition nofail (s : cst) : Prop :=
    c_exc s = false /\ c_pc s <> PAbort /\ existsb t_failed (c_pend s) = false /\
    forall p, c_mon s = Some p -> p_failed p = false.

  Lemma pstep_failed_done p o p' : pstep pc0 p (o, Done) = Some p' -> o <> OUpExc -> p_failed p' = p_failed p.
  Proof.
    unfold pstep. intros H Hne. destruct o; try contradiction;
      repeat match type of H with
             | (if ?b then _ else _) = Some _ => destruct b; try discriminate H
             end; inversion H; subst; cbn; apply Bool.orb_false_r.
  Qed.

  Hypothesis Hnf : pl = no_faults.
  Hypothesis Hnup : in_upfail inp = None.

  (* an operation the file system accepts succeeds, and the monitor's failure flag stays down *)
  Lemma nf_do_op s o s' ok p :
    c_mon s = Some p -> p_failed p = false -> o <> OUpExc ->
    apply_done (c_fs s) o <> None ->
    do_op pl pc0 s o = (s', ok) ->
    ok = true /\ c_exc s' = c_exc s /\ c_pend s' = c_pend s /\ c_kill s' = c_kill s /\
    forall p', c_mon s' = Some p' -> p_failed p' = false.
  Proof.
    intros Hm Hpf Hne Happ Ed. doop Ed.
    assert (ok = true) as -> by (apply Hok3; [rewrite Hnf; reflexivity | exact Happ]).
    repeat split; auto. intros p' Hp'. rewrite Hm in Hmon. rewrite Hmon in Hp'.
    rewrite (Hok1 eq_refl) in Hp'. rewrite (pstep_failed_done _ _ _ Hp' Hne). exact Hpf.
  Qed.

  Lemma temp_exists s p : cinvp s p -> p_ph p = PhOpen -> exists d, f_temp (c_fs s) = Some d /\ files_ok d FTmp (p_tmp p).
  Proof.
    intros [B _] Hph. destruct (cb_inv _ _ _ _ B) as [_ Hi]. rewrite Hph in Hi.
    destruct Hi as (d & Hd & Ht & _). eauto.
  Qed.

  Ltac nf_finish Hx :=
    destruct Hx as (-> & Hexc' & Hpend' & Hkill' & Hp');
    repeat split; cbn [set_pc c_pc c_exc c_pend c_mon]; rewrite ?Hexc', ?Hpend'; auto; try discriminate.

  Lemma main_step_nf s p : cinvp s p -> nofail s -> nofail (mstep s).
  Proof.
    intros I (He & Hna & Hnft & Hpf). pose proof I as [B C].
    pose proof (cb_mon _ _ _ _ B) as Hm. pose proof (Hpf p Hm) as Hpf0.
    pose proof (cp_phase _ _ _ _ _ C) as Hph. unfold phase_rel in Hph.
    assert (Hsame : nofail s) by (repeat split; auto).
    unfold main_step. destruct (c_pc s) eqn:Hpc.
    - destruct Hph as (_ & Hph & _). destruct (f_final (c_fs s)) eqn:Ef.
      + destruct (do_op pl pc0 s ORmFinal) as [s' ok] eqn:Ed.
        assert (Hx := nf_do_op s ORmFinal s' ok p Hm Hpf0 ltac:(discriminate) ltac:(cbn; rewrite Ef; discriminate) Ed).
        nf_finish Hx.
      + repeat split; cbn; auto; discriminate.
    - destruct Hph as (_ & Hph & _). destruct (f_temp (c_fs s)) eqn:Ef.
      + destruct (do_op pl pc0 s ORmTemp) as [s' ok] eqn:Ed.
        assert (Hx := nf_do_op s ORmTemp s' ok p Hm Hpf0 ltac:(discriminate) ltac:(cbn; rewrite Ef; discriminate) Ed).
        nf_finish Hx.
      + repeat split; cbn; auto; discriminate.
    - destruct Hph as (_ & Hph & _ & Htemp).
      destruct (do_op pl pc0 s OMkTemp) as [s' ok] eqn:Ed.
      assert (Hx := nf_do_op s OMkTemp s' ok p Hm Hpf0 ltac:(discriminate) ltac:(cbn; rewrite Htemp; discriminate) Ed).
      nf_finish Hx.
    - destruct Hph as (_ & Hph & _). destruct (temp_exists s p I Hph) as (d & Hd & _).
      destruct (do_op pl pc0 s (OWriteMeta (mkMeta [] false false))) as [s' ok] eqn:Ed.
      assert (Hx := nf_do_op s (OWriteMeta (mkMeta [] false false)) s' ok p Hm Hpf0 ltac:(discriminate)
                      ltac:(cbn; unfold on_temp; rewrite Hd; discriminate) Ed).
      nf_finish Hx.
    - (* PLoop *)
      rewrite Hnup, Bool.andb_false_r.
      destruct (c_todo s) as [|[n v] rest].
      + destruct (c_kill s); [|destruct (r_proc cfg)]; repeat split; cbn; auto; discriminate.
      + destruct (n =? 0); [|destruct (is_async cfg && negb (c_kill s))];
          repeat split; cbn [set_pc set_pend c_pc c_exc c_pend c_mon]; auto; try discriminate.
        rewrite existsb_app_single; [exact Hnft | reflexivity].
    - destruct Hph as (Hph & _). destruct (temp_exists s p I Hph) as (d & Hd & _).
      destruct (do_op pl pc0 s (OWriteTmp (c_i s) v)) as [s' ok] eqn:Ed.
      assert (Hx := nf_do_op s (OWriteTmp (c_i s) v) s' ok p Hm Hpf0 ltac:(discriminate)
                      ltac:(cbn; unfold on_temp; rewrite Hd; discriminate) Ed).
      nf_finish Hx.
    - destruct Hph as (Hph & _). destruct (temp_exists s p I Hph) as (d & Hd & Hft).
      destruct (cp_data _ _ _ _ _ C He ltac:(rewrite Hpc; discriminate)) as (dn & cur & _ & _ & Hc & _).
      unfold cur_ok in Hc. rewrite Hpc in Hc. destruct Hc as (v & _ & _ & Hl).
      destruct (do_op pl pc0 s (ORenameChunk (c_i s))) as [s' ok] eqn:Ed.
      assert (Hx := nf_do_op s (ORenameChunk (c_i s)) s' ok p Hm Hpf0 ltac:(discriminate)
                      ltac:(cbn; unfold on_temp; rewrite Hd, (Hft _ _ Hl); discriminate) Ed).
      nf_finish Hx.
    - (* PRec *)
      destruct Hph as (Hph & _). destruct (temp_exists s p I Hph) as (d & Hd & _).
      match goal with |- context [do_op pl pc0 ?s1 ?o] => destruct (do_op pl pc0 s1 o) as [s' ok] eqn:Ed end.
      match type of Ed with do_op _ _ ?s1 ?o = _ =>
        assert (Hx := nf_do_op s1 o s' ok p Hm Hpf0 ltac:(discriminate)
                        ltac:(cbn; unfold on_temp; rewrite Hd; discriminate) Ed) end.
      destruct Hx as (-> & Hexc' & Hpend' & Hkill' & Hp'). cbn in Hexc', Hpend', Hkill'.
      repeat split; cbn [c_pc c_exc c_pend c_mon]; rewrite ?Hexc', ?Hpend'; auto.
      unfold after_rec. destruct (r_proc cfg); [|destruct (c_kill s')]; discriminate.
    - (* PCheck *)
      rewrite Hnft. destruct (r_var cfg);
        repeat split; cbn [set_pc set_pend c_pc c_exc c_pend c_mon]; auto; try discriminate;
        apply existsb_filter_false; exact Hnft.
    - (* PWait *)
      destruct (forallb t_done (c_pend s)); [|exact Hsame].
      rewrite Hnft. destruct (r_var cfg); repeat split; cbn; auto; discriminate.
    - destruct Hph as (Hph & _). destruct (temp_exists s p I Hph) as (d & Hd & _).
      match goal with |- context [do_op pl pc0 s ?o] => destruct (do_op pl pc0 s o) as [s' ok] eqn:Ed end.
      match type of Ed with do_op _ _ _ ?o = _ =>
        assert (Hx := nf_do_op s o s' ok p Hm Hpf0 ltac:(discriminate)
                        ltac:(cbn; unfold on_temp; rewrite Hd; discriminate) Ed) end.
      nf_finish Hx.
    - destruct Hph as (_ & Hfin & _ & d & Hd & _).
      destruct (do_op pl pc0 s ORenameDir) as [s' ok] eqn:Ed.
      assert (Hx := nf_do_op s ORenameDir s' ok p Hm Hpf0 ltac:(discriminate)
                      ltac:(cbn; rewrite Hd, Hfin; discriminate) Ed).
      nf_finish Hx.
    - exact Hsame.
    - exact Hsame.
  Qed.

  Lemma work_step_nf s p j : cinvp s p -> nofail s -> nofail (wstep s j).
  Proof.
    intros I (He & Hna & Hnft & Hpf). pose proof I as [B C].
    pose proof (cb_mon _ _ _ _ B) as Hm. pose proof (Hpf p Hm) as Hpf0.
    unfold work_step. destruct (nth_error (c_pend s) j) as [t|] eqn:Hn; [|repeat split; auto].
    pose proof (nth_error_In _ _ Hn) as Hin.
    pose proof (cb_tasks _ _ _ _ B) as HT. rewrite Forall_forall in HT. specialize (HT t Hin).
    assert (Hnf_t : t_failed t = false) by (apply (existsb_false_in _ _ Hnft t Hin)).
    destruct (t_st t) eqn:Est; try (repeat split; auto; fail).
    - assert (Hd : t_done t = false) by (unfold t_done; rewrite Est; reflexivity).
      destruct (undone_open s p t I Hin Hd) as (_ & _ & Hph & _).
      destruct (temp_exists s p I Hph) as (d & Hd' & _).
      destruct (do_op pl pc0 s (OWriteTmp (t_i t) (t_v t))) as [s' ok] eqn:Ed.
      assert (Hx := nf_do_op s (OWriteTmp (t_i t) (t_v t)) s' ok p Hm Hpf0 ltac:(discriminate)
                      ltac:(cbn; unfold on_temp; rewrite Hd'; discriminate) Ed).
      destruct Hx as (-> & Hexc' & Hpend' & Hkill' & Hp').
      repeat split; cbn [set_pend c_pc c_exc c_pend c_mon]; rewrite ?Hexc', ?Hpend'; auto.
      + destruct (do_op_shape _ _ _ _ Ed) as (H1 & _). rewrite H1. exact Hna.
      + rewrite (existsb_upd_nth t_failed _ j t _ Hn Hnf_t), Hnft. reflexivity.
    - assert (Hd : t_done t = false) by (unfold t_done; rewrite Est; reflexivity).
      destruct (undone_open s p t I Hin Hd) as (_ & _ & Hph & _).
      destruct (temp_exists s p I Hph) as (d & Hd' & Hft).
      unfold task_inv in HT. rewrite Est in HT.
      destruct (do_op pl pc0 s (ORenameChunk (t_i t))) as [s' ok] eqn:Ed.
      assert (Hx := nf_do_op s (ORenameChunk (t_i t)) s' ok p Hm Hpf0 ltac:(discriminate)
                      ltac:(cbn; unfold on_temp; rewrite Hd', (Hft _ _ HT); discriminate) Ed).
      destruct Hx as (-> & Hexc' & Hpend' & Hkill' & Hp').
      repeat split; cbn [set_pend c_pc c_exc c_pend c_mon]; rewrite ?Hexc', ?Hpend'; auto.
      + destruct (do_op_shape _ _ _ _ Ed) as (H1 & _). rewrite H1. exact Hna.
      + rewrite (existsb_upd_nth t_failed _ j t _ Hn Hnf_t), Hnft. reflexivity.
  Qed.

  Lemma run_nf fuel : forall sched s, cinv cfg inp pc0 s -> nofail s -> nofail (run cfg inp pl pc0 fuel sched s).
  Proof.
    induction fuel as [|fuel IH]; intros sched s I N; cbn [run]; [exact N|].
    destruct (terminal s); [exact N|].
    assert (Hstep : forall ch, nofail (step cfg inp pl pc0 s ch)).
    { intros ch. destruct I as [p I]. unfold step.
      assert (Hfb : nofail (if main_blocked s
                            then match first_undone (c_pend s) 0 with Some j => wstep s j | None => mstep s end
                            else mstep s)).
      { destruct (main_blocked s); [|apply (main_step_nf s p I N)].
        destruct (first_undone (c_pend s) 0); [apply (work_step_nf s p _ I N) | apply (main_step_nf s p I N)]. }
      destruct ch as [j|]; [|exact Hfb].
      destruct (nth_error (c_pend s) j) as [t|]; [|exact Hfb].
      destruct (t_done t); [exact Hfb | apply (work_step_nf s p _ I N)]. }
    destruct sched as [|ch r]; apply IH; auto using step_inv.
  Qed.
End Preservation.

(* ------------------------------------------------------------------------------------------ *)
(* the monitor is the protocol automaton run over the recorded trace                          *)
(* ------------------------------------------------------------------------------------------ *)

Definition ev_fail (ev : event) : bool :=
  is_fail (snd ev) || match fst ev with OUpExc => true | _ => false end.

Lemma pstep_failed c s ev s' : pstep c s ev = Some s' -> p_failed s' = p_failed s || ev_fail ev.
Proof.
  destruct ev as [o oc]. unfold pstep, ev_fail. cbn [fst snd]. intros H.
  destruct o;
    repeat match type of H with
           | (if ?b then _ else _) = Some _ => destruct b; try discriminate H
           end; inversion H; subst; cbn [p_failed];
    rewrite ?Bool.orb_false_r, ?Bool.orb_true_r; try reflexivity.
  destruct (did oc); reflexivity.
Qed.

Lemma prun_failed c tr : forall s s', prun c s tr = Some s' -> p_failed s' = p_failed s || existsb ev_fail tr.
Proof.
  induction tr as [|ev tr IH]; intros s s' H; cbn in H.
  - inversion H; subst. cbn. rewrite Bool.orb_false_r. reflexivity.
  - destruct (pstep c s ev) as [s1|] eqn:E; [|discriminate].
    rewrite (IH _ _ H), (pstep_failed _ _ _ _ E). cbn. rewrite Bool.orb_assoc. reflexivity.
Qed.

Section Monitor.
  Variable cfg : rcfg.
  Variable inp : input.
  Variable pl : plan.
  Variable pc0 : pcfg.

  Definition mon_ok (s : cst) : Prop := c_mon s = prun pc0 pst_init (rev (c_tr s)).

  Lemma mon_ok_ext s1 s2 : c_tr s2 = c_tr s1 -> c_mon s2 = c_mon s1 -> mon_ok s1 -> mon_ok s2.
  Proof. unfold mon_ok. intros -> ->. auto. Qed.

  Lemma do_op_mon s o s' ok : do_op pl pc0 s o = (s', ok) -> mon_ok s -> mon_ok s'.
  Proof.
    intros Ed H.
    destruct (do_op_spec _ _ _ _ _ _ Ed)
      as (oc & f' & Ha & Hpc' & Hfs & Htd & Hi & Hrec & Hpend & Hexc & Hkill & Hdel & Htr & Hmon & _).
    unfold mon_ok in *. rewrite Hmon, Htr, H. cbn [rev]. rewrite prun_app.
    destruct (prun pc0 pst_init (rev (c_tr s))) as [p|]; [|reflexivity].
    cbn [prun]. destruct (pstep pc0 p (o, oc)); reflexivity.
  Qed.

  Lemma handler_mon s : mon_ok s -> mon_ok (handler cfg inp s).
  Proof.
    unfold handler. intros H. destruct (c_kill s); [|destruct (r_proc cfg)];
      eapply mon_ok_ext; eauto; reflexivity.
  Qed.

  Ltac mon_do :=
    match goal with
    | |- context [do_op pl pc0 ?a ?o] =>
        let s' := fresh "s'" in let ok := fresh "ok" in let Ed := fresh "Ed" in
        destruct (do_op pl pc0 a o) as [s' ok] eqn:Ed;
        let M := fresh "M" in
        assert (M : mon_ok s') by (eapply do_op_mon; [exact Ed|]; try assumption; eapply mon_ok_ext; eauto; reflexivity);
        destruct ok
    end.

  Lemma main_step_mon s : mon_ok s -> mon_ok (main_step cfg inp pl pc0 s).
  Proof.
    intros H. unfold main_step.
    destruct (c_pc s).
    - destruct (f_final (c_fs s)); [mon_do|]; eapply mon_ok_ext; eauto; reflexivity.
    - destruct (f_temp (c_fs s)); [mon_do|]; eapply mon_ok_ext; eauto; reflexivity.
    - mon_do; eapply mon_ok_ext; eauto; reflexivity.
    - mon_do; eapply mon_ok_ext; eauto; reflexivity.
    - destruct (negb (c_kill s) && _).
      + destruct (do_op pl pc0 s OUpExc) as [s' ok] eqn:Ed. apply handler_mon. eapply do_op_mon; eauto.
      + destruct (c_todo s) as [|[n v] rest].
        * destruct (c_kill s); [|destruct (r_proc cfg)]; eapply mon_ok_ext; eauto; reflexivity.
        * destruct (n =? 0); [|destruct (is_async cfg && negb (c_kill s))]; eapply mon_ok_ext; eauto; reflexivity.
    - mon_do; [eapply mon_ok_ext; eauto; reflexivity | apply handler_mon; assumption].
    - mon_do; [eapply mon_ok_ext; eauto; reflexivity | apply handler_mon; assumption].
    - mon_do; [eapply mon_ok_ext; eauto; reflexivity | apply handler_mon; assumption].
    - destruct (r_var cfg); [|destruct (existsb t_failed (c_pend s))];
        try (apply handler_mon; assumption); eapply mon_ok_ext; eauto; reflexivity.
    - destruct (forallb t_done (c_pend s)); [|assumption].
      destruct (r_var cfg); [|destruct (existsb t_failed (c_pend s))]; eapply mon_ok_ext; eauto; reflexivity.
    - mon_do; eapply mon_ok_ext; eauto; reflexivity.
    - mon_do; eapply mon_ok_ext; eauto; reflexivity.
    - assumption.
    - assumption.
  Qed.

  Lemma work_step_mon s j : mon_ok s -> mon_ok (work_step pl pc0 s j).
  Proof.
    intros H. unfold work_step. destruct (nth_error (c_pend s) j) as [t|]; [|assumption].
    destruct (t_st t); try assumption.
    - destruct (do_op pl pc0 s (OWriteTmp (t_i t) (t_v t))) as [s' ok] eqn:Ed.
      eapply mon_ok_ext; [| |eapply do_op_mon; eauto]; reflexivity.
    - destruct (do_op pl pc0 s (ORenameChunk (t_i t))) as [s' ok] eqn:Ed.
      eapply mon_ok_ext; [| |eapply do_op_mon; eauto]; reflexivity.
  Qed.

  Lemma run_mon fuel : forall sched s, mon_ok s -> mon_ok (run cfg inp pl pc0 fuel sched s).
  Proof.
    induction fuel as [|fuel IH]; intros sched s H; cbn [run]; [assumption|].
    destruct (terminal s); [assumption|].
    assert (Hs : forall ch, mon_ok (step cfg inp pl pc0 s ch)).
    { intros ch. unfold step.
      assert (Hfb : mon_ok (if main_blocked s
                            then match first_undone (c_pend s) 0 with
                                 | Some j => work_step pl pc0 s j
                                 | None => main_step cfg inp pl pc0 s
                                 end
                            else main_step cfg inp pl pc0 s)).
      { destruct (main_blocked s); [|apply main_step_mon; assumption].
        destruct (first_undone (c_pend s) 0); [apply work_step_mon | apply main_step_mon]; assumption. }
      destruct ch as [j|]; [|exact Hfb].
      destruct (nth_error (c_pend s) j) as [t|]; [|exact Hfb].
      destruct (t_done t); [exact Hfb | apply work_step_mon; assumption]. }
    destruct sched; apply IH; apply Hs.
  Qed.
End Monitor.

(* ------------------------------------------------------------------------------------------ *)
(* a failure of close() is lost only on the threaded processor without `got_exception` recording *)
(* ------------------------------------------------------------------------------------------ *)

Definition close_reported (cfg : rcfg) : bool :=
  match r_proc cfg with SingleThread => true | Threaded => r_closerec cfg end.

Section Lost.
  Variable cfg : rcfg.
  Variable inp : input.
  Variable pl : plan.
  Variable pc0 : pcfg.
  Hypothesis Hrep : close_reported cfg = true.

  Definition lost_ok (s : cst) : Prop := c_lost s = false.

  Lemma lost_ok_ext s1 s2 : c_lost s2 = c_lost s1 -> lost_ok s1 -> lost_ok s2.
  Proof. unfold lost_ok. intros ->. auto. Qed.

  Lemma do_op_lost s o s' ok : do_op pl pc0 s o = (s', ok) -> lost_ok s -> lost_ok s'.
  Proof.
    unfold do_op. intros Ed H.
    destruct (pl (c_nf s) (length (c_tr s)) o); [destruct (apply_failed (c_fs s) o e) | destruct (apply_done (c_fs s) o)];
      inversion Ed; subst; exact H.
  Qed.

  Lemma close_failed_lost s : lost_ok (close_failed cfg s).
  Proof.
    unfold lost_ok, close_failed, close_lost. cbn. unfold close_reported in Hrep.
    destruct (r_proc cfg); [reflexivity | rewrite Hrep; reflexivity].
  Qed.

  Lemma handler_lost s : lost_ok s -> lost_ok (handler cfg inp s).
  Proof.
    unfold handler. intros H. destruct (c_kill s); [|destruct (r_proc cfg)]; exact H.
  Qed.

  Ltac lost_do :=
    match goal with
    | |- context [do_op pl pc0 ?a ?o] =>
        let s' := fresh "s'" in let ok := fresh "ok" in let Ed := fresh "Ed" in
        destruct (do_op pl pc0 a o) as [s' ok] eqn:Ed;
        let M := fresh "M" in
        assert (M : lost_ok s') by (eapply do_op_lost; [exact Ed|]; assumption);
        destruct ok
    end.

  Lemma main_step_lost s : lost_ok s -> lost_ok (main_step cfg inp pl pc0 s).
  Proof.
    intros H. unfold main_step.
    destruct (c_pc s).
    - destruct (f_final (c_fs s)); [lost_do|]; assumption.
    - destruct (f_temp (c_fs s)); [lost_do|]; assumption.
    - lost_do; assumption.
    - lost_do; assumption.
    - destruct (negb (c_kill s) && _).
      + destruct (do_op pl pc0 s OUpExc) as [s' ok] eqn:Ed. apply handler_lost. eapply do_op_lost; eauto.
      + destruct (c_todo s) as [|[n v] rest].
        * destruct (c_kill s); [|destruct (r_proc cfg)]; assumption.
        * destruct (n =? 0); [|destruct (is_async cfg && negb (c_kill s))]; assumption.
    - lost_do; [assumption | apply handler_lost; assumption].
    - lost_do; [assumption | apply handler_lost; assumption].
    - match goal with |- context [do_op pl pc0 ?a ?o] => destruct (do_op pl pc0 a o) as [s' ok] eqn:Ed end.
      assert (M : lost_ok s') by (eapply do_op_lost; [exact Ed | exact H]).
      destruct ok; [exact M | apply handler_lost; exact M].
    - destruct (r_var cfg); [|destruct (existsb t_failed (c_pend s))];
        try (apply handler_lost; assumption); assumption.
    - destruct (forallb t_done (c_pend s)); [|assumption].
      destruct (r_var cfg); [|destruct (existsb t_failed (c_pend s))]; assumption.
    - lost_do; [assumption | apply close_failed_lost].
    - lost_do; [assumption | apply close_failed_lost].
    - assumption.
    - assumption.
  Qed.

  Lemma work_step_lost s j : lost_ok s -> lost_ok (work_step pl pc0 s j).
  Proof.
    intros H. unfold work_step. destruct (nth_error (c_pend s) j) as [t|]; [|assumption].
    destruct (t_st t); try assumption.
    - destruct (do_op pl pc0 s (OWriteTmp (t_i t) (t_v t))) as [s' ok] eqn:Ed.
      eapply do_op_lost in Ed; eauto.
    - destruct (do_op pl pc0 s (ORenameChunk (t_i t))) as [s' ok] eqn:Ed.
      eapply do_op_lost in Ed; eauto.
  Qed.

  Lemma run_lost fuel : forall sched s, lost_ok s -> lost_ok (run cfg inp pl pc0 fuel sched s).
  Proof.
    induction fuel as [|fuel IH]; intros sched s H; cbn [run]; [assumption|].
    destruct (terminal s); [assumption|].
    assert (Hs : forall ch, lost_ok (step cfg inp pl pc0 s ch)).
    { intros ch. unfold step.
      assert (Hfb : lost_ok (if main_blocked s
                             then match first_undone (c_pend s) 0 with
                                  | Some j => work_step pl pc0 s j
                                  | None => main_step cfg inp pl pc0 s
                                  end
                             else main_step cfg inp pl pc0 s)).
      { destruct (main_blocked s); [|apply main_step_lost; assumption].
        destruct (first_undone (c_pend s) 0); [apply work_step_lost | apply main_step_lost]; assumption. }
      destruct ch as [j|]; [|exact Hfb].
      destruct (nth_error (c_pend s) j) as [t|]; [|exact Hfb].
      destruct (t_done t); [exact Hfb | apply work_step_lost; assumption]. }
    destruct sched; apply IH; apply Hs.
  Qed.
End Lost.

(* ------------------------------------------------------------------------------------------ *)
(* the theorems about one `Context.make` request                                              *)
(* ------------------------------------------------------------------------------------------ *)

(* The modes in which the saver keeps to the protocol whatever fails: futures are inspected (Fixed), or
   there is no thread pool, or no pooled chunk write fails. *)
Definition safe_mode (cfg : rcfg) (pl : plan) : Prop :=
  r_var cfg = Fixed \/ is_async cfg = false \/ worker_faultless pl.

Lemma no_faults_faultless : worker_faultless no_faults.
Proof. intros nf k i v. split; reflexivity. Qed.

Lemma expected_of_nil inp : in_chunks inp <> [] -> expected_of inp <> [].
Proof. unfold expected_of. destruct (in_chunks inp) as [|[n v] l]; [contradiction | discriminate]. Qed.

Lemma is_stored_false_invisible f : is_stored f = Ok false -> visible f = false.
Proof.
  unfold is_stored, visible. destruct (find f) as [m|e]; [discriminate | reflexivity].
Qed.

Lemma is_stored_true_visible f : is_stored f = Ok true -> visible f = true.
Proof.
  unfold is_stored, visible. destruct (find f) as [m|e]; [reflexivity|].
  destruct (e =? E_NOTAVAIL); discriminate.
Qed.

Section Request.
  Variable cfg : rcfg.
  Variable inp : input.
  Variable pl : plan.
  Variable sched : list (option nat).
  Variable f0 : fs.
  Hypothesis Hchunks : in_chunks inp <> [].
  Hypothesis Hok0 : fs_ok (expected_of inp) f0.
  Let ex := expected_of inp.
  Let pc0 := pcfg_of cfg inp f0.

  (* the machine state a request ends in, when it runs the saver at all *)
  Let sfin := run cfg inp pl pc0 (fuel_for inp) sched (init_cst inp f0).

  Hypothesis Hstored : is_stored f0 = Ok false.
  Hypothesis Hnever : match f_final f0 with Some _ => r_never cfg | None => false end = false.

  Lemma request_runs :
    request cfg inp pl sched f0 =
    mkResult (match c_pc sfin with
              | PEnd => if c_exc sfin then Err E_SAVE else Ok tt
              | _ => if c_lost sfin then Ok tt else Err E_SAVE
              end)
      (c_fs sfin) (rev (c_tr sfin)) (match c_mon sfin with Some _ => true | None => false end) (terminal sfin).
  Proof. unfold request. rewrite Hstored, Hnever. reflexivity. Qed.

  Lemma allow_rm0 : f_final f0 <> None -> p_allow_rm pc0 = true.
  Proof.
    intros H. unfold pc0, pcfg_of. cbn. rewrite (is_stored_false_invisible _ Hstored). cbn.
    destruct (f_final f0); [rewrite Hnever; reflexivity | contradiction].
  Qed.

  Lemma fuel_enough : (mu inp (init_cst inp f0) <= fuel_for inp)%nat.
  Proof. unfold mu, fuel_for, init_cst. cbn. lia. Qed.

  Lemma mon_ok0 : mon_ok pc0 (init_cst inp f0).
  Proof. reflexivity. Qed.

  Lemma sfin_facts : safe_mode cfg pl ->
    terminal sfin = true /\
    exists p, c_mon sfin = Some p /\ prun pc0 pst_init (rev (c_tr sfin)) = Some p /\
      fs_ok ex (c_fs sfin) /\
      (p_failed p = true -> c_pc sfin = PAbort \/ c_exc sfin = true) /\
      (c_pc sfin = PEnd -> c_exc sfin = false -> visible (c_fs sfin) = true) /\
      (close_reported cfg = true -> c_lost sfin = false).
  Proof.
    intros Hmode.
    assert (Hpc0 : p_expected pc0 = expected_of inp) by reflexivity.
    pose proof (expected_of_nil inp Hchunks) as Hex.
    assert (I0 : cinv cfg inp pc0 (init_cst inp f0)) by (apply init_cinv; [exact Hok0 | exact allow_rm0]).
    pose proof (run_inv cfg inp pl pc0 Hpc0 Hex Hmode (fuel_for inp) sched _ I0) as I.
    pose proof (run_terminates cfg inp pl pc0 Hmode (fuel_for inp) sched _ fuel_enough) as T.
    fold sfin in I, T. split; [exact T|].
    destruct (terminal_facts cfg inp pc0 sfin I T) as (p & Hm & Hfs & Hf & Hv).
    exists p. split; [exact Hm|]. split.
    - pose proof (run_mon cfg inp pl pc0 (fuel_for inp) sched _ mon_ok0) as M. fold sfin in M.
      unfold mon_ok in M. rewrite <- M. exact Hm.
    - split; [exact Hfs|]. split; [exact Hf|]. split; [exact Hv|].
      intros Hrep. apply (run_lost cfg inp pl pc0 Hrep (fuel_for inp) sched (init_cst inp f0)). reflexivity.
  Qed.
End Request.

Definition is_err (r : res unit) : Prop := exists e, r = Err e.

(* fault_safe (+ async_failure_not_swallowed in the safe modes): whatever fails, whatever the schedule,
   the operations issued follow the protocol, the key ends invisible or visible-and-correct, every failure
   reaches the caller, and success means visible and correct. *)
Theorem request_safe cfg inp pl sched f0 :
  in_chunks inp <> [] -> fs_ok (expected_of inp) f0 -> safe_mode cfg pl ->
  let r := request cfg inp pl sched f0 in
  res_fin r = true /\
  accepts (pcfg_of cfg inp f0) (res_tr r) = true /\
  fs_ok (expected_of inp) (res_fs r) /\
  (close_reported cfg = true ->
   (existsb ev_fail (res_tr r) = true -> is_err (res_out r)) /\
   (res_out r = Ok tt -> visible (res_fs r) = true /\ loads_correct (expected_of inp) (res_fs r))).
Proof.
  intros Hch Hok Hmode. cbn zeta.
  destruct (is_stored f0) as [[|]|e] eqn:Es.
  - (* already stored *)
    unfold request. rewrite Es. cbn.
    split; [reflexivity|]. split; [reflexivity|]. split; [exact Hok|]. intros _. split; [discriminate|].
    intros _. split; [apply is_stored_true_visible; exact Es | apply (proj2 Hok); apply is_stored_true_visible; exact Es].
  - destruct (match f_final f0 with Some _ => r_never cfg | None => false end) eqn:En.
    + (* DataExistsError *)
      unfold request. rewrite Es, En. cbn.
      split; [reflexivity|]. split; [reflexivity|]. split; [exact Hok|]. intros _. split; discriminate.
    + rewrite (request_runs cfg inp pl sched f0 Es En). cbn [res_fin res_tr res_fs res_out].
      destruct (sfin_facts cfg inp pl sched f0 Hch Hok Es En Hmode) as (T & p & Hm & Hp & Hfs & Hf & Hv & Hl).
      set (s := run cfg inp pl (pcfg_of cfg inp f0) (fuel_for inp) sched (init_cst inp f0)) in *.
      split; [exact T|]. split; [unfold accepts; rewrite Hp; reflexivity|]. split; [exact Hfs|].
      intros Hrep. rewrite (Hl Hrep). split.
      * intros Hfail. pose proof (prun_failed _ _ _ _ Hp) as Hpf. change (p_failed pst_init) with false in Hpf.
        cbn [orb] in Hpf. rewrite Hfail in Hpf.
        destruct (Hf Hpf) as [Ha|He]; [rewrite Ha; eexists; reflexivity|].
        rewrite He. destruct (c_pc s); eexists; reflexivity.
      * intros Hout. unfold terminal in T.
        destruct (c_pc s) eqn:Hpc; try discriminate.
        destruct (c_exc s) eqn:Hexc; [discriminate|].
        pose proof (Hv eq_refl eq_refl) as V. split; [exact V | apply (proj2 Hfs V)].
  - (* is_stored raises: cannot happen in a state reached by this protocol (final_has_meta) *)
    destruct (is_stored_ok f0 (proj1 Hok)) as [b Hb]. congruence.
Qed.

(* retry_converges, one request: from any state the protocol can leave behind, an identical request without
   faults ends visible and correct -- whatever the schedule, for both variants of save_from *)
Theorem retry_converges_one cfg inp sched f0 :
  in_chunks inp <> [] -> in_upfail inp = None -> r_never cfg = false ->
  fs_ok (expected_of inp) f0 ->
  let r := request cfg inp no_faults sched f0 in
  res_out r = Ok tt /\ visible (res_fs r) = true /\ loads_correct (expected_of inp) (res_fs r) /\
  accepts (pcfg_of cfg inp f0) (res_tr r) = true.
Proof.
  intros Hch Hup Hnev Hok. cbn zeta.
  assert (Hmode : safe_mode cfg no_faults) by (right; right; exact no_faults_faultless).
  destruct (is_stored f0) as [[|]|e] eqn:Es.
  - (* already stored: nothing to do *)
    unfold request. rewrite Es. cbn.
    split; [reflexivity|]. split; [apply is_stored_true_visible; exact Es|].
    split; [apply (proj2 Hok); apply is_stored_true_visible; exact Es | reflexivity].
  - assert (En : match f_final f0 with Some _ => r_never cfg | None => false end = false)
      by (destruct (f_final f0); auto).
    rewrite (request_runs cfg inp no_faults sched f0 Es En). cbn [res_out res_fs res_tr].
    destruct (sfin_facts cfg inp no_faults sched f0 Hch Hok Es En Hmode) as (T & p & Hm & Hp & Hfs & Hf & Hv & _).
    assert (Hpc0 : p_expected (pcfg_of cfg inp f0) = expected_of inp) by reflexivity.
    pose proof (expected_of_nil inp Hch) as Hex.
    assert (I0 : cinv cfg inp (pcfg_of cfg inp f0) (init_cst inp f0))
      by (apply init_cinv; [exact Hok | apply (allow_rm0 cfg inp f0 Es En)]).
    assert (N0 : nofail (init_cst inp f0)).
    { repeat split; cbn; auto; try discriminate. intros q Hq. inversion Hq; reflexivity. }
    pose proof (run_nf cfg inp no_faults (pcfg_of cfg inp f0) Hpc0 Hex Hmode eq_refl Hup
                  (fuel_for inp) sched _ I0 N0) as (Hexc & Hna & _).
    set (s := run cfg inp no_faults (pcfg_of cfg inp f0) (fuel_for inp) sched (init_cst inp f0)) in *.
    unfold terminal in T.
    destruct (c_pc s) eqn:Hpc; try discriminate; [|contradiction].
    rewrite Hexc. pose proof (Hv eq_refl Hexc) as V.
    split; [reflexivity|]. split; [exact V|]. split; [apply (proj2 Hfs V)|].
    unfold accepts. rewrite Hp. reflexivity.
  - destruct (is_stored_ok f0 (proj1 Hok)) as [b Hb]. congruence.
Qed.

(* ------------------------------------------------------------------------------------------ *)
(* retries                                                                                    *)
(* ------------------------------------------------------------------------------------------ *)

(* one attempt: where processing fails upstream (if at all), what a killed SaverSpy still flushes, which
   operations fail, how the worker threads are scheduled *)
Definition attempt := (option nat * list (Z * Z) * plan * list (option nat))%type.
Definition att_input (chunks : list (Z * Z)) (a : attempt) : input :=
  mkInput chunks (fst (fst (fst a))) (snd (fst (fst a))).
Definition att_plan (a : attempt) : plan := snd (fst a).
Definition att_sched (a : attempt) : list (option nat) := snd a.

Fixpoint retries (cfg : rcfg) (chunks : list (Z * Z)) (atts : list attempt) (f : fs) : fs :=
  match atts with
  | [] => f
  | a :: r => retries cfg chunks r (res_fs (request cfg (att_input chunks a) (att_plan a) (att_sched a) f))
  end.

Lemma expected_att chunks a : expected_of (att_input chunks a) = number_from 0 chunks.
Proof. reflexivity. Qed.

Theorem retries_safe cfg chunks atts : forall f0,
  chunks <> [] -> fs_ok (number_from 0 chunks) f0 ->
  Forall (fun a => safe_mode cfg (att_plan a)) atts ->
  fs_ok (number_from 0 chunks) (retries cfg chunks atts f0).
Proof.
  induction atts as [|a atts IH]; intros f0 Hch Hok Hall; cbn [retries]; [exact Hok|].
  inversion Hall as [|x xs Hm Hall']; subst. apply IH; auto.
  destruct (request_safe cfg (att_input chunks a) (att_plan a) (att_sched a) f0) as (_ & _ & Hfs & _); auto.
Qed.

(* retry_converges: after any number of attempts with further faults (in a safe mode), the identical
   request without faults ends visible and correct *)
Theorem retry_converges cfg chunks atts sched f0 :
  chunks <> [] -> r_never cfg = false -> fs_ok (number_from 0 chunks) f0 ->
  Forall (fun a => safe_mode cfg (att_plan a)) atts ->
  let f1 := retries cfg chunks atts f0 in
  let r := request cfg (mkInput chunks None []) no_faults sched f1 in
  fs_ok (number_from 0 chunks) f1 /\
  res_out r = Ok tt /\ visible (res_fs r) = true /\ loads_correct (number_from 0 chunks) (res_fs r).
Proof.
  intros Hch Hnev Hok Hall. cbn zeta.
  pose proof (retries_safe cfg chunks atts f0 Hch Hok Hall) as H1. split; [exact H1|].
  destruct (retry_converges_one cfg (mkInput chunks None []) sched (retries cfg chunks atts f0)) as (A & B & C & _); auto.
Qed.

(* ------------------------------------------------------------------------------------------ *)
(* async_failure_not_swallowed                                                                *)
(* ------------------------------------------------------------------------------------------ *)

(* A failed operation -- a pooled chunk write included -- makes the request end with an error for the caller,
   with a trace the protocol accepts (so `exception` is recorded before the directory can be renamed), and
   never with wrong data visible. *)
Definition not_swallowed (cfg : rcfg) (pl : plan) : Prop :=
  forall inp sched f0,
    in_chunks inp <> [] -> fs_ok (expected_of inp) f0 ->
    let r := request cfg inp pl sched f0 in
    existsb ev_fail (res_tr r) = true ->
    is_err (res_out r) /\
    accepts (pcfg_of cfg inp f0) (res_tr r) = true /\
    (visible (res_fs r) = true -> loads_correct (expected_of inp) (res_fs r)).

Theorem not_swallowed_safe cfg pl : safe_mode cfg pl -> close_reported cfg = true -> not_swallowed cfg pl.
Proof.
  intros Hmode Hrep inp sched f0 Hch Hok. cbn zeta. intros Hfail.
  destruct (request_safe cfg inp pl sched f0 Hch Hok Hmode) as (_ & Hacc & Hfs & Hout).
  destruct (Hout Hrep) as [Herr _].
  split; [apply Herr; exact Hfail|]. split; [exact Hacc | apply (proj2 Hfs)].
Qed.

(* save_from with inspected futures and a close failure recorded in got_exception (or the single-thread
   processor): nothing is swallowed, whatever fails *)
Theorem not_swallowed_fixed proc pool never closerec pl :
  close_reported (mkRcfg Fixed proc pool never closerec) = true ->
  not_swallowed (mkRcfg Fixed proc pool never closerec) pl.
Proof. intros H. apply not_swallowed_safe; [left; reflexivity | exact H]. Qed.

(* the pinned save_from: true as long as no pooled write fails (or there is no pool) ... *)
Theorem not_swallowed_pinned_partial proc pool never closerec pl :
  close_reported (mkRcfg Pinned proc pool never closerec) = true ->
  (is_async (mkRcfg Pinned proc pool never closerec) = false \/ worker_faultless pl) ->
  not_swallowed (mkRcfg Pinned proc pool never closerec) pl.
Proof. intros Hrep H. apply not_swallowed_safe; [right; exact H | exact Hrep]. Qed.

(* ... and false otherwise: thread-pool saving, two chunks, the write of chunk 1 raises on its worker thread.
   Context.make returns normally, `writing_ended` is written without `exception`, the key is visible, loading
   fails with FileNotFoundError (D3). *)
Definition d3_cfg : rcfg := mkRcfg Pinned Threaded true false true.
Definition d3_inp : input := mkInput [(2, 100); (2, 101)] None [].
Definition d3_plan : plan := single_fault (OWriteTmp 1 101) ENone.

Theorem not_swallowed_pinned_refuted :
  exists inp sched f0,
    in_chunks inp <> [] /\ fs_ok (expected_of inp) f0 /\
    let r := request d3_cfg inp d3_plan sched f0 in
    existsb ev_fail (res_tr r) = true /\
    res_out r = Ok tt /\
    accepts (pcfg_of d3_cfg inp f0) (res_tr r) = false /\
    visible (res_fs r) = true /\
    load (res_fs r) = Err E_NOFILE.
Proof.
  exists d3_inp, [], fs_empty.
  split; [discriminate|]. split; [apply fs_ok_no_final; reflexivity|].
  vm_compute. repeat split; reflexivity.
Qed.

Corollary not_swallowed_pinned_false : ~ not_swallowed d3_cfg d3_plan.
Proof.
  intros H. destruct not_swallowed_pinned_refuted as (inp & sched & f0 & Hch & Hok & Hr).
  cbn zeta in Hr. destruct Hr as (Hfail & Hout & _).
  destruct (H inp sched f0 Hch Hok Hfail) as ([e He] & _). congruence.
Qed.

(* The second defect (close_lost): with the threaded processor, when close() itself fails -- here the final
   os.rename(<key>_temp, <key>) -- after save_from's try block completed, the exception dies with the saver's
   mailbox thread unless save_from records it in got_exception: Context.make returns normally, nothing is stored. *)
Definition lost_cfg : rcfg := mkRcfg Fixed Threaded false false false.
Definition lost_plan : plan := single_fault ORenameDir ENone.

Theorem close_failure_lost_refuted :
  exists inp sched f0,
    in_chunks inp <> [] /\ fs_ok (expected_of inp) f0 /\
    let r := request lost_cfg inp lost_plan sched f0 in
    existsb ev_fail (res_tr r) = true /\
    res_out r = Ok tt /\
    accepts (pcfg_of lost_cfg inp f0) (res_tr r) = true /\
    visible (res_fs r) = false /\ f_temp (res_fs r) <> None.
Proof.
  exists (mkInput [(2, 100)] None []), [], fs_empty.
  split; [discriminate|]. split; [apply fs_ok_no_final; reflexivity|].
  vm_compute. repeat split; try reflexivity. discriminate.
Qed.

Corollary close_failure_lost_false : ~ not_swallowed lost_cfg lost_plan.
Proof.
  intros H. destruct close_failure_lost_refuted as (inp & sched & f0 & Hch & Hok & Hr).
  cbn zeta in Hr. destruct Hr as (Hfail & Hout & _).
  destruct (H inp sched f0 Hch Hok Hfail) as ([e He] & _). congruence.
Qed.

(* with the failure recorded in got_exception the same run ends with an error for the caller *)
Example lost_fixed :
  let r := request (mkRcfg Fixed Threaded false false true) (mkInput [(2, 100)] None []) lost_plan [] fs_empty in
  res_out r = Err E_SAVE /\ visible (res_fs r) = false.
Proof. vm_compute. split; reflexivity. Qed.

(* the same failure with the futures inspected: an error for the caller, `exception` recorded, invisible *)
Example d3_fixed :
  let r := request (mkRcfg Fixed Threaded true false true) d3_inp d3_plan [] fs_empty in
  res_out r = Err E_SAVE /\ res_acc r = true /\ visible (res_fs r) = false /\
  match f_final (res_fs r) with
  | Some d => dlookup d FMeta = Some (CMeta (Some (mkMeta [(0, 2); (1, 2)] true true)))
  | None => False
  end.
Proof. vm_compute. repeat split; reflexivity. Qed.

(* the hypotheses of the theorems are satisfiable / the runs are not trivial *)
Example ex_serial_fault_then_retry :
  let cfg := mkRcfg Pinned SingleThread false false false in
  let chunks := [(2, 100); (0, 0); (3, 102)] in
  (* the rename of chunk 2 fails; SaverSpy.close (kill) still flushes a remainder chunk; then a retry *)
  let a : attempt := (None, [(1, 103)], single_fault (ORenameChunk 2) ENone, []) in
  let r1 := request cfg (att_input chunks a) (att_plan a) (att_sched a) fs_empty in
  let r2 := request cfg (mkInput chunks None []) no_faults [] (res_fs r1) in
  res_out r1 = Err E_SAVE /\ visible (res_fs r1) = false /\ f_final (res_fs r1) <> None /\
  res_out r2 = Ok tt /\ load (res_fs r2) = Ok [Some 100; None; Some 102] /\
  hd_error (res_tr r2) = Some (ORmFinal, Done).
Proof. vm_compute. repeat split; try reflexivity. discriminate. Qed.

Example ex_async_interleaved :
  let cfg := mkRcfg Fixed Threaded true false true in
  let r := request cfg (mkInput [(2, 100); (2, 101); (1, 102)] None []) no_faults
             [None; None; None; None; None; None; Some 0%nat; None; Some 1%nat; Some 0%nat; None; None; Some 1%nat] fs_empty in
  res_out r = Ok tt /\ res_acc r = true /\ load (res_fs r) = Ok [Some 100; Some 101; Some 102].
Proof. vm_compute. repeat split; reflexivity. Qed.
