(* Explicitly numbered messages (Mailbox.send(msg, msg_number=k)): delivery safety.
   For every duplicate-free numbering with numbers below the message count (i.e. every permutation), every
   capacity, mode, number of subscribers, with or without a kill, and every schedule: each subscriber's
   delivered sequence is a prefix of the messages ORDERED BY NUMBER (futures replaced by results), and a
   subscriber that finished normally has received all of them.  (Deadlock freedom for numberings that fit
   the capacity is not proved; see Props/C05.v.) *)
From SV Require Import Base.Prelude Model.Mailbox Proof.MailboxFacts Proof.MailboxProof Proof.MailboxInOrder.
Local Open Scope nat_scope.

(* ---------- list facts ---------- *)
Lemma in_insert k m b x : In x (insert k m b) <-> x = (k, m) \/ In x b.
Proof.
  induction b as [|[k' m'] t IH]; cbn [insert].
  - cbn. intuition.
  - destruct (k <? k'); cbn [In]; [intuition|]. rewrite IH. intuition.
Qed.

Lemma in_gc lo b x : In x (gc lo b) -> In x b.
Proof.
  induction b as [|[k m] t IH]; cbn [gc]; auto. destruct (k <? lo); cbn [In]; auto.
Qed.

Lemma get_msg_in b k m : get_msg b k = Some m -> In (k, m) b.
Proof.
  induction b as [|[k' m'] t IH]; cbn [get_msg]; [discriminate|].
  destruct (k' =? k) eqn:E.
  - apply Nat.eqb_eq in E. subst. intros H; inversion H; subst. left; auto.
  - intros H. right. auto.
Qed.

Section Numbered.
Variable cfg : config.
Variable items : list (nat * msg).     (* (message number, message) in the order they are sent *)
Variable nfut : nat.

Notation N := (length items).
Hypothesis nums_nodup : NoDup (map fst items).
Hypothesis nums_lt : forall k m, In (k, m) items -> k < N.
Hypothesis nostop : forall k m, In (k, m) items -> is_stop m = false.

(* everything that is ever sent: the items, then close() sends the end marker with number N *)
Definition AI : list (nat * msg) := items ++ [(N, Stop)].

(* the message with number k *)
Definition item (k : nat) : msg :=
  match find (fun it => fst it =? k) AI with Some it => snd it | None => Stop end.

(* the expected sequence: the messages ordered by number *)
Definition expected : list Z := vals (map item (seq 0 N)).

Lemma AI_unique k m : In (k, m) AI -> item k = m.
Proof.
  unfold item, AI. intros Hin.
  assert (Hn : NoDup (map fst (items ++ [(N, Stop)]))).
  { rewrite map_app. cbn [map fst].
    assert (H : ~ In N (map fst items)).
    { intros H. apply in_map_iff in H. destruct H as ([k' m'] & E & H). cbn in E. subst k'.
      apply nums_lt in H. lia. }
    clear - nums_nodup H. induction (map fst items) as [|h t IH]; cbn.
    - constructor; [intros []|constructor].
    - inversion nums_nodup; subst. constructor.
      + rewrite in_app_iff. cbn. intros [H1|[H1|[]]]; [auto|]. subst. apply H. left; auto.
      + apply IH; auto. intros H1. apply H. right; auto. }
  revert Hin Hn. generalize (items ++ [(N, Stop)]). intros l.
  induction l as [|[k' m'] t IH]; intros Hin Hn; [destruct Hin|].
  cbn [find fst]. destruct (k' =? k) eqn:E.
  - apply Nat.eqb_eq in E. subst k'. destruct Hin as [H|H]; [inversion H; reflexivity|].
    exfalso. cbn [map fst] in Hn. inversion Hn; subst. apply H2. apply in_map_iff. exists (k, m). auto.
  - destruct Hin as [H|H]; [inversion H; subst; rewrite Nat.eqb_refl in E; discriminate|].
    apply IH; auto. cbn [map] in Hn. inversion Hn; auto.
Qed.

Lemma AI_end : In (N, Stop) AI.
Proof. unfold AI. apply in_or_app. right. left. reflexivity. Qed.

Lemma AI_items k m : In (k, m) items -> In (k, m) AI.
Proof. intros H. unfold AI. apply in_or_app. left. exact H. Qed.

Lemma AI_num_le k m : In (k, m) AI -> k <= N.
Proof.
  unfold AI. intros H. apply in_app_or in H. destruct H as [H|[H|[]]].
  - apply nums_lt in H. lia.
  - inversion H. lia.
Qed.

Lemma AI_stop k : In (k, Stop) AI -> k = N.
Proof.
  unfold AI. intros H. apply in_app_or in H. destruct H as [H|[H|[]]].
  - apply nostop in H. discriminate.
  - inversion H. reflexivity.
Qed.

Definition genuine (a n' : nat) : Prop := forall k, a <= k -> k < n' -> In (k, item k) AI.

(* ---------- the read loop on a box whose entries are all genuine ---------- *)
Definition box_in (b : list (nat * msg)) : Prop := forall k m, In (k, m) b -> In (k, m) AI.

Lemma take_from_items fuel b n ms n' last :
  box_in b -> take_from fuel b n = (ms, n', last) ->
  n <= n' /\ ms = map item (seq n (n' - n)) /\ last = stop_in ms /\ genuine n n'.
Proof.
  intros Hb. revert n ms n' last; induction fuel as [|f IH]; intros n ms n' last H; cbn [take_from] in H.
  - inversion H; subst. replace (n' - n') with 0 by lia. repeat split; auto. intros k; lia.
  - destruct (get_msg b n) as [m|] eqn:E.
    + destruct (take_from f b (S n)) as [[ms1 n1] last1] eqn:E1. inversion H; subst. clear H.
      destruct (IH _ _ _ _ E1) as (H1 & H2 & H3 & H4).
      apply get_msg_in in E. apply Hb in E. pose proof (AI_unique _ _ E) as Eu.
      split; [lia|]. split; [|split].
      * replace (n' - n) with (S (n' - S n)) by lia. cbn [seq map]. rewrite Eu, H2. reflexivity.
      * cbn [stop_in]. rewrite H3. reflexivity.
      * intros k Hk1 Hk2. destruct (Nat.eq_dec k n) as [->|Hne]; [rewrite Eu; exact E|]. apply H4; lia.
    + inversion H; subst. replace (n' - n') with 0 by lia. repeat split; auto. intros k; lia.
Qed.

(* ---------- pending deliveries ---------- *)
Definition pend_okn (log : list Z) (ms : list msg) (n' : nat) (last : bool) : Prop :=
  exists a, a <= n' /\ a <= N /\ ms = map item (seq a (n' - a)) /\ genuine a n' /\
            log = vals (map item (seq 0 a)) /\ last = stop_in ms.

Lemma vals_seq_snoc a : vals (map item (seq 0 (S a))) = vals (map item (seq 0 a)) ++ val_of (item a).
Proof. rewrite seq_S, map_app, vals_app. cbn. now rewrite app_nil_r. Qed.

Lemma deliver_okn wd r ms n' last :
  pend_okn (r_log r) ms n' last ->
  match r_pc (deliver wd r ms n' last) with
  | REnter n => n = n' /\ n' <= N /\ r_log (deliver wd r ms n' last) = vals (map item (seq 0 n'))
  | RAwait k v rest n'' last' => pend_okn (r_log (deliver wd r ms n' last)) (Fut k v :: rest) n'' last'
  | RDone => r_log (deliver wd r ms n' last) = expected
  | _ => False
  end.
Proof.
  revert r; induction ms as [|m t IH]; intros r (a & Ha & HaN & Hms & Hg & Hl & Hlast).
  - cbn [deliver]. assert (a = n').
    { destruct (n' - a) eqn:E; [lia|discriminate]. }
    subst a. cbn [stop_in] in Hlast. subst last. cbn [r_pc r_log rd_set_pc]. auto.
  - destruct (n' - a) as [|j] eqn:Ej; [discriminate|]. cbn [seq map] in Hms. injection Hms as Hm Ht.
    assert (Hga : In (a, item a) AI) by (apply Hg; lia).
    assert (Hnext : is_stop m = false -> pend_okn (r_log r ++ val_of m) t n' last).
    { intros Hns. exists (S a). repeat split; try lia.
      - destruct (Nat.eq_dec a N) as [->|]; [|lia]. rewrite Hm, (AI_unique _ _ AI_end) in Hns. discriminate.
      - rewrite Ht. f_equal. f_equal. lia.
      - intros k H1 H2. apply Hg; lia.
      - rewrite vals_seq_snoc, Hl, Hm. reflexivity.
      - rewrite Hlast. cbn [stop_in]. rewrite Hns. reflexivity. }
    destruct m; cbn [deliver].
    + cbn [is_stop val_of] in Hnext. apply IH. apply Hnext. reflexivity.
    + cbn [is_stop val_of] in Hnext. destruct (nth k wd false).
      * apply IH. apply Hnext. reflexivity.
      * cbn [r_pc r_log rd_set_pc]. exists a. repeat split; auto. rewrite Ej. cbn [seq map]. rewrite <- Hm, Ht. reflexivity.
    + (* the end marker: break *)
      rewrite <- Hm in Hga. apply AI_stop in Hga. subst a.
      cbn [stop_in is_stop orb] in Hlast. subst last. cbn [r_pc r_log rd_set_pc]. exact Hl.
Qed.

(* ---------- the invariant ---------- *)
Definition pc_okn (r : reader) : Prop :=
  match r_pc r with
  | REnter n | RWait n => n <= N /\ r_log r = vals (map item (seq 0 n))
  | RAwait k v rest n' last => pend_okn (r_log r) (Fut k v :: rest) n' last
  | RDone => r_log r = expected
  | RRaised => exists a, a <= N /\ r_log r = vals (map item (seq 0 a))
  end.

Definition src_gen (st : state) : Prop :=
  Forall (fun it : option nat * msg => exists k, fst it = Some k /\ In (k, snd it) items) (src st).

Definition inhand (st : state) : nat :=
  match s_pc st with SSend _ _ false | SSendWait _ _ false => 1 | _ => 0 end.

Definition sender_okn (st : state) : Prop :=
  src_gen st /\
  (closed st = true -> s_pc st = SDone) /\
  match s_pc st with
  | SSend (Some k) m false => In (k, m) items
  | SSend None m true => m = Stop /\ src st = []
  | SSend _ _ _ => False
  | SSendWait k m false => In (k, m) items
  | SSendWait k m true => (killed st = false -> k = N) /\ m = Stop /\ src st = []
  | _ => True
  end /\
  (killed st = false -> match s_pc st with SDone | SDead | SKill _ => True
                        | _ => n_sent st + length (src st) + inhand st = N end).

Definition InvN (st : state) : Prop :=
  box_in (box st) /\ (forall i r, nth_error (rds st) i = Some r -> pc_okn r) /\ sender_okn st.

Lemma pc_okn_same r r' : r_pc r' = r_pc r -> r_log r' = r_log r -> pc_okn r -> pc_okn r'.
Proof. unfold pc_okn. intros -> ->. auto. Qed.

Lemma readers_map_woken l :
  (forall i r, nth_error l i = Some r -> pc_okn r) ->
  forall i r, nth_error (map (fun r => rd_set_woken r true) l) i = Some r -> pc_okn r.
Proof.
  intros H i r Hi. apply nth_error_map_some in Hi. destruct Hi as (x & Hx & ->).
  eapply pc_okn_same; [| |apply (H _ _ Hx)]; reflexivity.
Qed.

(* states that differ only in fields the invariant does not look at *)
Lemma InvN_view st st' :
  box st' = box st ->
  (rds st' = rds st \/ rds st' = map (fun r => rd_set_woken r true) (rds st)) ->
  sender_okn st' -> InvN st -> InvN st'.
Proof.
  intros Eb Er HS (HB & HR & _). split; [rewrite Eb; exact HB|]. split; [|exact HS].
  destruct Er as [-> | ->]; [exact HR|apply readers_map_woken; exact HR].
Qed.

(* ---------- sender ---------- *)
Lemma sender_okn_produce st :
  src_gen st -> closed st = false -> (killed st = false -> n_sent st + length (src st) = N) ->
  sender_okn (produce st).
Proof.
  intros Hs Hc Hk. unfold produce, src_gen in *. destruct (src st) as [|[num m] rest] eqn:Es.
  - unfold sender_okn, src_gen, inhand. simp_st. rewrite Es. repeat split; auto; try congruence.
    intros Hkk. specialize (Hk Hkk). cbn [length] in *. lia.
  - inversion Hs as [|x l (k & Hx1 & Hx2) Hl]; subst. cbn [fst snd] in *. subst num.
    unfold sender_okn, src_gen, inhand. simp_st. repeat split; auto; try congruence.
    intros Hkk. specialize (Hk Hkk). cbn [length] in *. lia.
Qed.

Lemma sender_okn_after_send st closing :
  src_gen st -> closed st = false ->
  (closing = false -> killed st = false -> n_sent st + length (src st) = N) ->
  sender_okn (after_send cfg st closing).
Proof.
  intros Hs Hc Hk. unfold after_send. destruct closing.
  - unfold sender_okn, src_gen, inhand in *. simp_st. repeat split; auto.
  - destruct (c_lazy cfg).
    + unfold sender_okn, src_gen, inhand in *. simp_st. repeat split; auto; try congruence.
      intros Hkk. rewrite Hk; auto.
    + apply sender_okn_produce; auto.
Qed.

Lemma sender_okn_raises st closing r :
  src_gen st -> closed st = false -> sender_okn (send_raises st closing r).
Proof.
  intros Hs Hc. unfold send_raises. destruct closing; unfold sender_okn, src_gen, inhand in *; simp_st;
    repeat split; auto; congruence.
Qed.

Lemma InvN_do_push st k m closing :
  InvN st -> In (k, m) AI -> src_gen st -> closed st = false ->
  (closing = false -> killed st = false -> S (n_sent st) + length (src st) = N) ->
  InvN (do_push cfg st k m closing).
Proof.
  intros (HB & HR & HS) Hin Hsg Hc Hcnt.
  set (st1 := wake_readers (push_box st (insert k m (box st)))).
  unfold do_push. fold st1.
  destruct (after_send_view cfg st1 closing) as (E1 & E2 & E3 & E4 & E5 & E6).
  split; [|split].
  - rewrite E2. intros k' m' H. cbn [box st1 wake_readers set_rds push_box] in H.
    apply in_insert in H. destruct H as [H|H]; [inversion H; subst; exact Hin|apply HB; exact H].
  - rewrite E1. apply readers_map_woken. exact HR.
  - apply sender_okn_after_send; auto.
Qed.

Lemma closed_false_n st : sender_okn st -> s_pc st <> SDone -> closed st = false.
Proof. intros (_ & H & _) Hpc. destruct (closed st); auto. exfalso. auto. Qed.

Lemma InvN_sender_step st : InvN st -> sender_enabled st = true -> InvN (sender_step cfg st).
Proof.
  intros HI Hen. pose proof HI as (HB & HR & HS). pose proof HS as (Hsg & Hcl & Hpc & Hcnt).
  unfold sender_step. destruct (s_pc st) eqn:Epc; auto.
  - (* SGate *)
    assert (Hc : closed st = false) by (apply closed_false_n; auto; congruence).
    unfold gate_enter. destruct (can_fetch st).
    + destruct (produce_view' st) as (E1 & E2 & _).
      eapply (InvN_view st); eauto. apply sender_okn_produce; auto.
      intros Hk. specialize (Hcnt Hk). unfold inhand in Hcnt. rewrite Epc in Hcnt. lia.
    + eapply (InvN_view st); eauto; try reflexivity.
      unfold sender_okn, src_gen, inhand in *. simp_st. repeat split; auto; try congruence.
      intros Hk. specialize (Hcnt Hk). rewrite Epc in Hcnt. exact Hcnt.
  - (* SGateWait *)
    assert (Hc : closed st = false) by (apply closed_false_n; auto; congruence).
    unfold gate_resume. destruct (can_fetch st).
    + destruct (produce_view' st) as (E1 & E2 & _).
      eapply (InvN_view st); eauto. apply sender_okn_produce; auto.
      intros Hk. specialize (Hcnt Hk). unfold inhand in Hcnt. rewrite Epc in Hcnt. lia.
    + eapply (InvN_view st); eauto; try reflexivity.
  - (* SSend *)
    assert (Hc : closed st = false) by (apply closed_false_n; auto; congruence).
    assert (Hcount : closing = false -> killed st = false -> S (n_sent st) + length (src st) = N).
    { intros -> Hk. specialize (Hcnt Hk). unfold inhand in Hcnt. rewrite Epc in Hcnt. lia. }
    unfold send_enter. rewrite Hc.
    destruct (fkilled st).
    { destruct (send_raises_view st closing false) as (E1 & E2 & _).
      eapply (InvN_view st); eauto. apply sender_okn_raises; auto. }
    destruct (killed st) eqn:Ek.
    { destruct (after_send_view cfg st closing) as (E1 & E2 & _ & E4 & _).
      eapply (InvN_view st); eauto. apply sender_okn_after_send; auto. intros _ Hk. congruence. }
    destruct (_ <? _).
    { destruct (send_raises_view st closing true) as (E1 & E2 & _).
      eapply (InvN_view st); eauto. apply sender_okn_raises; auto. }
    assert (Hin : In (match num with Some k => k | None => n_sent st end, m) AI).
    { destruct num as [k|]; destruct closing; try contradiction.
      - apply AI_items. exact Hpc.
      - destruct Hpc as [-> Hsrc]. specialize (Hcnt eq_refl). unfold inhand in Hcnt. rewrite Epc, Hsrc in Hcnt.
        cbn [length] in Hcnt. replace (n_sent st) with N by lia. apply AI_end. }
    destruct (can_write cfg st).
    + apply InvN_do_push; auto.
    + eapply (InvN_view st); eauto; try reflexivity.
      unfold sender_okn, src_gen, inhand in *. simp_st. repeat split; auto; try congruence.
      * destruct num as [k|]; destruct closing; try contradiction; auto.
        destruct Hpc as [-> Hsrc]. repeat split; auto. intros Hk. specialize (Hcnt eq_refl).
        rewrite Epc, Hsrc in Hcnt. cbn [length] in Hcnt. lia.
      * intros Hk. specialize (Hcnt eq_refl). rewrite Epc in Hcnt. destruct closing; exact Hcnt.
  - (* SSendWait *)
    assert (Hc : closed st = false) by (apply closed_false_n; auto; congruence).
    assert (Hcount : closing = false -> killed st = false -> S (n_sent st) + length (src st) = N).
    { intros -> Hk. specialize (Hcnt Hk). unfold inhand in Hcnt. rewrite Epc in Hcnt. lia. }
    unfold send_resume. destruct (can_write cfg st).
    + destruct (killed st) eqn:Ek.
      * destruct (fkilled st).
        { destruct (send_raises_view st closing false) as (E1 & E2 & _).
          eapply (InvN_view st); eauto. apply sender_okn_raises; auto. }
        { destruct (after_send_view cfg st closing) as (E1 & E2 & _).
          eapply (InvN_view st); eauto. apply sender_okn_after_send; auto. intros _ Hk. congruence. }
      * apply InvN_do_push; auto.
        destruct closing.
        -- destruct Hpc as (Hk & -> & _). rewrite (Hk eq_refl). apply AI_end.
        -- apply AI_items. exact Hpc.
    + eapply (InvN_view st); eauto; try reflexivity.
  - (* SKill *)
    destruct (kill_region_view st true) as (Eb & En & Ek & Ec & Es & Ew & Ef & Er).
    split; [|split].
    + cbn [box set_spc]. rewrite Eb. exact HB.
    + cbn [rds set_spc]. destruct Er as [-> | ->]; [exact HR|apply readers_map_woken; exact HR].
    + unfold sender_okn, src_gen, inhand in *. simp_st. rewrite Es, Ec, Ek.
      repeat split; auto; try (intros; discriminate).
      * intros Hcc. specialize (Hcl Hcc). congruence.
      * destruct reraise; simp_st; exact I.
Qed.

(* ---------- readers ---------- *)
Lemma InvN_upd st st' i r' :
  InvN st -> rds st' = upd i r' (rds st) -> (forall x, In x (box st') -> In x (box st)) ->
  src st' = src st -> closed st' = closed st -> s_pc st' = s_pc st -> killed st' = killed st ->
  n_sent st' = n_sent st -> pc_okn r' -> InvN st'.
Proof.
  intros (HB & HR & HS) Er Hb E1 E2 E3 E4 E5 Hr'. split; [|split].
  - intros k m H. apply HB. apply Hb. exact H.
  - intros j x Hj. rewrite Er in Hj. apply nth_error_upd in Hj.
    destruct Hj as [(_ & -> & _)|(_ & Hj)]; [exact Hr'|apply (HR _ _ Hj)].
  - unfold sender_okn, src_gen, inhand in *. rewrite E1, E2, E3, E4, E5. exact HS.
Qed.

Lemma InvN_grab st i r n :
  InvN st -> nth_error (rds st) i = Some r -> n <= N -> r_log r = vals (map item (seq 0 n)) ->
  InvN (grab cfg st i r n).
Proof.
  intros HI Hi HnN Hlog. pose proof HI as (HB & HR & HS).
  unfold grab. destruct (killed st) eqn:Ek.
  - eapply (InvN_upd st _ i (rd_set_pc (rd_set_waiting r None) RRaised)); eauto; try reflexivity.
    unfold pc_okn. simp_st. exists n. auto.
  - destruct (take_from (length (box st)) (box st) n) as [[ms n'] last] eqn:Et.
    destruct (take_from_items _ _ _ _ _ _ HB Et) as (Hle & Hms & Hlast & Hg).
    set (r2 := rd_set_nread (rd_set_waiting r None) n').
    set (st1 := set_rds st (upd i r2 (rds st))).
    set (st2 := set_box st1 (gc (min_nread (rds st1)) (box st1))).
    set (st3 := wake_writer (maybe_wake_gate cfg st2)).
    set (rf := deliver (w_done st3) r2 ms n' last).
    destruct (wake_writer_view (maybe_wake_gate cfg st2)) as (A1 & A2 & A3 & A4 & A5 & A6 & A7 & A8 & A9).
    destruct (maybe_wake_gate_view cfg st2) as (B1 & B2 & B3 & B4 & B5 & B6 & B7 & B8 & B9).
    assert (Hp : pend_okn (r_log r2) ms n' last).
    { exists n. repeat split; auto. }
    pose proof (deliver_okn (w_done st3) r2 ms n' last Hp) as Hd. fold rf in Hd.
    assert (E1 : rds st3 = upd i r2 (rds st)) by exact (eq_trans A1 B1).
    assert (E2 : box st3 = gc (min_nread (upd i r2 (rds st))) (box st)) by exact (eq_trans A2 B2).
    assert (Hrf : pc_okn rf).
    { unfold pc_okn. destruct (r_pc rf); try contradiction; auto. destruct Hd as (-> & H1 & H2). auto. }
    apply (InvN_upd st (set_rds st3 (upd i rf (rds st3))) i rf HI).
    + cbn [rds set_rds]. rewrite E1. apply upd_upd.
    + intros x Hx. cbn [box set_rds] in Hx. rewrite E2 in Hx. apply in_gc in Hx. exact Hx.
    + exact (eq_trans A7 B7).
    + exact (eq_trans A8 B8).
    + exact (eq_trans A9 B9).
    + exact (eq_trans A4 B4).
    + exact (eq_trans A3 B3).
    + exact Hrf.
Qed.

Lemma InvN_reader_step st i r :
  InvN st -> nth_error (rds st) i = Some r -> reader_enabled st r = true -> InvN (reader_step cfg st i r).
Proof.
  intros HI Hi Hen. pose proof HI as (HB & HR & HS). pose proof (HR _ _ Hi) as Hpc.
  unfold reader_step. destruct (r_pc r) eqn:Epc; auto.
  - unfold pc_okn in Hpc. rewrite Epc in Hpc. destruct Hpc as [HnN Hlog].
    unfold read_enter. destruct (next_ready st n); [apply InvN_grab; auto|].
    set (r' := rd_set_woken (rd_set_pc (rd_set_waiting r (Some n)) (RWait n)) false).
    destruct (maybe_wake_gate_view cfg (set_rds st (upd i r' (rds st)))) as (B1 & B2 & B3 & B4 & B5 & B6 & B7 & B8 & B9).
    eapply (InvN_upd st _ i r'); eauto.
    + intros x Hx. rewrite B2 in Hx. exact Hx.
    + unfold pc_okn, r'. simp_st. auto.
  - unfold pc_okn in Hpc. rewrite Epc in Hpc. destruct Hpc as [HnN Hlog].
    unfold read_resume. destruct (next_ready st n); [apply InvN_grab; auto|].
    eapply (InvN_upd st _ i (rd_set_woken r false)); eauto; try reflexivity.
    unfold pc_okn. simp_st. rewrite Epc. auto.
  - unfold pc_okn in Hpc. rewrite Epc in Hpc.
    assert (Hp : pend_okn (r_log (rd_log r v)) rest n' last).
    { destruct Hpc as (a & Ha & HaN & Hms & Hg & Hl & Hlast).
      destruct (n' - a) as [|j] eqn:Ej; [discriminate|]. cbn [seq map] in Hms. injection Hms as Hm Ht.
      assert (Hga : In (a, item a) AI) by (apply Hg; lia).
      exists (S a). repeat split; try lia.
      - destruct (Nat.eq_dec a N) as [->|]; [|lia]. rewrite (AI_unique _ _ AI_end) in Hm. discriminate.
      - rewrite Ht. f_equal. f_equal. lia.
      - intros k0 H1 H2. apply Hg; lia.
      - cbn [r_log rd_log]. rewrite vals_seq_snoc, Hl, <- Hm. reflexivity.
      - rewrite Hlast. reflexivity. }
    pose proof (deliver_okn (w_done st) (rd_log r v) rest n' last Hp) as Hd.
    eapply (InvN_upd st _ i (deliver (w_done st) (rd_log r v) rest n' last)); eauto; try reflexivity.
    unfold pc_okn. destruct (r_pc (deliver (w_done st) (rd_log r v) rest n' last)); try contradiction; auto.
    destruct Hd as (-> & H1 & H2). auto.
Qed.

Lemma InvN_step st t st' : InvN st -> step cfg st t = Some st' -> InvN st'.
Proof.
  intros HI Hs. apply step_inv in Hs. destruct t.
  - destruct Hs as [Hen ->]. apply InvN_sender_step; auto.
  - destruct Hs as (r & Hr & Hen & ->). apply InvN_reader_step; auto.
  - destruct Hs as (up & _ & ->). destruct HI as (HB & HR & HS).
    destruct (kill_region_view st up) as (Eb & En & Ek & Ec & Es & Ew & Ef & Er).
    split; [|split].
    + cbn [box set_kpc]. rewrite Eb. exact HB.
    + cbn [rds set_kpc]. destruct Er as [-> | ->]; [exact HR|apply readers_map_woken; exact HR].
    + destruct HS as (Hsg & Hcl & Hpc & Hcnt). unfold sender_okn, src_gen, inhand in *. simp_st.
      rewrite Es, Ec, spc_kill_region, Ek. repeat split; auto; try (intros; discriminate).
      destruct (s_pc st) as [| |num m c|k m c| | |]; auto. destruct c; auto.
      destruct Hpc as (_ & H2 & H3). repeat split; auto. intros; discriminate.
  - destruct Hs as (d & _ & _ & ->). destruct HI as (HB & HR & HS). split; [|split]; auto.
Qed.

Definition numbered_source : list (option nat * msg) := map (fun it => (Some (fst it), snd it)) items.

Lemma InvN_init drives killer : InvN (init cfg drives numbered_source killer nfut).
Proof.
  set (st0 := mkState [] 0 false false false (map init_reader drives) SGate false numbered_source killer
                      (repeat false nfut)).
  assert (Hsg : src_gen st0).
  { unfold src_gen, numbered_source. cbn [src st0]. apply Forall_forall. intros x Hx. apply in_map_iff in Hx.
    destruct Hx as ([k m] & <- & Hin). exists k. cbn. auto. }
  assert (HR0 : forall i r, nth_error (rds st0) i = Some r -> pc_okn r).
  { intros i r Hi. cbn [rds st0] in Hi. apply nth_error_map_some in Hi. destruct Hi as (d & _ & ->).
    unfold pc_okn. cbn. split; [lia|reflexivity]. }
  assert (Hlen : n_sent st0 + length (src st0) = N).
  { cbn [n_sent src st0]. unfold numbered_source. rewrite map_length. lia. }
  unfold init. fold st0. destruct (c_lazy cfg).
  - split; [intros k m []|]. split; [exact HR0|].
    unfold sender_okn, inhand. cbn [s_pc st0 closed killed]. repeat split; auto; try discriminate.
    intros _. lia.
  - destruct (produce_view' st0) as (E1 & E2 & _).
    split; [rewrite E2; intros k m []|]. split; [rewrite E1; exact HR0|].
    apply sender_okn_produce; auto.
Qed.

Lemma prefix_seq a : a <= N -> is_prefix (vals (map item (seq 0 a))) expected.
Proof.
  intros Ha. exists (vals (map item (seq a (N - a)))). unfold expected.
  rewrite <- vals_app, <- map_app, <- seq_app. f_equal. f_equal. f_equal. lia.
Qed.

Theorem numbered_delivery_safe drives killer sched st :
  run cfg (init cfg drives numbered_source killer nfut) sched = Some st ->
  forall i r, nth_error (rds st) i = Some r ->
    is_prefix (r_log r) expected /\ (r_pc r = RDone -> r_log r = expected).
Proof.
  intros Hrun i r Hi.
  assert (HI : InvN st).
  { eapply run_invariant; [| |exact Hrun]; [intros; eapply InvN_step; eauto|apply InvN_init]. }
  destruct HI as (_ & HR & _). specialize (HR _ _ Hi). unfold pc_okn in HR.
  destruct (r_pc r).
  - destruct HR as [H1 ->]. split; [apply prefix_seq; auto|discriminate].
  - destruct HR as [H1 ->]. split; [apply prefix_seq; auto|discriminate].
  - destruct HR as (a & _ & H1 & _ & _ & -> & _). split; [apply prefix_seq; auto|discriminate].
  - rewrite HR. split; auto. exists []. now rewrite app_nil_r.
  - destruct HR as (a & H1 & ->). split; [apply prefix_seq; auto|discriminate].
Qed.

End Numbered.
