(* Explicitly numbered messages (Mailbox.send(msg, msg_number=k)): delivery safety.
   For every duplicate-free numbering with numbers below the message count (i.e. every permutation), every
   capacity, mode, number of subscribers, with or without a kill, and every schedule: each subscriber's
   delivered sequence is a prefix of the messages ORDERED BY NUMBER (futures replaced by results), and a
   subscriber that finished normally has received all of them.  (Deadlock freedom for numberings that fit
   the capacity is not proved; see Props/C05.v.) *)
From Coq Require Import Permutation.
From SV Require Import Base.Prelude Model.Mailbox Proof.MailboxFacts Proof.MailboxProof Proof.MailboxInOrder.
Local Open Scope nat_scope.

(* ---------- list facts ---------- *)
Lemma in_insert k m b x : In x (insert k m b) <-> x = (k, m) \/ In x b.
Proof.
  induction b as [|[k' m'] t IH]; cbn [insert].
  - cbn. intuition.
  - destruct (k <? k'); cbn [In]; [intuition|]. rewrite IH. intuition.
Qed.

Lemma in_gc lo b x : In x (gc lo b) -> In x b.
Proof.
  induction b as [|[k m] t IH]; cbn [gc]; auto. destruct (k <? lo); cbn [In]; auto.
Qed.

Lemma get_msg_in b k m : get_msg b k = Some m -> In (k, m) b.
Proof.
  induction b as [|[k' m'] t IH]; cbn [get_msg]; [discriminate|].
  destruct (k' =? k) eqn:E.
  - apply Nat.eqb_eq in E. subst. intros H; inversion H; subst. left; auto.
  - intros H. right. auto.
Qed.

(* ---------- strictly sorted boxes ---------- *)
Fixpoint ssorted (b : list (nat * msg)) : Prop :=
  match b with
  | [] => True
  | (k, _) :: t => (forall x, In x t -> k < fst x) /\ ssorted t
  end.

Lemma ssorted_insert k m b :
  ssorted b -> (forall x, In x b -> fst x <> k) -> ssorted (insert k m b).
Proof.
  induction b as [|[k' m'] t IH]; intros Hs Hk; cbn [insert].
  - cbn. split; [intros x []|exact I].
  - destruct Hs as [H1 H2]. destruct (k <? k') eqn:E.
    + apply Nat.ltb_lt in E. cbn [ssorted]. split; [|split; auto].
      intros x [<-|Hx]; [exact E|]. specialize (H1 _ Hx). lia.
    + apply Nat.ltb_ge in E. cbn [ssorted]. split.
      * intros x Hx. apply in_insert in Hx. destruct Hx as [->|Hx]; [|apply H1; exact Hx].
        cbn [fst]. assert (k' <> k) by (apply (Hk (k', m')); left; reflexivity). lia.
      * apply IH; auto. intros x Hx. apply Hk. right. exact Hx.
Qed.

Lemma ssorted_gc lo b : ssorted b -> ssorted (gc lo b).
Proof.
  induction b as [|[k m] t IH]; intros Hs; cbn [gc]; auto. destruct Hs as [H1 H2].
  destruct (k <? lo); auto. cbn [ssorted]. auto.
Qed.

Lemma in_gc_sorted lo b x : ssorted b -> (In x (gc lo b) <-> In x b /\ lo <= fst x).
Proof.
  induction b as [|[k m] t IH]; intros Hs; cbn [gc].
  - cbn. tauto.
  - destruct Hs as [H1 H2]. destruct (k <? lo) eqn:E.
    + apply Nat.ltb_lt in E. rewrite IH by auto. cbn [In]. split; [tauto|].
      intros [[<-|H] Hl]; [cbn in Hl; lia|tauto].
    + apply Nat.ltb_ge in E. cbn [In]. split.
      * intros [<-|H]; [cbn; split; [left; reflexivity|exact E]|]. specialize (H1 _ H). split; [right; exact H|lia].
      * tauto.
Qed.

Lemma ssorted_nodup b : ssorted b -> NoDup (map fst b).
Proof.
  induction b as [|[k m] t IH]; intros Hs; cbn [map fst]; [constructor|].
  destruct Hs as [H1 H2]. constructor; auto.
  intros Hin. apply in_map_iff in Hin. destruct Hin as (x & E & Hx). specialize (H1 _ Hx). lia.
Qed.

Lemma in_get_msg b k m : ssorted b -> In (k, m) b -> get_msg b k = Some m.
Proof.
  induction b as [|[k' m'] t IH]; intros Hs Hin; [destruct Hin|]. destruct Hs as [H1 H2]. cbn [get_msg].
  destruct Hin as [H|H].
  - inversion H; subst. rewrite Nat.eqb_refl. reflexivity.
  - specialize (H1 _ H). cbn [fst] in H1. replace (k' =? k) with false by (symmetry; apply Nat.eqb_neq; lia).
    apply IH; auto.
Qed.

Lemma take_from_in_box fuel b n ms n' last :
  take_from fuel b n = (ms, n', last) -> forall k, n <= k -> k < n' -> exists m, In (k, m) b.
Proof.
  revert n ms n' last; induction fuel as [|f IH]; intros n ms n' last H k Hk1 Hk2; cbn [take_from] in H.
  - inversion H; subst. lia.
  - destruct (get_msg b n) as [m|] eqn:E.
    + destruct (take_from f b (S n)) as [[ms1 n1] last1] eqn:E1. inversion H; subst. clear H.
      destruct (Nat.eq_dec k n) as [->|Hne]; [exists m; apply get_msg_in; exact E|].
      eapply IH; eauto. lia.
    + inversion H; subst. lia.
Qed.

(* a numbering fits the capacity when, before every send, fewer than `capacity` of the numbers already
   sent lie above the lowest number not yet sent (implied by "the capacity exceeds the largest
   displacement") *)
Definition fits (cap : option nat) (nums : list nat) : Prop :=
  match cap with
  | None => True
  | Some c => forall p, p <= length nums ->
      forall u, (forall k, k < u -> In k (firstn p nums)) -> ~ In u (firstn p nums) ->
        length (filter (fun k => u <? k) (firstn p nums)) < c
  end.

Section Numbered.
Variable cfg : config.
Variable items : list (nat * msg).     (* (message number, message) in the order they are sent *)
Variable nfut : nat.

Notation N := (length items).
Hypothesis nums_nodup : NoDup (map fst items).
Hypothesis nums_lt : forall k m, In (k, m) items -> k < N.
Hypothesis nostop : forall k m, In (k, m) items -> is_stop m = false.

(* everything that is ever sent: the items, then close() sends the end marker with number N *)
Definition AI : list (nat * msg) := items ++ [(N, Stop)].

(* the message with number k *)
Definition item (k : nat) : msg :=
  match find (fun it => fst it =? k) AI with Some it => snd it | None => Stop end.

(* the expected sequence: the messages ordered by number *)
Definition expected : list Z := vals (map item (seq 0 N)).

Lemma AI_unique k m : In (k, m) AI -> item k = m.
Proof.
  unfold item, AI. intros Hin.
  assert (Hn : NoDup (map fst (items ++ [(N, Stop)]))).
  { rewrite map_app. cbn [map fst].
    assert (H : ~ In N (map fst items)).
    { intros H. apply in_map_iff in H. destruct H as ([k' m'] & E & H). cbn in E. subst k'.
      apply nums_lt in H. lia. }
    clear - nums_nodup H. induction (map fst items) as [|h t IH]; cbn.
    - constructor; [intros []|constructor].
    - inversion nums_nodup; subst. constructor.
      + rewrite in_app_iff. cbn. intros [H1|[H1|[]]]; [auto|]. subst. apply H. left; auto.
      + apply IH; auto. intros H1. apply H. right; auto. }
  revert Hin Hn. generalize (items ++ [(N, Stop)]). intros l.
  induction l as [|[k' m'] t IH]; intros Hin Hn; [destruct Hin|].
  cbn [find fst]. destruct (k' =? k) eqn:E.
  - apply Nat.eqb_eq in E. subst k'. destruct Hin as [H|H]; [inversion H; reflexivity|].
    exfalso. cbn [map fst] in Hn. inversion Hn; subst. apply H2. apply in_map_iff. exists (k, m). auto.
  - destruct Hin as [H|H]; [inversion H; subst; rewrite Nat.eqb_refl in E; discriminate|].
    apply IH; auto. cbn [map] in Hn. inversion Hn; auto.
Qed.

Lemma AI_end : In (N, Stop) AI.
Proof. unfold AI. apply in_or_app. right. left. reflexivity. Qed.

Lemma AI_items k m : In (k, m) items -> In (k, m) AI.
Proof. intros H. unfold AI. apply in_or_app. left. exact H. Qed.

Lemma AI_num_le k m : In (k, m) AI -> k <= N.
Proof.
  unfold AI. intros H. apply in_app_or in H. destruct H as [H|[H|[]]].
  - apply nums_lt in H. lia.
  - inversion H. lia.
Qed.

Lemma AI_stop k : In (k, Stop) AI -> k = N.
Proof.
  unfold AI. intros H. apply in_app_or in H. destruct H as [H|[H|[]]].
  - apply nostop in H. discriminate.
  - inversion H. reflexivity.
Qed.

Definition genuine (a n' : nat) : Prop := forall k, a <= k -> k < n' -> In (k, item k) AI.

(* ---------- the read loop on a box whose entries are all genuine ---------- *)
Definition box_in (b : list (nat * msg)) : Prop := forall k m, In (k, m) b -> In (k, m) AI.

Lemma take_from_items fuel b n ms n' last :
  box_in b -> take_from fuel b n = (ms, n', last) ->
  n <= n' /\ ms = map item (seq n (n' - n)) /\ last = stop_in ms /\ genuine n n'.
Proof.
  intros Hb. revert n ms n' last; induction fuel as [|f IH]; intros n ms n' last H; cbn [take_from] in H.
  - inversion H; subst. replace (n' - n') with 0 by lia. repeat split; auto. intros k; lia.
  - destruct (get_msg b n) as [m|] eqn:E.
    + destruct (take_from f b (S n)) as [[ms1 n1] last1] eqn:E1. inversion H; subst. clear H.
      destruct (IH _ _ _ _ E1) as (H1 & H2 & H3 & H4).
      apply get_msg_in in E. apply Hb in E. pose proof (AI_unique _ _ E) as Eu.
      split; [lia|]. split; [|split].
      * replace (n' - n) with (S (n' - S n)) by lia. cbn [seq map]. rewrite Eu, H2. reflexivity.
      * cbn [stop_in]. rewrite H3. reflexivity.
      * intros k Hk1 Hk2. destruct (Nat.eq_dec k n) as [->|Hne]; [rewrite Eu; exact E|]. apply H4; lia.
    + inversion H; subst. replace (n' - n') with 0 by lia. repeat split; auto. intros k; lia.
Qed.

(* ---------- pending deliveries ---------- *)
Definition pend_okn (log : list Z) (ms : list msg) (n' : nat) (last : bool) : Prop :=
  exists a, a <= n' /\ a <= N /\ ms = map item (seq a (n' - a)) /\ genuine a n' /\
            log = vals (map item (seq 0 a)) /\ last = stop_in ms.

Lemma vals_seq_snoc a : vals (map item (seq 0 (S a))) = vals (map item (seq 0 a)) ++ val_of (item a).
Proof. rewrite seq_S, map_app, vals_app. cbn. now rewrite app_nil_r. Qed.

Lemma deliver_okn wd r ms n' last :
  pend_okn (r_log r) ms n' last ->
  match r_pc (deliver wd r ms n' last) with
  | REnter n => n = n' /\ n' <= N /\ r_log (deliver wd r ms n' last) = vals (map item (seq 0 n'))
  | RAwait k v rest n'' last' => pend_okn (r_log (deliver wd r ms n' last)) (Fut k v :: rest) n'' last'
  | RDone => r_log (deliver wd r ms n' last) = expected
  | _ => False
  end.
Proof.
  revert r; induction ms as [|m t IH]; intros r (a & Ha & HaN & Hms & Hg & Hl & Hlast).
  - cbn [deliver]. assert (a = n').
    { destruct (n' - a) eqn:E; [lia|discriminate]. }
    subst a. cbn [stop_in] in Hlast. subst last. cbn [r_pc r_log rd_set_pc]. auto.
  - destruct (n' - a) as [|j] eqn:Ej; [discriminate|]. cbn [seq map] in Hms. injection Hms as Hm Ht.
    assert (Hga : In (a, item a) AI) by (apply Hg; lia).
    assert (Hnext : is_stop m = false -> pend_okn (r_log r ++ val_of m) t n' last).
    { intros Hns. exists (S a). repeat split; try lia.
      - destruct (Nat.eq_dec a N) as [->|]; [|lia]. rewrite Hm, (AI_unique _ _ AI_end) in Hns. discriminate.
      - rewrite Ht. f_equal. f_equal. lia.
      - intros k H1 H2. apply Hg; lia.
      - rewrite vals_seq_snoc, Hl, Hm. reflexivity.
      - rewrite Hlast. cbn [stop_in]. rewrite Hns. reflexivity. }
    destruct m; cbn [deliver].
    + cbn [is_stop val_of] in Hnext. apply IH. apply Hnext. reflexivity.
    + cbn [is_stop val_of] in Hnext. destruct (nth k wd false).
      * apply IH. apply Hnext. reflexivity.
      * cbn [r_pc r_log rd_set_pc]. exists a. repeat split; auto. rewrite Ej. cbn [seq map]. rewrite <- Hm, Ht. reflexivity.
    + (* the end marker: break *)
      rewrite <- Hm in Hga. apply AI_stop in Hga. subst a.
      cbn [stop_in is_stop orb] in Hlast. subst last. cbn [r_pc r_log rd_set_pc]. exact Hl.
Qed.

(* ---------- the invariant ---------- *)
Definition pc_okn (r : reader) : Prop :=
  match r_pc r with
  | REnter n | RWait n => n <= N /\ r_log r = vals (map item (seq 0 n))
  | RAwait k v rest n' last => pend_okn (r_log r) (Fut k v :: rest) n' last
  | RDone => r_log r = expected
  | RRaised => exists a, a <= N /\ r_log r = vals (map item (seq 0 a))
  end.

Definition src_gen (st : state) : Prop :=
  Forall (fun it : option nat * msg => exists k, fst it = Some k /\ In (k, snd it) items) (src st).

Definition inhand (st : state) : nat :=
  match s_pc st with SSend _ _ false | SSendWait _ _ false => 1 | _ => 0 end.

Definition sender_okn (st : state) : Prop :=
  src_gen st /\
  (closed st = true -> s_pc st = SDone) /\
  match s_pc st with
  | SSend (Some k) m false => In (k, m) items
  | SSend None m true => m = Stop /\ src st = []
  | SSend _ _ _ => False
  | SSendWait k m false => In (k, m) items
  | SSendWait k m true => (killed st = false -> k = N) /\ m = Stop /\ src st = []
  | _ => True
  end /\
  (killed st = false -> match s_pc st with SDone | SDead | SKill _ => True
                        | _ => n_sent st + length (src st) + inhand st = N end).

Definition InvN (st : state) : Prop :=
  box_in (box st) /\ (forall i r, nth_error (rds st) i = Some r -> pc_okn r) /\ sender_okn st.

Lemma pc_okn_same r r' : r_pc r' = r_pc r -> r_log r' = r_log r -> pc_okn r -> pc_okn r'.
Proof. unfold pc_okn. intros -> ->. auto. Qed.

Lemma readers_map_woken l :
  (forall i r, nth_error l i = Some r -> pc_okn r) ->
  forall i r, nth_error (map (fun r => rd_set_woken r true) l) i = Some r -> pc_okn r.
Proof.
  intros H i r Hi. apply nth_error_map_some in Hi. destruct Hi as (x & Hx & ->).
  eapply pc_okn_same; [| |apply (H _ _ Hx)]; reflexivity.
Qed.

(* states that differ only in fields the invariant does not look at *)
Lemma InvN_view st st' :
  box st' = box st ->
  (rds st' = rds st \/ rds st' = map (fun r => rd_set_woken r true) (rds st)) ->
  sender_okn st' -> InvN st -> InvN st'.
Proof.
  intros Eb Er HS (HB & HR & _). split; [rewrite Eb; exact HB|]. split; [|exact HS].
  destruct Er as [-> | ->]; [exact HR|apply readers_map_woken; exact HR].
Qed.

(* ---------- sender ---------- *)
Lemma sender_okn_produce st :
  src_gen st -> closed st = false -> (killed st = false -> n_sent st + length (src st) = N) ->
  sender_okn (produce st).
Proof.
  intros Hs Hc Hk. unfold produce, src_gen in *. destruct (src st) as [|[num m] rest] eqn:Es.
  - unfold sender_okn, src_gen, inhand. simp_st. rewrite Es. repeat split; auto; try congruence.
    intros Hkk. specialize (Hk Hkk). cbn [length] in *. lia.
  - inversion Hs as [|x l (k & Hx1 & Hx2) Hl]; subst. cbn [fst snd] in *. subst num.
    unfold sender_okn, src_gen, inhand. simp_st. repeat split; auto; try congruence.
    intros Hkk. specialize (Hk Hkk). cbn [length] in *. lia.
Qed.

Lemma sender_okn_after_send st closing :
  src_gen st -> closed st = false ->
  (closing = false -> killed st = false -> n_sent st + length (src st) = N) ->
  sender_okn (after_send cfg st closing).
Proof.
  intros Hs Hc Hk. unfold after_send. destruct closing.
  - unfold sender_okn, src_gen, inhand in *. simp_st. repeat split; auto.
  - destruct (c_lazy cfg).
    + unfold sender_okn, src_gen, inhand in *. simp_st. repeat split; auto; try congruence.
      intros Hkk. rewrite Hk; auto.
    + apply sender_okn_produce; auto.
Qed.

Lemma sender_okn_raises st closing r :
  src_gen st -> closed st = false -> sender_okn (send_raises st closing r).
Proof.
  intros Hs Hc. unfold send_raises. destruct closing; unfold sender_okn, src_gen, inhand in *; simp_st;
    repeat split; auto; congruence.
Qed.

Lemma InvN_do_push st k m closing :
  InvN st -> In (k, m) AI -> src_gen st -> closed st = false ->
  (closing = false -> killed st = false -> S (n_sent st) + length (src st) = N) ->
  InvN (do_push cfg st k m closing).
Proof.
  intros (HB & HR & HS) Hin Hsg Hc Hcnt.
  set (st1 := wake_readers (push_box st (insert k m (box st)))).
  unfold do_push. fold st1.
  destruct (after_send_view cfg st1 closing) as (E1 & E2 & E3 & E4 & E5 & E6).
  split; [|split].
  - rewrite E2. intros k' m' H. cbn [box st1 wake_readers set_rds push_box] in H.
    apply in_insert in H. destruct H as [H|H]; [inversion H; subst; exact Hin|apply HB; exact H].
  - rewrite E1. apply readers_map_woken. exact HR.
  - apply sender_okn_after_send; auto.
Qed.

Lemma closed_false_n st : sender_okn st -> s_pc st <> SDone -> closed st = false.
Proof. intros (_ & H & _) Hpc. destruct (closed st); auto. exfalso. auto. Qed.

Lemma InvN_sender_step st : InvN st -> sender_enabled st = true -> InvN (sender_step cfg st).
Proof.
  intros HI Hen. pose proof HI as (HB & HR & HS). pose proof HS as (Hsg & Hcl & Hpc & Hcnt).
  unfold sender_step. destruct (s_pc st) eqn:Epc; auto.
  - (* SGate *)
    assert (Hc : closed st = false) by (apply closed_false_n; auto; congruence).
    unfold gate_enter. destruct (can_fetch st).
    + destruct (produce_view' st) as (E1 & E2 & _).
      eapply (InvN_view st); eauto. apply sender_okn_produce; auto.
      intros Hk. specialize (Hcnt Hk). unfold inhand in Hcnt. rewrite Epc in Hcnt. lia.
    + eapply (InvN_view st); eauto; try reflexivity.
      unfold sender_okn, src_gen, inhand in *. simp_st. repeat split; auto; try congruence.
      intros Hk. specialize (Hcnt Hk). rewrite Epc in Hcnt. exact Hcnt.
  - (* SGateWait *)
    assert (Hc : closed st = false) by (apply closed_false_n; auto; congruence).
    unfold gate_resume. destruct (can_fetch st).
    + destruct (produce_view' st) as (E1 & E2 & _).
      eapply (InvN_view st); eauto. apply sender_okn_produce; auto.
      intros Hk. specialize (Hcnt Hk). unfold inhand in Hcnt. rewrite Epc in Hcnt. lia.
    + eapply (InvN_view st); eauto; try reflexivity.
  - (* SSend *)
    assert (Hc : closed st = false) by (apply closed_false_n; auto; congruence).
    assert (Hcount : closing = false -> killed st = false -> S (n_sent st) + length (src st) = N).
    { intros -> Hk. specialize (Hcnt Hk). unfold inhand in Hcnt. rewrite Epc in Hcnt. lia. }
    unfold send_enter. rewrite Hc.
    destruct (fkilled st).
    { destruct (send_raises_view st closing false) as (E1 & E2 & _).
      eapply (InvN_view st); eauto. apply sender_okn_raises; auto. }
    destruct (killed st) eqn:Ek.
    { destruct (after_send_view cfg st closing) as (E1 & E2 & _ & E4 & _).
      eapply (InvN_view st); eauto. apply sender_okn_after_send; auto. intros _ Hk. congruence. }
    destruct (_ <? _).
    { destruct (send_raises_view st closing true) as (E1 & E2 & _).
      eapply (InvN_view st); eauto. apply sender_okn_raises; auto. }
    assert (Hin : In (match num with Some k => k | None => n_sent st end, m) AI).
    { destruct num as [k|]; destruct closing; try contradiction.
      - apply AI_items. exact Hpc.
      - destruct Hpc as [-> Hsrc]. specialize (Hcnt eq_refl). unfold inhand in Hcnt. rewrite Epc, Hsrc in Hcnt.
        cbn [length] in Hcnt. replace (n_sent st) with N by lia. apply AI_end. }
    destruct (can_write cfg st).
    + apply InvN_do_push; auto.
    + eapply (InvN_view st); eauto; try reflexivity.
      unfold sender_okn, src_gen, inhand in *. simp_st. repeat split; auto; try congruence.
      * destruct num as [k|]; destruct closing; try contradiction; auto.
        destruct Hpc as [-> Hsrc]. repeat split; auto. intros Hk. specialize (Hcnt eq_refl).
        rewrite Epc, Hsrc in Hcnt. cbn [length] in Hcnt. lia.
      * intros Hk. specialize (Hcnt eq_refl). rewrite Epc in Hcnt. destruct closing; exact Hcnt.
  - (* SSendWait *)
    assert (Hc : closed st = false) by (apply closed_false_n; auto; congruence).
    assert (Hcount : closing = false -> killed st = false -> S (n_sent st) + length (src st) = N).
    { intros -> Hk. specialize (Hcnt Hk). unfold inhand in Hcnt. rewrite Epc in Hcnt. lia. }
    unfold send_resume. destruct (can_write cfg st).
    + destruct (killed st) eqn:Ek.
      * destruct (fkilled st).
        { destruct (send_raises_view st closing false) as (E1 & E2 & _).
          eapply (InvN_view st); eauto. apply sender_okn_raises; auto. }
        { destruct (after_send_view cfg st closing) as (E1 & E2 & _).
          eapply (InvN_view st); eauto. apply sender_okn_after_send; auto. intros _ Hk. congruence. }
      * apply InvN_do_push; auto.
        destruct closing.
        -- destruct Hpc as (Hk & -> & _). rewrite (Hk eq_refl). apply AI_end.
        -- apply AI_items. exact Hpc.
    + eapply (InvN_view st); eauto; try reflexivity.
  - (* SKill *)
    destruct (kill_region_view st true) as (Eb & En & Ek & Ec & Es & Ew & Ef & Er).
    split; [|split].
    + cbn [box set_spc]. rewrite Eb. exact HB.
    + cbn [rds set_spc]. destruct Er as [-> | ->]; [exact HR|apply readers_map_woken; exact HR].
    + unfold sender_okn, src_gen, inhand in *. simp_st. rewrite Es, Ec, Ek.
      repeat split; auto; try (intros; discriminate).
      * intros Hcc. specialize (Hcl Hcc). congruence.
      * destruct reraise; simp_st; exact I.
Qed.

(* ---------- readers ---------- *)
Lemma InvN_upd st st' i r' :
  InvN st -> rds st' = upd i r' (rds st) -> (forall x, In x (box st') -> In x (box st)) ->
  src st' = src st -> closed st' = closed st -> s_pc st' = s_pc st -> killed st' = killed st ->
  n_sent st' = n_sent st -> pc_okn r' -> InvN st'.
Proof.
  intros (HB & HR & HS) Er Hb E1 E2 E3 E4 E5 Hr'. split; [|split].
  - intros k m H. apply HB. apply Hb. exact H.
  - intros j x Hj. rewrite Er in Hj. apply nth_error_upd in Hj.
    destruct Hj as [(_ & -> & _)|(_ & Hj)]; [exact Hr'|apply (HR _ _ Hj)].
  - unfold sender_okn, src_gen, inhand in *. rewrite E1, E2, E3, E4, E5. exact HS.
Qed.

Lemma InvN_grab st i r n :
  InvN st -> nth_error (rds st) i = Some r -> n <= N -> r_log r = vals (map item (seq 0 n)) ->
  InvN (grab cfg st i r n).
Proof.
  intros HI Hi HnN Hlog. pose proof HI as (HB & HR & HS).
  unfold grab. destruct (killed st) eqn:Ek.
  - eapply (InvN_upd st _ i (rd_set_pc (rd_set_waiting r None) RRaised)); eauto; try reflexivity.
    unfold pc_okn. simp_st. exists n. auto.
  - destruct (take_from (length (box st)) (box st) n) as [[ms n'] last] eqn:Et.
    destruct (take_from_items _ _ _ _ _ _ HB Et) as (Hle & Hms & Hlast & Hg).
    set (r2 := rd_set_nread (rd_set_waiting r None) n').
    set (st1 := set_rds st (upd i r2 (rds st))).
    set (st2 := set_box st1 (gc (min_nread (rds st1)) (box st1))).
    set (st3 := wake_writer (maybe_wake_gate cfg st2)).
    set (rf := deliver (w_done st3) r2 ms n' last).
    destruct (wake_writer_view (maybe_wake_gate cfg st2)) as (A1 & A2 & A3 & A4 & A5 & A6 & A7 & A8 & A9).
    destruct (maybe_wake_gate_view cfg st2) as (B1 & B2 & B3 & B4 & B5 & B6 & B7 & B8 & B9).
    assert (Hp : pend_okn (r_log r2) ms n' last).
    { exists n. repeat split; auto. }
    pose proof (deliver_okn (w_done st3) r2 ms n' last Hp) as Hd. fold rf in Hd.
    assert (E1 : rds st3 = upd i r2 (rds st)) by exact (eq_trans A1 B1).
    assert (E2 : box st3 = gc (min_nread (upd i r2 (rds st))) (box st)) by exact (eq_trans A2 B2).
    assert (Hrf : pc_okn rf).
    { unfold pc_okn. destruct (r_pc rf); try contradiction; auto. destruct Hd as (-> & H1 & H2). auto. }
    apply (InvN_upd st (set_rds st3 (upd i rf (rds st3))) i rf HI).
    + cbn [rds set_rds]. rewrite E1. apply upd_upd.
    + intros x Hx. cbn [box set_rds] in Hx. rewrite E2 in Hx. apply in_gc in Hx. exact Hx.
    + exact (eq_trans A7 B7).
    + exact (eq_trans A8 B8).
    + exact (eq_trans A9 B9).
    + exact (eq_trans A4 B4).
    + exact (eq_trans A3 B3).
    + exact Hrf.
Qed.

Lemma InvN_reader_step st i r :
  InvN st -> nth_error (rds st) i = Some r -> reader_enabled st r = true -> InvN (reader_step cfg st i r).
Proof.
  intros HI Hi Hen. pose proof HI as (HB & HR & HS). pose proof (HR _ _ Hi) as Hpc.
  unfold reader_step. destruct (r_pc r) eqn:Epc; auto.
  - unfold pc_okn in Hpc. rewrite Epc in Hpc. destruct Hpc as [HnN Hlog].
    unfold read_enter. destruct (next_ready st n); [apply InvN_grab; auto|].
    set (r' := rd_set_woken (rd_set_pc (rd_set_waiting r (Some n)) (RWait n)) false).
    destruct (maybe_wake_gate_view cfg (set_rds st (upd i r' (rds st)))) as (B1 & B2 & B3 & B4 & B5 & B6 & B7 & B8 & B9).
    eapply (InvN_upd st _ i r'); eauto.
    + intros x Hx. rewrite B2 in Hx. exact Hx.
    + unfold pc_okn, r'. simp_st. auto.
  - unfold pc_okn in Hpc. rewrite Epc in Hpc. destruct Hpc as [HnN Hlog].
    unfold read_resume. destruct (next_ready st n); [apply InvN_grab; auto|].
    eapply (InvN_upd st _ i (rd_set_woken r false)); eauto; try reflexivity.
    unfold pc_okn. simp_st. rewrite Epc. auto.
  - unfold pc_okn in Hpc. rewrite Epc in Hpc.
    assert (Hp : pend_okn (r_log (rd_log r v)) rest n' last).
    { destruct Hpc as (a & Ha & HaN & Hms & Hg & Hl & Hlast).
      destruct (n' - a) as [|j] eqn:Ej; [discriminate|]. cbn [seq map] in Hms. injection Hms as Hm Ht.
      assert (Hga : In (a, item a) AI) by (apply Hg; lia).
      exists (S a). repeat split; try lia.
      - destruct (Nat.eq_dec a N) as [->|]; [|lia]. rewrite (AI_unique _ _ AI_end) in Hm. discriminate.
      - rewrite Ht. f_equal. f_equal. lia.
      - intros k0 H1 H2. apply Hg; lia.
      - cbn [r_log rd_log]. rewrite vals_seq_snoc, Hl, <- Hm. reflexivity.
      - rewrite Hlast. reflexivity. }
    pose proof (deliver_okn (w_done st) (rd_log r v) rest n' last Hp) as Hd.
    eapply (InvN_upd st _ i (deliver (w_done st) (rd_log r v) rest n' last)); eauto; try reflexivity.
    unfold pc_okn. destruct (r_pc (deliver (w_done st) (rd_log r v) rest n' last)); try contradiction; auto.
    destruct Hd as (-> & H1 & H2). auto.
Qed.

Lemma InvN_step st t st' : InvN st -> step cfg st t = Some st' -> InvN st'.
Proof.
  intros HI Hs. apply step_inv in Hs. destruct t.
  - destruct Hs as [Hen ->]. apply InvN_sender_step; auto.
  - destruct Hs as (r & Hr & Hen & ->). apply InvN_reader_step; auto.
  - destruct Hs as (up & _ & ->). destruct HI as (HB & HR & HS).
    destruct (kill_region_view st up) as (Eb & En & Ek & Ec & Es & Ew & Ef & Er).
    split; [|split].
    + cbn [box set_kpc]. rewrite Eb. exact HB.
    + cbn [rds set_kpc]. destruct Er as [-> | ->]; [exact HR|apply readers_map_woken; exact HR].
    + destruct HS as (Hsg & Hcl & Hpc & Hcnt). unfold sender_okn, src_gen, inhand in *. simp_st.
      rewrite Es, Ec, spc_kill_region, Ek. repeat split; auto; try (intros; discriminate).
      destruct (s_pc st) as [| |num m c|k m c| | |]; auto. destruct c; auto.
      destruct Hpc as (_ & H2 & H3). repeat split; auto. intros; discriminate.
  - destruct Hs as (d & _ & _ & ->). destruct HI as (HB & HR & HS). split; [|split]; auto.
Qed.

Definition numbered_source : list (option nat * msg) := map (fun it => (Some (fst it), snd it)) items.

Lemma InvN_init drives killer : InvN (init cfg drives numbered_source killer nfut).
Proof.
  set (st0 := mkState [] 0 false false false (map init_reader drives) SGate false numbered_source killer
                      (repeat false nfut)).
  assert (Hsg : src_gen st0).
  { unfold src_gen, numbered_source. cbn [src st0]. apply Forall_forall. intros x Hx. apply in_map_iff in Hx.
    destruct Hx as ([k m] & <- & Hin). exists k. cbn. auto. }
  assert (HR0 : forall i r, nth_error (rds st0) i = Some r -> pc_okn r).
  { intros i r Hi. cbn [rds st0] in Hi. apply nth_error_map_some in Hi. destruct Hi as (d & _ & ->).
    unfold pc_okn. cbn. split; [lia|reflexivity]. }
  assert (Hlen : n_sent st0 + length (src st0) = N).
  { cbn [n_sent src st0]. unfold numbered_source. rewrite map_length. lia. }
  unfold init. fold st0. destruct (c_lazy cfg).
  - split; [intros k m []|]. split; [exact HR0|].
    unfold sender_okn, inhand. cbn [s_pc st0 closed killed]. repeat split; auto; try discriminate.
    intros _. lia.
  - destruct (produce_view' st0) as (E1 & E2 & _).
    split; [rewrite E2; intros k m []|]. split; [rewrite E1; exact HR0|].
    apply sender_okn_produce; auto.
Qed.

Lemma prefix_seq a : a <= N -> is_prefix (vals (map item (seq 0 a))) expected.
Proof.
  intros Ha. exists (vals (map item (seq a (N - a)))). unfold expected.
  rewrite <- vals_app, <- map_app, <- seq_app. f_equal. f_equal. f_equal. lia.
Qed.

Theorem numbered_delivery_safe drives killer sched st :
  run cfg (init cfg drives numbered_source killer nfut) sched = Some st ->
  forall i r, nth_error (rds st) i = Some r ->
    is_prefix (r_log r) expected /\ (r_pc r = RDone -> r_log r = expected).
Proof.
  intros Hrun i r Hi.
  assert (HI : InvN st).
  { eapply run_invariant; [| |exact Hrun]; [intros; eapply InvN_step; eauto|apply InvN_init]. }
  destruct HI as (_ & HR & _). specialize (HR _ _ Hi). unfold pc_okn in HR.
  destruct (r_pc r).
  - destruct HR as [H1 ->]. split; [apply prefix_seq; auto|discriminate].
  - destruct HR as [H1 ->]. split; [apply prefix_seq; auto|discriminate].
  - destruct HR as (a & _ & H1 & _ & _ & -> & _). split; [apply prefix_seq; auto|discriminate].
  - rewrite HR. split; auto. exists []. now rewrite app_nil_r.
  - destruct HR as (a & H1 & ->). split; [apply prefix_seq; auto|discriminate].
Qed.

(* ==================================================================================================
   Liveness for explicit numbering: no kill, numbering that fits the capacity; eager mode, and lazy mode
   through the fetch gate as repaired by /repo ede7cda.
   ================================================================================================== *)
Hypothesis futs_ok : forall k v n, In (n, Fut k v) items -> k < nfut.

Definition nsrc (l : list (nat * msg)) : list (option nat * msg) := map (fun it => (Some (fst it), snd it)) l.
Definition sent (st : state) : list (nat * msg) := firstn (n_sent st) AI.
Definition lo (st : state) : nat := min_nread (rds st).

Lemma AI_nodup : NoDup (map fst AI).
Proof.
  unfold AI. rewrite map_app. cbn [map fst].
  assert (H : ~ In N (map fst items)).
  { intros H. apply in_map_iff in H. destruct H as ([k' m'] & E & H). cbn in E. subst k'.
    apply nums_lt in H. lia. }
  clear - nums_nodup H. induction (map fst items) as [|h t IH]; cbn.
  - constructor; [intros []|constructor].
  - inversion nums_nodup; subst. constructor.
    + rewrite in_app_iff. cbn. intros [H1|[H1|[]]]; [auto|]. subst. apply H. left; auto.
    + apply IH; auto. intros H1. apply H. right; auto.
Qed.

Lemma AI_len : length AI = S N.
Proof. unfold AI. rewrite app_length. cbn. lia. Qed.

Lemma sent_mono n n' x : n <= n' -> In x (firstn n AI) -> In x (firstn n' AI).
Proof.
  intros Hle Hin. rewrite <- (firstn_skipn n (firstn n' AI)). apply in_or_app. left.
  rewrite firstn_firstn. replace (Nat.min n n') with n by lia. exact Hin.
Qed.

(* the entry sent at position n has a number that was not sent before *)
Lemma unsent n k m m' : nth_error AI n = Some (k, m) -> ~ In (k, m') (firstn n AI).
Proof.
  intros Hn Hin. pose proof AI_nodup as Hnd.
  rewrite <- (firstn_skipn n AI) in Hnd. rewrite map_app in Hnd.
  assert (Hs : In k (map fst (skipn n AI))).
  { rewrite (skipn_nth_cons _ _ _ Hn). left. reflexivity. }
  assert (Hf : In k (map fst (firstn n AI))) by (apply in_map_iff; exists (k, m'); auto).
  clear - Hnd Hs Hf. revert Hnd Hf. generalize (map fst (firstn n AI)) as l1. intros l1.
  induction l1 as [|h t IH]; intros Hnd Hf; [destruct Hf|].
  cbn [app] in Hnd. inversion Hnd; subst. destruct Hf as [->|Hf].
  - apply H1. apply in_or_app. right. exact Hs.
  - apply IH; auto.
Qed.

Definition rd_ok (st : state) (r : reader) : Prop :=
  (forall k, k < r_nread r -> exists m, In (k, m) (sent st)) /\
  match r_pc r with
  | REnter n | RWait n => r_nread r = n
  | RAwait _ _ _ n' _ => r_nread r = n'
  | RDone => N < r_nread r
  | RRaised => False
  end.

Definition snd_ok (st : state) : Prop :=
  match s_pc st with
  | SSend (Some k) m false => nth_error AI (n_sent st) = Some (k, m) /\ src st = nsrc (skipn (S (n_sent st)) items)
  | SSend None m true => n_sent st = N
  | SSendWait k m false => nth_error AI (n_sent st) = Some (k, m) /\ src st = nsrc (skipn (S (n_sent st)) items)
  | SSendWait k m true => k = N /\ n_sent st = N
  | SDone => n_sent st = S N
  | SGate | SGateWait => src st = nsrc (skipn (n_sent st) items) /\ n_sent st <= N
  | _ => False
  end.

Record EX (st : state) : Prop := mkEX {
  ex_sorted : ssorted (box st);
  ex_sub : forall k m, In (k, m) (box st) -> In (k, m) (sent st) /\ lo st <= k;
  ex_sup : forall k m, In (k, m) (sent st) -> lo st <= k -> In (k, m) (box st);
  ex_rd : forall i r, nth_error (rds st) i = Some r -> rd_ok st r;
  ex_snd : snd_ok st;
  ex_nk : killed st = false /\ fkilled st = false /\ k_pc st = None;
  ex_ne : rds st <> [];
  ex_ns : n_sent st <= S N;
}.

(* the number about to be sent is not below the slowest subscriber *)
Lemma lo_le_unsent st k m :
  EX st -> nth_error AI (n_sent st) = Some (k, m) -> lo st <= k.
Proof.
  intros HE Hn. destruct (min_nread_in _ (ex_ne _ HE)) as (j & r & Hj & Hr).
  unfold lo. rewrite <- Hr. destruct (Nat.le_gt_cases (r_nread r) k) as [|Hlt]; auto. exfalso.
  destruct (ex_rd _ HE _ _ Hj) as [Hs _]. destruct (Hs _ Hlt) as (m' & Hm'). apply (unsent _ _ _ _ Hn Hm').
Qed.

Lemma nth_AI_items n it : nth_error items n = Some it -> nth_error AI n = Some it.
Proof. intros H. unfold AI. rewrite nth_error_app1; auto. apply nth_error_Some. congruence. Qed.

(* the state after pushing the in-hand item (k, m) = AI[n_sent] *)
Lemma EX_push st k m st' :
  EX st -> nth_error AI (n_sent st) = Some (k, m) ->
  box st' = insert k m (box st) -> n_sent st' = S (n_sent st) ->
  rds st' = map (fun r => rd_set_woken r true) (rds st) ->
  killed st' = false -> fkilled st' = false -> k_pc st' = None -> snd_ok st' -> EX st'.
Proof.
  intros HE Hn Eb En Er Ek Ef Ekp Hs.
  pose proof (lo_le_unsent _ _ _ HE Hn) as Hlo.
  assert (Elo : lo st' = lo st).
  { unfold lo. rewrite Er. apply min_nread_map. reflexivity. }
  assert (Esent : sent st' = sent st ++ [(k, m)]).
  { unfold sent. rewrite En. apply firstn_S_nth. exact Hn. }
  assert (Hlt : n_sent st < S N).
  { rewrite <- AI_len. apply nth_error_Some. congruence. }
  constructor.
  - rewrite Eb. apply ssorted_insert; [apply (ex_sorted _ HE)|].
    intros [k' m'] Hx Hk. cbn [fst] in Hk. subst k'. destruct (ex_sub _ HE _ _ Hx) as [H1 _].
    apply (unsent _ _ _ _ Hn H1).
  - intros k' m' Hin. rewrite Eb in Hin. apply in_insert in Hin. rewrite Esent, Elo.
    destruct Hin as [H|H].
    + inversion H; subst. split; [apply in_or_app; right; left; reflexivity|exact Hlo].
    + destruct (ex_sub _ HE _ _ H) as [H1 H2]. split; [apply in_or_app; left; exact H1|exact H2].
  - intros k' m' Hin Hl. rewrite Esent in Hin. rewrite Elo in Hl. rewrite Eb. apply in_insert.
    apply in_app_or in Hin. destruct Hin as [H|[H|[]]].
    + right. apply (ex_sup _ HE); auto.
    + left. symmetry. exact H.
  - intros i r' Hi. rewrite Er in Hi. apply nth_error_map_some in Hi. destruct Hi as (r & Hi & ->).
    destruct (ex_rd _ HE _ _ Hi) as [H1 H2]. split; [|exact H2].
    intros k' Hk'. destruct (H1 _ Hk') as (m' & Hm'). exists m'. rewrite Esent. apply in_or_app. left. exact Hm'.
  - exact Hs.
  - auto.
  - rewrite Er. pose proof (ex_ne _ HE). destruct (rds st); [congruence|discriminate].
  - lia.
Qed.

Lemma produce_nsrc st l :
  src st = nsrc l ->
  match l with
  | [] => s_pc (produce st) = SSend None Stop true
  | it :: rest => s_pc (produce st) = SSend (Some (fst it)) (snd it) false /\ src (produce st) = nsrc rest
  end.
Proof.
  intros Hs. unfold produce. rewrite Hs. destruct l as [|it rest]; cbn [nsrc map]; cbn; auto.
Qed.

(* the sender after next(iterable): the next entry of the send order in hand, or closing *)
Lemma snd_ok_produce st n :
  n_sent st = n -> n <= N -> src st = nsrc (skipn n items) -> snd_ok (produce st).
Proof.
  intros En HnN Hsrc. pose proof (produce_nsrc st _ Hsrc) as Hp. unfold snd_ok.
  assert (Ens : n_sent (produce st) = n).
  { destruct (produce_view' st) as (_ & _ & E & _). congruence. }
  destruct (skipn n items) as [|it rest] eqn:Esk.
  - rewrite Hp, Ens.
    assert (length (skipn n items) = 0) by (rewrite Esk; reflexivity).
    rewrite skipn_length in H. lia.
  - destruct Hp as [Hp1 Hp2]. rewrite Hp1, Ens, Hp2.
    apply skipn_cons_nth in Esk. destruct Esk as [E1 E2]. split.
    + destruct it as [k0 m0]. cbn [fst snd]. apply nth_AI_items. exact E1.
    + rewrite E2. reflexivity.
Qed.

(* the sender's state after a push of AI[n_sent] *)
Lemma snd_ok_after_push st1 n closing :
  n_sent st1 = S n -> n <= N ->
  (closing = false -> n < N /\ src st1 = nsrc (skipn (S n) items)) ->
  (closing = true -> n = N) ->
  snd_ok (after_send cfg st1 closing).
Proof.
  intros En HnN Hnc Hc. unfold after_send. destruct closing.
  - unfold snd_ok. cbn [s_pc set_spc n_sent set_closed]. rewrite En, (Hc eq_refl). reflexivity.
  - destruct (Hnc eq_refl) as [Hlt Hsrc]. destruct (c_lazy cfg).
    + unfold snd_ok. cbn [s_pc set_spc n_sent src]. rewrite En. split; [exact Hsrc|lia].
    + apply (snd_ok_produce st1 (S n)); auto.
Qed.

(* ---------- EX is preserved ---------- *)
Lemma EX_same st st' :
  EX st -> box st' = box st -> n_sent st' = n_sent st ->
  (forall i r', nth_error (rds st') i = Some r' -> rd_ok st r') -> map r_nread (rds st') = map r_nread (rds st) ->
  killed st' = false -> fkilled st' = false -> k_pc st' = None -> snd_ok st' -> EX st'.
Proof.
  intros HE Eb En Hr Enr Ek Ef Ekp Hs.
  assert (Elo : lo st' = lo st) by (unfold lo; apply min_nread_map_eq; exact Enr).
  assert (Es : sent st' = sent st) by (unfold sent; rewrite En; reflexivity).
  constructor; rewrite ?Eb, ?Elo, ?Es, ?En.
  - apply (ex_sorted _ HE).
  - apply (ex_sub _ HE).
  - apply (ex_sup _ HE).
  - intros i r' Hi. specialize (Hr _ _ Hi). unfold rd_ok, sent in *. rewrite En. exact Hr.
  - exact Hs.
  - auto.
  - intros E. apply (f_equal (@length nat)) in Enr. rewrite !map_length, E in Enr.
    pose proof (ex_ne _ HE). destruct (rds st); [congruence|discriminate].
  - apply (ex_ns _ HE).
Qed.

Lemma rd_ok_woken st r w : rd_ok st r -> rd_ok st (rd_set_woken r w).
Proof. auto. Qed.

Lemma EX_do_push st k m closing :
  InvN st -> EX st -> nth_error AI (n_sent st) = Some (k, m) ->
  (closing = false -> src st = nsrc (skipn (S (n_sent st)) items) /\ In (k, m) items) ->
  (closing = true -> n_sent st = N) ->
  EX (do_push cfg st k m closing).
Proof.
  intros HI HE Hn Hnc Hc. unfold do_push.
  set (st1 := wake_readers (push_box st (insert k m (box st)))).
  destruct (after_send_view cfg st1 closing) as (E1 & E2 & E3 & E4 & E5 & E6).
  destruct (frame_after_send cfg st1 closing) as (F1 & _).
  destruct (ex_nk _ HE) as (K1 & K2 & K3).
  assert (HnN : n_sent st <= N).
  { assert (n_sent st < S N) by (rewrite <- AI_len; apply nth_error_Some; congruence). lia. }
  apply (EX_push st k m); auto.
  - rewrite E4. exact K1.
  - rewrite E5. exact K2.
  - rewrite F1. exact K3.
  - apply (snd_ok_after_push st1 (n_sent st) closing); auto.
    intros Hcl. destruct (Hnc Hcl) as [Hs Hin]. split; [|exact Hs].
    destruct (Nat.eq_dec (n_sent st) N) as [E|]; [|lia]. exfalso.
    rewrite E in Hn. unfold AI in Hn. rewrite nth_error_app2, Nat.sub_diag in Hn by lia. cbn in Hn.
    inversion Hn; subst. apply nostop in Hin. discriminate.
Qed.

Lemma EX_sender_step st : InvN st -> EX st -> sender_enabled st = true -> EX (sender_step cfg st).
Proof.
  intros HI HE Hen. pose proof HI as (HB & HR & HS). destruct HS as (Hsg & Hcl & Hpc & Hcnt).
  destruct (ex_nk _ HE) as (K1 & K2 & K3). pose proof (ex_snd _ HE) as Hs. unfold snd_ok in Hs.
  unfold sender_step. unfold sender_enabled in Hen.
  assert (Hgate : forall st', rds st' = rds st -> box st' = box st -> n_sent st' = n_sent st ->
            killed st' = killed st -> fkilled st' = fkilled st -> k_pc st' = k_pc st -> snd_ok st' -> EX st').
  { intros st' E1 E2 E3 E4 E5 E6 Hs'. apply (EX_same st); auto; try congruence.
    intros i r' Hi. rewrite E1 in Hi. apply (ex_rd _ HE _ _ Hi). }
  destruct (s_pc st) eqn:Epc; try contradiction; try discriminate.
  - (* SGate *)
    destruct Hs as [Hsrc HnN]. unfold gate_enter. destruct (can_fetch st).
    + destruct (produce_view' st) as (E1 & E2 & E3 & E4 & E5 & E6). destruct (frame_produce st) as (F1 & _).
      apply Hgate; auto. apply (snd_ok_produce st (n_sent st)); auto.
    + apply Hgate; auto. unfold snd_ok. cbn [s_pc set_swoken set_spc n_sent src]. auto.
  - (* SGateWait, woken *)
    destruct Hs as [Hsrc HnN]. unfold gate_resume. destruct (can_fetch st).
    + destruct (produce_view' st) as (E1 & E2 & E3 & E4 & E5 & E6). destruct (frame_produce st) as (F1 & _).
      apply Hgate; auto. apply (snd_ok_produce st (n_sent st)); auto.
    + apply Hgate; auto. unfold snd_ok. cbn [s_pc set_swoken n_sent src]. rewrite Epc. auto.
  - (* SSend *)
    assert (Hc : closed st = false) by (destruct (closed st); auto; specialize (Hcl eq_refl); congruence).
    unfold send_enter. rewrite Hc, K2, K1.
    destruct num as [k|]; destruct closing; try contradiction.
    + destruct Hs as [Hn Hsrc].
      replace (k <? min_nread (rds st)) with false
        by (symmetry; apply Nat.ltb_ge; apply (lo_le_unsent _ _ _ HE Hn)).
      destruct (can_write cfg st).
      * apply EX_do_push; auto. intros; discriminate.
      * apply (EX_same st); auto; try reflexivity.
        -- intros i r' Hi. apply (ex_rd _ HE _ _ Hi).
        -- unfold snd_ok. cbn [s_pc set_swoken set_spc n_sent src]. auto.
    + destruct Hpc as [-> Hsrc].
      assert (Hn : nth_error AI (n_sent st) = Some (n_sent st, Stop)).
      { rewrite Hs. unfold AI. rewrite nth_error_app2, Nat.sub_diag by lia. reflexivity. }
      replace (n_sent st <? min_nread (rds st)) with false
        by (symmetry; apply Nat.ltb_ge; apply (lo_le_unsent _ _ _ HE Hn)).
      destruct (can_write cfg st).
      * apply EX_do_push; auto. intros; discriminate.
      * apply (EX_same st); auto; try reflexivity.
        -- intros i r' Hi. apply (ex_rd _ HE _ _ Hi).
        -- unfold snd_ok. cbn [s_pc set_swoken set_spc n_sent src]. auto.
  - (* SSendWait, woken *)
    unfold send_resume. rewrite K1. destruct (can_write cfg st).
    + destruct closing.
      * destruct Hs as [-> Hns]. destruct Hpc as (_ & -> & _).
        apply EX_do_push; auto; try (intros; discriminate).
        rewrite Hns. unfold AI. rewrite nth_error_app2, Nat.sub_diag by lia. reflexivity.
      * destruct Hs as [Hn Hsrc]. apply EX_do_push; auto. intros; discriminate.
    + apply (EX_same st); auto; try reflexivity.
      * intros i r' Hi. apply (ex_rd _ HE _ _ Hi).
      * unfold snd_ok. cbn [s_pc set_swoken n_sent src]. rewrite Epc. exact Hs.
Qed.

(* deliver keeps the subscriber's position *)
Lemma deliver_pc_n wd r ms n' last :
  match r_pc (deliver wd r ms n' last) with
  | REnter n => n = n'
  | RAwait _ _ _ n'' _ => n'' = n'
  | RWait _ | RRaised => False
  | RDone => True
  end.
Proof.
  revert r; induction ms as [|m t IH]; intros r; cbn [deliver].
  - destruct last; cbn; auto.
  - destruct m as [v|k v|].
    + apply IH.
    + destruct (nth k wd false); [apply IH|]. cbn. auto.
    + destruct last; cbn; auto.
Qed.

Lemma deliver_done_n wd r ms n' last :
  pend_okn (r_log r) ms n' last -> r_pc (deliver wd r ms n' last) = RDone -> N < n'.
Proof.
  revert r; induction ms as [|m t IH]; intros r (a & Ha & HaN & Hms & Hg & Hl & Hlast) Hd.
  - cbn [deliver] in Hd. cbn [stop_in] in Hlast. subst last. cbn in Hd. discriminate.
  - destruct (n' - a) as [|j] eqn:Ej; [discriminate|]. cbn [seq map] in Hms. injection Hms as Hm Ht.
    assert (Hga : In (a, item a) AI) by (apply Hg; lia).
    assert (Hnext : is_stop m = false -> pend_okn (r_log r ++ val_of m) t n' last).
    { intros Hns. exists (S a). repeat split; try lia.
      - destruct (Nat.eq_dec a N) as [->|]; [|lia]. rewrite Hm, (AI_unique _ _ AI_end) in Hns. discriminate.
      - rewrite Ht. f_equal. f_equal. lia.
      - intros k H1 H2. apply Hg; lia.
      - rewrite vals_seq_snoc, Hl, Hm. reflexivity.
      - rewrite Hlast. cbn [stop_in]. rewrite Hns. reflexivity. }
    destruct m; cbn [deliver] in Hd.
    + apply (IH (rd_log r v)); auto; apply Hnext; reflexivity.
    + destruct (nth k wd false).
      * apply (IH (rd_log r v)); auto; apply Hnext; reflexivity.
      * cbn in Hd. discriminate.
    + rewrite <- Hm in Hga. apply AI_stop in Hga. lia.
Qed.

Lemma EX_upd_same st st' i r r' :
  EX st -> nth_error (rds st) i = Some r -> rds st' = upd i r' (rds st) -> r_nread r' = r_nread r ->
  rd_ok st r' -> box st' = box st -> n_sent st' = n_sent st -> s_pc st' = s_pc st -> src st' = src st ->
  killed st' = killed st -> fkilled st' = fkilled st -> k_pc st' = k_pc st -> EX st'.
Proof.
  intros HE Hi Er En Hr Eb Ens Epc Esrc Ek Ef Ekp. destruct (ex_nk _ HE) as (K1 & K2 & K3).
  apply (EX_same st); auto; try congruence.
  - intros j x Hj. rewrite Er in Hj. apply nth_error_upd in Hj.
    destruct Hj as [(_ & -> & _)|(_ & Hj)]; [exact Hr|apply (ex_rd _ HE _ _ Hj)].
  - rewrite Er, upd_map, En. apply upd_same. rewrite nth_error_map, Hi. reflexivity.
  - unfold snd_ok. rewrite Epc, Ens, Esrc. apply (ex_snd _ HE).
Qed.

Lemma EX_grab st i r n :
  InvN st -> EX st -> nth_error (rds st) i = Some r -> r_nread r = n -> n <= N ->
  r_log r = vals (map item (seq 0 n)) -> EX (grab cfg st i r n).
Proof.
  intros HI HE Hi Hnr HnN Hlog. pose proof HI as (HB & HR & HS).
  destruct (ex_nk _ HE) as (K1 & K2 & K3).
  unfold grab. rewrite K1.
  destruct (take_from (length (box st)) (box st) n) as [[ms n'] last] eqn:Et.
  destruct (take_from_items _ _ _ _ _ _ HB Et) as (Hle & Hms & Hlast & Hg).
  pose proof (take_from_in_box _ _ _ _ _ _ Et) as Hinb.
  set (r2 := rd_set_nread (rd_set_waiting r None) n').
  set (st1 := set_rds st (upd i r2 (rds st))).
  set (st2 := set_box st1 (gc (min_nread (rds st1)) (box st1))).
  set (st3 := wake_writer (maybe_wake_gate cfg st2)).
  set (rf := deliver (w_done st3) r2 ms n' last).
  destruct (wake_writer_view (maybe_wake_gate cfg st2)) as (A1 & A2 & A3 & A4 & A5 & A6 & A7 & A8 & A9).
  destruct (maybe_wake_gate_view cfg st2) as (B1 & B2 & B3 & B4 & B5 & B6 & B7 & B8 & B9).
  destruct (frame_wake_writer (maybe_wake_gate cfg st2)) as (C1 & _).
  destruct (frame_maybe_wake_gate cfg st2) as (D1 & _).
  assert (E1 : rds st3 = upd i r2 (rds st)) by exact (eq_trans A1 B1).
  assert (E2 : box st3 = gc (min_nread (upd i r2 (rds st))) (box st)) by exact (eq_trans A2 B2).
  assert (E3 : n_sent st3 = n_sent st) by exact (eq_trans A3 B3).
  assert (E4 : killed st3 = killed st) by exact (eq_trans A4 B4).
  assert (E5 : fkilled st3 = fkilled st) by exact (eq_trans A5 B5).
  assert (E7 : src st3 = src st) by exact (eq_trans A7 B7).
  assert (E9 : s_pc st3 = s_pc st) by exact (eq_trans A9 B9).
  assert (EK : k_pc st3 = k_pc st) by exact (eq_trans C1 D1).
  assert (Hp : pend_okn (r_log r2) ms n' last) by (exists n; repeat split; auto).
  destruct (deliver_fields (w_done st3) r2 ms n' last) as (F1 & _). fold rf in F1.
  change (r_nread r2) with n' in F1.
  pose proof (deliver_pc_n (w_done st3) r2 ms n' last) as Hpcn. fold rf in Hpcn.
  pose proof (deliver_done_n (w_done st3) r2 ms n' last Hp) as Hdone. fold rf in Hdone.
  set (st4 := set_rds st3 (upd i rf (rds st3))).
  assert (G1 : rds st4 = upd i rf (rds st)).
  { change (rds st4) with (upd i rf (rds st3)). rewrite E1. apply upd_upd. }
  assert (Hlo' : lo st4 = min_nread (upd i r2 (rds st))).
  { unfold lo. rewrite G1. apply min_nread_upd_nread. rewrite F1. reflexivity. }
  assert (Hlen : i < length (rds st)) by (apply nth_error_Some; congruence).
  assert (Hlole : lo st <= lo st4).
  { unfold lo at 2. rewrite G1. apply min_nread_ge.
    - intros E. apply (f_equal (@length reader)) in E. rewrite upd_length in E. cbn in E. lia.
    - intros j x Hj. apply nth_error_upd in Hj. destruct Hj as [(-> & -> & _)|(_ & Hj)].
      + pose proof (min_nread_le _ _ _ Hi). unfold lo. lia.
      + apply (min_nread_le _ _ _ Hj). }
  assert (Esent : sent st4 = sent st).
  { unfold sent. change (n_sent st4) with (n_sent st3). rewrite E3. reflexivity. }
  assert (Ebox : box st4 = gc (lo st4) (box st)).
  { change (box st4) with (box st3). rewrite E2, Hlo'. reflexivity. }
  constructor.
  - rewrite Ebox. apply ssorted_gc. apply (ex_sorted _ HE).
  - intros k m Hin. rewrite Ebox in Hin. apply in_gc_sorted in Hin; [|apply (ex_sorted _ HE)].
    destruct Hin as [Hin Hl]. destruct (ex_sub _ HE _ _ Hin) as [H1 _]. rewrite Esent. auto.
  - intros k m Hin Hl. rewrite Esent in Hin. rewrite Ebox. apply in_gc_sorted; [apply (ex_sorted _ HE)|].
    split; [|exact Hl]. apply (ex_sup _ HE); auto. lia.
  - intros j x Hj. rewrite G1 in Hj. apply nth_error_upd in Hj. destruct Hj as [(_ & -> & _)|(_ & Hj)].
    + unfold rd_ok. rewrite Esent, F1. split.
      * intros k Hk. destruct (Nat.lt_ge_cases k n) as [Hkn|Hkn].
        -- destruct (ex_rd _ HE _ _ Hi) as [H1 _]. apply H1. lia.
        -- destruct (Hinb k Hkn Hk) as (m & Hm). exists m. apply (ex_sub _ HE _ _ Hm).
      * destruct (r_pc rf); try contradiction; try (symmetry; exact Hpcn). apply Hdone. reflexivity.
    + destruct (ex_rd _ HE _ _ Hj) as [H1 H2]. split; [rewrite Esent; exact H1|exact H2].
  - unfold snd_ok. change (s_pc st4) with (s_pc st3). change (n_sent st4) with (n_sent st3).
    change (src st4) with (src st3). rewrite E9, E3, E7.
    apply (ex_snd _ HE).
  - change (killed st4) with (killed st3). change (fkilled st4) with (fkilled st3).
    change (k_pc st4) with (k_pc st3). rewrite E4, E5, EK. auto.
  - rewrite G1. intros E. apply (f_equal (@length reader)) in E. rewrite upd_length in E. cbn in E. lia.
  - change (n_sent st4) with (n_sent st3). rewrite E3. apply (ex_ns _ HE).
Qed.

Lemma EX_reader_step st i r :
  InvN st -> EX st -> nth_error (rds st) i = Some r -> reader_enabled st r = true ->
  EX (reader_step cfg st i r).
Proof.
  intros HI HE Hi Hen. pose proof HI as (HB & HR & HS). pose proof (HR _ _ Hi) as Hpc.
  destruct (ex_rd _ HE _ _ Hi) as [Hsent Hnr].
  unfold reader_step. destruct (r_pc r) eqn:Epc; auto.
  - unfold pc_okn in Hpc. rewrite Epc in Hpc. destruct Hpc as [HnN Hlog].
    unfold read_enter. destruct (next_ready st n); [apply EX_grab; auto|].
    destruct (maybe_wake_gate_view cfg (set_rds st (upd i (rd_set_woken (rd_set_pc (rd_set_waiting r (Some n)) (RWait n)) false) (rds st))))
      as (B1 & B2 & B3 & B4 & B5 & B6 & B7 & B8 & B9).
    destruct (frame_maybe_wake_gate cfg (set_rds st (upd i (rd_set_woken (rd_set_pc (rd_set_waiting r (Some n)) (RWait n)) false) (rds st))))
      as (D1 & _).
    eapply (EX_upd_same st _ i r (rd_set_woken (rd_set_pc (rd_set_waiting r (Some n)) (RWait n)) false));
      eauto; try reflexivity.
    unfold rd_ok. cbn. split; auto.
  - unfold pc_okn in Hpc. rewrite Epc in Hpc. destruct Hpc as [HnN Hlog].
    unfold read_resume. destruct (next_ready st n); [apply EX_grab; auto|].
    eapply (EX_upd_same st _ i r (rd_set_woken r false)); eauto; try reflexivity.
    unfold rd_ok. cbn. rewrite Epc. split; auto.
  - unfold pc_okn in Hpc. rewrite Epc in Hpc.
    assert (Hp : pend_okn (r_log (rd_log r v)) rest n' last).
    { destruct Hpc as (a & Ha & HaN & Hms & Hg & Hl & Hlast).
      destruct (n' - a) as [|j] eqn:Ej; [discriminate|]. cbn [seq map] in Hms. injection Hms as Hm Ht.
      exists (S a). repeat split; try lia.
      - destruct (Nat.eq_dec a N) as [->|]; [|lia]. rewrite (AI_unique _ _ AI_end) in Hm. discriminate.
      - rewrite Ht. f_equal. f_equal. lia.
      - intros k0 H1 H2. apply Hg; lia.
      - cbn [r_log rd_log]. rewrite vals_seq_snoc, Hl, <- Hm. reflexivity.
      - rewrite Hlast. reflexivity. }
    destruct (deliver_fields (w_done st) (rd_log r v) rest n' last) as (F1 & _).
    change (r_nread (rd_log r v)) with (r_nread r) in F1.
    pose proof (deliver_pc_n (w_done st) (rd_log r v) rest n' last) as Hpcn.
    pose proof (deliver_done_n (w_done st) (rd_log r v) rest n' last Hp) as Hdone.
    eapply (EX_upd_same st _ i r (deliver (w_done st) (rd_log r v) rest n' last)); eauto; try reflexivity.
    unfold rd_ok. rewrite F1. split; [exact Hsent|].
    destruct (r_pc (deliver (w_done st) (rd_log r v) rest n' last)); try contradiction; try congruence.
    rewrite Hnr. apply Hdone. reflexivity.
Qed.

Lemma EX_step st t st' : InvN st -> EX st -> step cfg st t = Some st' -> EX st'.
Proof.
  intros HI HE Hs. apply step_inv in Hs. destruct t.
  - destruct Hs as [Hen ->]. apply EX_sender_step; auto.
  - destruct Hs as (r & Hr & Hen & ->). apply EX_reader_step; auto.
  - destruct Hs as (up & Hk & _). destruct (ex_nk _ HE) as (_ & _ & K3). congruence.
  - destruct Hs as (d & _ & _ & ->). destruct (ex_nk _ HE) as (K1 & K2 & K3).
    apply (EX_same st); auto; try reflexivity.
    + intros i r' Hi. apply (ex_rd _ HE _ _ Hi).
    + apply (ex_snd _ HE).
Qed.

Lemma EX_init drives : drives <> [] -> EX (init cfg drives numbered_source None nfut).
Proof.
  intros Hd. unfold init.
  set (st0 := mkState [] 0 false false false (map init_reader drives) SGate false numbered_source None
                      (repeat false nfut)).
  assert (Hsrc : src st0 = nsrc (skipn 0 items)) by reflexivity.
  assert (HE0 : EX st0).
  { constructor.
    - exact I.
    - intros k m [].
    - intros k m [].
    - intros i r Hi. cbn [rds st0] in Hi. apply nth_error_map_some in Hi.
      destruct Hi as (d & _ & ->). unfold rd_ok. cbn. split; [intros k Hk; lia|reflexivity].
    - unfold snd_ok. cbn [s_pc st0 n_sent]. split; [exact Hsrc|lia].
    - cbn. auto.
    - cbn [rds st0]. destruct drives; [congruence|discriminate].
    - cbn. lia. }
  destruct (c_lazy cfg); [exact HE0|].
  destruct (produce_view' st0) as (E1 & E2 & E3 & E4 & E5 & E6).
  destruct (frame_produce st0) as (F1 & _).
  apply (EX_same st0); auto; try congruence.
  - intros i r' Hi. rewrite E1 in Hi. apply (ex_rd _ HE0 _ _ Hi).
  - apply (snd_ok_produce st0 0); auto. lia.
Qed.

Lemma wdone_len drives killer sched st :
  run cfg (init cfg drives numbered_source killer nfut) sched = Some st -> length (w_done st) = nfut.
Proof.
  intros Hrun. eapply (run_invariant cfg (fun s => length (w_done s) = nfut)); [| |exact Hrun].
  - intros s t s' H Hs. destruct (step_frame _ _ _ _ Hs) as (_ & E & _). congruence.
  - unfold init. destruct (c_lazy cfg).
    + cbn. apply repeat_length.
    + destruct (frame_produce (mkState [] 0 false false false (map init_reader drives) SGate false
                                  numbered_source killer (repeat false nfut))) as (_ & _ & E & _).
      rewrite E. cbn. apply repeat_length.
Qed.

Lemma reach_EX drives sched st :
  drives <> [] -> run cfg (init cfg drives numbered_source None nfut) sched = Some st -> InvN st /\ EX st.
Proof.
  intros Hd Hrun. eapply (run_invariant cfg (fun s => InvN s /\ EX s)); [| |exact Hrun].
  - intros s t s' [H1 H2] Hs. split; [eapply InvN_step; eauto|eapply EX_step; eauto].
  - split; [apply InvN_init|apply EX_init; auto].
Qed.

Lemma numbered_no_raise drives sched st i r :
  drives <> [] -> run cfg (init cfg drives numbered_source None nfut) sched = Some st ->
  nth_error (rds st) i = Some r -> r_pc r = RRaised -> False.
Proof.
  intros Hd Hrun Hi Hpc. destruct (reach_EX _ _ _ Hd Hrun) as [_ HE].
  destruct (ex_rd _ HE _ _ Hi) as [_ H]. rewrite Hpc in H. exact H.
Qed.

Hypothesis nums_all : forall k, k < N -> exists m, In (k, m) items.

Lemma AI_all k : k <= N -> exists m, In (k, m) AI.
Proof.
  intros Hk. destruct (Nat.eq_dec k N) as [->|]; [exists Stop; apply AI_end|].
  destruct (nums_all k) as (m & Hm); [lia|]. exists m. apply AI_items. exact Hm.
Qed.

Lemma keys_sent n : n <= N -> map fst (firstn n AI) = firstn n (map fst items).
Proof.
  intros Hn. rewrite <- firstn_map. unfold AI. rewrite map_app, firstn_app, map_length.
  replace (n - N) with 0 by lia. cbn [firstn]. apply app_nil_r.
Qed.

Theorem numbered_deadlock_free drives sched st :
  drives <> [] -> (forall c, c_cap cfg = Some c -> 1 <= c) -> fits (c_cap cfg) (map fst items) ->
  (c_lazy cfg = true -> In true drives) ->
  run cfg (init cfg drives numbered_source None nfut) sched = Some st ->
  (exists t, enabled st t = true) \/ all_terminal st = true.
Proof.
  intros Hd Hcap Hfits Hlz Hrun.
  destruct (reach_EX _ _ _ Hd Hrun) as [HI HE].
  pose proof (mailbox_no_lost_wakeup_gen _ _ _ _ _ _ _ Hrun) as (HWR & HWS & HWG & HGL).
  pose proof (WT_reachable _ _ _ _ _ _ _ Hrun) as HWT.
  pose proof (drives_reachable_gen _ _ _ _ _ _ _ Hrun) as Hdr.
  pose proof (wdone_len _ _ _ _ Hrun) as Hwl.
  destruct (existsb (enabled st) (tids st)) eqn:E.
  { left. apply existsb_exists in E. destruct E as (t & _ & Ht). eauto. }
  right.
  assert (Hno : forall t, enabled st t = false).
  { intros t. destruct (enabled st t) eqn:Et; auto.
    assert (existsb (enabled st) (tids st) = true).
    { apply existsb_exists. exists t. split; auto. apply enabled_in_tids. exact Et. }
    congruence. }
  destruct HI as (HB & HR & HS). destruct (ex_nk _ HE) as (K1 & K2 & K3).
  assert (Hw : forall k, k < nfut -> nth k (w_done st) false = true).
  { intros k Hk. specialize (Hno (TW k)). cbn in Hno. destruct (nth_error (w_done st) k) eqn:Ek.
    - destruct b; [|discriminate]. apply (nth_error_nth _ _ false) in Ek. exact Ek.
    - apply nth_error_None in Ek. lia. }
  (* a subscriber that cannot run is finished or waits unwoken for its position *)
  assert (Hrd : forall i r, nth_error (rds st) i = Some r ->
            (r_pc r = RDone /\ N < r_nread r) \/
            (r_pc r = RWait (r_nread r) /\ r_woken r = false /\ r_nread r <= N)).
  { intros i r Hi. specialize (Hno (TR i)). cbn in Hno. rewrite Hi in Hno.
    destruct (ex_rd _ HE _ _ Hi) as [_ Hnr]. pose proof (HR _ _ Hi) as Hpc. unfold pc_okn in Hpc.
    unfold reader_enabled in Hno. destruct (r_pc r) eqn:Epc; try discriminate; try contradiction.
    - right. subst n. destruct Hpc as [H1 _]. auto.
    - exfalso. destruct Hpc as (a & Ha & HaN & Hms & Hg & _).
      destruct (n' - a) as [|j] eqn:Ej; [discriminate|]. cbn [seq map] in Hms. injection Hms as Hm _.
      assert (Hga : In (a, item a) AI) by (apply Hg; lia). rewrite <- Hm in Hga.
      unfold AI in Hga. apply in_app_or in Hga. destruct Hga as [Hga|[Hga|[]]]; [|discriminate].
      apply futs_ok in Hga. unfold fut_done in Hno. rewrite Hw in Hno by lia. discriminate.
    - left. auto. }
  assert (Hfin : s_pc st = SDone /\ forall i r, nth_error (rds st) i = Some r -> r_pc r = RDone).
  { pose proof (ex_snd _ HE) as Hs. pose proof (Hno TS) as Hsen. cbn [enabled] in Hsen.
    unfold sender_enabled in Hsen. unfold snd_ok in Hs.
    destruct (s_pc st) eqn:Epc; try contradiction; try discriminate.
    - (* waiting at the lazy fetch gate, not woken: _can_fetch is false *)
      exfalso. destruct Hs as [_ HnN]. specialize (HWG Epc Hsen).
      assert (Hlazy : c_lazy cfg = true) by (apply HGL; auto).
      unfold can_fetch in HWG. rewrite K1 in HWG.
      destruct (existsb (waits_buffered st) (rds st)) eqn:Ewb.
      + (* a subscriber waits for a buffered message: its wait predicate is true, so it was woken *)
        apply existsb_exists in Ewb. destruct Ewb as (r & Hin & Hwb).
        apply In_nth_error in Hin. destruct Hin as (i & Hi).
        unfold waits_buffered in Hwb. destruct (r_waiting r) as [x|] eqn:Ewait; [|discriminate].
        pose proof (HWT _ _ Hi) as Hwt. unfold wt_ok in Hwt.
        destruct (Hrd _ _ Hi) as [[Hdone _]|(Hwait & Hwk & _)].
        * rewrite Hdone, Ewait in Hwt. discriminate.
        * rewrite Hwait, Ewait in Hwt. inversion Hwt; subst x.
          pose proof (HWR _ _ _ Hi Hwait Hwk) as Hnr. unfold next_ready in Hnr. rewrite Hwb in Hnr. discriminate.
      + (* no driving subscriber waits: a driver has finished, but the end marker was not sent *)
        specialize (Hlz Hlazy). rewrite <- Hdr in Hlz. apply in_map_iff in Hlz.
        destruct Hlz as (r & Hrd1 & Hin). apply In_nth_error in Hin. destruct Hin as (i & Hi).
        assert (Hnd : Mailbox.drives r = false).
        { destruct (Mailbox.drives r) eqn:E0; auto. rewrite <- HWG. symmetry. apply existsb_exists.
          exists r. split; auto. eapply nth_error_In; eauto. }
        unfold Mailbox.drives in Hnd. rewrite Hrd1 in Hnd. cbn [andb] in Hnd.
        pose proof (HWT _ _ Hi) as Hwt. unfold wt_ok in Hwt.
        destruct (Hrd _ _ Hi) as [[Hdone Hgt]|(Hwait & Hwk & _)].
        * destruct (ex_rd _ HE _ _ Hi) as [Hsent _]. destruct (Hsent N Hgt) as (m' & Hm').
          apply (sent_mono _ N) in Hm'; [|exact HnN].
          apply (unsent N N Stop m'); auto. unfold AI. rewrite nth_error_app2, Nat.sub_diag by lia. reflexivity.
        * rewrite Hwait in Hwt. rewrite Hwt in Hnd. discriminate.
    - (* waiting for room, not woken: the box is full *)
      exfalso. specialize (HWS _ _ _ Epc Hsen). unfold can_write in HWS. rewrite K1, orb_false_r in HWS.
      unfold room in HWS. destruct (c_cap cfg) as [cc|] eqn:Ec; [|discriminate].
      apply Nat.ltb_ge in HWS. specialize (Hcap _ eq_refl).
      assert (HnN : n_sent st <= N).
      { destruct closing; [destruct Hs; lia|]. destruct Hs as [Hn _].
        assert (n_sent st < S N) by (rewrite <- AI_len; apply nth_error_Some; congruence). lia. }
      destruct (min_nread_in _ (ex_ne _ HE)) as (j & r & Hj & Hmin). fold (lo st) in Hmin.
      destruct (Hrd _ _ Hj) as [[Hdone Hgt]|(Hwait & Hwk & HleN)].
      + (* the slowest subscriber has seen the end marker, which was not sent yet *)
        destruct (ex_rd _ HE _ _ Hj) as [Hsent _]. destruct (Hsent N Hgt) as (m' & Hm').
        apply (sent_mono _ N) in Hm'; [|exact HnN].
        apply (unsent N N Stop m'); auto. unfold AI. rewrite nth_error_app2, Nat.sub_diag by lia. reflexivity.
      + pose proof (HWR _ _ _ Hj Hwait Hwk) as Hnr. unfold next_ready in Hnr. rewrite K1, orb_false_r in Hnr.
        rewrite Hmin in *.
        assert (Hunsent : forall m', ~ In (lo st, m') (sent st)).
        { intros m' Hin. apply (ex_sup _ HE) in Hin; [|lia].
          apply (in_get_msg _ _ _ (ex_sorted _ HE)) in Hin. unfold has_msg in Hnr. rewrite Hin in Hnr. discriminate. }
        assert (Hincl : incl (map fst (box st)) (filter (fun k => lo st <? k) (firstn (n_sent st) (map fst items)))).
        { intros k Hk. apply in_map_iff in Hk. destruct Hk as ([k' m'] & <- & Hin). cbn [fst].
          destruct (ex_sub _ HE _ _ Hin) as [H1 H2]. apply filter_In. split.
          - rewrite <- keys_sent by exact HnN. apply in_map_iff. exists (k', m'). auto.
          - apply Nat.ltb_lt. destruct (Nat.eq_dec k' (lo st)) as [->|]; [exfalso; apply (Hunsent _ H1)|lia]. }
        pose proof (NoDup_incl_length (ssorted_nodup _ (ex_sorted _ HE)) Hincl) as Hlen.
        rewrite map_length in Hlen.
        unfold fits in Hfits.
        assert (Hp : n_sent st <= length (map fst items)) by (rewrite map_length; exact HnN).
        specialize (Hfits (n_sent st) Hp (lo st)).
        assert (H1 : forall k, k < lo st -> In k (firstn (n_sent st) (map fst items))).
        { intros k Hk. destruct (ex_rd _ HE _ _ Hj) as [Hsent _]. rewrite Hmin in Hsent.
          destruct (Hsent _ Hk) as (m' & Hm'). rewrite <- keys_sent by exact HnN.
          apply in_map_iff. exists (k, m'). auto. }
        assert (H2 : ~ In (lo st) (firstn (n_sent st) (map fst items))).
        { rewrite <- keys_sent by exact HnN. intros Hin. apply in_map_iff in Hin.
          destruct Hin as ([k' m'] & Ek & Hin). cbn in Ek. subst k'. apply (Hunsent _ Hin). }
        specialize (Hfits H1 H2). lia.
    - (* SDone: everything was sent *)
      split; auto. intros i r Hi. destruct (Hrd _ _ Hi) as [[Hdone _]|(Hwait & Hwk & HleN)]; auto. exfalso.
      pose proof (HWR _ _ _ Hi Hwait Hwk) as Hnr. unfold next_ready in Hnr. rewrite K1, orb_false_r in Hnr.
      destruct (AI_all _ HleN) as (m & Hm).
      assert (Hin : In (r_nread r, m) (sent st)).
      { unfold sent. rewrite Hs, <- AI_len, firstn_all. exact Hm. }
      apply (ex_sup _ HE) in Hin; [|apply (min_nread_le _ _ _ Hi)].
      apply (in_get_msg _ _ _ (ex_sorted _ HE)) in Hin. unfold has_msg in Hnr. rewrite Hin in Hnr. discriminate. }
  destruct Hfin as [Hsd Hrdone].
  unfold all_terminal. rewrite Hsd, K3.
  assert (E2 : forallb (fun r => match r_pc r with RDone | RRaised => true | _ => false end) (rds st) = true).
  { apply forallb_forall. intros r Hin. apply In_nth_error in Hin. destruct Hin as (i & Hi).
    rewrite (Hrdone _ _ Hi). reflexivity. }
  assert (E3 : forallb (fun d : bool => d) (w_done st) = true).
  { apply forallb_forall. intros d Hin. apply In_nth_error in Hin. destruct Hin as (k & Hk').
    assert (k < length (w_done st)) by (apply nth_error_Some; congruence).
    rewrite Hwl in H. specialize (Hw _ H). apply (nth_error_nth _ _ false) in Hk'. congruence. }
  rewrite E2, E3. reflexivity.
Qed.

End Numbered.

(* ---------- the same, with the numbering given as a permutation of 0 .. N-1 ---------- *)
Lemma perm_facts (items : list (nat * msg)) :
  Permutation (map fst items) (seq 0 (length items)) ->
  NoDup (map fst items) /\
  (forall k m, In (k, m) items -> k < length items) /\
  (forall k, k < length items -> exists m, In (k, m) items).
Proof.
  intros Hp. split; [|split].
  - apply (Permutation_NoDup (Permutation_sym Hp)). apply seq_NoDup.
  - intros k m Hin. assert (In k (map fst items)) by (apply in_map_iff; exists (k, m); auto).
    apply (Permutation_in _ Hp) in H. apply in_seq in H. lia.
  - intros k Hk. assert (In k (seq 0 (length items))) by (apply in_seq; lia).
    apply (Permutation_in _ (Permutation_sym Hp)) in H. apply in_map_iff in H.
    destruct H as ([k' m] & E & Hin). cbn in E. subst k'. eauto.
Qed.

Theorem numbered_safe_and_live cfg items nfut :
  Permutation (map fst items) (seq 0 (length items)) ->
  (forall k m, In (k, m) items -> is_stop m = false) ->
  (forall k v n, In (n, Fut k v) items -> k < nfut) ->
  forall (drives : list bool) (sched : list tid) (st : state),
    drives <> [] -> (forall c, c_cap cfg = Some c -> 1 <= c) -> fits (c_cap cfg) (map fst items) ->
    (c_lazy cfg = true -> In true drives) ->
    run cfg (init cfg drives (numbered_source items) None nfut) sched = Some st ->
    ((exists t, enabled st t = true) \/ all_terminal st = true) /\
    (forall i r, nth_error (rds st) i = Some r ->
       is_prefix (r_log r) (expected items) /\ (r_pc r = RDone -> r_log r = expected items)) /\
    (all_terminal st = true -> forall i r, nth_error (rds st) i = Some r -> r_log r = expected items).
Proof.
  intros Hp Hns Hf drives sched st Hd Hc Hfit Hlz Hrun.
  destruct (perm_facts _ Hp) as (H1 & H2 & H3).
  pose proof (numbered_delivery_safe cfg items nfut H1 H2 Hns drives None sched st Hrun) as Hsafe.
  split; [eapply numbered_deadlock_free; eauto|]. split; [exact Hsafe|].
  intros Ht i r Hi. destruct (Hsafe _ _ Hi) as [_ Hdone]. apply Hdone.
  (* a finished subscriber of a never-killed mailbox is RDone *)
  unfold all_terminal in Ht.
  apply andb_true_iff in Ht. destruct Ht as [Ht _]. apply andb_true_iff in Ht. destruct Ht as [Ht _].
  apply andb_true_iff in Ht. destruct Ht as [_ Hr].
  assert (Hin : In r (rds st)) by (eapply nth_error_In; eauto).
  rewrite forallb_forall in Hr. specialize (Hr _ Hin).
  destruct (r_pc r) eqn:E; try discriminate; auto.
  exfalso. eapply (numbered_no_raise cfg items nfut); eauto.
Qed.

(* ---------- "the capacity exceeds the largest displacement" implies `fits` ---------- *)
Lemma count_below (l : list nat) u :
  NoDup l -> (forall k, k < u -> In k l) -> length (filter (fun k => k <? u) l) = u.
Proof.
  intros Hnd Hall.
  assert (Hp : Permutation (filter (fun k => k <? u) l) (seq 0 u)).
  { apply NoDup_Permutation.
    - apply NoDup_filter. exact Hnd.
    - apply seq_NoDup.
    - intros x. rewrite filter_In, in_seq. split.
      + intros [_ H]. apply Nat.ltb_lt in H. lia.
      + intros [_ H]. split; [apply Hall; lia|apply Nat.ltb_lt; lia]. }
  rewrite (Permutation_length Hp). apply seq_length.
Qed.

Lemma filter_split (l : list nat) u :
  ~ In u l -> length l = length (filter (fun k => k <? u) l) + length (filter (fun k => u <? k) l).
Proof.
  induction l as [|h t IH]; intros Hn; cbn [filter length]; auto.
  assert (h <> u) by (intros ->; apply Hn; left; reflexivity).
  assert (~ In u t) by (intros Hi; apply Hn; right; exact Hi).
  specialize (IH H0).
  destruct (h <? u) eqn:E1; destruct (u <? h) eqn:E2; cbn [length]; lia.
Qed.

Lemma NoDup_firstn {T} (l : list T) n : NoDup l -> NoDup (firstn n l).
Proof.
  revert n; induction l as [|h t IH]; intros [|n] H; cbn [firstn]; try constructor.
  - inversion H; subst. intros Hin. apply H2. rewrite <- (firstn_skipn n t). apply in_or_app. left. exact Hin.
  - inversion H; subst. apply IH. exact H3.
Qed.

Theorem displacement_implies_fits (c : nat) (nums : list nat) :
  1 <= c ->
  Permutation nums (seq 0 (length nums)) ->
  (forall p k, nth_error nums p = Some k -> k < p + c /\ p < k + c) ->
  fits (Some c) nums.
Proof.
  intros Hc Hperm Hdisp. unfold fits. intros p Hp u Hall Hnot.
  assert (Hnd : NoDup nums) by (apply (Permutation_NoDup (Permutation_sym Hperm)); apply seq_NoDup).
  assert (Hlt : forall k, In k nums -> k < length nums).
  { intros k Hk. apply (Permutation_in _ Hperm) in Hk. apply in_seq in Hk. lia. }
  set (l := firstn p nums) in *.
  assert (Hndl : NoDup l) by (apply NoDup_firstn; exact Hnd).
  assert (Hlen : length l = p) by (unfold l; rewrite firstn_length; lia).
  pose proof (count_below l u Hndl Hall) as Hb.
  pose proof (filter_split l u Hnot) as Hs.
  (* the number of sent numbers above u is p - u *)
  assert (Habove : length (filter (fun k => u <? k) l) = p - u) by lia.
  rewrite Habove.
  destruct (Nat.lt_ge_cases u (length nums)) as [Hu|Hu].
  - (* u occurs in nums at a position q >= p, and q < u + c *)
    assert (Hin : In u nums).
    { apply (Permutation_in _ (Permutation_sym Hperm)). apply in_seq. lia. }
    apply In_nth_error in Hin. destruct Hin as (q & Hq).
    destruct (Hdisp _ _ Hq) as [_ H2].
    destruct (Nat.lt_ge_cases q p) as [Hqp|Hqp]; [|lia].
    exfalso. apply Hnot. unfold l. rewrite <- (firstn_skipn p nums) in Hq.
    rewrite nth_error_app1 in Hq by (rewrite firstn_length; lia).
    eapply nth_error_In; eauto.
  - (* every number is below u: all of them are among the first p, nothing lies above u *)
    assert (u <= p) by lia. lia.
Qed.
