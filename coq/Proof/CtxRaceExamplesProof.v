(* The hypothesis of ctx_race_free is satisfied by the call skeletons the real (repaired) code produces:
   several same-kind targets / a single target / three targets over a diamond, cold and warm plugin cache,
   with and without a storage frontend; and the conclusion is observable on concrete interleavings. *)
From SV Require Import Base.Prelude Model.CtxRace Model.CtxRaceExamples Proof.CtxRaceProof.

Example ex_multi_wf : wf_sys ex_multi_cfg ex_multi_sh ex_multi_progs = true.
Proof. vm_compute. reflexivity. Qed.
Example ex_single_wf : wf_sys ex_single_cfg ex_single_sh ex_single_progs = true.
Proof. vm_compute. reflexivity. Qed.
Example ex_three_wf : wf_sys ex_three_cfg ex_three_sh ex_three_progs = true.
Proof. vm_compute. reflexivity. Qed.

(* a concrete interleaving of the two-target example: both workers finish, both obtained the merge plugin
   and its two dependencies, the cache holds all three plugins *)
Example ex_multi_run :
  let fin := run_all ex_multi_cfg ex_multi_sh ex_multi_progs (rle [(1, 3); (0, 5); (1, 4); (0, 2)]%nat) 60 in
  map th_status (s_ths fin) = [Done; Done] /\
  map th_got (s_ths fin) = [[[1; 2]; [1000; 1; 2]]; [[1; 2]; [1000; 1; 2]]] /\
  sh_cache (s_sh fin) = Some [1; 2; 1000].
Proof. vm_compute. repeat split; reflexivity. Qed.

(* the skeleton of the code BEFORE the repair (temporary plugin registered without a private registry)
   does not satisfy the hypothesis: wf_items rejects a registry write on the shared registry *)
Example pinned_skeleton_not_wf :
  wf_items ex_multi_cfg (sh_reg ex_multi_sh) None
    [IGetPlugins [1; 2]; IRegister 1000 5000; IGetPlugins [1000]; ICleanup; IEndCall] = false.
Proof. vm_compute. reflexivity. Qed.
