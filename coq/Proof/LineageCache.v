(* C02 — the plugin cache: if every cached instance is what the specification computes for the
   current settings (up to equivalence), then __get_plugin / _get_plugins return what the
   specification computes, and keep the cache in that state. *)
From SV Require Import Base.Prelude Model.Canon Model.Lineage Proof.CanonProof Spec.LineageSpec Proof.LineageEquiv.

(* ---------- equivalences are equivalences ---------- *)
Lemma opt_equiv_refl o : opt_equiv o o.
Proof. repeat split. Qed.
Lemma opt_equiv_sym o o' : opt_equiv o o' -> opt_equiv o' o.
Proof. intros (A & B & C & D). repeat split; congruence. Qed.
Lemma opt_equiv_trans o1 o2 o3 : opt_equiv o1 o2 -> opt_equiv o2 o3 -> opt_equiv o1 o3.
Proof. intros (A & B & C & D) (A' & B' & C' & D'). repeat split; congruence. Qed.

Lemma Forall2_refl {A} (R : A -> A -> Prop) l : (forall x, R x x) -> Forall2 R l l.
Proof. intros H. induction l; constructor; auto. Qed.
Lemma Forall2_sym {A} (R : A -> A -> Prop) l l' : (forall x y, R x y -> R y x) -> Forall2 R l l' -> Forall2 R l' l.
Proof. intros H. induction 1; constructor; auto. Qed.
Lemma Forall2_trans {A} (R : A -> A -> Prop) l1 l2 l3 :
  (forall x y z, R x y -> R y z -> R x z) -> Forall2 R l1 l2 -> Forall2 R l2 l3 -> Forall2 R l1 l3.
Proof.
  intros H H1. revert l3. induction H1; intros l3 H2; inversion H2; subst; constructor; eauto.
Qed.

Lemma cls_equiv_refl c : cls_equiv c c.
Proof. repeat split. apply Forall2_refl, opt_equiv_refl. Qed.
Lemma cls_equiv_sym c c' : cls_equiv c c' -> cls_equiv c' c.
Proof.
  intros (A & B & C & D & E & F & G). repeat split; try congruence.
  apply Forall2_sym; [apply opt_equiv_sym|exact G].
Qed.
Lemma cls_equiv_trans c1 c2 c3 : cls_equiv c1 c2 -> cls_equiv c2 c3 -> cls_equiv c1 c3.
Proof.
  intros (A & B & C & D & E & F & G) (A' & B' & C' & D' & E' & F' & G'). repeat split; try congruence.
  eapply Forall2_trans; [apply opt_equiv_trans|exact G|exact G'].
Qed.

Lemma inst_equiv_refl i : inst_equiv i i.
Proof. split; [apply cls_equiv_refl|split; apply dequiv_refl]. Qed.
Lemma inst_equiv_sym i i' : inst_equiv i i' -> inst_equiv i' i.
Proof. intros (A & B & C). split; [now apply cls_equiv_sym|split; now apply dequiv_sym]. Qed.
Lemma inst_equiv_trans i1 i2 i3 : inst_equiv i1 i2 -> inst_equiv i2 i3 -> inst_equiv i1 i3.
Proof.
  intros (A & B & C) (A' & B' & C'). split; [eapply cls_equiv_trans; eauto|split; eapply dequiv_trans; eauto].
Qed.

Lemma reg_equiv_refl r : reg_equiv r r.
Proof. intros dt. destruct (lookup dt r); [apply cls_equiv_refl|exact I]. Qed.
Lemma reg_equiv_sym r r' : reg_equiv r r' -> reg_equiv r' r.
Proof.
  intros H dt. specialize (H dt). destruct (lookup dt r), (lookup dt r'); try contradiction; [|exact I].
  now apply cls_equiv_sym.
Qed.

(* ---------- fuel monotonicity of the specification ---------- *)
Lemma spec_deps_mono (sp sp' : Z -> res inst) ds l :
  (forall d i, sp d = Ok i -> sp' d = Ok i) -> spec_deps sp ds = Ok l -> spec_deps sp' ds = Ok l.
Proof.
  intros H. revert l. induction ds as [|d ds IH]; intros l; cbn [spec_deps]; [auto|].
  destruct (sp d) as [i|e] eqn:E; cbn [res_bind]; [|discriminate]. rewrite (H _ _ E). cbn [res_bind].
  destruct (spec_deps sp ds) as [r|e]; cbn [res_bind]; [|discriminate]. rewrite (IH r eq_refl). auto.
Qed.

Lemma spec_plugin_mono reg conf : forall n m dt i, (n <= m)%nat -> spec_plugin n reg conf dt = Ok i -> spec_plugin m reg conf dt = Ok i.
Proof.
  induction n as [|n IH]; intros m dt i Hle; cbn [spec_plugin]; [discriminate|].
  destruct m as [|m]; [lia|]. cbn [spec_plugin].
  destruct (lookup dt reg) as [c|]; [|discriminate].
  destruct (plugin_config conf c) as [p|]; cbn [res_bind]; [|discriminate].
  destruct (spec_deps (spec_plugin n reg conf) (cdepends c)) as [deps|] eqn:E; cbn [res_bind]; [|discriminate].
  rewrite (spec_deps_mono _ (spec_plugin m reg conf) _ _ (fun d j => IH m d j ltac:(lia)) E). auto.
Qed.

Lemma spec_plugin_same_class reg conf n p t :
  lookup p reg = lookup t reg -> spec_plugin n reg conf p = spec_plugin n reg conf t.
Proof. intros H. destruct n; cbn [spec_plugin]; [reflexivity|]. now rewrite H. Qed.

Lemma spec_plugin_cls reg conf n dt i : spec_plugin n reg conf dt = Ok i -> lookup dt reg = Some (icls i).
Proof.
  destruct n; cbn [spec_plugin]; [discriminate|].
  destruct (lookup dt reg) as [c|]; [|discriminate].
  destruct (plugin_config conf c); cbn [res_bind]; [|discriminate].
  destruct (spec_deps _ _); cbn [res_bind]; [|discriminate].
  intros H. inversion H. reflexivity.
Qed.

(* ---------- soundness of cached instances ---------- *)
Definition sound_inst (reg : registry) (conf : config) (dt : Z) (i : inst) : Prop :=
  lin_nodup i /\ exists n i', spec_plugin n reg conf dt = Ok i' /\ inst_equiv i i'.

Definition cache_sound (reg : registry) (conf : config) (m : list (Z * inst)) : Prop :=
  forall dt i, In (dt, i) m -> sound_inst reg conf dt i.

Lemma sound_inst_provides reg conf dt i p :
  reg_ok reg -> sound_inst reg conf dt i -> In p (cprovides (icls i)) -> sound_inst reg conf p i.
Proof.
  intros Hok (ND & n & i' & Hs & He) Hp. split; [exact ND|]. exists n, i'. split; [|exact He].
  pose proof (spec_plugin_cls _ _ _ _ _ Hs) as Hc.
  destruct He as ((_ & _ & Epr & _) & _). rewrite Epr in Hp.
  destruct (Hok dt (icls i') Hc) as (_ & Hall).
  rewrite (spec_plugin_same_class reg conf n p dt); [exact Hs|]. rewrite (Hall p Hp). now rewrite Hc.
Qed.

Lemma sound_inst_self reg conf dt i : reg_ok reg -> sound_inst reg conf dt i -> In dt (cprovides (icls i)).
Proof.
  intros Hok (_ & n & i' & Hs & He).
  pose proof (spec_plugin_cls _ _ _ _ _ Hs) as Hc. destruct (Hok dt (icls i') Hc) as (Hin & _).
  destruct He as ((_ & _ & Epr & _) & _). now rewrite Epr.
Qed.

Lemma lookup_fold_dset {A} k (x : A) provs m :
  lookup k (fold_left (fun acc p => dset p x acc) provs m) = if memZ k provs then Some x else lookup k m.
Proof.
  revert m. induction provs as [|p provs IH]; intros m; cbn [fold_left memZ existsb]; [reflexivity|].
  rewrite IH. unfold memZ. rewrite lookup_dset.
  destruct (existsb (Z.eqb k) provs); cbn [orb]; [now rewrite orb_true_r|]. rewrite orb_false_r. reflexivity.
Qed.

