(* Refinement: the MiniPy program regenerated from strax/processing/general.py::diff (Gen/Diff.v)
   returns, for every input array, exactly the list computed by the hand-written model
   Model/Rechunker.v: diff (and by Model/Intervals.v: diff, the C17 copy).  Never stuck, no fuel. *)
From Coq Require Import String.
From SV Require Import Lang.MiniPy Gen.Diff Model.Rechunker.
From SV Require Model.Intervals.

Definition df_names : list str := Eval vm_compute in env_names diff_prog.
Definition df_body : stmt := Eval vm_compute in for_body (fbody diff_prog).
Definition df_i : str := Eval vm_compute in nth 0 (for_targets (fbody diff_prog)) EmptyString.
Definition df_x : str := Eval vm_compute in nth 1 (for_targets (fbody diff_prog)) EmptyString.
Definition df_y : str := Eval vm_compute in nth 2 (for_targets (fbody diff_prog)) EmptyString.

(* data, results, max_endtime, i, time, endtime *)
Definition df_env (rs : list row) (res : list Z) (mx : Z) (iv tv ev : val) : env :=
  mk_env df_names [VRows rs; VInts res; VInt mx; iv; tv; ev].

(* what the Python loop computes from the two zipped columns *)
Fixpoint py_diff (mx : Z) (la lb : list Z) : list Z :=
  match la, lb with
  | tm :: la', en :: lb' => let mx' := Z.max mx en in (tm - mx') :: py_diff mx' la' lb'
  | _, _ => []
  end.

Fixpoint py_diff_mx (mx : Z) (la lb : list Z) : Z :=
  match la, lb with
  | _ :: la', en :: lb' => py_diff_mx (Z.max mx en) la' lb'
  | _, _ => mx
  end.

Lemma df_step fuel rs done zs mx iv tv ev tm en :
  exec fuel df_body (bind_all (df_env rs (done ++ 0 :: zs) mx iv tv ev)
                              [(df_i, zi (length done)); (df_x, VInt tm); (df_y, VInt en)]) =
  ONormal (df_env rs (done ++ (tm - Z.max mx en) :: zs) (Z.max mx en) (zi (length done)) (VInt tm) (VInt en)).
Proof.
  unfold df_body, df_env, df_names, df_i, df_x, df_y. mp_eval.
  mp_steps. rewrite set_idx_app_mid. reflexivity.
Qed.

Lemma df_loop fuel rs : forall la lb done n mx iv tv ev,
  (length (combine la lb) <= n)%nat ->
  exists iv' tv' ev',
    iter_list (exec fuel df_body) (zip_binds df_i df_x df_y (length done) (map VInt la) (map VInt lb))
              (df_env rs (done ++ repeat 0 n) mx iv tv ev) =
    ONormal (df_env rs (done ++ py_diff mx la lb ++ repeat 0 (n - length (combine la lb)))
                    (py_diff_mx mx la lb) iv' tv' ev').
Proof.
  induction la as [|tm la IH]; intros lb done n mx iv tv ev Hn.
  - exists iv, tv, ev. cbn [map combine length py_diff py_diff_mx app]. rewrite Nat.sub_0_r. reflexivity.
  - destruct lb as [|en lb].
    + exists iv, tv, ev. cbn [map combine length py_diff py_diff_mx app]. rewrite zip_binds_nil_r, Nat.sub_0_r. reflexivity.
    + cbn [map combine length] in *. destruct n as [|n]; [lia|].
      cbn [repeat]. rewrite zip_binds_cons, iter_list_cons, df_step.
      specialize (IH lb (done ++ [tm - Z.max mx en]) n (Z.max mx en) (zi (length done)) (VInt tm) (VInt en)).
      destruct IH as (iv' & tv' & ev' & IH); [lia|].
      exists iv', tv', ev'.
      rewrite app_length in IH. cbn [length] in IH. rewrite Nat.add_1_r in IH.
      rewrite <- app_assoc in IH. cbn [app] in IH. rewrite IH.
      cbn [py_diff py_diff_mx Nat.sub]. cbv zeta. rewrite <- app_assoc. reflexivity.
Qed.

Lemma py_diff_model : forall rest prev M,
  py_diff M (map rt rest) (map re (removelast (prev :: rest))) = diff_from (Z.max M (re prev)) rest.
Proof.
  induction rest as [|r rest IH]; intros prev M.
  - reflexivity.
  - change (removelast (prev :: r :: rest)) with (prev :: removelast (r :: rest)).
    cbn [map py_diff diff_from]. cbv zeta. rewrite IH. reflexivity.
Qed.

Lemma py_diff_length : forall la lb mx, length (py_diff mx la lb) = length (combine la lb).
Proof.
  induction la as [|a la IH]; intros [|b lb] mx; cbn [py_diff combine length]; auto.
Qed.

Lemma map_removelast' {A B} (f : A -> B) : forall l, map f (removelast l) = removelast (map f l).
Proof.
  induction l as [|x l IH]; [reflexivity|].
  destruct l as [|y l]; [reflexivity|].
  change (removelast (x :: y :: l)) with (x :: removelast (y :: l)).
  change (removelast (map f (x :: y :: l))) with (f x :: removelast (map f (y :: l))).
  cbn [map] in *. rewrite IH. reflexivity.
Qed.

Theorem diff_refines fuel rs :
  run fuel diff_prog [VRows rs] = OReturn (VInts (diff rs)).
Proof.
  unfold run, diff_prog. mp_eval.
  mp_step. mp_step.
  destruct rs as [|r0 rest].
  { rewrite len_z_nil. cbn [Z.eqb]. mp_steps. reflexivity. }
  assert (Hlen : len_z (r0 :: rest) =? 0 = false) by (rewrite len_z_cons; pose proof (len_z_nonneg rest); lia).
  rewrite Hlen. mp_steps.
  replace (len_z (r0 :: rest) - 1) with (Z.of_nat (length rest)) by (rewrite len_z_cons; unfold len_z; lia).
  rewrite zeros_nat. mp_steps. rewrite idx_0. mp_steps.
  cbn [map]. rewrite slice_from_1, slice_to_m1.
  change (re r0 :: map re rest) with (map re (r0 :: rest)). rewrite <- map_removelast'.
  assert (Hc : length (combine (map rt rest) (map re (removelast (r0 :: rest)))) = length rest).
  { rewrite combine_length, !map_length.
    assert (length (removelast (r0 :: rest)) = length rest).
    { rewrite removelast_firstn_len, firstn_length. cbn [length]. lia. }
    lia. }
  destruct (df_loop fuel (r0 :: rest) (map rt rest) (map re (removelast (r0 :: rest))) [] (length rest) (re r0)
                    VUndef VUndef VUndef) as (iv & tv & ev & Hloop); [lia|].
  unfold df_env, df_names, df_i, df_x, df_y, df_body in Hloop. mp_eval_in Hloop.
  cbn [app length] in Hloop. change (Z.of_nat 0) with 0 in Hloop.
  rewrite Hloop. clear Hloop. mp_steps.
  rewrite Hc, Nat.sub_diag. cbn [repeat]. rewrite app_nil_r.
  rewrite py_diff_model, Z.max_id. reflexivity.
Qed.

(* the C17 copy of the model (Model/Intervals.v) is the same function *)
Lemma diff_go_from : forall rest mx pe, Intervals.diff_go mx pe rest = diff_from (Z.max mx pe) rest.
Proof.
  induction rest as [|d rest IH]; intros mx pe; [reflexivity|].
  cbn [Intervals.diff_go diff_from]. cbv zeta. rewrite IH. reflexivity.
Qed.

Lemma intervals_diff_eq rs : Intervals.diff rs = diff rs.
Proof.
  destruct rs as [|r0 rest]; [reflexivity|].
  unfold Intervals.diff, diff. rewrite diff_go_from, Z.max_id. reflexivity.
Qed.

Theorem diff_refines_intervals fuel rs :
  run fuel diff_prog [VRows rs] = OReturn (VInts (Intervals.diff rs)).
Proof. rewrite intervals_diff_eq. apply diff_refines. Qed.

Example diff_prog_runs :
  run 0 diff_prog [VRows [mkrow 0 10 0 0; mkrow 2 4 1 0; mkrow 12 13 2 0]] = OReturn (VInts [-8; 2]).
Proof. vm_compute. reflexivity. Qed.
