(* Property C08: where the too-many-passes error comes from, and totality below the pass limit. *)
From SV Require Import Model.Rows Model.SplitArray Model.Chunk Model.PluginIter
     Proof.RowsFacts Proof.SplitArrayProof Proof.ChunkProof Proof.PluginIterProof Proof.PluginIterRound
     Proof.PluginIterLoop Proof.PluginIterStair.

(* the chunks of the dependency that Plugin.iter picks as pacemaker *)
Definition pacemaker_chunks (deps : list (Z * list chunk)) : list chunk :=
  match init_slots deps with
  | Ok ss => match choose_pm ss 0 None with
             | Some (pm, _) => snd (nth pm deps (0, []))
             | None => []
             end
  | Err _ => []
  end.

Definition merge_err (e : Z) : Prop := In e [E_MERGE_KIND; E_MERGE_RUN; E_MERGE_LEN; E_MERGE_RANGE; E_NO_DEPS].
Definition compute_err (e : Z) : Prop := In e [E_NO_DEPS; E_RANGES; E_SUPERRUN].

Lemma merge_check_err' cs e : merge_check cs = Err e -> merge_err e.
Proof.
  unfold merge_err. destruct cs as [|c0 rest]; cbn [merge_check]; [intros H; inversion H; cbn; tauto|].
  destruct rest as [|c1 rest]; [discriminate|].
  destruct (negb _); [intros H; inversion H; cbn; tauto|].
  destruct (negb _); [intros H; inversion H; cbn; tauto|].
  destruct (negb _); [intros H; inversion H; cbn; tauto|].
  destruct (negb _); [intros H; inversion H; cbn; tauto|discriminate].
Qed.

Lemma merge_all_err' ss inps : forall ks e, merge_all ks ss inps = Err e -> merge_err e.
Proof.
  induction ks as [|k ks IH]; intros e H; cbn [merge_all] in H; [discriminate|].
  destruct (merge_check (group_of k ss inps)) as [m|e1] eqn:E1; cbn [res_bind] in H.
  - destruct (merge_all ks ss inps) as [ms|e2] eqn:E2; cbn [res_bind] in H; [discriminate|].
    inversion H; subst. apply IH. reflexivity.
  - inversion H; subst. eapply merge_check_err', E1.
Qed.

Lemma compute_check_err' sw ms e : compute_check sw ms = Err e -> compute_err e.
Proof.
  unfold compute_err. destruct ms as [|[[s0 e0] r0] rest]; cbn [compute_check]; [intros H; inversion H; cbn; tauto|].
  destruct (forallb _ rest).
  - destruct (forallb _ rest); [discriminate|intros H; inversion H; cbn; tauto].
  - destruct (sw <=? SAVEWHEN_EXPLICIT); intros H; inversion H; cbn; tauto.
Qed.

Section Run.
Variable run : option Z.

(* a round that ends in the too-many-passes error started from a boundary whose staircase does not
   settle within the pass limit *)
Lemma round_body_passes sw pm E ss specs dones :
  slots_inv run E specs dones ss -> (pm < length ss)%nat ->
  round_body sw pm ss = Err E_TOO_MANY_PASSES ->
  ~ exists y', stair_ok (map dR specs) max_passes (cend (sbuf (nth pm ss dummy_slot))) y'.
Proof.
  intros HI Hpm Hr [y' HS]. unfold round_body in Hr.
  set (tce := cend (sbuf (nth pm ss dummy_slot))) in *.
  destruct (nth_error ss pm) as [spm|] eqn:Epm; [|apply nth_error_None in Epm; lia].
  assert (Hnth : nth pm ss dummy_slot = spm) by (apply nth_error_nth; exact Epm).
  destruct (slots_inv_nth _ _ _ _ _ HI pm spm Epm) as (d & dn & _ & _ & Hs & Hst & _).
  assert (HE : E <= tce).
  { unfold tce. rewrite Hnth. destruct (si_wf _ _ _ _ _ _ Hs) as (_ & Hse & _). lia. }
  pose proof (gather_spec run E tce pm ss specs dones 0%nat HI HE) as HG.
  assert (Hpmc : forall j s, nth_error ss j = Some s -> (0 + j)%nat = pm -> cend (sbuf s) = tce).
  { intros j s Hj Hij. cbn in Hij. subst j. unfold tce. rewrite Hnth. congruence. }
  specialize (HG Hpmc).
  destruct (gather ss 0 pm tce) as [[inps ss1]|e]; cbn [res_bind fst snd] in Hr.
  2:{ destruct HG as [-> _]. discriminate. }
  destruct HG as [HP _].
  assert (Hne : inps <> []).
  { pose proof (pends_inv_length _ _ _ _ _ _ _ HP) as (L0 & _ & L).
    pose proof (slots_inv_length _ _ _ _ _ HI) as (L1 & _).
    destruct inps; [cbn in L; lia|discriminate]. }
  destruct (retrim_ok_of_stair run E max_passes tce y' inps ss1 specs dones HS HP HE Hne) as (i2 & s2 & y2 & Er & _).
  rewrite Er in Hr. cbn [res_bind fst snd] in Hr.
  destruct (merge_all (distinct_kinds (map skind ss) []) ss i2) as [ms|e] eqn:Em; cbn [res_bind] in Hr.
  2:{ inversion Hr; subst. apply merge_all_err' in Em. unfold merge_err in Em. cbn in Em.
      repeat (destruct Em as [Em|Em]; [discriminate|]). exact Em. }
  destruct (compute_check sw ms) as [[s e]|er] eqn:Ec; cbn [res_bind fst snd] in Hr; [discriminate|].
  inversion Hr; subst. apply compute_check_err' in Ec. unfold compute_err in Ec. cbn in Ec.
  repeat (destruct Ec as [Ec|Ec]; [discriminate|]). exact Ec.
Qed.

(* the pacemaker's buffer always ends where one of its source chunks ends *)
Definition pm_inv (pmchunks : list chunk) (pm : nat) (ss : list slot) : Prop :=
  exists s, nth_error ss pm = Some s /\ In (cend (sbuf s)) (map cend pmchunks) /\ incl (siter s) pmchunks.

Lemma nth_error_set_nth {A} n (x : A) l : (n < length l)%nat -> nth_error (set_nth n x l) n = Some x.
Proof. revert n; induction l as [|y l IH]; intros [|n] H; cbn in *; try lia; auto. apply IH. lia. Qed.

Lemma fetch_pm_pm_inv pmchunks E pm ss specs dones ss' :
  slots_inv run E specs dones ss -> (pm < length ss)%nat -> pm_inv pmchunks pm ss ->
  fetch_pm pm ss = Ok (Some ss') -> pm_inv pmchunks pm ss'.
Proof.
  intros HI Hpm (s & Es & Hin & Hincl) Hf. unfold fetch_pm in Hf.
  rewrite (nth_error_nth _ _ dummy_slot Es) in Hf.
  destruct (slots_inv_nth _ _ _ _ _ HI pm s Es) as (d & dn & _ & _ & Hs & _).
  destruct s as [k buf it]. cbn [sbuf siter skind] in *.
  destruct it as [|c it]; [discriminate|].
  destruct (fetch_step _ _ _ _ _ _ _ _ _ Hs) as (b' & Ec & _ & _ & A2 & _).
  rewrite Ec in Hf. cbn [res_bind] in Hf. inversion Hf; subst ss'.
  exists (mkslot k b' it). split; [apply nth_error_set_nth; exact Hpm|]. cbn [sbuf siter]. split.
  - rewrite A2. apply in_map. apply Hincl. left; reflexivity.
  - intros x Hx. apply Hincl. right; exact Hx.
Qed.

Lemma iter_loop_passes sw pm pmchunks : forall fuel ss specs dones E,
  slots_inv run E specs dones ss -> (pm < length ss)%nat -> pm_inv pmchunks pm ss ->
  snd (iter_loop fuel sw pm ss) = Some E_TOO_MANY_PASSES ->
  exists c, In c pmchunks /\ ~ exists y', stair_ok (map dR specs) max_passes (cend c) y'.
Proof.
  induction fuel as [|f IH]; intros ss specs dones E HI Hpm Hinv Hout; cbn [iter_loop] in Hout; [discriminate|].
  pose proof (round_body_spec run sw pm E ss specs dones HI Hpm) as HR.
  destruct (round_body sw pm ss) as [[c ss2]|e] eqn:Erb.
  2:{ cbn [snd] in Hout. inversion Hout; subst e.
      pose proof (round_body_passes sw pm E ss specs dones HI Hpm Erb) as Hdeep.
      destruct Hinv as (s & Es & Hin & _). rewrite (nth_error_nth _ _ dummy_slot Es) in Hdeep.
      apply in_map_iff in Hin as (c0 & Hc0 & Hin). exists c0. split; [exact Hin|]. rewrite Hc0. exact Hdeep. }
  destruct HR as (Hcs & Hok & HI2 & Hit & Hlen).
  assert (Hpm2 : (pm < length ss2)%nat) by lia.
  pose proof (fetch_pm_spec run _ pm ss2 specs _ HI2 Hpm2) as HF.
  assert (Hinv2 : pm_inv pmchunks pm ss2).
  { destruct Hinv as (s & Es & Hin & Hincl).
    destruct (nth_error ss2 pm) as [s2|] eqn:Es2; [|apply nth_error_None in Es2; lia].
    exists s2. split; [exact Es2|].
    rewrite (nth_error_nth _ _ dummy_slot Es2), (nth_error_nth _ _ dummy_slot Es) in Hit.
    destruct (slots_inv_nth _ _ _ _ _ HI2 pm s2 Es2) as (d & dn & Hd & _ & Hs2 & _).
    split; [|rewrite Hit; exact Hincl].
    (* the round leaves the end of the pacemaker's buffer where it was: it is the start of the next
       unread chunk, or the end of the source *)
    destruct (slots_inv_nth _ _ _ _ _ HI pm s Es) as (d0 & dn0 & Hd0 & _ & Hs0 & _).
    rewrite Hd0 in Hd. inversion Hd; subst d0.
    pose proof (si_chain _ _ _ _ _ _ Hs0) as C0. pose proof (si_chain _ _ _ _ _ _ Hs2) as C2.
    rewrite Hit in C2.
    assert (Heq : cend (sbuf s2) = cend (sbuf s)).
    { destruct (siter s) as [|x r]; cbn in C0, C2; [congruence|].
      destruct C0 as [C0 _]; destruct C2 as [C2 _]; congruence. }
    rewrite Heq. exact Hin. }
  destruct (fetch_pm pm ss2) as [[ss3|]|e] eqn:Ef; [| |destruct HF].
  - destruct HF as (HI3 & Hlen3 & _). cbn [snd] in Hout.
    apply (IH ss3 specs _ (call_end c) HI3); [lia| |exact Hout].
    apply (fetch_pm_pm_inv pmchunks (call_end c) pm ss2 specs _ ss3 HI2 Hpm2 Hinv2 Ef).
  - cbn [snd] in Hout. unfold epilogue in Hout.
    destruct (drain_spec run _ ss2 specs _ HI2) as [[Hd _]|Hd]; rewrite Hd in Hout; [|discriminate].
    destruct (leftover_check_spec sw ss2) as [Hl|Hl]; rewrite Hl in Hout; discriminate.
Qed.

Lemma map_nth_error_eq {A B} (f : A -> B) l n d : (n < length l)%nat -> nth n (map f l) (f d) = f (nth n l d).
Proof. intros _. apply map_nth. Qed.

(* T4, stated precisely: iter raises "unable to get time-consistent inputs" only if, at some chunk
   boundary of the pacemaker, the staircase of mutually straddling rows does not settle within the
   pass limit *)
Theorem iter_too_many_passes_only_if_deep sw a deps specs :
  deps <> [] -> Forall2 (dep_ok run a) deps specs ->
  snd (plugin_iter sw deps) = Some E_TOO_MANY_PASSES ->
  exists c, In c (pacemaker_chunks deps) /\
            ~ exists y', stair_ok (map (fun d => srows (snd d)) deps) max_passes (cend c) y'.
Proof.
  intros Hne HD Hout. unfold plugin_iter, pacemaker_chunks in *.
  destruct (init_slots_spec run a deps specs HD) as (ss & Ei & HI & Hm). rewrite Ei in *.
  pose proof (choose_pm_spec ss 0 None) as HC.
  destruct (choose_pm ss 0 None) as [[pm e]|]; [|discriminate].
  assert (Hpm : (pm < length ss)%nat) by (apply HC; intros p e0 H0; discriminate).
  assert (HRs : map dR specs = map (fun d => srows (snd d)) deps).
  { clear - HD. induction HD as [|d sp deps specs (_ & _ & _ & HR & _) _ IH]; cbn; [reflexivity|]. congruence. }
  rewrite <- HRs.
  eapply (iter_loop_passes sw pm _ _ ss specs _ a HI Hpm); [|exact Hout].
  destruct (nth_error ss pm) as [s|] eqn:Es; [|apply nth_error_None in Es; lia].
  exists s. split; [exact Es|].
  assert (Hsn : snd (nth pm deps (0, [])) = sbuf s :: siter s).
  { assert (Hn : nth_error (map snd deps) pm = Some (sbuf s :: siter s)).
    { rewrite <- Hm, nth_error_map, Es. reflexivity. }
    rewrite nth_error_map in Hn. destruct (nth_error deps pm) as [d|] eqn:Ed; [|discriminate].
    cbn in Hn. inversion Hn. rewrite (nth_error_nth _ _ (0, []) Ed). reflexivity. }
  rewrite Hsn. split; [left; reflexivity|]. intros x Hx. right; exact Hx.
Qed.
End Run.
