(* C01 -- chunking independence of the chunk-stream semantics of plugin graphs (Model/Network.v). *)
From SV Require Import Model.Rows Model.SplitArray Model.Chunk Model.Rechunker Model.Network
     Proof.RowsFacts Proof.SplitArrayProof Proof.ChunkProof Proof.ConcatProof Proof.RechunkerProof.

(* ---------------------------------------------------------------------------------------------- *)
(* streams that tile a run                                                                          *)
(* ---------------------------------------------------------------------------------------------- *)

(* no row starts on the exclusive end of the chunk that carries it: the only rows this excludes are zero-length
   rows [x, x) stored in a chunk ending at x.  Chunk.__init__ accepts those, but Chunk.split (t == end: everything
   left) and split_array (time >= t: right) disagree about the side they belong to -- see design_notes/C01.md,
   finding F1: on such chunkings strax itself is chunking dependent. *)
Definition tight (c : chunk) : Prop := Forall (fun r => rt r < cend c) (crows c).

(* cs is a well-formed contiguous chunking of the rows R over [a, b) *)
Definition tiles (R : list row) (a b : Z) (cs : stream) : Prop :=
  cs <> [] /\ Forall wf cs /\ Forall tight cs /\ chain a cs b /\ flat_map crows cs = R.

(* all chunks of one data type of one run *)
Definition uniform (dt : Z) (run : option Z) (cs : stream) : Prop :=
  Forall (fun c => cdtype c = dt /\ crun c = run) cs.

(* no chunk before the last one ends at the end of the run, i.e. no zero-duration chunk is kept back at the end:
   Plugin.iter with several dependencies raises "terminated without fetching last" on such streams (C08,
   C08_iter_total_without_trailing_hyp_refuted) *)
Definition ends_nt (b : Z) (ends : list Z) : Prop := Forall (fun e => e < b) (removelast ends).
Definition no_trailing (b : Z) (cs : stream) : Prop := ends_nt b (map cend cs).

Definition chunking_of (dt : Z) (run : option Z) (R : list row) (a b : Z) (cs : stream) : Prop :=
  tiles R a b cs /\ uniform dt run cs /\ no_trailing b cs.

(* the same without the condition on the end of the run (what the overlap-window kind delivers, C09) *)
Definition chunking_core (dt : Z) (run : option Z) (R : list row) (a b : Z) (cs : stream) : Prop :=
  tiles R a b cs /\ uniform dt run cs.

Lemma chunking_of_core dt run R a b cs :
  chunking_of dt run R a b cs <-> chunking_core dt run R a b cs /\ no_trailing b cs.
Proof. unfold chunking_of, chunking_core. tauto. Qed.

Definition same_data (c c' : chunk) : Prop :=
  cstart c' = cstart c /\ cend c' = cend c /\ crows c' = crows c.

Lemma chain_le s cs e : Forall wf cs -> chain s cs e -> s <= e.
Proof.
  revert s; induction cs as [|c cs IH]; intros s W H; cbn in H; [lia|].
  destruct H as [H1 H2]. inversion W as [|? ? Wc Wcs]; subst.
  specialize (IH _ Wcs H2). destruct Wc as (_ & Hse & _). lia.
Qed.

Lemma chunk_eta c : mkchunk (cstart c) (cend c) (crows c) (cdtype c) (ckind c) (crun c) (ctarget c) = c.
Proof. destruct c; reflexivity. Qed.

(* splitting a well-formed chunk at its own end: everything left, an empty zero-duration rest *)
Lemma chunk_split_at_end c early :
  wf c ->
  chunk_split c (cend c) early =
  Ok (c, mkchunk (cend c) (cend c) [] (cdtype c) (ckind c) (crun c) (ctarget c)).
Proof.
  intros (H0 & Hse & Hs & HF). unfold chunk_split.
  replace (Z.max (Z.min (cend c) (cend c)) (cstart c)) with (cend c) by lia.
  rewrite Z.eqb_refl. cbn [res_bind].
  replace (Z.max (cstart c) (cend c)) with (cend c) by lia.
  replace (Z.max (cend c) (cend c)) with (cend c) by lia.
  assert (E1 : mk_chunk (cstart c) (cend c) (crows c) (cdtype c) (ckind c) (crun c) (ctarget c) = Ok c).
  { rewrite mk_chunk_ok; [rewrite chunk_eta; reflexivity|lia|lia|].
    eapply Forall_impl; [|exact HF]. cbn; intros; lia. }
  assert (E2 : mk_chunk (cend c) (cend c) [] (cdtype c) (ckind c) (crun c) (ctarget c) =
               Ok (mkchunk (cend c) (cend c) [] (cdtype c) (ckind c) (crun c) (ctarget c))).
  { apply mk_chunk_ok; [lia|lia|constructor]. }
  rewrite E1. cbn [res_bind]. rewrite E2. reflexivity.
Qed.

Definition empty_rest (dt : Z) (run : option Z) (e : Z) (rem : chunk) : Prop :=
  cstart rem = e /\ cend rem = e /\ crows rem = [] /\ cdtype rem = dt /\ crun rem = run /\ 0 <= e.

Lemma empty_rest_wf dt run e rem : empty_rest dt run e rem -> wf rem.
Proof.
  intros (A & B & C & _ & _ & D). unfold wf. rewrite A, B, C. repeat split; try lia; constructor.
Qed.

(* Plugin.iter with one dependency hands do_compute exactly the dependency's chunks, one by one *)
Lemma iter1_spec dt run : forall cs buf s e,
  Forall wf cs -> uniform dt run cs -> chain s cs e ->
  (buf = None \/ exists rem, buf = Some rem /\ empty_rest dt run s rem) ->
  exists out, iter1 buf cs = Ok out /\ Forall2 same_data cs out /\ uniform dt run out /\ Forall wf out.
Proof.
  induction cs as [|c cs IH]; intros buf s e W U Ch Hb.
  - exists []. cbn. repeat split; constructor.
  - inversion W as [|? ? Wc Wcs]; subst. inversion U as [|? ? [Uc1 Uc2] Ucs]; subst.
    cbn in Ch. destruct Ch as [Cs Ch].
    assert (Hconc : exists b, concatenate [buf; Some c] false = Ok b /\ wf b /\ same_data c b /\
                              cdtype b = cdtype c /\ crun b = crun c).
    { destruct Hb as [->|(rem & -> & Hr)].
      - exists c. split; [reflexivity|]. split; [exact Wc|]. unfold same_data. repeat split; auto.
      - pose proof (empty_rest_wf _ _ _ _ Hr) as Wr.
        destruct Hr as (R1 & R2 & R3 & R4 & R5 & R6).
        destruct (concatenate_two_correct rem c false Wr Wc) as (b & E & Wb & B1 & B2 & B3 & B4 & B5 & B6 & B7);
          try congruence; try lia.
        exists b. split; [exact E|]. split; [exact Wb|]. unfold same_data. rewrite R3 in B3. cbn in B3.
        repeat split; try congruence; try lia. }
    destruct Hconc as (b & Eb & Wb & (S1 & S2 & S3) & D1 & D2).
    cbn [iter1]. rewrite Eb. cbn [res_bind]. rewrite (chunk_split_at_end b true Wb). cbn [res_bind].
    destruct (IH (Some (mkchunk (cend b) (cend b) [] (cdtype b) (ckind b) (crun b) (ctarget b))) (cend c) e Wcs Ucs Ch)
      as (out & Eo & F2 & Uo & Wo).
    { right. eexists. split; [reflexivity|]. unfold empty_rest; cbn.
      destruct Wb as (B0 & Bse & _). repeat split; try congruence; try lia. }
    rewrite Eo. cbn [res_bind]. exists (b :: out). repeat split.
    + constructor; [unfold same_data; auto|exact F2].
    + constructor; [split; congruence|exact Uo].
    + constructor; auto.
Qed.

Lemma iter_single_spec dt run cs s e :
  cs <> [] -> Forall wf cs -> uniform dt run cs -> chain s cs e ->
  exists out, iter_single cs = Ok out /\ Forall2 same_data cs out /\ Forall wf out.
Proof.
  intros Hne W U Ch. destruct cs as [|c cs]; [congruence|].
  destruct (iter1_spec dt run (c :: cs) None s e W U Ch) as (out & E & F & _ & Wo); [left; reflexivity|].
  exists out. cbn [iter_single]. auto.
Qed.

(* ---------------------------------------------------------------------------------------------- *)
(* one dependency, one output chunk per call                                                        *)
(* ---------------------------------------------------------------------------------------------- *)

Definition within (s e : Z) (rows : list row) : Prop :=
  Forall (fun r => s <= rt r /\ rt r <= re r /\ re r <= e) rows.

(* computations that may be applied chunk by chunk: they distribute over concatenation, keep rows sorted and
   inside any range that held the input, and every output row starts where some input row starts *)
Record local_comp (h : list row -> list row) : Prop := {
  lc_nil : h [] = [];
  lc_app : forall a b, h (a ++ b) = h a ++ h b;
  lc_sorted : forall rows, sorted rows -> sorted (h rows);
  lc_within : forall s e rows, within s e rows -> within s e (h rows);
  lc_rt : forall rows q, In q (h rows) -> exists r, In r rows /\ rt q = rt r }.

Lemma lc_flat h : local_comp h -> forall (cs : list chunk), h (flat_map crows cs) = flat_map (fun c => h (crows c)) cs.
Proof.
  intros L cs. induction cs as [|c cs IH]; cbn [flat_map]; [apply (lc_nil h L)|].
  rewrite (lc_app h L), IH. reflexivity.
Qed.

Lemma out_chunk_ok m s e rows :
  0 <= s -> s <= e -> sorted rows -> within s e rows ->
  exists c, out_chunk m s e rows = Ok c /\ wf c /\ cstart c = s /\ cend c = e /\ crows c = rows /\
            cdtype c = o_dtype m /\ crun c = o_run m.
Proof.
  intros H0 Hse Hs Hw. unfold out_chunk. rewrite mk_chunk_ok; auto.
  - eexists. split; [reflexivity|]. unfold wf; cbn. repeat split; auto.
  - eapply Forall_impl; [|exact Hw]. cbn; intros; lia.
Qed.

Lemma tight_sub c o :
  tight c -> cend o = cend c -> (forall q, In q (crows o) -> exists r, In r (crows c) /\ rt q = rt r) -> tight o.
Proof.
  intros T E R. unfold tight in *. rewrite E. apply Forall_forall. intros q Hq.
  destruct (R q Hq) as (r & Hr & ->). rewrite Forall_forall in T. auto.
Qed.

(* mapping a local computation over the calls *)
Lemma map_local_tiles m h : local_comp h -> forall cs calls s e,
  Forall wf cs -> Forall tight cs -> Forall2 same_data cs calls -> chain s cs e ->
  exists out, map_res (fun c => out_chunk m (cstart c) (cend c) (h (crows c))) calls = Ok out /\
              Forall wf out /\ chain s out e /\ flat_map crows out = flat_map (fun c => h (crows c)) cs /\
              uniform (o_dtype m) (o_run m) out /\ length out = length cs /\ Forall tight out /\
              map cend out = map cend cs.
Proof.
  intros L. induction cs as [|c cs IH]; intros calls s e W TT F Ch.
  - inversion F; subst. exists []. cbn. repeat split; auto; constructor.
  - inversion F as [|? c' ? calls' (S1 & S2 & S3) F']; subst.
    inversion W as [|? ? Wc Wcs]; subst. inversion TT as [|? ? Tc Tcs]; subst.
    cbn in Ch. destruct Ch as [Cs Ch].
    pose proof Wc as (C0 & Cse & Csrt & CF).
    destruct (out_chunk_ok m (cstart c') (cend c') (h (crows c'))) as (o & Eo & Wo & O1 & O2 & O3 & O4 & O5).
    { lia. } { lia. }
    { rewrite S3. apply (lc_sorted h L). exact Csrt. }
    { rewrite S1, S2, S3. apply (lc_within h L). exact CF. }
    destruct (IH calls' (cend c) e Wcs Tcs F' Ch) as (out & Em & Wout & Cho & Ro & Uo & Lo & To & Mo).
    cbn [map_res]. rewrite Eo. cbn [res_bind]. rewrite Em. cbn [res_bind].
    exists (o :: out). split; [reflexivity|]. split; [|split; [|split; [|split; [|split; [|split]]]]].
    + constructor; auto.
    + cbn. split; [congruence|]. rewrite O2, S2. exact Cho.
    + cbn. rewrite O3, S3, Ro. reflexivity.
    + constructor; [split; auto|exact Uo].
    + cbn. congruence.
    + constructor; [|exact To]. apply (tight_sub c o Tc); [congruence|].
      intros q Hq. rewrite O3, S3 in Hq. apply (lc_rt h L _ _ Hq).
    + cbn [map]. rewrite O2, S2, Mo. reflexivity.
Qed.

Theorem run_local_core m h dt run R a b cs :
  local_comp h -> chunking_core dt run R a b cs ->
  exists out, run_local m h cs = Ok out /\ chunking_core (o_dtype m) (o_run m) (h R) a b out /\
              (no_trailing b cs -> no_trailing b out).
Proof.
  intros L ((Hne & W & TT & Ch & HR) & U).
  destruct (iter_single_spec dt run cs a b Hne W U Ch) as (calls & Ei & F & _).
  destruct (map_local_tiles m h L cs calls a b W TT F Ch) as (out & Em & Wo & Cho & Ro & Uo & Lo & To & Mo).
  exists out. unfold run_local. rewrite Ei. cbn [res_bind]. split; [exact Em|].
  split; [|unfold no_trailing; rewrite Mo; auto]. split; [|exact Uo]. split; [|split; [|split; [|split]]]; auto.
  - intros ->. destruct cs; [congruence|discriminate].
  - rewrite Ro, <- (lc_flat h L), HR. reflexivity.
Qed.

Theorem run_local_correct m h dt run R a b cs :
  local_comp h -> chunking_of dt run R a b cs ->
  exists out, run_local m h cs = Ok out /\ chunking_of (o_dtype m) (o_run m) (h R) a b out.
Proof.
  intros L HC. apply chunking_of_core in HC as [HC NT].
  destruct (run_local_core m h dt run R a b cs L HC) as (out & E & HO & HN).
  exists out. split; [exact E|]. apply chunking_of_core. auto.
Qed.

(* instances: row-wise maps that keep the interval of every row, and filters *)
Definition keeps_interval (g : row -> row) : Prop := forall r, rt (g r) = rt r /\ re (g r) = re r.

Lemma sorted_map_keeps g rows : keeps_interval g -> sorted rows -> sorted (map g rows).
Proof.
  intros K. induction rows as [|r rows IH]; cbn; [auto|]. intros [H1 H2]. split; [|auto].
  apply Forall_map. eapply Forall_impl; [|exact H1]. cbn. intros q Hq.
  destruct (K r) as [-> _]. destruct (K q) as [-> _]. exact Hq.
Qed.

Lemma local_map g : keeps_interval g -> local_comp (map g).
Proof.
  intros K. constructor.
  - reflexivity.
  - intros; apply map_app.
  - intros; apply sorted_map_keeps; auto.
  - intros s e rows Hw. apply Forall_map. eapply Forall_impl; [|exact Hw]. cbn. intros r Hr.
    destruct (K r) as [-> ->]. exact Hr.
  - intros rows q Hq. apply in_map_iff in Hq as (r & <- & Hr). exists r. split; [auto|apply K].
Qed.

Lemma sorted_filter p rows : sorted rows -> sorted (filter p rows).
Proof.
  induction rows as [|r rows IH]; cbn; [auto|]. intros [H1 H2].
  destruct (p r); cbn; [split; [|auto]|auto].
  apply Forall_forall. intros q Hq. apply filter_In in Hq as [Hq _]. rewrite Forall_forall in H1. auto.
Qed.

Lemma local_filter p : local_comp (filter p).
Proof.
  constructor.
  - reflexivity.
  - intros; apply filter_app.
  - intros; apply sorted_filter; auto.
  - intros s e rows Hw. apply Forall_forall. intros q Hq. apply filter_In in Hq as [Hq _].
    unfold within in Hw. rewrite Forall_forall in Hw. auto.
  - intros rows q Hq. apply filter_In in Hq as [Hq _]. exists q. auto.
Qed.

Lemma local_compose h1 h2 : local_comp h1 -> local_comp h2 -> local_comp (fun rows => h2 (h1 rows)).
Proof.
  intros L1 L2. constructor.
  - rewrite (lc_nil h1 L1). apply (lc_nil h2 L2).
  - intros. rewrite (lc_app h1 L1). apply (lc_app h2 L2).
  - intros. apply (lc_sorted h2 L2), (lc_sorted h1 L1). auto.
  - intros. apply (lc_within h2 L2), (lc_within h1 L1). auto.
  - intros rows q Hq. destruct (lc_rt h2 L2 _ _ Hq) as (r & Hr & ->).
    destruct (lc_rt h1 L1 _ _ Hr) as (r' & Hr' & ->). exists r'. auto.
Qed.

Lemma affine_keeps a b : keeps_interval (affine a b).
Proof. intros r. split; reflexivity. Qed.

Lemma local_h_rowwise a b : local_comp (h_rowwise a b).
Proof. apply local_map, affine_keeps. Qed.

Lemma local_h_filter a b md rem : local_comp (h_filter a b md rem).
Proof.
  unfold h_filter.
  apply (local_compose (map (affine a b)) (filter (fun r => rch r mod md =? rem)));
    [apply local_map, affine_keeps|apply local_filter].
Qed.

(* ---------------------------------------------------------------------------------------------- *)
(* exhaust: everything in one call                                                                  *)
(* ---------------------------------------------------------------------------------------------- *)

(* computations on the whole input: keep rows sorted, inside the range, and start where input rows start *)
Record whole_comp (f : list row -> list row) : Prop := {
  wc_sorted : forall rows, sorted rows -> sorted (f rows);
  wc_within : forall s e rows, within s e rows -> within s e (f rows);
  wc_rt : forall rows q, In q (f rows) -> exists r, In r rows /\ rt q = rt r }.

Lemma concat_all_spec : forall cs acc e,
  wf acc -> Forall wf cs -> uniform (cdtype acc) (crun acc) cs -> chain (cend acc) cs e ->
  exists b, concat_all (Some acc) cs = Ok (Some b) /\ wf b /\ cstart b = cstart acc /\ cend b = e /\
            crows b = crows acc ++ flat_map crows cs /\ cdtype b = cdtype acc /\ crun b = crun acc.
Proof.
  induction cs as [|c cs IH]; intros acc e Wa W U Ch.
  - cbn in Ch. exists acc. cbn. rewrite app_nil_r. split; [reflexivity|]. split; [exact Wa|]. repeat split; auto.
  - inversion W as [|? ? Wc Wcs]; subst. inversion U as [|? ? [U1 U2] Ucs]; subst.
    cbn in Ch. destruct Ch as [Cs Ch].
    destruct (concatenate_two_correct acc c false Wa Wc U1 U2) as (b & E & Wb & B1 & B2 & B3 & B4 & B5 & B6 & B7); [lia|].
    cbn [concat_all]. rewrite E. cbn [res_bind].
    destruct (IH b e Wb Wcs) as (b' & E' & Wb' & C1 & C2 & C3 & C4 & C5).
    { rewrite B4, B6. exact Ucs. }
    { rewrite B2. exact Ch. }
    exists b'. split; [exact E'|]. split; [exact Wb'|]. cbn [flat_map]. rewrite C3, B3, <- app_assoc.
    repeat split; congruence.
Qed.

Lemma tight_all_lt cs s e : Forall wf cs -> Forall tight cs -> chain s cs e ->
  Forall (fun r => rt r < e) (flat_map crows cs).
Proof.
  revert s; induction cs as [|c cs IH]; intros s W T Ch; cbn; [constructor|].
  inversion W as [|? ? Wc Wcs]; subst. inversion T as [|? ? Tc Tcs]; subst.
  cbn in Ch. destruct Ch as [Cs Ch]. apply Forall_app. split.
  - pose proof (chain_le _ _ _ Wcs Ch). eapply Forall_impl; [|exact Tc]. cbn; intros; lia.
  - apply (IH (cend c)); auto.
Qed.

Theorem run_exhaust_core m f dt run R a b cs :
  whole_comp f -> chunking_core dt run R a b cs ->
  exists out, run_exhaust m f cs = Ok out /\ chunking_of (o_dtype m) (o_run m) (f R) a b out.
Proof.
  intros Wf ((Hne & W & TT & Ch & HR) & U).
  destruct cs as [|c cs]; [congruence|].
  inversion W as [|? ? Wc Wcs]; subst. inversion U as [|? ? [U1 U2] Ucs]; subst.
  pose proof Ch as Ch0. cbn in Ch. destruct Ch as [Cs Ch].
  destruct (concat_all_spec cs c b Wc Wcs Ucs Ch) as (bb & E & Wb & B1 & B2 & B3 & B4 & B5).
  unfold run_exhaust. cbn [concat_all]. unfold concatenate at 1. cbn [somes res_bind]. rewrite E. cbn [res_bind].
  rewrite (chunk_split_at_end bb true Wb). cbn [res_bind].
  pose proof Wb as (C0 & Cse & Csrt & CF).
  destruct (out_chunk_ok m (cstart bb) (cend bb) (f (crows bb))) as (o & Eo & Wo & O1 & O2 & O3 & O4 & O5); auto.
  { apply (wc_sorted f Wf). exact Csrt. }
  { apply (wc_within f Wf). exact CF. }
  rewrite Eo. cbn [res_bind]. exists [o]. split; [reflexivity|].
  assert (HRb : crows bb = flat_map crows (c :: cs)) by (rewrite B3; reflexivity).
  split; [|split; [constructor; [split; auto|constructor]|unfold no_trailing, ends_nt; cbn; constructor]].
  split; [discriminate|]. split; [constructor; [exact Wo|constructor]|].
  split; [|split].
  - constructor; [|constructor]. unfold tight. rewrite O2, O3, B2. apply Forall_forall. intros q Hq.
    destruct (wc_rt f Wf _ _ Hq) as (r & Hr & ->). rewrite HRb in Hr.
    pose proof (tight_all_lt (c :: cs) (cstart c) b W TT) as HL.
    assert (HC : chain (cstart c) (c :: cs) b) by (cbn; auto).
    specialize (HL HC). rewrite Forall_forall in HL. auto.
  - cbn. split; congruence.
  - cbn. rewrite app_nil_r, O3, HRb. reflexivity.
Qed.

Theorem run_exhaust_correct m f dt run R a b cs :
  whole_comp f -> chunking_of dt run R a b cs ->
  exists out, run_exhaust m f cs = Ok out /\ chunking_of (o_dtype m) (o_run m) (f R) a b out.
Proof. intros Wf HC. apply chunking_of_core in HC as [HC _]. apply (run_exhaust_core m f dt run R a b cs Wf HC). Qed.

(* rows with the same intervals, one by one *)
Definition same_ivs (rows rows' : list row) : Prop :=
  Forall2 (fun r r' => rt r' = rt r /\ re r' = re r) rows rows'.

Lemma same_ivs_sorted rows rows' : same_ivs rows rows' -> sorted rows -> sorted rows'.
Proof.
  induction 1 as [|r r' rows rows' [H1 H2] F IH]; cbn; [auto|]. intros [S1 S2]. split; [|auto].
  clear IH S2. induction F as [|q q' l l' [Q1 Q2] F IH]; [constructor|].
  inversion S1; subst. constructor; [lia|auto].
Qed.

Lemma same_ivs_within s e rows rows' : same_ivs rows rows' -> within s e rows -> within s e rows'.
Proof.
  induction 1 as [|r r' rows rows' [H1 H2] F IH]; intros Hw; [constructor|].
  inversion Hw; subst. constructor; [lia|apply IH; auto].
Qed.

Lemma same_ivs_rt rows rows' q : same_ivs rows rows' -> In q rows' -> exists r, In r rows /\ rt q = rt r.
Proof.
  induction 1 as [|r r' rows rows' [H1 H2] F IH]; intros Hq; [destruct Hq|].
  destruct Hq as [<-|Hq]; [exists r; split; [left; auto|auto]|].
  destruct (IH Hq) as (x & Hx & E). exists x. split; [right; auto|auto].
Qed.

Lemma whole_of_same_ivs f : (forall rows, same_ivs rows (f rows)) -> whole_comp f.
Proof.
  intros H. constructor.
  - intros rows. apply same_ivs_sorted, H.
  - intros s e rows. apply same_ivs_within, H.
  - intros rows q. apply same_ivs_rt, H.
Qed.

Lemma exh_from_ivs a b k : forall rows i, same_ivs rows (exh_from i a b k rows).
Proof. induction rows as [|r rows IH]; intros i; cbn; constructor; [split; reflexivity|apply IH]. Qed.

Lemma whole_f_exhaust a b nmul : whole_comp (f_exhaust a b nmul).
Proof. apply whole_of_same_ivs. intros rows. apply exh_from_ivs. Qed.

(* ---------------------------------------------------------------------------------------------- *)
(* two dependencies: the alignment of Plugin.iter is a parameter                                    *)
(* ---------------------------------------------------------------------------------------------- *)

Definition rows1 (calls : calls2) : list row := flat_map (fun p => crows (fst p)) calls.
Definition rows2 (calls : calls2) : list row := flat_map (fun p => crows (snd p)) calls.

Definition call_ok (p : chunk * chunk) : Prop :=
  wf (fst p) /\ wf (snd p) /\ tight (fst p) /\ tight (snd p) /\
  cstart (snd p) = cstart (fst p) /\ cend (snd p) = cend (fst p).

(* what Plugin.iter promises about the calls it makes (property C08: every call's inputs cover one identical
   interval, successive calls are adjacent, every row of every dependency is handed over exactly once, in order) *)
Definition aligned (R1 R2 : list row) (a b : Z) (calls : calls2) : Prop :=
  calls <> [] /\ Forall call_ok calls /\ chain a (map fst calls) b /\ rows1 calls = R1 /\ rows2 calls = R2.

(* two-input computations that may be applied call by call; P is what the computation needs to know about the
   calls (equal lengths for a same-kind merge; for a loop plugin nothing beyond alignment) *)
Record pair_comp (P : calls2 -> Prop) (h : list row -> list row -> list row) : Prop := {
  pc_split : forall R1 R2 a b calls, aligned R1 R2 a b calls -> P calls ->
             h R1 R2 = flat_map (fun p => h (crows (fst p)) (crows (snd p))) calls;
  pc_sorted : forall r1 r2, sorted r1 -> sorted (h r1 r2);
  pc_within : forall s e r1 r2, within s e r1 -> within s e (h r1 r2);
  pc_rt : forall r1 r2 q, In q (h r1 r2) -> exists r, In r r1 /\ rt q = rt r }.

Definition equal_len (calls : calls2) : Prop :=
  Forall (fun p => length (crows (fst p)) = length (crows (snd p))) calls.

Definition pair_step (m : ometa) (sk : bool) (h : list row -> list row -> list row) (p : chunk * chunk) : res chunk :=
  let (c1, c2) := p in
  if sk && negb (Nat.eqb (length (crows c1)) (length (crows c2))) then Err E_MERGE_LEN
  else if negb ((cstart c1 =? cstart c2) && (cend c1 =? cend c2)) then Err E_MERGE_RANGE
  else out_chunk m (cstart c1) (cend c1) (h (crows c1) (crows c2)).

Lemma run_pair_unfold m sk h al s1 s2 :
  run_pair m sk h al s1 s2 = (do calls <- al s1 s2; map_res (pair_step m sk h) calls).
Proof. reflexivity. Qed.

Lemma map_pair_tiles m sk P h : pair_comp P h -> forall calls s e,
  Forall call_ok calls -> (sk = true -> equal_len calls) -> chain s (map fst calls) e ->
  exists out,
    map_res (pair_step m sk h) calls = Ok out /\
    Forall wf out /\ Forall tight out /\ chain s out e /\
    flat_map crows out = flat_map (fun p => h (crows (fst p)) (crows (snd p))) calls /\
    uniform (o_dtype m) (o_run m) out /\ length out = length calls /\
    map cend out = map (fun p => cend (fst p)) calls.
Proof.
  intros PC. induction calls as [|[c1 c2] calls IH]; intros s e HF HL Ch.
  - exists []. cbn. repeat split; auto; constructor.
  - inversion HF as [|? ? (W1 & W2 & T1 & T2 & E1 & E2) HF']; subst. cbn [fst snd] in *.
    cbn in Ch. destruct Ch as [Cs Ch].
    assert (HL' : sk = true -> equal_len calls).
    { intros Hk. specialize (HL Hk). inversion HL; auto. }
    destruct (IH (cend c1) e HF' HL' Ch) as (out & Em & Wout & Tout & Cho & Ro & Uo & Lo & Mo).
    pose proof W1 as (C0 & Cse & Csrt & CF).
    destruct (out_chunk_ok m (cstart c1) (cend c1) (h (crows c1) (crows c2))) as (o & Eo & Wo & O1 & O2 & O3 & O4 & O5); auto.
    { apply (pc_sorted P h PC). exact Csrt. }
    { apply (pc_within P h PC). exact CF. }
    cbn [map_res]. unfold pair_step at 1.
    assert (Hlen : sk && negb (Nat.eqb (length (crows c1)) (length (crows c2))) = false).
    { destruct sk; [|reflexivity]. specialize (HL eq_refl). inversion HL as [|? ? Hl _]; subst. cbn in Hl.
      rewrite Hl, Nat.eqb_refl. reflexivity. }
    rewrite Hlen. rewrite E1, E2, !Z.eqb_refl. cbn [andb negb]. rewrite Eo. cbn [res_bind].
    rewrite Em. cbn [res_bind].
    exists (o :: out). split; [reflexivity|]. split; [|split; [|split; [|split; [|split; [|split]]]]].
    + constructor; auto.
    + constructor; [|exact Tout]. apply (tight_sub c1 o T1 O2).
      intros q Hq. rewrite O3 in Hq. apply (pc_rt P h PC _ _ _ Hq).
    + cbn. split; [congruence|]. rewrite O2. exact Cho.
    + cbn. rewrite O3, Ro. reflexivity.
    + constructor; [split; auto|exact Uo].
    + cbn. congruence.
    + cbn [map fst]. rewrite O2, Mo. reflexivity.
Qed.

(* ---------------------------------------------------------------------------------------------- *)
(* same-kind merge instance                                                                          *)
(* ---------------------------------------------------------------------------------------------- *)

Lemma map2_app {A B C} (f : A -> B -> C) a1 a2 b1 b2 :
  length a1 = length b1 -> map2 f (a1 ++ a2) (b1 ++ b2) = map2 f a1 b1 ++ map2 f a2 b2.
Proof.
  revert b1; induction a1 as [|x a1 IH]; intros [|y b1] H; cbn in *; try discriminate; [reflexivity|].
  f_equal. apply IH. lia.
Qed.

Lemma map2_split {C} (f : row -> row -> C) (calls : calls2) :
  equal_len calls -> map2 f (rows1 calls) (rows2 calls) = flat_map (fun p => map2 f (crows (fst p)) (crows (snd p))) calls.
Proof.
  unfold rows1, rows2. induction 1 as [|p calls Hl _ IH]; cbn; [reflexivity|]. rewrite map2_app, IH; auto.
Qed.

Lemma map2_ivs (f : row -> row -> row) : (forall r1 r2, rt (f r1 r2) = rt r1 /\ re (f r1 r2) = re r1) ->
  forall r1 r2, exists pre, same_ivs pre (map2 f r1 r2) /\ exists post, r1 = pre ++ post.
Proof.
  intros K. induction r1 as [|x r1 IH]; intros r2.
  - exists []. split; [constructor|exists []; reflexivity].
  - destruct r2 as [|y r2]; cbn.
    + exists []. split; [constructor|exists (x :: r1); reflexivity].
    + destruct (IH r2) as (pre & Hs & post & ->). exists (x :: pre). split.
      * constructor; [apply K|exact Hs].
      * exists post. reflexivity.
Qed.

Lemma sorted_prefix pre post : sorted (pre ++ post) -> sorted pre.
Proof. intros H. apply sorted_app in H. tauto. Qed.

Lemma pair_of_prefix (P : calls2 -> Prop) (h : list row -> list row -> list row) :
  (forall R1 R2 a b calls, aligned R1 R2 a b calls -> P calls ->
     h R1 R2 = flat_map (fun p => h (crows (fst p)) (crows (snd p))) calls) ->
  (forall r1 r2, exists pre, same_ivs pre (h r1 r2) /\ exists post, r1 = pre ++ post) ->
  pair_comp P h.
Proof.
  intros Hs Hp. constructor.
  - exact Hs.
  - intros r1 r2 S. destruct (Hp r1 r2) as (pre & Hi & post & ->).
    apply (same_ivs_sorted pre); [exact Hi|]. apply (sorted_prefix pre post S).
  - intros s e r1 r2 W. destruct (Hp r1 r2) as (pre & Hi & post & ->).
    apply (same_ivs_within s e pre); [exact Hi|]. unfold within in *. apply Forall_app in W. tauto.
  - intros r1 r2 q Hq. destruct (Hp r1 r2) as (pre & Hi & post & ->).
    destruct (same_ivs_rt pre _ q Hi Hq) as (r & Hr & E). exists r. split; [apply in_or_app; auto|auto].
Qed.

(* same-kind merge consumer: row by row over two inputs of equal length per call *)
Theorem pair_h_merge2 a1 a2 b : pair_comp equal_len (h_merge2 a1 a2 b).
Proof.
  apply pair_of_prefix.
  - intros R1 R2 a0 b0 calls (_ & _ & _ & <- & <-) HL. unfold h_merge2. apply map2_split. exact HL.
  - intros r1 r2. apply map2_ivs. intros; split; reflexivity.
Qed.
