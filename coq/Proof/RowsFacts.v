From SV Require Import Model.Rows.

Lemma sorted_app l1 l2 :
  sorted (l1 ++ l2) <-> sorted l1 /\ sorted l2 /\ Forall (fun a => Forall (fun b => rt a <= rt b) l2) l1.
Proof.
  induction l1 as [|a l1 IH]; cbn [sorted app].
  - split; [intros H; repeat split; auto | tauto].
  - rewrite Forall_app, IH. split.
    + intros [[H1 H2] [H3 [H4 H5]]]. repeat split; auto.
    + intros [[H1 H3] [H4 H5]]. inversion H5; subst. repeat split; auto.
Qed.

Lemma sortedb_from_sound p rs : sortedb_from p rs = true -> Forall (fun q => p <= rt q) rs /\ sorted rs.
Proof.
  revert p; induction rs as [|r rs IH]; intros p H; cbn in *; [split; auto|].
  apply andb_true_iff in H as [H1 H2]. apply Z.leb_le in H1.
  destruct (IH _ H2) as [F S]. split; [constructor; [lia|]|split; auto].
  eapply Forall_impl; [|exact F]. cbn; intros; lia.
Qed.

Lemma sortedb_sound rs : sortedb rs = true -> sorted rs.
Proof. destruct rs as [|r rs]; cbn; [auto|]. intros H. apply sortedb_from_sound in H. exact H. Qed.

Lemma sorted_sortedb_from p rs : Forall (fun q => p <= rt q) rs -> sorted rs -> sortedb_from p rs = true.
Proof.
  revert p; induction rs as [|r rs IH]; intros p F S; cbn in *; [reflexivity|].
  inversion F; subst. destruct S as [S1 S2]. apply andb_true_iff; split; [apply Z.leb_le; lia|]. apply IH; auto.
Qed.

Lemma sorted_sortedb rs : sorted rs -> sortedb rs = true.
Proof. destruct rs as [|r rs]; cbn; [auto|]. intros [S1 S2]. apply sorted_sortedb_from; auto. Qed.

Lemma Mx_nil : Mx [] = -1. Proof. reflexivity. Qed.

Lemma zmaxl_app d l1 l2 : zmaxl d (l1 ++ l2) = zmaxl (zmaxl d l1) l2.
Proof. revert d; induction l1 as [|x l1 IH]; intros d; cbn [zmaxl app]; auto. Qed.

Lemma zmaxl_max d x l : zmaxl (Z.max d x) l = Z.max x (zmaxl d l).
Proof. revert d; induction l as [|y l IH]; intros d; cbn [zmaxl]; [lia|]. rewrite <- !IH. f_equal. lia. Qed.

Lemma Mx_snoc rs d : Mx (rs ++ [d]) = Z.max (Mx rs) (re d).
Proof. unfold Mx. rewrite map_app, zmaxl_app. reflexivity. Qed.

Lemma Mx_cons d rs : Mx (d :: rs) = Z.max (re d) (Mx rs).
Proof. unfold Mx. cbn [map zmaxl]. apply zmaxl_max. Qed.

Lemma Mx_app a b : Mx (a ++ b) = Z.max (Mx a) (Mx b).
Proof.
  induction a as [|x a IH]; cbn [app].
  - rewrite Mx_nil. unfold Mx. pose proof (zmaxl_ge (-1) (map re b)). lia.
  - rewrite !Mx_cons, IH. lia.
Qed.

Lemma Mx_ge rs : -1 <= Mx rs. Proof. apply zmaxl_ge. Qed.

Lemma Mx_le_iff rs x : -1 <= x -> (Mx rs <= x <-> Forall (fun q => re q <= x) rs).
Proof.
  intros Hx. induction rs as [|r rs IH].
  - rewrite Mx_nil. split; [constructor|lia].
  - rewrite Mx_cons. split.
    + intros H. constructor; [lia|apply IH; lia].
    + intros H. inversion H; subst. apply IH in H3. lia.
Qed.

Lemma Mx_attained rs x : x < Mx rs -> -1 <= x -> exists q, In q rs /\ x < re q.
Proof.
  induction rs as [|r rs IH]; [rewrite Mx_nil; lia|].
  rewrite Mx_cons. intros H Hx.
  destruct (Z_lt_dec x (re r)) as [Hr|Hr].
  - exists r; split; [left; auto|auto].
  - destruct IH as [q [Hq1 Hq2]]; [lia|auto|]. exists q; split; [right; auto|auto].
Qed.
