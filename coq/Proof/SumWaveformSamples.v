(* sum_waveform, sample by sample: every sample of the peak's buffer is the sum over the hits the
   scan uses of that hit's contribution (Spec/SumWaveformSpec.v: hit_contrib); the area and the
   area per channel are the sums of the hits' areas inside the peak. *)
From SV Require Import Model.SumWaveform Spec.SumWaveformSpec Proof.SumWaveformProof Proof.HDRSortProof.

(* ---------- lists, index by index ---------- *)
Lemma nth_skipn_add {X} (l : list X) d : forall a i, nth i (skipn a l) d = nth (a + i) l d.
Proof.
  induction l as [|x l IH]; intros a i.
  - rewrite skipn_nil. destruct i, a; reflexivity.
  - destruct a; cbn [skipn Nat.add]; [reflexivity|]. cbn [nth]. apply IH.
Qed.

Lemma nth_firstn_z (l : list Z) : forall j k, nth k (firstn j l) 0 = if (k <? j)%nat then nth k l 0 else 0.
Proof.
  induction l as [|x l IH]; intros j k.
  - rewrite firstn_nil. destruct k; destruct (_ <? _)%nat; reflexivity.
  - destruct j; cbn [firstn]; [destruct k; reflexivity|].
    destruct k; cbn [nth]; [reflexivity|]. rewrite IH.
    change (S k <? S j)%nat with (k <? j)%nat. reflexivity.
Qed.

Lemma zslice_nth l a b i : 0 <= a ->
  nth i (zslice l a b) 0 = if (i <? Z.to_nat (b - a))%nat then nth (Z.to_nat a + i) l 0 else 0.
Proof. intros Ha. unfold zslice. rewrite nth_firstn_z, nth_skipn_add. reflexivity. Qed.

Lemma zadd_lists_nth : forall a b i,
  nth i (zadd_lists a b) 0 = nth i a 0 + (if (i <? length a)%nat then nth i b 0 else 0).
Proof.
  induction a as [|x a IH]; intros b i.
  - cbn [zadd_lists length]. destruct i; cbn; reflexivity.
  - destruct b as [|y b]; cbn [zadd_lists].
    + destruct (i <? length (x :: a))%nat; destruct i; cbn [nth]; lia.
    + destruct i; cbn [nth length]; [reflexivity|]. rewrite IH.
      change (S i <? S (length a))%nat with (i <? length a)%nat. reflexivity.
Qed.

Lemma add_range_nth l start vals k : 0 <= start -> (Z.to_nat start <= length l)%nat ->
  nth k (add_range l start vals) 0 =
  nth k l 0 + (if (Z.to_nat start <=? k)%nat && (k <? length l)%nat then nth (k - Z.to_nat start) vals 0 else 0).
Proof.
  intros Hs Hl. unfold add_range. set (s := Z.to_nat start) in *.
  assert (Lf : length (firstn s l) = s) by (rewrite firstn_length; lia).
  destruct (Nat.ltb_spec k s) as [Hk|Hk].
  - rewrite app_nth1 by lia. rewrite nth_firstn_z.
    destruct (Nat.ltb_spec k s); [|lia]. destruct (Nat.leb_spec s k); [lia|]. cbn [andb]. lia.
  - rewrite app_nth2 by lia. rewrite Lf, zadd_lists_nth, nth_skipn_add, skipn_length.
    replace (s + (k - s))%nat with k by lia.
    destruct (Nat.leb_spec s k); [|lia]. cbn [andb].
    destruct (Nat.ltb_spec (k - s) (length l - s)), (Nat.ltb_spec k (length l)); try lia; reflexivity.
Qed.

Lemma zupd_nth : forall l k a c,
  nth c (zupd l k a) 0 = nth c l 0 + (if (c =? k)%nat && (k <? length l)%nat then a else 0).
Proof.
  induction l as [|x l IH]; intros k a c.
  - cbn [zupd length]. change (k <? 0)%nat with false. rewrite Bool.andb_false_r. lia.
  - destruct k; cbn [zupd].
    + destruct c; cbn [nth]; cbn; lia.
    + destruct c; cbn [nth length]; [cbn; lia|]. rewrite IH.
      change (S c =? S k)%nat with (c =? k)%nat. change (S k <? S (length l))%nat with (k <? length l)%nat.
      reflexivity.
Qed.

Lemma zsum_map_add {X} (f g : X -> Z) l :
  zsum (map (fun x => f x + g x) l) = zsum (map f l) + zsum (map g l).
Proof. induction l as [|x l IH]; cbn [map zsum]; lia. Qed.

Lemma list_as_zget : forall (l pre : list Z),
  map (zget (pre ++ l)) (zseqn (zlen pre) (length l)) = l.
Proof.
  induction l as [|x r IH]; intros pre; cbn [zseqn length map]; [reflexivity|]. f_equal.
  - unfold zget, zlen. rewrite Nat2Z.id. apply nth_middle.
  - specialize (IH (pre ++ [x])). rewrite <- app_assoc in IH. cbn [app] in IH.
    replace (zlen (pre ++ [x])) with (zlen pre + 1) in IH; [exact IH|].
    unfold zlen. rewrite app_length. cbn [length]. lia.
Qed.

Lemma zsum_as_zget (l : list Z) : zsum l = zsum (map (zget l) (zseqn 0 (length l))).
Proof.
  pose proof (list_as_zget l []) as E. cbn [app] in E. change (zlen (@nil Z)) with 0 in E. now rewrite E.
Qed.

(* ---------- overlap_indices, index by index ---------- *)
Lemma overlap_indices_sem a1 na b1 nb a_s a_e b_s b_e :
  overlap_indices a1 na b1 nb = Ok ((a_s, a_e), (b_s, b_e)) ->
  forall k, (b_s <= k < b_e <-> 0 <= k < nb /\ 0 <= k - (a1 - b1) < na) /\
            (b_s <= k < b_e -> a_s + (k - b_s) = k - (a1 - b1)).
Proof.
  unfold overlap_indices.
  destruct ((na <? 0) || (nb <? 0)) eqn:E1; [discriminate|].
  destruct ((na =? 0) || (nb =? 0)) eqn:E2; [intros H; injection H as <- <- <- <-; intros k; lia|].
  destruct (a1 - b1 <=? - na) eqn:E3; [intros H; injection H as <- <- <- <-; intros k; lia|].
  destruct (Z.max 0 (a1 - b1) >=? Z.min nb (a1 - b1 + na)) eqn:E4;
    [intros H; injection H as <- <- <- <-; intros k; lia|].
  intros H; injection H as <- <- <- <-. intros k. lia.
Qed.

Lemma nth_map_mul g l : forall i, nth i (map (fun v => v * g) l) 0 = nth i l 0 * g.
Proof. induction l as [|x l IH]; intros [|i]; cbn [map nth]; auto. Qed.

(* one hit added to the buffer, at sample k; j = the sample of the hit that k is *)
Lemma add_hit_sample (buf hw3 : list Z) g hs_ he_ ps_ pe_ p_len k j hlen :
  length buf = Z.to_nat p_len -> 0 <= hs_ <= he_ -> 0 <= ps_ <= pe_ -> pe_ <= p_len ->
  he_ - hs_ = pe_ - ps_ ->
  (ps_ <= k < pe_ <-> 0 <= k < p_len /\ 0 <= j < hlen) -> (ps_ <= k < pe_ -> hs_ + (k - ps_) = j) ->
  0 <= k < p_len ->
  zget (add_range buf ps_ (map (fun v => v * g) (zslice hw3 hs_ he_))) k =
  zget buf k + (if (0 <=? j) && (j <? hlen) then zget hw3 j * g else 0).
Proof.
  intros Hb O1 O3 O4 O5 Oiff Oidx Hk. unfold zget. rewrite add_range_nth by lia. f_equal.
  rewrite nth_map_mul, zslice_nth by lia.
  destruct (Z_lt_ge_dec k pe_) as [Hlt|Hge]; [destruct (Z_le_gt_dec ps_ k) as [Hle|Hgt]|].
  - assert (Hin : ps_ <= k < pe_) by lia. specialize (Oidx Hin). destruct (proj1 Oiff Hin) as [_ Hj].
    assert (E1 : ((Z.to_nat ps_ <=? Z.to_nat k)%nat && (Z.to_nat k <? length buf)%nat) = true).
    { apply andb_true_intro. split; [apply Nat.leb_le|apply Nat.ltb_lt]; lia. }
    assert (E2 : (Z.to_nat k - Z.to_nat ps_ <? Z.to_nat (he_ - hs_))%nat = true) by (apply Nat.ltb_lt; lia).
    assert (E3 : ((0 <=? j) && (j <? hlen)) = true) by lia.
    rewrite E1, E2, E3. do 2 f_equal. lia.
  - assert (Hout : ~ ps_ <= k < pe_) by lia.
    assert (E1 : ((Z.to_nat ps_ <=? Z.to_nat k)%nat && (Z.to_nat k <? length buf)%nat) = false).
    { apply Bool.andb_false_intro1. apply Nat.leb_gt. lia. }
    assert (E3 : ((0 <=? j) && (j <? hlen)) = false).
    { destruct ((0 <=? j) && (j <? hlen)) eqn:E; [|reflexivity]. exfalso. apply Hout, Oiff. lia. }
    rewrite E1, E3. reflexivity.
  - assert (Hout : ~ ps_ <= k < pe_) by lia.
    assert (E2 : (Z.to_nat k - Z.to_nat ps_ <? Z.to_nat (he_ - hs_))%nat = false) by (apply Nat.ltb_ge; lia).
    assert (E3 : ((0 <=? j) && (j <? hlen)) = false).
    { destruct ((0 <=? j) && (j <? hlen)) eqn:E; [|reflexivity]. exfalso. apply Hout, Oiff. lia. }
    rewrite E2, E3. match goal with |- (if ?b then _ else _) = _ => destruct b end; reflexivity.
Qed.

(* ---------- the scan ---------- *)
Section Samples.
Variable gains : list Z.
Variable recs : list swrec.
Variable prev_i next_i : list Z.
Variable nsr dt : Z.
Variable lmax : nat.

Local Notation contrib := (hit_contrib gains dt).
Local Notation wave := (hit_wave recs prev_i next_i nsr lmax).
Local Notation used := (sw_used dt).

Definition sum_contrib (p_t : Z) (hw : list (swhit * list Z)) (k : Z) : Z :=
  zsum (map (fun x => contrib p_t (fst x) (snd x) k) hw).
Definition sum_area (p_t p_len : Z) (hw : list (swhit * list Z)) : Z :=
  zsum (map (fun x => hit_area_in gains dt p_t p_len (fst x) (snd x)) hw).
Definition sum_area_ch (p_t p_len : Z) (c : nat) (hw : list (swhit * list Z)) : Z :=
  zsum (map (fun x => if (c =? Z.to_nat (sh_ch (fst x)))%nat
                      then hit_area_in gains dt p_t p_len (fst x) (snd x) else 0) hw).

Theorem sw_scan_samples p_t p_len p_dt nch : 0 <= p_len ->
  forall hs buf area apc buf' area' apc',
    Forall (fun h => 0 <= sh_ch h < Z.of_nat nch) hs ->
    length buf = Z.to_nat p_len -> length apc = nch ->
    sw_scan gains recs prev_i next_i nsr dt lmax p_t p_len p_dt hs buf area apc = Ok (buf', area', apc') ->
    exists ws, Forall2 (fun h w => wave h = Ok w) (used p_t p_len hs) ws /\
      let hw := combine (used p_t p_len hs) ws in
      (forall k, 0 <= k < p_len -> zget buf' k = zget buf k + sum_contrib p_t hw k) /\
      area' = area + sum_area p_t p_len hw /\
      (forall c, nth c apc' 0 = nth c apc 0 + sum_area_ch p_t p_len c hw).
Proof.
  intros Hpl. induction hs as [|h r IH]; intros buf area apc buf' area' apc' Hch Hb Ha Hrun.
  - cbn [sw_scan] in Hrun. injection Hrun as <- <- <-. exists []. cbn [sw_used combine].
    split; [constructor|]. cbv zeta. unfold sum_contrib, sum_area, sum_area_ch. cbn [map zsum].
    repeat split; intros; lia.
  - apply Forall_cons_iff in Hch as [Hc Hch']. cbn [sw_scan] in Hrun. cbn [sw_used].
    destruct (negb (p_dt =? sh_dt h)); [discriminate|].
    destruct ((p_t - sh_t h) / dt <=? - p_len).
    { injection Hrun as <- <- <-. exists []. cbn [combine]. split; [constructor|]. cbv zeta.
      unfold sum_contrib, sum_area, sum_area_ch. cbn [map zsum]. repeat split; intros; lia. }
    destruct (sh_len h <=? (p_t - sh_t h) / dt); [eapply IH; eauto|].
    destruct (overlap_indices (sh_t h / dt) (sh_len h) (p_t / dt) p_len) as [[[hs_ he_] [ps_ pe_]]|e] eqn:Eov;
      cbn [res_bind] in Hrun; [|discriminate].
    destruct (overlap_indices_ok _ _ _ _ _ _ _ _ Eov) as (O1 & O2 & O3 & O4 & O5).
    pose proof (overlap_indices_sem _ _ _ _ _ _ _ _ Eov) as Osem.
    assert (Hw : exists hw3, wave h = Ok hw3 /\
              sw_scan gains recs prev_i next_i nsr dt lmax p_t p_len p_dt r
                (add_range buf ps_ (map (fun v => v * zget gains (sh_ch h)) (zslice hw3 hs_ he_)))
                (area + zsum (map (fun v => v * zget gains (sh_ch h)) (zslice hw3 hs_ he_)))
                (zupd apc (Z.to_nat (sh_ch h)) (zsum (map (fun v => v * zget gains (sh_ch h)) (zslice hw3 hs_ he_))))
              = Ok (buf', area', apc')).
    { unfold hit_wave. cbv zeta.
      destruct (build_hit_waveform h (recn recs (sh_rec h)) (repeat 0 lmax)) as [hw1|e]; cbn [res_bind] in *; [|discriminate].
      match type of Hrun with context [res_bind ?X _] => destruct X as [hw2|e] end; cbn [res_bind] in *; [|discriminate].
      match type of Hrun with context [res_bind ?X _] => destruct X as [hw3|e] end; cbn [res_bind] in *; [|discriminate].
      exists hw3. split; [reflexivity|exact Hrun]. }
    destruct Hw as (hw3 & Hwave & Hrun').
    set (g := zget gains (sh_ch h)) in *.
    set (hit_data := map (fun v => v * g) (zslice hw3 hs_ he_)) in *.
    assert (Hlen : (length hit_data <= Z.to_nat (he_ - hs_))%nat).
    { unfold hit_data. rewrite map_length. apply zslice_length. }
    destruct (add_range_sum buf ps_ hit_data ltac:(lia) ltac:(lia)) as [S1 S2].
    (* the buffer, sample by sample *)
    assert (Hstep : forall k, 0 <= k < p_len ->
              zget (add_range buf ps_ hit_data) k = zget buf k + contrib p_t h hw3 k).
    { intros k Hk. destruct (Osem k) as [Oiff Oidx].
      apply (add_hit_sample buf hw3 g hs_ he_ ps_ pe_ p_len k _ (sh_len h)); assumption. }
    (* the hit's area *)
    assert (Harea : zsum hit_data = hit_area_in gains dt p_t p_len h hw3).
    { unfold hit_area_in. pose proof (zsum_as_zget (add_range buf ps_ hit_data)) as E1.
      pose proof (zsum_as_zget buf) as E2. rewrite S2, Hb in E1. rewrite Hb in E2.
      assert (E3 : map (zget (add_range buf ps_ hit_data)) (zseqn 0 (Z.to_nat p_len)) =
                   map (fun k => zget buf k + contrib p_t h hw3 k) (zseqn 0 (Z.to_nat p_len))).
      { apply map_ext_in. intros k Hk. apply zseqn_In in Hk. apply Hstep. lia. }
      rewrite E3, zsum_map_add in E1. lia. }
    assert (L1 : length (add_range buf ps_ hit_data) = Z.to_nat p_len) by lia.
    destruct (zupd_sum apc (Z.to_nat (sh_ch h)) (zsum hit_data) ltac:(lia)) as [_ U2].
    assert (L2 : length (zupd apc (Z.to_nat (sh_ch h)) (zsum hit_data)) = nch) by lia.
    destruct (IH _ _ _ _ _ _ Hch' L1 L2 Hrun') as (ws & Hws & Hbuf & Har & Hapc).
    exists (hw3 :: ws). split; [constructor; assumption|]. cbn [combine]. cbv zeta in *.
    unfold sum_contrib, sum_area, sum_area_ch in *. cbn [map zsum fst snd].
    split; [|split].
    + intros k Hk. rewrite Hbuf, Hstep by lia. ring.
    + rewrite Har, Harea. ring.
    + intros c. rewrite Hapc, zupd_nth, Harea.
      assert (E : (Z.to_nat (sh_ch h) <? length apc)%nat = true) by (apply Nat.ltb_lt; clear - Hc Ha; lia).
      rewrite E, Bool.andb_true_r. ring.
Qed.
End Samples.
