(* The shutdown half of C06, for EVERY network (any plugin graph) and every schedule: once the caller's
   iterator has seen an exception (ThreadedMailboxProcessor.iter: kill every mailbox, join every thread,
   re-raise), nothing can hang: every maximal run ends with all threads finished and the caller holding exactly
   that exception.  Rests on the no-lost-wake-up invariant (Proof/MailboxFailWake.v): with all mailboxes killed
   every waiting thread has been woken. *)
From SV Require Import Base.Prelude Model.Mailbox Proof.MailboxFacts Model.MailboxFail Proof.MailboxFailFacts
  Proof.MailboxFailWake Proof.MailboxFailStruct Model.C06Run Spec.MailboxFailSpec.
Local Open Scope nat_scope.

(* ---------- a step of thread tid leaves the program counters of the other threads alone ---------- *)
Definition pcs_except (tid : nat) (st st' : nstate) : Prop :=
  forall i, i <> tid -> option_map t_pc (nth_error (ths st') i) = option_map t_pc (nth_error (ths st) i).

Lemma pe_refl tid st : pcs_except tid st st. Proof. intros i _. reflexivity. Qed.
Lemma pe_trans tid a b c : pcs_except tid a b -> pcs_except tid b c -> pcs_except tid a c.
Proof. intros H1 H2 i Hi. rewrite (H2 i Hi). apply H1. auto. Qed.
Lemma pe_set_th tid st t : pcs_except tid st (set_th st tid t).
Proof. intros i Hi. rewrite nth_error_set_th_neq by auto. reflexivity. Qed.
Lemma pe_set_mb tid st j m : pcs_except tid st (set_mb st j m).
Proof. intros i _. reflexivity. Qed.
Lemma pe_wake tid f j st : pcs_except tid st (wake f j st).
Proof.
  intros i _. rewrite nth_error_wake. destruct (nth_error (ths st) i); cbn; auto. rewrite wk_pc. reflexivity.
Qed.
Lemma pe_maybe_wake_gate tid j st : pcs_except tid st (maybe_wake_gate j st).
Proof. unfold maybe_wake_gate. destruct (_ && _); auto using pe_refl, pe_wake. Qed.
Lemma pe_kill_mb tid st j c : pcs_except tid st (kill_mb st j c).
Proof.
  unfold kill_mb. cbn [mb_killed set_fkilled]. destruct (mb_killed (get_mb st j)); [apply pe_set_mb|].
  eapply pe_trans; [|apply pe_wake]. eapply pe_trans; [|apply pe_wake]. eapply pe_trans; [|apply pe_wake].
  apply pe_set_mb.
Qed.

Section PE.
Variable nt : net.
Variable tid : nat.

Lemma pe_read_region resume st t : pcs_except tid st (read_region nt tid resume st t).
Proof.
  unfold read_region. destruct (has_msg _ _ || mb_killed _).
  - destruct (mb_killed _).
    + eapply pe_trans; [apply pe_set_mb | apply pe_set_th].
    + destruct (take_from _ _ _) as [[ms n'] last].
      eapply pe_trans; [|apply pe_set_th]. eapply pe_trans; [|apply pe_wake].
      eapply pe_trans; [|apply pe_maybe_wake_gate]. apply pe_set_mb.
  - destruct resume; [apply pe_set_th|].
    eapply pe_trans; [|apply pe_set_th]. eapply pe_trans; [|apply pe_maybe_wake_gate]. apply pe_set_mb.
Qed.
Lemma pe_after_send st t oi mg closing : pcs_except tid st (after_send nt tid st t oi mg closing).
Proof.
  unfold after_send. eapply pe_trans; [|apply pe_set_th]. destruct closing; [apply pe_set_mb | apply pe_refl].
Qed.
Lemma pe_do_push st t oi mg closing : pcs_except tid st (do_push nt tid st t oi mg closing).
Proof.
  unfold do_push. eapply pe_trans; [|apply pe_after_send]. eapply pe_trans; [|apply pe_wake]. apply pe_set_mb.
Qed.
Lemma pe_send_region resume st t oi mg closing : pcs_except tid st (send_region nt tid resume st t oi mg closing).
Proof.
  unfold send_region. destruct resume.
  - destruct (mb_can_write _); [|apply pe_set_th].
    destruct (mb_killed _); [destruct (mb_fkilled _); auto using pe_set_th, pe_after_send | apply pe_do_push].
  - destruct (mb_closed _); [apply pe_set_th|]. destruct (mb_fkilled _); [apply pe_set_th|].
    destruct (mb_killed _); [apply pe_after_send|].
    destruct (mb_can_write _); [apply pe_do_push | apply pe_set_th].
Qed.
Lemma pe_gate_region resume st t oi : pcs_except tid st (gate_region nt tid resume st t oi).
Proof.
  unfold gate_region. destruct (mb_can_fetch _).
  - destruct (t_kind t); try apply pe_set_th. destruct (next_gate _ _ _); apply pe_set_th.
  - destruct resume; apply pe_set_th.
Qed.
Lemma pe_thread_step st t : pcs_except tid st (thread_step nt tid st t).
Proof.
  unfold thread_step. destruct (t_pc t); try apply pe_refl;
    auto using pe_gate_region, pe_read_region, pe_send_region.
  - unfold killout_region. eapply pe_trans; [apply pe_kill_mb | apply pe_set_th].
  - unfold killin_region. eapply pe_trans; [apply pe_kill_mb | apply pe_set_th].
  - unfold killall_region. eapply pe_trans; [apply pe_kill_mb | apply pe_set_th].
Qed.
Lemma pe_settle st : pcs_except tid st (settle nt tid st).
Proof.
  unfold settle. destruct (t_pc (get_th st tid)); try apply pe_refl.
  destruct (first_alive _ _ _); apply pe_set_th.
Qed.
End PE.

Lemma pe_step nt st tid st' : nstep nt st tid = Some st' -> pcs_except tid st st'.
Proof.
  unfold nstep. destruct (nth_error (ths st) tid) as [t|]; [|discriminate].
  destruct (t_enabled nt st t); [|discriminate]. intros H. inversion H; subst.
  eapply pe_trans; [apply pe_thread_step | apply pe_settle].
Qed.

Lemma get_th_pc st i : t_pc (get_th st i) = match nth_error (ths st) i with Some t => t_pc t | None => PDone end.
Proof.
  unfold get_th. destruct (nth_error (ths st) i) as [t|] eqn:E.
  - rewrite (nth_error_nth_dflt _ _ _ _ E). reflexivity.
  - apply nth_error_None in E. rewrite nth_overflow by auto. reflexivity.
Qed.

(* a finished thread stays finished: it is never enabled, and the others do not touch its program counter *)
Lemma terminal_stable_step nt st tid st' i :
  nstep nt st tid = Some st' -> terminal (get_th st i) = true -> terminal (get_th st' i) = true.
Proof.
  intros Hs Ht. destruct (Nat.eq_dec i tid) as [->|Hne].
  - exfalso. unfold nstep in Hs. destruct (nth_error (ths st) tid) as [t|] eqn:E; [|discriminate].
    rewrite (get_th_nth _ _ _ E) in Ht. unfold terminal in Ht. unfold t_enabled in Hs.
    destruct (t_pc t); try discriminate.
  - pose proof (pe_step _ _ _ _ Hs i Hne) as Hp. unfold terminal in *. rewrite get_th_pc in *.
    destruct (nth_error (ths st') i), (nth_error (ths st) i); cbn in Hp; try discriminate; auto.
    injection Hp as Hp. rewrite Hp. exact Ht.
Qed.

(* ---------- what the network must provide ---------- *)
Definition is_main_k (t : thread) : bool := match t_kind t with KMain _ => true | _ => false end.

Record cover (nt : net) (st : nstate) (main : nat) : Prop := {
  cv_f1 : n_f1 nt = true;                                                   (* repair F1 *)
  cv_mbs : 1 <= length (mbs st);
  cv_kill : forall j, j < length (mbs st) -> In j (n_kill nt);              (* iter kills every mailbox *)
  cv_krng : forall j, In j (n_kill nt) -> j < length (mbs st);
  cv_join : forall i, i < length (ths st) -> i <> main -> In i (n_join nt); (* ... and joins every thread *)
  cv_nomain : ~ In main (n_join nt);
  cv_main : forall i t, nth_error (ths st) i = Some t -> (is_main_k t = true <-> i = main);
  cv_rd : forall i t r, nth_error (ths st) i = Some t -> In r (t_rd t) -> r_mb r < length (mbs st);
}.

Lemma cover_sig nt st st' main : sig st' = sig st -> cover nt st main -> cover nt st' main.
Proof.
  intros Hs [H1 H2 H3 H3' H4 H5 H6 H7]. destruct (sig_lengths _ _ Hs) as [Hlm Hlt].
  split; auto.
  - rewrite Hlm. auto.
  - intros j Hj. apply H3. rewrite <- Hlm. auto.
  - intros j Hj. rewrite Hlm. auto.
  - intros i Hi. apply H4. rewrite <- Hlt. auto.
  - intros i t' Hi. destruct (sig_thread _ _ _ _ Hs Hi) as [t [Ht E]].
    unfold is_main_k. replace (t_kind t') with (t_kind t) by (unfold tsig in E; congruence). apply (H6 _ _ Ht).
  - intros i t' r' Hi Hr. destruct (sig_thread _ _ _ _ Hs Hi) as [t [Ht E]].
    rewrite Hlm. assert (Hm : In (rsig r') (map rsig (t_rd t))).
    { unfold tsig in E. injection E as _ E2. rewrite <- E2. apply in_map. auto. }
    apply in_map_iff in Hm. destruct Hm as [r [Er Hin]]. unfold rsig in Er. injection Er as Er _. rewrite <- Er.
    eapply H7; eauto.
Qed.

(* ---------- the caller's progress through kill-all and join ---------- *)
Definition all_killed (nt : net) (st : nstate) : Prop := forall j, In j (n_kill nt) -> mb_killed (get_mb st j) = true.
Definition joined_upto (nt : net) (st : nstate) (i : nat) : Prop :=
  forall k, k < i -> k < length (n_join nt) -> terminal (get_th st (nth k (n_join nt) 0)) = true.

Definition main_inv (nt : net) (st : nstate) (main : nat) : Prop :=
  match t_pc (get_th st main) with
  | PKillAll i c => i < length (n_kill nt) /\ forall k, k < i -> mb_killed (get_mb st (nth k (n_kill nt) 0)) = true
  | PJoin i (Some c) => all_killed nt st /\ joined_upto nt st i
  | PJoin i None => joined_upto nt st i
  | PFin r => joined_upto nt st (length (n_join nt))
  | _ => True
  end.

Lemma first_alive_spec st order : forall idx i',
  first_alive st order idx = Some i' ->
  idx <= i' /\ i' - idx < length order /\
  (forall k, k < i' - idx -> terminal (get_th st (nth k order 0)) = true).
Proof.
  induction order as [|x rest IH]; intros idx i' H; cbn [first_alive] in H; [discriminate|].
  destruct (terminal (get_th st x)) eqn:Et.
  - apply IH in H. destruct H as [H1 [H2 H3]]. split; [lia|]. split; [cbn; lia|].
    intros k Hk. destruct k as [|k]; [exact Et|]. cbn [nth]. apply H3. lia.
  - inversion H; subst i'. split; auto. rewrite Nat.sub_diag. split; [cbn; lia|]. intros k Hk. lia.
Qed.
Lemma first_alive_none st order : forall idx,
  first_alive st order idx = None -> forall k, k < length order -> terminal (get_th st (nth k order 0)) = true.
Proof.
  induction order as [|x rest IH]; intros idx H k Hk; cbn [first_alive] in H; [cbn in Hk; lia|].
  destruct (terminal (get_th st x)) eqn:Et; [|discriminate].
  destruct k as [|k]; [exact Et|]. cbn [nth]. apply (IH _ H). cbn in Hk. lia.
Qed.

Lemma nth_skipn {A} (l : list A) i k d : nth k (skipn i l) d = nth (i + k) l d.
Proof. revert l; induction i as [|i IH]; intros [|h t]; cbn; auto. destruct k; reflexivity. Qed.

(* ---------- program counters created by the thread-local code ---------- *)
(* main_pc: the program counters of ThreadedMailboxProcessor.iter after its reading loop *)
Definition main_pc (p : pc) : Prop := match p with PKillAll _ _ | PJoin _ _ | PFin _ => True | _ => False end.
(* fresh: such a program counter as the thread-local code creates it (kill-all / join have not advanced) *)
Definition fresh (nt : net) (p : pc) : Prop :=
  match p with
  | PKillAll i _ => i = 0 /\ n_kill nt <> []
  | PJoin i (Some _) => i = 0 /\ n_kill nt = []
  | PJoin i None => i = 0
  | PFin _ => n_f1 nt = false
  | _ => True
  end.
(* created by a thread of kind KMain only *)
Definition okpc (nt : net) (t : thread) (p : pc) : Prop := fresh nt p /\ (main_pc p -> is_main_k t = true).

Lemma okpc_plain nt t p : ~ main_pc p -> okpc nt t p.
Proof. intros H. split; [destruct p; cbn in *; auto; tauto | tauto]. Qed.

Section Fresh.
Variable nt : net.
Variable tid : nat.

Lemma okpc_first_out t q p : ~ main_pc p -> okpc nt t (first_out q p).
Proof. intros H. unfold first_out. destruct (n_outs q =? 0); apply okpc_plain; auto. Qed.

Lemma okpc_enter_killall t c : is_main_k t = true -> okpc nt t (enter_killall nt c).
Proof. intros Hm. unfold enter_killall. destruct (n_kill nt) eqn:E; split; cbn; auto. split; auto. rewrite E. discriminate. Qed.

Lemma okpc_on_input_killed t c : okpc nt t (t_pc (on_input_killed nt t c)).
Proof.
  unfold on_input_killed. destruct (t_kind t) eqn:Ek; cbn [t_pc set_pc].
  - apply okpc_first_out. cbn. tauto.
  - apply okpc_plain. cbn. tauto.
  - apply okpc_plain. cbn. tauto.
  - apply okpc_first_out. cbn. tauto.
  - apply okpc_enter_killall. unfold is_main_k. rewrite Ek. reflexivity.
Qed.

Lemma okpc_stage_compute t : okpc nt t (t_pc (stage_compute nt tid t)).
Proof. unfold stage_compute. destruct (fault_at nt tid (t_cnt t)); apply okpc_plain; cbn; tauto. Qed.
Lemma okpc_stage_end t : okpc nt t (t_pc (stage_end nt tid t)).
Proof. unfold stage_end. destruct (fault_at nt tid (t_cnt t)); apply okpc_plain; cbn; tauto. Qed.

Lemma okpc_kind_eq t t' p : t_kind t' = t_kind t -> okpc nt t' p -> okpc nt t p.
Proof. unfold okpc, is_main_k. intros E [H1 H2]. rewrite <- E. auto. Qed.

Lemma kind_stage_fetch left : forall t, t_kind (stage_fetch nt tid left t) = t_kind t.
Proof. intros t. pose proof (tsig_stage_fetch nt tid left t) as H. unfold tsig in H. congruence. Qed.

Lemma okpc_stage_fetch left : forall t, okpc nt t (t_pc (stage_fetch nt tid left t)).
Proof.
  induction left as [|l IH]; intros t; cbn [stage_fetch].
  - destruct (t_nstop t =? 0); [apply (okpc_kind_eq t (set_round t 0 0 (t_val t))); auto; apply okpc_stage_compute|].
    destruct (t_nstop t =? length (t_rd t)); [apply (okpc_kind_eq t (set_round t 0 0 (t_val t))); auto; apply okpc_stage_end|].
    apply okpc_plain. cbn. tauto.
  - destruct (r_buf (cur_r t)) as [|m rest].
    + destruct (r_last (cur_r t)); [|apply okpc_plain; cbn; tauto].
      eapply okpc_kind_eq; [|apply IH]. reflexivity.
    + destruct m; (eapply okpc_kind_eq; [|apply IH]); reflexivity.
Qed.

Lemma okpc_source_produce t n : okpc nt t (t_pc (source_produce nt tid t n)).
Proof.
  unfold source_produce. destruct (t_cnt t <? n).
  - eapply okpc_kind_eq; [|apply okpc_stage_compute]. reflexivity.
  - apply okpc_stage_end.
Qed.

Lemma okpc_sink_stop t : not_stage t -> okpc nt t (t_pc (sink_stop nt tid t)).
Proof.
  unfold not_stage, sink_stop. destruct (t_kind t) eqn:Ek; intros Hn; try contradiction; cbn [t_pc set_pc].
  - destruct (fault_at nt tid (t_cnt t)); apply okpc_plain; cbn; tauto.
  - apply okpc_plain. cbn. tauto.
  - apply okpc_first_out. cbn. tauto.
  - split; cbn; auto. intros _. unfold is_main_k. rewrite Ek. reflexivity.
Qed.

Lemma okpc_sink_data t v :
  not_stage t -> snd (sink_data nt tid t v) = false -> okpc nt t (t_pc (fst (sink_data nt tid t v))).
Proof.
  unfold not_stage, sink_data. destruct (t_kind t) eqn:Ek; intros Hn; try contradiction; cbn.
  - destruct (if rechunk then None else fault_at nt tid (t_cnt t)); cbn; intros H; try discriminate.
    apply okpc_plain. cbn. tauto.
  - discriminate.
  - intros _. apply okpc_first_out. cbn. tauto.
  - destruct (cfault_at nt (t_cnt t)) as [[[|] c]|]; cbn; intros H; try discriminate.
    + destruct relay; cbn; [apply okpc_plain; cbn; tauto|].
      destruct (n_f1 nt) eqn:Ef; cbn.
      * apply okpc_enter_killall. unfold is_main_k. rewrite Ek. reflexivity.
      * split; cbn; auto. intros _. unfold is_main_k. rewrite Ek. reflexivity.
    + apply okpc_plain. cbn. tauto.
Qed.

Lemma okpc_sink_loop ms : forall t, not_stage t -> okpc nt t (t_pc (sink_loop nt tid t ms)).
Proof.
  induction ms as [|m rest IH]; intros t Hn; cbn [sink_loop]; [apply okpc_plain; cbn; tauto|].
  set (tb := set_cur_r t (r_set_buf (cur_r t) rest)).
  assert (Hnb : not_stage tb) by (apply not_stage_set_cur_r; auto).
  assert (Hd : forall v, okpc nt t (t_pc (let '(t', go) := sink_data nt tid tb v in if go then sink_loop nt tid t' rest else t'))).
  { intros v. pose proof (sink_data_plain nt tid tb v Hnb) as [_ Ht]. cbn zeta in Ht.
    pose proof (okpc_sink_data tb v Hnb) as Hf.
    destruct (sink_data nt tid tb v) as [t' go]. cbn [fst snd] in *. destruct go.
    - specialize (Ht eq_refl). eapply okpc_kind_eq; [|apply IH].
      + rewrite Ht. reflexivity.
      + unfold not_stage in *. rewrite Ht. auto.
    - eapply okpc_kind_eq; [|apply Hf; reflexivity]. reflexivity. }
  destruct m; [apply Hd | apply Hd |].
  eapply okpc_kind_eq; [|apply okpc_sink_stop; exact Hnb]. reflexivity.
Qed.

Lemma okpc_consume t : okpc nt t (t_pc (consume nt tid t)).
Proof.
  unfold consume. destruct (t_kind t) eqn:Ek.
  - destruct (t_rd t); [apply okpc_source_produce | apply okpc_stage_fetch].
  - apply okpc_sink_loop. unfold not_stage. rewrite Ek. auto.
  - apply okpc_sink_loop. unfold not_stage. rewrite Ek. auto.
  - apply okpc_sink_loop. unfold not_stage. rewrite Ek. auto.
  - apply okpc_sink_loop. unfold not_stage. rewrite Ek. auto.
Qed.

Lemma okpc_loop_start st t : okpc nt t (t_pc (loop_start nt tid st t)).
Proof.
  unfold loop_start. destruct (t_kind t); try apply okpc_consume.
  - destruct (mb_lazy _); [apply okpc_plain; cbn; tauto | apply okpc_consume].
  - destruct (next_gate _ _ _); [apply okpc_plain; cbn; tauto | apply okpc_consume].
Qed.

Lemma okpc_send_raise t closing e : okpc nt t (t_pc (send_raise nt t closing e)).
Proof.
  unfold send_raise. destruct closing.
  - destruct (t_kind t); try (apply okpc_plain; cbn; tauto).
    destruct (n_f3 nt); [apply okpc_first_out | apply okpc_plain]; cbn; tauto.
  - destruct (t_kind t); apply okpc_plain; cbn; tauto.
Qed.

Lemma get_put st1 t' : tid < length (ths st1) -> t_pc (get_th (set_th st1 tid t') tid) = t_pc t'.
Proof. intros H. rewrite get_th_set_th_eq; auto. Qed.

Lemma okpc_after_send st t oi mg closing :
  tid < length (ths st) -> okpc nt t (t_pc (get_th (after_send nt tid st t oi mg closing) tid)).
Proof.
  intros Hl. unfold after_send. rewrite get_put by (destruct closing; [rewrite ths_set_mb|]; auto).
  destruct (S oi <? n_outs t); [apply okpc_plain; cbn; tauto|].
  destruct closing; [apply okpc_plain; cbn; tauto | apply okpc_loop_start].
Qed.
Lemma okpc_do_push st t oi mg closing :
  tid < length (ths st) -> okpc nt t (t_pc (get_th (do_push nt tid st t oi mg closing) tid)).
Proof. intros Hl. unfold do_push. apply okpc_after_send. rewrite length_ths_wake, ths_set_mb. auto. Qed.

Lemma okpc_send_like st t resume oi mg closing :
  tid < length (ths st) -> ~ main_pc (t_pc t) ->
  okpc nt t (t_pc (get_th (send_region nt tid resume st t oi mg closing) tid)).
Proof.
  intros Hl Hn. unfold send_region.
  assert (Hr : forall e, okpc nt t (t_pc (get_th (set_th st tid (send_raise nt t closing e)) tid))).
  { intros e. rewrite get_put by auto. apply okpc_send_raise. }
  destruct resume.
  - destruct (mb_can_write _).
    + destruct (mb_killed _); [destruct (mb_fkilled _); auto using okpc_after_send | apply okpc_do_push; auto].
    + rewrite get_put by auto. apply okpc_plain. exact Hn.
  - destruct (mb_closed _); auto. destruct (mb_fkilled _); auto.
    destruct (mb_killed _); [apply okpc_after_send; auto|].
    destruct (mb_can_write _); [apply okpc_do_push; auto|].
    rewrite get_put by auto. apply okpc_plain. cbn. tauto.
Qed.

(* the program counter of the stepping thread after its step, when it was not already in kill-all / join *)
Lemma okpc_thread_step st t :
  nth_error (ths st) tid = Some t -> ~ main_pc (t_pc t) ->
  okpc nt t (t_pc (get_th (thread_step nt tid st t) tid)).
Proof.
  intros Ht Hn. assert (Hlt : tid < length (ths st)) by (apply nth_error_Some; congruence).
  unfold thread_step. destruct (t_pc t) eqn:Epc; try (cbn in Hn; tauto).
  - (* PGate *) unfold gate_region. destruct (mb_can_fetch _).
    + destruct (t_kind t) eqn:Ek; try (rewrite get_put by auto; apply okpc_consume).
      destruct (next_gate _ _ _); rewrite get_put by auto; [apply okpc_plain; cbn; tauto | apply okpc_consume].
    + rewrite get_put by auto. apply okpc_plain. cbn. tauto.
  - (* PGateWait *) unfold gate_region. destruct (mb_can_fetch _).
    + destruct (t_kind t) eqn:Ek; try (rewrite get_put by auto; apply okpc_consume).
      destruct (next_gate _ _ _); rewrite get_put by auto; [apply okpc_plain; cbn; tauto | apply okpc_consume].
    + rewrite get_put by auto. cbn. rewrite Epc. apply okpc_plain. cbn. tauto.
  - (* PRead *) unfold read_region. destruct (has_msg _ _ || mb_killed _).
    + destruct (mb_killed _).
      * rewrite get_put by (rewrite ths_set_mb; auto). apply okpc_on_input_killed.
      * destruct (take_from _ _ _) as [[ms n'] last]. rewrite get_put.
        -- eapply okpc_kind_eq; [|apply okpc_consume]. reflexivity.
        -- rewrite length_ths_wake. unfold maybe_wake_gate. destruct (_ && _); [rewrite length_ths_wake|]; auto.
    + rewrite get_put; [apply okpc_plain; cbn; tauto|].
      unfold maybe_wake_gate. destruct (_ && _); [rewrite length_ths_wake|]; auto.
  - (* PReadWait *) unfold read_region. destruct (has_msg _ _ || mb_killed _).
    + destruct (mb_killed _).
      * rewrite get_put by (rewrite ths_set_mb; auto). apply okpc_on_input_killed.
      * destruct (take_from _ _ _) as [[ms n'] last]. rewrite get_put.
        -- eapply okpc_kind_eq; [|apply okpc_consume]. reflexivity.
        -- rewrite length_ths_wake. unfold maybe_wake_gate. destruct (_ && _); [rewrite length_ths_wake|]; auto.
    + rewrite get_put by auto. cbn. rewrite Epc. apply okpc_plain. cbn. tauto.
  - (* PSend *) apply okpc_send_like; auto. rewrite Epc. cbn. tauto.
  - (* PSendWait *) apply okpc_send_like; auto. rewrite Epc. cbn. tauto.
  - (* PKillOut *) unfold killout_region. rewrite get_put.
    + destruct (S oi <? n_outs t); [apply okpc_plain; cbn; tauto|]. destruct (is_mk e); apply okpc_plain; cbn; tauto.
    + pose proof (sig_kill_mb st (out_mb t oi) (exn_code e)) as Hs. destruct (sig_lengths _ _ Hs) as [_ Hl]. rewrite Hl. auto.
  - (* PKillIn *) unfold killin_region. rewrite get_put.
    + destruct (is_mk e && n_f2 nt); [apply okpc_first_out; cbn; tauto|]. destruct (is_mk e).
      * destruct (r_buf (cur_r t)) as [|[v|k v|] rest]; cbn [t_pc set_pc]; try (apply okpc_first_out; cbn; tauto).
        destruct (r_last (cur_r t)); [apply okpc_first_out | apply okpc_plain]; cbn; tauto.
      * destruct (t_kind t) eqn:Ek; try (apply okpc_plain; cbn; tauto).
        -- apply okpc_first_out. cbn. tauto.
        -- apply okpc_enter_killall. unfold is_main_k. rewrite Ek. reflexivity.
    + pose proof (sig_kill_mb st (r_mb (cur_r t)) (exn_code e)) as Hs. destruct (sig_lengths _ _ Hs) as [_ Hl]. rewrite Hl. auto.
  - (* PDone *) rewrite (get_th_nth _ _ _ Ht), Epc. apply okpc_plain. cbn. tauto.
  - (* PDead *) rewrite (get_th_nth _ _ _ Ht), Epc. apply okpc_plain. cbn. tauto.
Qed.
End Fresh.

(* ---------- the invariant of the shutdown protocol ---------- *)
Lemma get_th_set_th_neq st i j t : i <> j -> get_th (set_th st i t) j = get_th st j.
Proof. intros H. unfold get_th, set_th. cbn. apply nth_upd_neq. auto. Qed.

Definition SI (nt : net) (main : nat) (st : nstate) : Prop :=
  Wn st /\ cover nt st main /\ main_inv nt st main /\
  (forall i t, nth_error (ths st) i = Some t -> main_pc (t_pc t) -> i = main) /\
  (forall i exc, t_pc (get_th st main) = PJoin i exc -> i < length (n_join nt)).

Section Shutdown.
Variable nt : net.
Variable main : nat.

Lemma join_entry_not_main k : ~ In main (n_join nt) -> k < length (n_join nt) -> nth k (n_join nt) 0 <> main.
Proof. intros Hn Hk E. apply Hn. rewrite <- E. apply nth_In. auto. Qed.

(* cleanup(): from "joining thread i" to the next unfinished thread, or to the end *)
Lemma settle_main st1 i exc :
  main < length (ths st1) -> ~ In main (n_join nt) ->
  t_pc (get_th st1 main) = PJoin i exc -> joined_upto nt st1 i ->
  (forall c, exc = Some c -> all_killed nt st1) ->
  let st' := settle nt main st1 in
  main_inv nt st' main /\ (forall i' exc', t_pc (get_th st' main) = PJoin i' exc' -> i' < length (n_join nt)).
Proof.
  intros Hlt Hnm Hpc Hj Hk. unfold settle. rewrite Hpc.
  assert (Hother : forall t' k, k < length (n_join nt) ->
            get_th (set_th st1 main t') (nth k (n_join nt) 0) = get_th st1 (nth k (n_join nt) 0)).
  { intros t' k Hkl. apply get_th_set_th_neq. intros E. eapply join_entry_not_main; eauto. }
  destruct (first_alive st1 (skipn i (n_join nt)) i) as [i'|] eqn:Ef.
  - apply first_alive_spec in Ef. destruct Ef as [Hle [Hlen Hterm]]. rewrite skipn_length in Hlen.
    assert (Hj' : joined_upto nt (set_th st1 main (set_pc (get_th st1 main) (PJoin i' exc))) i').
    { intros k Hk1 Hk2. rewrite Hother by auto. destruct (Nat.lt_ge_cases k i) as [Hki|Hki]; [apply Hj; auto|].
      assert (Hkk : k - i < i' - i) by lia. specialize (Hterm (k - i) Hkk).
      rewrite nth_skipn in Hterm. replace (i + (k - i)) with k in Hterm by lia. auto. }
    unfold main_inv. rewrite get_th_set_th_eq by auto. cbn [t_pc set_pc]. split.
    + destruct exc as [c|]; auto. split; auto. intros j Hjn. rewrite get_mb_set_th. apply (Hk c eq_refl). auto.
    + intros i0 exc0 E. inversion E; subst. lia.
  - pose proof (first_alive_none _ _ _ Ef) as Hterm. rewrite skipn_length in Hterm.
    unfold main_inv. rewrite get_th_set_th_eq by auto. cbn [t_pc set_pc]. split.
    + intros k Hk1 Hk2. rewrite Hother by auto. destruct (Nat.lt_ge_cases k i) as [Hki|Hki]; [apply Hj; auto|].
      assert (Hkk : k - i < length (n_join nt) - i) by lia. specialize (Hterm (k - i) Hkk).
      rewrite nth_skipn in Hterm. replace (i + (k - i)) with k in Hterm by lia. auto.
    + intros i0 exc0 E. discriminate.
Qed.

Lemma settle_other st1 tid : (forall i exc, t_pc (get_th st1 tid) <> PJoin i exc) -> settle nt tid st1 = st1.
Proof. intros H. unfold settle. destruct (t_pc (get_th st1 tid)) eqn:E; auto. exfalso. eapply H; eauto. Qed.

Lemma main_inv_mono st st' :
  t_pc (get_th st' main) = t_pc (get_th st main) ->
  (forall j, mb_killed (get_mb st j) = true -> mb_killed (get_mb st' j) = true) ->
  (forall i, terminal (get_th st i) = true -> terminal (get_th st' i) = true) ->
  main_inv nt st main -> main_inv nt st' main.
Proof.
  intros Hpc Hk Ht. unfold main_inv. rewrite Hpc.
  destruct (t_pc (get_th st main)) as [| | | | | | | |i c|i [c|]| | |r]; auto.
  - intros [H1 H2]. split; auto.
  - intros [H1 H2]. split; [intros j Hj; auto | intros k Hk1 Hk2; auto].
  - intros H k Hk1 Hk2. auto.
  - intros H k Hk1 Hk2. auto.
Qed.

Lemma pc_of_get_th st i t : nth_error (ths st) i = Some t -> t_pc (get_th st i) = t_pc t.
Proof. intros H. rewrite (get_th_nth _ _ _ H). reflexivity. Qed.

Lemma pe_get_th tid st st' i : pcs_except tid st st' -> i <> tid -> t_pc (get_th st' i) = t_pc (get_th st i).
Proof.
  intros H Hi. specialize (H i Hi). rewrite !get_th_pc.
  destruct (nth_error (ths st') i), (nth_error (ths st) i); cbn in H; try discriminate; auto. congruence.
Qed.

(* the threads other than the stepping one keep "only the caller is in kill-all / join" *)
Lemma only_main_others st st' tid :
  pcs_except tid st st' ->
  (forall i t, nth_error (ths st) i = Some t -> main_pc (t_pc t) -> i = main) ->
  forall i t', i <> tid -> nth_error (ths st') i = Some t' -> main_pc (t_pc t') -> i = main.
Proof.
  intros Hpe Honly i t' Hi Ht' Hm. specialize (Hpe i Hi). rewrite Ht' in Hpe. cbn in Hpe.
  destruct (nth_error (ths st) i) as [t|] eqn:Et; [|discriminate]. cbn in Hpe. inversion Hpe as [E].
  apply (Honly i t Et). rewrite <- E. exact Hm.
Qed.

(* a step of a thread other than the caller *)
Lemma SI_step_other st tid st' : tid <> main -> SI nt main st -> nstep nt st tid = Some st' -> SI nt main st'.
Proof.
  intros Hne (HW & Hcov & Hmi & Honly & Hbound) Hstep.
  pose proof (Wn_step _ _ _ _ HW Hstep) as HW'.
  pose proof (cover_sig _ _ _ _ (sig_step _ _ _ _ Hstep) Hcov) as Hcov'.
  pose proof (pe_step _ _ _ _ Hstep) as Hpe.
  assert (Hpcm : t_pc (get_th st' main) = t_pc (get_th st main)) by (apply (pe_get_th tid); auto).
  split; [auto|]. split; [auto|]. split; [|split].
  - apply (main_inv_mono st st'); auto.
    + intros j. eapply killed_stable_step; eauto.
    + intros i. eapply terminal_stable_step; eauto.
  - intros i t' Ht' Hm. destruct (Nat.eq_dec i tid) as [->|Hi]; [|eapply only_main_others; eauto].
    exfalso. unfold nstep in Hstep. destruct (nth_error (ths st) tid) as [t|] eqn:Et; [|discriminate].
    destruct (t_enabled nt st t); [|discriminate]. inversion Hstep; subst st'.
    assert (Hnm : ~ main_pc (t_pc t)) by (intros Hx; apply Hne; eapply Honly; eauto).
    pose proof (okpc_thread_step nt tid st t Et Hnm) as [_ Hk].
    assert (Hno : ~ main_pc (t_pc (get_th (thread_step nt tid st t) tid))).
    { intros Hx. specialize (Hk Hx). apply Hne. apply (proj1 (cv_main _ _ _ Hcov _ _ Et)). exact Hk. }
    rewrite settle_other in Ht'.
    + rewrite (pc_of_get_th _ _ _ Ht') in Hno. auto.
    + intros i0 exc0 E. apply Hno. rewrite E. exact I.
  - rewrite Hpcm. exact Hbound.
Qed.
End Shutdown.

Section Shutdown2.
Variable nt : net.
Variable main : nat.

Lemma In_nth_lt {A} (l : list A) x d : In x l -> exists k, k < length l /\ nth k l d = x.
Proof. intros H. destruct (In_nth l x d H) as [k [Hk E]]. eauto. Qed.

Lemma main_inv_fresh st1 :
  n_f1 nt = true -> fresh nt (t_pc (get_th st1 main)) ->
  (forall i exc, t_pc (get_th st1 main) <> PJoin i exc) -> main_inv nt st1 main.
Proof.
  intros Hf1 Hfr Hnj. unfold main_inv. unfold fresh in Hfr.
  destruct (t_pc (get_th st1 main)) as [| | | | | | | |i c|i exc| | |r]; auto.
  - destruct Hfr as [-> Hne]. split; [destruct (n_kill nt); [congruence | cbn; lia]|]. intros k Hk. lia.
  - exfalso. eapply Hnj; eauto.
  - congruence.
Qed.

(* a step of the caller *)
Lemma SI_step_main st st' : SI nt main st -> nstep nt st main = Some st' -> SI nt main st'.
Proof.
  intros (HW & Hcov & Hmi & Honly & Hbound) Hstep.
  pose proof (Wn_step _ _ _ _ HW Hstep) as HW'.
  pose proof (cover_sig _ _ _ _ (sig_step _ _ _ _ Hstep) Hcov) as Hcov'.
  pose proof (pe_step _ _ _ _ Hstep) as Hpe.
  assert (Honly' : forall i t', nth_error (ths st') i = Some t' -> main_pc (t_pc t') -> i = main).
  { intros i t' Ht' Hm. destruct (Nat.eq_dec i main); auto. eapply only_main_others; eauto. }
  unfold nstep in Hstep. destruct (nth_error (ths st) main) as [t|] eqn:Et; [|discriminate].
  destruct (t_enabled nt st t) eqn:Een; [|discriminate]. inversion Hstep; subst st'. clear Hstep.
  assert (Hlt : main < length (ths st)) by (apply nth_error_Some; congruence).
  assert (Hgt : get_th st main = t) by (apply get_th_nth; auto).
  set (st1 := thread_step nt main st t) in *.
  assert (Hlen1 : length (ths st1) = length (ths st)).
  { pose proof (sig_thread_step nt main st t Et) as Hs1. destruct (sig_lengths _ _ Hs1) as [_ Hl]. exact Hl. }
  assert (Hnm : ~ In main (n_join nt)) by (apply (cv_nomain _ _ _ Hcov)).
  (* it is enough to give main_inv and the bound for the settled state *)
  cut (main_inv nt (settle nt main st1) main /\
       (forall i' exc', t_pc (get_th (settle nt main st1) main) = PJoin i' exc' -> i' < length (n_join nt))).
  { intros [H1 H2]. split; [exact HW'|]. split; [exact Hcov'|]. split; [exact H1|]. split; [exact Honly' | exact H2]. }
  unfold main_inv in Hmi. rewrite Hgt in Hmi.
  destruct (t_pc t) eqn:Epc.
  all: try (assert (Hnmp : ~ main_pc (t_pc t)) by (rewrite Epc; cbn; tauto);
            pose proof (okpc_thread_step nt main st t Et Hnmp) as [Hfr _]; fold st1 in Hfr;
            destruct (t_pc (get_th st1 main)) as [| | | | | | | |i0 c0|i0 exc0| | |r0] eqn:Ep1;
            try (rewrite settle_other by (intros ? ? E; rewrite Ep1 in E; discriminate);
                 split; [apply main_inv_fresh; [apply (cv_f1 _ _ _ Hcov) | rewrite Ep1; exact Hfr | intros ? ? E; rewrite Ep1 in E; discriminate]
                        | intros ? ? E; rewrite Ep1 in E; discriminate]);
            (* fresh PJoin 0 *)
            apply (settle_main nt main st1 i0 exc0); [rewrite Hlen1; auto | auto | exact Ep1 | |];
            [ unfold fresh in Hfr; destruct exc0 as [c1|]; [destruct Hfr as [-> _] | subst i0]; intros k Hk; lia
            | intros c1 ->; unfold fresh in Hfr; destruct Hfr as [_ Hk0]; intros j Hj; rewrite Hk0 in Hj; destruct Hj ]).
  - (* PKillAll i c *)
    destruct Hmi as [Hi Hkilled]. unfold st1, thread_step. rewrite Epc. unfold killall_region.
    set (j := nth i (n_kill nt) 0).
    assert (Hj : j < length (mbs st)) by (apply (cv_krng _ _ _ Hcov); apply nth_In; auto).
    assert (Hkj : mb_killed (get_mb (kill_mb st j c) j) = true) by (apply kill_mb_killed; auto).
    assert (Hmono : forall k, mb_killed (get_mb st k) = true -> mb_killed (get_mb (kill_mb st j c) k) = true).
    { intros k Hk. apply (proj1 (st_mono_kill_mb st j c k)). auto. }
    assert (Hlk : main < length (ths (kill_mb st j c))).
    { pose proof (sig_kill_mb st j c) as Hs. destruct (sig_lengths _ _ Hs) as [_ Hl]. rewrite Hl. auto. }
    destruct (S i <? length (n_kill nt)) eqn:Esi.
    + apply Nat.ltb_lt in Esi.
      rewrite settle_other by (intros ? ? E; rewrite get_th_set_th_eq in E by auto; discriminate).
      split.
      * unfold main_inv. rewrite get_th_set_th_eq by auto. cbn [t_pc set_pc]. split; auto.
        intros k Hk. rewrite get_mb_set_th. destruct (Nat.eq_dec k i) as [->|Hki]; [exact Hkj|].
        apply Hmono. apply Hkilled. lia.
      * intros ? ? E. rewrite get_th_set_th_eq in E by auto. discriminate.
    + apply Nat.ltb_ge in Esi.
      apply (settle_main nt main _ 0 (Some c)).
      * rewrite length_ths_set_th. auto.
      * auto.
      * rewrite get_th_set_th_eq by auto. reflexivity.
      * intros k Hk. lia.
      * intros c1 _ j' Hj'. rewrite get_mb_set_th. destruct (In_nth_lt _ _ 0 Hj') as [k [Hk <-]].
        destruct (Nat.eq_dec k i) as [->|Hki]; [exact Hkj|]. apply Hmono. apply Hkilled. lia.
  - (* PJoin i exc *)
    unfold st1, thread_step. rewrite Epc.
    apply (settle_main nt main st i exc); auto.
    + rewrite Hgt. exact Epc.
    + destruct exc as [c|]; [apply Hmi | exact Hmi].
    + intros c ->. apply Hmi.
  - (* PFin: never enabled *)
    unfold t_enabled in Een. rewrite Epc in Een. discriminate.
Qed.

Theorem SI_step st tid st' : SI nt main st -> nstep nt st tid = Some st' -> SI nt main st'.
Proof.
  intros H Hs. destruct (Nat.eq_dec tid main) as [->|Hne]; [eapply SI_step_main | eapply SI_step_other]; eauto.
Qed.

(* ---------- the theorem ---------- *)
(* the caller has seen exception c: it is killing the mailboxes, joining the threads, or done *)
Definition noticed (st : nstate) (c : nat) : Prop :=
  match t_pc (get_th st main) with
  | PKillAll _ c' | PJoin _ (Some c') => c' = c
  | PFin (OErr (EOrig c')) => c' = c
  | _ => False
  end.

(* with every mailbox killed, a thread other than the caller is finished or can run *)
Lemma all_killed_runs st i t :
  SI nt main st -> all_killed nt st -> nth_error (ths st) i = Some t -> i <> main ->
  terminal t = true \/ t_enabled nt st t = true.
Proof.
  intros (HW & Hcov & _ & Honly & _) Hak Hi Hne.
  assert (Hk : forall j, j < length (mbs st) -> mb_killed (get_mb st j) = true).
  { intros j Hj. apply Hak. apply (cv_kill _ _ _ Hcov). auto. }
  destruct (terminal t) eqn:Et; auto. right.
  destruct (proj1 HW _ _ Hi) as [Hwait Hgate]. unfold t_enabled, terminal in *.
  destruct (t_pc t) eqn:Epc; auto; try discriminate.
  - (* PGateWait *) destruct (t_woken t) eqn:Ew; auto. exfalso. specialize (Hwait eq_refl).
    unfold wait_ok in Hwait. rewrite Epc in Hwait. unfold gate_ok in Hgate. rewrite Epc in Hgate.
    destruct (Nat.lt_ge_cases (out_mb t oi) (length (mbs st))) as [Hl|Hl].
    + unfold mb_can_fetch in Hwait. rewrite (Hk _ Hl) in Hwait. discriminate.
    + rewrite get_mb_oob in Hgate by auto. discriminate.
  - (* PReadWait *) destruct (t_woken t) eqn:Ew; auto. exfalso. specialize (Hwait eq_refl).
    unfold wait_ok in Hwait. rewrite Epc in Hwait. destruct Hwait as [_ Hnk].
    assert (Hr : r_mb (cur_r t) < length (mbs st)).
    { unfold cur_r. destruct (nth_in_or_default (t_fi t) (t_rd t) dflt_r) as [Hin | E].
      - eapply (cv_rd _ _ _ Hcov); eauto.
      - rewrite E. cbn. pose proof (cv_mbs _ _ _ Hcov). lia. }
    rewrite (Hk _ Hr) in Hnk. discriminate.
  - (* PSendWait *) destruct (t_woken t) eqn:Ew; auto. exfalso. specialize (Hwait eq_refl).
    unfold wait_ok in Hwait. rewrite Epc in Hwait.
    destruct (Nat.lt_ge_cases (out_mb t oi) (length (mbs st))) as [Hl|Hl].
    + unfold mb_can_write in Hwait. rewrite (Hk _ Hl), orb_true_r in Hwait. discriminate.
    + rewrite get_mb_oob in Hwait by auto. discriminate.
  - (* PJoin: only the caller *) exfalso. apply Hne. apply (Honly i t Hi). rewrite Epc. exact I.
Qed.

Theorem noticed_shuts_down st c :
  SI nt main st -> noticed st c -> quiescent nt st ->
  all_terminal st = true /\ main_outcome st main = Some (OErr (EOrig c)).
Proof.
  intros HSI Hn Hq. pose proof HSI as (HW & Hcov & Hmi & Honly & Hbound).
  unfold noticed in Hn. unfold main_inv in Hmi.
  assert (Hmain_lt : main < length (ths st)).
  { destruct (nth_error (ths st) main) eqn:E; [apply nth_error_Some; congruence|].
    rewrite get_th_pc, E in Hn. contradiction. }
  destruct (nth_error (ths st) main) as [t|] eqn:Et; [|apply nth_error_None in Et; lia].
  assert (Hgt : get_th st main = t) by (apply get_th_nth; auto).
  assert (Hnen : t_enabled nt st t = false).
  { specialize (Hq main). unfold nenabled in Hq. rewrite Et in Hq. exact Hq. }
  rewrite Hgt in Hn, Hmi. destruct (t_pc t) eqn:Epc; try contradiction.
  - (* killing: enabled *) unfold t_enabled in Hnen. rewrite Epc in Hnen. discriminate.
  - (* joining thread i: it would have to be unfinished, but then it can run *)
    destruct exc as [c'|]; [|contradiction]. subst c'. destruct Hmi as [Hak Hju]. exfalso.
    assert (Hi : i < length (n_join nt)) by (apply (Hbound i (Some c)); rewrite Hgt; exact Epc).
    set (x := nth i (n_join nt) 0).
    assert (Hx : x <> main) by (apply join_entry_not_main; auto; apply (cv_nomain _ _ _ Hcov)).
    unfold t_enabled in Hnen. rewrite Epc in Hnen. fold x in Hnen.
    destruct (nth_error (ths st) x) as [u|] eqn:Eu.
    + rewrite (get_th_nth _ _ _ Eu) in Hnen.
      destruct (all_killed_runs st x u HSI Hak Eu Hx) as [Ht | He]; [congruence|].
      specialize (Hq x). unfold nenabled in Hq. rewrite Eu in Hq. congruence.
    + unfold get_th in Hnen. apply nth_error_None in Eu. rewrite nth_overflow in Hnen by auto. discriminate.
  - (* finished *)
    destruct r as [rows|[c'|c']]; try contradiction. subst c'.
    split; [|unfold main_outcome; rewrite Hgt, Epc; reflexivity].
    unfold all_terminal. apply forallb_forall. intros u Hu. destruct (In_nth_error _ _ Hu) as [i Hiu].
    destruct (Nat.eq_dec i main) as [->|Hne].
    + rewrite Et in Hiu. inversion Hiu; subst u. unfold terminal. rewrite Epc. reflexivity.
    + assert (Hil : i < length (ths st)) by (apply nth_error_Some; congruence).
      pose proof (cv_join _ _ _ Hcov i Hil Hne) as Hin. destruct (In_nth_lt _ _ 0 Hin) as [k [Hk Ek]].
      specialize (Hmi k Hk Hk). rewrite Ek in Hmi. rewrite (get_th_nth _ _ _ Hiu) in Hmi. exact Hmi.
Qed.
End Shutdown2.

(* ---------- the initial state ---------- *)
Section Init.
Variable nt : net.
Variable main : nat.

(* before the run: nobody is in kill-all / join, and the caller's read buffers are empty *)
Definition quiet (st : nstate) : Prop :=
  forall i t, nth_error (ths st) i = Some t ->
    ~ main_pc (t_pc t) /\ (is_main_k t = true -> forall r, In r (t_rd t) -> r_buf r = []).

Lemma loop_start_quiet i s t :
  (is_main_k t = true -> forall r, In r (t_rd t) -> r_buf r = []) ->
  ~ main_pc (t_pc (loop_start nt i s t)) /\
  (is_main_k (loop_start nt i s t) = true -> forall r, In r (t_rd (loop_start nt i s t)) -> r_buf r = []).
Proof.
  intros Hb. destruct (is_main_k t) eqn:Ek.
  - (* the caller: its buffer is empty, so it goes to the lock of _read *)
    unfold is_main_k in Ek. destruct (t_kind t) eqn:Ekind; try discriminate.
    assert (Hcur : r_buf (cur_r t) = []).
    { unfold cur_r. destruct (nth_in_or_default (t_fi t) (t_rd t) dflt_r) as [Hin|E]; [apply Hb; auto | rewrite E; reflexivity]. }
    unfold loop_start, consume. rewrite Ekind, Hcur. cbn [sink_loop]. split; [cbn; tauto|].
    intros _ r Hr. cbn [t_rd set_pc set_cur_r set_rd] in Hr.
    destruct (In_nth_error _ _ Hr) as [k Hk]. apply nth_error_upd in Hk.
    destruct Hk as [[_ [-> _]] | [_ Hk]]; [reflexivity | apply Hb; auto; eapply nth_error_In; eauto].
  - split.
    + intros Hm. destruct (okpc_loop_start nt i s t) as [_ Hk]. specialize (Hk Hm). congruence.
    + intros Hk. exfalso. pose proof (tsig_loop_start nt i s t) as Hs. unfold is_main_k in *.
      replace (t_kind (loop_start nt i s t)) with (t_kind t) in Hk by (unfold tsig in Hs; congruence). congruence.
Qed.

Lemma quiet_set_th st i t' :
  quiet st -> (~ main_pc (t_pc t') /\ (is_main_k t' = true -> forall r, In r (t_rd t') -> r_buf r = [])) ->
  quiet (set_th st i t').
Proof.
  intros Hq Ht' k u Hk. unfold set_th in Hk. cbn in Hk. apply nth_error_upd in Hk.
  destruct Hk as [[_ [-> _]] | [_ Hk]]; [exact Ht' | apply (Hq _ _ Hk)].
Qed.

Lemma quiet_start_all st : quiet st -> quiet (start_all nt st).
Proof.
  unfold start_all. generalize (seq 0 (length (ths st))). intros l. revert st.
  induction l as [|i l IH]; intros st Hq; cbn [fold_left]; auto.
  apply IH. apply quiet_set_th; auto. apply loop_start_quiet.
  destruct (nth_error (ths st) i) as [t|] eqn:E.
  - rewrite (get_th_nth _ _ _ E). apply (Hq _ _ E).
  - unfold get_th. apply nth_error_None in E. rewrite nth_overflow by auto. cbn. discriminate.
Qed.

Lemma sig_start_all st : sig (start_all nt st) = sig st.
Proof.
  unfold start_all. generalize (seq 0 (length (ths st))). intros l. revert st.
  induction l as [|i l IH]; intros st; cbn [fold_left]; auto.
  rewrite IH. apply sig_set_th. intros _. apply tsig_loop_start.
Qed.

Lemma SI_init boxes threads :
  cover nt (mkSt boxes threads) main ->
  (forall t, In t threads -> plain_pc (t_pc t) /\ ~ main_pc (t_pc t) /\ forall r, In r (t_rd t) -> r_buf r = []) ->
  (forall m, In m boxes -> mb_box m = []) ->
  SI nt main (ninit nt boxes threads).
Proof.
  intros Hcov Ht Hm. unfold ninit.
  assert (Hq : quiet (start_all nt (mkSt boxes threads))).
  { apply quiet_start_all. intros i t Hi. cbn in Hi. destruct (Ht t (nth_error_In _ _ Hi)) as [_ [H1 H2]]. split; auto. }
  assert (Hnm : ~ main_pc (t_pc (get_th (start_all nt (mkSt boxes threads)) main))).
  { rewrite get_th_pc. destruct (nth_error _ main) eqn:E; [apply (Hq _ _ E) | cbn; tauto]. }
  split; [apply Wn_start_all; apply Wn_intro|].
  - cbn. intros i t Hi. apply tok_plain. apply (Ht t (nth_error_In _ _ Hi)).
  - intros j. unfold get_mb. cbn. unfold box_lt.
    destruct (nth_in_or_default j boxes dflt_mb) as [Hin | E]; [rewrite (Hm _ Hin) | rewrite E; cbn]; intros k x [].
  - split; [apply (cover_sig nt (mkSt boxes threads)); auto; apply sig_start_all|].
    split; [|split].
    + unfold main_inv. destruct (t_pc (get_th _ main)); cbn in Hnm; auto; tauto.
    + intros i t Hi Hmp. exfalso. apply (proj1 (Hq _ _ Hi)). exact Hmp.
    + intros i exc E. exfalso. apply Hnm. rewrite E. exact I.
Qed.
End Init.

(* once the caller has seen the exception it keeps it *)
Lemma noticed_step nt main st tid st' c :
  SI nt main st -> noticed main st c -> nstep nt st tid = Some st' -> noticed main st' c.
Proof.
  intros HSI Hn Hstep. pose proof (pe_step _ _ _ _ Hstep) as Hpe.
  destruct (Nat.eq_dec tid main) as [->|Hne].
  2:{ unfold noticed. rewrite (pe_get_th tid st st' main Hpe) by auto. exact Hn. }
  destruct HSI as (_ & Hcov & _ & _ & _).
  unfold nstep in Hstep. destruct (nth_error (ths st) main) as [t|] eqn:Et; [|discriminate].
  destruct (t_enabled nt st t) eqn:Een; [|discriminate]. inversion Hstep; subst st'. clear Hstep.
  assert (Hlt : main < length (ths st)) by (apply nth_error_Some; congruence).
  unfold noticed in Hn. rewrite (get_th_nth _ _ _ Et) in Hn.
  assert (Hsettle : forall st1 i, main < length (ths st1) -> t_pc (get_th st1 main) = PJoin i (Some c) ->
                                  noticed main (settle nt main st1) c).
  { intros st1 i Hl Hp. unfold noticed, settle. rewrite Hp. destruct (first_alive _ _ _);
      rewrite get_th_set_th_eq by auto; cbn; reflexivity. }
  unfold thread_step. destruct (t_pc t) eqn:Epc; try contradiction.
  - (* PKillAll *) subst c0. unfold killall_region.
    assert (Hlk : main < length (ths (kill_mb st (nth i (n_kill nt) 0) c))).
    { pose proof (sig_kill_mb st (nth i (n_kill nt) 0) c) as Hs. destruct (sig_lengths _ _ Hs) as [_ Hl]. rewrite Hl. auto. }
    destruct (S i <? length (n_kill nt)).
    + rewrite settle_other by (intros ? ? E; rewrite get_th_set_th_eq in E by auto; discriminate).
      unfold noticed. rewrite get_th_set_th_eq by auto. reflexivity.
    + apply (Hsettle _ 0); [rewrite length_ths_set_th; auto | rewrite get_th_set_th_eq by auto; reflexivity].
  - (* PJoin *) destruct exc as [c'|]; [|contradiction]. subst c'.
    apply (Hsettle st i); auto. rewrite (get_th_nth _ _ _ Et). exact Epc.
  - (* PFin *) unfold t_enabled in Een. rewrite Epc in Een. discriminate.
Qed.

Theorem shutdown_theorem nt main boxes threads :
  cover nt (mkSt boxes threads) main ->
  (forall t, In t threads -> plain_pc (t_pc t) /\ ~ main_pc (t_pc t) /\ forall r, In r (t_rd t) -> r_buf r = []) ->
  (forall m, In m boxes -> mb_box m = []) ->
  forall sched st c, nrun nt (ninit nt boxes threads) sched = Some st -> noticed main st c ->
  forall sched' st', nrun nt st sched' = Some st' -> quiescent nt st' ->
    all_terminal st' = true /\ main_outcome st' main = Some (OErr (EOrig c)).
Proof.
  intros Hcov Ht Hm sched st c Hr Hn sched' st' Hr' Hq.
  assert (HSI : SI nt main st).
  { apply (nrun_invariant nt (SI nt main)) with (sched := sched) (st := ninit nt boxes threads); auto.
    - intros. eapply SI_step; eauto.
    - apply SI_init; auto. }
  assert (H2 : SI nt main st' /\ noticed main st' c).
  { clear Hq Hr. revert st HSI Hn Hr'. induction sched' as [|t rest IH]; intros st HSI Hn Hr'; cbn in Hr'.
    - inversion Hr'; subst; auto.
    - destruct (nstep nt st t) as [s1|] eqn:E; [|discriminate].
      apply (IH s1); auto; [eapply SI_step; eauto | eapply noticed_step; eauto]. }
  destruct H2 as [HSI' Hn']. eapply noticed_shuts_down; eauto.
Qed.

(* ---------- a boolean check of the hypotheses, for examples and for the harness ---------- *)
Lemma existsb_eqb_In x l : existsb (Nat.eqb x) l = true <-> In x l.
Proof.
  rewrite existsb_exists. split.
  - intros [y [Hy E]]. apply Nat.eqb_eq in E. subst. auto.
  - intros H. exists x. split; auto. apply Nat.eqb_refl.
Qed.

Lemma nth_error_combine_seq {A} (l : list A) i t a :
  nth_error l i = Some t -> In (a + i, t) (combine (seq a (length l)) l).
Proof.
  revert i a; induction l as [|h tl IH]; intros [|i] a H; cbn in *; try discriminate.
  - inversion H; subst. left. f_equal. lia.
  - right. replace (a + S i) with (S a + i) by lia. apply IH. auto.
Qed.

Lemma cover_b_sound nt st main : cover_b nt st main = true -> cover nt st main.
Proof.
  unfold cover_b. intros H.
  apply andb_true_iff in H. destruct H as [H Hrd].
  apply andb_true_iff in H. destruct H as [H Hmk].
  apply andb_true_iff in H. destruct H as [H Hnm].
  apply andb_true_iff in H. destruct H as [H Hjn].
  apply andb_true_iff in H. destruct H as [H Hkr].
  apply andb_true_iff in H. destruct H as [H Hka].
  apply andb_true_iff in H. destruct H as [Hf1 Hmb].
  rewrite forallb_forall in Hrd, Hmk, Hjn, Hkr, Hka.
  split.
  - exact Hf1.
  - apply Nat.leb_le. auto.
  - intros j Hj. apply existsb_eqb_In. apply Hka. apply in_seq. lia.
  - intros j Hj. apply Nat.ltb_lt. apply Hkr. auto.
  - intros i Hi Hne. assert (Hx : (i =? main) || existsb (Nat.eqb i) (n_join nt) = true) by (apply Hjn; apply in_seq; lia).
    apply orb_true_iff in Hx. destruct Hx as [Hx|Hx]; [apply Nat.eqb_eq in Hx; congruence | apply existsb_eqb_In; auto].
  - intros Hin. apply existsb_eqb_In in Hin. rewrite Hin in Hnm. discriminate.
  - intros i t Hi.
    assert (Hc : In (i, t) (combine (seq 0 (length (ths st))) (ths st))) by (apply (nth_error_combine_seq _ _ _ 0); auto).
    specialize (Hmk _ Hc). cbn [fst snd] in Hmk. apply Bool.eqb_prop in Hmk.
    change (is_main_k t) with (is_main t). rewrite Hmk. apply Nat.eqb_eq.
  - intros i t r Hi Hr. specialize (Hrd t (nth_error_In _ _ Hi)).
    rewrite forallb_forall in Hrd. apply Nat.ltb_lt. apply Hrd. auto.
Qed.

(* the theorem with decidable premises: the harness evaluates them (extracted) on the network derived from
   every real processor it builds *)
Theorem shutdown_theorem_b nt main boxes threads :
  cover_b nt (mkSt boxes threads) main = true -> init_ok_b boxes threads = true ->
  forall sched st c, nrun nt (ninit nt boxes threads) sched = Some st -> noticed main st c ->
  forall sched' st', nrun nt st sched' = Some st' -> quiescent nt st' ->
    all_terminal st' = true /\ main_outcome st' main = Some (OErr (EOrig c)).
Proof.
  intros Hc Hi. apply shutdown_theorem.
  - apply cover_b_sound. auto.
  - unfold init_ok_b in Hi. apply andb_true_iff in Hi. destruct Hi as [Ht _]. rewrite forallb_forall in Ht.
    intros t Hin. specialize (Ht t Hin). apply andb_true_iff in Ht. destruct Ht as [Hp Hb].
    destruct (t_pc t) eqn:E; try discriminate. repeat split; try (cbn; tauto).
    intros r Hr. rewrite forallb_forall in Hb. specialize (Hb r Hr). destruct (r_buf r); [reflexivity | discriminate].
  - unfold init_ok_b in Hi. apply andb_true_iff in Hi. destruct Hi as [_ Hm]. rewrite forallb_forall in Hm.
    intros m Hin. specialize (Hm m Hin). destruct (mb_box m); [reflexivity | discriminate].
Qed.
