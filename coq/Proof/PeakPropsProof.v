(* compute_index_of_fraction: for ascending fractions the single pass over the samples gives, for
   every fraction, the index at which the cumulative area first reaches it (iof1). *)
From SV Require Import Model.PeakProps Spec.PeakPropsSpec.

Section Proofs.
Variable A : Q.

Lemma qle_bool_false_trans f f' s : (f <= f')%Q -> Qle_bool f s = false -> Qle_bool f' s = false.
Proof.
  intros Hle Hf. destruct (Qle_bool f' s) eqn:E; [|reflexivity].
  apply Qle_bool_iff in E. assert (H : Qle_bool f s = true).
  { apply Qle_bool_iff. eapply Qle_trans; eauto. }
  congruence.
Qed.

Lemma FOP_app_r {X} (R : X -> X -> Prop) l1 l2 : ForallOrdPairs R (l1 ++ l2) -> ForallOrdPairs R l2.
Proof.
  induction l1 as [|a l1 IH]; cbn [app]; [auto|]. intros H. inversion H; subst. auto.
Qed.

Lemma while_spec i x seen ft : forall fs, qsorted fs ->
  exists pre, fs = pre ++ snd (iof_while A i x seen ft fs) /\
    fst (iof_while A i x seen ft fs) = map (iof_value A i x seen) pre /\
    Forall (fun f => Qle_bool f (seen + ft) = true) pre /\
    Forall (fun f => Qle_bool f (seen + ft) = false) (snd (iof_while A i x seen ft fs)).
Proof.
  induction fs as [|f fs IH]; intros Hs.
  - exists []. cbn. repeat split; constructor.
  - cbn [iof_while]. destruct (Qle_bool f (seen + ft)) eqn:E.
    + inversion Hs as [|? ? Hall Hs']; subst. destruct (IH Hs') as (pre & H1 & H2 & H3 & H4).
      destruct (iof_while A i x seen ft fs) as [rs rem]. cbn [fst snd] in *.
      exists (f :: pre). cbn [app map]. repeat split; [congruence|congruence| |exact H4].
      constructor; auto.
    + exists []. cbn [fst snd app map]. repeat split; [constructor|].
      inversion Hs as [|? ? Hall Hs']; subst. constructor; [exact E|].
      eapply Forall_impl; [|exact Hall]. cbn. intros f' Hle. eapply qle_bool_false_trans; eauto.
Qed.

Lemma iof_loop_cons x d i seen f0 fs0 :
  iof_loop A (x :: d) i seen (f0 :: fs0) =
  match snd (iof_while A i x seen (x / A)%Q (f0 :: fs0)) with
  | [] => (fst (iof_while A i x seen (x / A)%Q (f0 :: fs0)), [])
  | rem => (fst (iof_while A i x seen (x / A)%Q (f0 :: fs0))
            ++ fst (iof_loop A d (i + 1) (seen + x / A)%Q rem),
            snd (iof_loop A d (i + 1) (seen + x / A)%Q rem))
  end.
Proof.
  cbn [iof_loop]. destruct (iof_while A i x seen (x / A)%Q (f0 :: fs0)) as [rs rem]. cbn [fst snd].
  destruct rem as [|r0 rem0]; [reflexivity|].
  destruct (iof_loop A d (i + 1) (seen + x / A)%Q (r0 :: rem0)) as [rs2 rem2]. reflexivity.
Qed.

Theorem iof_loop_spec : forall data i seen fs, qsorted fs ->
  exists pre, fs = pre ++ snd (iof_loop A data i seen fs) /\
    map (iof1 A data i seen) pre = map Some (fst (iof_loop A data i seen fs)) /\
    Forall (fun f => iof1 A data i seen f = None) (snd (iof_loop A data i seen fs)).
Proof.
  induction data as [|x d IH]; intros i seen fs Hs.
  - exists []. cbn [iof_loop fst snd app map]. repeat split. rewrite Forall_forall. auto.
  - destruct fs as [|f0 fs0].
    { exists []. cbn. repeat split; constructor. }
    rewrite iof_loop_cons. remember (f0 :: fs0) as fs eqn:Efs. clear Efs f0 fs0.
    destruct (while_spec i x seen (x / A)%Q fs Hs) as (pw & H1 & H2 & H3 & H4).
    destruct (iof_while A i x seen (x / A)%Q fs) as [rs rem] eqn:Ew. cbn [fst snd] in *.
    assert (Hpw : map (iof1 A (x :: d) i seen) pw = map Some rs).
    { rewrite H2, map_map. apply map_ext_in. intros f Hf. cbn [iof1].
      rewrite Forall_forall in H3. rewrite (H3 f Hf). reflexivity. }
    assert (Hrem : forall f, In f rem -> iof1 A (x :: d) i seen f = iof1 A d (i + 1) (seen + x / A)%Q f).
    { intros f Hf. cbn [iof1]. rewrite Forall_forall in H4. rewrite (H4 f Hf). reflexivity. }
    destruct rem as [|r0 rem0] eqn:Erem.
    + exists pw. cbn [fst snd]. repeat split; [exact H1|exact Hpw|constructor].
    + rewrite <- Erem in *. clear Erem.
      assert (Hs2 : qsorted rem) by (rewrite H1 in Hs; eapply FOP_app_r; eauto).
      destruct (IH (i + 1) (seen + x / A)%Q rem Hs2) as (p2 & G1 & G2 & G3).
      destruct (iof_loop A d (i + 1) (seen + x / A)%Q rem) as [rs2 rem2]. cbn [fst snd] in *.
      exists (pw ++ p2). repeat split.
      * rewrite <- app_assoc, <- G1. exact H1.
      * rewrite !map_app, Hpw. f_equal. rewrite <- G2. apply map_ext_in. intros f Hf.
        apply Hrem. rewrite G1. apply in_or_app. left; auto.
      * rewrite Forall_forall in *. intros f Hf. rewrite Hrem; [apply G3, Hf|].
        rewrite G1. apply in_or_app. right; auto.
Qed.

Lemma find_split {X} (p : X -> bool) pre rem :
  Forall (fun f => p f = false) pre -> Forall (fun f => p f = true) rem ->
  find p (pre ++ rem) = hd_error rem.
Proof.
  induction pre as [|a pre IH]; intros H1 H2; cbn [app].
  - destruct rem as [|b rem]; [reflexivity|]. inversion H2; subst. cbn. rewrite H3. reflexivity.
  - inversion H1; subst. cbn [find]. rewrite H3. apply IH; auto.
Qed.

Theorem index_of_fraction_spec len data fs :
  qsorted fs -> index_of_fraction A len data fs = iof_spec A len data fs.
Proof.
  intros Hs. unfold index_of_fraction, iof_spec.
  destruct (iof_loop_spec data 0 0%Q fs Hs) as (pre & H1 & H2 & H3).
  destruct (iof_loop A data 0 0%Q fs) as [rs rem]. cbn [fst snd] in *.
  assert (Hres : map (fun f => qdflt (iof1 A data 0 0%Q f)) fs = rs ++ map (fun _ => 0%Q) rem).
  { rewrite H1 at 1. rewrite map_app. f_equal.
    - assert (E : map qdflt (map (iof1 A data 0 0%Q) pre) = map qdflt (map Some rs)) by (rewrite H2; reflexivity).
      rewrite !map_map in E. cbn [qdflt] in E. rewrite map_id in E. exact E.
    - apply map_ext_in. intros f Hf. rewrite Forall_forall in H3. rewrite (H3 f Hf). reflexivity. }
  assert (Hfind : find (fun f => is_none (iof1 A data 0 0%Q f)) fs = hd_error rem).
  { rewrite H1 at 1. apply find_split.
    - rewrite Forall_forall. intros f Hf.
      assert (Hin : In (iof1 A data 0 0%Q f) (map Some rs)) by (rewrite <- H2; apply in_map; auto).
      apply in_map_iff in Hin as (v & <- & _). reflexivity.
    - eapply Forall_impl; [|exact H3]. cbn. intros f ->. reflexivity. }
  rewrite Hres, Hfind. destruct rem; reflexivity.
Qed.

End Proofs.

(* non-vacuity *)
Example iof_example :
  map Qred (index_of_fraction 8 4 [2#1; 4#1; 0; 2#1]%Q [1#4; 1#2; 1#1]%Q) = [1#1; 3#2; 4#1]%Q
  /\ qsorted [1#4; 1#2; 1#1]%Q.
Proof. split; [vm_compute; reflexivity|]. repeat constructor; unfold Qle; cbn; lia. Qed.
(* full area reached early (trailing zeros): the last entry is still the peak length, not 2 *)
Example iof_trailing_zeros :
  map Qred (index_of_fraction 8 4 [4#1; 4#1; 0; 0]%Q [1#1]%Q) = [4#1]%Q.
Proof. vm_compute. reflexivity. Qed.
